(* Structs/Theorems.v — the C06 / C07 statements over the Structs machine, for every identity
   hash (collisions included), every history of the machine (Structs/Machine.v). *)
From Salsa Require Import Base.
From Salsa.Kern Require Import CoreK.
From Salsa.Structs Require Import Model ProofsBase ProofsCascade Machine ProofsInv ProofsStep.

Section Thms.
Variable skind : N -> bool.
Variable sfams : list N.
Variable idhash : val -> N.
Variable n : nat.
Hypothesis sfams_skind : forall fam, In fam sfams -> skind fam = true.

Notation OInv := (OInv skind).
Notation owns := (owns skind).
Notation owner_ids := (owner_ids skind).
Notation peek_memo := (peek_memo skind).
Notation mstep := (mstep skind sfams idhash n).
Notation mrun := (mrun skind sfams idhash n).

(* ---- the invariant holds in every reachable state ---- *)
Theorem mrun_oinv es : forall s F s' F',
  OInv s F -> mrun (s, F) es = Some (s', F') -> OInv s' F'.
Proof.
  induction es as [|e es IH]; intros s F s' F' I H; cbn [Machine.mrun] in H.
  - injection H as <- <-. exact I.
  - destruct (mstep (s, F) e) as [[s1 F1]|] eqn:E; [|discriminate].
    exact (IH _ _ _ _ (mstep_oinv skind sfams idhash sfams_skind n _ _ _ _ _ I E) H).
Qed.

Theorem reachable_oinv iv idur es s F :
  mrun (init iv idur, []) es = Some (s, F) -> OInv s F.
Proof. apply mrun_oinv. apply oinv_init. Qed.

(* ---- C06_distinct ---- *)
Theorem distinct_ids iv idur es s F :
  mrun (init iv idur, []) es = Some (s, F) ->
  (forall o h, owns s F o h -> live s h) /\
  (forall o1 o2 h1 h2, owns s F o1 h1 -> owns s F o2 h2 -> o1 <> o2 -> fst h1 <> fst h2 /\ h1 <> h2) /\
  (forall o ids, owner_ids s F o ids -> NoDup (map fst ids) /\ NoDup ids).
Proof.
  intros H. pose proof (reachable_oinv _ _ _ _ _ H) as I. split; [exact (oi_live _ _ _ I)|]. split.
  - intros o1 o2 h1 h2 H1 H2 Hne.
    assert (Hi : fst h1 <> fst h2) by (intros E; exact (Hne (oi_uniq _ _ _ I _ _ _ _ H1 H2 E))).
    split; [exact Hi | intros E; apply Hi; now rewrite E].
  - intros o ids Ho. pose proof (oi_nodup _ _ _ I _ _ Ho) as Hnd. split; [exact Hnd|].
    exact (NoDup_map_inv _ _ Hnd).
Qed.

(* ---- C06_stable: recreation with the same identity keeps id, generation and memo table ---- *)
Theorem stable_recreation s F q fr idv f0 f1 l1 e l2 sl s' h fr' :
  OInv s F -> In (q, fr) F ->
  fr_ids fr = l1 ++ e :: l2 ->
  key_eqb (te_ident e) (idhash idv, cnt_get (fr_disamb fr) (idhash idv)) = true ->
  (forall x, In x l1 -> key_eqb (te_ident x) (idhash idv, cnt_get (fr_disamb fr) (idhash idv)) = false) ->
  d_slots s (fst (te_id e)) = Some sl -> sl_idv sl = idv -> snd (te_id e) + 1 < 4294967296 ->
  new_struct skind sfams idhash n q idv f0 f1 fr s = (s', SOk (h, fr')) ->
  h = te_id e /\ d_log s' = d_log s /\
  exists sl', d_slots s' (fst h) = Some sl' /\ sl_gen sl' = sl_gen sl /\ sl_gen sl' = snd h /\
              sl_updated sl' = Some (cur s) /\ (forall fam, sl_memos sl' fam = sl_memos sl fam) /\
              is_active (fr_ids fr') h = true.
Proof.
  intros I Hq El Hm Hnm Hs Hidv Hgen H. unfold new_struct, disambiguate in H.
  set (identity := (idhash idv, cnt_get (fr_disamb fr) (idhash idv))) in *.
  set (fr1 := set_fr_disamb fr (cnt_bump (fr_disamb fr) (idhash idv)) (cnt_bump (fr_occ fr) idv)) in *.
  change (fr_ids fr1) with (fr_ids fr) in H.
  destruct (reuse (fr_ids fr) identity) as [found ids1] eqn:Er.
  destruct (reuse_spec _ _ _ _ Er) as [(-> & -> & Hn0) | (l1' & e' & l2' & El' & Hm' & Hnm' & -> & ->)].
  { exfalso. assert (He : In e (fr_ids fr)) by (rewrite El; apply in_or_app; right; left; reflexivity).
    rewrite (Hn0 e He) in Hm. discriminate. }
  rewrite El in El'. destruct (nomatch_split identity _ _ _ _ _ _ El' Hm Hnm Hm' Hnm') as (<- & <- & <-).
  msplit H as r t0 H0. msplit H as slg t1 H1. apply get_slot_ok in H1. destruct H1 as [-> Hslg].
  msplit H as u2 t2 H2. mstep H2. apply ret_ok in H. destruct H as [Es' Eret]. subst s'. cbn [fst snd] in *.
  assert (Hide : In (te_id e) (frame_ids fr)).
  { unfold frame_ids. rewrite El, frame_ids_app. apply in_or_app. right. left. reflexivity. }
  destruct (oi_live _ _ _ I _ _ (owns_frame skind s F q fr _ Hq Hide)) as (sle & Hsle & Hule & Hgle).
  rewrite Hs in Hsle. injection Hsle as <-.
  assert (Hact : is_active (l1 ++ act e :: l2) (te_id e) = true).
  { unfold is_active.
    assert (Hnd : NoDup (map fst (frame_ids fr))) by (apply (oi_nodup _ _ _ I (OwF q)); exists fr; auto).
    unfold frame_ids in Hnd. rewrite El, map_map in Hnd.
    assert (Hfind : forall l0, (forall x, In x l0 -> fst (te_id x) <> fst (te_id e)) ->
              find (fun e0 => handle_eqb (te_id e0) (te_id e)) (l0 ++ act e :: l2) = Some (act e)).
    { induction l0 as [|x l0 IH]; intros Hl0; cbn [app find].
      - cbn [act te_id]. rewrite handle_eqb_refl. reflexivity.
      - destruct (handle_eqb (te_id x) (te_id e)) eqn:Ex.
        + apply handle_eqb_eq in Ex. exfalso. apply (Hl0 x (or_introl eq_refl)). now rewrite Ex.
        + apply IH. intros y Hy. apply Hl0. right. exact Hy. }
    rewrite Hfind; [reflexivity|].
    intros x Hx E. rewrite map_app in Hnd. cbn [map] in Hnd.
    apply (nodup_app_disj _ _ (fst (te_id e)) Hnd); [rewrite <- E; apply in_map_iff; exists x; auto | left; reflexivity]. }
  msplit H0 as u t3 H3.
  destruct (update_spec sfams n (te_id e) (fr_dur fr, fr_changed fr) idv f0 f1 s t3 u H3) as (sl0 & Hs0 & Hu0 & UR).
  rewrite Hs in Hs0. injection Hs0 as <-.
  destruct UR as [Hlk | Hnl Hng | t3 Hnl Hsame Hng B Es | t3 g' ex s1 Hnl Hdiff Hng C Hroot P B Es].
  - rewrite handle_eqb_refl in H0. mstep H0. injection Eret as -> ->. cbn [fst snd set_ideal set_cname d_log d_slots] in *.
    split; [reflexivity|]. split; [reflexivity|]. exists sl. rewrite Hs in Hslg. repeat split; auto.
  - exfalso. rewrite next_gen_spec in Hng. destruct (N.ltb_spec (snd (te_id e) + 1) 4294967296); [discriminate | lia].
  - rewrite handle_eqb_refl in H0. mstep H0. injection Eret as -> ->. cbn [fst snd set_ideal set_cname d_log d_slots] in *.
    split; [reflexivity|]. split.
    + (* the log: update emitted nothing *)
      clear -H3 Hsame Hs Hnl Hng. unfold update in H3.
      msplit H3 as a t0 H0. apply get_slot_ok in H0. destruct H0 as [-> Ha]. rewrite Hs in Ha. injection Ha as <-.
      msplit H3 as x t1 H1. mstep H1.
      destruct (sl_updated sl) as [r0|]; [|mstep H3].
      destruct (r0 =? cur s); [mstep H3; reflexivity|].
      destruct (next_gen (snd (te_id e))); [|mstep H3; reflexivity].
      msplit H3 as u2 t2 H2. apply put_slot_ok in H2. subst t2.
      rewrite Hsame, N.eqb_refl in H3. cbn [negb] in H3.
      msplit H3 as u3 t3' H3'. mstep H3'.
      msplit H3 as sl1 t4 H4. apply get_slot_ok in H4. destruct H4 as [-> _].
      msplit H3 as u5 t5 H5. apply put_slot_ok in H5. subst t5. mstep H3. reflexivity.
    + rewrite Es, updN_same in Hslg. injection Hslg as <-.
      exists (upd_slot sl (sl_gen sl) (fr_dur fr, fr_changed fr) (cur s) idv f0 f1 true).
      rewrite Es, updN_same. repeat split; auto.
  - contradiction.
Qed.

(* ---- C07: ids that new_struct issues ---- *)
Definition issued (s : db) : list handle := map fst (d_ideal s).

Theorem fresh_or_held s F q fr idv f0 f1 s' h fr' :
  OInv s F -> In (q, fr) F ->
  new_struct skind sfams idhash n q idv f0 f1 fr s = (s', SOk (h, fr')) ->
  (* either the frame already held this id (recreation of the same identity in place) ... *)
  (In h (frame_ids fr) /\ live s h /\
   exists sl sl', d_slots s (fst h) = Some sl /\ d_slots s' (fst h) = Some sl' /\ sl_gen sl' = sl_gen sl /\
                  (sl_updated sl = Some (cur s) \/ sl_idv sl = idv)) \/
  (* ... or it was never issued before, its memo table is empty and every field revision is the
     creator's current changed_at stamp *)
  (~ In h (issued s) /\
   exists sl', d_slots s' (fst h) = Some sl' /\ sl_gen sl' = snd h /\ (forall fam, sl_memos sl' fam = None) /\
               slot_fields sl' = (idv, f0, f1) /\ sl_updated sl' = Some (cur s) /\
               (sl_rev1 sl' = fr_changed fr)).
Proof.
  intros I Hq H. unfold new_struct, disambiguate in H.
  set (identity := (idhash idv, cnt_get (fr_disamb fr) (idhash idv))) in *.
  set (fr1 := set_fr_disamb fr (cnt_bump (fr_disamb fr) (idhash idv)) (cnt_bump (fr_occ fr) idv)) in *.
  change (fr_ids fr1) with (fr_ids fr) in H.
  destruct (reuse (fr_ids fr) identity) as [found ids1] eqn:Er.
  set (st := (fr_dur fr, fr_changed fr)) in *.
  msplit H as r t0 H0. msplit H as slg t1 H1. apply get_slot_ok in H1. destruct H1 as [-> Hslg].
  msplit H as u2 t2 H2. mstep H2. apply ret_ok in H. destruct H as [Es' Eret]. subst s'. cbn [fst snd] in *.
  (* allocation gives a never-issued id *)
  assert (Halloc : forall t id', allocate st idv f0 f1 s = (t, SOk id') ->
            ~ In id' (issued s) /\
            d_slots t (fst id') = Some (fresh_slot (snd id') st (cur s) idv f0 f1)).
  { intros t id' Ha. destruct (allocate_spec _ _ _ _ _ _ _ Ha) as (Es & _ & _ & _ & _ & Hcase).
    split; [|rewrite Es; apply updN_same].
    intros Hin. unfold issued in Hin. apply in_map_iff in Hin. destruct Hin as ([[i g] x] & E & Hin).
    cbn [fst] in E. subst id'. destruct (oi_issued _ _ _ I i g x Hin) as (sl & Hs & Hg). cbn [fst snd] in *.
    destruct Hcase as [(sk & g0 & Ef & Hng & _) | (Eh & _)].
    - destruct (oi_free _ _ _ I i g0) as (sl0 & Hs0 & _ & Hg0); [rewrite Ef; apply in_or_app; right; left; reflexivity|].
      rewrite Hs in Hs0. injection Hs0 as <-. apply next_gen_gt in Hng. lia.
    - injection Eh as -> _. assert (d_slots s (d_nslots s) = None) by (apply (oi_alloc _ _ _ I); lia). congruence. }
  destruct (reuse_spec _ _ _ _ Er) as [(-> & -> & Hnm) | (l1 & e & l2 & El & Hm & Hnm & -> & ->)].
  - msplit H0 as id' t3 H3. mstep H0. injection Eret as -> ->. cbn [fst snd set_ideal set_cname d_slots] in *.
    right. destruct (Halloc _ _ H3) as [Hni Hsl]. split; [exact Hni|].
    rewrite Hsl in Hslg. injection Hslg as <-. exists (fresh_slot (snd id') st (cur s) idv f0 f1).
    repeat split; auto.
  - assert (Hide : In (te_id e) (frame_ids fr)).
    { unfold frame_ids. rewrite El, frame_ids_app. apply in_or_app. right. left. reflexivity. }
    pose proof (oi_live _ _ _ I _ _ (owns_frame skind s F q fr _ Hq Hide)) as Hlv.
    destruct Hlv as (sle & Hsle & Hule & Hgle).
    msplit H0 as u t3 H3.
    destruct (update_spec sfams n (te_id e) st idv f0 f1 s t3 u H3) as (sl0 & Hs0 & Hu0 & UR).
    rewrite Hsle in Hs0. injection Hs0 as <-.
    destruct UR as [Hlk | Hnl Hng | t3 Hnl Hsame Hng B Es | t3 g' ex s1 Hnl Hdiff Hng C Hroot P B Es].
    + rewrite handle_eqb_refl in H0. mstep H0. injection Eret as -> ->. cbn [fst snd set_ideal set_cname d_slots] in *.
      left. split; [exact Hide|]. split; [exists sle; auto|].
      exists sle, sle. rewrite Hsle in Hslg. auto.
    + msplit H0 as id' t4 H4. mstep H0. injection Eret as -> ->. cbn [fst snd set_ideal set_cname d_slots] in *.
      right. destruct (Halloc _ _ H4) as [Hni Hsl]. split; [exact Hni|].
      rewrite Hsl in Hslg. injection Hslg as <-. exists (fresh_slot (snd id') st (cur s) idv f0 f1).
      repeat split; auto.
    + rewrite handle_eqb_refl in H0. mstep H0. injection Eret as -> ->. cbn [fst snd set_ideal set_cname d_slots] in *.
      left. split; [exact Hide|]. split; [exists sle; auto|].
      exists sle, slg. rewrite Es, updN_same in Hslg. injection Hslg as <-.
      rewrite Es, updN_same. repeat split; auto.
    + assert (Hne : handle_eqb (fst (te_id e), g') (te_id e) = false).
      { apply handle_eqb_neq. intros E. apply next_gen_gt in Hng. rewrite <- E in Hng. cbn [snd] in Hng. lia. }
      rewrite Hne in H0. mstep H0. injection Eret as -> ->. cbn [fst snd set_ideal set_cname d_slots] in *.
      right. split.
      * intros Hin. unfold issued in Hin. apply in_map_iff in Hin. destruct Hin as ([[i g] x] & E & Hin).
        cbn [fst] in E. injection E as -> ->. destruct (oi_issued _ _ _ I _ _ x Hin) as (sl & Hs & Hg).
        rewrite Hsle in Hs. injection Hs as <-. apply next_gen_gt in Hng. lia.
      * rewrite Es, updN_same in Hslg. injection Hslg as <-.
        exists (upd_slot sle g' st (cur s) idv f0 f1 false). rewrite Es, updN_same.
        repeat split; auto.
Qed.

(* ---- C07: reads through an id that somebody holds agree with the ideal store ---- *)
Theorem read_agrees_ideal s F o h f fr s' v fr' :
  OInv s F -> owns s F o h ->
  read_field h f fr s = (s', SOk (v, fr')) ->
  exists idv f0 f1, ideal_get (d_ideal s) h = Some (idv, f0, f1) /\ v = (if f =? 0 then f0 else f1).
Proof.
  intros I Ho H. destruct (oi_live _ _ _ I _ _ Ho) as (sl & Hs & Hu & Hg).
  unfold read_field in H. msplit H as sl' t0 H0.
  destruct (lock_spec _ _ _ _ H0) as (sl0 & Hs0 & _ & _ & _ & _ & Hf & _ & Hr0 & Hr1 & _).
  rewrite Hs in Hs0. injection Hs0 as <-.
  exists (sl_idv sl), (sl_f0 sl), (sl_f1 sl). split.
  - pose proof (oi_ideal _ _ _ I _ _ Hs Hu) as Hi. rewrite Hg in Hi. destruct h; exact Hi.
  - unfold slot_fields in Hf. injection Hf as _ E0 E1.
    destruct (f =? 0); mstep H; congruence.
Qed.

Theorem idfield_agrees_ideal s F o h s' v :
  OInv s F -> owns s F o h ->
  read_idfield h s = (s', SOk v) ->
  exists f0 f1, ideal_get (d_ideal s) h = Some (v, f0, f1).
Proof.
  intros I Ho H. destruct (oi_live _ _ _ I _ _ Ho) as (sl & Hs & Hu & Hg).
  unfold read_idfield in H. msplit H as sl' t0 H0.
  destruct (lock_spec _ _ _ _ H0) as (sl0 & Hs0 & _ & _ & _ & _ & Hf & _).
  rewrite Hs in Hs0. injection Hs0 as <-. mstep H.
  exists (sl_f0 sl), (sl_f1 sl).
  pose proof (oi_ideal _ _ _ I _ _ Hs Hu) as Hi. rewrite Hg in Hi. unfold slot_fields in *.
  injection Hf as -> _ _. destruct h; exact Hi.
Qed.

(* memo lookups through an id somebody holds land in the memo table of that very id *)
Theorem memo_lookup_current s F o h fam :
  OInv s F -> owns s F o h -> skind fam = true ->
  exists sl, d_slots s (fst h) = Some sl /\ sl_gen sl = snd h /\ peek_memo s (fam, fst h) = sl_memos sl fam.
Proof.
  intros I Ho Hk. destruct (oi_live _ _ _ I _ _ Ho) as (sl & Hs & Hu & Hg).
  exists sl. repeat split; auto. unfold Machine.peek_memo. cbn [fst snd]. rewrite Hk, Hs.
  destruct (sl_updated sl); [reflexivity | contradiction Hu; reflexivity].
Qed.

(* dependency checks on a tracked field: decided by the slot's current field revision only *)
Theorem field_mca_spec h f since s s' b :
  field_mca h f since s = (s', SOk b) ->
  s' = s /\ exists sl, d_slots s (fst h) = Some sl /\
    (b = true <-> since < (if f =? 0 then sl_rev0 sl else sl_rev1 sl)).
Proof.
  unfold field_mca. intros H. msplit H as sl t0 H0. apply get_slot_ok in H0. destruct H0 as [-> Hs]. mstep H.
  split; [reflexivity|]. exists sl. split; [exact Hs|].
  unfold Kernels.k_changed_after_tracked_field.
  destruct (N.ltb_spec since (if f =? 0 then sl_rev0 sl else sl_rev1 sl)); split; intros; try lia; try reflexivity; try discriminate.
Qed.


(* ---- C06_discard ---- *)
Lemma live_slots_in s : forall k i, In i (live_slots s k) ->
  exists sl, d_slots s i = Some sl /\ sl_updated sl <> None.
Proof.
  induction k as [|k IH]; intros i H; cbn [live_slots] in H; [destruct H|].
  apply in_app_or in H. destruct H as [H | H]; [exact (IH i H)|].
  destruct (d_slots s (N.of_nat k)) as [sl|] eqn:E; [|destruct H].
  destruct (sl_updated sl) as [r|] eqn:Eu; [|destruct H].
  destruct H as [<- | []]. exists sl. split; [exact E | rewrite Eu; discriminate].
Qed.

Lemma put_memo_frame q m s s' u :
  put_memo skind q m s = (s', SOk u) ->
  d_free s' = d_free s /\
  forall j, (skind (fst q) = true -> j <> fst (snd q)) -> d_slots s' j = d_slots s j.
Proof.
  unfold put_memo. intros H. msplit H as u0 t0 H0.
  assert (H1 : d_free t0 = d_free s /\ forall j, (skind (fst q) = true -> j <> fst (snd q)) -> d_slots t0 j = d_slots s j).
  { destruct (skind (fst q)) eqn:Hk.
    - msplit H0 as sl0 t1 H1. mstep H0.
      destruct (lock_spec _ _ _ _ H1) as (sl & _ & _ & _ & _ & _ & _ & _ & _ & _ & B & _ & Es).
      split; [exact (sb_free _ _ B)|]. intros j Hj. rewrite Es. apply updN_other. intros E. exact (Hj eq_refl (eq_sym E)).
    - mstep H0. auto. }
  destruct H1 as [Ef0 Es0].
  destruct (store_memo_spec skind _ _ _ _ _ H) as (_ & _ & Ef & _ & Hcase).
  split; [congruence|]. intros j Hj. rewrite <- (Es0 j Hj).
  destruct Hcase as [(_ & _ & Es) | (Hk & _ & sl & _ & Es)]; [apply Es|].
  rewrite Es. apply updN_other. intros E. exact (Hj Hk (eq_sym E)).
Qed.

Theorem discard_stale s F q fr v s' m o e :
  OInv s F -> In (q, fr) F ->
  peek_memo s (loc_of q) = Some o -> (forall by_, m_origin o <> OAssigned by_) ->
  finish_exec skind sfams n q (peek_memo s (loc_of q)) v fr s = (s', SOk m) ->
  In e (fr_ids fr) -> te_active e = false ->
  (* the struct that was not recreated is deleted: write-locked, memo table empty, slot on the
     free list, not enumerated *)
  exists sl, d_slots s' (fst (te_id e)) = Some sl /\ sl_updated sl = None /\
             (forall fam, sl_memos sl fam = None) /\ In (te_id e) (d_free s') /\
             ~ In (fst (te_id e)) (live_slots s' (N.to_nat (d_nslots s'))).
Proof.
  intros I Hq Eo Hor H He Hina. unfold finish_exec in H. rewrite Eo in H.
  destruct (drain (fr_ids fr)) as [active stale] eqn:Ed.
  destruct (backdate (Some o) (fr_dur fr) (fr_changed fr) v) as [ch | p |]; [|mstep H|mstep H].
  msplit H as u0 t0 H0. destruct u0. msplit H as x t1 H1. mstep H1. msplit H as u2 t2 H2. mstep H.
  destruct (diff_outputs_casc sfams n o q stale (fr_edges fr) s t0 H0) as (ex & C & P & R).
  assert (Hr : In (te_id e) (diff_roots o stale)).
  { unfold diff_roots. destruct (m_origin o) as [| | by_] eqn:Eor; [| |exfalso; exact (Hor by_ eq_refl)].
    - pose proof (proj2 (drain_stale (fr_ids fr) (te_id e))) as D. rewrite Ed in D. cbn [snd] in D. apply D.
      apply in_map. apply filter_In. split; [exact He | rewrite Hina; reflexivity].
    - pose proof (proj2 (drain_stale (fr_ids fr) (te_id e))) as D. rewrite Ed in D. cbn [snd] in D. apply D.
      apply in_map. apply filter_In. split; [exact He | rewrite Hina; reflexivity]. }
  pose proof (R _ Hr) as Hin.
  destruct (cs_died _ _ _ C _ Hin) as (sl & Hs & Hu & Hlk & Hd).
  destruct (put_memo_frame _ _ _ _ _ H2) as [Ef Eoth].
  assert (Hne : skind (fst q) = true -> fst (te_id e) <> fst (snd q)).
  { intros Hk E. destruct (oi_locked _ _ _ I q fr Hq Hk) as (sl1 & Hs1 & Hu1).
    rewrite <- E, Hs in Hs1. injection Hs1 as <-. contradiction. }
  exists (dead sl). rewrite (Eoth _ Hne). split; [exact Hd|]. split; [reflexivity|]. split; [reflexivity|]. split.
  - rewrite Ef, (cs_free _ _ _ C). apply in_or_app. right. exact Hin.
  - intros Hl. destruct (live_slots_in _ _ _ Hl) as (sl2 & Hs2 & Hu2).
    rewrite (Eoth _ Hne), Hd in Hs2. injection Hs2 as <-. apply Hu2. reflexivity.
Qed.

(* what the completed execution keeps: exactly the entries it created or recreated *)
Theorem kept_exactly s F q fr v s' m :
  OInv s F -> In (q, fr) F ->
  finish_exec skind sfams n q (peek_memo s (loc_of q)) v fr s = (s', SOk m) ->
  mids m = map te_id (filter te_active (fr_ids fr)) /\
  peek_memo s' (loc_of q) = Some m /\
  (forall h, In h (mids m) -> live s' h).
Proof.
  intros I Hq H. destruct (finish_oinv skind sfams sfams_skind n q _ v fr s F s' m I Hq H) as [I' Em].
  split; [exact Em|].
  assert (Hp : peek_memo s' (loc_of q) = Some m).
  { unfold finish_exec in H. destruct (drain (fr_ids fr)) as [active stale].
    destruct (backdate (peek_memo s (loc_of q)) (fr_dur fr) (fr_changed fr) v) as [ch | p |]; [|mstep H|mstep H].
    msplit H as u0 t0 H0. msplit H as x t1 H1. mstep H1. msplit H as u2 t2 H2. mstep H.
    unfold put_memo in H2. msplit H2 as u3 t3 H3.
    unfold Machine.peek_memo. cbn [loc_of fst snd].
    destruct (store_memo_spec skind _ _ _ _ _ H2) as (_ & _ & _ & _ & Hcase).
    destruct Hcase as [(Hk & Em' & _) | (Hk & _ & sl & Hs & Es)]; rewrite Hk.
    - rewrite Em'. unfold loc_of. apply upd_same.
    - rewrite Hk in H3. msplit H3 as sl0 t4 H4. mstep H3.
      destruct (lock_spec _ _ _ _ H4) as (sl1 & _ & _ & Hu' & _ & _ & _ & _ & _ & _ & _ & _ & Es1).
      rewrite Es1, updN_same in Hs. injection Hs as <-.
      rewrite Es, updN_same. cbn [set_sl_memos sl_updated sl_memos]. rewrite Hu'. apply updN_same. }
  split; [exact Hp|].
  intros h Hh. apply (oi_live _ _ _ I' (OwM (loc_of q))). exists (mids m). split; [|exact Hh].
  split; [|exists m; auto].
  intros (q' & fr' & Hin & El). pose proof (oi_frames _ _ _ I) as HF.
  apply (in_del_frame F q fr q' fr' HF Hq) in Hin. destruct Hin as [Hne Hin].
  destruct (frames_fun_loc F q' q fr' fr HF Hin Hq El) as [E _]. contradiction.
Qed.

End Thms.

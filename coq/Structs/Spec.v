(* Structs/Spec.v — the specification side for bodies with tracked structs and `specify`:
   what ONE evaluation on a fresh database computes.  No revisions, no verification, no
   slot reuse: struct handles are interned canonical names

        (creator query, identity value, occurrence index among equal identity values)

   so two evaluations agree iff they agree on plain data and on canonical names — never on
   slot ids.  Definitions only. *)
From Salsa Require Import Base.
From Salsa.Structs Require Import Model.

Fixpoint cname_eqb (a b : cname) : bool :=
  match a, b with
  | CN f k v o, CN f' k' v' o' => (f =? f') && ckey_eqb k k' && (v =? v') && (o =? o')
  end
with ckey_eqb (a b : ckeyt) : bool :=
  match a, b with
  | KIn i, KIn j => i =? j
  | KSt c, KSt d => cname_eqb c d
  | _, _ => false
  end.

(* spec_ids: the canonical names of the structs one execution creates, in creation order:
   the j-th struct with identity value v created by [q] is (q, v, j) *)
Fixpoint spec_ids_from (fam : N) (key : ckeyt) (seen : list (N * N)) (idvs : list val) : list cname :=
  match idvs with
  | [] => []
  | v :: rest => CN fam key v (cnt_get seen v) :: spec_ids_from fam key (cnt_bump seen v) rest
  end.
Definition spec_ids (fam : N) (key : ckeyt) (idvs : list val) : list cname :=
  spec_ids_from fam key [] idvs.

(* a snapshot of everything outside salsa's tables *)
Record snapshot := { sn_in : ikey -> val; sn_cell : cell -> val }.
Definition snap_of (s : db) : snapshot :=
  {| sn_in := fun i => f_val (d_in s i); sn_cell := d_cell s |}.

(* state of one from-scratch evaluation *)
Record sstate := {
  ss_names : list cname;                          (* handle (i, 0) = i-th interned name *)
  ss_fields : list (N * (val * val * val));       (* handle index -> (idv, f0, f1) *)
  ss_done : list (qk * (rval * bool));            (* evaluated keys: result, assigned-by-specify? *)
  ss_ignored : N                                  (* specify calls ignored: the key was computed earlier *)
}.
Definition ss0 : sstate := {| ss_names := []; ss_fields := []; ss_done := []; ss_ignored := 0 |}.

Definition SM (A : Type) := sstate -> sstate * sres A.
Definition sret {A} (a : A) : SM A := fun s => (s, SOk a).
Definition sbind {A B} (m : SM A) (f : A -> SM B) : SM B :=
  fun s => match m s with
           | (s', SOk a) => f a s'
           | (s', SPanic p) => (s', SPanic p)
           | (s', SFuel) => (s', SFuel)
           end.
Definition sfail {A} (p : spanic) : SM A := fun s => (s, SPanic p).
Definition sfuel {A} : SM A := fun s => (s, SFuel).

Fixpoint find_name (l : list cname) (c : cname) (i : N) : option N :=
  match l with
  | [] => None
  | x :: l' => if cname_eqb x c then Some i else find_name l' c (i + 1)
  end.

Fixpoint fields_get (l : list (N * (val * val * val))) (i : N) : val * val * val :=
  match l with
  | [] => (0, 0, 0)
  | (j, x) :: l' => if j =? i then x else fields_get l' i
  end.

Fixpoint done_get (l : list (qk * (rval * bool))) (q : qk) : option (rval * bool) :=
  match l with
  | [] => None
  | (q', x) :: l' => if qk_eqb q' q then Some x else done_get l' q
  end.

(* the local view of one running query *)
Record sframe := { sf_occ : list (N * N); sf_own : list handle; sf_assigned : list qk }.
Definition sframe0 : sframe := {| sf_occ := []; sf_own := []; sf_assigned := [] |}.

Section SpecEval.
Variable prog : qk -> body.
Variable skind : N -> bool.
Variable sn : snapshot.

Definition ckey_spec (s : sstate) (q : qk) : ckeyt :=
  if skind (fst q) then
    match nth_error (ss_names s) (N.to_nat (fst (snd q))) with
    | Some c => KSt c
    | None => KIn (fst (snd q))
    end
  else KIn (fst (snd q)).

Fixpoint srun (ev : qk -> SM rval) (q : qk) (b : body) (lf : sframe) : SM rval :=
  match b with
  | Ret v hs => sret (v, hs)
  | RdIn i k => srun ev q (k (sn_in sn i)) lf
  | CallQ c k => sbind (ev c) (fun r => srun ev q (k r) lf)
  | RdCell c k => srun ev q (k (sn_cell sn c)) lf
  | Touch k => srun ev q k lf
  | NewStruct idv f0 f1 k =>
      fun s =>
        let nm := CN (fst q) (ckey_spec s q) idv (cnt_get (sf_occ lf) idv) in
        let lf' := fun h => {| sf_occ := cnt_bump (sf_occ lf) idv; sf_own := h :: sf_own lf;
                               sf_assigned := sf_assigned lf |} in
        match find_name (ss_names s) nm 0 with
        | Some i =>
            srun ev q (k (i, 0)) (lf' (i, 0))
                 {| ss_names := ss_names s; ss_fields := (i, (idv, f0, f1)) :: ss_fields s;
                    ss_done := ss_done s; ss_ignored := ss_ignored s |}
        | None =>
            let i := N.of_nat (length (ss_names s)) in
            srun ev q (k (i, 0)) (lf' (i, 0))
                 {| ss_names := ss_names s ++ [nm]; ss_fields := (i, (idv, f0, f1)) :: ss_fields s;
                    ss_done := ss_done s; ss_ignored := ss_ignored s |}
        end
  | RdField h f k =>
      fun s => let '(_, f0, f1) := fields_get (ss_fields s) (fst h) in
               srun ev q (k (if f =? 0 then f0 else f1)) lf s
  | RdIdField h k =>
      fun s => let '(idv, _, _) := fields_get (ss_fields s) (fst h) in srun ev q (k idv) lf s
  | Specify fam h v k =>
      if negb (existsb (handle_eqb h) (sf_own lf)) then sfail PSpecForeign
      else
        fun s =>
          match done_get (ss_done s) (fam, h) with
          | Some (_, true) =>
              if existsb (qk_eqb (fam, h)) (sf_assigned lf) then (s, SPanic PSpecTwice)
              else srun ev q k lf s
          | Some (_, false) =>                           (* computed earlier: kept *)
              srun ev q k lf {| ss_names := ss_names s; ss_fields := ss_fields s;
                                ss_done := ss_done s; ss_ignored := ss_ignored s + 1 |}
          | None =>
              srun ev q k {| sf_occ := sf_occ lf; sf_own := sf_own lf;
                             sf_assigned := (fam, h) :: sf_assigned lf |}
                   {| ss_names := ss_names s; ss_fields := ss_fields s;
                      ss_done := ((fam, h), (v, true)) :: ss_done s; ss_ignored := ss_ignored s |}
          end
  end.

(* evaluation of a key: already evaluated / assigned -> that result; otherwise run the body *)
Fixpoint seval (n : nat) (q : qk) : SM rval :=
  match n with
  | O => sfuel
  | S n' =>
      fun s =>
        match done_get (ss_done s) q with
        | Some (r, _) => (s, SOk r)
        | None =>
            match srun (seval n') q (prog q) sframe0 s with
            | (s', SOk r) =>
                (* a key assigned while its own body ran cannot occur (claim); keep first *)
                match done_get (ss_done s') q with
                | Some (r', _) => (s', SOk r')
                | None => ({| ss_names := ss_names s'; ss_fields := ss_fields s';
                              ss_done := (q, (r, false)) :: ss_done s'; ss_ignored := ss_ignored s' |}, SOk r)
                end
            | x => x
            end
        end
  end.

Definition names_of (s : sstate) (hs : list handle) : list (option cname) :=
  map (fun h => nth_error (ss_names s) (N.to_nat (fst h))) hs.

(* Get q on a fresh database: plain value and the canonical names of the returned structs *)
Definition spec_get (n : nat) (q : qk) : sres (val * list (option cname)) :=
  match seval n q ss0 with
  | (s, SOk r) => SOk (fst r, names_of s (snd r))
  | (_, SPanic p) => SPanic p
  | (_, SFuel) => SFuel
  end.

(* GetS fam q i on a fresh database *)
Definition spec_gets (n : nat) (fam : N) (q : qk) (i : N) : sres (val * list (option cname)) :=
  match seval n q ss0 with
  | (s, SOk r) =>
      match nth_error (snd r) (N.to_nat i) with
      | None => SOk (255, [])
      | Some h =>
          match seval n (fam, h) s with
          | (s', SOk r') => SOk (fst r', names_of s' (snd r'))
          | (_, SPanic p) => SPanic p
          | (_, SFuel) => SFuel
          end
      end
  | (_, SPanic p) => SPanic p
  | (_, SFuel) => SFuel
  end.

(* how many specify calls the fresh evaluation of Get q / GetS ignored (computed-earlier rule) *)
Definition spec_ignored (n : nat) (q : qk) (after : option (N * N)) : N :=
  match seval n q ss0 with
  | (s, SOk r) =>
      match after with
      | Some (fam, i) =>
          match nth_error (snd r) (N.to_nat i) with
          | Some h => ss_ignored (fst (seval n (fam, h) s))
          | None => ss_ignored s
          end
      | None => ss_ignored s
      end
  | (s, _) => ss_ignored s
  end.

(* number of structs a fresh database holds after Get q: every interned name *)
Definition spec_live (n : nat) (q : qk) : N :=
  N.of_nat (length (ss_names (fst (seval n q ss0)))).

End SpecEval.

(* model side of the comparison: the canonical names of the handles the model returned *)
Definition model_names (s : db) (hs : list handle) : list (option cname) :=
  map (fun h => match find (fun kv => handle_eqb (fst kv) h) (d_cname s) with
                | Some kv => Some (snd kv)
                | None => None
                end) hs.

(* Structs/SKeyedEx.v — struct-keyed families: machine-checked INSTANCES (vm_compute), not the
   general theorem (the from-scratch theorem for keyed families is not proved: Props/C06.v (K)).
   One history exercising: a struct-keyed memo surviving the re-creation of its key struct with
   the same identity; a deletion cascade (struct -> memos keyed by it -> the structs those
   created); the reuse of a slot whose old keyed memo must not be served.  Each Get / GetS of the
   history is compared with the specification Structs/Spec.v evaluated on the snapshot after it;
   the proved invariant (Sim.model_invariant_every_op) applies: the history is handle-safe. *)
From Salsa Require Import Base.
From Salsa.Kern Require Import CoreK.
From Salsa.Structs Require Import Model Dsl Spec Machine Examples Guard SimBase Sim SimExamples.

(* mk  = (1,0): if in(0,0) then S := new(id = in(0,1); f0 = in(0,2), f1 = in(0,3)); return [S]
   onS = (2,_): keyed by a struct: field 0 of the key + 1
   own = (3,_): keyed by a struct: T := new(id 9; f0 = field 0 of the key, f1 = 0); field 0 of T + 100 *)
Definition k_nodes : list ((N * N) * expr) :=
  [((1, 0), EIf (EInp 0 0) (ELet 2 (HNew (EInp 0 1) (EInp 0 2) (EInp 0 3)) (ERetH 2) (ELit 0)) (ELit 0));
   ((2, 0), ELet 0 HSelf (EOp BAdd (EField 0 0) (ELit 1)) (ELit 0));
   ((3, 0), ELet 0 HSelf (ELet 1 (HNew (ELit 9) (EField 0 0) (ELit 0)) (EOp BAdd (EField 1 0) (ELit 100)) (ELit 0)) (ELit 0))].
Definition k_ival : list ((N * N) * N) := [((0, 0), 1); ((0, 1), 0); ((0, 2), 3); ((0, 3), 0)].
Definition k_ops : list op :=
  [OGetS 2 (1, (0, 0)) 0; OGetS 3 (1, (0, 0)) 0; OEntries;
   OSet (0, 3) 7 None; OGetS 2 (1, (0, 0)) 0; OGetS 3 (1, (0, 0)) 0;
   OSet (0, 0) 0 None; OGet (1, (0, 0)); OEntries;
   OSet (0, 2) 5 None; OSet (0, 0) 1 None; OGetS 2 (1, (0, 0)) 0; OEntries].
Definition k_idhash (v : val) : N := v.

Notation k_prog := (prog_of 1 skind5 k_nodes).
Notation k_init := (init (lookup3 k_ival) (fun _ => 0)).
Notation k_run := (run_ops k_prog skind5 sfams5 k_idhash 40%nat k_init k_ops).

(* every Get / GetS answer has the data value the specification computes on the snapshot after it *)
Fixpoint agree_ops (prog : qk -> body) (s : db) (os : list op) : bool :=
  match os with
  | [] => true
  | o :: os' =>
      let '(s', r) := step prog skind5 sfams5 k_idhash 40%nat s o in
      (match o, r with
       | OGet q, SOk v =>
           match spec_get prog skind5 (snap_of s') 40%nat q with SOk (x, _) => x =? fst v | _ => false end
       | OGetS fam q i, SOk v =>
           match spec_gets prog skind5 (snap_of s') 40%nat fam q i with SOk (x, _) => x =? fst v | _ => false end
       | OGet _, _ | OGetS _ _ _, _ => false
       | _, _ => true
       end) && agree_ops prog s' os'
  end.

Example k_bwf : forall q, bwf skind5 (k_prog q).
Proof. apply prog_of_bwf. vm_compute. reflexivity. Qed.

Example k_handle_safe : handle_safe k_prog skind5 sfams5 k_idhash 40%nat k_init k_ops = true.
Proof. vm_compute. reflexivity. Qed.

(* onS = 3 + 1, own = 3 + 100, two structs; f1 := 7 re-creates the key in place with the same
   identity: both keyed memos are VALIDATED, not re-executed; in0 := 0 deletes the key: cascade;
   f0 := 5, in0 := 1: the key is re-created in a reused slot with the next generation, onS is
   executed afresh: 5 + 1 *)
Example k_outputs :
  snd k_run = [SOk (4, []); SOk (103, []); SOk (2, []); SOk (0, []); SOk (4, []); SOk (103, []);
               SOk (0, []); SOk (0, []); SOk (0, []); SOk (0, []); SOk (0, []); SOk (6, []); SOk (1, [])].
Proof. vm_compute. reflexivity. Qed.

Example k_log :
  List.rev (d_log (fst k_run)) =
  [EvExec (1, (0, 0)); EvExec (2, (0, 0)); EvExec (3, (0, 0));
   EvExec (1, (0, 0)); EvValidate (2, (0, 0)); EvValidate (3, (0, 0));
   EvExec (1, (0, 0)); EvWillDiscard (1, (0, 0)) (0, 0); EvDiscardS (0, 0);
   EvDiscardM (2, (0, 0)); EvDiscardM (3, (0, 0)); EvDiscardS (1, 0);
   EvExec (1, (0, 0)); EvExec (2, (1, 1))].
Proof. vm_compute. reflexivity. Qed.

Example k_agrees_spec : agree_ops k_prog k_init k_ops = true.
Proof. vm_compute. reflexivity. Qed.

Example k_invariant : OInv skind5 (fst k_run) [] /\ d_stack (fst k_run) = [].
Proof.
  destruct (model_invariant_every_op k_prog skind5 sfams5 k_idhash sfams5_skind k_bwf 40%nat
              (lookup3 k_ival) (fun _ => 0) k_ops k_handle_safe k_ops [] (eq_sym (app_nil_r _)))
    as (_ & I & E).
  exact (conj I E).
Qed.

(* Structs/SSem.v — the semantic side of the from-scratch development for tracked structs
   (programs without `specify`): the denotation of a body under a read environment that also
   answers tracked-struct reads (fields by handle) and creations (an allocator: identity ->
   handle), read traces, "a run is a function of the answers to its reads", worlds and
   from-scratch evaluation by rank, the call closure, and provenance (a body only uses handles
   it was given).  No model state here. *)
From Salsa Require Import Base.
From Salsa.Kern Require Import CoreK.
From Salsa.Structs Require Import Model ProofsBase.

(* the reads a body performs; a creation is a read of the allocator *)
Inductive rd :=
| RIn (i : ikey) | RQ (q : qk) | RCell (c : cell) | RTouch
| RNew (id : ident) (idv f0 f1 : val)
| RFld (h : handle) (f : N)
| RIdf (h : handle).

Record senv := {
  e_in : ikey -> val; e_cell : cell -> val; e_q : qk -> rval;
  e_slot : handle -> val * val * val;          (* identity value, field 0, field 1 *)
  e_new : ident -> handle                      (* the allocator of the running query *)
}.

Definition fld3 (x : val * val * val) (f : N) : val := if f =? 0 then snd (fst x) else snd x.
Definition idv3 (x : val * val * val) : val := fst (fst x).

Lemma rval_eq_dec (a b : rval) : {a = b} + {a <> b}.
Proof. repeat decide equality. Qed.
Lemma handle_eq_dec (a b : handle) : {a = b} + {a <> b}.
Proof. repeat decide equality. Qed.

Section Sem.
Variable idhash : val -> N.

Definition nident (dis : list (N * N)) (idv : val) : ident := (idhash idv, cnt_get dis (idhash idv)).

(* the denotation of a body (`specify` does not occur in the programs considered: skipped) *)
Fixpoint run (e : senv) (b : body) (dis : list (N * N)) : rval :=
  match b with
  | Ret v hs => (v, hs)
  | RdIn i k => run e (k (e_in e i)) dis
  | CallQ c k => run e (k (e_q e c)) dis
  | RdCell c k => run e (k (e_cell e c)) dis
  | Touch k => run e k dis
  | NewStruct idv f0 f1 k => run e (k (e_new e (nident dis idv))) (cnt_bump dis (idhash idv))
  | RdField h f k => run e (k (fld3 (e_slot e h) f)) dis
  | RdIdField h k => run e (k (idv3 (e_slot e h))) dis
  | Specify _ _ _ k => run e k dis
  end.

Fixpoint trace (e : senv) (b : body) (dis : list (N * N)) : list rd :=
  match b with
  | Ret _ _ => []
  | RdIn i k => RIn i :: trace e (k (e_in e i)) dis
  | CallQ c k => RQ c :: trace e (k (e_q e c)) dis
  | RdCell c k => RCell c :: trace e (k (e_cell e c)) dis
  | Touch k => RTouch :: trace e k dis
  | NewStruct idv f0 f1 k =>
      RNew (nident dis idv) idv f0 f1 :: trace e (k (e_new e (nident dis idv))) (cnt_bump dis (idhash idv))
  | RdField h f k => RFld h f :: trace e (k (fld3 (e_slot e h) f)) dis
  | RdIdField h k => RIdf h :: trace e (k (idv3 (e_slot e h))) dis
  | Specify _ _ _ k => trace e k dis
  end.

Definition answer (e : senv) (r : rd) : rval :=
  match r with
  | RIn i => (e_in e i, [])
  | RQ q => e_q e q
  | RCell c => (e_cell e c, [])
  | RTouch => (0, [])
  | RNew id _ _ _ => (0, [e_new e id])
  | RFld h f => (fld3 (e_slot e h) f, [])
  | RIdf h => (idv3 (e_slot e h), [])
  end.

Definition agree_on (e e' : senv) (l : list rd) : Prop := forall r, In r l -> answer e r = answer e' r.

Lemma agree_on_cons e e' r l : agree_on e e' (r :: l) -> answer e r = answer e' r /\ agree_on e e' l.
Proof. intros H. split; [apply H; left; reflexivity | intros x Hx; apply H; right; exact Hx]. Qed.

(* a run is a function of the answers to the reads it performs *)
Lemma trace_determined (b : body) : forall e e' dis,
  agree_on e e' (trace e b dis) -> trace e' b dis = trace e b dis /\ run e' b dis = run e b dis.
Proof.
  induction b as [v hs | i k IH | c k IH | c k IH | k IH | idv f0 f1 k IH | h f k IH | h k IH | fam h v k IH];
    intros e e' dis H; cbn [trace run] in *.
  - auto.
  - apply agree_on_cons in H. destruct H as [Ha H]. cbn in Ha. injection Ha as Ha. rewrite <- Ha.
    destruct (IH _ e e' dis H) as [A B]. rewrite A, B. auto.
  - apply agree_on_cons in H. destruct H as [Ha H]. cbn in Ha. rewrite <- Ha.
    destruct (IH _ e e' dis H) as [A B]. rewrite A, B. auto.
  - apply agree_on_cons in H. destruct H as [Ha H]. cbn in Ha. injection Ha as Ha. rewrite <- Ha.
    destruct (IH _ e e' dis H) as [A B]. rewrite A, B. auto.
  - apply agree_on_cons in H. destruct H as [_ H]. destruct (IH e e' dis H) as [A B]. rewrite A, B. auto.
  - apply agree_on_cons in H. destruct H as [Ha H]. cbn in Ha. injection Ha as Ha. rewrite <- Ha.
    destruct (IH _ e e' _ H) as [A B]. rewrite A, B. auto.
  - apply agree_on_cons in H. destruct H as [Ha H]. cbn in Ha. injection Ha as Ha. rewrite <- Ha.
    destruct (IH _ e e' dis H) as [A B]. rewrite A, B. auto.
  - apply agree_on_cons in H. destruct H as [Ha H]. cbn in Ha. injection Ha as Ha. rewrite <- Ha.
    destruct (IH _ e e' dis H) as [A B]. rewrite A, B. auto.
  - exact (IH e e' dis H).
Qed.

(* walking the old trace in order: every read has the same answer, or there is a first read
   with a different answer and the new run performs that read too, after the same prefix *)
Lemma first_changed_is_read_again (b : body) : forall e e' dis,
  agree_on e e' (trace e b dis) \/
  (exists pre r post, trace e b dis = pre ++ r :: post /\ agree_on e e' pre /\
                      answer e r <> answer e' r /\
                      exists post', trace e' b dis = pre ++ r :: post').
Proof.
  assert (Hstep : forall e e' (r : rd) (t t' : list rd),
    answer e r = answer e' r ->
    (agree_on e e' t \/
     (exists pre r0 post, t = pre ++ r0 :: post /\ agree_on e e' pre /\ answer e r0 <> answer e' r0 /\
                          exists post', t' = pre ++ r0 :: post')) ->
    agree_on e e' (r :: t) \/
    (exists pre r0 post, r :: t = pre ++ r0 :: post /\ agree_on e e' pre /\ answer e r0 <> answer e' r0 /\
                         exists post', r :: t' = pre ++ r0 :: post')).
  { intros e e' r t t' Heq [Hag | (pre & r0 & post & Ht & Hpre & Hne & post' & Ht')].
    - left. intros x [<- | Hx]; [exact Heq | exact (Hag x Hx)].
    - right. exists (r :: pre), r0, post. split; [cbn; rewrite Ht; reflexivity|]. split.
      + intros x [<- | Hx]; [exact Heq | exact (Hpre x Hx)].
      + split; [exact Hne|]. exists post'. cbn. rewrite Ht'. reflexivity. }
  assert (Hnow : forall e e' (r : rd) (t t' : list rd),
    answer e r <> answer e' r ->
    agree_on e e' (r :: t) \/
    (exists pre r0 post, r :: t = pre ++ r0 :: post /\ agree_on e e' pre /\ answer e r0 <> answer e' r0 /\
                         exists post', r :: t' = pre ++ r0 :: post')).
  { intros e e' r t t' Hne. right. exists [], r, t. split; [reflexivity|]. split; [intros x []|].
    split; [exact Hne|]. exists t'. reflexivity. }
  induction b as [v hs | i k IH | c k IH | c k IH | k IH | idv f0 f1 k IH | h f k IH | h k IH | fam h v k IH];
    intros e e' dis; cbn [trace].
  - left. intros r [].
  - destruct (rval_eq_dec (answer e (RIn i)) (answer e' (RIn i))) as [Heq | Hne]; [|apply Hnow; exact Hne].
    pose proof Heq as Heq'. cbn in Heq'. injection Heq' as Heq'. rewrite <- Heq'.
    apply Hstep; [exact Heq | apply IH].
  - destruct (rval_eq_dec (answer e (RQ c)) (answer e' (RQ c))) as [Heq | Hne]; [|apply Hnow; exact Hne].
    pose proof Heq as Heq'. cbn in Heq'. rewrite <- Heq'.
    apply Hstep; [exact Heq | apply IH].
  - destruct (rval_eq_dec (answer e (RCell c)) (answer e' (RCell c))) as [Heq | Hne]; [|apply Hnow; exact Hne].
    pose proof Heq as Heq'. cbn in Heq'. injection Heq' as Heq'. rewrite <- Heq'.
    apply Hstep; [exact Heq | apply IH].
  - apply Hstep; [reflexivity | apply IH].
  - destruct (rval_eq_dec (answer e (RNew (nident dis idv) idv f0 f1)) (answer e' (RNew (nident dis idv) idv f0 f1)))
      as [Heq | Hne]; [|apply Hnow; exact Hne].
    pose proof Heq as Heq'. cbn in Heq'. injection Heq' as Heq'. rewrite <- Heq'.
    apply Hstep; [exact Heq | apply IH].
  - destruct (rval_eq_dec (answer e (RFld h f)) (answer e' (RFld h f))) as [Heq | Hne]; [|apply Hnow; exact Hne].
    pose proof Heq as Heq'. cbn in Heq'. injection Heq' as Heq'. rewrite <- Heq'.
    apply Hstep; [exact Heq | apply IH].
  - destruct (rval_eq_dec (answer e (RIdf h)) (answer e' (RIdf h))) as [Heq | Hne]; [|apply Hnow; exact Hne].
    pose proof Heq as Heq'. cbn in Heq'. injection Heq' as Heq'. rewrite <- Heq'.
    apply Hstep; [exact Heq | apply IH].
  - apply IH.
Qed.

(* ---------------------------------------------------------------- creations of a run *)
(* identities are issued in increasing disambiguator order per hash: no identity twice *)
Lemma trace_new_ge (b : body) : forall e dis id idv f0 f1,
  In (RNew id idv f0 f1) (trace e b dis) -> cnt_get dis (fst id) <= snd id /\ fst id = idhash idv.
Proof.
  induction b as [v hs | i k IH | c k IH | c k IH | k IH | idv f0 f1 k IH | h f k IH | h k IH | fam h v k IH];
    intros e dis id idv' f0' f1' H; cbn [trace] in H;
    try (destruct H as [H | H]; [discriminate | exact (IH _ _ _ _ _ _ _ H)]).
  - destruct H.
  - destruct H as [H | H]; [discriminate | exact (IH _ _ _ _ _ _ H)].
  - destruct H as [H | H].
    + injection H as <- <- _ _. cbn [nident fst snd]. split; [lia | reflexivity].
    + destruct (IH _ _ _ _ _ _ _ H) as [A B]. split; [|exact B].
      destruct (N.eq_dec (idhash idv) (fst id)) as [E | E].
      * rewrite <- E in *. rewrite cnt_get_bump_same in A. lia.
      * rewrite cnt_get_bump_other in A by exact E. exact A.
  - exact (IH _ _ _ _ _ _ H).
Qed.

Definition news_ids (l : list rd) : list ident :=
  flat_map (fun r => match r with RNew id _ _ _ => [id] | _ => [] end) l.

Lemma in_news_ids l id : In id (news_ids l) <-> exists idv f0 f1, In (RNew id idv f0 f1) l.
Proof.
  unfold news_ids. rewrite in_flat_map. split.
  - intros (r & Hr & Hin). destruct r; cbn in Hin; try contradiction. destruct Hin as [<- | []]. eauto.
  - intros (idv & f0 & f1 & H). exists (RNew id idv f0 f1). split; [exact H | left; reflexivity].
Qed.

Lemma trace_news_nodup (b : body) : forall e dis, NoDup (news_ids (trace e b dis)).
Proof.
  induction b as [v hs | i k IH | c k IH | c k IH | k IH | idv f0 f1 k IH | h f k IH | h k IH | fam h v k IH];
    intros e dis; cbn [trace news_ids flat_map app]; try apply IH.
  - constructor.
  - constructor; [|apply IH].
    intros Hin. apply in_news_ids in Hin. destruct Hin as (idv' & f0' & f1' & Hin).
    destruct (trace_new_ge _ _ _ _ _ _ _ Hin) as [A _]. cbn [nident fst snd] in A.
    rewrite cnt_get_bump_same in A. lia.
Qed.

(* a creation is performed with the same arguments wherever the identity occurs *)
Lemma trace_new_fun (b : body) : forall e dis id idv f0 f1 idv' f0' f1',
  In (RNew id idv f0 f1) (trace e b dis) -> In (RNew id idv' f0' f1') (trace e b dis) ->
  idv' = idv /\ f0' = f0 /\ f1' = f1.
Proof.
  induction b as [v hs | i k IH | c k IH | c k IH | k IH | idv0 f00 f10 k IH | h f k IH | h k IH | fam h v k IH];
    intros e dis id idv f0 f1 idv' f0' f1' H H'; cbn [trace] in H, H';
    try (destruct H as [H | H]; [discriminate|]; destruct H' as [H' | H']; [discriminate|];
         exact (IH _ _ _ _ _ _ _ _ _ _ H H')).
  - destruct H.
  - destruct H as [H | H]; [discriminate|]. destruct H' as [H' | H']; [discriminate|].
    exact (IH _ _ _ _ _ _ _ _ _ H H').
  - assert (Hno : forall a b c, ~ In (RNew (nident dis idv0) a b c)
                                  (trace e (k (e_new e (nident dis idv0))) (cnt_bump dis (idhash idv0)))).
    { intros a b c Hin. destruct (trace_new_ge _ _ _ _ _ _ _ Hin) as [A _]. cbn [nident fst snd] in A.
      rewrite cnt_get_bump_same in A. lia. }
    destruct H as [H | H]; destruct H' as [H' | H'].
    + injection H as _ <- <- <-. injection H' as _ <- <- <-. auto.
    + injection H as <- _ _ _. exfalso. exact (Hno _ _ _ H').
    + injection H' as <- _ _ _. exfalso. exact (Hno _ _ _ H).
    + exact (IH _ _ _ _ _ _ _ _ _ _ H H').
  - exact (IH _ _ _ _ _ _ _ _ _ H H').
Qed.

(* ---------------------------------------------------------------- provenance *)
(* the body only uses (reads through, returns) handles it created itself or found in the
   result of a callee; K is what it was given so far *)
Fixpoint prov (e : senv) (b : body) (dis : list (N * N)) (K : list handle) : Prop :=
  match b with
  | Ret v hs => incl hs K
  | RdIn i k => prov e (k (e_in e i)) dis K
  | CallQ c k => prov e (k (e_q e c)) dis (snd (e_q e c) ++ K)
  | RdCell c k => prov e (k (e_cell e c)) dis K
  | Touch k => prov e k dis K
  | NewStruct idv f0 f1 k =>
      prov e (k (e_new e (nident dis idv))) (cnt_bump dis (idhash idv)) (e_new e (nident dis idv) :: K)
  | RdField h f k => In h K /\ prov e (k (fld3 (e_slot e h) f)) dis K
  | RdIdField h k => In h K /\ prov e (k (idv3 (e_slot e h))) dis K
  | Specify _ _ _ k => prov e k dis K
  end.

Definition uses (e : senv) (b : body) (dis : list (N * N)) (h : handle) : Prop :=
  (exists f, In (RFld h f) (trace e b dis)) \/ In (RIdf h) (trace e b dis) \/ In h (snd (run e b dis)).

Definition given (e : senv) (l : list rd) (h : handle) : Prop :=
  (exists id idv f0 f1, In (RNew id idv f0 f1) l /\ h = e_new e id) \/
  (exists d, In (RQ d) l /\ In h (snd (e_q e d))).

Lemma given_cons e r l h : given e l h -> given e (r :: l) h.
Proof.
  intros [(id & idv & f0 & f1 & H & E) | (d & H & E)]; [left | right].
  - exists id, idv, f0, f1. split; [right; exact H | exact E].
  - exists d. split; [right; exact H | exact E].
Qed.

Lemma prov_uses (b : body) : forall e dis K h,
  prov e b dis K -> uses e b dis h -> In h K \/ given e (trace e b dis) h.
Proof.
  induction b as [v hs | i k IH | c k IH | c k IH | k IH | idv f0 f1 k IH | h0 f k IH | h0 k IH | fam h0 v k IH];
    intros e dis K h Hp Hu; cbn [prov] in Hp; unfold uses in Hu; cbn [trace run] in *.
  - destruct Hu as [(f & []) | [[] | Hu]]. left. exact (Hp h Hu).
  - assert (Hu' : uses e (k (e_in e i)) dis h).
    { destruct Hu as [(f & [Hf | Hf]) | [[Hf | Hf] | Hu]]; try discriminate;
        [left; eauto | right; left; exact Hf | right; right; exact Hu]. }
    destruct (IH _ e dis K h Hp Hu') as [A | A]; [left; exact A | right; apply given_cons; exact A].
  - assert (Hu' : uses e (k (e_q e c)) dis h).
    { destruct Hu as [(f & [Hf | Hf]) | [[Hf | Hf] | Hu]]; try discriminate;
        [left; eauto | right; left; exact Hf | right; right; exact Hu]. }
    destruct (IH _ e dis _ h Hp Hu') as [A | A]; [|right; apply given_cons; exact A].
    apply in_app_or in A. destruct A as [A | A]; [|left; exact A].
    right. right. exists c. split; [left; reflexivity | exact A].
  - assert (Hu' : uses e (k (e_cell e c)) dis h).
    { destruct Hu as [(f & [Hf | Hf]) | [[Hf | Hf] | Hu]]; try discriminate;
        [left; eauto | right; left; exact Hf | right; right; exact Hu]. }
    destruct (IH _ e dis K h Hp Hu') as [A | A]; [left; exact A | right; apply given_cons; exact A].
  - assert (Hu' : uses e k dis h).
    { destruct Hu as [(f & [Hf | Hf]) | [[Hf | Hf] | Hu]]; try discriminate;
        [left; eauto | right; left; exact Hf | right; right; exact Hu]. }
    destruct (IH e dis K h Hp Hu') as [A | A]; [left; exact A | right; apply given_cons; exact A].
  - assert (Hu' : uses e (k (e_new e (nident dis idv))) (cnt_bump dis (idhash idv)) h).
    { destruct Hu as [(f & [Hf | Hf]) | [[Hf | Hf] | Hu]]; try discriminate;
        [left; eauto | right; left; exact Hf | right; right; exact Hu]. }
    destruct (IH _ e _ _ h Hp Hu') as [A | A]; [|right; apply given_cons; exact A].
    destruct A as [<- | A]; [|left; exact A].
    right. left. exists (nident dis idv), idv, f0, f1. split; [left; reflexivity | reflexivity].
  - destruct Hp as [Hin Hp].
    destruct Hu as [(f' & [Hf | Hf]) | [[Hf | Hf] | Hu]]; try discriminate.
    + injection Hf as <- _. left. exact Hin.
    + destruct (IH _ e dis K h Hp (or_introl (ex_intro _ f' Hf))) as [A | A];
        [left; exact A | right; apply given_cons; exact A].
    + destruct (IH _ e dis K h Hp (or_intror (or_introl Hf))) as [A | A];
        [left; exact A | right; apply given_cons; exact A].
    + destruct (IH _ e dis K h Hp (or_intror (or_intror Hu))) as [A | A];
        [left; exact A | right; apply given_cons; exact A].
  - destruct Hp as [Hin Hp].
    destruct Hu as [(f' & [Hf | Hf]) | [[Hf | Hf] | Hu]]; try discriminate.
    + destruct (IH _ e dis K h Hp (or_introl (ex_intro _ f' Hf))) as [A | A];
        [left; exact A | right; apply given_cons; exact A].
    + injection Hf as <-. left. exact Hin.
    + destruct (IH _ e dis K h Hp (or_intror (or_introl Hf))) as [A | A];
        [left; exact A | right; apply given_cons; exact A].
    + destruct (IH _ e dis K h Hp (or_intror (or_intror Hu))) as [A | A];
        [left; exact A | right; apply given_cons; exact A].
  - exact (IH e dis K h Hp Hu).
Qed.

(* the same with positions: a handle read through was given by an EARLIER read *)
Definition rd_uses (x : rd) (h : handle) : Prop := (exists f, x = RFld h f) \/ x = RIdf h.

Lemma prov_prefix (b : body) : forall e dis K pre x post h,
  prov e b dis K -> trace e b dis = pre ++ x :: post -> rd_uses x h -> In h K \/ given e pre h.
Proof.
  induction b as [v hs | i k IH | c k IH | c k IH | k IH | idv f0 f1 k IH | h0 f k IH | h0 k IH | fam h0 v k IH];
    intros e dis K pre x post h Hp Et Hu; cbn [prov trace] in *.
  - destruct pre; discriminate.
  - destruct pre as [|r pre]; cbn [app] in Et; injection Et as E1 Et.
    + subst x. destruct Hu as [(f' & Hu) | Hu]; discriminate.
    + subst r. destruct (IH _ e dis K pre x post h Hp Et Hu) as [A | A]; [left; exact A | right; apply given_cons; exact A].
  - destruct pre as [|r pre]; cbn [app] in Et; injection Et as E1 Et.
    + subst x. destruct Hu as [(f' & Hu) | Hu]; discriminate.
    + subst r. destruct (IH _ e dis _ pre x post h Hp Et Hu) as [A | A]; [|right; apply given_cons; exact A].
      apply in_app_or in A. destruct A as [A | A]; [|left; exact A].
      right. right. exists c. split; [left; reflexivity | exact A].
  - destruct pre as [|r pre]; cbn [app] in Et; injection Et as E1 Et.
    + subst x. destruct Hu as [(f' & Hu) | Hu]; discriminate.
    + subst r. destruct (IH _ e dis K pre x post h Hp Et Hu) as [A | A]; [left; exact A | right; apply given_cons; exact A].
  - destruct pre as [|r pre]; cbn [app] in Et; injection Et as E1 Et.
    + subst x. destruct Hu as [(f' & Hu) | Hu]; discriminate.
    + subst r. destruct (IH e dis K pre x post h Hp Et Hu) as [A | A]; [left; exact A | right; apply given_cons; exact A].
  - destruct pre as [|r pre]; cbn [app] in Et; injection Et as E1 Et.
    + subst x. destruct Hu as [(f' & Hu) | Hu]; discriminate.
    + subst r. destruct (IH _ e _ _ pre x post h Hp Et Hu) as [A | A]; [|right; apply given_cons; exact A].
      destruct A as [<- | A]; [|left; exact A].
      right. left. exists (nident dis idv), idv, f0, f1. split; [left; reflexivity | reflexivity].
  - destruct Hp as [Hin Hp]. destruct pre as [|r pre]; cbn [app] in Et; injection Et as E1 Et.
    + subst x. destruct Hu as [(f' & Hu) | Hu]; [injection Hu as <- _; left; exact Hin | discriminate].
    + subst r. destruct (IH _ e dis K pre x post h Hp Et Hu) as [A | A]; [left; exact A | right; apply given_cons; exact A].
  - destruct Hp as [Hin Hp]. destruct pre as [|r pre]; cbn [app] in Et; injection Et as E1 Et.
    + subst x. destruct Hu as [(f' & Hu) | Hu]; [discriminate | injection Hu as <-; left; exact Hin].
    + subst r. destruct (IH _ e dis K pre x post h Hp Et Hu) as [A | A]; [left; exact A | right; apply given_cons; exact A].
  - exact (IH e dis K pre x post h Hp Et Hu).
Qed.

(* ---------------------------------------------------------------- calls, rank *)
Inductive calls : body -> qk -> Prop :=
| calls_here q k : calls (CallQ q k) q
| calls_in_call q k r q' : calls (k r) q' -> calls (CallQ q k) q'
| calls_in_rdin i k v q' : calls (k v) q' -> calls (RdIn i k) q'
| calls_in_cell c k v q' : calls (k v) q' -> calls (RdCell c k) q'
| calls_in_touch k q' : calls k q' -> calls (Touch k) q'
| calls_in_new idv f0 f1 k h q' : calls (k h) q' -> calls (NewStruct idv f0 f1 k) q'
| calls_in_field h f k v q' : calls (k v) q' -> calls (RdField h f k) q'
| calls_in_idfield h k v q' : calls (k v) q' -> calls (RdIdField h k) q'
| calls_in_specify fam h v k q' : calls k q' -> calls (Specify fam h v k) q'.

Lemma calls_of_trace e b : forall dis q, In (RQ q) (trace e b dis) -> calls b q.
Proof.
  induction b as [v hs | i k IH | c k IH | c k IH | k IH | idv f0 f1 k IH | h f k IH | h k IH | fam h v k IH];
    intros dis q H; cbn [trace] in H.
  - destruct H.
  - destruct H as [H | H]; [discriminate | eapply calls_in_rdin, IH, H].
  - destruct H as [H | H]; [injection H as <-; constructor | eapply calls_in_call, IH, H].
  - destruct H as [H | H]; [discriminate | eapply calls_in_cell, IH, H].
  - destruct H as [H | H]; [discriminate | eapply calls_in_touch, IH, H].
  - destruct H as [H | H]; [discriminate | eapply calls_in_new, IH, H].
  - destruct H as [H | H]; [discriminate | eapply calls_in_field, IH, H].
  - destruct H as [H | H]; [discriminate | eapply calls_in_idfield, IH, H].
  - eapply calls_in_specify, IH, H.
Qed.

Definition calls_below (prog : qk -> body) (rank : qk -> nat) : Prop :=
  forall q q', calls (prog q) q' -> (rank q' < rank q)%nat.

(* ---------------------------------------------------------------- worlds *)
(* everything a from-scratch evaluation depends on: inputs, cells, the struct store (by handle)
   and, for every query, the handle its allocator gives to each identity *)
Record world := {
  w_in : ikey -> val; w_cell : cell -> val;
  w_slot : handle -> val * val * val;
  w_alloc : qk -> ident -> handle
}.

Definition mkenv (w : world) (eq : qk -> rval) (q : qk) : senv :=
  {| e_in := w_in w; e_cell := w_cell w; e_q := eq; e_slot := w_slot w; e_new := w_alloc w q |}.

Section Eval.
Variable prog : qk -> body.

Fixpoint eval (n : nat) (w : world) (q : qk) : rval :=
  match n with
  | O => (0, [])
  | S n' => run (mkenv w (eval n' w) q) (prog q) []
  end.

Variable rank : qk -> nat.
Hypothesis Hrank : calls_below prog rank.

Lemma eval_fuel_irrelevant w : forall n m q,
  (rank q < n)%nat -> (rank q < m)%nat -> eval n w q = eval m w q.
Proof.
  induction n as [|n IH]; intros m q Hn Hm; [inversion Hn|].
  destruct m as [|m]; [inversion Hm|]. cbn [eval].
  destruct (trace_determined (prog q) (mkenv w (eval n w) q) (mkenv w (eval m w) q) []) as [_ Hr];
    [|symmetry; exact Hr].
  intros r Hr. destruct r; cbn; try reflexivity.
  apply calls_of_trace in Hr. apply Hrank in Hr. apply IH; lia.
Qed.

Variable NF : nat.
Hypothesis Hbound : forall q, (rank q < NF)%nat.

Definition Ew (w : world) (q : qk) : rval := eval NF w q.
Definition envw (w : world) (q : qk) : senv := mkenv w (Ew w) q.
Definition trw (w : world) (q : qk) : list rd := trace (envw w q) (prog q) [].

Lemma Ew_unfold w q : Ew w q = run (envw w q) (prog q) [].
Proof.
  unfold Ew. pose proof (Hbound q) as Hq. destruct NF as [|n] eqn:HN; [inversion Hq|].
  cbn [eval].
  destruct (trace_determined (prog q) (mkenv w (eval n w) q) (envw w q) []) as [_ Hr]; [|symmetry; exact Hr].
  intros x Hx. destruct x; cbn; try reflexivity.
  apply calls_of_trace in Hx. apply Hrank in Hx. unfold Ew. rewrite HN.
  apply eval_fuel_irrelevant; lia.
Qed.

Lemma trw_calls w q d : In (RQ d) (trw w q) -> (rank d < rank q)%nat.
Proof. intros H. apply calls_of_trace in H. exact (Hrank _ _ H). Qed.

(* the call closure of f in the world w *)
Inductive clos (w : world) : qk -> qk -> Prop :=
| clos_refl f : clos w f f
| clos_step f d e : In (RQ d) (trw w f) -> clos w d e -> clos w f e.

Lemma clos_trans w f d e : clos w f d -> clos w d e -> clos w f e.
Proof.
  intros Hfd Hde. induction Hfd as [f | f d0 d Hin Hd0 IH]; [exact Hde|].
  eapply clos_step; [exact Hin | exact (IH Hde)].
Qed.

Lemma clos_one w f d : In (RQ d) (trw w f) -> clos w f d.
Proof. intros H. eapply clos_step; [exact H | apply clos_refl]. Qed.

Lemma clos_right w f d e : clos w f d -> In (RQ e) (trw w d) -> clos w f e.
Proof. intros A B. exact (clos_trans _ _ _ _ A (clos_one _ _ _ B)). Qed.

Lemma clos_rank w f d : clos w f d -> (rank d <= rank f)%nat.
Proof.
  intros Hc. induction Hc as [f | f d0 d Hin Hd0 IH]; [lia|]. pose proof (trw_calls _ _ _ Hin). lia.
Qed.

(* what a query reads that is not another query: the local part of the world *)
Definition local_agree (w w' : world) (d : qk) : Prop :=
  forall r, In r (trw w d) -> (forall c, r <> RQ c) -> answer (envw w d) r = answer (envw w' d) r.

(* two worlds that agree on what the closure of q reads locally give q the same trace and value *)
Lemma cone_determined w w' : forall n q, (rank q < n)%nat ->
  (forall d, clos w q d -> local_agree w w' d) ->
  trw w' q = trw w q /\ Ew w' q = Ew w q.
Proof.
  induction n as [|n IH]; intros q Hn Hag; [inversion Hn|].
  assert (A : agree_on (envw w q) (envw w' q) (trw w q)).
  { intros r Hr. destruct r as [i | c | c | | id idv f0 f1 | h f | h];
      try (apply (Hag q (clos_refl _ _) _ Hr); intros c0; discriminate).
    cbn. symmetry. apply (IH c).
    - pose proof (trw_calls _ _ _ Hr). lia.
    - intros d Hd. apply Hag. eapply clos_step; [exact Hr | exact Hd]. }
  destruct (trace_determined (prog q) _ _ [] A) as [Ht Hr].
  split; [exact Ht|]. rewrite !Ew_unfold. exact Hr.
Qed.

Lemma clos_cone w w' q :
  (forall d, clos w q d -> local_agree w w' d) -> forall d, clos w q d <-> clos w' q d.
Proof.
  intros Hag d. split; intros Hc.
  - revert Hag. induction Hc as [f | f d0 d Hin Hd0 IH]; intros Hag; [apply clos_refl|].
    destruct (cone_determined w w' (S (rank f)) f (le_n (S (rank f))) Hag) as [Ht _].
    eapply clos_step; [rewrite Ht; exact Hin|]. apply IH.
    intros d' Hd'. apply Hag. eapply clos_step; eassumption.
  - assert (G : forall f, clos w' f d -> (forall d0, clos w f d0 -> local_agree w w' d0) -> clos w f d).
    { clear Hag Hc. intros f Hc. induction Hc as [f | f d0 d Hin Hd0 IH]; intros Hag; [apply clos_refl|].
      destruct (cone_determined w w' (S (rank f)) f (le_n (S (rank f))) Hag) as [Ht _].
      rewrite Ht in Hin. eapply clos_step; [exact Hin|]. apply IH.
      intros d' Hd'. apply Hag. eapply clos_step; eassumption. }
    exact (G q Hc Hag).
Qed.

(* ---- no forging: under EVERY read environment a body only uses handles it was given ---- *)
Definition no_forge : Prop := forall e q, prov e (prog q) [] [].
Hypothesis Hprov : no_forge.

(* every handle a query uses was created, in the same world, by a query of its closure *)
Definition created_by (w : world) (A : qk) (h : handle) : Prop :=
  exists id idv f0 f1, In (RNew id idv f0 f1) (trw w A) /\ h = w_alloc w A id.

Lemma creator_exists w : forall n q h, (rank q < n)%nat ->
  uses (envw w q) (prog q) [] h -> exists A, clos w q A /\ created_by w A h.
Proof.
  induction n as [|n IH]; intros q h Hn Hu; [inversion Hn|].
  destruct (prov_uses (prog q) (envw w q) [] [] h (Hprov _ q) Hu) as [[] | [(id & idv & f0 & f1 & Hin & ->) | (d & Hin & Hh)]].
  - exists q. split; [apply clos_refl|]. exists id, idv, f0, f1. split; [exact Hin | reflexivity].
  - cbn [envw mkenv e_q] in Hh.
    destruct (IH d h) as (A & HcA & HA).
    + pose proof (trw_calls _ _ _ Hin). lia.
    + right. right. rewrite <- Ew_unfold. exact Hh.
    + exists A. split; [eapply clos_step; eassumption | exact HA].
Qed.

End Eval.
End Sem.

(* Structs/Sim.v — model-to-machine simulation, part 3: every function of the executable model
   (run_body, walk_edges, verify_memo, execute, fetch, maybe_changed_after), run at a monitored
   level, preserves the ownership invariant OInv together with the frames of the executions in
   progress; hence OInv holds after every operation of the executable model on handle-safe,
   non-unwinding histories. *)
From Salsa Require Import Base.
From Salsa.Kern Require Import CoreK.
From Salsa.Structs Require Import Model ProofsBase ProofsCascade Machine ProofsInv ProofsStep Theorems ProofsSpecify Guard SimBase SimOps.

(* specify exists only for functions keyed by a tracked struct (the Rust type system:
   `C::Input<'db>: TrackedStructInDb`) *)
Inductive bwf (skind : N -> bool) : body -> Prop :=
| bwf_ret v hs : bwf skind (Ret v hs)
| bwf_rdin i k : (forall v, bwf skind (k v)) -> bwf skind (RdIn i k)
| bwf_call c k : (forall r, bwf skind (k r)) -> bwf skind (CallQ c k)
| bwf_cell c k : (forall v, bwf skind (k v)) -> bwf skind (RdCell c k)
| bwf_touch k : bwf skind k -> bwf skind (Touch k)
| bwf_new idv f0 f1 k : (forall h, bwf skind (k h)) -> bwf skind (NewStruct idv f0 f1 k)
| bwf_field h f k : (forall v, bwf skind (k v)) -> bwf skind (RdField h f k)
| bwf_idfield h k : (forall v, bwf skind (k v)) -> bwf skind (RdIdField h k)
| bwf_specify fam h v k : skind fam = true -> bwf skind k -> bwf skind (Specify fam h v k).

Section Sim.
Variable prog : qk -> body.
Variable skind : N -> bool.
Variable sfams : list N.
Variable idhash : val -> N.
Hypothesis sfams_skind : forall fam, In fam sfams -> skind fam = true.
Hypothesis Hwf : forall q, bwf skind (prog q).

Notation OInv := (OInv skind).
Notation owns := (owns skind).
Notation peek_memo := (peek_memo skind).
Notation cur_okb := (cur_okb skind).
Notation mst := (mst skind).
Notation rel := (rel skind).
Notation Cons := (Cons skind).

(* ---------------------------------------------------------------- small facts *)
Lemma oinv_core_eq s s' F :
  OInv s F -> d_revs s' = d_revs s -> d_slots s' = d_slots s -> d_memo s' = d_memo s ->
  d_nslots s' = d_nslots s -> d_free s' = d_free s -> d_ideal s' = d_ideal s -> OInv s' F.
Proof.
  intros I Er Es Em En Ef Ei.
  assert (Hcur : cur s' = cur s) by (unfold cur; now rewrite Er).
  assert (Hp : forall l, peek_memo s' l = peek_memo s l).
  { intros l. unfold Machine.peek_memo. rewrite Es, Em. reflexivity. }
  assert (Hl : forall h, live s h -> live s' h).
  { intros h (sl & Hs & Hu & Hg). exists sl. rewrite Es. auto. }
  destruct (own_transfer0 skind s F s' F (fun o => o) (oinv_own _ _ _ I)) as (L & U & ND).
  { intros o ids Ho. apply (owner_ids_peek skind s s' F o ids) in Ho; [|intros l m; rewrite Hp; auto].
    split; [exact (oi_nodup _ _ _ I _ _ Ho)|]. intros h Hh. exists ids. auto. }
  { auto. }
  { intros o h _ H0. exact (Hl h H0). }
  constructor; rewrite ?Es, ?En, ?Ef, ?Ei, ?Hcur.
  - exact (oi_alloc _ _ _ I).
  - exact (oi_free_nodup _ _ _ I).
  - exact (oi_free _ _ _ I).
  - exact (oi_dead _ _ _ I).
  - exact L.
  - exact U.
  - exact ND.
  - exact (oi_issued _ _ _ I).
  - exact (oi_locked _ _ _ I).
  - exact (oi_frames _ _ _ I).
  - exact (oi_ideal _ _ _ I).
Qed.

Lemma rel_core_eq P s s' :
  d_revs s' = d_revs s -> d_slots s' = d_slots s -> d_memo s' = d_memo s -> rel P s s'.
Proof.
  intros Er Es Em. constructor; [exact Er | |].
  - intros i sl Hs Hu. exists sl. rewrite Es. auto.
  - intros p _. unfold SimBase.mst, Machine.peek_memo. rewrite Es, Em. reflexivity.
Qed.

Lemma oinv_same_ids s F (q : qk) fr fr' :
  OInv s F -> In (q, fr) F -> frame_ids fr' = frame_ids fr -> OInv s (set_frame F q fr').
Proof.
  intros I Hq E. pose proof (oi_frames _ _ _ I) as HF.
  apply (oinv_frames skind s F _ I); [apply flocs_set_frame|].
  intros q' fr0 Hin. apply (in_set_frame F q fr fr' q' fr0 HF Hq) in Hin. destruct Hin as [[-> ->] | [_ Hin]].
  - exists fr. split; [exact Hq|]. rewrite E. split; [auto|]. apply (oi_nodup _ _ _ I (OwF q)). exists fr. auto.
  - exists fr0. split; [exact Hin|]. split; [auto|]. apply (oi_nodup _ _ _ I (OwF q')). exists fr0. auto.
Qed.

Lemma cons_set_frame s F (q : qk) fr fr' :
  Cons s F -> NoDup (flocs F) -> In (q, fr) F -> Cons s (set_frame F q fr').
Proof.
  intros C HF Hq. destruct C as [a b c d]. constructor; auto.
  intros q' fr0 Hin. apply (in_set_frame F q fr fr' q' fr0 HF Hq) in Hin.
  destruct Hin as [[-> ->] | [_ Hin]]; [exact (a _ _ Hq) | exact (a _ _ Hin)].
Qed.

Lemma in_set_frame_self F (q : qk) fr fr' : NoDup (flocs F) -> In (q, fr) F -> In (q, fr') (set_frame F q fr').
Proof. intros HF Hq. apply (in_set_frame F q fr fr' q fr' HF Hq). left. auto. Qed.

Lemma set_frame_twice F (q : qk) a b : set_frame (set_frame F q a) q b = set_frame F q b.
Proof.
  induction F as [|[q' fr'] F IH]; cbn [set_frame]; [reflexivity|].
  destruct (qk_eqb q' q) eqn:E; cbn [set_frame]; rewrite E; [reflexivity | now rewrite IH].
Qed.

Lemma flocs_nodup s F : OInv s F -> NoDup (flocs F).
Proof. intros I. exact (oi_frames _ _ _ I). Qed.

Lemma stack_locked s F (P : list qk) :
  Cons s F -> (forall p, In p P -> In p (d_stack s)) ->
  forall p : qk, In p P -> skind (fst p) = true -> locked s (fst (snd p)).
Proof. intros C HP p Hp Hk. exact (cn_lock _ _ _ C p (HP p Hp) Hk). Qed.

(* the monitored interface one level down *)
Definition Lsim (L : lower) : Prop :=
  (forall q s F s' r, OInv s F -> Cons s F -> l_fetch L q s = (s', SOk r) ->
     OInv s' F /\ rel (d_stack s) s s' /\ d_stack s' = d_stack s) /\
  (forall q since s F s' b, OInv s F -> Cons s F -> l_mca L q since s = (s', SOk b) ->
     OInv s' F /\ rel (d_stack s) s s' /\ d_stack s' = d_stack s).

Section Level.
Variable L : lower.
Hypothesis HL : Lsim L.

(* ---------------------------------------------------------------- run_body *)
Lemma specify_early n (q : qk) fam h v fr s s' fr' :
  existsb (qk_eqb (fam, h)) (d_stack s) = true ->
  specify skind sfams n q fam h v fr s = (s', SOk fr') -> s' = s /\ fr' = fr.
Proof.
  intros E H. unfold specify in H. destruct (is_active (fr_ids fr) h); cbn [negb] in H; [|mstep H].
  msplit H as x t H1. mstep H1. rewrite E in H. mstep H. auto.
Qed.

Lemma specify_active n (q : qk) fam h v fr s s' fr' :
  specify skind sfams n q fam h v fr s = (s', SOk fr') -> is_active (fr_ids fr) h = true.
Proof. unfold specify. destruct (is_active (fr_ids fr) h); [auto | cbn [negb]; intros H; mstep H]. Qed.

Lemma run_body_sim (q : qk) : forall b, bwf skind b -> forall fr s F s' r,
  OInv s F -> Cons s F -> In (q, fr) F ->
  run_body skind sfams idhash L q b fr s = (s', SOk r) ->
  OInv s' (set_frame F q (snd r)) /\ rel (d_stack s) s s' /\ d_stack s' = d_stack s.
Proof.
  destruct HL as [HLf HLm].
  induction 1 as [v hs | i k Hk IH | c k Hk IH | c k Hk IH | k Hk IH | idv f0 f1 k Hk IH | h f k Hk IH | h k Hk IH | fam h v k Hfam Hk IH];
    intros fr s F s' r I C Hq H; cbn [run_body] in H.
  - mstep H. cbn [snd]. split; [exact (oinv_same_ids s F q fr fr I Hq eq_refl)|]. split; [apply rel_refl | reflexivity].
  - msplit H as x t H1. mstep H1.
    set (fr1 := add_read fr (EIn i) (f_dur (d_in s i)) (f_changed (d_in s i))) in *.
    pose proof (flocs_nodup _ _ I) as HF.
    destruct (IH (f_val (d_in s i)) fr1 s (set_frame F q fr1) s' r) as (I' & R' & Est'); auto.
    + exact (oinv_same_ids s F q fr fr1 I Hq eq_refl).
    + exact (cons_set_frame s F q fr fr1 C HF Hq).
    + exact (in_set_frame_self F q fr fr1 HF Hq).
    + rewrite set_frame_twice in I'. auto.
  - msplit H as x t H1. destruct x as [[v d] ch].
    destruct (HLf c s F t _ I C H1) as (I1 & R1 & Est1).
    pose proof (Cons_rel skind _ s t F C R1 Est1) as C1.
    set (fr1 := add_read fr (EQ c) d ch) in *.
    pose proof (flocs_nodup _ _ I1) as HF.
    destruct (IH v fr1 t (set_frame F q fr1) s' r) as (I' & R' & Est'); auto.
    + exact (oinv_same_ids t F q fr fr1 I1 Hq eq_refl).
    + exact (cons_set_frame t F q fr fr1 C1 HF Hq).
    + exact (in_set_frame_self F q fr fr1 HF Hq).
    + rewrite set_frame_twice in I'. split; [exact I'|]. rewrite Est1 in R'.
      split; [exact (rel_trans skind _ _ _ _ R1 R') | congruence].
  - msplit H as x t H1. mstep H1.
    set (fr1 := add_untracked fr (cur s)) in *.
    pose proof (flocs_nodup _ _ I) as HF.
    destruct (IH (d_cell s c) fr1 s (set_frame F q fr1) s' r) as (I' & R' & Est'); auto.
    + exact (oinv_same_ids s F q fr fr1 I Hq eq_refl).
    + exact (cons_set_frame s F q fr fr1 C HF Hq).
    + exact (in_set_frame_self F q fr fr1 HF Hq).
    + rewrite set_frame_twice in I'. auto.
  - msplit H as x t H1. mstep H1.
    set (fr1 := add_untracked fr (cur s)) in *.
    pose proof (flocs_nodup _ _ I) as HF.
    destruct (IH fr1 s (set_frame F q fr1) s' r) as (I' & R' & Est'); auto.
    + exact (oinv_same_ids s F q fr fr1 I Hq eq_refl).
    + exact (cons_set_frame s F q fr fr1 C HF Hq).
    + exact (in_set_frame_self F q fr fr1 HF Hq).
    + rewrite set_frame_twice in I'. auto.
  - msplit H as x t H1. destruct x as [hn fr1].
    destruct (new_struct_oinv skind sfams idhash sfams_skind _ _ _ _ _ _ _ _ _ _ _ I Hq H1) as (I1 & _ & _).
    destruct (new_struct_rel skind sfams idhash (d_stack s) _ _ _ _ _ _ _ _ _ _ I Hq
                (stack_locked s F _ C (fun p Hp => Hp)) H1) as (R1 & Est1).
    pose proof (flocs_nodup _ _ I) as HF.
    pose proof (Cons_rel skind _ s t _ (cons_set_frame s F q fr fr1 C HF Hq) R1 Est1) as C1.
    cbn [fst snd] in *.
    destruct (IH hn fr1 t (set_frame F q fr1) s' r) as (I' & R' & Est'); auto.
    + exact (in_set_frame_self F q fr fr1 HF Hq).
    + rewrite set_frame_twice in I'. split; [exact I'|]. rewrite Est1 in R'.
      split; [exact (rel_trans skind _ _ _ _ R1 R') | congruence].
  - msplit H as x t H1. destruct x as [v fr1]. unfold read_field in H1.
    msplit H1 as sl t1 H2.
    destruct (lock_rel skind (d_stack s) _ _ _ _ H2) as (R1 & Est1 & _).
    pose proof (lock_oinv skind _ _ _ _ _ I H2) as I1.
    assert (Efr : frame_ids fr1 = frame_ids fr /\ t = t1).
    { destruct (f =? 0); apply ret_ok in H1; destruct H1 as [Et Ev]; injection Ev as _ ->; auto. }
    destruct Efr as [Efr Et]; subst t1.
    pose proof (Cons_rel skind _ s t F C R1 Est1) as C1.
    pose proof (flocs_nodup _ _ I1) as HF. cbn [fst snd] in *.
    destruct (IH v fr1 t (set_frame F q fr1) s' r) as (I' & R' & Est'); auto.
    + exact (oinv_same_ids t F q fr fr1 I1 Hq Efr).
    + exact (cons_set_frame t F q fr fr1 C1 HF Hq).
    + exact (in_set_frame_self F q fr fr1 HF Hq).
    + rewrite set_frame_twice in I'. split; [exact I'|]. rewrite Est1 in R'.
      split; [exact (rel_trans skind _ _ _ _ R1 R') | congruence].
  - msplit H as v t H1. unfold read_idfield in H1. msplit H1 as sl t1 H2. mstep H1.
    destruct (lock_rel skind (d_stack s) _ _ _ _ H2) as (R1 & Est1 & _).
    pose proof (lock_oinv skind _ _ _ _ _ I H2) as I1.
    pose proof (Cons_rel skind _ s t1 F C R1 Est1) as C1.
    destruct (IH _ fr t1 F s' r I1 C1 Hq H) as (I' & R' & Est').
    split; [exact I'|]. rewrite Est1 in R'. split; [exact (rel_trans skind _ _ _ _ R1 R') | congruence].
  - msplit H as fr1 t H1.
    pose proof (flocs_nodup _ _ I) as HF.
    assert (Hstep : OInv t (set_frame F q fr1) /\ frame_ids fr1 = frame_ids fr /\
                    rel (d_stack s) s t /\ d_stack t = d_stack s).
    { destruct (existsb (qk_eqb (fam, h)) (d_stack s)) eqn:Est.
      - destruct (specify_early _ _ _ _ _ _ _ _ _ Est H1) as [-> ->].
        split; [exact (oinv_same_ids s F q fr fr I Hq eq_refl)|]. split; [reflexivity|]. split; [apply rel_refl | reflexivity].
      - assert (Hkey : cur_okb s (fam, h) = true).
        { pose proof (specify_active _ _ _ _ _ _ _ _ _ H1) as Ha. apply is_active_in in Ha.
          destruct (oi_live _ _ _ I _ _ (owns_frame skind s F q fr h Hq Ha)) as (sl & Hs & Hu & Hg).
          unfold Guard.cur_okb. cbn [fst snd]. rewrite Hfam, Hs.
          destruct (sl_updated sl); [apply N.eqb_eq; exact Hg | contradiction Hu; reflexivity]. }
        assert (Hna : ~ active_loc F (loc_of (fam, h))).
        { intros (q' & fr' & Hin & El).
          assert (q' = (fam, h)).
          { apply (cur_okb_loc skind s); [apply (cn_cur _ _ _ C); exact (cn_stack _ _ _ C _ _ Hin) | exact Hkey | exact El]. }
          subst q'. pose proof (cn_stack _ _ _ C _ _ Hin) as Hst.
          assert (existsb (qk_eqb (fam, h)) (d_stack s) = true).
          { apply existsb_exists. exists (fam, h). split; [exact Hst | apply qk_eqb_refl]. }
          congruence. }
        destruct (specify_oinv skind sfams sfams_skind _ _ _ _ _ _ _ _ _ _ I Hq Hfam Hna H1) as (I1 & Eids).
        destruct (specify_rel skind sfams (d_stack s) _ _ _ _ _ _ _ _ _ _ I H1
                    (stack_locked s F _ C (fun p Hp => Hp))) as (R1 & Est1).
        { intros _ p Hp El. pose proof (cur_okb_loc skind s p (fam, h) (cn_cur _ _ _ C p Hp) Hkey El) as E. subst p.
          assert (existsb (qk_eqb (fam, h)) (d_stack s) = true).
          { apply existsb_exists. exists (fam, h). split; [exact Hp | apply qk_eqb_refl]. }
          congruence. }
        auto. }
    destruct Hstep as (I1 & Eids & R1 & Est1).
    pose proof (Cons_rel skind _ s t _ (cons_set_frame s F q fr fr1 C HF Hq) R1 Est1) as C1.
    destruct (IH fr1 t (set_frame F q fr1) s' r) as (I' & R' & Est'); auto.
    + exact (in_set_frame_self F q fr fr1 HF Hq).
    + rewrite set_frame_twice in I'. split; [exact I'|]. rewrite Est1 in R'.
      split; [exact (rel_trans skind _ _ _ _ R1 R') | congruence].
Qed.

(* ---------------------------------------------------------------- verification *)
Lemma get_slot_same i s s' sl : get_slot i s = (s', SOk sl) -> s' = s.
Proof.
  unfold get_slot. intros H. apply bind_ok in H. destruct H as (x & t & H1 & H).
  apply get_ok in H1. destruct H1 as [-> ->].
  destruct (d_slots s i); [apply ret_ok in H; tauto | exfalso; exact (fail_ok _ _ _ _ H)].
Qed.

Lemma walk_edges_sim (q : qk) since : forall es s F s' b,
  OInv s F -> Cons s F ->
  walk_edges skind L q es since s = (s', SOk b) ->
  OInv s' F /\ rel (d_stack s) s s' /\ d_stack s' = d_stack s.
Proof.
  destruct HL as [HLf HLm].
  induction es as [|e es IH]; intros s F s' b I C H; cbn [walk_edges] in H.
  - apply ret_ok in H. destruct H as [-> _]. split; [exact I|]. split; [apply rel_refl | reflexivity].
  - destruct e as [i | c | h f | o].
    + apply bind_ok in H. destruct H as (x & t & H1 & H). apply get_ok in H1. destruct H1 as [-> ->].
      destruct (changed_after (f_changed (d_in s i)) since).
      * apply ret_ok in H. destruct H as [-> _]. split; [exact I|]. split; [apply rel_refl | reflexivity].
      * exact (IH _ _ _ _ I C H).
    + apply bind_ok in H. destruct H as (ch & t & H1 & H).
      destruct (HLm c since s F t ch I C H1) as (I1 & R1 & Est1).
      destruct ch.
      * apply ret_ok in H. destruct H as [-> _]. auto.
      * pose proof (Cons_rel skind _ s t F C R1 Est1) as C1.
        destruct (IH _ _ _ _ I1 C1 H) as (I' & R' & Est'). split; [exact I'|]. rewrite Est1 in R'.
        split; [exact (rel_trans skind _ _ _ _ R1 R') | congruence].
    + apply bind_ok in H. destruct H as (ch & t & H1 & H).
      assert (t = s).
      { unfold field_mca in H1. apply bind_ok in H1. destruct H1 as (sl & t1 & H2 & H1).
        apply get_slot_same in H2. subst t1. apply ret_ok in H1. tauto. }
      subst t. destruct ch.
      * apply ret_ok in H. destruct H as [-> _]. split; [exact I|]. split; [apply rel_refl | reflexivity].
      * exact (IH _ _ _ _ I C H).
    + apply bind_ok in H. destruct H as (u & t & H1 & H). destruct u.
      destruct (validate_specified_sim skind sfams sfams_skind (d_stack s) q o s F t I H1) as (I1 & R1 & Est1).
      pose proof (Cons_rel skind _ s t F C R1 Est1) as C1.
      destruct (IH _ _ _ _ I1 C1 H) as (I' & R' & Est'). split; [exact I'|]. rewrite Est1 in R'.
      split; [exact (rel_trans skind _ _ _ _ R1 R') | congruence].
Qed.

Lemma deep_verify_sim (q : qk) m s F s' r :
  OInv s F -> Cons s F -> In q (d_stack s) -> mst s q = Some (m_structs m) ->
  deep_verify skind L q m s = (s', SOk r) ->
  OInv s' F /\ rel (d_stack s) s s' /\ d_stack s' = d_stack s /\ m_structs (snd r) = m_structs m.
Proof.
  intros I C Hq Hm H. unfold deep_verify in H.
  destruct (m_origin m).
  - apply bind_ok in H. destruct H as (c & t & H1 & H).
    destruct (walk_edges_sim q _ _ _ _ _ _ I C H1) as (I1 & R1 & Est1).
    destruct c.
    + apply ret_ok in H. destruct H as [-> ->]. auto.
    + apply bind_ok in H. destruct H as (m' & t2 & H2 & H). apply ret_ok in H. destruct H as [-> ->].
      assert (Hm1 : mst t q = Some (m_structs m)) by (rewrite (rl_mst _ _ _ _ R1 q Hq); exact Hm).
      destruct (mark_verified_sim skind sfams sfams_skind (d_stack s) q m t F t2 m' I1 H2 Hm1) as (I2 & R2 & Est2 & Em & _).
      split; [exact I2|]. split; [exact (rel_trans skind _ _ _ _ R1 R2)|]. split; [congruence | exact Em].
  - apply ret_ok in H. destruct H as [-> ->]. split; [exact I|]. split; [apply rel_refl | auto].
  - apply ret_ok in H. destruct H as [-> ->]. split; [exact I|]. split; [apply rel_refl | auto].
Qed.

Lemma verify_memo_sim (q : qk) m s F s' r :
  OInv s F -> Cons s F -> In q (d_stack s) -> mst s q = Some (m_structs m) ->
  verify_memo skind L q m s = (s', SOk r) ->
  OInv s' F /\ rel (d_stack s) s s' /\ d_stack s' = d_stack s /\ m_structs (snd r) = m_structs m.
Proof.
  intros I C Hq Hm H. unfold verify_memo in H.
  apply bind_ok in H. destruct H as (x & t & H1 & H). apply get_ok in H1. destruct H1 as [-> ->].
  assert (Hu : forall u, (m' <- update_shallow skind q m u ;; ret (true, m')) s = (s', SOk r) ->
     OInv s' F /\ rel (d_stack s) s s' /\ d_stack s' = d_stack s /\ m_structs (snd r) = m_structs m).
  { intros u Hb. apply bind_ok in Hb. destruct Hb as (m' & t & H1 & Hb). apply ret_ok in Hb. destruct Hb as [-> ->].
    destruct (update_shallow_sim skind sfams sfams_skind (d_stack s) q m u s F t m' I H1 Hm) as (I1 & R1 & Est1 & Em).
    auto. }
  destruct (shallow_verify s m); [exact (Hu _ H) | exact (Hu _ H) | exact (deep_verify_sim q m s F s' r I C Hq Hm H)].
Qed.

(* ---------------------------------------------------------------- execute *)
Definition oldok (s : db) (q : qk) (old : option memo) : Prop :=
  match old with Some o => mst s q = Some (m_structs o) | None => True end.

Lemma mst_peek s (q : qk) o : mst s q = Some (m_structs o) ->
  exists m, peek_memo s (loc_of q) = Some m /\ mids m = mids o.
Proof.
  unfold SimBase.mst. destruct (Machine.peek_memo skind s (loc_of q)) as [m|]; cbn [option_map]; [|discriminate].
  intros E. exists m. split; [reflexivity|]. unfold mids. congruence.
Qed.

Lemma cons_locs s F (p q : qk) : Cons s F -> In p (d_stack s) -> In q (d_stack s) -> p <> q -> loc_of p <> loc_of q.
Proof.
  intros C Hp Hq Hne El. apply Hne.
  exact (cur_okb_loc skind s p q (cn_cur _ _ _ C p Hp) (cn_cur _ _ _ C q Hq) El).
Qed.

Lemma execute_sim (P : list qk) (q : qk) old s F s' m :
  OInv s F -> Cons s F -> In q (d_stack s) -> (forall fr, ~ In (q, fr) F) -> oldok s q old ->
  (forall p, In p P -> In p (d_stack s) /\ p <> q) ->
  execute prog skind sfams idhash L q old s = (s', SOk m) ->
  OInv s' F /\ rel P s s' /\ d_stack s' = d_stack s.
Proof.
  intros I C Hq HnF Hold HP H. unfold execute in H.
  apply bind_ok in H. destruct H as (u & s1 & H1 & H). unfold emit in H1. apply modify_ok in H1.
  assert (Est1 : d_stack s1 = d_stack s) by (subst s1; reflexivity).
  assert (R1 : rel (d_stack s) s s1) by (subst s1; apply rel_core_eq; reflexivity).
  assert (I1 : OInv s1 F) by (subst s1; apply (oinv_core_eq s _ F I); reflexivity).
  pose proof (Cons_rel skind _ s s1 F C R1 Est1) as C1.
  assert (Hq1 : In q (d_stack s1)) by (rewrite Est1; exact Hq).
  assert (Hold1 : oldok s1 q old).
  { unfold oldok in *. destruct old; [|exact Logic.I]. rewrite (rl_mst _ _ _ _ R1 q Hq). exact Hold. }
  clear H1.
  apply bind_ok in H. destruct H as (r & s2 & H2 & H).
  set (fr0 := seed_frame old) in *.
  assert (Hna : ~ active_loc F (loc_of q)).
  { apply (not_active_of_unclaimed skind s1 F q C1 (cn_cur _ _ _ C1 q Hq1) HnF). }
  assert (Hseed : NoDup (map fst (frame_ids fr0)) /\
                  forall h, In h (frame_ids fr0) -> exists m, peek_memo s1 (loc_of q) = Some m /\ In h (mids m)).
  { destruct (seed_frame_ids old) as (Hnd & Hsub).
    - destruct old as [o|]; [|constructor]. destruct (mst_peek s1 q o Hold1) as (m3 & Hp3 & Em3).
      rewrite <- Em3. apply (oi_nodup _ _ _ I1 (OwM (loc_of q))). split; [exact Hna|]. exists m3. auto.
    - split; [exact Hnd|]. intros h Hh. destruct (Hsub h Hh) as (o & -> & Ho).
      destruct (mst_peek s1 q o Hold1) as (m3 & Hp3 & Em3). exists m3. rewrite Em3. auto. }
  destruct Hseed as (Hnd & Hsub).
  assert (I1' : OInv s1 ((q, fr0) :: F)).
  { apply oinv_begin_gen; [exact I1 | exact Hna | | exact Hnd | exact Hsub].
    intros Hk. exact (cn_lock _ _ _ C1 q Hq1 Hk). }
  assert (C1' : Cons s1 ((q, fr0) :: F)).
  { destruct C1 as [a b c d]. constructor; auto. intros q' fr' [E | Hin]; [injection E as <- _; exact Hq1 | exact (a _ _ Hin)]. }
  destruct (run_body_sim q (prog q) (Hwf q) fr0 s1 _ s2 r I1' C1' (or_introl eq_refl) H2) as (I2 & R2 & Est2).
  cbn [set_frame] in I2. rewrite qk_eqb_refl in I2.
  pose proof (Cons_rel skind _ s1 s2 _ C1' R2 Est2) as C2.
  destruct (finish_oinv skind sfams sfams_skind _ _ _ _ _ _ _ _ _ I2 (or_introl eq_refl) H) as (I3 & _).
  cbn [del_frame] in I3. rewrite qk_eqb_refl in I3.
  assert (HP2 : forall p, In p P -> In p (d_stack s2) /\ p <> q).
  { intros p Hp. rewrite Est2, Est1. exact (HP p Hp). }
  destruct (finish_rel skind sfams P _ _ _ _ _ _ _ _ H) as (R3 & Est3).
  { intros p Hp Hk. exact (cn_lock _ _ _ C2 p (proj1 (HP2 p Hp)) Hk). }
  { intros p Hp. apply (cons_locs s2 _ p q C2); [exact (proj1 (HP2 p Hp)) | rewrite Est2; exact Hq1 | exact (proj2 (HP2 p Hp))]. }
  split; [exact I3|]. split; [|congruence].
  assert (Hsub1 : forall p, In p P -> In p (d_stack s)) by (intros p Hp; exact (proj1 (HP p Hp))).
  apply (rel_trans skind P s s1 s'); [exact (rel_sub skind _ _ _ _ Hsub1 R1)|].
  apply (rel_trans skind P s1 s2 s'); [|exact R3].
  apply (rel_sub skind (d_stack s1)); [|exact R2]. intros p Hp. rewrite Est1. exact (Hsub1 p Hp).
Qed.

(* ---------------------------------------------------------------- fetch / maybe_changed_after *)
Lemma lock_cur_okb i s s' sl' (p : qk) :
  acquire_read_lock i s = (s', SOk sl') -> cur_okb s p = true -> cur_okb s' p = true.
Proof.
  intros H. destruct (lock_spec _ _ _ _ H) as (sl & Hs & Hu & Hu' & Hg & _ & _ & _ & _ & _ & _ & _ & Es).
  unfold Guard.cur_okb. destruct (skind (fst p)); [|auto].
  rewrite Es. unfold updN. destruct (N.eqb_spec i (fst (snd p))) as [<- | E]; [|auto].
  rewrite Hs, Hu', Hg. destruct (sl_updated sl); [auto | contradiction Hu; reflexivity].
Qed.

Lemma get_memo_cur_okb (p q : qk) s s' om :
  get_memo skind q s = (s', SOk om) -> cur_okb s p = true -> cur_okb s' p = true.
Proof.
  unfold get_memo. intros H. destruct (skind (fst q)).
  - apply bind_ok in H. destruct H as (sl & t & H1 & H). apply ret_ok in H. destruct H as [-> _].
    exact (lock_cur_okb _ _ _ _ p H1).
  - apply bind_ok in H. destruct H as (x & t & H1 & H). apply get_ok in H1. destruct H1 as [-> ->].
    apply ret_ok in H. destruct H as [-> _]. auto.
Qed.

Lemma peek_mst s (q : qk) m : Some m = peek_memo s (loc_of q) -> mst s q = Some (m_structs m).
Proof. intros E. unfold SimBase.mst. rewrite <- E. reflexivity. Qed.

Lemma fetch_hot_sim (P : list qk) (q : qk) s F s' hot :
  OInv s F -> cur_okb s q = true -> fetch_hot skind q s = (s', SOk hot) ->
  OInv s' F /\ rel P s s' /\ d_stack s' = d_stack s /\ cur_okb s' q = true /\
  (skind (fst q) = true -> locked s' (fst (snd q))).
Proof.
  intros I Hc H. unfold fetch_hot in H.
  apply bind_ok in H. destruct H as (om & s1 & H1 & H).
  destruct (get_memo_sim skind P q s F s1 om I H1) as (I1 & R1 & Est1 & Eom & Hl1).
  pose proof (get_memo_cur_okb q q _ _ _ H1 Hc) as Hc1.
  apply bind_ok in H. destruct H as (x & t & H2 & H). apply get_ok in H2. destruct H2 as [-> ->].
  assert (Hnone : forall r, ret r s1 = (s', SOk hot) ->
    OInv s' F /\ rel P s s' /\ d_stack s' = d_stack s /\ cur_okb s' q = true /\
    (skind (fst q) = true -> locked s' (fst (snd q)))).
  { intros r Hr. apply ret_ok in Hr. destruct Hr as [-> _]. auto. }
  destruct om as [m|]; [|exact (Hnone _ H)].
  destruct (m_val m) as [v|]; [|exact (Hnone _ H)].
  assert (Hu : forall u, (m' <- update_shallow skind q m u ;; ret (Some (m', v))) s1 = (s', SOk hot) ->
    OInv s' F /\ rel P s s' /\ d_stack s' = d_stack s /\ cur_okb s' q = true /\
    (skind (fst q) = true -> locked s' (fst (snd q)))).
  { intros u Hb. apply bind_ok in Hb. destruct Hb as (m' & t & H3 & Hb). apply ret_ok in Hb. destruct Hb as [-> _].
    destruct (update_shallow_sim skind sfams sfams_skind P q m u s1 F t m' I1 H3 (peek_mst _ _ _ Eom)) as (I2 & R2 & Est2 & _).
    split; [exact I2|]. split; [exact (rel_trans skind _ _ _ _ R1 R2)|]. split; [congruence|].
    split; [exact (cur_okb_rel skind P s1 t q R2 Hl1 Hc1) | intros Hk; exact (locked_rel skind P s1 t _ R2 (Hl1 Hk))]. }
  destruct (shallow_verify s1 m); [exact (Hu _ H) | exact (Hu _ H) | exact (Hnone _ H)].
Qed.

Lemma claim_sim (q : qk) s F s1 u :
  OInv s F -> Cons s F -> cur_okb s q = true -> (skind (fst q) = true -> locked s (fst (snd q))) ->
  claim q s = (s1, SOk u) ->
  d_stack s1 = q :: d_stack s /\ OInv s1 F /\ Cons s1 F /\ (forall P, rel P s s1) /\
  (forall fr, ~ In (q, fr) F) /\ ~ In q (d_stack s).
Proof.
  intros I C Hc Hl H. unfold claim in H.
  apply bind_ok in H. destruct H as (x & t & H1 & H). apply get_ok in H1. destruct H1 as [-> ->].
  destruct (existsb (qk_eqb q) (d_stack s)) eqn:Ex; [exfalso; exact (fail_ok _ _ _ _ H)|].
  apply modify_ok in H. subst s1.
  assert (Hnin : ~ In q (d_stack s)).
  { intros Hin. assert (existsb (qk_eqb q) (d_stack s) = true); [|congruence].
    apply existsb_exists. exists q. split; [exact Hin | apply qk_eqb_refl]. }
  split; [reflexivity|]. split; [apply (oinv_core_eq s _ F I); reflexivity|]. split.
  - destruct C as [a b c d]. constructor.
    + intros q' fr Hin. right. exact (a _ _ Hin).
    + cbn. constructor; [exact Hnin | exact b].
    + intros p [<- | Hp]; [exact Hc | exact (c p Hp)].
    + intros p [<- | Hp] Hk; [exact (Hl Hk) | exact (d p Hp Hk)].
  - split; [intros P; apply rel_core_eq; reflexivity|]. split; [|exact Hnin].
    intros fr Hin. exact (Hnin (cn_stack _ _ _ C _ _ Hin)).
Qed.

Lemma release_sim (P : list qk) (q : qk) st s F s' u :
  OInv s F -> d_stack s = q :: st -> release q s = (s', SOk u) ->
  OInv s' F /\ rel P s s' /\ d_stack s' = st.
Proof.
  intros I Est H. unfold release in H. apply modify_ok in H. subst s'.
  split; [apply (oinv_core_eq s _ F I); reflexivity|]. split; [apply rel_core_eq; reflexivity|].
  cbn. rewrite Est. reflexivity.
Qed.

Definition Post (s : db) (F : frames) (s' : db) : Prop :=
  OInv s' F /\ rel (d_stack s) s s' /\ d_stack s' = d_stack s.

(* shared tail of the cold paths: after the claim, work relative to q :: stack, then release *)
Lemma cold_close (q : qk) s s1 s3 F s' u :
  d_stack s1 = q :: d_stack s -> (forall P, rel P s s1) ->
  OInv s3 F -> rel (d_stack s) s1 s3 -> d_stack s3 = d_stack s1 ->
  release q s3 = (s', SOk u) -> Post s F s'.
Proof.
  intros Est1 R1 I3 R3 Est3 H.
  destruct (release_sim (d_stack s) q (d_stack s) s3 F s' u I3 (eq_trans Est3 Est1) H) as (I' & R' & Est').
  split; [exact I'|]. split; [|exact Est'].
  exact (rel_trans skind _ _ _ _ (R1 _) (rel_trans skind _ _ _ _ R3 R')).
Qed.

Lemma sub_cons (q : qk) (st : list qk) : forall p, In p st -> In p (q :: st).
Proof. intros p Hp. right. exact Hp. Qed.

Lemma fetch_cold_sim (q : qk) s F s' r :
  OInv s F -> Cons s F -> cur_okb s q = true -> (skind (fst q) = true -> locked s (fst (snd q))) ->
  fetch_cold prog skind sfams idhash L q s = (s', SOk r) -> Post s F s'.
Proof.
  intros I C Hc Hl H. unfold fetch_cold in H.
  apply bind_ok in H. destruct H as (u & s1 & H1 & H).
  destruct (claim_sim q s F s1 u I C Hc Hl H1) as (Est1 & I1 & C1 & R1 & HnF & Hnin).
  apply bind_ok in H. destruct H as (old & s2 & H2 & H).
  destruct (get_memo_sim skind (d_stack s1) q s1 F s2 old I1 H2) as (I2 & R2 & Est2 & Eold & _).
  pose proof (Cons_rel skind _ s1 s2 F C1 R2 Est2) as C2.
  assert (Hq2 : In q (d_stack s2)) by (rewrite Est2, Est1; left; reflexivity).
  apply bind_ok in H. destruct H as (ok & s3 & H3 & H).
  assert (A : OInv s3 F /\ rel (d_stack s2) s2 s3 /\ d_stack s3 = d_stack s2).
  { assert (Hnone : forall x, ret x s2 = (s3, SOk ok) -> OInv s3 F /\ rel (d_stack s2) s2 s3 /\ d_stack s3 = d_stack s2).
    { intros x Hr. apply ret_ok in Hr. destruct Hr as [-> _]. split; [exact I2|]. split; [apply rel_refl | reflexivity]. }
    destruct old as [m|]; [|exact (Hnone _ H3)].
    destruct (m_val m) as [v|]; [|exact (Hnone _ H3)].
    apply bind_ok in H3. destruct H3 as (rr & t & H4 & H3). apply ret_ok in H3. destruct H3 as [-> _].
    destruct (verify_memo_sim q m s2 F t rr I2 C2 Hq2 (peek_mst _ _ _ Eold) H4) as (I3 & R3 & Est3 & _). auto. }
  destruct A as (I3 & R3 & Est3).
  pose proof (Cons_rel skind _ s2 s3 F C2 R3 Est3) as C3.
  assert (R13 : rel (d_stack s1) s1 s3).
  { apply (rel_trans skind _ s1 s2 s3 R2). rewrite <- Est2. exact R3. }
  assert (Est13 : d_stack s3 = d_stack s1) by congruence.
  assert (Hsub : forall p, In p (d_stack s) -> In p (d_stack s1)) by (rewrite Est1; apply sub_cons).
  destruct ok as [mv|].
  - apply bind_ok in H. destruct H as (u2 & s4 & H4 & H). apply ret_ok in H. destruct H as [-> _].
    exact (cold_close q s s1 s3 F s4 u2 Est1 R1 I3 (rel_sub skind _ _ _ _ Hsub R13) Est13 H4).
  - apply bind_ok in H. destruct H as (m & s4 & H4 & H).
    assert (Hold3 : oldok s3 q old).
    { unfold oldok. destruct old as [o|]; [|exact Logic.I].
      rewrite (rl_mst _ _ _ _ R3 q Hq2). exact (peek_mst _ _ _ Eold). }
    destruct (execute_sim (d_stack s) q old s3 F s4 m I3 C3) as (I4 & R4 & Est4); auto.
    + rewrite Est3. exact Hq2.
    + intros p Hp. split; [rewrite Est13; exact (Hsub p Hp) | intros ->; exact (Hnin Hp)].
    + apply bind_ok in H. destruct H as (u2 & s5 & H5 & H).
      assert (s' = s5).
      { destruct (m_val m); [apply ret_ok in H; tauto | exfalso; exact (nofuel_ok _ _ _ H)]. }
      subst s5.
      apply (cold_close q s s1 s4 F s' u2 Est1 R1 I4); [|congruence|exact H5].
      exact (rel_trans skind _ _ _ _ (rel_sub skind _ _ _ _ Hsub R13) R4).
Qed.

Lemma fetch_sim (q : qk) s F s' r :
  OInv s F -> Cons s F -> cur_okb s q = true ->
  fetch prog skind sfams idhash L q s = (s', SOk r) -> Post s F s'.
Proof.
  intros I C Hc H. unfold fetch in H.
  apply bind_ok in H. destruct H as (hot & s1 & H1 & H).
  destruct (fetch_hot_sim (d_stack s) q s F s1 hot I Hc H1) as (I1 & R1 & Est1 & Hc1 & Hl1).
  apply bind_ok in H. destruct H as (x & s2 & H2 & H). apply ret_ok in H. destruct H as [-> _].
  destruct hot as [mv|].
  - apply ret_ok in H2. destruct H2 as [-> _]. split; [exact I1|]. split; [exact R1 | exact Est1].
  - pose proof (Cons_rel skind _ s s1 F C R1 Est1) as C1.
    destruct (fetch_cold_sim q s1 F s2 x I1 C1 Hc1 Hl1 H2) as (I2 & R2 & Est2).
    split; [exact I2|]. rewrite Est1 in R2. split; [exact (rel_trans skind _ _ _ _ R1 R2) | congruence].
Qed.

Lemma mca_cold_sim (q : qk) since s F s' b :
  OInv s F -> Cons s F -> cur_okb s q = true -> (skind (fst q) = true -> locked s (fst (snd q))) ->
  mca_cold prog skind sfams idhash L q since s = (s', SOk b) -> Post s F s'.
Proof.
  intros I C Hc Hl H. unfold mca_cold in H.
  apply bind_ok in H. destruct H as (u & s1 & H1 & H).
  destruct (claim_sim q s F s1 u I C Hc Hl H1) as (Est1 & I1 & C1 & R1 & HnF & Hnin).
  apply bind_ok in H. destruct H as (om & s2 & H2 & H).
  destruct (get_memo_sim skind (d_stack s1) q s1 F s2 om I1 H2) as (I2 & R2 & Est2 & Eold & _).
  pose proof (Cons_rel skind _ s1 s2 F C1 R2 Est2) as C2.
  assert (Hq2 : In q (d_stack s2)) by (rewrite Est2, Est1; left; reflexivity).
  assert (Hsub : forall p, In p (d_stack s) -> In p (d_stack s1)) by (rewrite Est1; apply sub_cons).
  destruct om as [old|].
  - apply bind_ok in H. destruct H as (rr & s3 & H3 & H).
    destruct (verify_memo_sim q old s2 F s3 rr I2 C2 Hq2 (peek_mst _ _ _ Eold) H3) as (I3 & R3 & Est3 & _).
    pose proof (Cons_rel skind _ s2 s3 F C2 R3 Est3) as C3.
    assert (R13 : rel (d_stack s1) s1 s3).
    { apply (rel_trans skind _ s1 s2 s3 R2). rewrite <- Est2. exact R3. }
    assert (Est13 : d_stack s3 = d_stack s1) by congruence.
    assert (Hrel : forall (u2 : bool) s4 (x : bool), (release q ;;; ret x) s3 = (s4, SOk u2) -> Post s F s4).
    { intros u2 s4 x Hb. apply bind_ok in Hb. destruct Hb as (u3 & s5 & H5 & Hb). apply ret_ok in Hb. destruct Hb as [-> _].
      exact (cold_close q s s1 s3 F s5 u3 Est1 R1 I3 (rel_sub skind _ _ _ _ Hsub R13) Est13 H5). }
    destruct (fst rr); [exact (Hrel _ _ _ H)|].
    destruct (m_val old) as [v|]; [|exact (Hrel _ _ _ H)].
    apply bind_ok in H. destruct H as (m & s4 & H4 & H).
    assert (Hold3 : oldok s3 q (Some old)).
    { unfold oldok. rewrite (rl_mst _ _ _ _ R3 q Hq2). exact (peek_mst _ _ _ Eold). }
    destruct (execute_sim (d_stack s) q (Some old) s3 F s4 m I3 C3) as (I4 & R4 & Est4); auto.
    + rewrite Est3. exact Hq2.
    + intros p Hp. split; [rewrite Est13; exact (Hsub p Hp) | intros ->; exact (Hnin Hp)].
    + apply bind_ok in H. destruct H as (u2 & s5 & H5 & H). apply ret_ok in H. destruct H as [-> _].
      apply (cold_close q s s1 s4 F s5 u2 Est1 R1 I4); [|congruence|exact H5].
      exact (rel_trans skind _ _ _ _ (rel_sub skind _ _ _ _ Hsub R13) R4).
  - apply bind_ok in H. destruct H as (u2 & s4 & H4 & H). apply ret_ok in H. destruct H as [-> _].
    apply (cold_close q s s1 s2 F s4 u2 Est1 R1 I2); [|exact Est2|exact H4].
    exact (rel_sub skind _ _ _ _ Hsub R2).
Qed.

Lemma mca_sim (q : qk) since s F s' b :
  OInv s F -> Cons s F -> cur_okb s q = true ->
  mca prog skind sfams idhash L q since s = (s', SOk b) -> Post s F s'.
Proof.
  intros I C Hc H. unfold mca in H.
  apply bind_ok in H. destruct H as (om & s1 & H1 & H).
  destruct (get_memo_sim skind (d_stack s) q s F s1 om I H1) as (I1 & R1 & Est1 & Eom & Hl1).
  pose proof (get_memo_cur_okb q q _ _ _ H1 Hc) as Hc1.
  apply bind_ok in H. destruct H as (x & t & H2 & H). apply get_ok in H2. destruct H2 as [-> ->].
  destruct om as [m|].
  - assert (Hu : forall u, (m' <- update_shallow skind q m u ;; ret (changed_after (m_changed m') since)) s1 = (s', SOk b) ->
                Post s F s').
    { intros u Hb. apply bind_ok in Hb. destruct Hb as (m' & t & H3 & Hb). apply ret_ok in Hb. destruct Hb as [-> _].
      destruct (update_shallow_sim skind sfams sfams_skind (d_stack s) q m u s1 F t m' I1 H3 (peek_mst _ _ _ Eom)) as (I2 & R2 & Est2 & _).
      split; [exact I2|]. split; [exact (rel_trans skind _ _ _ _ R1 R2) | congruence]. }
    destruct (shallow_verify s1 m); [exact (Hu _ H) | exact (Hu _ H) |].
    pose proof (Cons_rel skind _ s s1 F C R1 Est1) as C1.
    destruct (mca_cold_sim q since s1 F s' b I1 C1 Hc1 Hl1 H) as (I2 & R2 & Est2).
    split; [exact I2|]. rewrite Est1 in R2. split; [exact (rel_trans skind _ _ _ _ R1 R2) | congruence].
  - apply ret_ok in H. destruct H as [-> _]. split; [exact I1|]. split; [exact R1 | exact Est1].
Qed.

End Level.

(* ---------------------------------------------------------------- all monitored levels *)
Lemma glevel_Lsim n : Lsim (glevel prog skind sfams idhash n).
Proof.
  induction n as [|n IH]; cbn [glevel].
  - split; intros; discriminate.
  - split.
    + intros q s F s' r I C H. cbn [l_fetch] in H. destruct (guard_ok skind q _ s s' r H) as [Hc H'].
      exact (fetch_sim _ IH q s F s' r I C Hc H').
    + intros q since s F s' b I C H. cbn [l_mca] in H. destruct (guard_ok skind q _ s s' b H) as [Hc H'].
      exact (mca_sim _ IH q since s F s' b I C Hc H').
Qed.

(* the interior of an execution at any monitored level: the frames are those of the running
   executions *)
Theorem glevel_run_body n (q : qk) fr s F s' r :
  OInv s F -> Cons s F -> In (q, fr) F ->
  run_body skind sfams idhash (glevel prog skind sfams idhash n) q (prog q) fr s = (s', SOk r) ->
  OInv s' (set_frame F q (snd r)).
Proof.
  intros I C Hq H. exact (proj1 (run_body_sim _ (glevel_Lsim n) q (prog q) (Hwf q) fr s F s' r I C Hq H)).
Qed.

(* ---------------------------------------------------------------- the API *)
Definition Top (s : db) : Prop := OInv s [] /\ d_stack s = [].

Lemma cons_nil s : d_stack s = [] -> Cons s [].
Proof.
  intros E. constructor.
  - intros q fr [].
  - rewrite E. constructor.
  - intros q Hq. rewrite E in Hq. destruct Hq.
  - intros q Hq. rewrite E in Hq. destruct Hq.
Qed.

(* an operation that does not unwind: a Get returns a value *)
Definition okout (o : op) (r : out) : Prop :=
  match o with
  | OGet _ | OGetS _ _ _ => exists v, r = SOk v
  | _ => True
  end.

Lemma gfetch_top fuel (q : qk) s s' r :
  Top s -> guard skind q (fetch prog skind sfams idhash (glevel prog skind sfams idhash fuel) q) s = (s', SOk r) -> Top s'.
Proof.
  intros [I E] H. destruct (guard_ok skind q _ s s' r H) as [Hc H'].
  destruct (fetch_sim _ (glevel_Lsim fuel) q s [] s' r I (cons_nil s E) Hc H') as (I' & _ & E').
  split; [exact I' | congruence].
Qed.

Lemma top_same s s' :
  Top s -> d_slots s' = d_slots s -> d_memo s' = d_memo s -> d_nslots s' = d_nslots s ->
  d_free s' = d_free s -> d_ideal s' = d_ideal s -> d_stack s' = d_stack s -> Top s'.
Proof.
  intros [I E] Es Em En Ef Ei Est. split; [exact (oinv_newrev skind s s' I Es Em En Ef Ei) | congruence].
Qed.

Lemma gstep_top fuel s o s' r :
  Top s -> gstep prog skind sfams idhash fuel s o = (s', r) -> okout o r -> Top s'.
Proof.
  intros T H Hok. destruct o as [i x d | d | c x | q | fam q i | ]; cbn [gstep step] in H.
  - destruct (f_dur (d_in (new_revision (zalsa_mut s)) i) =? D_NEVER); injection H as <- _;
      apply (top_same s _ T); unfold zalsa_mut, new_revision; destruct (d_ccount s =? 255); reflexivity.
  - destruct (d =? D_NEVER); injection H as <- _;
      apply (top_same s _ T); unfold zalsa_mut, new_revision; destruct (d_ccount s =? 255); reflexivity.
  - injection H as <- _. apply (top_same s _ T); reflexivity.
  - destruct Hok as (v & ->).
    destruct (guard skind q (fetch prog skind sfams idhash (glevel prog skind sfams idhash fuel) q) s) as [s1 [[[v1 d1] c1] | p |]] eqn:E;
      [|discriminate|discriminate].
    injection H as <- _. exact (gfetch_top fuel q s s1 _ T E).
  - destruct Hok as (v & ->).
    destruct (guard skind q (fetch prog skind sfams idhash (glevel prog skind sfams idhash fuel) q) s) as [s1 [[[v1 d1] c1] | p |]] eqn:E;
      [|discriminate|discriminate].
    pose proof (gfetch_top fuel q s s1 _ T E) as T1.
    destruct (nth_error (snd v1) (N.to_nat i)) as [h|]; [|injection H as <- _; exact T1].
    destruct (guard skind (fam, h) (fetch prog skind sfams idhash (glevel prog skind sfams idhash fuel) (fam, h)) s1) as [s2 [[[v2 d2] c2] | p |]] eqn:E2;
      [|discriminate|discriminate].
    injection H as <- _. exact (gfetch_top fuel (fam, h) s1 s2 _ T1 E2).
  - injection H as <- _. exact T.
Qed.

Lemma gstep_step_ok fuel s o s' r :
  gstep prog skind sfams idhash fuel s o = (s', r) -> okout o r ->
  step prog skind sfams idhash fuel s o = (s', r).
Proof.
  intros H Hok. destruct o as [i x d | d | c x | q | fam q i | ]; try exact H.
  - destruct Hok as (v & ->). exact (gstep_step prog skind sfams idhash fuel s _ s' v H).
  - destruct Hok as (v & ->). exact (gstep_step prog skind sfams idhash fuel s _ s' v H).
Qed.

Theorem grun_top fuel : forall os s s' rs,
  Top s -> grun_ops prog skind sfams idhash fuel s os = (s', rs) -> Forall2 okout os rs ->
  Top s' /\ run_ops prog skind sfams idhash fuel s os = (s', rs).
Proof.
  induction os as [|o os IH]; intros s s' rs T H Hok; cbn [grun_ops run_ops] in *.
  - injection H as <- <-. auto.
  - destruct (gstep prog skind sfams idhash fuel s o) as [s1 r] eqn:E1.
    destruct (grun_ops prog skind sfams idhash fuel s1 os) as [s2 rs2] eqn:E2.
    injection H as <- <-. inversion Hok as [|? ? ? ? Hr Hrs]; subst.
    rewrite (gstep_step_ok fuel s o s1 r E1 Hr).
    destruct (IH s1 s2 rs2 (gstep_top fuel s o s1 r T E1 Hr) E2 Hrs) as [T2 ->]. auto.
Qed.

(* prefixes: the monitored run of a prefix is the prefix of the monitored run *)
Lemma grun_ops_app fuel : forall os1 os2 s,
  grun_ops prog skind sfams idhash fuel s (os1 ++ os2) =
  let '(s1, r1) := grun_ops prog skind sfams idhash fuel s os1 in
  let '(s2, r2) := grun_ops prog skind sfams idhash fuel s1 os2 in (s2, r1 ++ r2).
Proof.
  induction os1 as [|o os1 IH]; intros os2 s; cbn [grun_ops app].
  - destruct (grun_ops prog skind sfams idhash fuel s os2). reflexivity.
  - destruct (gstep prog skind sfams idhash fuel s o) as [s1 r]. rewrite IH.
    destruct (grun_ops prog skind sfams idhash fuel s1 os1) as [s2 r1].
    destruct (grun_ops prog skind sfams idhash fuel s2 os2) as [s3 r2]. reflexivity.
Qed.

Theorem model_invariant fuel iv idur os s' rs :
  grun_ops prog skind sfams idhash fuel (init iv idur) os = (s', rs) -> Forall2 okout os rs ->
  run_ops prog skind sfams idhash fuel (init iv idur) os = (s', rs) /\ OInv s' [] /\ d_stack s' = [].
Proof.
  intros H Hok. destruct (grun_top fuel os (init iv idur) s' rs) as [[I E] Hr]; auto.
  split; [apply oinv_init | reflexivity].
Qed.

(* ---------------------------------------------------------------- decidable form, prefixes *)
Definition okoutb (o : op) (r : out) : bool :=
  match o with
  | OGet _ | OGetS _ _ _ => match r with SOk _ => true | _ => false end
  | _ => true
  end.

Fixpoint all_okb (os : list op) (rs : list out) : bool :=
  match os, rs with
  | [], [] => true
  | o :: os', r :: rs' => okoutb o r && all_okb os' rs'
  | _, _ => false
  end.

Lemma okoutb_ok o r : okoutb o r = true -> okout o r.
Proof.
  destruct o; cbn; auto; destruct r; try discriminate; eauto.
Qed.

Lemma all_okb_ok : forall os rs, all_okb os rs = true -> Forall2 okout os rs.
Proof.
  induction os as [|o os IH]; intros [|r rs] H; cbn [all_okb] in H; try discriminate; [constructor|].
  apply andb_true_iff in H. destruct H as [H1 H2]. constructor; [exact (okoutb_ok _ _ H1) | exact (IH _ H2)].
Qed.

Lemma all_okb_app : forall os1 r1 os2 r2, length r1 = length os1 ->
  all_okb (os1 ++ os2) (r1 ++ r2) = true -> all_okb os1 r1 = true.
Proof.
  induction os1 as [|o os1 IH]; intros [|r r1] os2 r2 Hl H; cbn in Hl; try discriminate; [reflexivity|].
  cbn [all_okb app] in *. apply andb_true_iff in H. destruct H as [H1 H2].
  rewrite H1. cbn. exact (IH r1 os2 r2 (eq_add_S _ _ Hl) H2).
Qed.

(* a history is handle-safe and does not unwind: the monitored run answers every Get *)
Definition handle_safe (fuel : nat) (s : db) (os : list op) : bool :=
  all_okb os (snd (grun_ops prog skind sfams idhash fuel s os)).

Lemma grun_ops_length fuel : forall os s, length (snd (grun_ops prog skind sfams idhash fuel s os)) = length os.
Proof.
  induction os as [|o os IH]; intros s; cbn [grun_ops]; [reflexivity|].
  destruct (gstep prog skind sfams idhash fuel s o) as [s1 r]. specialize (IH s1).
  destruct (grun_ops prog skind sfams idhash fuel s1 os) as [s2 rs]. cbn [snd length] in *. now rewrite IH.
Qed.

Lemma handle_safe_prefix fuel s os1 os2 :
  handle_safe fuel s (os1 ++ os2) = true -> handle_safe fuel s os1 = true.
Proof.
  unfold handle_safe. rewrite grun_ops_app. pose proof (grun_ops_length fuel os1 s) as Hl.
  destruct (grun_ops prog skind sfams idhash fuel s os1) as [s1 r1].
  destruct (grun_ops prog skind sfams idhash fuel s1 os2) as [s2 r2]. cbn [snd] in *.
  exact (all_okb_app os1 r1 os2 r2 Hl).
Qed.

Theorem model_invariant_every_op fuel iv idur os :
  handle_safe fuel (init iv idur) os = true ->
  forall os1 os2, os = os1 ++ os2 ->
  run_ops prog skind sfams idhash fuel (init iv idur) os1 = grun_ops prog skind sfams idhash fuel (init iv idur) os1 /\
  OInv (fst (run_ops prog skind sfams idhash fuel (init iv idur) os1)) [] /\
  d_stack (fst (run_ops prog skind sfams idhash fuel (init iv idur) os1)) = [].
Proof.
  intros Hs os1 os2 ->. apply handle_safe_prefix in Hs. unfold handle_safe in Hs.
  destruct (grun_ops prog skind sfams idhash fuel (init iv idur) os1) as [s1 r1] eqn:E. cbn [snd] in Hs.
  destruct (model_invariant fuel iv idur os1 s1 r1 E (all_okb_ok _ _ Hs)) as (Hr & I & Est).
  rewrite Hr. cbn [fst]. auto.
Qed.

Theorem model_distinct_every_op fuel iv idur os :
  handle_safe fuel (init iv idur) os = true ->
  forall os1 os2, os = os1 ++ os2 ->
  let s := fst (run_ops prog skind sfams idhash fuel (init iv idur) os1) in
  (forall o h, owns s [] o h -> live s h) /\
  (forall o1 o2 h1 h2, owns s [] o1 h1 -> owns s [] o2 h2 -> o1 <> o2 -> fst h1 <> fst h2 /\ h1 <> h2) /\
  (forall o ids, Machine.owner_ids skind s [] o ids -> NoDup (map fst ids) /\ NoDup ids).
Proof.
  intros Hs os1 os2 E s. destruct (model_invariant_every_op fuel iv idur os Hs os1 os2 E) as (_ & I & _).
  fold s in I. split; [exact (oi_live _ _ _ I)|]. split.
  - intros o1 o2 h1 h2 H1 H2 Hne.
    assert (Hi : fst h1 <> fst h2) by (intros E'; exact (Hne (oi_uniq _ _ _ I _ _ _ _ H1 H2 E'))).
    split; [exact Hi | intros ->; exact (Hi eq_refl)].
  - intros o ids Ho. pose proof (oi_nodup _ _ _ I _ _ Ho) as Hnd. split; [exact Hnd|].
    exact (NoDup_map_inv fst ids Hnd).
Qed.

Theorem model_no_alias_every_op fuel iv idur os :
  handle_safe fuel (init iv idur) os = true ->
  forall os1 os2, os = os1 ++ os2 ->
  forall o h, owns (fst (run_ops prog skind sfams idhash fuel (init iv idur) os1)) [] o h ->
  (forall f fr s' v fr', read_field h f fr (fst (run_ops prog skind sfams idhash fuel (init iv idur) os1)) = (s', SOk (v, fr')) ->
     exists idv f0 f1, ideal_get (d_ideal (fst (run_ops prog skind sfams idhash fuel (init iv idur) os1))) h = Some (idv, f0, f1) /\
                       v = (if f =? 0 then f0 else f1)) /\
  (forall s' v, read_idfield h (fst (run_ops prog skind sfams idhash fuel (init iv idur) os1)) = (s', SOk v) ->
     exists f0 f1, ideal_get (d_ideal (fst (run_ops prog skind sfams idhash fuel (init iv idur) os1))) h = Some (v, f0, f1)).
Proof.
  intros Hs os1 os2 E o h Ho.
  destruct (model_invariant_every_op fuel iv idur os Hs os1 os2 E) as (_ & I & _).
  split.
  - intros f fr s' v fr' H. exact (read_agrees_ideal skind _ _ o h f fr s' v fr' I Ho H).
  - intros s' v H. exact (idfield_agrees_ideal skind _ _ o h s' v I Ho H).
Qed.

End Sim.

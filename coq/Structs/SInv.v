(* Structs/SInv.v — the from-scratch invariant of the Structs model for programs without
   `specify` and without struct-keyed functions (stage S1): definitions and basic facts.

   The world of the CURRENT revision is read off the state (inputs, cells, the slot store, and
   for every query the allocation recorded in its memo's tracked_struct_ids); the worlds of
   PAST revisions are a ghost history.  As in Core/DInv.v the invariant is observer-relative and
   closure-wide: a memo f verified at v "observes" every query d of its semantic call closure
   at v, the tracked fields they read and the structs they create. *)
From Salsa Require Import Base.
From Salsa.Kern Require Import CoreK CoreKFacts.
From Salsa.Structs Require Import Model ProofsBase ProofsCascade Machine ProofsInv ProofsStep Theorems Guard SimBase SSem.

Definition kq (l : loc) : qk := (fst l, (snd l, 0)).
Definition gk (q : qk) : Prop := snd (snd q) = 0.

Lemma kq_loc (q : qk) : gk q -> kq (loc_of q) = q.
Proof. destruct q as [f [i g]]. unfold gk, kq, loc_of. cbn. intros ->. reflexivity. Qed.
Lemma loc_kq l : loc_of (kq l) = l.
Proof. destruct l. reflexivity. Qed.

Fixpoint assoc_id (l : list (ident * handle)) (id : ident) : handle :=
  match l with
  | [] => (0, 0)
  | (k, h) :: l' => if key_eqb k id then h else assoc_id l' id
  end.

Lemma assoc_id_in l id : In id (map fst l) -> In (id, assoc_id l id) l.
Proof.
  induction l as [|[k h] l IH]; cbn [map fst assoc_id In]; [intros []|].
  destruct (key_eqb_spec k id) as [-> | Hne]; [left; reflexivity|].
  intros [E | H]; [contradiction | right; exact (IH H)].
Qed.

Lemma assoc_id_nodup l id h : NoDup (map fst l) -> In (id, h) l -> assoc_id l id = h.
Proof.
  induction l as [|[k h0] l IH]; cbn [map fst assoc_id In]; [intros _ []|].
  intros Hnd Hin. inversion Hnd as [|? ? Hni Hnd']; subst.
  destruct (key_eqb_spec k id) as [-> | Hne].
  - destruct Hin as [E | Hin]; [injection E as <-; reflexivity|].
    exfalso. apply Hni. apply in_map_iff. exists (id, h). auto.
  - destruct Hin as [E | Hin]; [injection E as E1 _; contradiction | exact (IH Hnd' Hin)].
Qed.

Definition wcur (s : db) : world :=
  {| w_in := fun i => f_val (d_in s i);
     w_cell := d_cell s;
     w_slot := fun h => match d_slots s (fst h) with Some sl => slot_fields sl | None => (0, 0, 0) end;
     w_alloc := fun q id => match d_memo s (loc_of q) with Some m => assoc_id (m_structs m) id | None => (0, 0) end |}.

Definition hist := rev -> world.
Definition Wd (Hs : hist) (s : db) (r : rev) : world := if r <? cur s then Hs r else wcur s.

Definition live_h (s : db) (h : handle) (sl : slot) : Prop :=
  d_slots s (fst h) = Some sl /\ sl_updated sl <> None /\ sl_gen sl = snd h.
Definition revf (sl : slot) (f : N) : rev := if f =? 0 then sl_rev0 sl else sl_rev1 sl.
Definition fldv (sl : slot) (f : N) : val := if f =? 0 then sl_f0 sl else sl_f1 sl.

Lemma fld3_slot sl f : fld3 (slot_fields sl) f = fldv sl f.
Proof. unfold fld3, fldv, slot_fields. cbn. reflexivity. Qed.
Lemma idv3_slot sl : idv3 (slot_fields sl) = sl_idv sl.
Proof. reflexivity. Qed.

Lemma live_h_live s h sl : live_h s h sl -> live s h.
Proof. intros H. exists sl. exact H. Qed.

Definition untr (x : rd) : Prop := x = RTouch \/ exists c, x = RCell c.

(* the dependency edges of a run, in the order the reads are first performed *)
Definition rd_edge (x : rd) : option edge :=
  match x with
  | RIn i => Some (EIn i)
  | RQ d => Some (EQ d)
  | RFld h f => Some (EFld h f)
  | _ => None
  end.
Definition edge_step (es : list edge) (x : rd) : list edge :=
  match rd_edge x with Some e => add_edge es e | None => es end.
Definition edges_of (t : list rd) : list edge := fold_left edge_step t [].

Lemma edges_of_snoc t x : edges_of (t ++ [x]) = edge_step (edges_of t) x.
Proof. unfold edges_of. rewrite fold_left_app. reflexivity. Qed.

Section SInv.
Variable prog : qk -> body.
Variable skind : N -> bool.
Variable idhash : val -> N.
Variable NF : nat.

Notation Ew := (Ew idhash prog NF).
Notation trw := (trw idhash prog NF).
Notation clos := (clos idhash prog NF).

(* the stamp c is at most the current stamp of the read x *)
Definition sle (s : db) (c : rev) (x : rd) : Prop :=
  match x with
  | RIn i => c <= f_changed (d_in s i)
  | RQ d => exists md, d_memo s (loc_of d) = Some md /\ c <= m_changed md
  | RFld h f => In h (issued s) /\ forall sl, live_h s h sl -> c <= revf sl f
  | RCell _ | RTouch => True
  | RNew _ _ _ _ | RIdf _ => False
  end.

(* the field-1 revision of a struct is the stamp of something read before its creation *)
Definition cstamp (s : db) (t : list rd) (id : ident) (c : rev) : Prop :=
  c <= 1 \/ exists pre idv f0 f1 post x, t = pre ++ RNew id idv f0 f1 :: post /\ In x pre /\ sle s c x.

(* who holds the struct with identity id of query d *)
Definition owned (s : db) (F : frames) (d : qk) (id : ident) (h : handle) : Prop :=
  (~ active_loc F (loc_of d) /\ exists md, d_memo s (loc_of d) = Some md /\ In (id, h) (m_structs md)) \/
  (exists fr e, In (d, fr) F /\ In e (fr_ids fr) /\ te_ident e = id /\ te_id e = h).

Section AtState.
Variable Hs : hist.
Variable s : db.
Variable F : frames.

Definition W (r : rev) : world := Wd Hs s r.
Definition Er (r : rev) (q : qk) : rval := Ew (W r) q.
Definition trr (r : rev) (q : qk) : list rd := trw (W r) q.

(* what an observer verified at v is owed about a query d of its closure *)
Record dval (v : rev) (d : qk) : Prop := {
  dv_memo : exists md, d_memo s (loc_of d) = Some md /\ v <= m_verified md /\
            (m_changed md <= v -> Er v d = Er (m_verified md) d);
  dv_fld : forall h f sl, In (RFld h f) (trr v d) -> live_h s h sl -> revf sl f <= v ->
           fld3 (w_slot (W v) h) f = fldv sl f;
  dv_idf : forall h sl, In (RIdf h) (trr v d) -> live_h s h sl -> idv3 (w_slot (W v) h) = sl_idv sl;
  dv_new : forall id idv f0 f1, In (RNew id idv f0 f1) (trr v d) ->
           w_slot (W v) (w_alloc (W v) d id) = (idv, f0, f1) /\ In (w_alloc (W v) d id) (issued s);
  dv_own : forall id idv f0 f1 sl, In (RNew id idv f0 f1) (trr v d) ->
           live_h s (w_alloc (W v) d id) sl -> owned s F d id (w_alloc (W v) d id)
}.

Record smemo_ok (q : qk) (m : memo) : Prop := {
  mo_order : 1 <= m_verified m /\ m_changed m <= m_verified m /\ m_verified m <= cur s;
  mo_val : m_val m = Some (Er (m_verified m) q);
  mo_low : m_dur m = 0;
  mo_origin : m_origin m = ODerived \/ m_origin m = OUntracked;
  mo_structs : NoDup (map fst (m_structs m)) /\
               forall id h, In (id, h) (m_structs m) <->
                 In id (news_ids (trr (m_verified m) q)) /\ h = w_alloc (W (m_verified m)) q id;
  mo_in : forall i, In (RIn i) (trr (m_verified m) q) <-> In (EIn i) (m_edges m);
  mo_q : forall d, In (RQ d) (trr (m_verified m) q) <-> In (EQ d) (m_edges m);
  mo_fld : forall h f, In (RFld h f) (trr (m_verified m) q) <-> In (EFld h f) (m_edges m);
  mo_out : forall o, ~ In (EOut o) (m_edges m);
  mo_eorder : m_edges m = edges_of (trr (m_verified m) q);
  mo_untr : forall x, In x (trr (m_verified m) q) -> untr x -> m_origin m = OUntracked;
  (* the structs of a memo whose query is not running: live, with the fields it created *)
  mo_own : ~ active_loc F (loc_of q) -> forall id h, In (id, h) (m_structs m) ->
           exists sl, live_h s h sl /\ slot_fields sl = w_slot (W (m_verified m)) h /\ sl_dur sl = 0 /\
                      sl_rev0 sl <= m_verified m /\ sl_rev1 sl <= m_verified m /\
                      cstamp s (trr (m_verified m) q) id (sl_rev1 sl);
  mo_obs : forall d, clos (W (m_verified m)) q d -> dval (m_verified m) d;
  mo_now : m_verified m = cur s -> forall d, In (RQ d) (trr (cur s) q) ->
           exists md, d_memo s (loc_of d) = Some md /\ m_verified md = cur s
}.

Record SInv : Prop := {
  si_cur : 1 <= cur s;
  si_in : forall i r, f_changed (d_in s i) <= r -> r <= cur s -> w_in (W r) i = f_val (d_in s i);
  si_in_le : forall i, f_changed (d_in s i) <= cur s;
  si_low : forall i, f_dur (d_in s i) = 0;
  si_oinv : OInv skind s F;
  si_cons : Cons skind s F;
  si_slots : forall i sl, d_slots s i = Some sl -> sl_updated sl <> None ->
             sl_dur sl = 0 /\ (forall r, sl_updated sl = Some r -> r <= cur s);
  (* generations are bounded by the revision counter: a slot changes generation at most once per revision *)
  si_gens : forall i sl, d_slots s i = Some sl ->
            match sl_updated sl with Some r => sl_gen sl < r | None => sl_gen sl + 1 < cur s end;
  si_memo : forall l m, d_memo s l = Some m -> smemo_ok (kq l) m;
  (* a slot read-locked in this revision holds a struct of a memo verified now or created (or
     re-created) by a running execution *)
  si_lock : forall h sl, live_h s h sl -> sl_updated sl = Some (cur s) ->
            (exists l m id, d_memo s l = Some m /\ m_verified m = cur s /\ In (id, h) (m_structs m)) \/
            (exists q fr id, In (q, fr) F /\ In (mk_entry id h true) (fr_ids fr));
  (* the memo of a running query is not verified in this revision; running queries have input keys *)
  si_active : forall q fr, In (q, fr) F -> gk q /\ forall m, d_memo s (loc_of q) = Some m -> m_verified m < cur s
}.

End AtState.

(* ---------------------------------------------------------------- within-revision extension *)
Definition slot_keeps (o o' : option slot) : Prop :=
  forall sl, o = Some sl -> sl_updated sl <> None ->
    exists sl', o' = Some sl' /\ sl_updated sl' <> None /\ sl_gen sl' = sl_gen sl /\
                slot_fields sl' = slot_fields sl /\ sl_rev0 sl' = sl_rev0 sl /\ sl_rev1 sl' = sl_rev1 sl /\
                sl_dur sl' = sl_dur sl.

Record sext (s s' : db) : Prop := {
  x_revs : d_revs s' = d_revs s;
  x_in : d_in s' = d_in s;
  x_cell : d_cell s' = d_cell s;
  x_valid : forall l m, d_memo s l = Some m -> m_verified m = cur s -> d_memo s' l = Some m;
  x_memo : forall l m, d_memo s l = Some m ->
           exists m', d_memo s' l = Some m' /\ m_verified m <= m_verified m' /\ m_changed m <= m_changed m';
  x_locked : forall i sl, d_slots s i = Some sl -> sl_updated sl = Some (cur s) -> d_slots s' i = Some sl;
  x_settled : forall l m id h, d_memo s l = Some m -> m_verified m = cur s -> In (id, h) (m_structs m) ->
              slot_keeps (d_slots s (fst h)) (d_slots s' (fst h));
  (* slots never disappear; generations and, within a generation, field revisions only grow *)
  x_slots : forall i sl, d_slots s i = Some sl ->
            exists sl', d_slots s' i = Some sl' /\ sl_gen sl <= sl_gen sl' /\
              (sl_gen sl' = sl_gen sl -> sl_updated sl' <> None ->
               sl_updated sl <> None /\ sl_rev0 sl <= sl_rev0 sl' /\ sl_rev1 sl <= sl_rev1 sl' /\
               sl_idv sl' = sl_idv sl);
  x_issued : incl (issued s) (issued s')
}.

Lemma slot_keeps_refl o : slot_keeps o o.
Proof. intros sl E Hu. exists sl. auto 10. Qed.

Lemma slot_keeps_trans a b c : slot_keeps a b -> slot_keeps b c -> slot_keeps a c.
Proof.
  intros H1 H2 sl E Hu. destruct (H1 sl E Hu) as (sl1 & E1 & Hu1 & G1 & Fl1 & A1 & B1 & C1).
  destruct (H2 sl1 E1 Hu1) as (sl2 & E2 & Hu2 & G2 & Fl2 & A2 & B2 & C2).
  exists sl2. repeat split; congruence.
Qed.

Lemma sext_cur s s' : sext s s' -> cur s' = cur s.
Proof. intros H. unfold cur. now rewrite (x_revs _ _ H). Qed.

Lemma sext_refl s : sext s s.
Proof.
  constructor; auto.
  - intros l m Hm. exists m. split; [exact Hm|]. split; lia.
  - intros l m id h _ _ _. apply slot_keeps_refl.
  - intros i sl Hs. exists sl. split; [exact Hs|]. split; [lia|]. intros _ Hu. repeat split; auto; lia.
  - intros x Hx. exact Hx.
Qed.

Lemma sext_trans s1 s2 s3 : sext s1 s2 -> sext s2 s3 -> sext s1 s3.
Proof.
  intros A B. pose proof (sext_cur _ _ A) as Hc.
  constructor.
  - rewrite (x_revs _ _ B). exact (x_revs _ _ A).
  - rewrite (x_in _ _ B). exact (x_in _ _ A).
  - rewrite (x_cell _ _ B). exact (x_cell _ _ A).
  - intros l m Hm Hv. apply (x_valid _ _ B); [exact (x_valid _ _ A l m Hm Hv) | rewrite Hc; exact Hv].
  - intros l m Hm. destruct (x_memo _ _ A l m Hm) as (m1 & Hm1 & V1 & C1).
    destruct (x_memo _ _ B l m1 Hm1) as (m2 & Hm2 & V2 & C2). exists m2. split; [exact Hm2|]. split; lia.
  - intros i sl Hs Hu. apply (x_locked _ _ B); [exact (x_locked _ _ A i sl Hs Hu) | rewrite Hc; exact Hu].
  - intros l m id h Hm Hv Hin.
    apply (slot_keeps_trans _ (d_slots s2 (fst h))).
    + exact (x_settled _ _ A l m id h Hm Hv Hin).
    + apply (x_settled _ _ B l m id h); [exact (x_valid _ _ A l m Hm Hv) | rewrite Hc; exact Hv | exact Hin].
  - intros i sl Hs. destruct (x_slots _ _ A i sl Hs) as (sl1 & Hs1 & G1 & K1).
    destruct (x_slots _ _ B i sl1 Hs1) as (sl2 & Hs2 & G2 & K2).
    exists sl2. split; [exact Hs2|]. split; [lia|]. intros Hg Hu.
    assert (Hg2 : sl_gen sl2 = sl_gen sl1) by lia.
    destruct (K2 Hg2 Hu) as (Hu1 & A1 & B1 & I1).
    assert (Hg1 : sl_gen sl1 = sl_gen sl) by lia.
    destruct (K1 Hg1 Hu1) as (Hu0 & A0 & B0 & I0).
    repeat split; [exact Hu0 | lia | lia | congruence].
  - intros x Hx. exact (x_issued _ _ B x (x_issued _ _ A x Hx)).
Qed.

End SInv.

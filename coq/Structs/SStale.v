(* Structs/SStale.v — the dependents property of C07 for the executable model (stage S1): deep
   verification never validates a memo through a dependency edge on a stale id.  If the walk over
   the recorded edges of a memo answers "unchanged", every tracked-field edge of the memo is on
   the CURRENT id of a LIVE slot; so for a field edge on an id whose slot was deleted or reused
   the walk answers "changed" — and it does so at an EARLIER edge: the check of the field edge
   itself (field_mca ignores the generation) may well answer "unchanged" (SStale examples). *)
From Salsa Require Import Base.
From Salsa.Kern Require Import CoreK CoreKFacts.
From Salsa.Structs Require Import Model ProofsBase ProofsCascade Machine ProofsInv ProofsStep Theorems Guard SimBase SimOps Sim
     SSem SInv SStable SSlots SStore SLock SNew SFrame SNewInv SRun SBody SExec SVerify SFetch.

Section Stale.
Variable prog : qk -> body.
Variable skind : N -> bool.
Variable idhash : val -> N.
Variable rank : qk -> nat.
Hypothesis Hrank : calls_below prog rank.
Variable NF : nat.
Hypothesis Hbound : forall q, (rank q < NF)%nat.
Hypothesis Hprov : no_forge idhash prog.
Hypothesis Hgk : forall q d, calls (prog q) d -> gk d.
Hypothesis Hnk : forall f, skind f = false.
Hypothesis Hfirst : forall q d, calls (prog q) d -> first_read (prog d).
Hypothesis Hns : forall q, nospec (prog q).

Notation SInv := (SInv prog skind idhash NF).

Theorem unchanged_walk_live_fields n Hs q m s F s' b :
  SInv Hs s F -> gk q -> d_memo s (loc_of q) = Some m -> m_verified m < cur s -> In q (d_stack s) ->
  ~ active_loc F (loc_of q) -> cur s < GMAX ->
  walk_edges skind (level prog skind [] idhash n) q (m_edges m) (m_verified m) s = (s', SOk b) ->
  SInv Hs s' F /\ d_memo s' (loc_of q) = Some m /\
  (b = false -> forall h f, In (EFld h f) (m_edges m) -> live s' h).
Proof.
  intros I Hg Hm Hv Hst Hna Hcur H.
  destruct (level_ok prog skind idhash rank Hrank NF Hbound Hprov Hgk Hnk Hfirst Hns n) as [_ HM].
  destruct (walk_ok prog skind idhash rank Hrank NF Hbound Hprov Hgk Hfirst _ Hs q m HM (m_edges m) [] s F s' b
              I Hg Hm Hv Hst Hna Hcur eq_refl (fun e (He : In e []) => match He with end) H) as (I' & X & (A & B & C) & Hf).
  assert (Hm' : d_memo s' (loc_of q) = Some m) by (rewrite (B q Hst); exact Hm).
  split; [exact I'|]. split; [exact Hm'|].
  intros -> h f Hin. specialize (Hf eq_refl (EFld h f) Hin). cbn [efact] in Hf.
  destruct Hf as [(id & Hid) | (l & mA & id & sl & _ & _ & _ & Hl & _)].
  - pose proof (memo_ok_of prog skind idhash NF Hs s' F q m I' Hg Hm') as Hok.
    destruct (mo_own _ _ _ _ _ _ _ _ Hok Hna id h Hid) as (sl & Hl & _). exact (live_h_live s' h sl Hl).
  - exact (live_h_live s' h sl Hl).
Qed.

(* contrapositive: a dependent holding a field edge on an id that is no longer live is not validated *)
Corollary stale_field_edge_changed n Hs q m s F s' b h f :
  SInv Hs s F -> gk q -> d_memo s (loc_of q) = Some m -> m_verified m < cur s -> In q (d_stack s) ->
  ~ active_loc F (loc_of q) -> cur s < GMAX ->
  walk_edges skind (level prog skind [] idhash n) q (m_edges m) (m_verified m) s = (s', SOk b) ->
  In (EFld h f) (m_edges m) -> ~ live s' h -> b = true.
Proof.
  intros I Hg Hm Hv Hst Hna Hcur H Hin Hnl.
  destruct (unchanged_walk_live_fields n Hs q m s F s' b I Hg Hm Hv Hst Hna Hcur H) as (_ & _ & Hf).
  destruct b; [reflexivity|]. exfalso. exact (Hnl (Hf eq_refl h f Hin)).
Qed.

End Stale.

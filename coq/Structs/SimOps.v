(* Structs/SimOps.v — model-to-machine simulation, part 2: the struct operations of a running
   body (new_struct, specify), completion (finish_exec) and the validation of specified outputs
   satisfy the frame relation [rel]. *)
From Salsa Require Import Base.
From Salsa.Kern Require Import CoreK.
From Salsa.Structs Require Import Model ProofsBase ProofsCascade Machine ProofsInv ProofsStep ProofsSpecify Guard SimBase.

Section SimOps.
Variable skind : N -> bool.
Variable sfams : list N.
Variable idhash : val -> N.
Hypothesis sfams_skind : forall fam, In fam sfams -> skind fam = true.

Notation OInv := (OInv skind).
Notation owns := (owns skind).
Notation peek_memo := (peek_memo skind).
Notation cur_okb := (cur_okb skind).
Notation mst := (mst skind).
Notation rel := (rel skind).
Notation Cons := (Cons skind).

(* slots that are read-locked in this revision are left exactly as they are *)
Definition lsame (s s' : db) : Prop :=
  forall i sl, d_slots s i = Some sl -> sl_updated sl = Some (cur s) -> d_slots s' i = Some sl.

Lemma rel_of_lsame (P : list qk) s s' :
  d_revs s' = d_revs s -> d_memo s' = d_memo s -> lsame s s' ->
  (forall p : qk, In p P -> skind (fst p) = true -> locked s (fst (snd p))) ->
  rel P s s'.
Proof.
  intros Er Em Hl HP. constructor.
  - exact Er.
  - intros i sl Hs Hu. exists sl. split; [exact (Hl i sl Hs Hu) | auto].
  - intros p Hp. unfold SimBase.mst. f_equal. apply peek_same; [exact Em|].
    change (snd (loc_of p)) with (fst (snd p)). change (fst (loc_of p)) with (fst p).
    intros Hk. destruct (HP p Hp Hk) as (sl & Hs & Hu).
    rewrite Hs. exact (Hl _ sl Hs Hu).
Qed.

Lemma casc_lsame s s' e : casc s s' e -> lsame s s'.
Proof.
  intros C i sl Hs Hu. rewrite (cs_other _ _ _ C); [exact Hs|].
  intros Hin. apply in_map_iff in Hin. destruct Hin as (c & <- & Hc).
  destruct (cs_died _ _ _ C c Hc) as (slc & Hsc & _ & Hlk & _). rewrite Hs in Hsc. injection Hsc as <-. contradiction.
Qed.

Lemma lsame_trans s1 s2 s3 : cur s2 = cur s1 -> lsame s1 s2 -> lsame s2 s3 -> lsame s1 s3.
Proof. intros Hc A B i sl Hs Hu. apply B; [exact (A i sl Hs Hu) | rewrite Hc; exact Hu]. Qed.

(* ---------------------------------------------------------------- new_struct *)
Lemma new_struct_lsame n q idv f0 f1 fr s F s' r :
  OInv s F -> In (q, fr) F ->
  new_struct skind sfams idhash n q idv f0 f1 fr s = (s', SOk r) ->
  d_revs s' = d_revs s /\ d_memo s' = d_memo s /\ d_stack s' = d_stack s /\ lsame s s'.
Proof.
  intros I Hq H. unfold new_struct, disambiguate in H.
  set (identity := (idhash idv, cnt_get (fr_disamb fr) (idhash idv))) in *.
  set (fr1 := set_fr_disamb fr (cnt_bump (fr_disamb fr) (idhash idv)) (cnt_bump (fr_occ fr) idv)) in *.
  change (fr_ids fr1) with (fr_ids fr) in H.
  destruct (reuse (fr_ids fr) identity) as [found ids1] eqn:Er.
  set (st := (fr_dur fr, fr_changed fr)) in *.
  msplit H as r0 t0 H0. msplit H as slg t1 H1. apply get_slot_ok in H1. destruct H1 as [-> Hslg].
  msplit H as u2 t2 H2. mstep H2. apply ret_ok in H. destruct H as [Es' Eret]. subst s'.
  cbn [set_ideal set_cname d_revs d_memo d_stack].
  assert (Hgoal : d_revs t0 = d_revs s /\ d_memo t0 = d_memo s /\ d_stack t0 = d_stack s /\ lsame s t0).
  { assert (Halloc : forall t id', allocate st idv f0 f1 s = (t, SOk id') ->
              d_revs t = d_revs s /\ d_memo t = d_memo s /\ d_stack t = d_stack s /\ lsame s t).
    { intros t id' Ha. destruct (allocate_spec _ _ _ _ _ _ _ Ha) as (Es & Erv & Em & _ & _ & Hcase).
      split; [exact Erv|]. split; [exact Em|]. split.
      - unfold allocate in Ha. msplit Ha as x t3 H3. mstep H3.
        destruct (pop_free (d_free s)) as [[h0 fl']|];
          msplit Ha as u4 t4 H4; mstep H4; msplit Ha as u5 t5 H5; apply put_slot_ok in H5; subst t5; mstep Ha; reflexivity.
      - intros i sl Hs Hu. rewrite Es. unfold updN. destruct (N.eqb_spec (fst id') i) as [E | E]; [|exact Hs].
        exfalso. subst i. destruct Hcase as [(sk & g & Ef & _) | (Eh & _)].
        + destruct (oi_free _ _ _ I (fst id') g) as (sl0 & Hs0 & Hu0 & _); [rewrite Ef; apply in_or_app; right; left; reflexivity|].
          rewrite Hs in Hs0. injection Hs0 as <-. rewrite Hu in Hu0. discriminate.
        + rewrite Eh in Hs. cbn [fst] in Hs.
          assert (d_slots s (d_nslots s) = None) by (apply (oi_alloc _ _ _ I); lia). congruence. }
    destruct found as [id|].
    - msplit H0 as u t3 H3.
      destruct (update_spec sfams n id st idv f0 f1 s t3 u H3) as (sl & Hs & Hu & UR).
      destruct UR as [Hlk | Hnl Hng | t3 Hnl Hsame Hng B Es | t3 g' ex s1 Hnl Hdiff Hng C Hroot P B Es].
      + destruct (handle_eqb id id); mstep H0; (split; [reflexivity|]; split; [reflexivity|]; split; [reflexivity|]; intros i sl0 H4 _; exact H4).
      + msplit H0 as id' t4 H4. mstep H0. exact (Halloc _ _ H4).
      + assert (Ht0 : t0 = t3) by (destruct (handle_eqb id id); mstep H0; reflexivity). subst t0.
        split; [exact (sb_revs _ _ B)|]. split; [exact (sb_memo _ _ B)|]. split; [exact (sb_stack _ _ B)|].
        intros i sl0 H4 Hu4. rewrite Es. unfold updN. destruct (N.eqb_spec (fst id) i) as [E | E]; [|exact H4].
        exfalso. subst i. rewrite Hs in H4. injection H4 as <-. contradiction.
      + assert (Ht0 : t0 = t3) by (destruct (handle_eqb (fst id, g') id); mstep H0; reflexivity). subst t0.
        set (sT := set_slots s (updN (d_slots s) (fst id) _)) in C.
        split; [rewrite (sb_revs _ _ B); exact (cs_revs _ _ _ C)|].
        split; [rewrite (sb_memo _ _ B); exact (cs_memo _ _ _ C)|].
        split; [rewrite (sb_stack _ _ B); exact (cs_stack _ _ _ C)|].
        intros i sl0 H4 Hu4. rewrite Es. unfold updN. destruct (N.eqb_spec (fst id) i) as [E | E].
        * exfalso. subst i. rewrite Hs in H4. injection H4 as <-. contradiction.
        * apply (casc_lsame _ _ _ C); [unfold sT; cbn [set_slots d_slots]; rewrite updN_other by exact E; exact H4 | exact Hu4].
    - msplit H0 as id' t4 H4. mstep H0. exact (Halloc _ _ H4). }
  exact Hgoal.
Qed.

Lemma new_struct_rel P n q idv f0 f1 fr s F s' r :
  OInv s F -> In (q, fr) F ->
  (forall p : qk, In p P -> skind (fst p) = true -> locked s (fst (snd p))) ->
  new_struct skind sfams idhash n q idv f0 f1 fr s = (s', SOk r) ->
  rel P s s' /\ d_stack s' = d_stack s.
Proof.
  intros I Hq HP H. destruct (new_struct_lsame _ _ _ _ _ _ _ _ _ _ I Hq H) as (Er & Em & Est & Hl).
  split; [exact (rel_of_lsame P s s' Er Em Hl HP) | exact Est].
Qed.

(* ---------------------------------------------------------------- put_memo *)
Lemma put_memo_rel P (q : qk) m s s' u :
  put_memo skind q m s = (s', SOk u) ->
  (forall p, In p P -> loc_of p <> loc_of q) ->
  rel P s s' /\ d_stack s' = d_stack s /\ peek_memo s' (loc_of q) = Some m.
Proof.
  intros H HP. unfold put_memo in H. msplit H as u0 t0 H0.
  assert (H1 : rel P s t0 /\ d_stack t0 = d_stack s /\
               (skind (fst q) = true -> exists sl, d_slots t0 (fst (snd q)) = Some sl /\ sl_updated sl <> None)).
  { destruct (skind (fst q)) eqn:Hk.
    - msplit H0 as sl0 t1 H1. mstep H0.
      destruct (lock_rel skind P _ _ _ _ H1) as (R & Est & _ & _ & Hs' & Hu'). split; [exact R|]. split; [exact Est|].
      intros _. exists sl0. auto.
    - mstep H0. split; [apply rel_refl|]. split; [reflexivity | discriminate]. }
  destruct H1 as (R0 & Est0 & Hlive).
  destruct (store_memo_rel skind P q m t0 s' u H Hlive) as (R & Est & Hpq & _).
  { intros p Hp E. exfalso. exact (HP p Hp E). }
  split; [exact (rel_trans skind P _ _ _ R0 R)|]. split; [congruence | exact Hpq].
Qed.

(* ---------------------------------------------------------------- completion *)
Lemma finish_rel P n (q : qk) old v fr s s' m :
  finish_exec skind sfams n q old v fr s = (s', SOk m) ->
  (forall p : qk, In p P -> skind (fst p) = true -> locked s (fst (snd p))) ->
  (forall p, In p P -> loc_of p <> loc_of q) ->
  rel P s s' /\ d_stack s' = d_stack s.
Proof.
  intros H HPl HPq. unfold finish_exec in H.
  destruct (drain (fr_ids fr)) as [active stale].
  destruct (backdate old (fr_dur fr) (fr_changed fr) v) as [ch | p |]; [|mstep H|mstep H].
  msplit H as u0 t0 H0. msplit H as x t1 H1. mstep H1. msplit H as u2 t2 H2. mstep H.
  assert (R0 : rel P s t0 /\ d_stack t0 = d_stack s).
  { destruct old as [o|].
    - destruct u0. destruct (diff_outputs_casc sfams n o q stale (fr_edges fr) s t0 H0) as (e & C & _ & _).
      split; [|exact (cs_stack _ _ _ C)].
      apply rel_of_lsame; [exact (cs_revs _ _ _ C) | exact (cs_memo _ _ _ C) | exact (casc_lsame _ _ _ C) | exact HPl].
    - mstep H0. split; [apply rel_refl | reflexivity]. }
  destruct R0 as [R0 Est0].
  destruct (put_memo_rel P q _ _ _ _ H2 HPq) as (R & Est & _).
  split; [exact (rel_trans skind P _ _ _ R0 R) | congruence].
Qed.

(* ---------------------------------------------------------------- specify *)
Lemma specify_rel P n (q : qk) fam h v fr s F s' fr' :
  OInv s F ->
  specify skind sfams n q fam h v fr s = (s', SOk fr') ->
  (forall p : qk, In p P -> skind (fst p) = true -> locked s (fst (snd p))) ->
  (existsb (qk_eqb (fam, h)) (d_stack s) = false -> forall p, In p P -> loc_of p <> loc_of (fam, h)) ->
  rel P s s' /\ d_stack s' = d_stack s.
Proof.
  intros I H HPl HPq. unfold specify in H.
  destruct (is_active (fr_ids fr) h); cbn [negb] in H; [|mstep H].
  msplit H as x0 t0 H0. mstep H0.
  destruct (existsb (qk_eqb (fam, h)) (d_stack s)) eqn:Est; [mstep H; split; [apply rel_refl | reflexivity]|].
  specialize (HPq eq_refl).
  msplit H as om t1 H1.
  destruct (get_memo_sim skind P (fam, h) s F t1 om I H1) as (I1 & R1 & Est1 & _ & _).
  msplit H as x1 t2 H2. mstep H2.
  msplit H as early t3 H3.
  assert (Ht3 : t3 = t1).
  { destruct om as [old|].
    - destruct ((m_verified old =? cur t1) && match m_val old with Some _ => true | None => false end).
      + destruct (m_origin old) as [| | by_].
        * mstep H3. reflexivity.
        * mstep H3. reflexivity.
        * destruct (negb (qk_eqb by_ q)); [mstep H3|].
          destruct (existsb (edge_eqb (EOut (fam, h))) (fr_edges fr)); [mstep H3|]. mstep H3. reflexivity.
      + mstep H3. reflexivity.
    - mstep H3. reflexivity. }
  subst t3.
  destruct (fst early); [mstep H; split; [exact R1 | exact Est1]|].
  destruct (backdate om (fr_dur (snd early)) (fr_changed (snd early)) v) as [ch | p |]; [|mstep H|mstep H].
  msplit H as u5 t5 H5. msplit H as u6 t6 H6. mstep H.
  assert (HPl1 : forall p, In p P -> skind (fst p) = true -> locked t1 (fst (snd p))).
  { intros p Hp Hk. exact (locked_rel skind P s t1 _ R1 (HPl p Hp Hk)). }
  assert (R2 : rel P t1 t5 /\ d_stack t5 = d_stack t1).
  { destruct om as [old|].
    - destruct u5. destruct (diff_outputs_casc sfams n old (fam, h) (m_structs old) [] t1 t5 H5) as (e & C & _ & _).
      split; [|exact (cs_stack _ _ _ C)].
      apply rel_of_lsame; [exact (cs_revs _ _ _ C) | exact (cs_memo _ _ _ C) | exact (casc_lsame _ _ _ C) | exact HPl1].
    - mstep H5. split; [apply rel_refl | reflexivity]. }
  destruct R2 as [R2 Est2].
  destruct (put_memo_rel P (fam, h) _ _ _ _ H6 HPq) as (R3 & Est3 & _).
  split; [exact (rel_trans skind P _ _ _ R1 (rel_trans skind P _ _ _ R2 R3)) | congruence].
Qed.

(* ---------------------------------------------------------------- validation of outputs *)
Lemma validate_specified_sim P (q o : qk) s F s' :
  OInv s F -> validate_specified skind q o s = (s', SOk tt) ->
  OInv s' F /\ rel P s s' /\ d_stack s' = d_stack s.
Proof.
  intros I H. unfold validate_specified in H.
  msplit H as om t H1. destruct (get_memo_sim skind P o s F t om I H1) as (I1 & R1 & Est1 & Eom & _).
  destruct om as [m|]; [|mstep H; auto].
  destruct (m_origin m) as [| | by_]; [mstep H | mstep H |].
  destruct (qk_eqb by_ q); [|mstep H].
  msplit H as m' t2 H2. mstep H.
  destruct (mark_verified_sim skind sfams sfams_skind P o m t F t2 m' I1 H2) as (I2 & R2 & Est2 & _).
  { unfold SimBase.mst. rewrite <- Eom. reflexivity. }
  split; [exact I2|]. split; [exact (rel_trans skind P _ _ _ R1 R2) | congruence].
Qed.

Lemma iter_validate_sim P (q : qk) : forall os s F s',
  OInv s F -> iterM (validate_specified skind q) os s = (s', SOk tt) ->
  OInv s' F /\ rel P s s' /\ d_stack s' = d_stack s.
Proof.
  induction os as [|o os IH]; intros s F s' I H; cbn [iterM] in H.
  - mstep H. split; [exact I|]. split; [apply rel_refl | reflexivity].
  - msplit H as u t H1. destruct u.
    destruct (validate_specified_sim P q o s F t I H1) as (I1 & R1 & Est1).
    destruct (IH t F s' I1 H) as (I2 & R2 & Est2).
    split; [exact I2|]. split; [exact (rel_trans skind P _ _ _ R1 R2) | congruence].
Qed.

(* update_shallow: ShHigher marks the memo and its specified outputs verified *)
Lemma update_shallow_sim P (q : qk) m u s F s' m' :
  OInv s F -> update_shallow skind q m u s = (s', SOk m') ->
  mst s q = Some (m_structs m) ->
  OInv s' F /\ rel P s s' /\ d_stack s' = d_stack s /\ m_structs m' = m_structs m.
Proof.
  intros I H Hm. destruct u; cbn [update_shallow] in H.
  - mstep H. split; [exact I|]. split; [apply rel_refl|]. split; reflexivity.
  - msplit H as m1 t H1.
    destruct (mark_verified_sim skind sfams sfams_skind P q m s F t m1 I H1 Hm) as (I1 & R1 & Est1 & Es1 & _).
    msplit H as u t2 H2. destruct u. mstep H.
    unfold mark_outputs_verified in H2.
    destruct (iter_validate_sim P q _ t F t2 I1 H2) as (I2 & R2 & Est2).
    split; [exact I2|]. split; [exact (rel_trans skind P _ _ _ R1 R2)|]. split; [congruence | exact Es1].
  - mstep H. split; [exact I|]. split; [apply rel_refl|]. split; reflexivity.
Qed.

End SimOps.

(* Structs/SStable.v — the world of the current revision, as read off the state, is stable
   for every settled query (memo verified now) while the state is extended within the revision:
   its closure is settled, the allocations are in memos that stay, and the structs it reads belong
   to settled creators, whose slots are kept. *)
From Salsa Require Import Base.
From Salsa.Kern Require Import CoreK CoreKFacts.
From Salsa.Structs Require Import Model ProofsBase ProofsCascade Machine ProofsInv ProofsStep Theorems Guard SimBase SSem SInv.

Section Stable.
Variable prog : qk -> body.
Variable skind : N -> bool.
Variable idhash : val -> N.
Variable rank : qk -> nat.
Hypothesis Hrank : calls_below prog rank.
Variable NF : nat.
Hypothesis Hbound : forall q, (rank q < NF)%nat.
Hypothesis Hprov : no_forge idhash prog.
Hypothesis Hgk : forall q d, calls (prog q) d -> gk d.

Notation Ew := (Ew idhash prog NF).
Notation trw := (trw idhash prog NF).
Notation envw := (envw idhash prog NF).
Notation clos := (clos idhash prog NF).
Notation SInv := (SInv prog skind idhash NF).
Notation smemo_ok := (smemo_ok prog idhash NF).
Notation dval := (dval prog idhash NF).
Notation Er := (Er prog idhash NF).
Notation trr := (trr prog idhash NF).

Definition settled (s : db) (q : qk) : Prop :=
  exists m, d_memo s (loc_of q) = Some m /\ m_verified m = cur s.

Lemma W_cur Hs s : W Hs s (cur s) = wcur s.
Proof. unfold W, Wd. rewrite N.ltb_irrefl. reflexivity. Qed.

Lemma trr_cur Hs s q : trr Hs s (cur s) q = trw (wcur s) q.
Proof. unfold SInv.trr. rewrite W_cur. reflexivity. Qed.
Lemma Er_cur Hs s q : Er Hs s (cur s) q = Ew (wcur s) q.
Proof. unfold SInv.Er. rewrite W_cur. reflexivity. Qed.

Lemma W_past Hs s r : r < cur s -> W Hs s r = Hs r.
Proof. intros H. unfold W, Wd. apply N.ltb_lt in H. rewrite H. reflexivity. Qed.

Lemma W_same_cur Hs s s' r : cur s' = cur s -> r < cur s -> W Hs s' r = W Hs s r.
Proof. intros Hc Hr. rewrite !W_past by lia. reflexivity. Qed.

Lemma memo_ok_of Hs s F q m : SInv Hs s F -> gk q -> d_memo s (loc_of q) = Some m -> smemo_ok Hs s F q m.
Proof. intros I Hg Hm. pose proof (si_memo _ _ _ _ _ _ _ I _ _ Hm) as H. rewrite (kq_loc q Hg) in H. exact H. Qed.

Lemma trw_gk w q d : In (RQ d) (trw w q) -> gk d.
Proof. intros H. apply calls_of_trace in H. exact (Hgk _ _ H). Qed.

Lemma clos_gk w q d : gk q -> clos w q d -> gk d.
Proof.
  intros Hg Hc. induction Hc as [f | f d0 d Hin Hd0 IH]; [exact Hg|]. apply IH. exact (trw_gk _ _ _ Hin).
Qed.

Lemma settled_not_active Hs s F q : SInv Hs s F -> settled s q -> ~ active_loc F (loc_of q).
Proof.
  intros I (m & Hm & Hv) (q' & fr & Hin & El).
  destruct (si_active _ _ _ _ _ _ _ I q' fr Hin) as [_ Hlt]. rewrite El in Hlt.
  specialize (Hlt m Hm). lia.
Qed.

Lemma settled_clos Hs s F q : SInv Hs s F -> gk q -> settled s q ->
  forall d, clos (wcur s) q d -> settled s d /\ gk d.
Proof.
  intros I Hg Hs0 d Hc. induction Hc as [f | f d0 d Hin Hd0 IH]; [auto|].
  apply IH; [exact (trw_gk _ _ _ Hin)|].
  destruct Hs0 as (m & Hm & Hv).
  pose proof (memo_ok_of Hs s F f m I Hg Hm) as Hok.
  apply (mo_now _ _ _ _ _ _ _ _ Hok Hv). unfold SInv.trr. rewrite W_cur. exact Hin.
Qed.

(* a struct created by a settled query, in the current world, is listed by its memo *)
Lemma created_listed Hs s F A h : SInv Hs s F -> gk A -> settled s A -> created_by idhash prog NF (wcur s) A h ->
  exists m id, d_memo s (loc_of A) = Some m /\ m_verified m = cur s /\ In (id, h) (m_structs m).
Proof.
  intros I Hg (m & Hm & Hv) (id & idv & f0 & f1 & Hin & ->).
  pose proof (memo_ok_of Hs s F A m I Hg Hm) as Hok.
  exists m, id. split; [exact Hm|]. split; [exact Hv|].
  apply (proj2 (mo_structs _ _ _ _ _ _ _ _ Hok)). rewrite Hv. unfold SInv.trr. rewrite W_cur.
  split; [apply in_news_ids; eauto | reflexivity].
Qed.

(* every handle a settled query reads through is held by a settled memo *)
Lemma read_handle_listed Hs s F q h : SInv Hs s F -> gk q -> settled s q ->
  uses idhash (envw (wcur s) q) (prog q) [] h ->
  exists A m id, gk A /\ d_memo s (loc_of A) = Some m /\ m_verified m = cur s /\ In (id, h) (m_structs m) /\
                 clos (wcur s) q A.
Proof.
  intros I Hg Hst Hu.
  destruct (creator_exists idhash prog rank Hrank NF Hbound Hprov (wcur s) (S (rank q)) q h (le_n _) Hu)
    as (A & HcA & HA).
  destruct (settled_clos Hs s F q I Hg Hst A HcA) as [HsA HgA].
  destruct (created_listed Hs s F A h I HgA HsA HA) as (m & id & Hm & Hv & Hin).
  exists A, m, id. auto.
Qed.

Lemma wslot_keeps s s' h sl : live_h s h sl -> slot_keeps (d_slots s (fst h)) (d_slots s' (fst h)) ->
  w_slot (wcur s') h = w_slot (wcur s) h /\ exists sl', live_h s' h sl' /\ slot_fields sl' = slot_fields sl /\
    sl_rev0 sl' = sl_rev0 sl /\ sl_rev1 sl' = sl_rev1 sl /\ sl_dur sl' = sl_dur sl.
Proof.
  intros (Hs & Hu & Hg) K. destruct (K sl Hs Hu) as (sl' & Hs' & Hu' & Hg' & Hf & A & B & C).
  split.
  - cbn [wcur w_slot]. rewrite Hs, Hs'. exact Hf.
  - exists sl'. split; [split; [exact Hs'|]; split; [exact Hu' | congruence]|]. auto.
Qed.

(* the current world is stable for settled queries *)
Theorem settled_stable Hs s F s' q : SInv Hs s F -> sext s s' -> gk q -> settled s q ->
  trw (wcur s') q = trw (wcur s) q /\ Ew (wcur s') q = Ew (wcur s) q /\
  (forall d, clos (wcur s) q d <-> clos (wcur s') q d).
Proof.
  intros I X Hg Hst.
  assert (Hag : forall d, clos (wcur s) q d -> local_agree idhash prog NF (wcur s) (wcur s') d).
  { intros d Hd. destruct (settled_clos Hs s F q I Hg Hst d Hd) as [Hsd Hgd].
    intros r Hr Hnq.
    assert (Hslot : forall h, uses idhash (envw (wcur s) d) (prog d) [] h -> w_slot (wcur s') h = w_slot (wcur s) h).
    { intros h Hu.
      destruct (read_handle_listed Hs s F d h I Hgd Hsd Hu) as (A & m & id & HgA & Hm & Hv & Hin & _).
      pose proof (memo_ok_of Hs s F A m I HgA Hm) as HokA.
      assert (HsA : settled s A) by (exists m; auto).
      destruct (mo_own _ _ _ _ _ _ _ _ HokA (settled_not_active Hs s F A I HsA) id h Hin) as (sl & Hl & _).
      exact (proj1 (wslot_keeps s s' h sl Hl (x_settled _ _ X _ m id h Hm Hv Hin))). }
    destruct r as [i | c | c | | id idv f0 f1 | h f | h]; cbn [answer envw mkenv e_in e_cell e_slot e_new].
    - cbn [wcur w_in]. rewrite (x_in _ _ X). reflexivity.
    - exfalso. exact (Hnq c eq_refl).
    - cbn [wcur w_cell]. rewrite (x_cell _ _ X). reflexivity.
    - reflexivity.
    - destruct Hsd as (m & Hm & Hv). cbn [wcur w_alloc]. rewrite Hm, (x_valid _ _ X _ m Hm Hv). reflexivity.
    - rewrite Hslot; [reflexivity|]. left. exists f. exact Hr.
    - rewrite Hslot; [reflexivity|]. right. left. exact Hr. }
  destruct (cone_determined idhash prog rank Hrank NF Hbound (wcur s) (wcur s') (S (rank q)) q (le_n _) Hag) as [A B].
  split; [exact A|]. split; [exact B|].
  exact (clos_cone idhash prog rank Hrank NF Hbound (wcur s) (wcur s') q Hag).
Qed.

(* what the invariant says about a revision is stable: past worlds are frozen, the current
   world is stable for settled queries *)
Lemma obs_stable Hs s F s' r q : SInv Hs s F -> sext s s' -> gk q ->
  r < cur s \/ (r = cur s /\ settled s q) ->
  trw (W Hs s' r) q = trw (W Hs s r) q /\ Ew (W Hs s' r) q = Ew (W Hs s r) q /\
  (forall d, clos (W Hs s r) q d <-> clos (W Hs s' r) q d).
Proof.
  intros I X Hg [Hr | [-> Hst]].
  - rewrite (W_same_cur Hs s s' r (sext_cur _ _ X) Hr). split; [reflexivity|]. split; [reflexivity | tauto].
  - assert (E' : W Hs s' (cur s) = wcur s') by (rewrite <- (sext_cur _ _ X); apply W_cur).
    rewrite E', W_cur. exact (settled_stable Hs s F s' q I X Hg Hst).
Qed.

Lemma settled_sext s s' q : sext s s' -> settled s q -> settled s' q.
Proof.
  intros X (m & Hm & Hv). exists m. split; [exact (x_valid _ _ X _ m Hm Hv) | rewrite (sext_cur _ _ X); exact Hv].
Qed.

End Stable.

(* Structs/SSpec.v — the memo-free value Ew of a consistent world IS what the operational
   from-scratch evaluator of Structs/Spec.v computes (Spec.spec_get: one evaluation on a fresh
   database, handles = interned canonical names (creator, identity value, occurrence)), whenever
   that evaluation answers: same data value, and the i-th returned struct of the world is the
   creation that the i-th canonical name of the evaluator denotes. *)
From Coq Require Import Arith.
From Salsa Require Import Base.
From Salsa.Structs Require Import Model ProofsBase Spec Machine SSem SInv SRun SStable STop SParamK.

(* ---------------------------------------------------------------- the evaluator only adds names *)
Definition ext (s s' : sstate) : Prop := exists rest, ss_names s' = ss_names s ++ rest.

Lemma ext_refl s : ext s s.
Proof. exists []. rewrite app_nil_r. reflexivity. Qed.
Lemma ext_trans a b c : ext a b -> ext b c -> ext a c.
Proof. intros [r1 E1] [r2 E2]. exists (r1 ++ r2). rewrite E2, E1, app_assoc. reflexivity. Qed.
Lemma ext_names a b : ss_names b = ss_names a -> ext a b.
Proof. intros E. exists []. rewrite app_nil_r. exact E. Qed.

Section Ext.
Variable prog : qk -> body.
Variable skind : N -> bool.
Variable sn : snapshot.

Lemma srun_ext (ev : qk -> SM rval) : (forall c s s' x, ev c s = (s', x) -> ext s s') ->
  forall b q lf s s' x, srun skind sn ev q b lf s = (s', x) -> ext s s'.
Proof.
  intros Hev. induction b as [v hs | i k IH | c k IH | c k IH | k IH | idv f0 f1 k IH | h f k IH | h k IH | fam h v k IH];
    intros q lf s s' x H; cbn [srun] in H.
  - injection H as <- _. apply ext_refl.
  - exact (IH _ _ _ _ _ _ H).
  - unfold sbind in H. destruct (ev c s) as [s1 [r | p |]] eqn:E1.
    + exact (ext_trans _ _ _ (Hev _ _ _ _ E1) (IH _ _ _ _ _ _ H)).
    + injection H as <- _. exact (Hev _ _ _ _ E1).
    + injection H as <- _. exact (Hev _ _ _ _ E1).
  - exact (IH _ _ _ _ _ _ H).
  - exact (IH _ _ _ _ _ H).
  - destruct (find_name (ss_names s) _ 0) as [i|].
    + refine (ext_trans _ _ _ _ (IH _ _ _ _ _ _ H)). apply ext_names. reflexivity.
    + refine (ext_trans _ _ _ _ (IH _ _ _ _ _ _ H)). eexists. reflexivity.
  - destruct (fields_get (ss_fields s) (fst h)) as [[a0 a1] a2]. exact (IH _ _ _ _ _ _ H).
  - destruct (fields_get (ss_fields s) (fst h)) as [[a0 a1] a2]. exact (IH _ _ _ _ _ _ H).
  - destruct (negb (existsb (handle_eqb h) (sf_own lf))); [injection H as <- _; apply ext_refl|].
    destruct (done_get (ss_done s) (fam, h)) as [[r [|]]|].
    + destruct (existsb (qk_eqb (fam, h)) (sf_assigned lf)); [injection H as <- _; apply ext_refl | exact (IH _ _ _ _ _ H)].
    + refine (ext_trans _ _ _ _ (IH _ _ _ _ _ H)). apply ext_names. reflexivity.
    + refine (ext_trans _ _ _ _ (IH _ _ _ _ _ H)). apply ext_names. reflexivity.
Qed.

Lemma seval_ext : forall n c s s' x, seval prog skind sn n c s = (s', x) -> ext s s'.
Proof.
  induction n as [|n IH]; intros c s s' x H; cbn [seval] in H.
  - injection H as <- _. apply ext_refl.
  - destruct (done_get (ss_done s) c) as [[r b]|]; [injection H as <- _; apply ext_refl|].
    destruct (srun skind sn (seval prog skind sn n) c (prog c) sframe0 s) as [s1 [r | p |]] eqn:E1;
      pose proof (srun_ext _ IH _ _ _ _ _ _ E1) as X.
    + destruct (done_get (ss_done s1) c) as [[r' b']|]; injection H as <- _; [exact X|].
      refine (ext_trans _ _ _ X _). apply ext_names. reflexivity.
    + injection H as <- _. exact X.
    + injection H as <- _. exact X.
Qed.
End Ext.

(* ---------------------------------------------------------------- occurrences by identity value *)
Fixpoint occ_count (x : val) (t : list rd) : N :=
  match t with
  | [] => 0
  | RNew _ idv _ _ :: t' => (if idv =? x then 1 else 0) + occ_count x t'
  | _ :: t' => occ_count x t'
  end.

Lemma occ_count_app x t1 t2 : occ_count x (t1 ++ t2) = occ_count x t1 + occ_count x t2.
Proof. induction t1 as [|r t1 IH]; [reflexivity|]. cbn [app occ_count]. destruct r; rewrite IH; lia. Qed.

Lemma split_occ_unique : forall (t pre : list rd) id idv f0 f1 post pre' id' f0' f1' post',
  t = pre ++ RNew id idv f0 f1 :: post -> t = pre' ++ RNew id' idv f0' f1' :: post' ->
  occ_count idv pre = occ_count idv pre' -> pre = pre' /\ id = id' /\ f0 = f0' /\ f1 = f1'.
Proof.
  intros t pre. revert t. induction pre as [|a pre IH]; intros t id idv f0 f1 post pre' id' f0' f1' post' E E' Hc.
  - destruct pre' as [|a' pre'].
    + cbn in E, E'. rewrite E in E'. injection E' as <- <- <- _. auto.
    + exfalso. cbn in E, E'. rewrite E in E'. injection E' as <- _. cbn [occ_count] in Hc. rewrite N.eqb_refl in Hc. lia.
  - destruct pre' as [|a' pre'].
    + exfalso. cbn in E, E'. rewrite E in E'. injection E' as -> _. cbn [occ_count] in Hc. rewrite N.eqb_refl in Hc. lia.
    + cbn [app] in E, E'. rewrite E in E'. injection E' as <- E'.
      destruct (IH _ id idv f0 f1 post pre' id' f0' f1' post' eq_refl E') as (A & B).
      * cbn [occ_count] in Hc. destruct a; lia.
      * subst pre'. auto.
Qed.

(* ---------------------------------------------------------------- the simulation *)
Section SpecSim.
Variable prog : qk -> body.
Variable skind : N -> bool.
Variable idhash : val -> N.
Variable rank : qk -> nat.
Hypothesis Hrank : calls_below prog rank.
Variable NF : nat.
Hypothesis Hbound : forall q, (rank q < NF)%nat.
Hypothesis Hpar : parametricK prog.
Hypothesis Hnk : forall f, skind f = false.
Hypothesis Hgk : forall q d, calls (prog q) d -> gk d.

Notation Ew := (Ew idhash prog NF).
Notation trw := (trw idhash prog NF).
Notation envw := (envw idhash prog NF).
Notation clos := (clos idhash prog NF).
Notation wcons := (wcons prog idhash NF).

Variable w : world.
Variable q0 : qk.
Hypothesis Hg0 : gk q0.
Hypothesis Hc : wcons w q0.

Definition snw : snapshot := {| sn_in := w_in w; sn_cell := w_cell w |}.

Definition cname_of (d : qk) (idv : val) (occ : N) : cname := CN (fst d) (KIn (fst (snd d))) idv occ.

(* the struct h of the world is the creation named nm: made by d, with identity value idv, as the
   occ-th creation of d with that identity value *)
Definition cre (d : qk) (nm : cname) (h : handle) : Prop :=
  exists pre id idv f0 f1 post, trw w d = pre ++ RNew id idv f0 f1 :: post /\
    nm = cname_of d idv (occ_count idv pre) /\ h = w_alloc w d id.

Lemma cre_unique d d' nm h h' : gk d -> gk d' -> cre d nm h -> cre d' nm h' -> d = d' /\ h = h'.
Proof.
  intros Hg Hg' (pre & id & idv & f0 & f1 & post & Et & En & Eh) (pre' & id' & idv' & f0' & f1' & post' & Et' & En' & Eh').
  rewrite En in En'. unfold cname_of in En'. injection En' as E1 E2 E3 E4.
  assert (d = d').
  { destruct d as [f [i g]], d' as [f' [i' g']]. unfold gk in *. cbn in *. subst. reflexivity. }
  subst d' idv'. split; [reflexivity|].
  destruct (split_occ_unique _ pre id idv f0 f1 post pre' id' f0' f1' post' Et Et' E4) as (_ & <- & _).
  congruence.
Qed.

Lemma cre_slot d nm h : clos w q0 d -> cre d nm h -> exists idv f0 f1, w_slot w h = (idv, f0, f1) /\
  exists pre id post, trw w d = pre ++ RNew id idv f0 f1 :: post /\ nm = cname_of d idv (occ_count idv pre) /\ h = w_alloc w d id.
Proof.
  intros Q (pre & id & idv & f0 & f1 & post & Et & En & Eh). exists idv, f0, f1. split.
  - rewrite Eh. apply (Hc d Q id idv f0 f1). rewrite Et. apply in_or_app. right. left. reflexivity.
  - exists pre, id, post. auto.
Qed.

Section Final.
Variable Nf : list cname.       (* the names of the final evaluator state *)

Definition Rm (m : nat) (sh h : handle) : Prop :=
  snd sh = 0 /\ (N.to_nat (fst sh) < m)%nat /\
  exists d nm, clos w q0 d /\ nth_error Nf (N.to_nat (fst sh)) = Some nm /\ cre d nm h.

Lemma Rm_mono m m' h h' : (m <= m')%nat -> Rm m h h' -> Rm m' h h'.
Proof. intros L (A & B & C). split; [exact A|]. split; [lia | exact C]. Qed.

Definition pre_of (st : sstate) : Prop := exists rest, Nf = ss_names st ++ rest.

Lemma pre_of_ext st st' : ext st st' -> pre_of st' -> pre_of st.
Proof. intros [r1 E1] [r2 E2]. exists (r1 ++ r2). rewrite E2, E1, app_assoc. reflexivity. Qed.

Record Inv (st : sstate) : Prop := {
  iv_fld : forall i nm d h, nth_error (ss_names st) i = Some nm -> clos w q0 d -> cre d nm h ->
           fields_get (ss_fields st) (N.of_nat i) = w_slot w h;
  iv_done : forall d r b, done_get (ss_done st) d = Some (r, b) ->
            clos w q0 d /\ rrelK Rm (length (ss_names st)) r (Ew w d)
}.

Lemma rrelK_mono m m' r r' : (m <= m')%nat -> rrelK Rm m r r' -> rrelK Rm m' r r'.
Proof. intros L [A B]. split; [exact A | exact (forall2_mono Rm Rm_mono m m' _ _ L B)]. Qed.

Lemma find_name_spec : forall l c k i, find_name l c k = Some i ->
  exists j, i = k + N.of_nat j /\ exists c', nth_error l j = Some c' /\ cname_eqb c' c = true.
Proof.
  induction l as [|x l IH]; intros c k i H; cbn [find_name] in H; [discriminate|].
  destruct (cname_eqb x c) eqn:E.
  - injection H as <-. exists 0%nat. split; [cbn; lia|]. exists x. auto.
  - destruct (IH c (k + 1) i H) as (j & Ei & c' & Hn & Ec). exists (S j). split; [lia|]. exists c'. auto.
Qed.

Lemma cname_eqb_eq : forall a b, cname_eqb a b = true -> a = b
with ckey_eqb_eq : forall a b, ckey_eqb a b = true -> a = b.
Proof.
  - intros [f k v o] [f' k' v' o']. cbn [cname_eqb]. intros H.
    apply andb_true_iff in H. destruct H as [H Ho]. apply andb_true_iff in H. destruct H as [H Hv].
    apply andb_true_iff in H. destruct H as [Hf Hk].
    apply N.eqb_eq in Hf, Hv, Ho. apply ckey_eqb_eq in Hk. subst. reflexivity.
  - intros [i | c] [j | d]; cbn [ckey_eqb]; intros H; try discriminate.
    + apply N.eqb_eq in H. subst. reflexivity.
    + apply cname_eqb_eq in H. subst. reflexivity.
Qed.

Section Ev.
Variable ev : qk -> SM rval.
Hypothesis Hev_ext : forall c s s' x, ev c s = (s', x) -> ext s s'.
Hypothesis Hev : forall c st st' r, clos w q0 c -> Inv st -> ev c st = (st', SOk r) -> pre_of st' ->
  Inv st' /\ rrelK Rm (length (ss_names st')) r (Ew w c).

Lemma srun_sim : forall m b b', brelK Rm m b b' ->
  forall d done dis lf st st' r, clos w q0 d -> gk d -> m = length (ss_names st) ->
  trw w d = done ++ trace idhash (envw w d) b' dis ->
  (forall x, cnt_get (sf_occ lf) x = occ_count x done) ->
  Inv st -> srun skind snw ev d b lf st = (st', SOk r) -> pre_of st' ->
  Inv st' /\ rrelK Rm (length (ss_names st')) r (run idhash (envw w d) b' dis).
Proof.
  intros m b b' Hb.
  induction Hb as [m v hs hs' Hhs | m i k k' Hk IHk | m c k k' Hk IHk | m c k k' Hk IHk | m k k' Hk IHk
                   | m idv f0 f1 k k' Hk IHk | m sh h f k k' Hh Hk IHk | m sh h k k' Hh Hk IHk];
    intros d done dis lf st st' r Q Hgd Em Et Hocc I H Hpre; cbn [srun] in H; cbn [run trace] in *.
  - injection H as <- <-. split; [exact I|]. split; [reflexivity|]. rewrite <- Em. exact Hhs.
  - apply (IHk _ d (done ++ [RIn i]) dis lf st st' r Q Hgd Em); auto.
    + rewrite <- app_assoc. exact Et.
    + intros x. rewrite occ_count_app. cbn. rewrite Hocc. lia.
  - unfold sbind in H. destruct (ev c st) as [st2 [rc | p |]] eqn:E1; try discriminate.
    assert (Qc : clos w q0 c).
    { eapply clos_right; [exact Q|]. rewrite Et. apply in_or_app. right. left. reflexivity. }
    pose proof (Hev_ext _ _ _ _ E1) as X1.
    pose proof (srun_ext skind snw ev Hev_ext _ _ _ _ _ _ H) as X2.
    destruct (Hev c st st2 rc Qc I E1 (pre_of_ext _ _ X2 Hpre)) as [I2 Hr].
    assert (L : (m <= length (ss_names st2))%nat).
    { destruct X1 as [rest E]. rewrite E, app_length. lia. }
    apply (IHk (length (ss_names st2)) rc (Ew w c) L Hr d (done ++ [RQ c]) dis lf st2 st' r Q Hgd eq_refl); auto.
    + rewrite <- app_assoc. exact Et.
    + intros x. rewrite occ_count_app. cbn. rewrite Hocc. lia.
  - apply (IHk _ d (done ++ [RCell c]) dis lf st st' r Q Hgd Em); auto.
    + rewrite <- app_assoc. exact Et.
    + intros x. rewrite occ_count_app. cbn. rewrite Hocc. lia.
  - apply (IHk d (done ++ [RTouch]) dis lf st st' r Q Hgd Em); auto.
    + rewrite <- app_assoc. exact Et.
    + intros x. rewrite occ_count_app. cbn. rewrite Hocc. lia.
  - (* a creation *)
    unfold ckey_spec in H. rewrite Hnk in H.
    set (nm := CN (fst d) (KIn (fst (snd d))) idv (cnt_get (sf_occ lf) idv)) in *.
    set (id := nident idhash dis idv) in *.
    set (he := w_alloc w d id).
    assert (Hcre : cre d nm he).
    { exists done, id, idv, f0, f1, (trace idhash (envw w d) (k' (e_new (envw w d) id)) (cnt_bump dis (idhash idv))).
      split; [exact Et|]. split; [|reflexivity]. unfold nm, cname_of. rewrite Hocc. reflexivity. }
    assert (Hslot : w_slot w he = (idv, f0, f1)).
    { apply (Hc d Q id idv f0 f1). rewrite Et. apply in_or_app. right. left. reflexivity. }
    assert (Hocc' : forall x, cnt_get (cnt_bump (sf_occ lf) idv) x = occ_count x (done ++ [RNew id idv f0 f1])).
    { intros x. rewrite occ_count_app. cbn [occ_count]. destruct (N.eqb_spec idv x) as [<- | Hne].
      - rewrite cnt_get_bump_same, Hocc. lia.
      - rewrite cnt_get_bump_other by exact Hne. rewrite Hocc. lia. }
    assert (Et1 : trw w d = (done ++ [RNew id idv f0 f1]) ++ trace idhash (envw w d) (k' he) (cnt_bump dis (idhash idv))).
    { rewrite <- app_assoc. exact Et. }
    destruct (find_name (ss_names st) nm 0) as [i|] eqn:Ef.
    + (* the name is interned already: same handle, fields rewritten *)
      destruct (find_name_spec _ _ _ _ Ef) as (j & Ei & c' & Hn & Ec). apply cname_eqb_eq in Ec. subst c'.
      assert (Ei' : i = N.of_nat j) by lia. subst i.
      set (st1 := {| ss_names := ss_names st; ss_fields := (N.of_nat j, (idv, f0, f1)) :: ss_fields st;
                     ss_done := ss_done st; ss_ignored := ss_ignored st |}) in *.
      pose proof (srun_ext skind snw ev Hev_ext _ _ _ _ _ _ H) as X2.
      pose proof (pre_of_ext _ _ X2 Hpre) as [rest Epre]. cbn [ss_names st1] in Epre.
      assert (Hj : (j < m)%nat) by (rewrite Em; apply nth_error_Some; rewrite Hn; discriminate).
      assert (HR : Rm m (N.of_nat j, 0) he).
      { split; [reflexivity|]. cbn [fst]. rewrite Nat2N.id. split; [exact Hj|].
        exists d, nm. split; [exact Q|]. split; [|exact Hcre]. rewrite Epre. rewrite nth_error_app1; [exact Hn|].
        apply nth_error_Some. rewrite Hn. discriminate. }
      apply (IHk m (N.of_nat j, 0) he (le_n _) HR d (done ++ [RNew id idv f0 f1]) (cnt_bump dis (idhash idv))
               {| sf_occ := cnt_bump (sf_occ lf) idv; sf_own := (N.of_nat j, 0) :: sf_own lf; sf_assigned := sf_assigned lf |}
               st1 st' r Q Hgd Em); auto.
      constructor.
      * intros i0 nm0 d0 h0 Hn0 Q0 Hc0. cbn [ss_names ss_fields st1 fields_get] in *.
        destruct (N.eqb_spec (N.of_nat j) (N.of_nat i0)) as [E | Hne].
        -- apply Nat2N.inj in E. subst i0. rewrite Hn in Hn0. injection Hn0 as <-.
           destruct (cre_unique d d0 nm he h0 Hgd (clos_gk prog idhash NF Hgk w q0 d0 Hg0 Q0) Hcre Hc0) as [_ <-].
           symmetry. exact Hslot.
        -- exact (iv_fld _ I i0 nm0 d0 h0 Hn0 Q0 Hc0).
      * exact (iv_done _ I).
    + (* a new name *)
      set (st1 := {| ss_names := ss_names st ++ [nm]; ss_fields := (N.of_nat (length (ss_names st)), (idv, f0, f1)) :: ss_fields st;
                     ss_done := ss_done st; ss_ignored := ss_ignored st |}) in *.
      pose proof (srun_ext skind snw ev Hev_ext _ _ _ _ _ _ H) as X2.
      pose proof (pre_of_ext _ _ X2 Hpre) as [rest Epre]. cbn [ss_names st1] in Epre.
      assert (Em1 : S m = length (ss_names st1)) by (cbn [ss_names st1]; rewrite app_length; cbn; lia).
      assert (HR : Rm (S m) (N.of_nat (length (ss_names st)), 0) he).
      { split; [reflexivity|]. cbn [fst]. rewrite Nat2N.id. split; [lia|].
        exists d, nm. split; [exact Q|]. split; [|exact Hcre]. rewrite Epre, <- app_assoc.
        rewrite nth_error_app2 by lia. rewrite Nat.sub_diag. reflexivity. }
      apply (IHk (S m) _ he (le_S _ _ (le_n _)) HR d (done ++ [RNew id idv f0 f1]) (cnt_bump dis (idhash idv))
               {| sf_occ := cnt_bump (sf_occ lf) idv; sf_own := (N.of_nat (length (ss_names st)), 0) :: sf_own lf; sf_assigned := sf_assigned lf |}
               st1 st' r Q Hgd Em1); auto.
      constructor.
      * intros i0 nm0 d0 h0 Hn0 Q0 Hc0. cbn [ss_names ss_fields st1 fields_get] in *.
        destruct (N.eqb_spec (N.of_nat (length (ss_names st))) (N.of_nat i0)) as [E | Hne].
        -- apply Nat2N.inj in E. subst i0. rewrite nth_error_app2 in Hn0 by lia. rewrite Nat.sub_diag in Hn0. injection Hn0 as <-.
           destruct (cre_unique d d0 nm he h0 Hgd (clos_gk prog idhash NF Hgk w q0 d0 Hg0 Q0) Hcre Hc0) as [_ <-].
           symmetry. exact Hslot.
        -- assert (Hlt : (i0 < length (ss_names st))%nat).
           { assert (i0 < length (ss_names st ++ [nm]))%nat by (apply nth_error_Some; rewrite Hn0; discriminate).
             rewrite app_length in H0. cbn in H0. assert (i0 <> length (ss_names st)) by (intros ->; apply Hne; reflexivity). lia. }
           rewrite nth_error_app1 in Hn0 by exact Hlt.
           exact (iv_fld _ I i0 nm0 d0 h0 Hn0 Q0 Hc0).
      * intros d0 r0 b0 Hd0. destruct (iv_done _ I d0 r0 b0 Hd0) as [A B]. split; [exact A|].
        cbn [ss_names st1]. apply (rrelK_mono (length (ss_names st))); [rewrite app_length; lia | exact B].
  - (* a tracked field *)
    destruct Hh as (Hs0 & Hlt & d0 & nm0 & Q0 & Hn0 & Hc0).
    destruct (fields_get (ss_fields st) (fst sh)) as [[b0 b1] b2] eqn:Efg.
    pose proof (srun_ext skind snw ev Hev_ext _ _ _ _ _ _ H) as X2.
    assert (Hfl : fields_get (ss_fields st) (fst sh) = w_slot w h).
    { rewrite <- (N2Nat.id (fst sh)). apply (iv_fld _ I _ nm0 d0 h); [|exact Q0 | exact Hc0].
      destruct (pre_of_ext _ _ X2 Hpre) as [rest Epre]. rewrite Epre in Hn0.
      rewrite nth_error_app1 in Hn0 by lia. exact Hn0. }
    rewrite Efg in Hfl. cbn [envw mkenv e_slot] in *. rewrite <- Hfl in *.
    change (if f =? 0 then b1 else b2) with (fld3 (b0, b1, b2) f) in H.
    apply (IHk _ d (done ++ [RFld h f]) dis lf st st' r Q Hgd Em); auto.
    + rewrite <- app_assoc. exact Et.
    + intros x. rewrite occ_count_app. cbn. rewrite Hocc. lia.
  - (* the identity field *)
    destruct Hh as (Hs0 & Hlt & d0 & nm0 & Q0 & Hn0 & Hc0).
    destruct (fields_get (ss_fields st) (fst sh)) as [[b0 b1] b2] eqn:Efg.
    pose proof (srun_ext skind snw ev Hev_ext _ _ _ _ _ _ H) as X2.
    assert (Hfl : fields_get (ss_fields st) (fst sh) = w_slot w h).
    { rewrite <- (N2Nat.id (fst sh)). apply (iv_fld _ I _ nm0 d0 h); [|exact Q0 | exact Hc0].
      destruct (pre_of_ext _ _ X2 Hpre) as [rest Epre]. rewrite Epre in Hn0.
      rewrite nth_error_app1 in Hn0 by lia. exact Hn0. }
    rewrite Efg in Hfl. cbn [envw mkenv e_slot] in *. rewrite <- Hfl in *.
    change b0 with (idv3 (b0, b1, b2)) in H.
    apply (IHk _ d (done ++ [RIdf h]) dis lf st st' r Q Hgd Em); auto.
    + rewrite <- app_assoc. exact Et.
    + intros x. rewrite occ_count_app. cbn. rewrite Hocc. lia.
Qed.
End Ev.

Lemma seval_sim : forall n c st st' r, clos w q0 c -> Inv st -> seval prog skind snw n c st = (st', SOk r) -> pre_of st' ->
  Inv st' /\ rrelK Rm (length (ss_names st')) r (Ew w c).
Proof.
  induction n as [|n IH]; intros c st st' r Q I H Hpre; cbn [seval] in H; [discriminate|].
  destruct (done_get (ss_done st) c) as [[r0 b0]|] eqn:Ed.
  - injection H as <- <-. split; [exact I|]. exact (proj2 (iv_done _ I c r0 b0 Ed)).
  - destruct (srun skind snw (seval prog skind snw n) c (prog c) sframe0 st) as [s1 [r1 | p |]] eqn:E1; try discriminate.
    assert (Hpre1 : pre_of s1).
    { destruct (done_get (ss_done s1) c) as [[r' b']|]; injection H as <- _; [exact Hpre|].
      destruct Hpre as [rest E]. exists rest. exact E. }
    destruct (srun_sim (seval prog skind snw n) (seval_ext prog skind snw n) IH (length (ss_names st)) (prog c) (prog c)
                (Hpar Rm Rm_mono _ c) c [] [] sframe0 st s1 r1 Q (clos_gk prog idhash NF Hgk w q0 c Hg0 Q) eq_refl eq_refl
                (fun x => eq_refl) I E1 Hpre1) as [I1 Hr1].
    rewrite <- (Ew_unfold idhash prog rank Hrank NF Hbound) in Hr1.
    destruct (done_get (ss_done s1) c) as [[r' b']|] eqn:Ed1; injection H as <- <-.
    + split; [exact I1|]. exact (proj2 (iv_done _ I1 c r' b' Ed1)).
    + split; [|exact Hr1]. constructor.
      * exact (iv_fld _ I1).
      * intros d r0 b0. cbn [ss_done done_get ss_names]. destruct (qk_eqb c d) eqn:Eq.
        -- apply qk_eqb_eq in Eq. subst d. intros E0. injection E0 as <- _. split; [exact Q | exact Hr1].
        -- exact (iv_done _ I1 d r0 b0).
Qed.
End Final.

(* ---------------------------------------------------------------- the evaluator computes Ew *)
Theorem spec_get_is_Ew n x names :
  spec_get prog skind snw n q0 = SOk (x, names) ->
  x = fst (Ew w q0) /\
  Forall2 (fun onm h => exists nm d, onm = Some nm /\ clos w q0 d /\ cre d nm h) names (snd (Ew w q0)).
Proof.
  unfold spec_get. destruct (seval prog skind snw n q0 ss0) as [sf [r | p |]] eqn:E; try discriminate.
  intros H. injection H as <- <-.
  assert (I0 : Inv (ss_names sf) ss0).
  { constructor; [intros [|i] nm d h Hn; discriminate | intros d r0 b0 Hd; discriminate]. }
  destruct (seval_sim (ss_names sf) n q0 ss0 sf r (clos_refl _ _ _ _ _) I0 E) as [_ [Hv Hh]].
  { exists []. rewrite app_nil_r. reflexivity. }
  split; [exact Hv|].
  unfold names_of. induction Hh as [|sh h l l' (A & B & d & nm & Q & Hn & Hcr) Hl IH]; cbn [map]; constructor; [|exact IH].
  exists nm, d. auto.
Qed.

End SpecSim.

(* ---------------------------------------------------------------- the evaluator answers *)
Section Total.
Variable prog : qk -> body.
Variable skind : N -> bool.
Variable sn : snapshot.
Variable rank : qk -> nat.
Hypothesis Hrank : calls_below prog rank.
Hypothesis Hns : forall q, nospec (prog q).

Lemma srun_total (ev : qk -> SM rval) : forall b, nospec b ->
  (forall c, calls b c -> forall s, exists s' r, ev c s = (s', SOk r)) ->
  forall q lf s, exists s' r, srun skind sn ev q b lf s = (s', SOk r).
Proof.
  intros b Hb. induction Hb as [v hs | i k Hk IH | c k Hk IH | c k Hk IH | k Hk IH | idv f0 f1 k Hk IH | h f k Hk IH | h k Hk IH];
    intros Hev q lf s; cbn [srun].
  - eexists _, _. reflexivity.
  - apply IH. intros c Hc. apply Hev. eapply calls_in_rdin. exact Hc.
  - unfold sbind. destruct (Hev c (calls_here c k) s) as (s1 & r1 & E1). rewrite E1.
    apply IH. intros c' Hc. apply Hev. eapply calls_in_call. exact Hc.
  - apply IH. intros c' Hc. apply Hev. eapply calls_in_cell. exact Hc.
  - apply IH. intros c' Hc. apply Hev. eapply calls_in_touch. exact Hc.
  - destruct (find_name (ss_names s) _ 0); apply IH; intros c' Hc; apply Hev; eapply calls_in_new; exact Hc.
  - destruct (fields_get (ss_fields s) (fst h)) as [[a0 a1] a2]. apply IH. intros c' Hc. apply Hev. eapply calls_in_field. exact Hc.
  - destruct (fields_get (ss_fields s) (fst h)) as [[a0 a1] a2]. apply IH. intros c' Hc. apply Hev. eapply calls_in_idfield. exact Hc.
Qed.

Lemma seval_total : forall n c, (rank c < n)%nat -> forall s, exists s' r, seval prog skind sn n c s = (s', SOk r).
Proof.
  induction n as [|n IH]; intros c Hn s; [inversion Hn|]. cbn [seval].
  destruct (done_get (ss_done s) c) as [[r b]|]; [eexists _, _; reflexivity|].
  destruct (srun_total (seval prog skind sn n) (prog c) (Hns c)) with (q := c) (lf := sframe0) (s := s) as (s1 & r1 & E1).
  - intros c' Hc s0. apply IH. pose proof (Hrank _ _ Hc). lia.
  - rewrite E1. destruct (done_get (ss_done s1) c) as [[r' b']|]; eexists _, _; reflexivity.
Qed.

Lemma spec_get_total n q : (rank q < n)%nat -> exists x names, spec_get prog skind sn n q = SOk (x, names).
Proof.
  intros Hn. unfold spec_get. destruct (seval_total n q Hn ss0) as (s' & r & E). rewrite E. eexists _, _. reflexivity.
Qed.
End Total.

(* Structs/ProofsBase.v — small facts and tactics shared by the Structs proofs. *)
From Salsa Require Import Base.
From Salsa.gen Require Import Kernels.
From Salsa.Kern Require Import CoreK.
From Salsa.Structs Require Import Model.

(* ---- the state+error monad ---- *)
Lemma bind_ok {A B} (m : M A) (f : A -> M B) s s' b :
  bind m f s = (s', SOk b) -> exists a s1, m s = (s1, SOk a) /\ f a s1 = (s', SOk b).
Proof.
  unfold bind. destruct (m s) as [s1 [a | p |]]; intros H; try discriminate. eauto.
Qed.

Lemma ret_ok {A} (a : A) s s' b : ret a s = (s', SOk b) -> s' = s /\ b = a.
Proof. unfold ret. intros H; injection H; auto. Qed.

Lemma get_ok s s' b : get s = (s', SOk b) -> s' = s /\ b = s.
Proof. unfold get. intros H; injection H; auto. Qed.

Lemma modify_ok f s s' b : modify f s = (s', SOk b) -> s' = f s.
Proof. unfold modify. intros H; injection H; auto. Qed.

Lemma fail_ok {A} p s s' (b : A) : fail p s = (s', SOk b) -> False.
Proof. unfold fail. discriminate. Qed.

Lemma nofuel_ok {A} s s' (b : A) : @nofuel A s = (s', SOk b) -> False.
Proof. unfold nofuel. discriminate. Qed.

(* split one monadic step of a successful run *)
Ltac mstep H :=
  match type of H with
  | bind _ _ _ = (_, SOk _) =>
      let a := fresh "a" in let s1 := fresh "s" in let H1 := fresh "H" in
      apply bind_ok in H; destruct H as (a & s1 & H1 & H)
  | ret _ _ = (?s', SOk ?b) =>
      let E1 := fresh "E" in let E2 := fresh "E" in
      apply ret_ok in H; destruct H as [E1 E2];
      first [subst s' | rewrite E1 in * | idtac]; first [subst b | rewrite E2 in * | idtac]
  | get _ = (?s', SOk ?b) =>
      let E1 := fresh "E" in let E2 := fresh "E" in
      apply get_ok in H; destruct H as [E1 E2];
      first [subst s' | rewrite E1 in * | idtac]; first [subst b | rewrite E2 in * | idtac]
  | modify _ _ = (?s', SOk _) =>
      apply modify_ok in H; first [subst s' | rewrite H in * | idtac]
  | fail _ _ = (_, SOk _) => exfalso; exact (fail_ok _ _ _ _ H)
  | nofuel _ = (_, SOk _) => exfalso; exact (nofuel_ok _ _ _ H)
  end.

Tactic Notation "msplit" hyp(H) "as" ident(x) ident(t) ident(H1) :=
  apply bind_ok in H; destruct H as (x & t & H1 & H).

(* ---- identifiers ---- *)
Lemma handle_eqb_eq a b : handle_eqb a b = true <-> a = b.
Proof. apply key_eqb_eq. Qed.

Lemma handle_eqb_refl a : handle_eqb a a = true.
Proof. apply key_eqb_refl. Qed.

Lemma handle_eqb_neq a b : handle_eqb a b = false <-> a <> b.
Proof. apply key_eqb_neq. Qed.

Lemma qk_eqb_eq a b : qk_eqb a b = true <-> a = b.
Proof.
  destruct a as [f h], b as [f' h']. unfold qk_eqb. cbn [fst snd].
  rewrite andb_true_iff, N.eqb_eq, handle_eqb_eq. split.
  - intros [-> ->]; reflexivity.
  - intros E; injection E; auto.
Qed.

Lemma qk_eqb_refl a : qk_eqb a a = true.
Proof. apply qk_eqb_eq; reflexivity. Qed.

(* Id::next_generation: +1, failing exactly at u32::MAX — a fact about the translated kernel *)
Lemma next_gen_spec g : next_gen g = if g + 1 <? 4294967296 then Some (g + 1) else None.
Proof.
  unfold next_gen, k_id_next_generation, k_id_generation, k_id_with_generation.
  cbn [k_Id_generation k_Id_index].
  destruct (g + 1 <? 4294967296); reflexivity.
Qed.

Lemma next_gen_some g g' : next_gen g = Some g' -> g' = g + 1.
Proof. rewrite next_gen_spec. destruct (g + 1 <? 4294967296); intros H; [injection H; auto | discriminate]. Qed.

Lemma next_gen_gt g g' : next_gen g = Some g' -> g < g'.
Proof. intros H; apply next_gen_some in H; lia. Qed.

(* ---- counters ---- *)
Lemma cnt_get_bump_same l k : cnt_get (cnt_bump l k) k = cnt_get l k + 1.
Proof.
  induction l as [|[k' n] l IH]; cbn [cnt_get cnt_bump].
  - rewrite N.eqb_refl; reflexivity.
  - destruct (N.eqb_spec k' k); cbn [cnt_get].
    + destruct (N.eqb_spec k' k); [reflexivity | contradiction].
    + destruct (N.eqb_spec k' k); [contradiction | exact IH].
Qed.

Lemma cnt_get_bump_other l k k' : k <> k' -> cnt_get (cnt_bump l k) k' = cnt_get l k'.
Proof.
  intros Hne. induction l as [|[k0 n] l IH]; cbn [cnt_get cnt_bump].
  - destruct (N.eqb_spec k k'); [contradiction | reflexivity].
  - destruct (N.eqb_spec k0 k); cbn [cnt_get].
    + destruct (N.eqb_spec k0 k'); [subst; contradiction | reflexivity].
    + destruct (N.eqb_spec k0 k'); [reflexivity | exact IH].
Qed.

(* ---- lists ---- *)
Lemma nodup_app {A} (l1 l2 : list A) :
  NoDup l1 -> NoDup l2 -> (forall x, In x l1 -> In x l2 -> False) -> NoDup (l1 ++ l2).
Proof.
  intros H1 H2 Hd. induction H1 as [|x l1 Hx H1 IH]; cbn [app]; [exact H2|].
  constructor.
  - intros Hin. apply in_app_or in Hin. destruct Hin as [Hin | Hin]; [exact (Hx Hin)|].
    exact (Hd x (or_introl eq_refl) Hin).
  - apply IH. intros y Hy1 Hy2. exact (Hd y (or_intror Hy1) Hy2).
Qed.

Lemma nodup_app_l {A} (l1 l2 : list A) : NoDup (l1 ++ l2) -> NoDup l1.
Proof.
  induction l1 as [|x l1 IH]; cbn [app]; intros H; [constructor|].
  inversion H as [|? ? Hx Hr]; subst. constructor.
  - intros Hin. apply Hx. apply in_or_app; auto.
  - exact (IH Hr).
Qed.

Lemma nodup_app_r {A} (l1 l2 : list A) : NoDup (l1 ++ l2) -> NoDup l2.
Proof.
  induction l1 as [|x l1 IH]; cbn [app]; intros H; [exact H|].
  inversion H; subst. auto.
Qed.

Lemma nodup_app_disj {A} (l1 l2 : list A) x : NoDup (l1 ++ l2) -> In x l1 -> In x l2 -> False.
Proof.
  induction l1 as [|y l1 IH]; cbn [app]; intros H H1 H2; [destruct H1|].
  inversion H as [|? ? Hy Hr]; subst. destruct H1 as [-> | H1].
  - apply Hy. apply in_or_app; auto.
  - exact (IH Hr H1 H2).
Qed.

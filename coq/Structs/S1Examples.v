(* Structs/S1Examples.v — non-vacuity of the stage-S1 from-scratch theorem: a DSL program with a
   conditional creation, a dependent reading both tracked fields through the returned handle, and
   a history in which the struct is created as (0,0), deleted, and re-created in the reused slot
   as (0,1); the dependent re-executes each time. *)
From Coq Require Import Arith.
From Salsa Require Import Base.
From Salsa.Kern Require Import CoreK.
From Salsa.Structs Require Import Model Dsl Machine Sim Examples SSem SInv SRun STop SAdeq SDsl.

(* mk = (1,0): if in(0,0) then S := new(id = in(0,1), f0 = in(0,2), f1 = 0); return [S]
   rd = (4,0): S := first struct of mk(0) ; field0(S) + field1(S)   (99 when mk created nothing) *)
Definition r1_nodes : list ((N * N) * expr) :=
  [((1, 0), EIf (EInp 0 0) (ELet 2 (HNew (EInp 0 1) (EInp 0 2) (ELit 0)) (ERetH 2) (ELit 0)) (ELit 0));
   ((4, 0), ELet 2 (HNth 1 (ELit 0) 0) (EOp BAdd (EField 2 0) (EField 2 1)) (ELit 99))].
Definition r1_nk : N := 1.
Definition r1_frank (fam : N) : nat := if fam =? 4 then 1%nat else 0%nat.
Definition r1_NF : nat := 2.
Definition r1_idhash (v : val) : N := v.
Definition r1_ival : list ((N * N) * N) := [((0, 0), 1); ((0, 1), 0); ((0, 2), 3)].
Definition r1_ops : list op :=
  [OGet (4, (0, 0)); OEntries; OSet (0, 0) 0 None; OGet (4, (0, 0)); OEntries;
   OSet (0, 2) 5 None; OSet (0, 0) 1 None; OGet (4, (0, 0)); OGet (1, (0, 0)); OEntries].

Notation r1_prog := (prog_of r1_nk skind0 r1_nodes).
Notation r1_init := (init (lookup3 r1_ival) (fun _ => 0)).
Notation r1_run := (run_ops r1_prog skind0 [] r1_idhash 40%nat r1_init r1_ops).

Lemma r1_nk0 : r1_nk <> 0.
Proof. discriminate. Qed.
Lemma r1_wf : forallb (fun ne => s1wf (snd ne)) r1_nodes = true.
Proof. vm_compute. reflexivity. Qed.
Lemma r1_rk : forallb (fun ne => forallb (fun fam' => Nat.ltb (r1_frank fam') (r1_frank (fst (fst ne)))) (efams (snd ne))) r1_nodes = true.
Proof. vm_compute. reflexivity. Qed.
Lemma r1_cf : forallb (fun ne => forallb (fun fam' => existsb (N.eqb fam') [1]) (efams (snd ne))) r1_nodes = true.
Proof. vm_compute. reflexivity. Qed.
Lemma r1_fr : forallb (fun fam => forallb (fun k => first_readb (compile r1_nk None (lookup_node r1_nodes (fam, N.of_nat k))))
                                          (seq 0 (N.to_nat r1_nk))) [1] = true.
Proof. vm_compute. reflexivity. Qed.

Lemma r1_bound : forall q : qk, (r1_frank (fst q) < r1_NF)%nat.
Proof. intros q. unfold r1_frank, r1_NF. destruct (fst q =? 4); auto. Qed.

Lemma r1_ops_ok : Forall (s1_op r1_prog) r1_ops.
Proof. repeat constructor. Qed.

Lemma r1_answers : Forall2 okout r1_ops (snd r1_run).
Proof. apply all_okb_ok. vm_compute. reflexivity. Qed.

(* the outputs: 3 + 0, one struct; 99, none; 5 + 0; mk returns the re-created struct (0,1); one struct *)
Example r1_outputs :
  snd r1_run = [SOk (3, []); SOk (1, []); SOk (0, []); SOk (99, []); SOk (0, []);
                SOk (0, []); SOk (0, []); SOk (5, []); SOk (0, [(0, 1)]); SOk (1, [])].
Proof. vm_compute. reflexivity. Qed.

Lemma r1_len : 1 + 2 * N.of_nat (length r1_ops) < GMAX.
Proof. vm_compute. reflexivity. Qed.

Example r1_from_scratch :
  gets_scratch r1_prog skind0 r1_idhash r1_NF 40%nat r1_init r1_ops.
Proof.
  exact (from_scratch_S1_init r1_prog skind0 r1_idhash (fun q => r1_frank (fst q)) r1_NF
           (table_calls_below r1_nk r1_nodes r1_wf r1_frank r1_rk) r1_bound
           (table_no_forge r1_idhash r1_nk r1_nodes r1_wf)
           (table_nospec r1_nk r1_nodes r1_wf)
           (fun _ => eq_refl)
           (table_gk r1_nk r1_nodes r1_wf)
           (table_first r1_nk r1_nodes r1_nk0 r1_wf [1] r1_cf r1_fr)
           40%nat (lookup3 r1_ival) r1_ops r1_ops_ok r1_len r1_answers).
Qed.

(* all hypotheses of the theorem at once, for Props *)
Lemma r1_hyps :
  calls_below r1_prog (fun q => r1_frank (fst q)) /\ (forall q : qk, (r1_frank (fst q) < r1_NF)%nat) /\
  no_forge r1_idhash r1_prog /\ (forall q, nospec (r1_prog q)) /\ (forall f, skind0 f = false) /\
  (forall q d, calls (r1_prog q) d -> gk d) /\ (forall q d, calls (r1_prog q) d -> first_read (r1_prog d)) /\
  Forall (s1_op r1_prog) r1_ops /\ 1 + 2 * N.of_nat (length r1_ops) < GMAX /\
  Forall2 okout r1_ops (snd r1_run).
Proof.
  repeat split.
  - exact (table_calls_below r1_nk r1_nodes r1_wf r1_frank r1_rk).
  - exact r1_bound.
  - exact (table_no_forge r1_idhash r1_nk r1_nodes r1_wf).
  - exact (table_nospec r1_nk r1_nodes r1_wf).
  - exact (table_gk r1_nk r1_nodes r1_wf).
  - exact (table_first r1_nk r1_nodes r1_nk0 r1_wf [1] r1_cf r1_fr).
  - exact r1_ops_ok.
  - exact r1_answers.
Qed.

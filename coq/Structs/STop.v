(* Structs/STop.v — the API: a new revision extends the ghost world history, a write keeps the
   invariant, a Get returns the from-scratch value of the world read off the state.
   Stage S1: programs without `specify` and without struct-keyed functions, LOW durabilities. *)
From Salsa Require Import Base.
From Salsa.Kern Require Import CoreK CoreKFacts.
From Salsa.Structs Require Import Model ProofsBase ProofsCascade Machine ProofsInv ProofsStep Theorems Guard SimBase SimOps Sim
     SSem SInv SStable SSlots SStore SLock SNew SFrame SNewInv SRun SBody SExec SVerify SFetch.

Section Top.
Variable prog : qk -> body.
Variable skind : N -> bool.
Variable idhash : val -> N.
Variable rank : qk -> nat.
Hypothesis Hrank : calls_below prog rank.
Variable NF : nat.
Hypothesis Hbound : forall q, (rank q < NF)%nat.
Hypothesis Hprov : no_forge idhash prog.
Hypothesis Hgk : forall q d, calls (prog q) d -> gk d.
Hypothesis Hnk : forall f, skind f = false.
Hypothesis Hfirst : forall q d, calls (prog q) d -> first_read (prog d).
Hypothesis Hns : forall q, nospec (prog q).

Notation Ew := (Ew idhash prog NF).
Notation trw := (trw idhash prog NF).
Notation envw := (envw idhash prog NF).
Notation clos := (clos idhash prog NF).
Notation SInv := (SInv prog skind idhash NF).
Notation smemo_ok := (smemo_ok prog idhash NF).
Notation dval := (dval prog idhash NF).
Notation Er := (Er prog idhash NF).
Notation trr := (trr prog idhash NF).
Notation OInv := (OInv skind).

(* ---------------------------------------------------------------- moving on: every memo is older than vmax *)
Lemma SInv_advance Hs Hs' s s' vmax :
  SInv Hs s [] ->
  d_memo s' = d_memo s -> d_slots s' = d_slots s -> d_nslots s' = d_nslots s -> d_free s' = d_free s ->
  d_ideal s' = d_ideal s -> d_stack s' = d_stack s ->
  (forall l m, d_memo s l = Some m -> m_verified m <= vmax) -> vmax < cur s' -> vmax <= cur s -> cur s <= cur s' ->
  (forall r, r <= vmax -> Wd Hs' s' r = Wd Hs s r) ->
  (forall i, f_changed (d_in s i) <= f_changed (d_in s' i)) ->
  (forall i r, f_changed (d_in s' i) <= r -> r <= cur s' -> w_in (Wd Hs' s' r) i = f_val (d_in s' i)) ->
  (forall i, f_changed (d_in s' i) <= cur s') -> (forall i, f_dur (d_in s' i) = 0) ->
  (forall i sl r, d_slots s i = Some sl -> sl_updated sl = Some r -> r < cur s') ->
  SInv Hs' s' [].
Proof.
  intros I Hm Hsl Hn Hf Hid Hst Hvmax Hlt Hle Hcc HW Hch Hin Hinle Hlow Hnolock.
  assert (Hlive : forall h sl, live_h s' h sl <-> live_h s h sl) by (intros h sl; unfold live_h; rewrite Hsl; tauto).
  assert (Hiss : issued s' = issued s) by (unfold issued; rewrite Hid; reflexivity).
  assert (HWr : forall r, r <= vmax -> W Hs' s' r = W Hs s r) by exact HW.
  assert (Hsle : forall c x, sle s c x -> sle s' c x).
  { intros c x. destruct x as [i | d | cc | | id idv f0 f1 | h f | h]; cbn [SInv.sle]; auto.
    - intros A. specialize (Hch i). lia.
    - rewrite Hm. auto.
    - intros [A B]. split; [rewrite Hiss; exact A|]. intros sl Hl. apply Hlive in Hl. exact (B sl Hl). }
  constructor.
  - pose proof (si_cur _ _ _ _ _ _ _ I). lia.
  - exact Hin.
  - exact Hinle.
  - exact Hlow.
  - exact (oinv_newrev skind s s' (si_oinv _ _ _ _ _ _ _ I) Hsl Hm Hn Hf Hid).
  - apply (cons_nk skind Hnk s s' [] [] (si_cons _ _ _ _ _ _ _ I) Hst). intros q fr [].
  - intros i sl Hs0 Hu. rewrite Hsl in Hs0. destruct (si_slots _ _ _ _ _ _ _ I i sl Hs0 Hu) as [A B]. split; [exact A|].
    intros r Hr. specialize (B r Hr). lia.
  - intros i sl Hs0. rewrite Hsl in Hs0. pose proof (si_gens _ _ _ _ _ _ _ I i sl Hs0) as G.
    destruct (sl_updated sl); [exact G | lia].
  - (* memos *)
    intros l m Hm'. rewrite Hm in Hm'. pose proof (si_memo _ _ _ _ _ _ _ I l m Hm') as Hok.
    pose proof (Hvmax l m Hm') as Hv.
    destruct Hok as [k1 k2 k3 k4 k5 k6 k7 k8 k9 k9b k10 k11 k12 k13].
    unfold SInv.Er, SInv.trr in *.
    constructor; unfold SInv.Er, SInv.trr; rewrite ?(HWr _ Hv).
    + destruct k1 as (A & B & C). repeat split; lia.
    + exact k2.
    + exact k3.
    + exact k4.
    + exact k5.
    + exact k6.
    + exact k7.
    + exact k8.
    + exact k9.
    + exact k9b.
    + exact k10.
    + intros Hna id h Hinm. destruct (k11 Hna id h Hinm) as (sl & Hl & Hfl & Hd & A0 & A1 & Hcs).
      exists sl. split; [apply Hlive; exact Hl|]. split; [exact Hfl|]. split; [exact Hd|]. split; [exact A0|]. split; [exact A1|].
      destruct Hcs as [A | (pre & idv & f0 & f1 & post & x & Et & Hx & Hs0)]; [left; exact A | right].
      exists pre, idv, f0, f1, post, x. split; [exact Et|]. split; [exact Hx | exact (Hsle _ _ Hs0)].
    + intros d Hd. destruct (k12 d Hd) as [a1 a2 a3 a4 a5].
      constructor; unfold SInv.Er, SInv.trr; rewrite ?(HWr _ Hv).
      * destruct a1 as (md & Hmd & Hle1 & Hobs). exists md. rewrite Hm. split; [exact Hmd|]. split; [exact Hle1|].
        intros Hc. rewrite (HWr _ (Hvmax _ md Hmd)). exact (Hobs Hc).
      * intros h f sl Hinr Hl Hr. apply Hlive in Hl. exact (a2 h f sl Hinr Hl Hr).
      * intros h sl Hinr Hl. apply Hlive in Hl. exact (a3 h sl Hinr Hl).
      * intros id idv f0 f1 Hinr. rewrite Hiss. exact (a4 id idv f0 f1 Hinr).
      * intros id idv f0 f1 sl Hinr Hl. apply Hlive in Hl.
        destruct (a5 id idv f0 f1 sl Hinr Hl) as [(Hna & md & Hmd & Hinm) | (fr & e & [] & _)].
        left. split; [exact Hna|]. exists md. rewrite Hm. auto.
    + intros Hvc. lia.
  - intros h sl Hl Hu. apply Hlive in Hl. destruct Hl as (Hs0 & _). pose proof (Hnolock _ sl _ Hs0 Hu). lia.
  - intros q fr [].
Qed.

(* ---------------------------------------------------------------- between operations *)
Definition TopOK (s : db) : Prop := exists Hs, SInv Hs s [] /\ d_stack s = [].

(* nothing has been verified or read-locked in the current revision yet *)
Definition fresh (s : db) : Prop :=
  (forall l m, d_memo s l = Some m -> m_verified m < cur s) /\
  (forall i sl r, d_slots s i = Some sl -> sl_updated sl = Some r -> r < cur s).

Lemma init_ok iv : TopOK (init iv (fun _ => 0)).
Proof.
  exists (fun _ => wcur (init iv (fun _ => 0))). split; [|reflexivity].
  constructor.
  - cbn. unfold REV_START. lia.
  - intros i r Hr Hle. cbn in Hr, Hle. unfold REV_START in *. assert (r = 1) by lia. subst r. reflexivity.
  - intros i. cbn. lia.
  - intros i. reflexivity.
  - apply oinv_init.
  - apply cons_nil. reflexivity.
  - intros i sl H. discriminate.
  - intros i sl H. discriminate.
  - intros l m H. discriminate.
  - intros h sl (H & _). discriminate.
  - intros q fr [].
Qed.

Lemma newrev_ok s : TopOK s -> TopOK (new_revision s) /\ fresh (new_revision s) /\ cur (new_revision s) = cur s + 1.
Proof.
  intros (Hs & I & Hst).
  set (s' := new_revision s).
  assert (Hc : cur s' = cur s + 1) by reflexivity.
  set (Hs' := fun r => if r =? cur s then wcur s else Hs r).
  assert (HW : forall r, r <= cur s -> Wd Hs' s' r = Wd Hs s r).
  { intros r Hr. unfold Wd. rewrite Hc. assert (E1 : r <? cur s + 1 = true) by (apply N.ltb_lt; lia). rewrite E1.
    unfold Hs'. destruct (N.eqb_spec r (cur s)) as [-> | Hne].
    - rewrite N.ltb_irrefl. reflexivity.
    - assert (E2 : r <? cur s = true) by (apply N.ltb_lt; lia). rewrite E2. reflexivity. }
  split; [|split; [|exact Hc]].
  - exists Hs'. split; [|exact Hst].
    apply (SInv_advance Hs Hs' s s' (cur s) I); try reflexivity; try lia.
    + intros l m Hm. exact (proj2 (proj2 (mo_order _ _ _ _ _ _ _ _ (si_memo _ _ _ _ _ _ _ I l m Hm)))).
    + exact HW.
    + intros i r Hr Hle. destruct (N.eq_dec r (cur s')) as [-> | Hne].
      * unfold Wd. rewrite N.ltb_irrefl. reflexivity.
      * rewrite HW by lia. apply (si_in _ _ _ _ _ _ _ I i r Hr). lia.
    + intros i. pose proof (si_in_le _ _ _ _ _ _ _ I i). rewrite Hc. unfold s'. cbn. lia.
    + exact (si_low _ _ _ _ _ _ _ I).
    + intros i sl r Hs0 Hu. assert (Hun : sl_updated sl <> None) by (rewrite Hu; discriminate).
      pose proof (proj2 (si_slots _ _ _ _ _ _ _ I i sl Hs0 Hun) r Hu). lia.
  - split.
    + intros l m Hm. pose proof (mo_order _ _ _ _ _ _ _ _ (si_memo _ _ _ _ _ _ _ I l m Hm)). cbn in *. lia.
    + intros i sl r Hs0 Hu. assert (Hun : sl_updated sl <> None) by (rewrite Hu; discriminate).
      pose proof (proj2 (si_slots _ _ _ _ _ _ _ I i sl Hs0 Hun) r Hu). cbn in *. lia.
Qed.

Lemma ccount_ok s n : TopOK s -> TopOK (set_ccount s n).
Proof.
  intros (Hs & I & Hst). exists Hs. split; [|exact Hst].
  refine (proj1 (SInv_core prog skind idhash rank Hrank NF Hbound Hprov Hgk Hs s [] _ I _ _ _ _ _ _ _ _ _)); try reflexivity.
  apply (cons_nk skind Hnk s _ [] [] (si_cons _ _ _ _ _ _ _ I)); [reflexivity | intros q fr []].
Qed.

Lemma write_ok s i v : TopOK s -> fresh s ->
  TopOK (set_in (set_revs s (d_revs s)) (upd (d_in s) i {| f_val := v; f_changed := cur s; f_dur := 0 |})).
Proof.
  intros (Hs & I & Hst) [Fm Fs].
  set (s' := set_in (set_revs s (d_revs s)) (upd (d_in s) i {| f_val := v; f_changed := cur s; f_dur := 0 |})).
  assert (Hc : cur s' = cur s) by reflexivity.
  pose proof (si_cur _ _ _ _ _ _ _ I) as Hc1.
  exists Hs. split; [|exact Hst].
  apply (SInv_advance Hs Hs s s' (cur s - 1) I); try reflexivity; try lia.
  - intros l m Hm. pose proof (Fm l m Hm). lia.
  - intros r Hr. unfold Wd. rewrite Hc. assert (E : r <? cur s = true) by (apply N.ltb_lt; lia). rewrite E. reflexivity.
  - intros j. unfold s'. cbn. unfold upd. destruct (key_eqb_spec i j) as [<- | Hne]; [cbn; exact (si_in_le _ _ _ _ _ _ _ I i) | lia].
  - intros j r Hr Hle. rewrite Hc in Hle. unfold s' in Hr |- *. cbn [d_in set_in set_revs] in Hr |- *. unfold upd in Hr |- *.
    destruct (key_eqb_spec i j) as [<- | Hne]; cbn [f_val f_changed] in *.
    + assert (r = cur s) by lia. subst r. unfold Wd. cbn [cur d_revs set_in set_revs]. fold (cur s). rewrite N.ltb_irrefl. cbn. unfold upd. rewrite key_eqb_refl. reflexivity.
    + destruct (N.eq_dec r (cur s)) as [-> | Hnr].
      * unfold Wd. cbn [cur d_revs set_in set_revs]. fold (cur s). rewrite N.ltb_irrefl. cbn. unfold upd. destruct (key_eqb_spec i j); [contradiction | reflexivity].
      * assert (E : forall s0, cur s0 = cur s -> Wd Hs s0 r = Wd Hs s r).
        { intros s0 E0. unfold Wd. rewrite E0. assert (E : r <? cur s = true) by (apply N.ltb_lt; lia). rewrite E. reflexivity. }
        rewrite E by reflexivity. apply (si_in _ _ _ _ _ _ _ I j r Hr). lia.
  - intros j. rewrite Hc. unfold s'. cbn. unfold upd. destruct (key_eqb_spec i j); [cbn; lia | exact (si_in_le _ _ _ _ _ _ _ I j)].
  - intros j. unfold s'. cbn. unfold upd. destruct (key_eqb_spec i j); [reflexivity | exact (si_low _ _ _ _ _ _ _ I j)].
  - intros j sl r Hs0 Hu. rewrite Hc. exact (Fs j sl r Hs0 Hu).
Qed.

(* ---------------------------------------------------------------- a Get *)
(* the world is consistent for q: every struct created in the closure of q has, in the world's
   store, the fields its creator gives it *)
Definition wcons (w : world) (q : qk) : Prop :=
  forall d, clos w q d -> forall id idv f0 f1, In (RNew id idv f0 f1) (trw w d) ->
    w_slot w (w_alloc w d id) = (idv, f0, f1).

Lemma get_ok fuel s q s' v : TopOK s -> gk q -> first_read (prog q) -> cur s < GMAX ->
  step prog skind [] idhash fuel s (OGet q) = (s', SOk v) ->
  TopOK s' /\ cur s' = cur s /\ v = Ew (wcur s') q /\ wcons (wcur s') q /\ (forall h, In h (snd v) -> live s' h).
Proof.
  intros (Hs & I & Hst) Hg Hfq Hcur H. cbn [step] in H.
  destruct (fetch prog skind [] idhash (level prog skind [] idhash fuel) q s) as [s1 [[[v1 d1] c1] | p |]] eqn:E; try discriminate.
  injection H as <- <-.
  destruct (level_ok prog skind idhash rank Hrank NF Hbound Hprov Hgk Hnk Hfirst Hns (S fuel)) as [HF _].
  cbn [level] in HF.
  destruct (HF Hs s [] q s1 (v1, d1, c1) I Hg Hfq Hcur E) as (I1 & X1 & (A1 & _) & m & Hm & Hv & Hval & _).
  cbn [fst snd] in Hval. pose proof (sext_cur _ _ X1) as Hc1.
  split; [exists Hs; split; [exact I1 | congruence]|]. split; [exact Hc1|].
  pose proof (memo_ok_of prog skind idhash NF Hs s1 [] q m I1 Hg Hm) as Hok.
  rewrite <- Hc1 in Hv.
  split; [|split].
  - pose proof (mo_val _ _ _ _ _ _ _ _ Hok) as Ev. rewrite Hval, Hv in Ev. injection Ev as Ev.
    rewrite (Er_cur prog idhash NF) in Ev. exact Ev.
  - intros d Hd id idv f0 f1 Hin.
    assert (Hd' : clos (W Hs s1 (m_verified m)) q d) by (rewrite Hv, W_cur; exact Hd).
    pose proof (mo_obs _ _ _ _ _ _ _ _ Hok d Hd') as Hdv.
    assert (Hin' : In (RNew id idv f0 f1) (trr Hs s1 (m_verified m) d)) by (rewrite Hv, (trr_cur prog idhash NF); exact Hin).
    pose proof (proj1 (dv_new _ _ _ _ _ _ _ _ Hdv id idv f0 f1 Hin')) as A. rewrite Hv, W_cur in A. exact A.
  - intros h Hh.
    destruct (result_hokq prog skind idhash rank Hrank NF Hbound Hprov Hgk Hs s1 [] q m v1 frame0 I1 Hg Hm Hv Hval h Hh)
      as [(l & mA & id & HmA & HvA & HinA) | (id & [])].
    destruct (listed_live prog skind idhash NF Hs s1 [] l mA id h I1 HmA HvA HinA) as (sl & Hl).
    exact (live_h_live s1 h sl Hl).
Qed.

(* ---------------------------------------------------------------- histories *)
Definition s1_op (o : op) : Prop :=
  match o with
  | OSet i v d => d = None \/ d = Some 0
  | OGet q => gk q /\ first_read (prog q)
  | OEntries => True
  | _ => False
  end.

Fixpoint gets_ok (fuel : nat) (s : db) (os : list op) : Prop :=
  match os with
  | [] => True
  | o :: os' =>
      let s' := fst (step prog skind [] idhash fuel s o) in
      (match o with
       | OGet q => exists v, snd (step prog skind [] idhash fuel s o) = SOk v /\
                             v = Ew (wcur s') q /\ wcons (wcur s') q /\ (forall h, In h (snd v) -> live s' h)
       | _ => True
       end) /\ gets_ok fuel s' os'
  end.

Lemma step_other_ok fuel s o : TopOK s -> s1_op o -> (forall q, o <> OGet q) ->
  TopOK (fst (step prog skind [] idhash fuel s o)) /\ cur (fst (step prog skind [] idhash fuel s o)) <= cur s + 2.
Proof.
  intros T Hop Hng. destruct o as [i v d | d | c v | q | fam q i | ]; cbn [s1_op] in Hop; try contradiction.
  - (* OSet *)
    cbn [step].
    assert (Hz : TopOK (zalsa_mut s) /\ cur (zalsa_mut s) <= cur s + 1).
    { unfold zalsa_mut. destruct (d_ccount s =? 255).
      - destruct (newrev_ok s T) as (A & _ & B). split; [exact A | lia].
      - split; [apply ccount_ok; exact T|].
        assert (E : cur (set_ccount s (d_ccount s + 1)) = cur s) by reflexivity. rewrite E. lia. }
    destruct Hz as [Tz Hcz].
    destruct (newrev_ok _ Tz) as (T1 & F1 & Hc1).
    set (s1 := new_revision (zalsa_mut s)) in *.
    destruct T1 as (Hs1 & I1 & Hst1).
    pose proof (si_low _ _ _ _ _ _ _ I1 i) as Hlow. rewrite Hlow. change (0 =? D_NEVER) with false. change (0 =? D_LOW) with true.
    cbn [fst].
    assert (Ed : match d with Some d' => d' | None => 0 end = 0) by (destruct Hop as [-> | ->]; reflexivity).
    rewrite Ed. split; [exact (write_ok s1 i v (ex_intro _ Hs1 (conj I1 Hst1)) F1)|].
    assert (E : forall x, cur (set_in (set_revs s1 (d_revs s1)) x) = cur s1) by reflexivity. rewrite E. lia.
  - exfalso. exact (Hng q eq_refl).
  - cbn [step fst]. split; [exact T | lia].
Qed.

Theorem from_scratch_S1 fuel : forall os s n,
  TopOK s -> cur s <= 1 + 2 * n -> 1 + 2 * (n + N.of_nat (length os)) < GMAX ->
  Forall s1_op os -> Forall2 okout os (snd (run_ops prog skind [] idhash fuel s os)) ->
  gets_ok fuel s os.
Proof.
  induction os as [|o os IH]; intros s n T Hc Hb Hops Hok; [exact Logic.I|].
  cbn [gets_ok]. cbn [run_ops] in Hok.
  destruct (step prog skind [] idhash fuel s o) as [s1 r] eqn:E1.
  destruct (run_ops prog skind [] idhash fuel s1 os) as [s2 rs] eqn:E2. cbn [snd fst] in *.
  inversion Hok as [|? ? ? ? Hr Hrs]; subst. inversion Hops as [|? ? Ho Hos]; subst.
  cbn [length] in Hb.
  assert (Hstep : TopOK s1 /\ cur s1 <= cur s + 2 /\
                  match o with
                  | OGet q => exists v, r = SOk v /\ v = Ew (wcur s1) q /\ wcons (wcur s1) q /\ (forall h, In h (snd v) -> live s1 h)
                  | _ => True
                  end).
  { destruct o as [i v d | d | c v | q | fam q i | ].
    - pose proof (step_other_ok fuel s (OSet i v d) T Ho) as A. rewrite E1 in A. cbn [fst] in A.
      destruct A as [A B]; [discriminate|]. auto.
    - cbn in Ho. contradiction.
    - cbn in Ho. contradiction.
    - destruct Ho as [Hg Hfq]. destruct Hr as (v & ->).
      destruct (get_ok fuel s q s1 v T Hg Hfq) as (A & B & C & D & E0); [lia | exact E1|].
      split; [exact A|]. split; [lia|]. exists v. auto.
    - cbn in Ho. contradiction.
    - pose proof (step_other_ok fuel s OEntries T Ho) as A. rewrite E1 in A. cbn [fst] in A.
      destruct A as [A B]; [discriminate|]. auto. }
  destruct Hstep as (T1 & Hc1 & Hget). split; [exact Hget|].
  apply (IH s1 (n + 1) T1); [lia | | exact Hos |].
  - rewrite Nat2N.inj_succ in Hb. lia.
  - rewrite E2. exact Hrs.
Qed.

End Top.

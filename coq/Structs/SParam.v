(* Structs/SParam.v — the from-scratch value does not depend on the allocator's naming of
   handles.  Two consistent worlds with the same inputs and cells but ARBITRARY allocators give a
   query the same data value, and struct lists that correspond position by position: the i-th
   handles were created by the same query under the same identity with the same fields.
   Hypothesis: the bodies are parametric in handles (they only pass handles around: `brel`);
   proved for the programs of the DSL (comp_param / table_param). *)
From Salsa Require Import Base.
From Salsa.Structs Require Import Model Dsl Machine SimExamples SSem SInv SRun STop SAdeq SDsl.

(* ---------------------------------------------------------------- parametricity of bodies *)
Section Rel.
Variable rho : handle -> handle -> Prop.

Definition rrel (r r' : rval) : Prop := fst r = fst r' /\ Forall2 rho (snd r) (snd r').

Inductive brel : body -> body -> Prop :=
| br_ret v hs hs' : Forall2 rho hs hs' -> brel (Ret v hs) (Ret v hs')
| br_in i k k' : (forall v, brel (k v) (k' v)) -> brel (RdIn i k) (RdIn i k')
| br_call c k k' : (forall r r', rrel r r' -> brel (k r) (k' r')) -> brel (CallQ c k) (CallQ c k')
| br_cell c k k' : (forall v, brel (k v) (k' v)) -> brel (RdCell c k) (RdCell c k')
| br_touch k k' : brel k k' -> brel (Touch k) (Touch k')
| br_new idv f0 f1 k k' : (forall h h', rho h h' -> brel (k h) (k' h')) -> brel (NewStruct idv f0 f1 k) (NewStruct idv f0 f1 k')
| br_fld h h' f k k' : rho h h' -> (forall v, brel (k v) (k' v)) -> brel (RdField h f k) (RdField h' f k')
| br_idf h h' k k' : rho h h' -> (forall v, brel (k v) (k' v)) -> brel (RdIdField h k) (RdIdField h' k').
End Rel.

Definition parametric (prog : qk -> body) : Prop := forall rho q, brel rho (prog q) (prog q).

(* ---------------------------------------------------------------- the semantic theorem *)
Section Indep.
Variable prog : qk -> body.
Variable idhash : val -> N.
Variable rank : qk -> nat.
Hypothesis Hrank : calls_below prog rank.
Variable NF : nat.
Hypothesis Hbound : forall q, (rank q < NF)%nat.
Hypothesis Hpar : parametric prog.

Notation Ew := (Ew idhash prog NF).
Notation trw := (trw idhash prog NF).
Notation envw := (envw idhash prog NF).
Notation clos := (clos idhash prog NF).
Notation wcons := (wcons prog idhash NF).

Variables w w' : world.
Variable q : qk.
Hypothesis Hin : forall i, w_in w i = w_in w' i.
Hypothesis Hcell : forall c, w_cell w c = w_cell w' c.
Hypothesis Hc : wcons w q.
Hypothesis Hc' : wcons w' q.

(* the same creation in the two worlds *)
Definition crel (h h' : handle) : Prop :=
  exists d id idv f0 f1, clos w q d /\ clos w' q d /\
    In (RNew id idv f0 f1) (trw w d) /\ In (RNew id idv f0 f1) (trw w' d) /\
    h = w_alloc w d id /\ h' = w_alloc w' d id.

Lemma crel_slot h h' : crel h h' -> w_slot w h = w_slot w' h'.
Proof.
  intros (d & id & idv & f0 & f1 & Q & Q' & I & I' & -> & ->).
  rewrite (Hc d Q id idv f0 f1 I), (Hc' d Q' id idv f0 f1 I'). reflexivity.
Qed.

Definition P (d : qk) : Prop := clos w q d -> clos w' q d -> rrel crel (Ew w d) (Ew w' d).

(* lockstep run of two related residual bodies of d *)
Lemma lockstep d : clos w q d -> clos w' q d -> (forall c, (rank c < rank d)%nat -> P c) ->
  forall b b', brel crel b b' -> forall dis,
  incl (trace idhash (envw w d) b dis) (trw w d) -> incl (trace idhash (envw w' d) b' dis) (trw w' d) ->
  rrel crel (run idhash (envw w d) b dis) (run idhash (envw w' d) b' dis).
Proof.
  intros Q Q' IH b b' Hb. induction Hb as [v hs hs' Hhs | i k k' Hk IHk | c k k' Hk IHk | c k k' Hk IHk | k k' Hk IHk
                                          | idv f0 f1 k k' Hk IHk | h h' f k k' Hh Hk IHk | h h' k k' Hh Hk IHk];
    intros dis Ht Ht'; cbn [run trace] in *.
  - split; [reflexivity | exact Hhs].
  - cbn [envw mkenv e_in] in *. rewrite <- Hin in *. apply IHk; intros x Hx; [apply Ht | apply Ht']; right; exact Hx.
  - assert (I1 : In (RQ c) (trw w d)) by (apply Ht; left; reflexivity).
    assert (I2 : In (RQ c) (trw w' d)) by (apply Ht'; left; reflexivity).
    assert (Hr : rrel crel (Ew w c) (Ew w' c)).
    { apply (IH c); [exact (trw_calls idhash prog rank Hrank NF w d c I1) | eapply clos_right; eassumption | eapply clos_right; eassumption]. }
    cbn [envw mkenv e_q] in *. apply (IHk _ _ Hr); intros x Hx; [apply Ht | apply Ht']; right; exact Hx.
  - cbn [envw mkenv e_cell] in *. rewrite <- Hcell in *. apply IHk; intros x Hx; [apply Ht | apply Ht']; right; exact Hx.
  - apply IHk; intros x Hx; [apply Ht | apply Ht']; right; exact Hx.
  - cbn [envw mkenv e_new] in *.
    assert (Hr : crel (w_alloc w d (nident idhash dis idv)) (w_alloc w' d (nident idhash dis idv))).
    { exists d, (nident idhash dis idv), idv, f0, f1. split; [exact Q|]. split; [exact Q'|].
      split; [apply Ht; left; reflexivity|]. split; [apply Ht'; left; reflexivity|]. split; reflexivity. }
    apply (IHk _ _ Hr); intros x Hx; [apply Ht | apply Ht']; right; exact Hx.
  - cbn [envw mkenv e_slot] in *. rewrite <- (crel_slot h h' Hh) in *.
    apply IHk; intros x Hx; [apply Ht | apply Ht']; right; exact Hx.
  - cbn [envw mkenv e_slot] in *. rewrite <- (crel_slot h h' Hh) in *.
    apply IHk; intros x Hx; [apply Ht | apply Ht']; right; exact Hx.
Qed.

Lemma indep_all : forall n d, (rank d < n)%nat -> P d.
Proof.
  induction n as [|n IH]; intros d Hn; [inversion Hn|].
  intros Q Q'. rewrite !(Ew_unfold idhash prog rank Hrank NF Hbound).
  apply (lockstep d Q Q'); [intros c Hc0; apply IH; lia | apply Hpar | |]; intros x Hx; exact Hx.
Qed.

Theorem allocator_independent : rrel crel (Ew w q) (Ew w' q).
Proof. exact (indep_all (S (rank q)) q (le_n _) (clos_refl _ _ _ _ _) (clos_refl _ _ _ _ _)). Qed.

Corollary allocator_independent_value : fst (Ew w q) = fst (Ew w' q).
Proof. exact (proj1 allocator_independent). Qed.

End Indep.

(* ---------------------------------------------------------------- the DSL is parametric *)
Section DslParam.
Variable rho : handle -> handle -> Prop.
Variable nk : N.

Definition envrel (env env' : list (N * handle)) : Prop :=
  forall x, match env_get env x, env_get env' x with
            | Some h, Some h' => rho h h'
            | None, None => True
            | _, _ => False
            end.

Definition orel (o o' : option handle) : Prop :=
  match o, o' with Some h, Some h' => rho h h' | None, None => True | _, _ => False end.

Lemma envrel_cons env env' x h h' : envrel env env' -> rho h h' -> envrel ((x, h) :: env) ((x, h') :: env').
Proof. intros H Hh y. cbn [env_get]. destruct (x =? y); [exact Hh | apply H]. Qed.

Lemma forall2_snoc (a a' : list handle) h h' : Forall2 rho a a' -> rho h h' -> Forall2 rho (a ++ [h]) (a' ++ [h']).
Proof. intros H Hh. apply Forall2_app; [exact H | constructor; [exact Hh | constructor]]. Qed.

Lemma forall2_nth (l l' : list handle) i : Forall2 rho l l' -> orel (nth_error l i) (nth_error l' i).
Proof.
  intros H. revert i. induction H as [|a b l l' Hab H IH]; intros [|i]; cbn; auto.
Qed.

Lemma comp_param_both :
  (forall e, s1wf e = true -> forall env env' acc acc' k k', envrel env env' -> Forall2 rho acc acc' ->
             (forall v a a', Forall2 rho a a' -> brel rho (k v a) (k' v a')) ->
             brel rho (comp nk None e env acc k) (comp nk None e env' acc' k')) /\
  (forall h, hs1wf h = true -> forall env env' acc acc' k k', envrel env env' -> Forall2 rho acc acc' ->
             (forall o o' a a', orel o o' -> Forall2 rho a a' -> brel rho (k o a) (k' o' a')) ->
             brel rho (comph nk None h env acc k) (comph nk None h env' acc' k')).
Proof.
  apply expr_hexpr_ind; cbn [s1wf hs1wf comp comph].
  - intros v _ env env' acc acc' k k' He Ha Hk. apply Hk. exact Ha.
  - intros i f _ env env' acc acc' k k' He Ha Hk. constructor. intros v. apply Hk. exact Ha.
  - intros fam ke IH H env env' acc acc' k k' He Ha Hk. apply IH; [exact H | exact He | exact Ha|].
    intros v a a' Haa. constructor. intros r r' [Hr _]. rewrite Hr. apply Hk. exact Haa.
  - intros c _ env env' acc acc' k k' He Ha Hk. constructor. intros v. apply Hk. exact Ha.
  - intros _ env env' acc acc' k k' He Ha Hk. constructor. apply Hk. exact Ha.
  - intros o a IHa b IHb H env env' acc acc' k k' He Ha Hk. apply andb_true_iff in H. destruct H as [Hwa Hwb].
    apply IHa; [exact Hwa | exact He | exact Ha|]. intros va a1 a1' H1.
    apply IHb; [exact Hwb | exact He | exact H1|]. intros vb a2 a2' H2. apply Hk. exact H2.
  - intros c IHc a IHa b IHb H env env' acc acc' k k' He Ha Hk. apply andb_true_iff in H. destruct H as [H Hwb].
    apply andb_true_iff in H. destruct H as [Hwc Hwa].
    apply IHc; [exact Hwc | exact He | exact Ha|]. intros vc a1 a1' H1.
    destruct (vc =? 0); [apply IHb | apply IHa]; auto.
  - intros x h IHh bd IHbd els IHels H env env' acc acc' k k' He Ha Hk. apply andb_true_iff in H. destruct H as [H Hwe].
    apply andb_true_iff in H. destruct H as [Hwh Hwb].
    apply IHh; [exact Hwh | exact He | exact Ha|]. intros [hd|] [hd'|] a1 a1' Ho H1; cbn in Ho; try contradiction.
    + apply IHbd; [exact Hwb | apply envrel_cons; assumption | exact H1 | exact Hk].
    + apply IHels; [exact Hwe | exact He | exact H1 | exact Hk].
  - intros x f _ env env' acc acc' k k' He Ha Hk. specialize (He x).
    destruct (env_get env x), (env_get env' x); try contradiction.
    + constructor; [exact He|]. intros v. apply Hk. exact Ha.
    + apply Hk. exact Ha.
  - intros x _ env env' acc acc' k k' He Ha Hk. specialize (He x).
    destruct (env_get env x), (env_get env' x); try contradiction.
    + constructor; [exact He|]. intros v. apply Hk. exact Ha.
    + apply Hk. exact Ha.
  - intros fam x H. discriminate.
  - intros fam x v IHv H. discriminate.
  - intros x _ env env' acc acc' k k' He Ha Hk. specialize (He x).
    destruct (env_get env x), (env_get env' x); try contradiction; apply Hk; [apply forall2_snoc; assumption | exact Ha].
  - intros a IHa b IHb c IHc H env env' acc acc' k k' He Ha Hk. apply andb_true_iff in H. destruct H as [H Hwc].
    apply andb_true_iff in H. destruct H as [Hwa Hwb].
    apply IHa; [exact Hwa | exact He | exact Ha|]. intros va a1 a1' H1.
    apply IHb; [exact Hwb | exact He | exact H1|]. intros vb a2 a2' H2.
    apply IHc; [exact Hwc | exact He | exact H2|]. intros vc a3 a3' H3.
    constructor. intros hd hd' Hh. apply Hk; [exact Hh | exact H3].
  - intros fam ke IH i H env env' acc acc' k k' He Ha Hk. apply IH; [exact H | exact He | exact Ha|].
    intros kv a1 a1' H1. constructor. intros r r' [_ Hr]. apply Hk; [apply forall2_nth; exact Hr | exact H1].
  - intros fam x i H. discriminate.
  - intros _ env env' acc acc' k k' He Ha Hk. apply Hk; [exact Logic.I | exact Ha].
  - intros x _ env env' acc acc' k k' He Ha Hk. apply Hk; [exact (He x) | exact Ha].
Qed.
End DslParam.

Theorem table_param nk tbl : forallb (fun ne => s1wf (snd ne)) tbl = true -> parametric (prog_of nk skind0 tbl).
Proof.
  intros Hwf rho q. unfold prog_of, skind0, compile.
  assert (Hw : s1wf (lookup_node tbl (fst q, fst (snd q))) = true).
  { generalize (fst q, fst (snd q)). intros key. induction tbl as [|[q' e] tbl IH]; cbn [lookup_node]; [reflexivity|].
    cbn [forallb snd] in Hwf. apply andb_true_iff in Hwf. destruct Hwf as [A B].
    destruct (key_eqb q' key); [exact A | exact (IH B)]. }
  apply (proj1 (comp_param_both rho nk) _ Hw); [intros x; exact Logic.I | constructor|].
  intros v a a' Ha. constructor. exact Ha.
Qed.

(* Structs/SParamK.v — Kripke (world-indexed) parametricity of bodies in handles: the relation on
   handles may grow while the body runs (new structs are created, callees return new handles).
   Needed to compare the model with the operational from-scratch evaluator of Structs/Spec.v,
   whose handle table grows during one evaluation.  Every DSL program is parametric. *)
From Coq Require Import Arith.
From Salsa Require Import Base.
From Salsa.Structs Require Import Model Dsl Machine SimExamples SSem SInv SRun SDsl.

Section RelK.
Variable R : nat -> handle -> handle -> Prop.
Hypothesis Rmono : forall m m' h h', (m <= m')%nat -> R m h h' -> R m' h h'.

Definition rrelK (m : nat) (r r' : rval) : Prop := fst r = fst r' /\ Forall2 (R m) (snd r) (snd r').

Inductive brelK : nat -> body -> body -> Prop :=
| bk_ret m v hs hs' : Forall2 (R m) hs hs' -> brelK m (Ret v hs) (Ret v hs')
| bk_in m i k k' : (forall v, brelK m (k v) (k' v)) -> brelK m (RdIn i k) (RdIn i k')
| bk_call m c k k' : (forall m' r r', (m <= m')%nat -> rrelK m' r r' -> brelK m' (k r) (k' r')) ->
                     brelK m (CallQ c k) (CallQ c k')
| bk_cell m c k k' : (forall v, brelK m (k v) (k' v)) -> brelK m (RdCell c k) (RdCell c k')
| bk_touch m k k' : brelK m k k' -> brelK m (Touch k) (Touch k')
| bk_new m idv f0 f1 k k' : (forall m' h h', (m <= m')%nat -> R m' h h' -> brelK m' (k h) (k' h')) ->
                            brelK m (NewStruct idv f0 f1 k) (NewStruct idv f0 f1 k')
| bk_fld m h h' f k k' : R m h h' -> (forall v, brelK m (k v) (k' v)) -> brelK m (RdField h f k) (RdField h' f k')
| bk_idf m h h' k k' : R m h h' -> (forall v, brelK m (k v) (k' v)) -> brelK m (RdIdField h k) (RdIdField h' k').

Lemma forall2_mono m m' (l l' : list handle) : (m <= m')%nat -> Forall2 (R m) l l' -> Forall2 (R m') l l'.
Proof. intros Hle H. induction H; constructor; eauto. Qed.

Lemma brelK_mono m b b' : brelK m b b' -> forall m', (m <= m')%nat -> brelK m' b b'.
Proof.
  intros H. induction H as [m v hs hs' Hhs | m i k k' Hk IHk | m c k k' Hk IHk | m c k k' Hk IHk | m k k' Hk IHk
                            | m idv f0 f1 k k' Hk IHk | m h h' f k k' Hh Hk IHk | m h h' k k' Hh Hk IHk]; intros m1 Hle.
  - constructor. exact (forall2_mono m m1 _ _ Hle Hhs).
  - constructor. intros v. exact (IHk v m1 Hle).
  - constructor. intros m2 r r' Hle2 Hr. apply Hk; [lia | exact Hr].
  - constructor. intros v. exact (IHk v m1 Hle).
  - constructor. exact (IHk m1 Hle).
  - constructor. intros m2 h h' Hle2 Hh. apply Hk; [lia | exact Hh].
  - constructor; [exact (Rmono m m1 h h' Hle Hh) | intros v; exact (IHk v m1 Hle)].
  - constructor; [exact (Rmono m m1 h h' Hle Hh) | intros v; exact (IHk v m1 Hle)].
Qed.

(* ---- the DSL ---- *)
Variable nk : N.

Definition envrelK (m : nat) (env env' : list (N * handle)) : Prop :=
  forall x, match env_get env x, env_get env' x with
            | Some h, Some h' => R m h h'
            | None, None => True
            | _, _ => False
            end.
Definition orelK (m : nat) (o o' : option handle) : Prop :=
  match o, o' with Some h, Some h' => R m h h' | None, None => True | _, _ => False end.

Lemma envrelK_mono m m' env env' : (m <= m')%nat -> envrelK m env env' -> envrelK m' env env'.
Proof.
  intros Hle H x. specialize (H x). destruct (env_get env x), (env_get env' x); auto. exact (Rmono m m' _ _ Hle H).
Qed.

Lemma envrelK_cons m env env' x h h' : envrelK m env env' -> R m h h' -> envrelK m ((x, h) :: env) ((x, h') :: env').
Proof. intros H Hh y. cbn [env_get]. destruct (x =? y); [exact Hh | apply H]. Qed.

Lemma forall2K_snoc m (a a' : list handle) h h' : Forall2 (R m) a a' -> R m h h' -> Forall2 (R m) (a ++ [h]) (a' ++ [h']).
Proof. intros H Hh. apply Forall2_app; [exact H | constructor; [exact Hh | constructor]]. Qed.

Lemma forall2K_nth m (l l' : list handle) i : Forall2 (R m) l l' -> orelK m (nth_error l i) (nth_error l' i).
Proof. intros H. revert i. induction H as [|a b l l' Hab H IH]; intros [|i]; cbn; auto. Qed.

Lemma compK_both :
  (forall e, s1wf e = true -> forall m env env' acc acc' k k', envrelK m env env' -> Forall2 (R m) acc acc' ->
             (forall m' v a a', (m <= m')%nat -> Forall2 (R m') a a' -> brelK m' (k v a) (k' v a')) ->
             brelK m (comp nk None e env acc k) (comp nk None e env' acc' k')) /\
  (forall h, hs1wf h = true -> forall m env env' acc acc' k k', envrelK m env env' -> Forall2 (R m) acc acc' ->
             (forall m' o o' a a', (m <= m')%nat -> orelK m' o o' -> Forall2 (R m') a a' -> brelK m' (k o a) (k' o' a')) ->
             brelK m (comph nk None h env acc k) (comph nk None h env' acc' k')).
Proof.
  apply expr_hexpr_ind; cbn [s1wf hs1wf comp comph].
  - intros v _ m env env' acc acc' k k' He Ha Hk. apply (Hk m); [lia | exact Ha].
  - intros i f _ m env env' acc acc' k k' He Ha Hk. constructor. intros v. apply (Hk m); [lia | exact Ha].
  - intros fam ke IH H m env env' acc acc' k k' He Ha Hk. apply IH; [exact H | exact He | exact Ha|].
    intros m1 v a a' L1 Haa. constructor. intros m2 r r' L2 [Hr _]. rewrite Hr. apply Hk; [lia|].
    exact (forall2_mono m1 m2 _ _ L2 Haa).
  - intros c _ m env env' acc acc' k k' He Ha Hk. constructor. intros v. apply (Hk m); [lia | exact Ha].
  - intros _ m env env' acc acc' k k' He Ha Hk. constructor. apply (Hk m); [lia | exact Ha].
  - intros o a IHa b IHb H m env env' acc acc' k k' He Ha Hk. apply andb_true_iff in H. destruct H as [Hwa Hwb].
    apply IHa; [exact Hwa | exact He | exact Ha|]. intros m1 va a1 a1' L1 H1.
    apply IHb; [exact Hwb | exact (envrelK_mono m m1 _ _ L1 He) | exact H1|]. intros m2 vb a2 a2' L2 H2.
    apply Hk; [lia | exact H2].
  - intros c IHc a IHa b IHb H m env env' acc acc' k k' He Ha Hk. apply andb_true_iff in H. destruct H as [H Hwb].
    apply andb_true_iff in H. destruct H as [Hwc Hwa].
    apply IHc; [exact Hwc | exact He | exact Ha|]. intros m1 vc a1 a1' L1 H1.
    destruct (vc =? 0); [apply IHb | apply IHa]; auto; try exact (envrelK_mono m m1 _ _ L1 He);
      intros m2 v2 a2 a2' L2 H2; apply Hk; auto; lia.
  - intros x h IHh bd IHbd els IHels H m env env' acc acc' k k' He Ha Hk. apply andb_true_iff in H. destruct H as [H Hwe].
    apply andb_true_iff in H. destruct H as [Hwh Hwb].
    apply IHh; [exact Hwh | exact He | exact Ha|]. intros m1 [hd|] [hd'|] a1 a1' L1 Ho H1; cbn in Ho; try contradiction.
    + apply IHbd; [exact Hwb | apply envrelK_cons; [exact (envrelK_mono m m1 _ _ L1 He) | exact Ho] | exact H1|].
      intros m2 v2 a2 a2' L2 H2; apply Hk; auto; lia.
    + apply IHels; [exact Hwe | exact (envrelK_mono m m1 _ _ L1 He) | exact H1|].
      intros m2 v2 a2 a2' L2 H2; apply Hk; auto; lia.
  - intros x f _ m env env' acc acc' k k' He Ha Hk. specialize (He x).
    destruct (env_get env x), (env_get env' x); try contradiction.
    + constructor; [exact He|]. intros v. apply (Hk m); [lia | exact Ha].
    + apply (Hk m); [lia | exact Ha].
  - intros x _ m env env' acc acc' k k' He Ha Hk. specialize (He x).
    destruct (env_get env x), (env_get env' x); try contradiction.
    + constructor; [exact He|]. intros v. apply (Hk m); [lia | exact Ha].
    + apply (Hk m); [lia | exact Ha].
  - intros fam x H. discriminate.
  - intros fam x v IHv H. discriminate.
  - intros x _ m env env' acc acc' k k' He Ha Hk. specialize (He x).
    destruct (env_get env x), (env_get env' x); try contradiction; apply (Hk m); try lia;
      [apply forall2K_snoc; assumption | exact Ha].
  - intros a IHa b IHb c IHc H m env env' acc acc' k k' He Ha Hk. apply andb_true_iff in H. destruct H as [H Hwc].
    apply andb_true_iff in H. destruct H as [Hwa Hwb].
    apply IHa; [exact Hwa | exact He | exact Ha|]. intros m1 va a1 a1' L1 H1.
    apply IHb; [exact Hwb | exact (envrelK_mono m m1 _ _ L1 He) | exact H1|]. intros m2 vb a2 a2' L2 H2.
    apply IHc; [exact Hwc | apply (envrelK_mono m m2); [lia | exact He] | exact H2|]. intros m3 vc a3 a3' L3 H3.
    constructor. intros m4 hd hd' L4 Hh. apply Hk; [lia | exact Hh | exact (forall2_mono m3 m4 _ _ L4 H3)].
  - intros fam ke IH i H m env env' acc acc' k k' He Ha Hk. apply IH; [exact H | exact He | exact Ha|].
    intros m1 kv a1 a1' L1 H1. constructor. intros m2 r r' L2 [_ Hr].
    apply Hk; [lia | apply forall2K_nth; exact Hr | exact (forall2_mono m1 m2 _ _ L2 H1)].
  - intros fam x i H. discriminate.
  - intros _ m env env' acc acc' k k' He Ha Hk. apply (Hk m); [lia | exact Logic.I | exact Ha].
  - intros x _ m env env' acc acc' k k' He Ha Hk. apply (Hk m); [lia | exact (He x) | exact Ha].
Qed.
End RelK.

Definition parametricK (prog : qk -> body) : Prop :=
  forall (R : nat -> handle -> handle -> Prop), (forall m m' h h', (m <= m')%nat -> R m h h' -> R m' h h') ->
  forall m q, brelK R m (prog q) (prog q).

Theorem table_paramK nk tbl : forallb (fun ne => s1wf (snd ne)) tbl = true -> parametricK (prog_of nk skind0 tbl).
Proof.
  intros Hwf R Rmono m q. unfold prog_of, skind0, compile.
  assert (Hw : s1wf (lookup_node tbl (fst q, fst (snd q))) = true).
  { generalize (fst q, fst (snd q)). intros key. induction tbl as [|[q' e] tbl IH]; cbn [lookup_node]; [reflexivity|].
    cbn [forallb snd] in Hwf. apply andb_true_iff in Hwf. destruct Hwf as [A B].
    destruct (key_eqb q' key); [exact A | exact (IH B)]. }
  apply (proj1 (compK_both R Rmono nk) _ Hw); [intros x; exact Logic.I | constructor|].
  intros m' v a a' _ Ha. constructor. exact Ha.
Qed.

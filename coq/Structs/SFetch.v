(* Structs/SFetch.v — execute, verify_memo, fetch, maybe_changed_after at every level keep the
   from-scratch invariant; a fetch leaves a memo verified now holding the value it returns. *)
From Salsa Require Import Base.
From Salsa.Kern Require Import CoreK CoreKFacts.
From Salsa.Structs Require Import Model ProofsBase ProofsCascade Machine ProofsInv ProofsStep Theorems Guard SimBase SimOps Sim
     SSem SInv SStable SSlots SStore SLock SNew SFrame SNewInv SRun SBody SExec SVerify.

Section Fetch.
Variable prog : qk -> body.
Variable skind : N -> bool.
Variable idhash : val -> N.
Variable rank : qk -> nat.
Hypothesis Hrank : calls_below prog rank.
Variable NF : nat.
Hypothesis Hbound : forall q, (rank q < NF)%nat.
Hypothesis Hprov : no_forge idhash prog.
Hypothesis Hgk : forall q d, calls (prog q) d -> gk d.
Hypothesis Hnk : forall f, skind f = false.
Hypothesis Hfirst : forall q d, calls (prog q) d -> first_read (prog d).
Hypothesis Hns : forall q, nospec (prog q).

Notation Ew := (Ew idhash prog NF).
Notation trw := (trw idhash prog NF).
Notation envw := (envw idhash prog NF).
Notation clos := (clos idhash prog NF).
Notation SInv := (SInv prog skind idhash NF).
Notation smemo_ok := (smemo_ok prog idhash NF).
Notation dval := (dval prog idhash NF).
Notation Er := (Er prog idhash NF).
Notation trr := (trr prog idhash NF).
Notation FrameOK := (FrameOK prog idhash NF).
Notation OInv := (OInv skind).
Notation fetch_spec := (fetch_spec prog skind idhash NF).
Notation mca_spec := (mca_spec prog skind idhash NF).

(* ---------------------------------------------------------------- changes outside the invariant's view *)
Lemma sext_core s s' :
  d_revs s' = d_revs s -> d_in s' = d_in s -> d_cell s' = d_cell s -> d_memo s' = d_memo s ->
  d_slots s' = d_slots s -> d_ideal s' = d_ideal s -> sext s s'.
Proof.
  intros Hr Hi Hc Hm Hsl Hid. constructor; auto.
  - intros l m Hm0 _. rewrite Hm. exact Hm0.
  - intros l m Hm0. exists m. rewrite Hm. split; [exact Hm0|]. split; lia.
  - intros i sl Hs0 _. rewrite Hsl. exact Hs0.
  - intros l m id h _ _ _. rewrite Hsl. apply slot_keeps_refl.
  - intros i sl Hs0. exists sl. rewrite Hsl. split; [exact Hs0|]. split; [lia|]. intros _ Hu. repeat split; auto; lia.
  - unfold issued. rewrite Hid. intros x Hx. exact Hx.
Qed.

Lemma SInv_core Hs s F s' :
  SInv Hs s F ->
  d_revs s' = d_revs s -> d_in s' = d_in s -> d_cell s' = d_cell s -> d_memo s' = d_memo s ->
  d_slots s' = d_slots s -> d_nslots s' = d_nslots s -> d_free s' = d_free s -> d_ideal s' = d_ideal s ->
  Cons skind s' F -> SInv Hs s' F /\ sext s s'.
Proof.
  intros I Hr Hi Hc Hm Hsl Hn Hf Hid CO'.
  pose proof (sext_core s s' Hr Hi Hc Hm Hsl Hid) as X. split; [|exact X].
  pose proof (sext_cur _ _ X) as Hcur.
  assert (Hlive : forall h sl, live_h s' h sl <-> live_h s h sl) by (intros h sl; unfold live_h; rewrite Hsl; tauto).
  apply (SInv_slots prog skind idhash rank Hrank NF Hbound Hprov Hgk Hs s F s' F (fun _ => False) I X Hm).
  - exact (oinv_core_eq skind s s' F (si_oinv _ _ _ _ _ _ _ I) Hr Hsl Hm Hn Hf Hid).
  - exact CO'.
  - intros h. right. intros [].
  - auto.
  - intros d Hd. exact (settled_not_active prog skind idhash NF Hs s F d I Hd).
  - intros q fr Hin. exact (si_active _ _ _ _ _ _ _ I q fr Hin).
  - intros h sl' _ Hl. apply Hlive in Hl. exists sl'. split; [exact Hl|]. repeat split; reflexivity.
  - intros l m id h _ _ _. split; [intros []|]. rewrite Hsl. apply slot_keeps_refl.
  - intros d id h sl' _ _ _ Ho. destruct Ho as [(Hna & md & Hmd & Hin) | A]; [left | right; exact A].
    split; [exact Hna|]. exists md. rewrite Hm. auto.
  - intros l m d h f sl' _ _ _ _ [].
  - intros l m d h sl' _ _ _ _ [].
  - intros l m d id idv f0 f1 sl' _ _ _ _ [].
  - intros c h f [].
  - intros i sl. rewrite Hsl, Hcur. exact (si_slots _ _ _ _ _ _ _ I i sl).
  - intros i sl. rewrite Hsl, Hcur. exact (si_gens _ _ _ _ _ _ _ I i sl).
  - intros h sl Hl Hu. apply Hlive in Hl. rewrite Hcur in *. rewrite Hm. exact (si_lock _ _ _ _ _ _ _ I h sl Hl Hu).
Qed.

(* ---------------------------------------------------------------- execute *)
Theorem execute_ok L Hs s F q old s' m :
  fetch_spec L -> SInv Hs s F -> gk q -> first_read (prog q) -> cur s < GMAX -> In q (d_stack s) ->
  ~ active_loc F (loc_of q) -> d_memo s (loc_of q) = old -> (forall o, old = Some o -> m_verified o < cur s) ->
  execute prog skind [] idhash L q old s = (s', SOk m) ->
  SInv Hs s' F /\ sext s s' /\ d_stack s' = d_stack s /\
  (forall p, In p (d_stack s) -> loc_of p <> loc_of q -> d_memo s' (loc_of p) = d_memo s (loc_of p)) /\
  (forall p frp h0, In (p, frp) F -> In h0 (frame_ids frp) -> d_slots s' (fst h0) = d_slots s (fst h0)) /\
  d_memo s' (loc_of q) = Some m /\ m_verified m = cur s /\ (exists v, m_val m = Some v) /\ m_dur m = 0.
Proof.
  intros HF I Hg Hfq Hcur Hst Hna Hold Hlt H. unfold execute in H.
  apply bind_ok in H. destruct H as (u & s0 & H0 & H). apply emit_ok in H0. subst s0.
  set (s0 := set_log s (EvExec q :: d_log s)) in *.
  destruct (SInv_core Hs s F s0 I) as [I0 X0]; try reflexivity.
  { apply (cons_nk skind Hnk s s0 F F (si_cons _ _ _ _ _ _ _ I)); [reflexivity | eauto]. }
  destruct (SInv_begin prog skind idhash rank Hrank NF Hbound Hprov Hgk Hnk Hs s0 F q old I0 Hg Hst Hna Hold Hlt) as [I1 FO1].
  apply bind_ok in H. destruct H as (r & s2 & H2 & H).
  set (fr0 := seed_frame old) in *.
  assert (Hq0 : In (q, fr0) ((q, fr0) :: F)) by (left; reflexivity).
  destruct (run_body_ok prog skind idhash rank Hrank NF Hbound Hprov Hgk Hnk L Hs q old HF (prog q) (Hns q)
              fr0 [] [] [] s0 ((q, fr0) :: F) s2 r I1 Hq0 FO1 Hcur) as (log' & dis' & I2 & X2 & K2 & FO2 & _).
  - intros c Hc. split; [exact (Hgk q c Hc) | exact (Hfirst q c Hc)].
  - intros _. exact Hfq.
  - intros e _. exact (Hprov e q).
  - intros h [].
  - exact H2.
  - cbn [set_frame] in I2. rewrite qk_eqb_refl in I2. cbn [app] in FO2.
    assert (Hlne : log' <> []).
    { intros E. rewrite E in FO2. destruct (fo_start _ _ _ _ _ _ _ _ _ _ _ FO2 eq_refl) as [Eb _]. rewrite <- Eb in Hfq. exact Hfq. }
    destruct (fst r) as [v hs] eqn:Er.
    destruct (finish_sinv prog skind idhash rank Hrank NF Hbound Hprov Hgk Hnk Hs s2 F q old (snd r) log' v hs dis' (l_fuel L) s' m
                I2 Hna FO2 Hlne H) as (I3 & X3 & Hst3 & Hm3 & Hfz3 & Hmq & Hvq & Hvalq & Hdq).
    destruct K2 as (A2 & B2 & C2). pose proof (sext_cur _ _ X2) as Hc2.
    split; [exact I3|]. split; [exact (sext_trans _ _ _ X0 (sext_trans _ _ _ X2 X3))|].
    split; [rewrite Hst3, A2; reflexivity|]. split.
    { intros p Hp Hne. rewrite (Hm3 _ Hne). exact (B2 p Hp). }
    split.
    { intros p frp h0 Hp Hh0. rewrite (Hfz3 p frp h0 Hp Hh0).
      apply (C2 p frp h0 (or_intror Hp)); [|exact Hh0]. intros ->. apply Hna. exists q, frp. auto. }
    split; [exact Hmq|]. split; [rewrite Hvq, Hc2; reflexivity|]. split; [eauto | exact Hdq].
Qed.

(* ---------------------------------------------------------------- shallow verification, claim, release *)
Lemma shallow_cases Hs s F q m : SInv Hs s F -> gk q -> d_memo s (loc_of q) = Some m ->
  shallow_verify s m = if m_verified m =? cur s then ShVerified else ShNo.
Proof.
  intros I Hg Hm. pose proof (memo_ok_of prog skind idhash NF Hs s F q m I Hg Hm) as Hok.
  pose proof (mo_low _ _ _ _ _ _ _ _ Hok) as Hlow. pose proof (mo_order _ _ _ _ _ _ _ _ Hok) as (_ & _ & Hle).
  unfold shallow_verify. destruct (N.eqb_spec (m_verified m) (cur s)) as [E | Hne]; [reflexivity|].
  rewrite Hlow, last_changed_low.
  destruct (shallow_ok (r_cur (d_revs s)) (m_verified m)) eqn:Es; [|reflexivity].
  apply shallow_ok_spec in Es. unfold cur in *. lia.
Qed.

Lemma stack_gk s F p : Cons skind s F -> In p (d_stack s) -> gk p.
Proof.
  intros C Hp. pose proof (cn_cur _ _ _ C p Hp) as H. unfold Guard.cur_okb in H. rewrite Hnk in H.
  apply N.eqb_eq in H. exact H.
Qed.

Lemma gk_loc_inj (p q : qk) : gk p -> gk q -> loc_of p = loc_of q -> p = q.
Proof. intros Hp Hq E. rewrite <- (kq_loc p Hp), <- (kq_loc q Hq), E. reflexivity. Qed.

Lemma not_claimed_not_active Hs s F q : SInv Hs s F -> gk q -> ~ In q (d_stack s) -> ~ active_loc F (loc_of q).
Proof.
  intros I Hg Hni (q' & fr & Hin & El).
  destruct (si_active _ _ _ _ _ _ _ I q' fr Hin) as [Hg' _].
  pose proof (gk_loc_inj q' q Hg' Hg El) as ->. apply Hni. exact (cn_stack _ _ _ (si_cons _ _ _ _ _ _ _ I) q fr Hin).
Qed.

Lemma claim_ok Hs s F q s1 u : SInv Hs s F -> gk q -> claim q s = (s1, SOk u) ->
  ~ In q (d_stack s) /\ s1 = set_stack s (q :: d_stack s) /\ SInv Hs s1 F /\ sext s s1.
Proof.
  intros I Hg H. unfold claim in H. apply bind_ok in H. destruct H as (x & t & H1 & H). apply get_ok in H1. destruct H1 as [-> ->].
  destruct (existsb (qk_eqb q) (d_stack s)) eqn:Ex; [exfalso; exact (fail_ok _ _ _ _ H)|].
  apply modify_ok in H. subst s1.
  assert (Hni : ~ In q (d_stack s)).
  { intros Hin. assert (existsb (qk_eqb q) (d_stack s) = true); [|congruence].
    apply existsb_exists. exists q. split; [exact Hin | apply qk_eqb_refl]. }
  split; [exact Hni|]. split; [reflexivity|].
  apply (SInv_core Hs s F _ I); try reflexivity.
  destruct (si_cons _ _ _ _ _ _ _ I) as [a b c d]. constructor; cbn [set_stack d_stack].
  - intros q' fr Hin. right. exact (a q' fr Hin).
  - constructor; assumption.
  - intros p [<- | Hp]; [unfold Guard.cur_okb; rewrite Hnk; apply N.eqb_eq; exact Hg | exact (c p Hp)].
  - intros p _ Hk. rewrite Hnk in Hk. discriminate.
Qed.

Lemma release_ok Hs s F q st s1 u : SInv Hs s F -> d_stack s = q :: st -> (forall fr, ~ In (q, fr) F) ->
  release q s = (s1, SOk u) -> s1 = set_stack s st /\ SInv Hs s1 F /\ sext s s1.
Proof.
  intros I Est HnF H. unfold release in H. apply modify_ok in H. rewrite Est in H. cbn [tl] in H. subst s1.
  split; [reflexivity|]. apply (SInv_core Hs s F _ I); try reflexivity.
  destruct (si_cons _ _ _ _ _ _ _ I) as [a b c d]. rewrite Est in *. constructor; cbn [set_stack d_stack].
  - intros q' fr Hin. destruct (a q' fr Hin) as [<- | A]; [exfalso; exact (HnF fr Hin) | exact A].
  - apply NoDup_cons_iff in b. exact (proj2 b).
  - intros p Hp. pose proof (c p (or_intror Hp)) as H. unfold Guard.cur_okb in *. rewrite Hnk in *. exact H.
  - intros p _ Hk. rewrite Hnk in Hk. discriminate.
Qed.

(* ---------------------------------------------------------------- verify_memo *)
Theorem verify_ok L Hs s F q m s' r :
  mca_spec L -> SInv Hs s F -> gk q -> d_memo s (loc_of q) = Some m -> In q (d_stack s) ->
  ~ active_loc F (loc_of q) -> cur s < GMAX ->
  verify_memo skind L q m s = (s', SOk r) ->
  SInv Hs s' F /\ sext s s' /\ d_stack s' = d_stack s /\
  (forall p, In p (d_stack s) -> loc_of p <> loc_of q -> d_memo s' (loc_of p) = d_memo s (loc_of p)) /\
  (forall p frp h0, In (p, frp) F -> In h0 (frame_ids frp) -> d_slots s' (fst h0) = d_slots s (fst h0)) /\
  (if fst r
   then d_memo s' (loc_of q) = Some (snd r) /\ m_verified (snd r) = cur s /\ m_val (snd r) = m_val m /\
        m_dur (snd r) = m_dur m /\ m_changed (snd r) = m_changed m
   else d_memo s' (loc_of q) = Some m /\ m_verified m < cur s).
Proof.
  intros HM I Hg Hm Hst Hna Hcur H. unfold verify_memo in H.
  apply bind_ok in H. destruct H as (x & t & H1 & H). apply get_ok in H1. destruct H1 as [-> ->].
  rewrite (shallow_cases Hs s F q m I Hg Hm) in H.
  pose proof (memo_ok_of prog skind idhash NF Hs s F q m I Hg Hm) as Hok.
  pose proof (mo_order _ _ _ _ _ _ _ _ Hok) as (_ & _ & Hle).
  destruct (N.eqb_spec (m_verified m) (cur s)) as [Ev | Hne].
  - apply bind_ok in H. destruct H as (m1 & t & H1 & H). apply ret_ok in H1. destruct H1 as [-> ->].
    apply ret_ok in H. destruct H as [-> ->]. cbn [fst snd].
    split; [exact I|]. split; [apply sext_refl|]. split; [reflexivity|]. split; [auto|]. split; [auto|]. auto.
  - assert (Hv : m_verified m < cur s) by lia.
    unfold deep_verify in H. destruct (m_origin m) eqn:Eo.
    + apply bind_ok in H. destruct H as (c & s1 & H1 & H).
      destruct (walk_ok prog skind idhash rank Hrank NF Hbound Hprov Hgk Hfirst L Hs q m HM (m_edges m) [] s F s1 c
                  I Hg Hm Hv Hst Hna Hcur eq_refl (fun e (A : In e []) => match A with end) H1) as (I1 & X1 & K1 & Hf1).
      destruct K1 as (A1 & B1 & C1). pose proof (sext_cur _ _ X1) as Hc1.
      assert (Hm1 : d_memo s1 (loc_of q) = Some m) by (rewrite (B1 q Hst); exact Hm).
      destruct c.
      * apply ret_ok in H. destruct H as [-> ->]. cbn [fst snd].
        split; [exact I1|]. split; [exact X1|]. split; [exact A1|]. split; [intros p Hp _; exact (B1 p Hp)|].
        split; [exact C1|]. auto.
      * apply bind_ok in H. destruct H as (m' & s2 & H2 & H). apply ret_ok in H. destruct H as [-> ->]. cbn [fst snd].
        destruct (mark_ok prog skind idhash rank Hrank NF Hbound Hprov Hgk Hnk Hs s1 F q m s2 m' I1 Hg Hm1) as
          (I2 & X2 & Hst2 & Hm2 & Hsl2 & Hmq & Hvq & Hval & Hch & Hd); auto.
        { rewrite Hc1. exact Hv. }
        split; [exact I2|]. split; [exact (sext_trans _ _ _ X1 X2)|]. split; [congruence|].
        split; [intros p Hp Hnel; rewrite (Hm2 _ Hnel); exact (B1 p Hp)|].
        split; [intros p frp h0 Hp Hh0; rewrite Hsl2; exact (C1 p frp h0 Hp Hh0)|].
        split; [exact Hmq|]. split; [rewrite Hvq; exact Hc1|]. auto.
    + apply ret_ok in H. destruct H as [-> ->]. cbn [fst snd].
      split; [exact I|]. split; [apply sext_refl|]. split; [reflexivity|]. split; [auto|]. split; [auto|]. auto.
    + apply ret_ok in H. destruct H as [-> ->]. cbn [fst snd].
      split; [exact I|]. split; [apply sext_refl|]. split; [reflexivity|]. split; [auto|]. split; [auto|]. auto.
Qed.

(* ---------------------------------------------------------------- fetch *)
Lemma memo_val_some Hs s F q m : SInv Hs s F -> gk q -> d_memo s (loc_of q) = Some m -> exists v, m_val m = Some v.
Proof. intros I Hg Hm. eexists. exact (mo_val _ _ _ _ _ _ _ _ (memo_ok_of prog skind idhash NF Hs s F q m I Hg Hm)). Qed.

Theorem fetch_cold_ok L Hs s F q s' mv :
  fetch_spec L -> mca_spec L -> SInv Hs s F -> gk q -> first_read (prog q) -> cur s < GMAX ->
  (forall m, d_memo s (loc_of q) = Some m -> m_verified m < cur s) ->
  fetch_cold prog skind [] idhash L q s = (s', SOk mv) ->
  SInv Hs s' F /\ sext s s' /\ keeps s s' F /\
  d_memo s' (loc_of q) = Some (fst mv) /\ m_verified (fst mv) = cur s /\ m_val (fst mv) = Some (snd mv).
Proof.
  intros HF HM I Hg Hfq Hcur Hnv H. unfold fetch_cold in H.
  apply bind_ok in H. destruct H as (u & s1 & H1 & H).
  destruct (claim_ok Hs s F q s1 u I Hg H1) as (Hni & -> & I1 & X1).
  set (s1 := set_stack s (q :: d_stack s)) in *.
  pose proof (not_claimed_not_active Hs s F q I Hg Hni) as Hna.
  assert (HnF : forall fr, ~ In (q, fr) F).
  { intros fr Hin. apply Hni. exact (cn_stack _ _ _ (si_cons _ _ _ _ _ _ _ I) q fr Hin). }
  assert (Hc1 : cur s1 = cur s) by reflexivity.
  assert (Hst1 : In q (d_stack s1)) by (left; reflexivity).
  assert (Hloc : forall p, In p (d_stack s) -> loc_of p <> loc_of q).
  { intros p Hp E. apply Hni. rewrite <- (gk_loc_inj p q (stack_gk s F p (si_cons _ _ _ _ _ _ _ I) Hp) Hg E). exact Hp. }
  apply bind_ok in H. destruct H as (old & t & H2 & H). rewrite get_memo_nk in H2; [|exact Hnk]. injection H2 as <- <-.
  change (d_memo s1 (loc_of q)) with (d_memo s (loc_of q)) in H.
  apply bind_ok in H. destruct H as (ok & s2 & H3 & H).
  (* after the verification attempt *)
  assert (Hmid : SInv Hs s2 F /\ sext s1 s2 /\ d_stack s2 = d_stack s1 /\
                 (forall p, In p (d_stack s) -> d_memo s2 (loc_of p) = d_memo s (loc_of p)) /\
                 (forall p frp h0, In (p, frp) F -> In h0 (frame_ids frp) -> d_slots s2 (fst h0) = d_slots s (fst h0)) /\
                 match ok with
                 | Some mv0 => d_memo s2 (loc_of q) = Some (fst mv0) /\ m_verified (fst mv0) = cur s /\ m_val (fst mv0) = Some (snd mv0)
                 | None => d_memo s2 (loc_of q) = d_memo s (loc_of q)
                 end).
  { destruct (d_memo s (loc_of q)) as [m|] eqn:Em.
    - destruct (memo_val_some Hs s F q m I Hg Em) as (v & Ev). rewrite Ev in H3.
      apply bind_ok in H3. destruct H3 as (r & s2' & H4 & H3). apply ret_ok in H3. destruct H3 as [-> ->].
      destruct (verify_ok L Hs s1 F q m s2' r HM I1 Hg Em Hst1 Hna Hcur H4) as (I2 & X2 & Hst2 & Hm2 & Hfz2 & Hres).
      split; [exact I2|]. split; [exact X2|]. split; [exact Hst2|].
      split; [intros p Hp; apply (Hm2 p (or_intror Hp) (Hloc p Hp))|]. split; [exact Hfz2|].
      destruct (fst r).
      + destruct Hres as (A & B & C & _). cbn [fst snd]. split; [exact A|]. split; [exact B | congruence].
      + exact (proj1 Hres).
    - apply ret_ok in H3. destruct H3 as [-> ->].
      split; [exact I1|]. split; [apply sext_refl|]. split; [reflexivity|]. split; [auto|]. split; [auto | exact Em]. }
  destruct Hmid as (I2 & X2 & Hst2 & Hm2 & Hfz2 & Hres).
  pose proof (sext_cur _ _ X2) as Hc2.
  destruct ok as [mv0|].
  - apply bind_ok in H. destruct H as (u2 & s3 & H4 & H). apply ret_ok in H. destruct H as [-> ->].
    destruct (release_ok Hs s2 F q (d_stack s) s3 u2 I2 Hst2 HnF H4) as (-> & I3 & X3).
    split; [exact I3|]. split; [exact (sext_trans _ _ _ X1 (sext_trans _ _ _ X2 X3))|].
    split; [split; [reflexivity|]; split; [exact Hm2 | exact Hfz2]|]. exact Hres.
  - apply bind_ok in H. destruct H as (m3 & s3 & H4 & H).
    destruct (execute_ok L Hs s2 F q (d_memo s (loc_of q)) s3 m3 HF I2 Hg Hfq) as
      (I3 & X3 & Hst3 & Hm3 & Hfz3 & Hmq & Hvq & (v & Hval) & _); auto.
    { rewrite Hc2. exact Hcur. }
    { rewrite Hst2. exact Hst1. }
    { intros o Eo. rewrite Hc2. exact (Hnv o Eo). }
    apply bind_ok in H. destruct H as (u2 & s4 & H5 & H).
    rewrite Hval in H. apply ret_ok in H. destruct H as [-> ->]. cbn [fst snd].
    assert (Hst3' : d_stack s3 = q :: d_stack s) by (rewrite Hst3, Hst2; reflexivity).
    destruct (release_ok Hs s3 F q (d_stack s) s4 u2 I3 Hst3' HnF H5) as (-> & I4 & X4).
    split; [exact I4|]. split; [exact (sext_trans _ _ _ X1 (sext_trans _ _ _ X2 (sext_trans _ _ _ X3 X4)))|].
    split.
    { split; [reflexivity|]. split.
      - intros p Hp. cbn. rewrite (Hm3 p); [exact (Hm2 p Hp) | rewrite Hst2; right; exact Hp | exact (Hloc p Hp)].
      - intros p frp h0 Hp Hh0. cbn. rewrite (Hfz3 p frp h0 Hp Hh0). exact (Hfz2 p frp h0 Hp Hh0). }
    split; [exact Hmq|]. split; [rewrite Hvq, Hc2; reflexivity | exact Hval].
Qed.

Lemma fetch_hot_nk Hs s F q : SInv Hs s F -> gk q ->
  fetch_hot skind q s =
  (s, SOk match d_memo s (loc_of q) with
          | Some m => match m_val m with
                      | Some v => if m_verified m =? cur s then Some (m, v) else None
                      | None => None
                      end
          | None => None
          end).
Proof.
  intros I Hg. unfold fetch_hot, bind. rewrite get_memo_nk by exact Hnk. unfold get.
  destruct (d_memo s (loc_of q)) as [m|] eqn:Em; [|reflexivity].
  destruct (m_val m) as [v|]; [|reflexivity].
  rewrite (shallow_cases Hs s F q m I Hg Em). destruct (m_verified m =? cur s); reflexivity.
Qed.

Theorem fetch_ok L : fetch_spec L -> mca_spec L -> fetch_spec {| l_fetch := fetch prog skind [] idhash L; l_mca := mca prog skind [] idhash L; l_fuel := S (l_fuel L) |}.
Proof.
  intros HF HM Hs s F q s' r I Hg Hfq Hcur H. cbn [l_fetch] in H. unfold fetch in H.
  apply bind_ok in H. destruct H as (hot & t & H1 & H). rewrite (fetch_hot_nk Hs s F q I Hg) in H1. injection H1 as <- <-.
  apply bind_ok in H. destruct H as (mv & s1 & H2 & H). apply ret_ok in H. destruct H as [-> ->].
  unfold memo_qres. cbn [fst snd].
  destruct (d_memo s (loc_of q)) as [m|] eqn:Em.
  - destruct (m_val m) as [v|] eqn:Ev.
    + destruct (N.eqb_spec (m_verified m) (cur s)) as [Evc | Hne].
      * apply ret_ok in H2. destruct H2 as [-> ->]. cbn [fst snd].
        split; [exact I|]. split; [apply sext_refl|]. split; [apply keeps_refl|]. exists m. auto.
      * destruct (fetch_cold_ok L Hs s F q s1 mv HF HM I Hg Hfq Hcur) as (I1 & X1 & K1 & Hm1 & Hv1 & Hval1); [|exact H2|].
        { intros m0 Hm0. rewrite Hm0 in Em. injection Em as ->.
          pose proof (mo_order _ _ _ _ _ _ _ _ (memo_ok_of prog skind idhash NF Hs s F q m I Hg Hm0)). lia. }
        split; [exact I1|]. split; [exact X1|]. split; [exact K1|]. exists (fst mv). auto.
    + destruct (memo_val_some Hs s F q m I Hg Em) as (v & Ev'). congruence.
  - destruct (fetch_cold_ok L Hs s F q s1 mv HF HM I Hg Hfq Hcur) as (I1 & X1 & K1 & Hm1 & Hv1 & Hval1); [|exact H2|].
    { intros m0 Hm0. rewrite Hm0 in Em. discriminate. }
    split; [exact I1|]. split; [exact X1|]. split; [exact K1|]. exists (fst mv). auto.
Qed.

(* ---------------------------------------------------------------- maybe_changed_after *)
Theorem mca_cold_ok L Hs s F q since s' b :
  fetch_spec L -> mca_spec L -> SInv Hs s F -> gk q -> first_read (prog q) -> cur s < GMAX ->
  (forall m, d_memo s (loc_of q) = Some m -> m_verified m < cur s) ->
  mca_cold prog skind [] idhash L q since s = (s', SOk b) ->
  SInv Hs s' F /\ sext s s' /\ keeps s s' F /\
  (b = false -> exists m, d_memo s' (loc_of q) = Some m /\ m_verified m = cur s /\ m_changed m <= since).
Proof.
  intros HF HM I Hg Hfq Hcur Hnv H. unfold mca_cold in H.
  apply bind_ok in H. destruct H as (u & s1 & H1 & H).
  destruct (claim_ok Hs s F q s1 u I Hg H1) as (Hni & -> & I1 & X1).
  set (s1 := set_stack s (q :: d_stack s)) in *.
  pose proof (not_claimed_not_active Hs s F q I Hg Hni) as Hna.
  assert (HnF : forall fr, ~ In (q, fr) F).
  { intros fr Hin. apply Hni. exact (cn_stack _ _ _ (si_cons _ _ _ _ _ _ _ I) q fr Hin). }
  assert (Hst1 : In q (d_stack s1)) by (left; reflexivity).
  assert (Hloc : forall p, In p (d_stack s) -> loc_of p <> loc_of q).
  { intros p Hp E. apply Hni. rewrite <- (gk_loc_inj p q (stack_gk s F p (si_cons _ _ _ _ _ _ _ I) Hp) Hg E). exact Hp. }
  apply bind_ok in H. destruct H as (om & t & H2 & H). rewrite get_memo_nk in H2; [|exact Hnk]. injection H2 as <- <-.
  change (d_memo s1 (loc_of q)) with (d_memo s (loc_of q)) in H.
  destruct (d_memo s (loc_of q)) as [old|] eqn:Em.
  - apply bind_ok in H. destruct H as (r & s2 & H3 & H).
    destruct (verify_ok L Hs s1 F q old s2 r HM I1 Hg Em Hst1 Hna Hcur H3) as (I2 & X2 & Hst2 & Hm2 & Hfz2 & Hres).
    pose proof (sext_cur _ _ X2) as Hc2.
    assert (Hm2' : forall p, In p (d_stack s) -> d_memo s2 (loc_of p) = d_memo s (loc_of p)).
    { intros p Hp. exact (Hm2 p (or_intror Hp) (Hloc p Hp)). }
    destruct (fst r) eqn:Efr.
    + destruct Hres as (A & B & C & D & E).
      apply bind_ok in H. destruct H as (u2 & s3 & H4 & H). apply ret_ok in H. destruct H as [-> ->].
      destruct (release_ok Hs s2 F q (d_stack s) s3 u2 I2 Hst2 HnF H4) as (-> & I3 & X3).
      split; [exact I3|]. split; [exact (sext_trans _ _ _ X1 (sext_trans _ _ _ X2 X3))|].
      split; [split; [reflexivity|]; split; [exact Hm2' | exact Hfz2]|].
      intros Hb. apply changed_after_false in Hb. exists (snd r). split; [exact A|]. split; [exact B | exact Hb].
    + destruct Hres as [A B].
      destruct (memo_val_some Hs s F q old I Hg Em) as (v & Ev). rewrite Ev in H.
      apply bind_ok in H. destruct H as (m3 & s3 & H4 & H).
      destruct (execute_ok L Hs s2 F q (Some old) s3 m3 HF I2 Hg Hfq) as
        (I3 & X3 & Hst3 & Hm3 & Hfz3 & Hmq & Hvq & _ & _); auto.
      { rewrite Hc2. exact Hcur. }
      { rewrite Hst2. exact Hst1. }
      { intros o Eo. injection Eo as <-. rewrite Hc2. exact B. }
      apply bind_ok in H. destruct H as (u2 & s4 & H5 & H). apply ret_ok in H. destruct H as [-> ->].
      assert (Hst3' : d_stack s3 = q :: d_stack s) by (rewrite Hst3, Hst2; reflexivity).
      destruct (release_ok Hs s3 F q (d_stack s) s4 u2 I3 Hst3' HnF H5) as (-> & I4 & X4).
      split; [exact I4|]. split; [exact (sext_trans _ _ _ X1 (sext_trans _ _ _ X2 (sext_trans _ _ _ X3 X4)))|].
      split.
      { split; [reflexivity|]. split.
        - intros p Hp. cbn. rewrite (Hm3 p); [exact (Hm2' p Hp) | rewrite Hst2; right; exact Hp | exact (Hloc p Hp)].
        - intros p frp h0 Hp Hh0. cbn. rewrite (Hfz3 p frp h0 Hp Hh0). exact (Hfz2 p frp h0 Hp Hh0). }
      intros Hb. apply changed_after_false in Hb. exists m3. split; [exact Hmq|]. split; [rewrite Hvq, Hc2; reflexivity | exact Hb].
  - apply bind_ok in H. destruct H as (u2 & s3 & H4 & H). apply ret_ok in H. destruct H as [-> ->].
    destruct (release_ok Hs s1 F q (d_stack s) s3 u2 I1 eq_refl HnF H4) as (-> & I3 & X3).
    split; [exact I3|]. split; [exact (sext_trans _ _ _ X1 X3)|].
    split; [split; [reflexivity|]; split; auto | discriminate].
Qed.

Theorem mca_ok L : fetch_spec L -> mca_spec L -> mca_spec {| l_fetch := fetch prog skind [] idhash L; l_mca := mca prog skind [] idhash L; l_fuel := S (l_fuel L) |}.
Proof.
  intros HF HM Hs s F q since s' b I Hg Hfq Hcur H. cbn [l_mca] in H. unfold mca in H.
  apply bind_ok in H. destruct H as (om & t & H1 & H). rewrite get_memo_nk in H1; [|exact Hnk]. injection H1 as <- <-.
  apply bind_ok in H. destruct H as (x & t & H1 & H). apply get_ok in H1. destruct H1 as [-> ->].
  destruct (d_memo s (loc_of q)) as [m|] eqn:Em.
  - rewrite (shallow_cases Hs s F q m I Hg Em) in H.
    destruct (N.eqb_spec (m_verified m) (cur s)) as [Ev | Hne].
    + apply bind_ok in H. destruct H as (m1 & t & H1 & H). apply ret_ok in H1. destruct H1 as [-> ->].
      apply ret_ok in H. destruct H as [-> ->].
      split; [exact I|]. split; [apply sext_refl|]. split; [apply keeps_refl|].
      intros Hb. apply changed_after_false in Hb. exists m. auto.
    + apply (mca_cold_ok L Hs s F q since s' b HF HM I Hg Hfq Hcur); [|exact H].
      intros m0 Hm0. rewrite Hm0 in Em. injection Em as ->.
      pose proof (mo_order _ _ _ _ _ _ _ _ (memo_ok_of prog skind idhash NF Hs s F q m I Hg Hm0)). lia.
  - apply ret_ok in H. destruct H as [-> ->].
    split; [exact I|]. split; [apply sext_refl|]. split; [apply keeps_refl | discriminate].
Qed.

(* ---------------------------------------------------------------- every level *)
Theorem level_ok : forall n, fetch_spec (level prog skind [] idhash n) /\ mca_spec (level prog skind [] idhash n).
Proof.
  induction n as [|n [IHf IHm]]; cbn [level].
  - split; intros Hs s F q; intros; discriminate.
  - split; [exact (fetch_ok _ IHf IHm) | exact (mca_ok _ IHf IHm)].
Qed.

End Fetch.

(* Structs/Examples.v — concrete runs of the executable Structs model and of the Structs machine:
   non-vacuity witnesses for the C06/C07/C10 theorems and vm_compute witnesses of the deviation
   classes found on the real crate (the same cases are replayed on the implementation by
   checks/C10.py and checks/C06.py; see checks/notes).  vm_compute is used only here. *)
From Salsa Require Import Base.
From Salsa.Kern Require Import CoreK.
From Salsa.Structs Require Import Model Spec Dsl Machine ProofsBase ProofsCascade ProofsInv ProofsStep Theorems.

(* the harness vocabulary: families 2 (ontr) and 3 (spec) are keyed by the tracked struct *)
Definition skind5 (f : N) : bool := (f =? 2) || (f =? 3).
Definition sfams5 : list N := [2; 3].

Lemma sfams5_skind fam : In fam sfams5 -> skind5 fam = true.
Proof. intros [<- | [<- | []]]; reflexivity. Qed.

Fixpoint lookup3 (tbl : list ((N * N) * N)) (k : N * N) : N :=
  match tbl with
  | [] => 0
  | (k', v) :: tbl' => if key_eqb k' k then v else lookup3 tbl' k
  end.

Definition run_case (nodes : list ((N * N) * expr)) (ival idur : list ((N * N) * N)) (ops : list op)
           (nk : N) (idhash : val -> N) : db * list out :=
  run_ops (prog_of nk skind5 nodes) skind5 sfams5 idhash 40%nat (init (lookup3 ival) (lookup3 idur)) ops.

Definition spec_after (nodes : list ((N * N) * expr)) (nk : N) (s : db) (q : qk) :=
  spec_get (prog_of nk skind5 nodes) skind5 (snap_of s) 40%nat q.

Definition k1_nodes : list ((N * N) * expr) := [((2, 0), (ELet 0 HSelf (EOp BAdd (ECallS 3 0) (EInp 1 0)) (ELit 0))); ((1, 0), (EOp BAdd (ELet 3 (HNew (EOp BAnd (EInp 0 1) (ELit 1)) (ECall 0 (ELit 0)) (EOp BMax (EInp 1 1) (EInp 0 0))) (EOp BAdd (EOp BAdd (ECallS 2 3) (ESpecify 3 3 (EOp BAnd (EInp 1 2) (EInp 1 1)))) (ERetH 3)) (ELit 0)) (ELet 2 (HNew (EOp BAnd (EInp 1 2) (ELit 3)) (EOp BEq (ELit 3) (EInp 1 0)) (EInp 0 1)) (EOp BAdd (EOp BAdd (ECallS 3 2) (ERetH 2)) (EField 2 1)) (ELit 0)))); ((4, 1), (EOp BAdd (EOp BAdd (ELit 0) (ELet 3 (HNth 1 (ELit 0) 0) (EOp BAdd (EField 3 0) (ECallS 3 3)) (ELit 0))) (ELet 2 (HNth 1 (ELit 0) 2) (EField 2 0) (ELit 7))))].
Definition k1_ival : list ((N * N) * N) := [((0, 0), 2); ((0, 1), 0); ((0, 2), 0); ((1, 0), 0); ((1, 1), 3); ((1, 2), 1)].
Definition k1_idur : list ((N * N) * N) := [].
Definition k1_ops : list op := [OGetS 3 (1, (0, 0)) 0; OSet (0, 0) 3 None; OGet (4, (1, 0))].
Definition k1_nk : N := 2.
Definition k1_idhash (v : val) : N := v.

Definition k2_nodes : list ((N * N) * expr) := [((1, 0), (EOp BAdd (EOp BAdd (ELet 2 (HNew (ELit 1) (ELit 1) (EOp BMin (EInp 1 2) (ECall 0 (ELit 1)))) (EOp BAdd (EOp BAdd (EOp BAdd (EOp BAdd (EIf (EInp 0 0) (ESpecify 3 2 (EIf (ECall 0 (ELit 1)) (ECall 0 (ELit 1)) (ECall 0 (ELit 0)))) (ELit 0)) (ECallS 3 2)) (ECallS 2 2)) (EField 2 1)) (ERetH 2)) (ELit 0)) (ELit 0)) (ELit 0))); ((4, 0), (EOp BAdd (ELet 2 (HNth 1 (ELit 2) 0) (EOp BAdd (EOp BAdd (ECallS 3 2) (EIdField 2)) (EField 2 1)) (ELit 7)) (ECall 1 (ELit 0)))); ((4, 2), (EOp BAdd (EOp BAdd (ELet 2 (HNth 1 (ELit 0) 2) (EOp BAdd (ECallS 2 2) (EField 2 1)) (ELit 0)) (ELet 3 (HNth 1 (ELit 0) 2) (EOp BAdd (ERetH 3) (ECallS 2 3)) (ELit 7))) (ELit 0)))].
Definition k2_ival : list ((N * N) * N) := [((0, 0), 0); ((0, 1), 2); ((0, 2), 3); ((1, 0), 3); ((1, 1), 3); ((1, 2), 0); ((2, 0), 3); ((2, 1), 2); ((2, 2), 3)].
Definition k2_idur : list ((N * N) * N) := [].
Definition k2_ops : list op := [OSet (0, 0) 1 None; OGet (4, (2, 0)); OSet (0, 0) 0 None; OGet (4, (0, 0))].
Definition k2_nk : N := 3.
Definition k2_idhash (v : val) : N := v.

Definition k3_nodes : list ((N * N) * expr) := [((2, 1), (ELet 0 HSelf (EOp BAdd (EOp BAdd (ECallS 3 0) (EField 0 1)) (ELit 1)) (ELit 0))); ((1, 2), (EOp BAdd (ELit 0) (EIf (ELit 1) (ELet 3 (HNew (ELit 1) (ELit 2) (EInp 1 2)) (EOp BAdd (EOp BAdd (EIf (EInp 0 0) (ESpecify 3 3 (EOp BMax (EInp 1 0) (EInp 0 1))) (ELit 0)) (ERetH 3)) (ECallS 2 3)) (ELit 0)) (ELit 0))))].
Definition k3_ival : list ((N * N) * N) := [((0, 0), 0); ((0, 1), 3); ((0, 2), 2); ((1, 0), 1); ((1, 1), 2); ((1, 2), 3); ((2, 0), 2); ((2, 1), 0); ((2, 2), 3)].
Definition k3_idur : list ((N * N) * N) := [((1, 2), 2); ((2, 1), 0)].
Definition k3_ops : list op := [OSet (0, 0) 1 None; OGet (1, (2, 0)); OSet (0, 0) 0 None; OGet (1, (2, 0))].
Definition k3_nk : N := 3.
Definition k3_idhash (v : val) : N := v mod 2.

Definition coll2_nodes : list ((N * N) * expr) := [((1, 0), (EIf (EInp 0 0) (EOp BAdd (ELet 2 (HNew (ELit 0) (ELit 5) (ELit 0)) (ERetH 2) (ELit 0)) (ELet 3 (HNew (ELit 2) (ELit 6) (ELit 0)) (ERetH 3) (ELit 0))) (EOp BAdd (ELet 3 (HNew (ELit 2) (ELit 6) (ELit 0)) (ERetH 3) (ELit 0)) (ELet 2 (HNew (ELit 0) (ELit 5) (ELit 0)) (ERetH 2) (ELit 0)))))].
Definition coll2_ival : list ((N * N) * N) := [((0, 0), 1)].
Definition coll2_idur : list ((N * N) * N) := [].
Definition coll2_ops : list op := [OGet (1, (0, 0)); OSet (0, 0) 0 None; OGet (1, (0, 0))].
Definition coll2_nk : N := 2.
Definition coll2_idhash (v : val) : N := v mod 2.

Definition coll0_nodes : list ((N * N) * expr) := [((1, 0), (EIf (EInp 0 0) (EOp BAdd (ELet 2 (HNew (ELit 0) (ELit 5) (ELit 0)) (ERetH 2) (ELit 0)) (ELet 3 (HNew (ELit 2) (ELit 6) (ELit 0)) (ERetH 3) (ELit 0))) (EOp BAdd (ELet 3 (HNew (ELit 2) (ELit 6) (ELit 0)) (ERetH 3) (ELit 0)) (ELet 2 (HNew (ELit 0) (ELit 5) (ELit 0)) (ERetH 2) (ELit 0)))))].
Definition coll0_ival : list ((N * N) * N) := [((0, 0), 1)].
Definition coll0_idur : list ((N * N) * N) := [].
Definition coll0_ops : list op := [OGet (1, (0, 0)); OSet (0, 0) 0 None; OGet (1, (0, 0))].
Definition coll0_nk : N := 2.
Definition coll0_idhash (v : val) : N := v.


(* ---- C10: the deviation classes, on the model (= the implementation, checks/C10.py) ---- *)

(* K1: the creator computes spec(s) through a callee, then specifies it.  Fresh database: the
   computed value is kept (7).  Incremental: the callee is only validated in revision 2, the
   specify overwrites the stale Derived memo, the reader sees the specified value (8). *)
Example k1_model_vs_from_scratch :
  let '(s, outs) := run_case k1_nodes k1_ival k1_idur k1_ops k1_nk k1_idhash in
  nth_error outs 2 = Some (SOk (8, [])) /\
  spec_after k1_nodes k1_nk s (4, (1, 0)) = SOk (7, []).
Proof. vm_compute. split; reflexivity. Qed.

(* K2: the creator stops specifying; the body recomputes a value equal to the assigned one with
   older inputs: the backdate assertion fires (debug builds), a fresh database returns 7. *)
Example k2_model_vs_from_scratch :
  let '(s, outs) := run_case k2_nodes k2_ival k2_idur k2_ops k2_nk k2_idhash in
  nth_error outs 3 = Some (SPanic PBackdate) /\
  spec_after k2_nodes k2_nk s (4, (0, 0)) = SOk (7, []).
Proof. vm_compute. split; reflexivity. Qed.

(* K3: the creator stops specifying; spec(s) recomputes to a different value whose changed_at is
   old; ontr(s), which read the assigned value, is validated: 7 instead of 4. *)
Example k3_model_vs_from_scratch :
  let '(s, outs) := run_case k3_nodes k3_ival k3_idur k3_ops k3_nk k3_idhash in
  nth_error outs 3 = Some (SOk (7, [(0, 0)])) /\
  (exists nm, spec_after k3_nodes k3_nk s (1, (2, 0)) = SOk (4, nm)).
Proof. vm_compute. split; [reflexivity | eexists; reflexivity]. Qed.

(* the full C10 statement (results equal a fresh evaluation, with specify) is FALSE of the
   transcribed algorithm *)
Definition from_scratch_with_specify : Prop :=
  forall nodes ival idur ops nk idhash i q v hs,
    nth_error ops i = Some (OGet q) ->
    nth_error (snd (run_case nodes ival idur ops nk idhash)) i = Some (SOk (v, hs)) ->
    exists nm, spec_after nodes nk (fst (run_case nodes ival idur (firstn (S i) ops) nk idhash)) q = SOk (v, nm).

Lemma k1_fresh_value :
  spec_after k1_nodes k1_nk (fst (run_case k1_nodes k1_ival k1_idur (firstn 3 k1_ops) k1_nk k1_idhash)) (4, (1, 0))
  = SOk (7, []).
Proof. vm_compute. reflexivity. Qed.

Lemma k1_incremental_value :
  nth_error (snd (run_case k1_nodes k1_ival k1_idur k1_ops k1_nk k1_idhash)) 2 = Some (SOk (8, [])).
Proof. vm_compute. reflexivity. Qed.

Theorem from_scratch_with_specify_refuted : ~ from_scratch_with_specify.
Proof.
  intros H.
  destruct (H k1_nodes k1_ival k1_idur k1_ops k1_nk k1_idhash 2%nat (4, (1, 0)) 8 [] eq_refl k1_incremental_value)
    as (nm & E).
  rewrite k1_fresh_value in E. discriminate.
Qed.

(* ---- C06: identity-HASH collisions of different identity values ---- *)
(* creations [0; 2] then [2; 0]: per-identity-value order unchanged.  With an injective hash the
   ids are kept (swapped in the result); with hash = value mod 2 both structs get a new
   generation: C06_stable is stated per hash class. *)
Example collision_changes_ids :
  nth_error (snd (run_case coll2_nodes coll2_ival coll2_idur coll2_ops coll2_nk coll2_idhash)) 0
    = Some (SOk (0, [(0, 0); (1, 0)])) /\
  nth_error (snd (run_case coll2_nodes coll2_ival coll2_idur coll2_ops coll2_nk coll2_idhash)) 2
    = Some (SOk (0, [(0, 1); (1, 1)])) /\
  nth_error (snd (run_case coll0_nodes coll0_ival coll0_idur coll0_ops coll0_nk coll0_idhash)) 2
    = Some (SOk (0, [(1, 0); (0, 0)])).
Proof. vm_compute. repeat split; reflexivity. Qed.

(* ---- a machine history exercising every path (non-vacuity of the machine theorems) ---- *)
Definition hmod2 (v : val) : N := v mod 2.
Definition qa : qk := (1, (0, 0)).      (* mk(0) *)
Definition qb : qk := (1, (1, 0)).      (* mk(1) *)
Notation mrun5 := (mrun skind5 sfams5 hmod2 10%nat).

Definition hist1 : list mev :=
  [ MBegin qa; MNew qa 0 5 6; MNew qa 1 7 8; MNew qa 0 9 9; MEnd qa (0, []);     (* slots 0,1,2 *)
    MBegin qb; MNew qb 0 1 1; MEnd qb (0, []);                                    (* slot 3 *)
    MRev;
    MBegin qa; MStamp qa 0 2; MNew qa 0 5 7; MNew qa 3 0 0; MEnd qa (1, []);      (* keeps 0.0; 1 -> identity changed: 1.1; 2.0 discarded *)
    MRev;
    MBegin qb; MNew qb 0 1 1; MNew qb 0 2 2; MEnd qb (0, []);                      (* keeps 3.0; allocates the freed slot: 2.1 *)
    MLock 0 ].

Notation st0 := (init (fun _ => 0) (fun _ => 0), @nil (qk * frame)).

Example hist1_runs :
  match mrun5 st0 hist1 with
  | Some (s, F) =>
      F = [] /\ d_free s = [] /\ d_nslots s = 4 /\
      option_map mids (peek_memo skind5 s (1, 0)) = Some [(0, 0); (1, 1)] /\
      option_map mids (peek_memo skind5 s (1, 1)) = Some [(3, 0); (2, 1)] /\
      map fst (d_ideal s) = [(2, 1); (3, 0); (1, 1); (0, 0); (3, 0); (2, 0); (1, 0); (0, 0)]
  | None => False
  end.
Proof. vm_compute. repeat split; reflexivity. Qed.

Lemma hist1_some : exists st, mrun5 st0 hist1 = Some st.
Proof. vm_compute. eexists. reflexivity. Qed.

Example hist1_invariant : exists s F, mrun5 st0 hist1 = Some (s, F) /\ OInv skind5 s F.
Proof.
  destruct hist1_some as [[s F] E]. exists s, F. split; [exact E|].
  exact (reachable_oinv skind5 sfams5 hmod2 10%nat sfams5_skind _ _ _ _ _ E).
Qed.

(* struct deletion with a memo keyed by the struct: ontr(s) owns a struct of its own *)
Definition qo : qk := (2, (0, 0)).      (* ontr on slot 0 *)
Definition hist2 : list mev :=
  [ MBegin qa; MNew qa 0 1 1; MEnd qa (0, []);                  (* slot 0 *)
    MBegin qo; MNew qo 1 2 2; MEnd qo (0, []);                  (* ontr(0.0) creates slot 1 *)
    MRev;
    MBegin qa; MEnd qa (0, []) ].                               (* mk(0) creates nothing: cascade 0.0 -> ontr memo -> 1.0 *)

Example hist2_cascade :
  match mrun5 st0 hist2 with
  | Some (s, F) =>
      d_free s = [(1, 0); (0, 0)] /\ live_slots s 2 = [] /\
      List.rev (d_log s) = [EvWillDiscard qa (0, 0); EvDiscardS (0, 0); EvDiscardM (2, (0, 0)); EvDiscardS (1, 0)]
  | None => False
  end.
Proof. vm_compute. repeat split; reflexivity. Qed.

(* Structs/SCanon.v — stage S1b with allocator independence: every Get of every history answers
   with the from-scratch value of EVERY consistent world that has the current inputs and cells,
   whatever its allocator: equal data value, and struct lists that correspond position by
   position (same creating query, same identity, same fields).  "From-scratch up to the naming
   of handles." *)
From Salsa Require Import Base.
From Salsa.Kern Require Import CoreK.
From Salsa.Structs Require Import Model Dsl Spec Machine Sim Examples SSem SInv SRun STop STop2 SAdeq SDsl SParam SParamK SSpec S1Examples S1b.

Section Canon.
Variable prog : qk -> body.
Variable skind : N -> bool.
Variable idhash : val -> N.
Variable NF : nat.

Fixpoint gets_canon (fuel : nat) (s : db) (os : list op) : Prop :=
  match os with
  | [] => True
  | o :: os' =>
      let s' := fst (step prog skind [] idhash fuel s o) in
      (match o with
       | OGet q => exists v, snd (step prog skind [] idhash fuel s o) = SOk v /\
                             (forall w', (forall i, w_in (wcur s') i = w_in w' i) -> (forall c, w_cell (wcur s') c = w_cell w' c) ->
                                         wcons prog idhash NF w' q ->
                                         rrel (crel prog idhash NF (wcur s') w' q) v (Ew idhash prog NF w' q)) /\
                             wcons prog idhash NF (wcur s') q /\
                             (forall h, In h (snd v) -> live s' h)
       | _ => True
       end) /\ gets_canon fuel s' os'
  end.

Variable rank : qk -> nat.
Hypothesis Hrank : calls_below prog rank.
Hypothesis Hbound : forall q, (rank q < NF)%nat.
Hypothesis Hpar : parametric prog.

Lemma gets_ok_canon fuel : forall os s, gets_ok prog skind idhash NF fuel s os -> gets_canon fuel s os.
Proof.
  induction os as [|o os IH]; intros s H; [exact Logic.I|].
  cbn [gets_ok gets_canon] in *. destruct H as [Ho Hr]. split; [|exact (IH _ Hr)].
  destruct o as [i v d | d | c v | q | fam q i | ]; try exact Logic.I.
  destruct Ho as (v & Ev & Hv & Hw & Hl). exists v. split; [exact Ev|]. split; [|split; [exact Hw | exact Hl]].
  intros w' Hi Hc Hcw. rewrite Hv.
  exact (allocator_independent prog idhash rank Hrank NF Hbound Hpar (wcur _) w' q Hi Hc Hw Hcw).
Qed.

Lemma gets_canon_prefix fuel : forall os1 s q os2,
  gets_canon fuel s (os1 ++ OGet q :: os2) ->
  let s1 := fst (run_ops prog skind [] idhash fuel s os1) in
  let s' := fst (step prog skind [] idhash fuel s1 (OGet q)) in
  exists v, snd (step prog skind [] idhash fuel s1 (OGet q)) = SOk v /\
            (forall w', (forall i, w_in (wcur s') i = w_in w' i) -> (forall c, w_cell (wcur s') c = w_cell w' c) ->
                        wcons prog idhash NF w' q ->
                        rrel (crel prog idhash NF (wcur s') w' q) v (Ew idhash prog NF w' q)) /\
            wcons prog idhash NF (wcur s') q /\
            (forall h, In h (snd v) -> live s' h).
Proof.
  induction os1 as [|o os1 IH]; intros s q os2 H.
  - cbn [app gets_canon] in H. exact (proj1 H).
  - cbn [app gets_canon] in H. destruct H as [_ H].
    cbv zeta. rewrite run_ops_fst_cons. exact (IH _ q os2 H).
Qed.
End Canon.

Theorem from_scratch_S1b_canon :
  forall (prog : qk -> body) (skind : N -> bool) (idhash : val -> N) (rank : qk -> nat) (NF : nat),
  calls_below prog rank -> (forall q, (rank q < NF)%nat) ->
  no_forge idhash prog -> parametric prog -> (forall q, nospec (prog q)) -> (forall f, skind f = false) ->
  (forall q d, calls (prog q) d -> gk d) -> (forall q d, calls (prog q) d -> first_read (prog d)) ->
  forall fuel iv os,
  s1b_ops prog true os -> 1 + 2 * N.of_nat (length os) < GMAX ->
  Forall2 okout os (snd (run_ops prog skind [] idhash fuel (init iv (fun _ => 0)) os)) ->
  forall os1 q os2, os = os1 ++ OGet q :: os2 ->
  let s1 := fst (run_ops prog skind [] idhash fuel (init iv (fun _ => 0)) os1) in
  let s' := fst (step prog skind [] idhash fuel s1 (OGet q)) in
  exists v, snd (step prog skind [] idhash fuel s1 (OGet q)) = SOk v /\
            (forall w', (forall i, w_in (wcur s') i = w_in w' i) -> (forall c, w_cell (wcur s') c = w_cell w' c) ->
                        wcons prog idhash NF w' q ->
                        rrel (crel prog idhash NF (wcur s') w' q) v (Ew idhash prog NF w' q)) /\
            wcons prog idhash NF (wcur s') q /\
            (forall h, In h (snd v) -> live s' h).
Proof.
  intros prog skind idhash rank NF Hrank Hbound Hprov Hpar Hns Hnk Hgk Hfirst fuel iv os Hops Hb Hok os1 q os2 E.
  apply (gets_canon_prefix prog skind idhash NF fuel os1 _ q os2). rewrite <- E.
  apply (gets_ok_canon prog skind idhash NF rank Hrank Hbound Hpar).
  apply (from_scratch_S1b prog skind idhash rank Hrank NF Hbound Hprov Hgk Hnk Hfirst Hns fuel os _ 0 true).
  - apply init_ok.
  - intros _. apply fresh_init.
  - cbn. unfold REV_START. lia.
  - exact Hb.
  - exact Hops.
  - exact Hok.
Qed.

(* the example programs are parametric *)
Lemma r1_param : parametric (prog_of r1_nk skind0 r1_nodes).
Proof. exact (table_param r1_nk r1_nodes r1_wf). Qed.
Lemma r2_param : parametric (prog_of r1_nk skind0 r2_nodes).
Proof. exact (table_param r1_nk r2_nodes r2_wf). Qed.
Lemma r3_param : parametric (prog_of r1_nk skind0 r3_nodes).
Proof. exact (table_param r1_nk r3_nodes r3_wf). Qed.

(* ---------------------------------------------------------------- the model computes the specification *)
Lemma s1b_ops_get prog : forall os1 b q os2, s1b_ops prog b (os1 ++ OGet q :: os2) -> gk q.
Proof.
  induction os1 as [|o os1 IH]; intros b q os2 H.
  - cbn in H. exact (proj1 (proj1 H)).
  - destruct o; cbn [app s1b_ops] in H; try (destruct H as [_ H]); try contradiction; exact (IH _ _ _ H).
Qed.

(* every Get of every S1b history returns what Structs/Spec.v computes by ONE memo-free evaluation
   on a fresh database holding the current inputs and cells (Spec.spec_get, the oracle of the
   differential checks): the evaluation answers, its data value is the model's, and its i-th
   canonical name (creator, identity value, occurrence) names the creation of the model's i-th
   returned struct. *)
Theorem model_is_spec_S1b :
  forall (prog : qk -> body) (skind : N -> bool) (idhash : val -> N) (rank : qk -> nat) (NF : nat),
  calls_below prog rank -> (forall q, (rank q < NF)%nat) ->
  no_forge idhash prog -> parametricK prog -> (forall q, nospec (prog q)) -> (forall f, skind f = false) ->
  (forall q d, calls (prog q) d -> gk d) -> (forall q d, calls (prog q) d -> first_read (prog d)) ->
  forall fuel iv os,
  s1b_ops prog true os -> 1 + 2 * N.of_nat (length os) < GMAX ->
  Forall2 okout os (snd (run_ops prog skind [] idhash fuel (init iv (fun _ => 0)) os)) ->
  forall os1 q os2, os = os1 ++ OGet q :: os2 ->
  let s1 := fst (run_ops prog skind [] idhash fuel (init iv (fun _ => 0)) os1) in
  let s' := fst (step prog skind [] idhash fuel s1 (OGet q)) in
  exists v names,
    snd (step prog skind [] idhash fuel s1 (OGet q)) = SOk v /\
    spec_get prog skind (snap_of s') NF q = SOk (fst v, names) /\
    Forall2 (fun onm h => exists nm d, onm = Some nm /\ clos idhash prog NF (wcur s') q d /\
                                       cre prog idhash NF (wcur s') d nm h) names (snd v) /\
    (forall n x nms, spec_get prog skind (snap_of s') n q = SOk (x, nms) -> x = fst v).
Proof.
  intros prog skind idhash rank NF Hrank Hbound Hprov Hpar Hns Hnk Hgk Hfirst fuel iv os Hops Hb Hok os1 q os2 E s1 s'.
  destruct (dependents_S1b prog skind idhash rank NF Hrank Hbound Hprov Hns Hnk Hgk Hfirst fuel iv os Hops Hb Hok os1 q os2 E)
    as (v & Ev & Hv & Hw & _).
  fold s1 in Ev, Hv, Hw. fold s' in Hv, Hw.
  assert (Hg : gk q) by (rewrite E in Hops; exact (s1b_ops_get prog os1 true q os2 Hops)).
  assert (Hvw : v = Ew idhash prog NF (wcur s') q).
  { apply Hv; [|exact Hw]. repeat split; reflexivity. }
  destruct (spec_get_total prog skind (snap_of s') rank Hrank Hns NF q (Hbound q)) as (x & names & Es).
  destruct (spec_get_is_Ew prog skind idhash rank Hrank NF Hbound Hpar Hnk Hgk (wcur s') q Hg Hw NF x names Es) as [Hx Hn].
  exists v, names. split; [exact Ev|]. rewrite Hvw. split; [rewrite <- Hx; exact Es|]. split; [exact Hn|].
  intros n x' nms Es'.
  exact (proj1 (spec_get_is_Ew prog skind idhash rank Hrank NF Hbound Hpar Hnk Hgk (wcur s') q Hg Hw n x' nms Es')).
Qed.

Lemma r1_paramK : parametricK (prog_of r1_nk skind0 r1_nodes).
Proof. exact (table_paramK r1_nk r1_nodes r1_wf). Qed.
Lemma r2_paramK : parametricK (prog_of r1_nk skind0 r2_nodes).
Proof. exact (table_paramK r1_nk r2_nodes r2_wf). Qed.

(* the evaluator on the final snapshot of the S1Examples history: mk returns one struct, named
   (creator mk(0), identity value 0, occurrence 0) *)
Example r1_spec_get :
  spec_get (prog_of r1_nk skind0 r1_nodes) skind0
           (snap_of (fst (run_ops (prog_of r1_nk skind0 r1_nodes) skind0 [] r1_idhash 40%nat (init (lookup3 r1_ival) (fun _ => 0)) r1_ops)))
           r1_NF (1, (0, 0)) = SOk (0, [Some (CN 1 (KIn 0) 0 0)]) /\
  spec_get (prog_of r1_nk skind0 r1_nodes) skind0
           (snap_of (fst (run_ops (prog_of r1_nk skind0 r1_nodes) skind0 [] r1_idhash 40%nat (init (lookup3 r1_ival) (fun _ => 0)) r1_ops)))
           r1_NF (4, (0, 0)) = SOk (5, []).
Proof. vm_compute. split; reflexivity. Qed.

(* Structs/SStore.v — the frame rule for storing a memo verified now (after an execution, or
   after a successful verification): the new memo must be ok, every observer of the query must be
   served by it, and the structs the query held must be the ones the new memo lists. *)
From Salsa Require Import Base.
From Salsa.Kern Require Import CoreK CoreKFacts.
From Salsa.Structs Require Import Model ProofsBase ProofsCascade Machine ProofsInv ProofsStep Theorems Guard SimBase SSem SInv SStable SSlots.

Section Store.
Variable prog : qk -> body.
Variable skind : N -> bool.
Variable idhash : val -> N.
Variable rank : qk -> nat.
Hypothesis Hrank : calls_below prog rank.
Variable NF : nat.
Hypothesis Hbound : forall q, (rank q < NF)%nat.
Hypothesis Hprov : no_forge idhash prog.
Hypothesis Hgk : forall q d, calls (prog q) d -> gk d.

Notation Ew := (Ew idhash prog NF).
Notation trw := (trw idhash prog NF).
Notation envw := (envw idhash prog NF).
Notation clos := (clos idhash prog NF).
Notation SInv := (SInv prog skind idhash NF).
Notation smemo_ok := (smemo_ok prog idhash NF).
Notation dval := (dval prog idhash NF).
Notation Er := (Er prog idhash NF).
Notation trr := (trr prog idhash NF).

Lemma qk_eq_dec (a b : qk) : {a = b} + {a <> b}.
Proof. repeat decide equality. Qed.

Lemma gk_loc_eq (d : qk) l : gk d -> loc_of d = l -> d = kq l.
Proof. intros Hg <-. symmetry. apply kq_loc. exact Hg. Qed.

Lemma store_sext s s' l m' :
  d_revs s' = d_revs s -> d_in s' = d_in s -> d_cell s' = d_cell s -> d_slots s' = d_slots s ->
  d_ideal s' = d_ideal s ->
  (forall l0, d_memo s' l0 = upd (d_memo s) l (Some m') l0) ->
  m_verified m' = cur s ->
  (forall m0, d_memo s l = Some m0 -> m_verified m0 < cur s /\ m_changed m0 <= m_changed m') ->
  sext s s'.
Proof.
  intros Hrevs Hin Hcell Hslots Hideal Hmemo Hv Hold.
  assert (Hm_l : d_memo s' l = Some m') by (rewrite Hmemo; apply upd_same).
  assert (Hm_o : forall l0, l0 <> l -> d_memo s' l0 = d_memo s l0).
  { intros l0 Hne. rewrite Hmemo. apply upd_other. congruence. }
  constructor; auto.
  - intros l0 m Hm Hvm. destruct (key_eqb_spec l0 l) as [-> | Hne].
    + destruct (Hold m Hm) as [A _]. lia.
    + rewrite (Hm_o l0 Hne). exact Hm.
  - intros l0 m Hm. destruct (key_eqb_spec l0 l) as [-> | Hne].
    + exists m'. split; [exact Hm_l|]. destruct (Hold m Hm) as [A B]. lia.
    + exists m. split; [rewrite (Hm_o l0 Hne); exact Hm|]. lia.
  - intros i sl Hsl0 _. rewrite Hslots. exact Hsl0.
  - intros l0 m id h _ _ _. rewrite Hslots. apply slot_keeps_refl.
  - intros i sl Hsl0. exists sl. rewrite Hslots. split; [exact Hsl0|]. split; [lia|]. intros _ Hu. repeat split; auto; lia.
  - unfold issued. rewrite Hideal. intros x Hx. exact Hx.
Qed.

Theorem SInv_store Hs s F s' F' l m' :
  SInv Hs s F ->
  d_revs s' = d_revs s -> d_in s' = d_in s -> d_cell s' = d_cell s -> d_slots s' = d_slots s ->
  d_ideal s' = d_ideal s ->
  (forall l0, d_memo s' l0 = upd (d_memo s) l (Some m') l0) ->
  m_verified m' = cur s ->
  (forall m0, d_memo s l = Some m0 -> m_verified m0 < cur s /\ m_changed m0 <= m_changed m') ->
  OInv skind s' F' -> Cons skind s' F' ->
  ~ active_loc F' l ->
  (forall l0, l0 <> l -> (active_loc F' l0 <-> active_loc F l0)) ->
  (forall q fr', In (q, fr') F' -> In (q, fr') F) ->
  ((forall g mg, g <> l -> d_memo s' g = Some mg -> smemo_ok Hs s' F' (kq g) mg) -> sext s s' ->
   smemo_ok Hs s' F' (kq l) m') ->
  (* observers of the query *)
  (forall g mg, d_memo s g = Some mg -> g <> l -> clos (W Hs s (m_verified mg)) (kq g) (kq l) ->
     m_changed m' <= m_verified mg -> Er Hs s (m_verified mg) (kq l) = Er Hs s' (cur s) (kq l)) ->
  (* the structs the query held *)
  (forall id h sl, live_h s h sl -> owned s F (kq l) id h -> In (id, h) (m_structs m')) ->
  (forall q fr id h, In (q, fr) F -> In (mk_entry id h true) (fr_ids fr) -> In (q, fr) F' \/ In (id, h) (m_structs m')) ->
  SInv Hs s' F' /\ sext s s'.
Proof.
  intros I Hrevs Hin Hcell Hslots Hideal Hmemo Hv Hold OI' CO' Hnl Hact HF' Hok' Hobsq Hheld Hentries.
  assert (Hcur : cur s' = cur s) by (unfold cur; rewrite Hrevs; reflexivity).
  assert (Hm_l : d_memo s' l = Some m') by (rewrite Hmemo; apply upd_same).
  assert (Hm_o : forall l0, l0 <> l -> d_memo s' l0 = d_memo s l0).
  { intros l0 Hne. rewrite Hmemo. apply upd_other. congruence. }
  assert (Hlive : forall h sl, live_h s' h sl <-> live_h s h sl).
  { intros h sl. unfold live_h. rewrite Hslots. tauto. }
  assert (Hissued : issued s' = issued s) by (unfold issued; rewrite Hideal; reflexivity).
  assert (X : sext s s').
  { constructor; auto.
    - intros l0 m Hm Hvm. destruct (key_eqb_spec l0 l) as [-> | Hne].
      + destruct (Hold m Hm) as [A _]. lia.
      + rewrite (Hm_o l0 Hne). exact Hm.
    - intros l0 m Hm. destruct (key_eqb_spec l0 l) as [-> | Hne].
      + exists m'. split; [exact Hm_l|]. destruct (Hold m Hm) as [A B].
        pose proof (mo_order _ _ _ _ _ _ _ _ (si_memo _ _ _ _ _ _ _ I l m Hm)). lia.
      + exists m. split; [rewrite (Hm_o l0 Hne); exact Hm|]. lia.
    - intros i sl Hsl0 _. rewrite Hslots. exact Hsl0.
    - intros l0 m id h _ _ _. rewrite Hslots. apply slot_keeps_refl.
    - intros i sl Hsl0. exists sl. rewrite Hslots. split; [exact Hsl0|]. split; [lia|]. intros _ Hu. repeat split; auto; lia.
    - rewrite Hissued. intros x Hx. exact Hx. }
  split; [|exact X].
  assert (Hobs : forall r q, gk q -> r < cur s \/ (r = cur s /\ settled s q) ->
            trr Hs s' r q = trr Hs s r q /\ Er Hs s' r q = Er Hs s r q /\
            (forall d, clos (W Hs s r) q d <-> clos (W Hs s' r) q d)).
  { intros r q Hg Hr. exact (obs_stable prog skind idhash rank Hrank NF Hbound Hprov Hgk Hs s F s' r q I X Hg Hr). }
  assert (Hnot_settled : ~ settled s (kq l)).
  { intros (m0 & Hm0 & Hv0). rewrite loc_kq in Hm0. destruct (Hold m0 Hm0) as [A _]. lia. }
  assert (Hsle : forall c x, sle s c x -> sle s' c x).
  { intros c x. destruct x as [i | d | cc | | id idv f0 f1 | h f | h]; cbn [SInv.sle]; auto.
    - rewrite Hin. auto.
    - intros (md & Hmd & Hle). destruct (key_eqb_spec (loc_of d) l) as [E | Hne].
      + exists m'. rewrite E. split; [exact Hm_l|]. rewrite E in Hmd. destruct (Hold md Hmd) as [_ B]. lia.
      + exists md. split; [rewrite (Hm_o _ Hne); exact Hmd | exact Hle].
    - intros [Hi Hs0]. split; [rewrite Hissued; exact Hi|]. intros sl Hl. apply Hlive in Hl. exact (Hs0 sl Hl). }
  constructor.
  - rewrite Hcur. exact (si_cur _ _ _ _ _ _ _ I).
  - intros i r Hr Hle. rewrite Hin in *. rewrite Hcur in Hle.
    destruct (N.eq_dec r (cur s)) as [-> | Hne].
    + unfold W, Wd. rewrite Hcur, N.ltb_irrefl. cbn. rewrite Hin. reflexivity.
    + rewrite (W_same_cur Hs s s' r Hcur) by lia. exact (si_in _ _ _ _ _ _ _ I i r Hr Hle).
  - intros i. rewrite Hin, Hcur. exact (si_in_le _ _ _ _ _ _ _ I i).
  - intros i. rewrite Hin. exact (si_low _ _ _ _ _ _ _ I i).
  - exact OI'.
  - exact CO'.
  - intros i sl. rewrite Hslots, Hcur. exact (si_slots _ _ _ _ _ _ _ I i sl).
  - intros i sl. rewrite Hslots, Hcur. exact (si_gens _ _ _ _ _ _ _ I i sl).
  - assert (Hothers : forall g mg, g <> l -> d_memo s' g = Some mg -> smemo_ok Hs s' F' (kq g) mg);
      [|intros g mg Hmg'; destruct (key_eqb_spec g l) as [-> | Hne];
        [rewrite Hm_l in Hmg'; injection Hmg' as <-; exact (Hok' Hothers X) | exact (Hothers g mg Hne Hmg')]].
    intros g mg Hne Hmg'.
    pose proof Hmg' as Hmg. rewrite (Hm_o g Hne) in Hmg.
    pose proof (si_memo _ _ _ _ _ _ _ I g mg Hmg) as Hok.
    pose proof (mo_order _ _ _ _ _ _ _ _ Hok) as (Ho1 & Ho2 & Ho3).
    set (v := m_verified mg) in *.
    assert (Hcase : v < cur s \/ (v = cur s /\ settled s (kq g))).
    { destruct (N.eq_dec v (cur s)) as [E | E]; [right | left; lia].
      split; [exact E|]. exists mg. rewrite loc_kq. auto. }
    destruct (Hobs v (kq g) (gk_kq g) Hcase) as (Etr & EE & Eclos).
    assert (Hcl : forall d, clos (W Hs s v) (kq g) d ->
              gk d /\ trr Hs s' v d = trr Hs s v d /\ Er Hs s' v d = Er Hs s v d /\
              (v = cur s -> settled s d)).
    { intros d Hd. pose proof (clos_gk prog idhash NF Hgk _ _ _ (gk_kq g) Hd) as Hgd.
      split; [exact Hgd|].
      assert (Hc' : v < cur s \/ (v = cur s /\ settled s d)).
      { destruct Hcase as [A | [A B]]; [left; exact A | right]. split; [exact A|].
        rewrite A in Hd. rewrite W_cur in Hd.
        exact (proj1 (settled_clos prog skind idhash NF Hgk Hs s F (kq g) I (gk_kq g) B d Hd)). }
      destruct (Hobs v d Hgd Hc') as (A & B & _). split; [exact A|]. split; [exact B|].
      intros E. destruct Hc' as [C | [_ C]]; [lia | exact C]. }
    assert (Hver : forall d md, gk d -> d_memo s (loc_of d) = Some md ->
              Er Hs s' (m_verified md) d = Er Hs s (m_verified md) d).
    { intros d md Hgd Hmd.
      pose proof (mo_order _ _ _ _ _ _ _ _ (memo_ok_of prog skind idhash NF Hs s F d md I Hgd Hmd)) as (_ & _ & Hle).
      assert (Hc' : m_verified md < cur s \/ (m_verified md = cur s /\ settled s d)).
      { destruct (N.eq_dec (m_verified md) (cur s)) as [E | E]; [right | left; lia]. split; [exact E|]. exists md. auto. }
      exact (proj1 (proj2 (Hobs _ d Hgd Hc'))). }
    assert (Hnact : ~ active_loc F' g -> ~ active_loc F g) by (intros A B; apply A; apply (Hact g Hne); exact B).
    (* a query whose memo is somewhere else keeps its allocation *)
    assert (Halloc : forall d id, loc_of d <> l -> w_alloc (W Hs s' v) d id = w_alloc (W Hs s v) d id).
    { intros d id Hd. destruct Hcase as [A | [A _]].
      - rewrite (W_same_cur Hs s s' v Hcur A). reflexivity.
      - rewrite A. rewrite <- Hcur at 1. rewrite !W_cur. cbn [wcur w_alloc]. rewrite (Hm_o _ Hd). reflexivity. }
    assert (Halloc_past : forall d id, v < cur s -> w_alloc (W Hs s' v) d id = w_alloc (W Hs s v) d id).
    { intros d id A. rewrite (W_same_cur Hs s s' v Hcur A). reflexivity. }
    assert (Hloc_g : loc_of (kq g) <> l) by (rewrite loc_kq; exact Hne).
    destruct Hok as [k1 k2 k3 k4 k5 k6 k7 k8 k9 k9b k10 k11 k12 k13].
    fold v in k2, k5, k6, k7, k8, k9b, k10, k11, k12, k13.
    constructor; fold v.
    + rewrite Hcur. auto.
    + rewrite k2. f_equal. symmetry. exact EE.
    + exact k3.
    + exact k4.
    + destruct k5 as [k5a k5b]. split; [exact k5a|]. intros id h. rewrite Etr, (Halloc _ _ Hloc_g). apply k5b.
    + intros i. rewrite Etr. apply k6.
    + intros d. rewrite Etr. apply k7.
    + intros h f. rewrite Etr. apply k8.
    + exact k9.
    + rewrite Etr. exact k9b.
    + intros x. rewrite Etr. apply k10.
    + rewrite loc_kq. intros Hna id h Hinm. rewrite loc_kq in k11.
      destruct (k11 (Hnact Hna) id h Hinm) as (sl & Hl & Hf & Hd & A0 & A1 & Hcs).
      exists sl. split; [apply Hlive; exact Hl|]. split.
      { rewrite Hf. destruct Hcase as [A | [A _]].
        - rewrite (W_same_cur Hs s s' v Hcur A). reflexivity.
        - rewrite A. rewrite <- Hcur at 2. rewrite !W_cur. cbn [wcur w_slot]. rewrite Hslots. reflexivity. }
      split; [exact Hd|]. split; [exact A0|]. split; [exact A1|].
      rewrite Etr. destruct Hcs as [A | (pre & idv & f0 & f1 & post & x & Et & Hx & Hs0)]; [left; exact A | right].
      exists pre, idv, f0, f1, post, x. split; [exact Et|]. split; [exact Hx | exact (Hsle _ _ Hs0)].
    + intros d Hd'. apply Eclos in Hd'. destruct (Hcl d Hd') as (Hgd & Etd & EEd & Hsetd).
      destruct (k12 d Hd') as [a1 a2 a3 a4 a5].
      (* d is the query being stored only if the observer is older *)
      assert (Hdl : loc_of d = l -> v < cur s).
      { intros E. destruct Hcase as [A | [A _]]; [exact A|]. exfalso. apply Hnot_settled.
        rewrite <- (gk_loc_eq d l Hgd E). exact (Hsetd A). }
      assert (Hslot_v : forall h, w_slot (W Hs s' v) h = w_slot (W Hs s v) h).
      { intros h. destruct Hcase as [A | [A _]].
        - rewrite (W_same_cur Hs s s' v Hcur A). reflexivity.
        - rewrite A. rewrite <- Hcur at 1. rewrite !W_cur. cbn [wcur w_slot]. rewrite Hslots. reflexivity. }
      assert (Halloc_d : forall id, w_alloc (W Hs s' v) d id = w_alloc (W Hs s v) d id).
      { intros id. destruct (key_eqb_spec (loc_of d) l) as [E | E]; [apply Halloc_past; exact (Hdl E) | apply Halloc; exact E]. }
      constructor.
      * destruct a1 as (md & Hmd & Hle & Hobs1).
        destruct (key_eqb_spec (loc_of d) l) as [E | E].
        -- exists m'. rewrite E. split; [exact Hm_l|]. split; [rewrite Hv; exact Ho3|].
           intros Hc. rewrite EEd, Hv. rewrite <- Hcur at 1.
           pose proof (gk_loc_eq d l Hgd E) as Ed. rewrite Ed in *.
           rewrite Hcur. exact (Hobsq g mg Hmg Hne Hd' Hc).
        -- exists md. split; [rewrite (Hm_o _ E); exact Hmd|]. split; [exact Hle|].
           intros Hc. rewrite EEd, (Hver d md Hgd Hmd). exact (Hobs1 Hc).
      * intros h f sl' Hinr Hl' Hrev. rewrite Etd in Hinr. rewrite Hslot_v.
        apply Hlive in Hl'. exact (a2 h f sl' Hinr Hl' Hrev).
      * intros h sl' Hinr Hl'. rewrite Etd in Hinr. rewrite Hslot_v. apply Hlive in Hl'. exact (a3 h sl' Hinr Hl').
      * intros id idv f0 f1 Hinr. rewrite Etd in Hinr. rewrite Halloc_d, Hslot_v, Hissued. exact (a4 id idv f0 f1 Hinr).
      * intros id idv f0 f1 sl' Hinr Hl'. rewrite Etd in Hinr. rewrite Halloc_d in *. apply Hlive in Hl'.
        pose proof (a5 id idv f0 f1 sl' Hinr Hl') as Hown.
        destruct (key_eqb_spec (loc_of d) l) as [E | E].
        -- pose proof (gk_loc_eq d l Hgd E) as Ed. rewrite Ed in *.
           left. rewrite loc_kq. split; [exact Hnl|]. exists m'. split; [exact Hm_l|].
           exact (Hheld id _ sl' Hl' Hown).
        -- destruct Hown as [(Hna & md & Hmd & Hinm) | (fr & e & Hinf & Hine & E1 & E2)].
           ++ left. split; [intros A; apply Hna; apply (Hact _ E); exact A|].
              exists md. split; [rewrite (Hm_o _ E); exact Hmd | exact Hinm].
           ++ (* the frame of d is still there: only the frame of the stored query may go *)
              destruct (in_dec qk_eq_dec d (map fst F')) as [Hin' | Hnin'].
              ** apply in_map_iff in Hin'. destruct Hin' as ([d' fr'] & Ed' & Hin'). cbn in Ed'. subst d'.
                 pose proof (HF' _ _ Hin') as Hin0.
                 assert (fr' = fr).
                 { exact (frames_fun F d fr' fr (oi_frames _ _ _ (si_oinv _ _ _ _ _ _ _ I)) Hin0 Hinf). }
                 subst fr'. right. exists fr, e. auto.
              ** exfalso. assert (Ha : active_loc F (loc_of d)) by (exists d, fr; auto).
                 apply (Hact _ E) in Ha. destruct Ha as (q2 & fr2 & Hin2 & El2).
                 pose proof (HF' _ _ Hin2) as Hin02.
                 destruct (frames_fun_loc F q2 d fr2 fr (oi_frames _ _ _ (si_oinv _ _ _ _ _ _ _ I)) Hin02 Hinf El2) as [-> _].
                 apply Hnin'. apply in_map_iff. exists (d, fr2). auto.
    + intros Hvc d Hind. rewrite Hcur in Hvc, Hind.
      assert (Etc : trr Hs s' (cur s) (kq g) = trr Hs s (cur s) (kq g)) by (rewrite <- Hvc; exact Etr).
      rewrite Etc in Hind. destruct (k13 Hvc d Hind) as (md & Hmd & Hvd).
      destruct (key_eqb_spec (loc_of d) l) as [E | E].
      * exfalso. rewrite E in Hmd. destruct (Hold md Hmd) as [A _]. lia.
      * exists md. split; [rewrite (Hm_o _ E); exact Hmd | rewrite Hcur; exact Hvd].
  - intros h sl Hl Hu. apply Hlive in Hl. rewrite Hcur in *.
    destruct (si_lock _ _ _ _ _ _ _ I h sl Hl Hu) as [(l0 & m & id & Hm & Hvm & Hinm) | (q & fr & id & Hinq & Hine)].
    + left. exists l0, m, id. split; [|auto]. destruct (key_eqb_spec l0 l) as [-> | Hne].
      * destruct (Hold m Hm) as [A _]. lia.
      * rewrite (Hm_o l0 Hne). exact Hm.
    + destruct (Hentries q fr id h Hinq Hine) as [A | A].
      * right. exists q, fr, id. auto.
      * left. exists l, m', id. auto.
  - intros q fr' Hinq. pose proof (HF' q fr' Hinq) as Hin0.
    destruct (si_active _ _ _ _ _ _ _ I q fr' Hin0) as [Hg Hlt]. split; [exact Hg|].
    intros m Hm. assert (Hne : loc_of q <> l).
    { intros E. apply Hnl. exists q, fr'. auto. }
    rewrite (Hm_o _ Hne) in Hm. rewrite Hcur. exact (Hlt m Hm).
Qed.

End Store.

(* Structs/SNewInv.v — TS::new preserves the from-scratch invariant and extends the log of the
   running execution by one creation.  The observers of the re-created struct are served either
   because the execution has so far received exactly the answers of the world in which the old
   memo was verified (then the fields are the old ones, and the field-1 revision does not
   decrease), or because the frame's stamp is already later than every observer. *)
From Salsa Require Import Base.
From Salsa.Kern Require Import CoreK CoreKFacts.
From Salsa.Structs Require Import Model ProofsBase ProofsCascade Machine ProofsInv ProofsStep Theorems Guard SimBase SimOps Sim
     SSem SInv SStable SSlots SStore SLock SNew SFrame.

Section NewInv.
Variable prog : qk -> body.
Variable skind : N -> bool.
Variable idhash : val -> N.
Variable rank : qk -> nat.
Hypothesis Hrank : calls_below prog rank.
Variable NF : nat.
Hypothesis Hbound : forall q, (rank q < NF)%nat.
Hypothesis Hprov : no_forge idhash prog.
Hypothesis Hgk : forall q d, calls (prog q) d -> gk d.
Hypothesis Hnk : forall f, skind f = false.

Notation Ew := (Ew idhash prog NF).
Notation trw := (trw idhash prog NF).
Notation envw := (envw idhash prog NF).
Notation clos := (clos idhash prog NF).
Notation SInv := (SInv prog skind idhash NF).
Notation smemo_ok := (smemo_ok prog idhash NF).
Notation dval := (dval prog idhash NF).
Notation Er := (Er prog idhash NF).
Notation trr := (trr prog idhash NF).
Notation FrameOK := (FrameOK prog idhash NF).
Notation OInv := (OInv skind).
Notation owns := (owns skind).

Lemma nofams : forall fam : N, In fam (@nil N) -> skind fam = true.
Proof. intros fam []. Qed.

Lemma peek_nk s l : peek_memo skind s l = d_memo s l.
Proof. unfold Machine.peek_memo. rewrite Hnk. reflexivity. Qed.

(* ownership in terms of the ownership invariant *)
Lemma owned_owns s F d id h : owned s F d id h -> owns s F (OwM (loc_of d)) h \/ owns s F (OwF d) h.
Proof.
  intros [(Hna & md & Hmd & Hin) | (fr & e & Hin & Hine & E1 & E2)].
  - left. exists (mids md). split.
    + split; [exact Hna|]. exists md. rewrite peek_nk. auto.
    + unfold mids. apply in_map_iff. exists (id, h). auto.
  - right. exists (frame_ids fr). split; [exists fr; auto|].
    unfold frame_ids. apply in_map_iff. exists e. auto.
Qed.

(* a handle in the slot of an entry of a running frame is held by that frame only *)
Lemma owned_by_frame s F q fr e d id h :
  OInv s F -> In (q, fr) F -> In e (fr_ids fr) -> fst h = fst (te_id e) -> owned s F d id h ->
  d = q /\ exists e0, In e0 (fr_ids fr) /\ te_ident e0 = id /\ te_id e0 = h.
Proof.
  intros OI Hq He Hfst Ho.
  assert (Hoe : owns s F (OwF q) (te_id e)).
  { exists (frame_ids fr). split; [exists fr; auto|]. unfold frame_ids. apply in_map_iff. exists e. auto. }
  destruct Ho as [(Hna & md & Hmd & Hin) | (fr0 & e0 & Hin0 & Hine0 & E1 & E2)].
  - exfalso. assert (Hom : owns s F (OwM (loc_of d)) h).
    { exists (mids md). split; [split; [exact Hna|]; exists md; rewrite peek_nk; auto|].
      unfold mids. apply in_map_iff. exists (id, h). auto. }
    pose proof (oi_uniq _ _ _ OI _ _ _ _ Hom Hoe Hfst) as E. discriminate.
  - assert (Hof : owns s F (OwF d) h).
    { exists (frame_ids fr0). split; [exists fr0; auto|]. unfold frame_ids. apply in_map_iff. exists e0. auto. }
    pose proof (oi_uniq _ _ _ OI _ _ _ _ Hof Hoe Hfst) as E. injection E as ->.
    pose proof (frames_fun F q fr0 fr (oi_frames _ _ _ OI) Hin0 Hq) as ->.
    split; [reflexivity|]. exists e0. auto.
Qed.

(* the structs of a memo whose query is not running are not in the slot of a frame entry *)
Lemma memo_struct_other s F Hs q fr e l m id h :
  SInv Hs s F -> In (q, fr) F -> In e (fr_ids fr) ->
  d_memo s l = Some m -> ~ active_loc F l -> In (id, h) (m_structs m) -> fst h <> fst (te_id e).
Proof.
  intros I Hq He Hm Hna Hin Hfst.
  pose proof (si_oinv _ _ _ _ _ _ _ I) as OI.
  assert (Ho : owned s F (kq l) id h).
  { left. rewrite loc_kq. split; [exact Hna|]. exists m. auto. }
  destruct (owned_by_frame s F q fr e (kq l) id h OI Hq He Hfst Ho) as [E _].
  apply Hna. exists q, fr. split; [exact Hq|]. rewrite <- E. apply loc_kq.
Qed.

(* handles never issued are not read or created in any observed world *)
Lemma observed_issued Hs s F l m d h :
  SInv Hs s F -> d_memo s l = Some m -> clos (W Hs s (m_verified m)) (kq l) d ->
  uses idhash (envw (W Hs s (m_verified m)) d) (prog d) [] h -> In h (issued s).
Proof.
  intros I Hm Hd Hu.
  destruct (creator_exists idhash prog rank Hrank NF Hbound Hprov _ (S (rank d)) d h (le_n _) Hu)
    as (A & HcA & (id & idv & f0 & f1 & Hin & ->)).
  pose proof (si_memo _ _ _ _ _ _ _ I l m Hm) as Hok.
  pose proof (mo_obs _ _ _ _ _ _ _ _ Hok A (clos_trans _ _ _ _ _ _ _ Hd HcA)) as Hdv.
  exact (proj2 (dv_new _ _ _ _ _ _ _ _ Hdv id idv f0 f1 Hin)).
Qed.

(* the creator of a handle that an observed query reads, when the handle sits in the slot of an
   entry of a running frame: the running query, observed no later than its memo's verified_at *)
Lemma observed_creator Hs s F q fr e l m d h sl :
  SInv Hs s F -> In (q, fr) F -> In e (fr_ids fr) -> fst h = fst (te_id e) -> live_h s h sl ->
  d_memo s l = Some m -> clos (W Hs s (m_verified m)) (kq l) d ->
  uses idhash (envw (W Hs s (m_verified m)) d) (prog d) [] h ->
  clos (W Hs s (m_verified m)) (kq l) q /\
  exists o, d_memo s (loc_of q) = Some o /\ m_verified m <= m_verified o /\
            exists e0, In e0 (fr_ids fr) /\ te_id e0 = h /\
              exists idv f0 f1, In (RNew (te_ident e0) idv f0 f1) (trr Hs s (m_verified m) q) /\
                                h = w_alloc (W Hs s (m_verified m)) q (te_ident e0).
Proof.
  intros I Hq He Hfst Hl Hm Hd Hu.
  destruct (creator_exists idhash prog rank Hrank NF Hbound Hprov _ (S (rank d)) d h (le_n _) Hu)
    as (A & HcA & (id & idv & f0 & f1 & Hin & Eh)).
  pose proof (si_memo _ _ _ _ _ _ _ I l m Hm) as Hok.
  pose proof (clos_trans _ _ _ _ _ _ _ Hd HcA) as HclA.
  pose proof (mo_obs _ _ _ _ _ _ _ _ Hok A HclA) as Hdv.
  rewrite Eh in Hl, Hfst.
  pose proof (dv_own _ _ _ _ _ _ _ _ Hdv id idv f0 f1 sl Hin Hl) as Ho.
  destruct (owned_by_frame s F q fr e A id _ (si_oinv _ _ _ _ _ _ _ I) Hq He Hfst Ho) as [-> (e0 & He0 & E1 & E2)].
  split; [exact HclA|].
  destruct (dv_memo _ _ _ _ _ _ _ _ Hdv) as (o & Ho' & Hle & _).
  exists o. split; [exact Ho'|]. split; [exact Hle|].
  exists e0. split; [exact He0|]. split; [congruence|].
  exists idv, f0, f1. rewrite E1. split; [exact Hin | exact Eh].
Qed.

(* the position of a creation in a trace is determined by its identity *)
Lemma news_pos_unique_eq id a b c a' b' c' : forall p1 r1 p2 r2,
  NoDup (news_ids (p1 ++ RNew id a b c :: r1)) ->
  p1 ++ RNew id a b c :: r1 = p2 ++ RNew id a' b' c' :: r2 -> p1 = p2.
Proof.
  induction p1 as [|x p1 IH]; intros r1 p2 r2 Hnd E.
  - destruct p2 as [|y p2]; [reflexivity|]. exfalso. cbn [app] in E. injection E as <- E.
    cbn [app news_ids flat_map] in Hnd. inversion Hnd as [|? ? Hni _]; subst. apply Hni.
    apply in_news_ids. exists a', b', c'. apply in_or_app. right. left. reflexivity.
  - destruct p2 as [|y p2].
    + exfalso. cbn [app] in E. injection E as -> E.
      cbn [app news_ids flat_map] in Hnd. inversion Hnd as [|? ? Hni _]; subst. apply Hni.
      apply in_news_ids. exists a, b, c. apply in_or_app. right. left. reflexivity.
    + cbn [app] in E. injection E as <- E. f_equal. apply (IH r1 p2 r2); [|exact E].
      cbn [app news_ids flat_map] in Hnd. exact (nodup_app_r _ _ Hnd).
Qed.

Lemma news_pos_unique (t : list rd) id a b c a' b' c' p1 r1 p2 r2 :
  NoDup (news_ids t) -> t = p1 ++ RNew id a b c :: r1 -> t = p2 ++ RNew id a' b' c' :: r2 -> p1 = p2.
Proof.
  intros Hnd E1 E2. rewrite E1 in Hnd. rewrite E1 in E2.
  exact (news_pos_unique_eq id a b c a' b' c' p1 r1 p2 r2 Hnd E2).
Qed.

(* the stamp of a logged read is below the frame's stamp *)
Lemma sle_lok_le s fr pre x a c :
  lok s fr pre (x, a) -> sle s c x -> c <= cur s -> fr_changed fr <= cur s -> c <= fr_changed fr.
Proof.
  unfold lok. cbn [fst snd]. destruct x as [i | d | cc | | id idv f0 f1 | h f | h]; cbn [SInv.sle].
  - intros (_ & _ & Hle) Hc _ _. lia.
  - intros (_ & md & Hmd & _ & _ & Hle & _) (md' & Hmd' & Hc) _ _. rewrite Hmd in Hmd'. injection Hmd' as <-. lia.
  - intros (_ & _ & E) _ Hc _. lia.
  - intros (_ & _ & E) _ Hc _. lia.
  - intros _ [].
  - intros (sl & _ & Hl & _ & _ & Hle) [_ Hc] _ _. specialize (Hc sl Hl). lia.
  - intros _ [].
Qed.

(* while the execution has received the answers of the old world, re-creating a seeded struct
   finds the old fields, the old handle, and a field-1 revision below the frame's stamp *)
Lemma agree_recreate Hs s F q o fr log idv f0 f1 k dis e sl :
  SInv Hs s F -> In (q, fr) F ->
  FrameOK Hs s q (Some o) fr log (NewStruct idv f0 f1 k) dis ->
  agrees (envw (W Hs s (m_verified o)) q) log ->
  In e (fr_ids fr) -> te_ident e = nident idhash dis idv ->
  In (te_ident e, te_id e) (m_structs o) ->
  live_h s (te_id e) sl -> slot_fields sl = w_slot (W Hs s (m_verified o)) (te_id e) ->
  sl_rev1 sl <= m_verified o ->
  cstamp s (trr Hs s (m_verified o) q) (te_ident e) (sl_rev1 sl) ->
  slot_fields sl = (idv, f0, f1) /\ sl_rev1 sl <= fr_changed fr /\
  w_alloc (W Hs s (m_verified o)) q (nident idhash dis idv) = te_id e.
Proof.
  intros I Hq FO Hag He Hid Hseed Hl Hfields Hr1 Hcs.
  destruct (si_active _ _ _ _ _ _ _ I q fr Hq) as [Hgq Hlt].
  pose proof (fo_old _ _ _ _ _ _ _ _ _ _ _ FO) as Hold.
  pose proof (memo_ok_of prog skind idhash NF Hs s F q o I Hgq Hold) as Hok.
  pose proof (mo_order _ _ _ _ _ _ _ _ Hok) as (_ & _ & Hvle).
  set (v := m_verified o) in *. set (id := nident idhash dis idv) in *.
  destruct (fo_tr _ _ _ _ _ _ _ _ _ _ _ FO _ Hag) as [Htr _]. cbn [trace] in Htr. fold id in Htr.
  assert (Htr' : trr Hs s v q = map fst log ++ RNew id idv f0 f1 :: trace idhash (envw (W Hs s v) q) (k (e_new (envw (W Hs s v) q) id)) (cnt_bump dis (idhash idv))).
  { exact Htr. }
  assert (Hin : In (RNew id idv f0 f1) (trr Hs s v q)).
  { rewrite Htr'. apply in_or_app. right. left. reflexivity. }
  pose proof (mo_obs _ _ _ _ _ _ _ _ Hok q (clos_refl _ _ _ _ _)) as Hdv.
  destruct (dv_new _ _ _ _ _ _ _ _ Hdv id idv f0 f1 Hin) as [Hargs _].
  assert (Halloc : w_alloc (W Hs s v) q id = te_id e).
  { assert (Hin1 : In (id, w_alloc (W Hs s v) q id) (m_structs o)).
    { apply (proj2 (mo_structs _ _ _ _ _ _ _ _ Hok)). split; [apply in_news_ids; eauto | reflexivity]. }
    assert (Hnd : NoDup (map fst (m_structs o))) by exact (proj1 (mo_structs _ _ _ _ _ _ _ _ Hok)).
    rewrite Hid in Hseed.
    rewrite <- (assoc_id_nodup _ _ _ Hnd Hin1). exact (assoc_id_nodup _ _ _ Hnd Hseed). }
  split; [rewrite Hfields, <- Halloc; exact Hargs|]. split; [|exact Halloc].
  rewrite Hid in Hcs.
  destruct Hcs as [A | (pre & idv' & f0' & f1' & post & x & Et & Hx & Hs0)].
  - pose proof (fo_ge1 _ _ _ _ _ _ _ _ _ _ _ FO). lia.
  - assert (Epre : pre = map fst log).
    { apply (news_pos_unique (trr Hs s v q) id idv' f0' f1' idv f0 f1 pre post (map fst log) _ (trace_news_nodup idhash _ _ _) Et Htr'). }
    subst pre. apply in_map_iff in Hx. destruct Hx as ([x' a] & Ex & Hxa). cbn in Ex. subst x'.
    apply in_split in Hxa. destruct Hxa as (l1 & l2 & El).
    pose proof (fo_logged _ _ _ _ _ _ _ _ _ _ _ FO l1 (x, a) l2 El) as Hlok.
    apply (sle_lok_le s fr l1 x a _ Hlok Hs0); [lia | exact (fo_le _ _ _ _ _ _ _ _ _ _ _ FO)].
Qed.

Lemma ideal_get_in l h x : ideal_get l h = Some x -> In h (map fst l).
Proof.
  induction l as [|[h' y] l IH]; cbn [ideal_get map fst]; [discriminate|].
  destruct (handle_eqb h' h) eqn:E; [apply handle_eqb_eq in E; left; exact E | right; exact (IH H)].
Qed.

Lemma live_issued s F h sl : OInv s F -> live_h s h sl -> In h (issued s).
Proof.
  intros OI (Hs & Hu & Hg). pose proof (oi_ideal _ _ _ OI _ sl Hs Hu) as Hi.
  unfold issued. apply (ideal_get_in _ _ (slot_fields sl)). destruct h as [i g]. cbn in *. subst g. exact Hi.
Qed.

(* a handle of a later generation than the slot's, or in a slot never allocated, was never issued *)
Lemma later_not_issued s F h sl : OInv s F -> d_slots s (fst h) = Some sl -> sl_gen sl < snd h -> ~ In h (issued s).
Proof.
  intros OI Hs Hlt Hin. unfold issued in Hin. apply in_map_iff in Hin. destruct Hin as ([[i g] y] & Eh & Hin).
  cbn in Eh. subst h. destruct (oi_issued _ _ _ OI i g y Hin) as (sl0 & Hs0 & Hle). cbn in *.
  rewrite Hs in Hs0. injection Hs0 as <-. lia.
Qed.

Lemma unalloc_not_issued s F h : OInv s F -> d_slots s (fst h) = None -> ~ In h (issued s).
Proof.
  intros OI Hs Hin. unfold issued in Hin. apply in_map_iff in Hin. destruct Hin as ([[i g] y] & Eh & Hin).
  cbn in Eh. subst h. destruct (oi_issued _ _ _ OI i g y Hin) as (sl0 & Hs0 & _). cbn in *. congruence.
Qed.

(* ---------------------------------------------------------------- one creation *)
Section One.
Variable Hs : hist.
Variables (s : db) (F : frames) (q : qk) (old : option memo) (fr : frame) (log : list lentry).
Variables (idv f0 f1 : val) (k : handle -> body) (dis : list (N * N)) (n : nat).
Variables (s' : db) (h : handle) (fr' : frame) (slnew : slot).
Hypothesis I : SInv Hs s F.
Hypothesis Hq : In (q, fr) F.
Hypothesis FO : FrameOK Hs s q old fr log (NewStruct idv f0 f1 k) dis.
Hypothesis Hlogne : log <> [].
Hypothesis Hsl : forall j, d_slots s' j = updN (d_slots s) (fst h) (Some slnew) j.
Hypothesis HNF : ns_frame s s'.
Hypothesis Hideal : d_ideal s' = (h, (idv, f0, f1)) :: d_ideal s.
Hypothesis Hstamp : stamp_frame fr fr' (idhash idv).
Hypothesis Hcase : ns_case idhash idv f0 f1 fr s s' h fr' slnew.

Let id := nident idhash dis idv.
Let OI := si_oinv _ _ _ _ _ _ _ I.

Lemma one_dis : nident idhash (fr_disamb fr) idv = id.
Proof. unfold id. rewrite (fo_dis _ _ _ _ _ _ _ _ _ _ _ FO). reflexivity. Qed.

Lemma one_dur : fr_dur fr = 0.
Proof. exact (fo_low _ _ _ _ _ _ _ _ _ _ _ FO Hlogne). Qed.

Lemma one_matched_inactive e : In e (fr_ids fr) -> key_eqb (te_ident e) id = true -> te_active e = false.
Proof.
  intros He Hm. apply key_eqb_eq in Hm. destruct (te_active e) eqn:Ea; [|reflexivity]. exfalso.
  pose proof (fo_cnt_act _ _ _ _ _ _ _ _ _ _ _ FO e He Ea) as Hlt. rewrite Hm in Hlt. unfold id, nident in Hlt. cbn in Hlt. lia.
Qed.

(* what the three cases have in common *)
Record ns_sum : Prop := {
  su_notlocked : forall sl, d_slots s (fst h) = Some sl -> sl_updated sl <> Some (cur s);
  su_slnew : slot_fields slnew = (idv, f0, f1) /\ sl_gen slnew = snd h /\ sl_updated slnew = Some (cur s) /\
             sl_dur slnew = 0 /\ sl_rev1 slnew = fr_changed fr /\ sl_rev0 slnew <= cur s;
  su_new_entry : In (mk_entry id h true) (fr_ids fr');
  su_keep : forall e0, In e0 (fr_ids fr) -> fst (te_id e0) <> fst h -> In e0 (fr_ids fr');
  su_back : forall e0, In e0 (fr_ids fr') -> e0 = mk_entry id h true \/ (In e0 (fr_ids fr) /\ fst (te_id e0) <> fst h);
  su_unowned : forall o0 h0, owns s F o0 h0 -> fst h0 = fst h -> o0 = OwF q;
  su_obs : ~ In h (issued s) \/
           (exists sl e, live_h s h sl /\ In e (fr_ids fr) /\ te_id e = h /\ te_ident e = id /\ sl_idv sl = idv /\
              sl_rev0 sl <= sl_rev0 slnew /\ sl_rev1 sl <= sl_rev1 slnew /\
              forall o, old = Some o -> forall v f, v <= m_verified o -> revf slnew f <= v ->
                fldv slnew f = fldv sl f /\ revf sl f <= v);
  su_gen : forall sl, d_slots s (fst h) = Some sl -> sl_gen sl <= sl_gen slnew /\
           (sl_gen slnew = sl_gen sl -> sl_updated sl <> None);
  su_gen_lt : sl_gen slnew < cur s;
  su_idents : NoDup (map te_ident (fr_ids fr'));
  su_ident_keep : forall e0, In e0 (fr_ids fr) -> exists e1, In e1 (fr_ids fr') /\ te_ident e1 = te_ident e0;
  su_div : forall o, old = Some o -> agrees (envw (W Hs s (m_verified o)) q) log ->
           w_alloc (W Hs s (m_verified o)) q id = h
}.

Lemma upd_slot_low sl g now keep :
  sl_dur sl = 0 ->
  upd_slot sl g (fr_dur fr, fr_changed fr) now idv f0 f1 keep =
  {| sl_gen := g; sl_updated := Some now; sl_dur := 0; sl_idv := idv; sl_f0 := f0; sl_f1 := f1;
     sl_rev0 := if sl_f0 sl =? f0 then sl_rev0 sl else fr_changed fr; sl_rev1 := fr_changed fr;
     sl_memos := if keep then sl_memos sl else fun _ => None |}.
Proof.
  intros Hd. unfold upd_slot. cbn [fst snd]. rewrite one_dur, Hd. reflexivity.
Qed.

Lemma one_frame_entry_owner e : In e (fr_ids fr) -> owns s F (OwF q) (te_id e).
Proof. intros He. apply (owns_frame skind s F q fr); [exact Hq|]. unfold frame_ids. apply in_map_iff. exists e. auto. Qed.

(* under agreement, the identity being created is one the old memo lists *)
Lemma one_agree_listed o : old = Some o -> agrees (envw (W Hs s (m_verified o)) q) log ->
  In (id, w_alloc (W Hs s (m_verified o)) q id) (m_structs o).
Proof.
  intros Eold Hag.
  destruct (si_active _ _ _ _ _ _ _ I q fr Hq) as [Hgq _].
  pose proof (fo_old _ _ _ _ _ _ _ _ _ _ _ FO) as Hold. rewrite Eold in Hold.
  pose proof (memo_ok_of prog skind idhash NF Hs s F q o I Hgq Hold) as Hok.
  destruct (fo_tr _ _ _ _ _ _ _ _ _ _ _ FO _ Hag) as [Htr _]. cbn [trace] in Htr.
  apply (proj2 (mo_structs _ _ _ _ _ _ _ _ Hok)). split; [|reflexivity].
  apply in_news_ids. exists idv, f0, f1. unfold SInv.trr, SSem.trw. rewrite Htr. apply in_or_app. right. left. reflexivity.
Qed.

Lemma one_sum : ns_sum.
Proof.
  pose proof (fo_le _ _ _ _ _ _ _ _ _ _ _ FO) as Hfle.
  destruct Hcase as [l1 e l2 sl Eids Hmatch Hnm Eh Eids' Hsl0 Hu Hnl Hidv Eslnew Hfree Hnsl
                    | l1 e l2 sl Eids Hmatch Hnm Eh Eids' Hsl0 Hu Hnl Hidv Eslnew Hfree Hnsl
                    | Hnm Eids' Eslnew Hfree].
  - (* re-created in place *)
    rewrite one_dis in Hmatch, Hnm.
    assert (He : In e (fr_ids fr)) by (rewrite Eids; apply in_or_app; right; left; reflexivity).
    pose proof (one_matched_inactive e He Hmatch) as Hina.
    destruct (fo_seeded _ _ _ _ _ _ _ _ _ _ _ FO e He Hina) as (o & Eold & Hseedin & sl1 & Hl1 & Hf1 & Hd1 & Hr0 & Hr1 & Hcs & Hnl1).
    assert (sl1 = sl).
    { destruct Hl1 as (Hs1 & _). rewrite <- Eh in Hs1. rewrite Hsl0 in Hs1. injection Hs1; auto. }
    subst sl1.
    pose proof (upd_slot_low sl (sl_gen sl) (cur s) true Hd1) as Eu. rewrite <- Eslnew in Eu.
    destruct (si_active _ _ _ _ _ _ _ I q fr Hq) as [Hgq Hlt].
    pose proof (fo_old _ _ _ _ _ _ _ _ _ _ _ FO) as Hold. rewrite Eold in Hold.
    pose proof (mo_order _ _ _ _ _ _ _ _ (memo_ok_of prog skind idhash NF Hs s F q o I Hgq Hold)) as (_ & _ & Hvle).
    specialize (Hlt o Hold).
    assert (Hid : te_ident e = id) by (apply key_eqb_eq; exact Hmatch).
    (* agreement so far, or the stamp is already late *)
    assert (Hdiv : (slot_fields sl = (idv, f0, f1) /\ sl_rev1 sl <= fr_changed fr) \/ m_verified o < fr_changed fr).
    { destruct (fo_div _ _ _ _ _ _ _ _ _ _ _ FO o Eold) as [Hag | Hlate]; [left | right; exact Hlate].
      rewrite Eold in FO.
      destruct (agree_recreate Hs s F q o fr log idv f0 f1 k dis e sl I Hq FO Hag He Hid Hseedin) as (A & B & _); auto. }
    assert (Hf0 : sl_f0 sl =? f0 = false -> m_verified o < fr_changed fr).
    { intros Hne0. destruct Hdiv as [[A _] | A]; [|exact A]. exfalso.
      unfold slot_fields in A. injection A as _ A _. rewrite A, N.eqb_refl in Hne0. discriminate. }
    assert (Hrev0 : sl_rev0 sl <= sl_rev0 slnew).
    { rewrite Eu. cbn. destruct (sl_f0 sl =? f0) eqn:E0; [lia|]. specialize (Hf0 eq_refl). lia. }
    assert (Hrev1 : sl_rev1 sl <= sl_rev1 slnew).
    { rewrite Eu. cbn. destruct Hdiv as [[_ A] | A]; lia. }
    assert (Hlh : live_h s h sl).
    { rewrite Eh. exact Hl1. }
    constructor.
    + intros sl2 Hs2. rewrite Hsl0 in Hs2. injection Hs2 as <-. exact Hnl.
    + rewrite Eu. cbn. repeat split; try reflexivity.
      * destruct Hlh as (_ & _ & Hg). exact Hg.
      * destruct (sl_f0 sl =? f0); lia.
    + rewrite Eids'. apply in_or_app. right. left. unfold act, mk_entry. rewrite Hid, Eh. reflexivity.
    + intros e0 He0 Hfst. rewrite Eids in He0. rewrite Eids'. apply in_app_or in He0. apply in_or_app.
      destruct He0 as [A | [<- | A]]; [left; exact A | exfalso; apply Hfst; rewrite Eh; reflexivity | right; right; exact A].
    + intros e0 He0. rewrite Eids' in He0. apply in_app_or in He0.
      assert (Hnd : NoDup (map fst (frame_ids fr))).
      { apply (oi_nodup _ _ _ OI (OwF q)). exists fr. auto. }
      unfold frame_ids in Hnd. rewrite Eids in Hnd. rewrite !map_app in Hnd. cbn [map] in Hnd.
      destruct He0 as [A | [<- | A]].
      * right. split; [rewrite Eids; apply in_or_app; left; exact A|].
        intros Ef. apply (nodup_app_disj _ _ _ Hnd (in_map fst _ _ (in_map te_id _ _ A))). left. rewrite Eh in Ef. auto.
      * left. unfold act, mk_entry. rewrite Hid, Eh. reflexivity.
      * right. split; [rewrite Eids; apply in_or_app; right; right; exact A|].
        intros Ef. apply nodup_app_r in Hnd. apply NoDup_cons_iff in Hnd. destruct Hnd as [Hni _]. apply Hni.
        rewrite Eh in Ef. rewrite <- Ef. exact (in_map fst _ _ (in_map te_id _ _ A)).
    + intros o0 h0 Ho0 Ef. rewrite Eh in Ef. exact (oi_uniq _ _ _ OI _ _ _ _ Ho0 (one_frame_entry_owner e He) Ef).
    + right. exists sl, e. split; [exact Hlh|]. split; [exact He|]. split; [symmetry; exact Eh|]. split; [exact Hid|].
      split; [exact Hidv|]. split; [exact Hrev0|]. split; [exact Hrev1|].
      intros o1 Eo1 v f Hv Hrf. rewrite Eold in Eo1. injection Eo1 as <-.
      unfold revf, fldv in *. rewrite Eu in *. cbn [sl_rev0 sl_rev1 sl_f0 sl_f1] in *.
      destruct (f =? 0).
      * destruct (sl_f0 sl =? f0) eqn:E0.
        -- apply N.eqb_eq in E0. split; [symmetry; exact E0 | exact Hrf].
        -- specialize (Hf0 eq_refl). lia.
      * destruct Hdiv as [[A B] | A]; [|lia]. unfold slot_fields in A. injection A as _ _ A. split; [symmetry; exact A | lia].
    + intros sl2 Hs2. rewrite Hsl0 in Hs2. injection Hs2 as <-. rewrite Eu. cbn. split; [lia | intros _; exact Hu].
    + rewrite Eu. cbn. pose proof (si_gens _ _ _ _ _ _ _ I _ sl Hsl0) as G.
      pose proof (proj2 (si_slots _ _ _ _ _ _ _ I _ sl Hsl0 Hu)) as G2.
      destruct (sl_updated sl) as [r|] eqn:Er; [|contradiction Hu; reflexivity].
      specialize (G2 r eq_refl). lia.
    + rewrite Eids'. pose proof (fo_idents _ _ _ _ _ _ _ _ _ _ _ FO) as Hnd. rewrite Eids in Hnd.
      rewrite !map_app in *. cbn [map act te_ident] in *. exact Hnd.
    + intros e0 He0. rewrite Eids in He0. rewrite Eids'. apply in_app_or in He0.
      destruct He0 as [A | [<- | A]].
      * exists e0. split; [apply in_or_app; left; exact A | reflexivity].
      * exists (act e). split; [apply in_or_app; right; left; reflexivity | reflexivity].
      * exists e0. split; [apply in_or_app; right; right; exact A | reflexivity].
    + intros o1 Eo1 Hag1. rewrite Eold in Eo1. injection Eo1 as <-. pose proof FO as FO1. rewrite Eold in FO1.
      destruct (agree_recreate Hs s F q o fr log idv f0 f1 k dis e sl I Hq FO1 Hag1 He Hid Hseedin Hl1 Hf1 Hr1 Hcs) as (_ & _ & A).
      rewrite Eh. exact A.
  - (* identity changed: the next generation in the same slot *)
    rewrite one_dis in Hmatch, Hnm.
    assert (He : In e (fr_ids fr)) by (rewrite Eids; apply in_or_app; right; left; reflexivity).
    pose proof (one_matched_inactive e He Hmatch) as Hina.
    destruct (fo_seeded _ _ _ _ _ _ _ _ _ _ _ FO e He Hina) as (o & Eold & Hseedin & sl1 & Hl1 & Hf1 & Hd1 & Hr0 & Hr1 & Hcs & Hnl1).
    assert (Ei : fst h = fst (te_id e)) by (rewrite Eh; reflexivity).
    assert (sl1 = sl).
    { destruct Hl1 as (Hs1 & _). rewrite <- Ei in Hs1. rewrite Hsl0 in Hs1. injection Hs1; auto. }
    subst sl1.
    pose proof (upd_slot_low sl (snd h) (cur s) false Hd1) as Eu. rewrite <- Eslnew in Eu.
    destruct (si_active _ _ _ _ _ _ _ I q fr Hq) as [Hgq Hlt].
    pose proof (fo_old _ _ _ _ _ _ _ _ _ _ _ FO) as Hold. rewrite Eold in Hold.
    pose proof (mo_order _ _ _ _ _ _ _ _ (memo_ok_of prog skind idhash NF Hs s F q o I Hgq Hold)) as (_ & _ & Hvle).
    specialize (Hlt o Hold).
    assert (Hid : te_ident e = id) by (apply key_eqb_eq; exact Hmatch).
    assert (Hgen : sl_gen sl < snd h).
    { destruct Hl1 as (_ & _ & Hg). rewrite Hg, Eh. cbn. lia. }
    constructor.
    + intros sl2 Hs2. rewrite Hsl0 in Hs2. injection Hs2 as <-. exact Hnl.
    + rewrite Eu. cbn. repeat split; try reflexivity. destruct (sl_f0 sl =? f0); lia.
    + rewrite Eids'. apply in_or_app. right. left. rewrite one_dis. reflexivity.
    + intros e0 He0 Hfst. rewrite Eids in He0. rewrite Eids'. apply in_app_or in He0. apply in_or_app.
      destruct He0 as [A | [<- | A]]; [left; exact A | exfalso; apply Hfst; symmetry; exact Ei | right; right; exact A].
    + intros e0 He0. rewrite Eids' in He0. apply in_app_or in He0.
      assert (Hnd : NoDup (map fst (frame_ids fr))).
      { apply (oi_nodup _ _ _ OI (OwF q)). exists fr. auto. }
      unfold frame_ids in Hnd. rewrite Eids in Hnd. rewrite !map_app in Hnd. cbn [map] in Hnd.
      destruct He0 as [A | [<- | A]].
      * right. split; [rewrite Eids; apply in_or_app; left; exact A|].
        intros Ef. apply (nodup_app_disj _ _ _ Hnd (in_map fst _ _ (in_map te_id _ _ A))). left. rewrite Ei in Ef. auto.
      * left. rewrite one_dis. reflexivity.
      * right. split; [rewrite Eids; apply in_or_app; right; right; exact A|].
        intros Ef. apply nodup_app_r in Hnd. apply NoDup_cons_iff in Hnd. destruct Hnd as [Hni _]. apply Hni.
        rewrite Ei in Ef. rewrite <- Ef. exact (in_map fst _ _ (in_map te_id _ _ A)).
    + intros o0 h0 Ho0 Ef. rewrite Ei in Ef. exact (oi_uniq _ _ _ OI _ _ _ _ Ho0 (one_frame_entry_owner e He) Ef).
    + left. exact (later_not_issued s F h sl OI Hsl0 Hgen).
    + intros sl2 Hs2. rewrite Hsl0 in Hs2. injection Hs2 as <-. rewrite Eu. cbn. split; [lia | intros E; lia].
    + rewrite Eu. cbn. pose proof (si_gens _ _ _ _ _ _ _ I _ sl Hsl0) as G.
      pose proof (proj2 (si_slots _ _ _ _ _ _ _ I _ sl Hsl0 Hu)) as G2.
      destruct (sl_updated sl) as [r|] eqn:Er; [|contradiction Hu; reflexivity].
      specialize (G2 r eq_refl).
      assert (r <> cur s) by (intros ->; apply Hnl; reflexivity).
      destruct Hl1 as (_ & _ & Hg1). rewrite Eh. cbn. rewrite <- Hg1. lia.
    + rewrite Eids'. pose proof (fo_idents _ _ _ _ _ _ _ _ _ _ _ FO) as Hnd. rewrite Eids in Hnd.
      rewrite !map_app in *. cbn [map mk_entry te_ident] in *. rewrite one_dis. rewrite <- Hid. exact Hnd.
    + intros e0 He0. rewrite Eids in He0. rewrite Eids'. apply in_app_or in He0.
      destruct He0 as [A | [<- | A]].
      * exists e0. split; [apply in_or_app; left; exact A | reflexivity].
      * exists (mk_entry (nident idhash (fr_disamb fr) idv) h true). split; [apply in_or_app; right; left; reflexivity|].
        cbn. rewrite one_dis. symmetry. exact Hid.
      * exists e0. split; [apply in_or_app; right; right; exact A | reflexivity].
    + intros o1 Eo1 Hag1. rewrite Eold in Eo1. injection Eo1 as <-. pose proof FO as FO1. rewrite Eold in FO1. exfalso.
      destruct (agree_recreate Hs s F q o fr log idv f0 f1 k dis e sl I Hq FO1 Hag1 He Hid Hseedin Hl1 Hf1 Hr1 Hcs) as (A & _ & _).
      apply Hidv. unfold slot_fields in A. injection A as A _ _. exact A.
  - (* a fresh slot: from the free list, or never used *)
    rewrite one_dis in Hnm, Eids'.
    assert (Eu : slnew = {| sl_gen := snd h; sl_updated := Some (cur s); sl_dur := 0; sl_idv := idv; sl_f0 := f0; sl_f1 := f1;
                            sl_rev0 := fr_changed fr; sl_rev1 := fr_changed fr; sl_memos := fun _ => None |}).
    { rewrite Eslnew. unfold fresh_slot. cbn [fst snd]. rewrite one_dur. reflexivity. }
    (* the slot is not live *)
    assert (Hdead : (exists sl, d_slots s (fst h) = Some sl /\ sl_updated sl = None /\ sl_gen sl < snd h) \/
                    d_slots s (fst h) = None).
    { destruct Hfree as [(sk & g & Efr & Hng & _) | (-> & _ & _)].
      - left. destruct (oi_free _ _ _ OI (fst h) g) as (sl & Hs0 & Hu0 & Hg0).
        { rewrite Efr. apply in_or_app. right. left. reflexivity. }
        exists sl. split; [exact Hs0|]. split; [exact Hu0|]. apply next_gen_gt in Hng. lia.
      - right. cbn. apply (oi_alloc _ _ _ OI). lia. }
    assert (Hnolive : forall h0 sl0, fst h0 = fst h -> live_h s h0 sl0 -> False).
    { intros h0 sl0 Ef (Hs0 & Hu0 & _). rewrite Ef in Hs0.
      destruct Hdead as [(sl & Hs1 & Hu1 & _) | Hs1]; rewrite Hs1 in Hs0; [injection Hs0 as <-; contradiction | discriminate]. }
    constructor.
    + intros sl2 Hs2. destruct Hdead as [(sl & Hs1 & Hu1 & _) | Hs1]; rewrite Hs1 in Hs2; [|discriminate].
      injection Hs2 as <-. rewrite Hu1. discriminate.
    + rewrite Eu. cbn. repeat split; try reflexivity. exact Hfle.
    + rewrite Eids'. apply in_or_app. right. left. reflexivity.
    + intros e0 He0 _. rewrite Eids'. apply in_or_app. left. exact He0.
    + intros e0 He0. rewrite Eids' in He0. apply in_app_or in He0. destruct He0 as [A | [<- | []]]; [right | left; reflexivity].
      split; [exact A|]. intros Ef.
      destruct (oi_live _ _ _ OI _ _ (one_frame_entry_owner e0 A)) as (sl0 & Hl0).
      exact (Hnolive (te_id e0) sl0 Ef Hl0).
    + intros o0 h0 Ho0 Ef. exfalso. destruct (oi_live _ _ _ OI _ _ Ho0) as (sl0 & Hl0). exact (Hnolive h0 sl0 Ef Hl0).
    + left. destruct Hdead as [(sl & Hs1 & _ & Hg1) | Hs1];
        [exact (later_not_issued s F h sl OI Hs1 Hg1) | exact (unalloc_not_issued s F h OI Hs1)].
    + intros sl2 Hs2. destruct Hdead as [(sl & Hs1 & Hu1 & Hg1) | Hs1]; rewrite Hs1 in Hs2; [|discriminate].
      injection Hs2 as <-. rewrite Eu. cbn. split; [lia | intros E; lia].
    + rewrite Eu. cbn. destruct Hfree as [(sk & g & Efr & Hng & _) | (Eh0 & _ & _)].
      * destruct (oi_free _ _ _ OI (fst h) g) as (sl & Hs0 & Hu0 & Hg0).
        { rewrite Efr. apply in_or_app. right. left. reflexivity. }
        pose proof (si_gens _ _ _ _ _ _ _ I _ sl Hs0) as G. rewrite Hu0 in G. apply next_gen_some in Hng. lia.
      * rewrite Eh0. cbn. pose proof (si_cur _ _ _ _ _ _ _ I). lia.
    + rewrite Eids'. rewrite map_app. cbn [map mk_entry te_ident]. apply nodup_app.
      * exact (fo_idents _ _ _ _ _ _ _ _ _ _ _ FO).
      * constructor; [intros [] | constructor].
      * intros x Hx [<- | []]. apply in_map_iff in Hx. destruct Hx as (e0 & Ee0 & He0).
        pose proof (Hnm e0 He0) as Hk. rewrite Ee0, key_eqb_refl in Hk. discriminate.
    + intros e0 He0. exists e0. split; [rewrite Eids'; apply in_or_app; left; exact He0 | reflexivity].
    + intros o1 Eo1 Hag1. exfalso.
      destruct (fo_seedall _ _ _ _ _ _ _ _ _ _ _ FO o1 id _ Eo1 (one_agree_listed o1 Eo1 Hag1)) as (e0 & He0 & Ee0).
      pose proof (Hnm e0 He0) as Hk. rewrite Ee0, key_eqb_refl in Hk. discriminate.
Qed.

Hypothesis OI' : OInv s' (set_frame F q fr').
Hypothesis CO' : Cons skind s' (set_frame F q fr').

Let F' := set_frame F q fr'.
Let SU := one_sum.

Lemma one_cur : cur s' = cur s.
Proof. unfold cur. rewrite (nf_revs _ _ HNF). reflexivity. Qed.

Lemma one_slot_other j : j <> fst h -> d_slots s' j = d_slots s j.
Proof. intros Hne. rewrite Hsl. apply updN_other. congruence. Qed.

Lemma one_slot_h : d_slots s' (fst h) = Some slnew.
Proof. rewrite Hsl. apply updN_same. Qed.

Lemma one_live_new h0 sl' : fst h0 = fst h -> live_h s' h0 sl' -> h0 = h /\ sl' = slnew.
Proof.
  intros Ef (Hs0 & _ & Hg0). rewrite Ef, one_slot_h in Hs0. injection Hs0 as <-.
  destruct (su_slnew SU) as (_ & Hg & _). split; [|reflexivity].
  rewrite (surjective_pairing h0), (surjective_pairing h). f_equal; [exact Ef | congruence].
Qed.

Lemma one_live_other h0 sl' : fst h0 <> fst h -> (live_h s' h0 sl' <-> live_h s h0 sl').
Proof. intros Hne. unfold live_h. rewrite (one_slot_other _ Hne). tauto. Qed.

Lemma one_memo_owns l m id0 h0 : d_memo s l = Some m -> ~ active_loc F l -> In (id0, h0) (m_structs m) ->
  owns s F (OwM l) h0.
Proof.
  intros Hm Hna Hin. exists (mids m). split; [split; [exact Hna|]; exists m; rewrite peek_nk; auto|].
  unfold mids. apply in_map_iff. exists (id0, h0). auto.
Qed.

Lemma one_memo_other l m id0 h0 : d_memo s l = Some m -> ~ active_loc F l -> In (id0, h0) (m_structs m) -> fst h0 <> fst h.
Proof.
  intros Hm Hna Hin Ef. pose proof (su_unowned SU _ _ (one_memo_owns l m id0 h0 Hm Hna Hin) Ef) as E. discriminate.
Qed.

Lemma one_issued : issued s' = h :: issued s.
Proof. unfold issued. rewrite Hideal. reflexivity. Qed.

Lemma one_act l : active_loc F' l <-> active_loc F l.
Proof. unfold F'. rewrite !active_loc_flocs, flocs_set_frame. tauto. Qed.

Lemma one_in_F' q0 fr0 : In (q0, fr0) F' <-> (q0 = q /\ fr0 = fr') \/ (q0 <> q /\ In (q0, fr0) F).
Proof. exact (in_set_frame F q fr fr' q0 fr0 (oi_frames _ _ _ OI) Hq). Qed.

Lemma one_sext : sext s s'.
Proof.
  constructor.
  - exact (nf_revs _ _ HNF).
  - exact (nf_in _ _ HNF).
  - exact (nf_cell _ _ HNF).
  - intros l m Hm _. rewrite (nf_memo _ _ HNF). exact Hm.
  - intros l m Hm. exists m. rewrite (nf_memo _ _ HNF). split; [exact Hm|]. split; lia.
  - intros j sl Hj Hl. rewrite one_slot_other; [exact Hj|]. intros ->. exact (su_notlocked SU sl Hj Hl).
  - intros l m id0 h0 Hm Hv Hin.
    assert (Hna : ~ active_loc F l).
    { rewrite <- (loc_kq l). apply (settled_not_active prog skind idhash NF Hs s F (kq l) I). exists m. rewrite loc_kq. auto. }
    rewrite (one_slot_other _ (one_memo_other l m id0 h0 Hm Hna Hin)). apply slot_keeps_refl.
  - intros j sl Hj. destruct (N.eq_dec j (fst h)) as [-> | Hne].
    + exists slnew. split; [exact one_slot_h|]. destruct (su_gen SU sl Hj) as [Hle Hsame]. split; [exact Hle|].
      intros Hg _. specialize (Hsame Hg). split; [exact Hsame|].
      destruct (su_slnew SU) as (Hf & Hgn & _).
      assert (Hl : live_h s h sl) by (split; [exact Hj|]; split; [exact Hsame | congruence]).
      destruct (su_obs SU) as [Hni | (sl0 & e & Hl0 & _ & _ & _ & Hidv & A & B & _)].
      * exfalso. exact (Hni (live_issued s F h sl OI Hl)).
      * assert (sl0 = sl) by (destruct Hl0 as (E0 & _); rewrite Hj in E0; injection E0; auto). subst sl0.
        split; [exact A|]. split; [exact B|]. rewrite <- (idv3_slot slnew), Hf. cbn. symmetry. exact Hidv.
    + exists sl. rewrite (one_slot_other _ Hne). split; [exact Hj|]. split; [lia|]. intros _ Hu. repeat split; auto; lia.
  - rewrite one_issued. intros x Hx. right. exact Hx.
Qed.

Lemma one_sinv : SInv Hs s' F'.
Proof.
  pose proof one_sext as X. pose proof one_cur as Hcur.
  apply (SInv_slots prog skind idhash rank Hrank NF Hbound Hprov Hgk Hs s F s' F' (fun h0 => fst h0 = fst h) I X (nf_memo _ _ HNF) OI' CO').
  - intros h0. destruct (N.eq_dec (fst h0) (fst h)); auto.
  - intros l. apply one_act.
  - intros d Hd A. apply one_act in A. exact (settled_not_active prog skind idhash NF Hs s F d I Hd A).
  - intros q0 fr0 Hin. apply one_in_F' in Hin.
    destruct Hin as [[-> _] | [_ Hin]]; [exact (si_active _ _ _ _ _ _ _ I q fr Hq) | exact (si_active _ _ _ _ _ _ _ I q0 fr0 Hin)].
  - intros h0 sl' Hnp Hl. apply (one_live_other h0 sl' Hnp) in Hl. exists sl'. split; [exact Hl|]. repeat split; reflexivity.
  - intros l m id0 h0 Hm Hna Hin. pose proof (one_memo_other l m id0 h0 Hm Hna Hin) as Hne. split; [exact Hne|].
    rewrite (one_slot_other _ Hne). apply slot_keeps_refl.
  - intros d id0 h0 sl' _ Hnp _ Ho. destruct Ho as [(Hna & md & Hmd & Hin) | (fr0 & e0 & Hin0 & Hine0 & E1 & E2)].
    + left. split; [intros A; apply Hna; apply one_act; exact A|]. exists md. rewrite (nf_memo _ _ HNF). auto.
    + right. destruct (qk_eq_dec d q) as [-> | Hne].
      * pose proof (frames_fun F q fr0 fr (oi_frames _ _ _ OI) Hin0 Hq) as ->.
        exists fr', e0. split; [apply one_in_F'; left; auto|]. split; [|auto].
        apply (su_keep SU e0 Hine0). rewrite E2. exact Hnp.
      * exists fr0, e0. split; [apply one_in_F'; right; auto | auto].
  - (* observers of a field of the new struct *)
    intros l m d h0 f sl' Hm Hv Hd Hin Ef Hl' Hrev. destruct (one_live_new h0 sl' Ef Hl') as [-> ->].
    assert (Hu : uses idhash (envw (W Hs s (m_verified m)) d) (prog d) [] h) by (left; exists f; exact Hin).
    destruct (su_obs SU) as [Hni | (sl & e & Hl & He & Eid & _ & _ & _ & _ & Hobl)].
    { exfalso. exact (Hni (observed_issued Hs s F l m d h I Hm Hd Hu)). }
    destruct (observed_creator Hs s F q fr e l m d h sl I Hq He (f_equal fst (eq_sym Eid)) Hl Hm Hd Hu)
      as (_ & o & Ho & Hle & _).
    rewrite (fo_old _ _ _ _ _ _ _ _ _ _ _ FO) in Ho.
    destruct (Hobl o Ho _ f Hle Hrev) as [Efl Hrf]. rewrite Efl.
    pose proof (si_memo _ _ _ _ _ _ _ I l m Hm) as Hok.
    exact (dv_fld _ _ _ _ _ _ _ _ (mo_obs _ _ _ _ _ _ _ _ Hok d Hd) h f sl Hin Hl Hrf).
  - intros l m d h0 sl' Hm Hv Hd Hin Ef Hl'. destruct (one_live_new h0 sl' Ef Hl') as [-> ->].
    assert (Hu : uses idhash (envw (W Hs s (m_verified m)) d) (prog d) [] h) by (right; left; exact Hin).
    destruct (su_obs SU) as [Hni | (sl & e & Hl & He & Eid & _ & Hidv & _)].
    { exfalso. exact (Hni (observed_issued Hs s F l m d h I Hm Hd Hu)). }
    pose proof (si_memo _ _ _ _ _ _ _ I l m Hm) as Hok.
    rewrite (dv_idf _ _ _ _ _ _ _ _ (mo_obs _ _ _ _ _ _ _ _ Hok d Hd) h sl Hin Hl).
    destruct (su_slnew SU) as (Hf & _). rewrite <- (idv3_slot slnew), Hf. cbn. exact Hidv.
  - intros l m d id0 idv0 f00 f10 sl' Hm Hv Hd Hin Ef Hl'.
    destruct (one_live_new _ sl' Ef Hl') as [Eh ->].
    pose proof (si_memo _ _ _ _ _ _ _ I l m Hm) as Hok.
    pose proof (mo_obs _ _ _ _ _ _ _ _ Hok d Hd) as Hdv.
    destruct (su_obs SU) as [Hni | (sl & e & Hl & He & Eid & Eident & _)].
    { exfalso. apply Hni. rewrite <- Eh. exact (proj2 (dv_new _ _ _ _ _ _ _ _ Hdv id0 idv0 f00 f10 Hin)). }
    rewrite Eh in *.
    assert (Hl0 : live_h s (w_alloc (W Hs s (m_verified m)) d id0) sl) by (rewrite Eh; exact Hl).
    pose proof (dv_own _ _ _ _ _ _ _ _ Hdv id0 idv0 f00 f10 sl Hin Hl0) as Ho. rewrite Eh in Ho.
    destruct (owned_by_frame s F q fr e d id0 h OI Hq He (f_equal fst (eq_sym Eid)) Ho) as [-> (e0 & He0 & E1 & E2)].
    assert (e0 = e).
    { assert (Hnd : NoDup (map te_id (fr_ids fr))).
      { apply (NoDup_map_inv fst). apply (oi_nodup _ _ _ OI (OwF q)). exists fr. auto. }
      apply (map_inj_nodup te_id (fr_ids fr) e0 e Hnd He0 He). congruence. }
    subst e0. right. exists fr', (mk_entry id h true). split; [apply one_in_F'; left; auto|].
    split; [exact (su_new_entry SU)|]. cbn. split; [congruence | reflexivity].
  - intros c h0 f Ef [Hi Hs0]. split; [rewrite one_issued; right; exact Hi|].
    intros sl' Hl'. destruct (one_live_new h0 sl' Ef Hl') as [-> ->].
    destruct (su_obs SU) as [Hni | (sl & e & Hl & _ & _ & _ & _ & A & B & _)]; [contradiction|].
    specialize (Hs0 sl Hl). unfold revf in *. destruct (f =? 0); lia.
  - intros j sl Hj Hu. rewrite Hcur. destruct (N.eq_dec j (fst h)) as [-> | Hne].
    + rewrite one_slot_h in Hj. injection Hj as <-. destruct (su_slnew SU) as (_ & _ & Hup & Hd & _).
      split; [exact Hd|]. intros r Hr. rewrite Hup in Hr. injection Hr as <-. lia.
    + rewrite (one_slot_other _ Hne) in Hj. exact (si_slots _ _ _ _ _ _ _ I j sl Hj Hu).
  - intros j sl Hj. rewrite Hcur. destruct (N.eq_dec j (fst h)) as [-> | Hne].
    + rewrite one_slot_h in Hj. injection Hj as <-. destruct (su_slnew SU) as (_ & _ & Hup & _). rewrite Hup.
      exact (su_gen_lt SU).
    + rewrite (one_slot_other _ Hne) in Hj. exact (si_gens _ _ _ _ _ _ _ I j sl Hj).
  - intros h0 sl0 Hl0 Hu0. rewrite Hcur in Hu0. rewrite Hcur. destruct (N.eq_dec (fst h0) (fst h)) as [Ef | Hne].
    + destruct (one_live_new h0 sl0 Ef Hl0) as [-> ->]. right. exists q, fr', id.
      split; [apply one_in_F'; left; auto | exact (su_new_entry SU)].
    + apply (one_live_other h0 sl0 Hne) in Hl0.
      destruct (si_lock _ _ _ _ _ _ _ I h0 sl0 Hl0 Hu0) as [(l & m & id0 & Hm & Hvm & Hin) | (q0 & fr0 & id0 & Hin0 & Hine0)].
      * left. exists l, m, id0. rewrite (nf_memo _ _ HNF). auto.
      * right. destruct (qk_eq_dec q0 q) as [-> | Hneq].
        -- pose proof (frames_fun F q fr0 fr (oi_frames _ _ _ OI) Hin0 Hq) as ->.
           exists q, fr', id0. split; [apply one_in_F'; left; auto|]. apply (su_keep SU _ Hine0). cbn. exact Hne.
        -- exists q0, fr0, id0. split; [apply one_in_F'; right; auto | exact Hine0].
Qed.

(* ---- the frame after the creation ---- *)
Lemma cstamp_sext t id0 c : cstamp s t id0 c -> cstamp s' t id0 c.
Proof.
  intros [A | (pre & a & b & c0 & post & x & Et & Hx & Hs0)]; [left; exact A | right].
  exists pre, a, b, c0, post, x. split; [exact Et|]. split; [exact Hx|].
  exact (sle_sext skind s s' F c x OI one_sext Hs0).
Qed.

Lemma one_active_other id0 h0 : In (mk_entry id0 h0 true) (fr_ids fr) -> fst h0 <> fst h.
Proof.
  intros Hin Ef. apply (fo_active _ _ _ _ _ _ _ _ _ _ _ FO) in Hin. destruct Hin as (a & b & c & Hin).
  apply in_split in Hin. destruct Hin as (l1 & l2 & El).
  pose proof (fo_logged _ _ _ _ _ _ _ _ _ _ _ FO l1 _ l2 El) as Hlok. unfold lok in Hlok. cbn [fst snd] in Hlok.
  destruct Hlok as (h1 & sl1 & E1 & _ & (Hs1 & _) & _ & Hu1 & _). injection E1 as <-.
  rewrite Ef in Hs1. exact (su_notlocked SU sl1 Hs1 Hu1).
Qed.

Lemma one_fr_ext : fr_ext s' fr fr'.
Proof.
  destruct Hstamp as (A & B & C & D & E). constructor.
  - intros e0. rewrite C. auto.
  - rewrite B, one_cur. split; [lia | exact (fo_le _ _ _ _ _ _ _ _ _ _ _ FO)].
  - rewrite D. auto.
  - intros id0 h0 Hin. apply (su_keep SU _ Hin). cbn. exact (one_active_other id0 h0 Hin).
Qed.

Lemma cnt_get_bump_ge l k0 k1 : cnt_get l k1 <= cnt_get (cnt_bump l k0) k1.
Proof.
  destruct (N.eq_dec k0 k1) as [-> | Hne]; [rewrite cnt_get_bump_same; lia | rewrite cnt_get_bump_other by exact Hne; lia].
Qed.

Lemma one_frame :
  FrameOK Hs s' q old fr' (log ++ [(RNew id idv f0 f1, (0, [h]))]) (k h) (cnt_bump dis (idhash idv)).
Proof.
  pose proof one_sext as X. pose proof one_cur as Hcur. pose proof one_fr_ext as FE.
  destruct Hstamp as (Sd & Sc & Se & Su & Sdis).
  destruct (su_slnew SU) as (Nf & Ng & Nu & Nd & Nr1 & Nr0).
  assert (HL : Logged s' fr' log).
  { apply (Logged_ext s' fr fr' log FE). exact (Logged_sext skind s s' F fr log OI X (fo_logged _ _ _ _ _ _ _ _ _ _ _ FO)). }
  assert (Hlive_new : live_h s' h slnew).
  { split; [exact one_slot_h|]. split; [rewrite Nu; discriminate | exact Ng]. }
  constructor.
  - apply Logged_snoc; [exact HL|]. unfold lok. cbn [fst snd].
    exists h, slnew. split; [reflexivity|]. split; [exact (su_new_entry SU)|]. split; [exact Hlive_new|].
    split; [exact Nf|]. split; [rewrite Hcur; exact Nu|]. split; [exact Nd|]. rewrite Hcur. split; [exact Nr0|].
    split; [rewrite Nr1; exact (fo_le _ _ _ _ _ _ _ _ _ _ _ FO)|].
    rewrite Nr1. exact (cst_sext skind s s' F log _ OI X (fo_stamp _ _ _ _ _ _ _ _ _ _ _ FO)).
  - rewrite Sdis, (fo_dis _ _ _ _ _ _ _ _ _ _ _ FO). reflexivity.
  - intros e0 Hag. apply agrees_app in Hag. destruct Hag as [Hag1 Hag2].
    destruct (fo_tr _ _ _ _ _ _ _ _ _ _ _ FO e0 Hag1) as [Htr Hrun]. cbn [trace run] in Htr, Hrun. fold id in Htr, Hrun.
    assert (En : e_new e0 id = h).
    { specialize (Hag2 _ _ (or_introl eq_refl)). cbn in Hag2. injection Hag2 as A. exact A. }
    rewrite En in Htr, Hrun. split; [|exact Hrun].
    rewrite Htr, map_app. cbn [map fst]. rewrite <- app_assoc. reflexivity.
  - rewrite Sc, Hcur. exact (fo_le _ _ _ _ _ _ _ _ _ _ _ FO).
  - rewrite Sc. exact (fo_ge1 _ _ _ _ _ _ _ _ _ _ _ FO).
  - rewrite Sc. apply cst_app. exact (cst_sext skind s s' F log _ OI X (fo_stamp _ _ _ _ _ _ _ _ _ _ _ FO)).
  - intros _. rewrite Sd. exact one_dur.
  - rewrite Su. rewrite (fo_untr _ _ _ _ _ _ _ _ _ _ _ FO). split.
    + intros (x & a & Hin & Hu). exists x, a. split; [apply in_or_app; left; exact Hin | exact Hu].
    + intros (x & a & Hin & Hu). apply in_app_or in Hin. destruct Hin as [Hin | [E | []]]; [exists x, a; auto|].
      injection E as <- _. destruct Hu as [Hu | (c & Hu)]; discriminate.
  - intros e0 He0. rewrite Se in He0. destruct (fo_edges _ _ _ _ _ _ _ _ _ _ _ FO e0 He0) as [A (a & Hin)].
    split; [exact A|]. exists a. apply in_or_app. left. exact Hin.
  - rewrite Se, map_app. cbn [map fst]. rewrite edges_of_snoc. unfold edge_step. cbn [rd_edge].
    rewrite (fo_eorder _ _ _ _ _ _ _ _ _ _ _ FO). reflexivity.
  - intros id0 h0. split.
    + intros Hin. destruct (su_back SU _ Hin) as [E | [Hin0 _]].
      * injection E as -> ->. exists idv, f0, f1. apply in_or_app. right. left. reflexivity.
      * apply (fo_active _ _ _ _ _ _ _ _ _ _ _ FO) in Hin0. destruct Hin0 as (a & b & c & Hin0).
        exists a, b, c. apply in_or_app. left. exact Hin0.
    + intros (a & b & c & Hin). apply in_app_or in Hin. destruct Hin as [Hin | [E | []]].
      * apply (fe_ids _ _ _ FE). apply (fo_active _ _ _ _ _ _ _ _ _ _ _ FO). eauto.
      * injection E as <- _ _ _ <-. exact (su_new_entry SU).
  - exact (su_idents SU).
  - intros e0 He0 Ha. destruct (su_back SU _ He0) as [-> | [Hin0 _]].
    + cbn. unfold id, nident. cbn. rewrite cnt_get_bump_same. lia.
    + pose proof (fo_cnt_act _ _ _ _ _ _ _ _ _ _ _ FO e0 Hin0 Ha) as Hlt.
      pose proof (cnt_get_bump_ge dis (idhash idv) (fst (te_ident e0))). lia.
  - intros e0 He0 Ha. destruct (su_back SU _ He0) as [-> | [Hin0 _]]; [discriminate|].
    pose proof (fo_cnt_inact _ _ _ _ _ _ _ _ _ _ _ FO e0 Hin0 Ha) as Hle.
    destruct (N.eq_dec (idhash idv) (fst (te_ident e0))) as [E | Hne].
    + rewrite <- E, cnt_get_bump_same. rewrite <- E in Hle.
      assert (Hneq : snd (te_ident e0) <> cnt_get dis (idhash idv)).
      { intros Es. assert (Eid : te_ident e0 = id).
        { unfold id, nident. rewrite (surjective_pairing (te_ident e0)). f_equal; congruence. }
        pose proof (su_idents SU) as Hnd.
        pose proof (map_inj_nodup te_ident (fr_ids fr') e0 (mk_entry id h true) Hnd He0 (su_new_entry SU) Eid) as Ee.
        rewrite Ee in Ha. discriminate. }
      lia.
    + rewrite cnt_get_bump_other by exact Hne. exact Hle.
  - intros e0 He0 Ha. destruct (su_back SU _ He0) as [-> | [Hin0 Hne0]]; [discriminate|].
    destruct (fo_seeded _ _ _ _ _ _ _ _ _ _ _ FO e0 Hin0 Ha) as (o & Eold & Hseedin & sl & Hl & Hf & Hd & A0 & A1 & Hcs & Hnl).
    exists o. split; [exact Eold|]. split; [exact Hseedin|]. exists sl.
    destruct (si_active _ _ _ _ _ _ _ I q fr Hq) as [_ Hlt].
    pose proof (fo_old _ _ _ _ _ _ _ _ _ _ _ FO) as Hold. rewrite Eold in Hold. specialize (Hlt o Hold).
    split; [apply (one_live_other _ _ Hne0); exact Hl|].
    split; [rewrite (W_same_cur Hs s s' _ Hcur Hlt); exact Hf|].
    split; [exact Hd|]. split; [exact A0|]. split; [exact A1|].
    split; [|rewrite Hcur; exact Hnl].
    unfold SInv.trr. rewrite (W_same_cur Hs s s' _ Hcur Hlt). exact (cstamp_sext _ _ _ Hcs).
  - intros o id0 h0 Eold Hin. destruct (fo_seedall _ _ _ _ _ _ _ _ _ _ _ FO o id0 h0 Eold Hin) as (e0 & He0 & Ee0).
    destruct (su_ident_keep SU e0 He0) as (e1 & He1 & Ee1). exists e1. split; [exact He1 | congruence].
  - intros E. apply app_eq_nil in E. destruct E as [_ E]. discriminate.
  - rewrite (nf_memo _ _ HNF). exact (fo_old _ _ _ _ _ _ _ _ _ _ _ FO).
  - intros o Eold. rewrite Sc.
    destruct (si_active _ _ _ _ _ _ _ I q fr Hq) as [_ Hlt].
    pose proof (fo_old _ _ _ _ _ _ _ _ _ _ _ FO) as Hold. rewrite Eold in Hold. specialize (Hlt o Hold).
    rewrite (W_same_cur Hs s s' _ Hcur Hlt).
    destruct (fo_div _ _ _ _ _ _ _ _ _ _ _ FO o Eold) as [Hag | Hlate]; [left | right; exact Hlate].
    apply agrees_app. split; [exact Hag|]. intros x a [E | []]. injection E as <- <-. cbn.
    rewrite (su_div SU o Eold Hag). reflexivity.
Qed.

Lemma one_frozen p frp h0 : In (p, frp) F -> p <> q -> In h0 (frame_ids frp) -> d_slots s' (fst h0) = d_slots s (fst h0).
Proof.
  intros Hp Hne Hh0. apply one_slot_other. intros Ef.
  pose proof (su_unowned SU _ _ (owns_frame skind s F p frp h0 Hp Hh0) Ef) as E. injection E as E. contradiction.
Qed.

End One.

Theorem new_struct_sinv Hs s F q old fr log idv f0 f1 k dis n s' h fr' :
  SInv Hs s F -> In (q, fr) F ->
  FrameOK Hs s q old fr log (NewStruct idv f0 f1 k) dis -> log <> [] ->
  (forall i sl, d_slots s i = Some sl -> next_gen (sl_gen sl) <> None) ->
  new_struct skind [] idhash n q idv f0 f1 fr s = (s', SOk (h, fr')) ->
  SInv Hs s' (set_frame F q fr') /\ sext s s' /\
  FrameOK Hs s' q old fr' (log ++ [(RNew (nident idhash dis idv) idv f0 f1, (0, [h]))]) (k h) (cnt_bump dis (idhash idv)) /\
  d_memo s' = d_memo s /\ d_stack s' = d_stack s /\
  (forall p frp h0, In (p, frp) F -> p <> q -> In h0 (frame_ids frp) -> d_slots s' (fst h0) = d_slots s (fst h0)).
Proof.
  intros I Hq FO Hne Hgens H.
  pose proof (si_oinv _ _ _ _ _ _ _ I) as OI.
  pose proof (fo_dis _ _ _ _ _ _ _ _ _ _ _ FO) as Hdis.
  destruct (new_struct_effect skind idhash n q idv f0 f1 fr s s' h fr' H) as (slnew & Hsl & HNF & Hideal & Hstamp & Hcase).
  { intros e sl He Hm Hs0. rewrite Hdis in Hm.
    pose proof (one_matched_inactive Hs s q old fr log idv f0 f1 k dis FO e He Hm) as Hina.
    destruct (fo_seeded _ _ _ _ _ _ _ _ _ _ _ FO e He Hina) as (o & _ & _ & sl1 & (Hs1 & _ & Hg1) & _ & _ & _ & _ & _ & Hnl).
    rewrite Hs0 in Hs1. injection Hs1 as <-. split; [exact Hnl|]. rewrite <- Hg1. exact (Hgens _ sl Hs0). }
  destruct (new_struct_oinv skind [] idhash nofams n q idv f0 f1 fr s F s' h fr' OI Hq H) as (OI' & _ & _).
  destruct (new_struct_rel skind [] idhash (d_stack s) n q idv f0 f1 fr s F s' (h, fr') OI Hq) as (R & Est); [|exact H|].
  { intros p _ Hk. rewrite Hnk in Hk. discriminate. }
  pose proof (Cons_rel skind _ s s' _ (cons_set_frame skind s F q fr fr' (si_cons _ _ _ _ _ _ _ I) (oi_frames _ _ _ OI) Hq) R Est) as CO'.
  split; [exact (one_sinv Hs s F q old fr log idv f0 f1 k dis s' h fr' slnew I Hq FO Hne Hsl HNF Hideal Hcase OI' CO')|].
  split; [exact (one_sext Hs s F q old fr log idv f0 f1 k dis s' h fr' slnew I Hq FO Hne Hsl HNF Hideal Hcase)|].
  split; [exact (one_frame Hs s F q old fr log idv f0 f1 k dis s' h fr' slnew I Hq FO Hne Hsl HNF Hideal Hstamp Hcase)|].
  split; [exact (nf_memo _ _ HNF)|]. split; [exact Est|].
  intros p frp h0 Hp Hneq Hh0.
  eapply (one_frozen Hs s F q old fr log idv f0 f1 k dis s' h fr' slnew); eassumption.
Qed.


End NewInv.

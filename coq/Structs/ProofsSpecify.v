(* Structs/ProofsSpecify.v — model-level lemmas about `specify` (C10): what the transcribed
   specify_and_record / fetch / deep_verify_memo / validate_specified_value do, for every
   program, identity hash and database state. *)
From Salsa Require Import Base.
From Salsa.Kern Require Import CoreK.
From Salsa.Structs Require Import Model ProofsBase ProofsCascade ProofsStep.

(* acquire_read_lock on a live slot, computed *)
Definition locked_slot (s : db) (sl : slot) : slot :=
  match sl_updated sl with
  | Some r => if r =? cur s then sl else set_sl_updated sl (Some (cur s))
  | None => sl
  end.
Definition locked_db (s : db) (i : N) (sl : slot) : db :=
  match sl_updated sl with
  | Some r => if r =? cur s then s else set_slots s (updN (d_slots s) i (Some (set_sl_updated sl (Some (cur s)))))
  | None => s
  end.

Lemma lock_run i s sl :
  d_slots s i = Some sl -> sl_updated sl <> None ->
  acquire_read_lock i s = (locked_db s i sl, SOk (locked_slot s sl)).
Proof.
  intros Hs Hu. unfold acquire_read_lock, get_slot, bind, get, put_slot, modify, ret, locked_db, locked_slot.
  rewrite Hs. destruct (sl_updated sl) as [r|]; [|contradiction Hu; reflexivity].
  destruct (r =? cur s); reflexivity.
Qed.

Lemma locked_slot_memos s sl fam : sl_memos (locked_slot s sl) fam = sl_memos sl fam.
Proof. unfold locked_slot. destruct (sl_updated sl) as [r|]; [destruct (r =? cur s)|]; reflexivity. Qed.

Lemma locked_db_log s i sl : d_log (locked_db s i sl) = d_log s.
Proof. unfold locked_db. destruct (sl_updated sl) as [r|]; [destruct (r =? cur s)|]; reflexivity. Qed.

Lemma locked_db_cur s i sl : cur (locked_db s i sl) = cur s.
Proof. unfold locked_db. destruct (sl_updated sl) as [r|]; [destruct (r =? cur s)|]; reflexivity. Qed.

Lemma locked_db_stack s i sl : d_stack (locked_db s i sl) = d_stack s.
Proof. unfold locked_db. destruct (sl_updated sl) as [r|]; [destruct (r =? cur s)|]; reflexivity. Qed.

Lemma locked_db_revs s i sl : d_revs (locked_db s i sl) = d_revs s.
Proof. unfold locked_db. destruct (sl_updated sl) as [r|]; [destruct (r =? cur s)|]; reflexivity. Qed.

Lemma bind_run {A B} (m : M A) (f : A -> M B) s s1 a : m s = (s1, SOk a) -> bind m f s = f a s1.
Proof. intros H. unfold bind. rewrite H. reflexivity. Qed.

Section Specify.
Variable prog : qk -> body.
Variable skind : N -> bool.
Variable sfams : list N.
Variable idhash : val -> N.

(* C10: specifying a struct the current execution did not create panics, nothing changes *)
Lemma specify_foreign_panics n q fam h v fr s :
  is_active (fr_ids fr) h = false ->
  specify skind sfams n q fam h v fr s = (s, SPanic PSpecForeign).
Proof. intros H. unfold specify. rewrite H. reflexivity. Qed.

(* C10: a second specify of the same key in one execution panics *)
Lemma specify_twice_panics n q fam h v fr s sl old :
  is_active (fr_ids fr) h = true -> skind fam = true ->
  existsb (qk_eqb (fam, h)) (d_stack s) = false ->
  d_slots s (fst h) = Some sl -> sl_updated sl <> None ->
  sl_memos sl fam = Some old ->
  m_verified old = cur s -> m_val old <> None -> m_origin old = OAssigned q ->
  existsb (edge_eqb (EOut (fam, h))) (fr_edges fr) = true ->      (* this execution already specified it *)
  exists s', specify skind sfams n q fam h v fr s = (s', SPanic PSpecTwice).
Proof.
  intros Ha Hk Hst Hs Hu Hm Hv Hval Ho He. unfold specify. rewrite Ha. cbn [negb].
  unfold bind at 1. unfold get at 1. rewrite Hst.
  unfold get_memo. cbn [fst snd]. rewrite Hk.
  unfold bind at 1. unfold bind at 1. rewrite (lock_run _ _ _ Hs Hu). unfold ret at 1.
  unfold bind at 1. unfold get at 1.
  rewrite locked_slot_memos, Hm, Hv, locked_db_cur, N.eqb_refl.
  destruct (m_val old) as [ov|]; [|contradiction Hval; reflexivity]. cbn [andb].
  rewrite Ho, qk_eqb_refl. cbn [negb]. rewrite He.
  exists (locked_db s (fst h) sl). reflexivity.
Qed.

(* C10: a value computed (Derived) in this revision wins: specify changes neither memo nor frame *)
Lemma specify_computed_kept n q fam h v fr s sl old :
  is_active (fr_ids fr) h = true -> skind fam = true ->
  existsb (qk_eqb (fam, h)) (d_stack s) = false ->
  d_slots s (fst h) = Some sl -> sl_updated sl <> None ->
  sl_memos sl fam = Some old ->
  m_verified old = cur s -> m_val old <> None -> (forall by_, m_origin old <> OAssigned by_) ->
  specify skind sfams n q fam h v fr s = (locked_db s (fst h) sl, SOk fr).
Proof.
  intros Ha Hk Hst Hs Hu Hm Hv Hval Ho. unfold specify. rewrite Ha. cbn [negb].
  unfold bind at 1. unfold get at 1. rewrite Hst.
  unfold get_memo. cbn [fst snd]. rewrite Hk.
  unfold bind at 1. unfold bind at 1. rewrite (lock_run _ _ _ Hs Hu). unfold ret at 1.
  unfold bind at 1. unfold get at 1.
  rewrite locked_slot_memos, Hm, Hv, locked_db_cur, N.eqb_refl.
  destruct (m_val old) as [ov|]; [|contradiction Hval; reflexivity]. cbn [andb].
  destruct (m_origin old) as [| | by_] eqn:Eo; [| |exfalso; exact (Ho by_ eq_refl)]; reflexivity.
Qed.

(* C10: a specified value verified in this revision is returned without running the body:
   no event at all is emitted *)
Lemma fetch_specified_no_exec L (q : qk) s sl m v :
  skind (fst q) = true -> d_slots s (fst (snd q)) = Some sl -> sl_updated sl <> None ->
  sl_memos sl (fst q) = Some m -> m_verified m = cur s -> m_val m = Some v ->
  fetch prog skind sfams idhash L q s =
    (locked_db s (fst (snd q)) sl, SOk (v, m_dur m, m_changed m)) /\
  d_log (locked_db s (fst (snd q)) sl) = d_log s.
Proof.
  intros Hk Hs Hu Hm Hv Hval. split; [|apply locked_db_log].
  assert (Hg : get_memo skind q s = (locked_db s (fst (snd q)) sl, SOk (Some m))).
  { unfold get_memo. rewrite Hk. rewrite (bind_run _ _ _ _ _ (lock_run _ _ _ Hs Hu)).
    unfold ret. rewrite locked_slot_memos, Hm. reflexivity. }
  assert (Hh : fetch_hot skind q s = (locked_db s (fst (snd q)) sl, SOk (Some (m, v)))).
  { unfold fetch_hot. rewrite (bind_run _ _ _ _ _ Hg).
    rewrite (bind_run _ _ _ _ _ (eq_refl : get (locked_db s (fst (snd q)) sl) = (_, SOk _))).
    rewrite Hval. unfold shallow_verify. rewrite Hv, locked_db_cur, N.eqb_refl. reflexivity. }
  unfold fetch. rewrite (bind_run _ _ _ _ _ Hh).
  rewrite (bind_run _ _ _ _ _ (eq_refl : ret (m, v) (locked_db s (fst (snd q)) sl) = (_, SOk _))).
  reflexivity.
Qed.

(* C10: an Assigned memo that is not verified in this revision (its creator did not specify it
   again, nor was the creator validated) never deep-verifies: the body must run *)
Lemma deep_verify_assigned L q m by_ s :
  m_origin m = OAssigned by_ -> deep_verify skind L q m s = (s, SOk (false, m)).
Proof. intros H. unfold deep_verify. rewrite H. reflexivity. Qed.

(* ... and running the body starts with the WillExecute event *)
Lemma execute_starts_with_exec L q old :
  execute prog skind sfams idhash L q old =
  bind (emit (EvExec q)) (fun _ =>
    bind (run_body skind sfams idhash L q (prog q) (seed_frame old)) (fun r =>
      finish_exec skind sfams (l_fuel L) q old (fst r) (snd r))).
Proof. reflexivity. Qed.

(* C10: a validated creator marks its specified outputs verified (deep_verify_edges Output arm,
   update_shallow): afterwards the memo is verified in the current revision *)
Lemma validate_specified_marks (q o : qk) s sl m :
  skind (fst o) = true -> d_slots s (fst (snd o)) = Some sl -> sl_updated sl <> None ->
  sl_memos sl (fst o) = Some m -> m_origin m = OAssigned q ->
  exists s', validate_specified skind q o s = (s', SOk tt) /\
    exists sl', d_slots s' (fst (snd o)) = Some sl' /\
      exists m', sl_memos sl' (fst o) = Some m' /\ m_verified m' = cur s /\ m_val m' = m_val m /\
                 m_origin m' = m_origin m /\ In (EvValidate o) (d_log s').
Proof.
  intros Hk Hs Hu Hm Ho.
  set (sL := locked_db s (fst (snd o)) sl). set (slL := locked_slot s sl).
  assert (Hl : d_slots sL (fst (snd o)) = Some slL).
  { unfold sL, slL, locked_db, locked_slot. destruct (sl_updated sl) as [r|] eqn:Eu; [|exact Hs].
    destruct (r =? cur s); [exact Hs|]. cbn [set_slots d_slots]. apply updN_same. }
  assert (Hg : get_memo skind o s = (sL, SOk (Some m))).
  { unfold get_memo. rewrite Hk. rewrite (bind_run _ _ _ _ _ (lock_run _ _ _ Hs Hu)).
    unfold ret. rewrite locked_slot_memos, Hm. reflexivity. }
  set (m' := {| m_val := m_val m; m_verified := cur sL; m_changed := m_changed m; m_dur := m_dur m;
                m_origin := m_origin m; m_edges := m_edges m; m_structs := m_structs m |}).
  set (sF := set_slots (set_log sL (EvValidate o :: d_log sL))
               (updN (d_slots sL) (fst (snd o)) (Some (set_sl_memos slL (updN (sl_memos slL) (fst o) (Some m')))))).
  assert (Hmv : mark_verified skind o m sL = (sF, SOk m')).
  { unfold mark_verified. rewrite (bind_run _ _ _ _ _ (eq_refl : get sL = (_, SOk _))).
    rewrite (bind_run _ _ _ _ _ (eq_refl : emit (EvValidate o) sL = (_, SOk tt))).
    assert (Hst : store_memo skind o m' (set_log sL (EvValidate o :: d_log sL)) = (sF, SOk tt)).
    { unfold store_memo. rewrite Hk.
      assert (Hgs : get_slot (fst (snd o)) (set_log sL (EvValidate o :: d_log sL)) = (set_log sL (EvValidate o :: d_log sL), SOk slL)).
      { unfold get_slot. rewrite (bind_run _ _ _ _ _ (eq_refl : get _ = (_, SOk _))). cbn [set_log d_slots]. rewrite Hl. reflexivity. }
      rewrite (bind_run _ _ _ _ _ Hgs). reflexivity. }
    rewrite (bind_run _ _ _ _ _ Hst). reflexivity. }
  exists sF. split.
  - unfold validate_specified. rewrite (bind_run _ _ _ _ _ Hg). rewrite Ho, qk_eqb_refl.
    rewrite (bind_run _ _ _ _ _ Hmv). reflexivity.
  - exists (set_sl_memos slL (updN (sl_memos slL) (fst o) (Some m'))). split.
    + unfold sF. cbn [set_slots d_slots]. apply updN_same.
    + exists m'. split; [cbn [set_sl_memos sl_memos]; apply updN_same|].
      unfold m'. cbn [m_verified m_val m_origin]. unfold sL. rewrite locked_db_cur.
      repeat split; auto. unfold sF. cbn [set_slots set_log d_log]. left. reflexivity.
Qed.

(* C10: the value specified by the creator's latest execution wins over whatever memo an
   earlier revision left for the key (Assigned or Derived): when specify returns normally and the
   old memo is not verified in this revision, the key's memo is Assigned by q with value v,
   verified now, and the frame records the output edge *)
Lemma specify_overwrites n (q : qk) fam h v fr s sl s' fr' :
  is_active (fr_ids fr) h = true -> skind fam = true ->
  existsb (qk_eqb (fam, h)) (d_stack s) = false ->
  d_slots s (fst h) = Some sl -> sl_updated sl <> None ->
  (forall old, sl_memos sl fam = Some old -> m_verified old <> cur s) ->
  specify skind sfams n q fam h v fr s = (s', SOk fr') ->
  In (EOut (fam, h)) (fr_edges fr') /\
  exists sl' m', d_slots s' (fst h) = Some sl' /\ sl_memos sl' fam = Some m' /\
                 m_val m' = Some v /\ m_origin m' = OAssigned q /\ m_verified m' = cur s /\
                 m_structs m' = [].
Proof.
  intros Ha Hk Hst Hs Hu Hold H. unfold specify in H. rewrite Ha in H. cbn [negb] in H.
  rewrite (bind_run _ _ _ _ _ (eq_refl : get s = (_, SOk _))) in H. rewrite Hst in H.
  assert (Hg : get_memo skind (fam, h) s = (locked_db s (fst h) sl, SOk (sl_memos sl fam))).
  { unfold get_memo. cbn [fst snd]. rewrite Hk. rewrite (bind_run _ _ _ _ _ (lock_run _ _ _ Hs Hu)).
    unfold ret. rewrite locked_slot_memos. reflexivity. }
  rewrite (bind_run _ _ _ _ _ Hg) in H.
  rewrite (bind_run _ _ _ _ _ (eq_refl : get (locked_db s (fst h) sl) = (_, SOk _))) in H.
  set (sL := locked_db s (fst h) sl) in *.
  assert (Hearly : (match sl_memos sl fam with
            | Some old =>
                if (m_verified old =? cur sL) && match m_val old with Some _ => true | None => false end
                then match m_origin old with
                     | OAssigned by_ =>
                         if negb (qk_eqb by_ q) then fail PAssert
                         else if existsb (edge_eqb (EOut (fam, h))) (fr_edges fr) then fail PSpecTwice
                         else ret (false, add_output fr (fam, h))
                     | _ => ret (true, fr)
                     end
                else ret (false, fr)
            | None => ret (false, fr)
            end) sL = (sL, SOk (false, fr))).
  { destruct (sl_memos sl fam) as [old|] eqn:Eo; [|reflexivity].
    unfold sL. rewrite locked_db_cur. destruct (N.eqb_spec (m_verified old) (cur s)) as [E | E]; [|reflexivity].
    exfalso. exact (Hold old eq_refl E). }
  rewrite (bind_run _ _ _ _ _ Hearly) in H. cbn [fst snd] in H.
  destruct (backdate (sl_memos sl fam) (fr_dur fr) (fr_changed fr) v) as [ch | p |]; [|mstep H|mstep H].
  msplit H as u5 t5 H5. msplit H as u6 t6 H6. mstep H.
  split.
  - unfold add_output, add_edge. cbn [set_fr_stamp fr_edges].
    destruct (existsb (edge_eqb (EOut (fam, h))) (fr_edges fr)) eqn:Ee.
    + apply existsb_exists in Ee. destruct Ee as (x & Hx & Ex). destruct x; cbn [edge_eqb] in Ex; try discriminate.
      apply qk_eqb_eq in Ex. subst. exact Hx.
    + apply in_or_app. right. left. reflexivity.
  - destruct (put_memo_spec skind (fam, h) _ _ _ _ Hk H6) as (sl0 & sl' & _ & _ & Hs' & _ & _ & _ & _ & Hmq & _).
    cbn [fst snd] in *. exists sl'. eexists. split; [exact Hs'|]. split; [exact Hmq|].
    cbn [m_val m_origin m_verified m_structs]. unfold sL. rewrite locked_db_cur. repeat split; reflexivity.
Qed.

End Specify.

(* Structs/ProofsStep.v — every event of the Structs machine preserves the ownership
   invariant OInv (for every identity-hash function, every history). *)
From Salsa Require Import Base.
From Salsa.Kern Require Import CoreK.
From Salsa.Structs Require Import Model ProofsBase ProofsCascade Machine ProofsInv.

(* all database fields except the slots and the event log are equal *)
Record sbs (s s' : db) : Prop := {
  sb_revs : d_revs s' = d_revs s;
  sb_cc : d_ccount s' = d_ccount s;
  sb_in : d_in s' = d_in s;
  sb_cell : d_cell s' = d_cell s;
  sb_memo : d_memo s' = d_memo s;
  sb_nslots : d_nslots s' = d_nslots s;
  sb_free : d_free s' = d_free s;
  sb_stack : d_stack s' = d_stack s;
  sb_cname : d_cname s' = d_cname s;
  sb_ideal : d_ideal s' = d_ideal s
}.

Lemma sbs_refl s : sbs s s.
Proof. constructor; reflexivity. Qed.

Lemma sbs_trans s1 s2 s3 : sbs s1 s2 -> sbs s2 s3 -> sbs s1 s3.
Proof. intros [] []; constructor; congruence. Qed.

Lemma sbs_cur s s' : sbs s s' -> cur s' = cur s.
Proof. intros H. unfold cur. now rewrite (sb_revs _ _ H). Qed.

Lemma sbs_put_slot s i sl : sbs s (set_slots s (updN (d_slots s) i (Some sl))).
Proof. constructor; reflexivity. Qed.

Lemma sbs_log s l : sbs s (set_log s l).
Proof. constructor; reflexivity. Qed.

Lemma casc_sbs s s' : casc s s' [] -> sbs s s'.
Proof.
  intros C. constructor; try (destruct C; assumption).
  rewrite (cs_free _ _ _ C). apply app_nil_r.
Qed.

(* ---- acquire_read_lock ---- *)
Lemma lock_spec i s s' sl' :
  acquire_read_lock i s = (s', SOk sl') ->
  exists sl, d_slots s i = Some sl /\ sl_updated sl <> None /\
             sl_updated sl' = Some (cur s) /\ sl_gen sl' = sl_gen sl /\
             (forall fam, sl_memos sl' fam = sl_memos sl fam) /\ slot_fields sl' = slot_fields sl /\
             sl_dur sl' = sl_dur sl /\ sl_rev0 sl' = sl_rev0 sl /\ sl_rev1 sl' = sl_rev1 sl /\
             sbs s s' /\ d_log s' = d_log s /\
             (forall j, d_slots s' j = updN (d_slots s) i (Some sl') j).
Proof.
  unfold acquire_read_lock. intros H.
  msplit H as sl t0 H0. apply get_slot_ok in H0. destruct H0 as [-> Hs].
  msplit H as x t1 H1. mstep H1.
  destruct (sl_updated sl) as [r|] eqn:Eu; [|mstep H].
  exists sl. split; [exact Hs|]. split; [rewrite Eu; discriminate|].
  destruct (N.eqb_spec r (cur s)) as [-> | Hne].
  - mstep H. repeat split; auto using sbs_refl.
    intros j. unfold updN. destruct (N.eqb_spec i j) as [<- | E]; [exact Hs | reflexivity].
  - msplit H as u t2 H2. apply put_slot_ok in H2. subst t2. mstep H.
    repeat split; auto using sbs_put_slot.
Qed.

(* ---- the identity map ---- *)
Definition act (e : tentry) : tentry := {| te_ident := te_ident e; te_id := te_id e; te_active := true |}.
Definition mk_entry (key : ident) (id : handle) (a : bool) : tentry :=
  {| te_ident := key; te_id := id; te_active := a |}.

Definition nomatch (key : ident) (l : list tentry) : Prop :=
  forall x, In x l -> key_eqb (te_ident x) key = false.

Lemma reuse_spec l key : forall r l', reuse l key = (r, l') ->
  (r = None /\ l' = l /\ nomatch key l) \/
  (exists l1 e l2, l = l1 ++ e :: l2 /\ key_eqb (te_ident e) key = true /\ nomatch key l1 /\
                   r = Some (te_id e) /\ l' = l1 ++ act e :: l2).
Proof.
  induction l as [|e l IH]; cbn [reuse]; intros r l' H.
  - injection H as <- <-. left. repeat split. intros x [].
  - destruct (key_eqb (te_ident e) key) eqn:E.
    + injection H as <- <-. right. exists [], e, l. repeat split; auto. intros x [].
    + destruct (reuse l key) as [r0 l0] eqn:E0. injection H as <- <-.
      destruct (IH r0 l0 eq_refl) as [(-> & -> & Hn) | (l1 & e1 & l2 & -> & Hm & Hn & -> & ->)].
      * left. repeat split. intros x [<- | Hx]; auto.
      * right. exists (e :: l1), e1, l2. repeat split; auto. intros x [<- | Hx]; auto.
Qed.

Lemma insert_spec key id a : forall l,
  (nomatch key l /\ insert_entry l key id a = l ++ [mk_entry key id a]) \/
  (exists l1 e l2, l = l1 ++ e :: l2 /\ key_eqb (te_ident e) key = true /\ nomatch key l1 /\
                   insert_entry l key id a = l1 ++ mk_entry key id a :: l2).
Proof.
  induction l as [|e l IH]; cbn [insert_entry].
  - left. split; [intros x [] | reflexivity].
  - destruct (key_eqb (te_ident e) key) eqn:E.
    + right. exists [], e, l. repeat split; auto. intros x [].
    + destruct IH as [(Hn & ->) | (l1 & e1 & l2 & -> & Hm & Hn & ->)].
      * left. split; [intros x [<- | Hx]; auto | reflexivity].
      * right. exists (e :: l1), e1, l2. repeat split; auto. intros x [<- | Hx]; auto.
Qed.

Lemma nomatch_split key l1 e l2 l1' e' l2' :
  l1 ++ e :: l2 = l1' ++ e' :: l2' ->
  key_eqb (te_ident e) key = true -> nomatch key l1 ->
  key_eqb (te_ident e') key = true -> nomatch key l1' ->
  l1 = l1' /\ e = e' /\ l2 = l2'.
Proof.
  revert l1'. induction l1 as [|x l1 IH]; intros [|x' l1'] E He Hn He' Hn'; cbn [app] in E.
  - injection E as -> ->. auto.
  - injection E as -> _. rewrite (Hn' x' (or_introl eq_refl)) in He. discriminate.
  - injection E as <- _. rewrite (Hn x (or_introl eq_refl)) in He'. discriminate.
  - injection E as -> E. destruct (IH l1' E He (fun y Hy => Hn y (or_intror Hy)) He' (fun y Hy => Hn' y (or_intror Hy)))
      as (-> & -> & ->). auto.
Qed.

Lemma frame_ids_app l1 e l2 :
  map te_id (l1 ++ e :: l2) = map te_id l1 ++ te_id e :: map te_id l2.
Proof. rewrite map_app. reflexivity. Qed.

Lemma nodup_fst_replace (ids1 ids2 : list handle) (a b : handle) :
  NoDup (map fst (ids1 ++ a :: ids2)) ->
  (fst b = fst a \/ ~ In (fst b) (map fst (ids1 ++ a :: ids2))) ->
  NoDup (map fst (ids1 ++ b :: ids2)).
Proof.
  rewrite !map_app. cbn [map]. intros Hnd Hb.
  assert (H1 := nodup_app_l _ _ Hnd). assert (H2 := nodup_app_r _ _ Hnd).
  apply NoDup_cons_iff in H2. destruct H2 as [Ha H2].
  assert (Hnb : ~ In (fst b) (map fst ids1) /\ ~ In (fst b) (map fst ids2)).
  { destruct Hb as [-> | Hb].
    - split; [|exact Ha]. intros Hin. apply (nodup_app_disj _ _ _ Hnd Hin). left; reflexivity.
    - split; intros Hin; apply Hb; apply in_or_app; [left | right; right]; exact Hin. }
  destruct Hnb as [Hb1 Hb2].
  apply nodup_app; [exact H1 | constructor; [exact Hb2 | exact H2] |].
  intros x Hx [<- | Hx2]; [exact (Hb1 Hx)|].
  apply (nodup_app_disj _ _ _ Hnd Hx). right; exact Hx2.
Qed.

Lemma nodup_fst_append (ids : list handle) (b : handle) :
  NoDup (map fst ids) -> ~ In (fst b) (map fst ids) -> NoDup (map fst (ids ++ [b])).
Proof.
  intros Hnd Hb. rewrite map_app. apply nodup_app; [exact Hnd | cbn; constructor; [intros [] | constructor] |].
  intros x Hx [<- | []]. exact (Hb Hx).
Qed.

(* ---- allocate ---- *)
Lemma pop_free_spec fl : forall h fl', pop_free fl = Some (h, fl') ->
  exists sk g, fl = sk ++ (fst h, g) :: fl' /\ next_gen g = Some (snd h).
Proof.
  induction fl as [|[i g] fl IH]; cbn [pop_free]; intros h fl' H; [discriminate|].
  destruct (next_gen g) as [g'|] eqn:E.
  - injection H as <- <-. exists [], g. auto.
  - destruct (IH h fl' H) as (sk & g0 & -> & Hg). exists ((i, g) :: sk), g0. auto.
Qed.

Lemma allocate_spec st idv f0 f1 s s' h :
  allocate st idv f0 f1 s = (s', SOk h) ->
  let slnew := fresh_slot (snd h) st (cur s) idv f0 f1 in
  (forall j, d_slots s' j = updN (d_slots s) (fst h) (Some slnew) j) /\
  d_revs s' = d_revs s /\ d_memo s' = d_memo s /\ d_ideal s' = d_ideal s /\ d_cname s' = d_cname s /\
  ((exists sk g, d_free s = sk ++ (fst h, g) :: d_free s' /\ next_gen g = Some (snd h) /\
                 d_nslots s' = d_nslots s) \/
   (h = (d_nslots s, 0) /\ d_nslots s' = d_nslots s + 1 /\ d_free s' = [])).
Proof.
  unfold allocate. intros H. msplit H as x t0 H0. mstep H0.
  destruct (pop_free (d_free s)) as [[h0 fl']|] eqn:Ep.
  - msplit H as u1 t1 H1. mstep H1. msplit H as u2 t2 H2. apply put_slot_ok in H2. subst t2. mstep H.
    cbn zeta. repeat split; try reflexivity. left.
    destruct (pop_free_spec _ _ _ Ep) as (sk & g & E & Hg). exists sk, g. auto.
  - msplit H as u1 t1 H1. mstep H1. msplit H as u2 t2 H2. apply put_slot_ok in H2. subst t2. mstep H.
    cbn zeta. repeat split; try reflexivity. right. auto.
Qed.

Section Step.
Variable skind : N -> bool.
Variable sfams : list N.
Variable idhash : val -> N.
Hypothesis sfams_skind : forall fam, In fam sfams -> skind fam = true.

Notation OInv := (OInv skind).
Notation owns := (owns skind).
Notation owner_ids := (owner_ids skind).
Notation peek_memo := (peek_memo skind).

Lemma lock_oinv s F i s' sl' :
  OInv s F -> acquire_read_lock i s = (s', SOk sl') -> OInv s' F.
Proof.
  intros I H. destruct (lock_spec _ _ _ _ H) as (sl & Hs & Hu & Hu' & Hg & Hm & Hf & _ & _ & _ & B & _ & Es).
  apply (oinv_rewrite skind s F s' i sl sl' I Hs Hu); try (destruct B; assumption); auto.
  - rewrite Hu'. discriminate.
  - left. split; [destruct B; assumption | exact Hf].
Qed.


(* ---- update: what a successful run does ---- *)
Definition upd_slot (sl : slot) (g : N) (st : stamp) (now : rev) (idv f0 f1 : val) (keep_memos : bool) : slot :=
  let rev0' := if sl_f0 sl =? f0 then sl_rev0 sl else snd st in
  let lower := fst st <? sl_dur sl in
  {| sl_gen := g; sl_updated := Some now; sl_dur := fst st; sl_idv := idv; sl_f0 := f0; sl_f1 := f1;
     sl_rev0 := if lower then snd st else rev0'; sl_rev1 := snd st;
     sl_memos := if keep_memos then sl_memos sl else fun _ => None |}.

Inductive upd_result (n : nat) (s : db) (id : handle) (st : stamp) (idv f0 f1 : val) (sl : slot) :
  db -> option handle -> Prop :=
| UR_locked : sl_updated sl = Some (cur s) -> upd_result n s id st idv f0 f1 sl s (Some id)
| UR_leak : sl_updated sl <> Some (cur s) -> next_gen (snd id) = None ->
            upd_result n s id st idv f0 f1 sl s None
| UR_same s' : sl_updated sl <> Some (cur s) -> sl_idv sl = idv -> next_gen (snd id) <> None ->
    sbs s s' ->
    (forall j, d_slots s' j = updN (d_slots s) (fst id) (Some (upd_slot sl (sl_gen sl) st (cur s) idv f0 f1 true)) j) ->
    upd_result n s id st idv f0 f1 sl s' (Some id)
| UR_changed s' g' e s1 : sl_updated sl <> Some (cur s) -> sl_idv sl <> idv -> next_gen (snd id) = Some g' ->
    casc (set_slots s (updN (d_slots s) (fst id)
            (Some {| sl_gen := sl_gen sl; sl_updated := None; sl_dur := sl_dur sl; sl_idv := idv; sl_f0 := f0;
                     sl_f1 := f1; sl_rev0 := if sl_f0 sl =? f0 then sl_rev0 sl else snd st; sl_rev1 := snd st;
                     sl_memos := sl_memos sl |}))) s1 e ->
    ~ In (fst id) (map fst e) ->
    parents sfams (set_slots s (updN (d_slots s) (fst id)
            (Some {| sl_gen := sl_gen sl; sl_updated := None; sl_dur := sl_dur sl; sl_idv := idv; sl_f0 := f0;
                     sl_f1 := f1; sl_rev0 := if sl_f0 sl =? f0 then sl_rev0 sl else snd st; sl_rev1 := snd st;
                     sl_memos := sl_memos sl |}))) (flat_map (memo_roots sl) sfams) e ->
    sbs s1 s' ->
    (forall j, d_slots s' j = updN (d_slots s1) (fst id) (Some (upd_slot sl g' st (cur s) idv f0 f1 false)) j) ->
    upd_result n s id st idv f0 f1 sl s' (Some (fst id, g')).

Lemma update_spec n id st idv f0 f1 s s' r :
  update sfams n id st idv f0 f1 s = (s', SOk r) ->
  exists sl, d_slots s (fst id) = Some sl /\ sl_updated sl <> None /\ upd_result n s id st idv f0 f1 sl s' r.
Proof.
  unfold update. intros H.
  msplit H as sl t0 H0. apply get_slot_ok in H0. destruct H0 as [-> Hs].
  msplit H as x t1 H1. mstep H1.
  destruct (sl_updated sl) as [r0|] eqn:Eu; [|mstep H].
  exists sl. split; [exact Hs|]. split; [rewrite Eu; discriminate|].
  destruct (N.eqb_spec r0 (cur s)) as [-> | Hne].
  - mstep H. apply UR_locked. exact Eu.
  - assert (Hnl : sl_updated sl <> Some (cur s)) by (rewrite Eu; intros E; injection E; auto).
    destruct (next_gen (snd id)) as [g'|] eqn:Eg.
    + msplit H as u2 t2 H2. apply put_slot_ok in H2. subst t2.
      destruct (N.eqb_spec (sl_idv sl) idv) as [Ei | Ei]; cbn [negb] in H.
      * (* identity unchanged *)
        msplit H as u3 t3 H3. mstep H3.
        msplit H as sl1 t4 H4. apply get_slot_ok in H4. destruct H4 as [-> Hs1].
        cbn [set_slots d_slots] in Hs1. rewrite updN_same in Hs1. injection Hs1 as <-.
        msplit H as u5 t5 H5. apply put_slot_ok in H5. subst t5. mstep H.
        apply UR_same; auto.
        -- rewrite Eg. discriminate.
        -- constructor; reflexivity.
        -- intros j. cbn [set_slots d_slots]. unfold updN, upd_slot. destruct (fst id =? j); [|reflexivity].
           cbn [sl_gen sl_updated sl_dur sl_idv sl_f0 sl_f1 sl_rev0 sl_rev1 sl_memos].
           destruct (fst st <? sl_dur sl); reflexivity.
      * (* identity changed *)
        msplit H as u3 t3 H3. destruct u3.
        set (slT := {| sl_gen := sl_gen sl; sl_updated := None; sl_dur := sl_dur sl; sl_idv := idv; sl_f0 := f0;
                       sl_f1 := f1; sl_rev0 := if sl_f0 sl =? f0 then sl_rev0 sl else snd st; sl_rev1 := snd st;
                       sl_memos := sl_memos sl |}) in *.
        set (sT := set_slots s (updN (d_slots s) (fst id) (Some slT))) in *.
        assert (HsT : d_slots sT (fst id) = Some slT) by (unfold sT; cbn [set_slots d_slots]; apply updN_same).
        destruct (clear_memos_casc sfams n id sT t3 slT HsT eq_refl H3) as (e & s1 & C & Hroot & -> & P & R).
        msplit H as sl1 t4 H4. apply get_slot_ok in H4. destruct H4 as [-> Hs1].
        cbn [set_slots d_slots] in Hs1. rewrite updN_same in Hs1. injection Hs1 as <-.
        msplit H as u5 t5 H5. apply put_slot_ok in H5. subst t5. mstep H.
        apply (UR_changed n s id st idv f0 f1 sl _ g' e s1); auto.
        -- constructor; reflexivity.
        -- intros j. cbn [set_slots d_slots]. unfold updN, upd_slot. destruct (fst id =? j); [|reflexivity].
           cbn [sl_gen sl_updated sl_dur sl_idv sl_f0 sl_f1 sl_rev0 sl_rev1 sl_memos set_sl_memos slT].
           destruct (fst st <? sl_dur sl); reflexivity.
    + mstep H. apply UR_leak; auto.
Qed.


Lemma owns_frame s F q fr h : In (q, fr) F -> In h (frame_ids fr) -> owns s F (OwF q) h.
Proof. intros Hq Hh. exists (frame_ids fr). split; [exists fr; auto | exact Hh]. Qed.

Lemma upd_slot_fields sl g st now idv f0 f1 k : slot_fields (upd_slot sl g st now idv f0 f1 k) = (idv, f0, f1).
Proof. reflexivity. Qed.

(* ---- new_struct preserves the invariant (all five paths) ---- *)
Lemma new_struct_oinv n q idv f0 f1 fr s F s' h fr' :
  OInv s F -> In (q, fr) F ->
  new_struct skind sfams idhash n q idv f0 f1 fr s = (s', SOk (h, fr')) ->
  OInv s' (set_frame F q fr') /\ In h (frame_ids fr') /\ live s' h.
Proof.
  intros I Hq H. unfold new_struct, disambiguate in H.
  set (identity := (idhash idv, cnt_get (fr_disamb fr) (idhash idv))) in *.
  set (fr1 := set_fr_disamb fr (cnt_bump (fr_disamb fr) (idhash idv)) (cnt_bump (fr_occ fr) idv)) in *.
  change (fr_ids fr1) with (fr_ids fr) in H.
  destruct (reuse (fr_ids fr) identity) as [found ids1] eqn:Er.
  set (st := (fr_dur fr, fr_changed fr)) in *.
  msplit H as r t0 H0. msplit H as slg t1 H1. apply get_slot_ok in H1. destruct H1 as [-> Hslg].
  msplit H as u2 t2 H2. mstep H2. apply ret_ok in H. destruct H as [Es' Eret]. subst s'. cbn [fst snd] in *.
  assert (HF : NoDup (flocs F)) by exact (oi_frames _ _ _ I).
  assert (Hfnd : NoDup (map fst (frame_ids fr))).
  { apply (oi_nodup _ _ _ I (OwF q)). exists fr. auto. }
  (* allocation of a slot that is not live, for an identity-map [ids2] whose ids come from fr *)
  assert (Halloc : forall ids2 t,
            (forall x, In x (map te_id ids2) -> In x (frame_ids fr)) ->
            NoDup (map fst (map te_id ids2)) ->
            allocate st idv f0 f1 s = (t, SOk h) ->
            d_slots t (fst h) = Some slg ->
            forall ids3, (forall x, In x (map te_id ids3) -> In x (map te_id ids2) \/ x = h) ->
              In h (map te_id ids3) ->
              (NoDup (map fst (map te_id ids2)) -> ~ In (fst h) (map fst (frame_ids fr)) -> NoDup (map fst (map te_id ids3))) ->
              forall cn, OInv (set_ideal (set_cname t cn) ((h, slot_fields slg) :: d_ideal t))
                              (set_frame F q (set_fr_ids fr1 ids3)) /\
                         live (set_ideal (set_cname t cn) ((h, slot_fields slg) :: d_ideal t)) h).
  { intros ids2 t Hsub2 Hnd2 Ha Hsl ids3 Hsub3 Hin3 Hnd3 cn.
    destruct (allocate_spec _ _ _ _ _ _ _ Ha) as (Es & Erv & Em & Eid & _ & Hcase).
    assert (Eslg : slg = fresh_slot (snd h) st (cur s) idv f0 f1).
    { rewrite Es, updN_same in Hsl. injection Hsl; auto. }
    assert (Hnl : forall sl, d_slots s (fst h) = Some sl -> sl_updated sl = None /\ sl_gen sl < snd h).
    { intros sl Hs. destruct Hcase as [(sk & g & Ef & Hg & _) | (-> & _)].
      - destruct (oi_free _ _ _ I (fst h) g) as (sl0 & Hs0 & Hu0 & Hg0); [rewrite Ef; apply in_or_app; right; left; reflexivity|].
        rewrite Hs in Hs0. injection Hs0 as <-. split; [exact Hu0|]. apply next_gen_gt in Hg. lia.
      - cbn [fst] in Hs. assert (d_slots s (d_nslots s) = None) by (apply (oi_alloc _ _ _ I); lia). congruence. }
    assert (Hnotown : forall o x, owns s F o x -> fst x <> fst h).
    { intros o x Hox E. destruct (oi_live _ _ _ I o x Hox) as (sl & Hs & Hu & _).
      rewrite E in Hs. destruct (Hnl sl Hs) as [Hu0 _]. contradiction. }
    assert (Hfresh : ~ In (fst h) (map fst (frame_ids fr))).
    { intros Hin. apply in_map_iff in Hin. destruct Hin as (x & Ex & Hx).
      exact (Hnotown _ x (owns_frame s F q fr x Hq Hx) Ex). }
    split.
    - destruct h as [i g']. cbn [fst snd] in *.
      apply (oinv_newgen skind s F _ q fr (set_fr_ids fr1 ids3) i g' slg I Hq); cbn [frame_ids fr_ids set_fr_ids set_ideal set_cname d_slots d_nslots d_free d_ideal d_revs d_memo].
      + exact Hin3.
      + intros x Hx. destruct (Hsub3 x Hx) as [Hx2 | ->]; auto.
      + exact (Hnd3 Hnd2 Hfresh).
      + intros sl Hs Hu. destruct (Hnl sl Hs) as [Hu0 _]. contradiction.
      + intros sl Hs. exact (proj2 (Hnl sl Hs)).
      + intros o x Hox E. exfalso. exact (Hnotown o x Hox E).
      + intros j. rewrite Es, Eslg. reflexivity.
      + rewrite Eslg. reflexivity.
      + rewrite Eslg. reflexivity.
      + rewrite Eslg. reflexivity.
      + intros Hn. destruct Hcase as [(sk & g & Ef & Hg & En) | (Eh & En & _)].
        * exfalso. destruct (oi_free _ _ _ I i g) as (sl0 & Hs0 & _); [rewrite Ef; apply in_or_app; right; left; reflexivity|].
          congruence.
        * injection Eh as -> _. auto.
      + intros Hn. destruct Hcase as [(sk & g & Ef & Hg & En) | (Eh & En & _)]; [exact En|].
        exfalso. injection Eh as -> _. apply Hn. apply (oi_alloc _ _ _ I). lia.
      + intros x Hx. destruct Hcase as [(sk & g & Ef & Hg & En) | (Eh & En & Ef)]; [|rewrite Ef in Hx; destruct Hx].
        pose proof (oi_free_nodup _ _ _ I) as Hnd. rewrite Ef in Hnd |- *.
        split; [apply in_or_app; right; right; exact Hx|].
        rewrite map_app in Hnd. apply nodup_app_r in Hnd. cbn [map fst] in Hnd.
        apply NoDup_cons_iff in Hnd. destruct Hnd as [Hni _]. intros E. apply Hni. rewrite <- E. apply in_map. exact Hx.
      + destruct Hcase as [(sk & g & Ef & Hg & En) | (Eh & En & Ef)]; [|rewrite Ef; constructor].
        pose proof (oi_free_nodup _ _ _ I) as Hnd. rewrite Ef, map_app in Hnd. apply nodup_app_r in Hnd.
        cbn [map] in Hnd. apply NoDup_cons_iff in Hnd. exact (proj2 Hnd).
      + rewrite Eid. reflexivity.
      + exact Erv.
      + exact Em.
    - exists slg. cbn [set_ideal set_cname d_slots]. rewrite Eslg in *. repeat split; [exact Hsl | discriminate]. }
  (* case analysis on the identity map *)
  destruct (reuse_spec _ _ _ _ Er) as [(-> & -> & Hnm) | (l1 & e & l2 & El & Hm & Hnm & -> & ->)].
  - (* no entry for this identity: allocate, append *)
    msplit H0 as id' t3 H3. mstep H0. injection Eret as -> ->. cbn [fst snd] in *.
    destruct (insert_spec identity id' true (fr_ids fr)) as [(_ & Eins) | (l1 & e & l2 & El & Hm & _ & _)].
    2:{ exfalso. assert (He : In e (fr_ids fr)) by (rewrite El; apply in_or_app; right; left; reflexivity).
        rewrite (Hnm e He) in Hm. discriminate. }
    cbn [set_fr_ids fr_ids] in *. rewrite Eins.
    destruct (Halloc (fr_ids fr) t3 (fun x Hx => Hx) Hfnd H3 Hslg (fr_ids fr ++ [mk_entry identity id' true])) with (cn := (id', CN (fst q) (ckey_of skind t3 q) idv (cnt_get (fr_occ fr) idv))
          :: filter (fun kv : handle * cname => negb (handle_eqb (fst kv) id')) (d_cname t3)) as [IO Hl].
    + intros x Hx. rewrite map_app in Hx. apply in_app_or in Hx. destruct Hx as [Hx | [<- | []]]; auto.
    + rewrite map_app. apply in_or_app. right. left. reflexivity.
    + intros Hnd Hfr. rewrite map_app. cbn [map mk_entry te_id]. apply nodup_fst_append; assumption.
    + split; [exact IO|]. split; [|exact Hl].
      unfold frame_ids. cbn [fr_ids set_fr_ids]. rewrite map_app. apply in_or_app. right. left. reflexivity.
  - (* an entry exists: update *)
    assert (Hide : In (te_id e) (frame_ids fr)).
    { unfold frame_ids. rewrite El, frame_ids_app. apply in_or_app. right. left. reflexivity. }
    assert (Hown_e : owns s F (OwF q) (te_id e)) by exact (owns_frame s F q fr _ Hq Hide).
    destruct (oi_live _ _ _ I _ _ Hown_e) as (sle & Hsle & Hule & Hgle).
    assert (Hact_ids : map te_id (l1 ++ act e :: l2) = frame_ids fr).
    { unfold frame_ids. rewrite El, !frame_ids_app. reflexivity. }
    msplit H0 as u t3 H3.
    destruct (update_spec n (te_id e) st idv f0 f1 s t3 u H3) as (sl & Hs & Hu & UR).
    rewrite Hsle in Hs. injection Hs as <-.
    destruct UR as [Hlk | Hnl Hng | t3 Hnl Hsame Hng B Es | t3 g' ex s1 Hnl Hdiff Hng C Hroot P B Es].
    + (* read-locked in this revision: nothing changes *)
      rewrite handle_eqb_refl in H0. mstep H0. injection Eret as -> ->. cbn [fst snd] in *.
      rewrite Hsle in Hslg. injection Hslg as <-.
      split; [|split].
      * apply (oinv_frames skind _ F) with (F' := set_frame F q (set_fr_ids fr1 (l1 ++ act e :: l2))).
        -- apply (oinv_rewrite skind s F _ (fst (te_id e)) sle sle I Hsle Hule Hule); cbn [set_ideal set_cname d_revs d_memo d_nslots d_free d_slots d_ideal].
           ++ reflexivity.
           ++ intros fam. left. reflexivity.
           ++ reflexivity.
           ++ reflexivity.
           ++ reflexivity.
           ++ reflexivity.
           ++ intros j. unfold updN. destruct (N.eqb_spec (fst (te_id e)) j) as [<- | ?]; [exact Hsle | reflexivity].
           ++ auto.
           ++ right. rewrite Hgle. destruct (te_id e); reflexivity.
        -- apply flocs_set_frame.
        -- intros q' fr0 Hin. apply (in_set_frame F q fr _ q' fr0 HF Hq) in Hin.
           destruct Hin as [[-> ->] | [_ Hin]].
           ++ exists fr. split; [exact Hq|]. unfold frame_ids at 1 3. cbn [fr_ids set_fr_ids]. rewrite Hact_ids.
              split; [auto | exact Hfnd].
           ++ exists fr0. split; [exact Hin|]. split; [auto|].
              apply (oi_nodup _ _ _ I (OwF q')). exists fr0. auto.
      * unfold frame_ids. cbn [fr_ids set_fr_ids]. rewrite Hact_ids. exact Hide.
      * exists sle. cbn [set_ideal set_cname d_slots]. auto.
    + (* generation exhausted: the old slot is leaked, a new one is allocated *)
      msplit H0 as id' t4 H4. mstep H0. injection Eret as -> ->. cbn [fst snd] in *.
      destruct (insert_spec identity id' true (l1 ++ act e :: l2)) as [(Hn2 & _) | (l1' & e' & l2' & El' & Hm' & Hn' & Eins)].
      { exfalso. assert (He : In (act e) (l1 ++ act e :: l2)) by (apply in_or_app; right; left; reflexivity).
        pose proof (Hn2 _ He) as Hx. cbn [act te_ident] in Hx. rewrite Hm in Hx. discriminate. }
      destruct (nomatch_split identity _ _ _ _ _ _ El' Hm Hnm Hm' Hn') as (<- & <- & <-).
      cbn [set_fr_ids fr_ids] in *. rewrite Eins.
      destruct (Halloc (l1 ++ act e :: l2) t4) with (ids3 := l1 ++ mk_entry identity id' true :: l2)
           (cn := (id', CN (fst q) (ckey_of skind t4 q) idv (cnt_get (fr_occ fr) idv))
          :: filter (fun kv : handle * cname => negb (handle_eqb (fst kv) id')) (d_cname t4)) as [IO Hl]; auto.
      * intros x Hx. rewrite Hact_ids in Hx. exact Hx.
      * rewrite Hact_ids. exact Hfnd.
      * intros x. rewrite !frame_ids_app. cbn [mk_entry te_id act]. intros Hx.
        apply in_app_or in Hx. destruct Hx as [Hx | [<- | Hx]]; [left; apply in_or_app; auto | right; reflexivity | left; apply in_or_app; right; right; exact Hx].
      * rewrite frame_ids_app. apply in_or_app. right. left. reflexivity.
      * intros Hnd Hfr. rewrite frame_ids_app in *. cbn [mk_entry te_id act] in *.
        apply (nodup_fst_replace _ _ (te_id e)); [exact Hnd|]. right.
        rewrite <- frame_ids_app. change (map te_id (l1 ++ e :: l2)) with (map te_id (l1 ++ e :: l2)).
        rewrite <- El. exact Hfr.
      * split; [exact IO|]. split; [|exact Hl].
        unfold frame_ids. cbn [fr_ids set_fr_ids]. rewrite frame_ids_app. apply in_or_app. right. left. reflexivity.
    + (* updated in place, same identity value: same id *)
      rewrite handle_eqb_refl in H0. mstep H0. injection Eret as -> ->. cbn [fst snd] in *.
      assert (Eslg : slg = upd_slot sle (sl_gen sle) st (cur s) idv f0 f1 true).
      { rewrite Es, updN_same in Hslg. injection Hslg; auto. }
      split; [|split].
      * apply (oinv_frames skind _ F) with (F' := set_frame F q (set_fr_ids fr1 (l1 ++ act e :: l2))).
        -- apply (oinv_rewrite skind s F _ (fst (te_id e)) sle slg I Hsle Hule); cbn [set_ideal set_cname d_revs d_memo d_nslots d_free d_slots d_ideal].
           ++ rewrite Eslg. discriminate.
           ++ rewrite Eslg. reflexivity.
           ++ intros fam. left. rewrite Eslg. reflexivity.
           ++ exact (sb_revs _ _ B).
           ++ exact (sb_memo _ _ B).
           ++ exact (sb_nslots _ _ B).
           ++ exact (sb_free _ _ B).
           ++ intros j. rewrite Es, Eslg. reflexivity.
           ++ intros Hc. contradiction.
           ++ right. rewrite (sb_ideal _ _ B), Hgle. destruct (te_id e); reflexivity.
        -- apply flocs_set_frame.
        -- intros q' fr0 Hin. apply (in_set_frame F q fr _ q' fr0 HF Hq) in Hin.
           destruct Hin as [[-> ->] | [_ Hin]].
           ++ exists fr. split; [exact Hq|]. unfold frame_ids at 1 3. cbn [fr_ids set_fr_ids]. rewrite Hact_ids.
              split; [auto | exact Hfnd].
           ++ exists fr0. split; [exact Hin|]. split; [auto|].
              apply (oi_nodup _ _ _ I (OwF q')). exists fr0. auto.
      * unfold frame_ids. cbn [fr_ids set_fr_ids]. rewrite Hact_ids. exact Hide.
      * exists slg. cbn [set_ideal set_cname d_slots]. rewrite Eslg in *. cbn [upd_slot sl_updated sl_gen].
        repeat split; [exact Hslg | discriminate | exact Hgle].
    + (* identity value changed under the same hash: memos cleared, generation bumped *)
      set (i := fst (te_id e)) in *.
      assert (Hne : handle_eqb (i, g') (te_id e) = false).
      { apply handle_eqb_neq. intros E. apply next_gen_gt in Hng. rewrite <- E in Hng. cbn [snd] in Hng. lia. }
      rewrite Hne in H0. mstep H0. injection Eret as -> ->. cbn [fst snd] in *.
      assert (Eslg : slg = upd_slot sle g' st (cur s) idv f0 f1 false).
      { rewrite Es, updN_same in Hslg. injection Hslg; auto. }
      destruct (insert_spec identity (i, g') true (l1 ++ act e :: l2)) as [(Hn2 & _) | (l1' & e' & l2' & El' & Hm' & Hn' & Eins)].
      { exfalso. assert (He : In (act e) (l1 ++ act e :: l2)) by (apply in_or_app; right; left; reflexivity).
        pose proof (Hn2 _ He) as Hx. cbn [act te_ident] in Hx. rewrite Hm in Hx. discriminate. }
      destruct (nomatch_split identity _ _ _ _ _ _ El' Hm Hnm Hm' Hn') as (<- & <- & <-).
      cbn [set_fr_ids fr_ids] in *. rewrite Eins. clear Eins El'.
      (* the conceptual intermediate states: memo table of slot i emptied, then the cascade *)
      set (slM := set_sl_memos sle (fun _ => None)).
      set (sM := set_slots s (updN (d_slots s) i (Some slM))).
      set (s1M := set_slots s1 (updN (d_slots s1) i (Some slM))).
      assert (IM : OInv sM F).
      { apply (oinv_rewrite skind s F sM i sle slM I Hsle Hule); cbn [sM slM set_slots set_sl_memos d_revs d_memo d_nslots d_free d_slots d_ideal sl_updated sl_gen sl_memos].
        - exact Hule.
        - reflexivity.
        - intros fam. right. reflexivity.
        - reflexivity.
        - reflexivity.
        - reflexivity.
        - reflexivity.
        - intros j. reflexivity.
        - auto.
        - left. auto. }
      set (slT := {| sl_gen := sl_gen sle; sl_updated := None; sl_dur := sl_dur sle; sl_idv := idv; sl_f0 := f0;
                     sl_f1 := f1; sl_rev0 := if sl_f0 sle =? f0 then sl_rev0 sle else snd st; sl_rev1 := snd st;
                     sl_memos := sl_memos sle |}) in *.
      set (sT := set_slots s (updN (d_slots s) i (Some slT))) in *.
      assert (CM : casc sM s1M ex).
      { constructor; cbn [sM s1M set_slots d_revs d_ccount d_in d_cell d_memo d_nslots d_stack d_cname d_ideal d_free d_slots].
        - exact (cs_revs _ _ _ C).
        - exact (cs_cc _ _ _ C).
        - exact (cs_in _ _ _ C).
        - exact (cs_cell _ _ _ C).
        - exact (cs_memo _ _ _ C).
        - exact (cs_nslots _ _ _ C).
        - exact (cs_stack _ _ _ C).
        - exact (cs_cname _ _ _ C).
        - exact (cs_ideal _ _ _ C).
        - exact (cs_free _ _ _ C).
        - exact (cs_nodup _ _ _ C).
        - intros c Hc. destruct (cs_died _ _ _ C c Hc) as (slc & Hsc & Huc & Hlc & Hdc).
          assert (Hci : fst c <> i). { intros E. apply Hroot. rewrite <- E. apply in_map. exact Hc. }
          exists slc. unfold sT in Hsc. cbn [set_slots d_slots] in Hsc. rewrite updN_other in Hsc by congruence.
          rewrite !updN_other by congruence. auto.
        - intros j Hj. unfold updN. destruct (N.eqb_spec i j) as [<- | E]; [reflexivity|].
          rewrite (cs_other _ _ _ C j Hj). unfold sT. cbn [set_slots d_slots]. apply updN_other. exact E. }
      assert (Hchild : forall c, In c (flat_map (memo_roots sle) sfams) ->
                exists fam m, In fam sfams /\ sl_memos sle fam = Some m /\ In c (mids m) /\
                              owns s F (OwM (fam, i)) c).
      { intros c Hc. destruct (in_memo_roots sfams _ _ Hc) as (fam & m & Hf & Hmm & Hcm).
        exists fam, m. repeat split; auto. exists (mids m). split; [|exact Hcm].
        cbn [Machine.owner_ids]. split.
        - intros (q' & fr0 & Hin & Eloc).
          assert (Hk : skind (fst q') = true).
          { unfold loc_of in Eloc. injection Eloc as Eloc _. rewrite Eloc. exact (sfams_skind _ Hf). }
          destruct (oi_locked _ _ _ I q' fr0 Hin Hk) as (sl0 & Hs0 & Hu0).
          unfold loc_of in Eloc. injection Eloc as _ Eloc. rewrite Eloc in Hs0. fold i in Hsle.
          rewrite Hsle in Hs0. injection Hs0 as <-. contradiction.
        - exists m. split; [|reflexivity]. unfold Machine.peek_memo. cbn [fst snd]. fold i in Hsle.
          rewrite (sfams_skind _ Hf), Hsle. destruct (sl_updated sle); [exact Hmm | contradiction Hule; reflexivity]. }
      assert (Hci : forall c, In c (flat_map (memo_roots sle) sfams) -> fst c <> i).
      { intros c Hc E. destruct (Hchild c Hc) as (fam & m & _ & _ & _ & Hoc).
        pose proof (oi_uniq _ _ _ I _ _ _ _ Hoc Hown_e E) as Eo. discriminate. }
      assert (PM : parents sfams sM (flat_map (memo_roots sle) sfams) ex).
      { intros c Hc. destruct (P c Hc) as [Hr | (p & Hp & slp & fam & m & Hsp & Hf & Hmm & Hcm)]; [left; exact Hr|].
        right. exists p. split; [exact Hp|].
        assert (Hpi : fst p <> i). { intros E. apply Hroot. rewrite <- E. apply in_map. exact Hp. }
        exists slp, fam, m. unfold sT in Hsp. cbn [set_slots d_slots] in Hsp. rewrite updN_other in Hsp by congruence.
        cbn [sM set_slots d_slots]. rewrite updN_other by congruence. auto. }
      assert (I1M : OInv s1M F).
      { apply (oinv_casc skind sfams sfams_skind sM F s1M ex (flat_map (memo_roots sle) sfams) IM CM PM).
        - intros c Hc. destruct (Hchild c Hc) as (fam & m & _ & _ & _ & Hoc).
          destruct (oi_live _ _ _ I _ _ Hoc) as (slc & Hsc & Huc & Hgc). exists slc.
          cbn [sM set_slots d_slots]. rewrite updN_other by (pose proof (Hci c Hc); congruence). auto.
        - intros c o x Hc Hox E. destruct (Hchild c Hc) as (fam & m & Hf & Hmm & Hcm & Hoc).
          assert (Hoxs : owns s F o x).
          { destruct Hox as (ids & Ho & Hin). exists ids. split; [|exact Hin].
            apply (owner_ids_peek skind s sM F o ids); [|exact Ho].
            intros l m0. unfold Machine.peek_memo. cbn [sM set_slots d_memo d_slots].
            destruct (skind (fst l)); [|auto]. unfold updN. destruct (N.eqb_spec i (snd l)) as [<- | En]; [|auto].
            cbn [slM set_sl_memos sl_updated sl_memos]. destruct (sl_updated sle); discriminate. }
          pose proof (oi_uniq _ _ _ I _ _ _ _ Hoxs Hoc E) as Eo. subst o.
          destruct Hox as (ids & (_ & m0 & Hm0 & _) & _).
          unfold Machine.peek_memo in Hm0. cbn [fst snd sM set_slots d_slots] in Hm0.
          rewrite (sfams_skind _ Hf), updN_same in Hm0. cbn [slM set_sl_memos sl_updated sl_memos] in Hm0.
          destruct (sl_updated sle); discriminate. }
      assert (Hs1Mi : d_slots s1M i = Some slM) by (cbn [s1M set_slots d_slots]; apply updN_same).
      split; [|split].
      * apply (oinv_newgen skind s1M F _ q fr (set_fr_ids fr1 (l1 ++ mk_entry identity (i, g') true :: l2)) i g' slg I1M Hq);
          cbn [frame_ids fr_ids set_fr_ids set_ideal set_cname d_slots d_nslots d_free d_ideal d_revs d_memo s1M set_slots].
        -- unfold frame_ids; cbn [fr_ids set_fr_ids]. rewrite frame_ids_app. apply in_or_app. right. left. reflexivity.
        -- intros x. unfold frame_ids; cbn [fr_ids set_fr_ids]. rewrite frame_ids_app. cbn [mk_entry te_id]. rewrite El, frame_ids_app.
           intros Hx. apply in_app_or in Hx. destruct Hx as [Hx | [<- | Hx]];
             [left; apply in_or_app; auto | right; reflexivity | left; apply in_or_app; right; right; exact Hx].
        -- unfold frame_ids; cbn [fr_ids set_fr_ids]. rewrite frame_ids_app. cbn [mk_entry te_id].
           apply (nodup_fst_replace _ _ (te_id e)); [|left; reflexivity].
           rewrite <- frame_ids_app. rewrite <- El. exact Hfnd.
        -- intros sl0 Hs0 _ fam. rewrite updN_same in Hs0. injection Hs0 as <-. reflexivity.
        -- intros sl0 Hs0. rewrite updN_same in Hs0. injection Hs0 as <-. cbn [slM set_sl_memos sl_gen].
           apply next_gen_gt in Hng. lia.
        -- intros o x Hox E. apply (oi_uniq _ _ _ I1M o (OwF q) x (te_id e) Hox); [|exact E].
           exact (owns_frame s1M F q fr _ Hq Hide).
        -- intros j. rewrite Es, Eslg. unfold updN. destruct (i =? j); reflexivity.
        -- rewrite Eslg. cbn [upd_slot sl_updated]. rewrite (casc_cur _ _ _ CM). reflexivity.
        -- rewrite Eslg. reflexivity.
        -- intros fam. rewrite Eslg. reflexivity.
        -- intros Hn. rewrite updN_same in Hn. discriminate.
        -- intros _. rewrite (sb_nslots _ _ B). reflexivity.
        -- intros x Hx. rewrite (sb_free _ _ B) in Hx. split; [exact Hx|].
           intros E. destruct x as [xi xg]. cbn [fst] in E. subst xi.
           destruct (oi_free _ _ _ I1M i xg Hx) as (sl0 & Hs0 & Hu0 & _).
           rewrite Hs1Mi in Hs0. injection Hs0 as <-. cbn [slM set_sl_memos sl_updated] in Hu0. contradiction.
        -- rewrite (sb_free _ _ B). exact (oi_free_nodup _ _ _ I1M).
        -- rewrite (sb_ideal _ _ B). reflexivity.
        -- rewrite (sb_revs _ _ B). reflexivity.
        -- rewrite (sb_memo _ _ B). reflexivity.
      * unfold frame_ids. cbn [fr_ids set_fr_ids]. rewrite frame_ids_app. apply in_or_app. right. left. reflexivity.
      * exists slg. cbn [set_ideal set_cname d_slots fst snd]. rewrite Eslg in *. repeat split; [exact Hslg | discriminate].
Qed.


(* ---- completion of an execution ---- *)
Lemma in_insert_sorted (x y : ident * handle) l : In y (insert_sorted x l) <-> y = x \/ In y l.
Proof.
  induction l as [|z l IH]; cbn [insert_sorted].
  - split; [intros [<- | []]; auto | intros [-> | []]; left; reflexivity].
  - destruct (handle_ltb (snd x) (snd z)).
    + split; [intros [<- | H]; auto | intros [-> | H]; [left; reflexivity | right; exact H]].
    + split.
      * intros [<- | H]; [right; left; reflexivity|]. apply IH in H. destruct H; auto. right; right; auto.
      * intros [-> | [<- | H]]; [right; apply IH; auto | left; reflexivity | right; apply IH; auto].
Qed.

Lemma in_sorted l y : In y (fold_right insert_sorted [] l) <-> In y l.
Proof.
  induction l as [|x l IH]; cbn [fold_right]; [reflexivity|].
  rewrite in_insert_sorted, IH. split; intros [H | H]; [left; auto | right; exact H | left; auto | right; exact H].
Qed.

Lemma map_inj_nodup {A B} (f : A -> B) l a b : NoDup (map f l) -> In a l -> In b l -> f a = f b -> a = b.
Proof.
  induction l as [|x l IH]; cbn [map]; intros Hnd Ha Hb E; [destruct Ha|].
  apply NoDup_cons_iff in Hnd. destruct Hnd as [Hx Hr].
  destruct Ha as [-> | Ha], Hb as [-> | Hb].
  - reflexivity.
  - exfalso. apply Hx. rewrite E. apply in_map. exact Hb.
  - exfalso. apply Hx. rewrite <- E. apply in_map. exact Ha.
  - exact (IH Hr Ha Hb E).
Qed.

Lemma nodup_map_filter {A B} (f : A -> B) (P : A -> bool) l : NoDup (map f l) -> NoDup (map f (filter P l)).
Proof.
  induction l as [|x l IH]; cbn [map filter]; intros Hnd; [constructor|].
  apply NoDup_cons_iff in Hnd. destruct Hnd as [Hx Hr]. destruct (P x); cbn [map]; [|exact (IH Hr)].
  constructor; [|exact (IH Hr)]. intros Hin. apply Hx. apply in_map_iff in Hin. destruct Hin as (y & E & Hy).
  apply filter_In in Hy. apply in_map_iff. exists y. split; [exact E | exact (proj1 Hy)].
Qed.

Lemma store_memo_spec q m s s' u :
  store_memo skind q m s = (s', SOk u) ->
  d_revs s' = d_revs s /\ d_nslots s' = d_nslots s /\ d_free s' = d_free s /\ d_ideal s' = d_ideal s /\
  ((skind (fst q) = false /\ (forall l, d_memo s' l = upd (d_memo s) (loc_of q) (Some m) l) /\
    (forall j, d_slots s' j = d_slots s j)) \/
   (skind (fst q) = true /\ (forall l, d_memo s' l = d_memo s l) /\
    exists sl, d_slots s (fst (snd q)) = Some sl /\
      forall j, d_slots s' j = updN (d_slots s) (fst (snd q))
                                   (Some (set_sl_memos sl (updN (sl_memos sl) (fst q) (Some m)))) j)).
Proof.
  unfold store_memo. destruct (skind (fst q)) eqn:Hk; intros H.
  - msplit H as sl t0 H0. apply get_slot_ok in H0. destruct H0 as [-> Hs].
    apply put_slot_ok in H. subst s'. repeat split; try reflexivity.
    right. split; [reflexivity|]. split; [reflexivity|]. exists sl. split; [exact Hs | reflexivity].
  - mstep H. repeat split; try reflexivity. left. repeat split; reflexivity.
Qed.

Lemma lock_owner_ids i s s' sl' F o ids :
  acquire_read_lock i s = (s', SOk sl') -> owner_ids s F o ids -> owner_ids s' F o ids.
Proof.
  intros H. destruct (lock_spec _ _ _ _ H) as (sl & Hs & Hu & Hu' & Hg & Hm & Hf & _ & _ & _ & B & _ & Es).
  destruct o as [q | l]; cbn [Machine.owner_ids]; [auto|].
  intros (Hna & m & Hpm & ->). split; [exact Hna|]. exists m. split; [|reflexivity].
  rewrite <- Hpm. apply peek_memo_ext; [exact (sb_memo _ _ B) | |].
  - intros sl0 H0 Hu0. rewrite Es. unfold updN. destruct (N.eqb_spec i (snd l)) as [-> | E].
    + rewrite Hs in H0. injection H0 as <-. exists sl'. repeat split; [rewrite Hu'; discriminate | apply Hm].
    + exists sl0. auto.
  - intros sl0'. rewrite Es. unfold updN. destruct (N.eqb_spec i (snd l)) as [-> | E].
    + intros _ _. exists sl. auto.
    + intros H0 Hu0. exists sl0'. auto.
Qed.

Lemma put_memo_oinv s F F' q m (src : owner) s' u :
  OInv s F -> put_memo skind q m s = (s', SOk u) ->
  (forall q' fr', In (q', fr') F' -> In (q', fr') F) -> NoDup (flocs F') ->
  (forall l', l' <> loc_of q -> active_loc F l' -> active_loc F' l') ->
  NoDup (map fst (mids m)) ->
  (forall h, In h (mids m) -> exists ids0, owner_ids s F src ids0 /\ In h ids0) ->
  (src = OwM (loc_of q) \/ forall s2 ids, ~ owner_ids s2 F' src ids) ->
  OInv s' F'.
Proof.
  intros I H Hsub Hnd Hact Hmnd Hsrc Hinj. unfold put_memo in H.
  msplit H as u0 t0 H0.
  assert (I0 : OInv t0 F /\ (forall o ids, owner_ids s F o ids -> owner_ids t0 F o ids) /\
               (skind (fst q) = true -> exists sl, d_slots t0 (fst (snd q)) = Some sl /\ sl_updated sl <> None)).
  { destruct (skind (fst q)) eqn:Hk.
    - msplit H0 as sl0 t1 H1. mstep H0. split; [exact (lock_oinv _ _ _ _ _ I H1)|]. split.
      + intros o ids. exact (lock_owner_ids _ _ _ _ _ _ _ H1).
      + intros _. destruct (lock_spec _ _ _ _ H1) as (sl & Hs & Hu & Hu' & _ & _ & _ & _ & _ & _ & _ & _ & Es).
        exists sl0. rewrite Es, updN_same. split; [reflexivity | rewrite Hu'; discriminate].
    - mstep H0. split; [exact I|]. split; [auto | discriminate]. }
  destruct I0 as (I0 & Htr & Hlive).
  destruct (store_memo_spec _ _ _ _ _ H) as (Er & En & Ef & Ei & Hcase).
  apply (oinv_store skind t0 F s' F' q m src I0 Er En Ef Ei); auto.
  - destruct Hcase as [Hc | (Hk & Em & sl & Hs & Es)]; [left; exact Hc|]. right.
    split; [exact Hk|]. split; [exact Em|].
    destruct (Hlive Hk) as (sl0 & Hs0 & Hu0). rewrite Hs in Hs0. injection Hs0 as <-.
    exists sl, (set_sl_memos sl (updN (sl_memos sl) (fst q) (Some m))).
    repeat split; auto.
    + rewrite Es. apply updN_same.
    + intros j Hj. rewrite Es. apply updN_other. congruence.
    + cbn [set_sl_memos sl_memos]. apply updN_same.
    + intros fam Hf. cbn [set_sl_memos sl_memos]. apply updN_other. congruence.
  - intros _ h Hh. destruct (Hsrc h Hh) as (ids0 & Ho & Hin). exists ids0. split; [exact (Htr _ _ Ho) | exact Hin].
  - destruct Hinj as [-> | Hno]; [left; reflexivity | right; intros ids; exact (Hno s' ids)].
Qed.

Definition diff_roots (old : memo) (stale : list (ident * handle)) : list handle :=
  match m_origin old with OAssigned _ => [] | _ => map snd stale end.

Lemma diff_outputs_casc n old key stale new_edges s s' :
  diff_outputs sfams n old key stale new_edges s = (s', SOk tt) ->
  exists e, casc s s' e /\ parents sfams s (diff_roots old stale) e /\
            (forall r, In r (diff_roots old stale) -> In r e).
Proof.
  unfold diff_outputs, diff_roots. intros H.
  destruct (m_origin old) as [| | by_] eqn:Eo.
  1,2: msplit H as u0 t0 H0; destruct u0;
    assert (H1 : exists e, casc s t0 e /\ parents sfams s (flat_map (fun kv : ident * handle => [snd kv]) stale) e /\
                    (forall r, In r (flat_map (fun kv : ident * handle => [snd kv]) stale) -> In r e));
    [ refine (iterM_casc sfams _ (fun kv : ident * handle => [snd kv]) stale s t0 _ H0);
      intros kv s1 s2 _ Hf; msplit Hf as u1 t1 H1; apply emit_ok in H1; subst t1;
      destruct (delete_casc sfams n _ _ _ Hf) as (e & C & Hin & P);
      exists e; split; [exact (casc_trans _ _ _ _ _ (casc_log s1 _) C)|]; split;
      [ intros c Hc; destruct (P c Hc) as [Hr | (p & Hp & slp & fam & m & Hs & Hfm & Hm & Hcm)];
        [left; exact Hr | right; exists p; split; [exact Hp | exists slp, fam, m; auto]]
      | intros r [<- | []]; exact Hin ]
    | destruct H1 as (e & C & P & R);
      assert (H2 : casc t0 s' []);
      [ clear -H; revert t0 H; induction (fold_left swap_remove (outputs_of new_edges) (outputs_of (m_edges old))) as [|o l IH];
        intros t0 H; cbn [iterM] in H;
        [ mstep H; apply casc_refl
        | msplit H as u2 t2 H2; apply emit_ok in H2; subst t2;
          pose proof (casc_trans _ _ _ _ _ (casc_log t0 _) (IH _ H)) as T; exact T ]
      | exists e; split;
        [ pose proof (casc_trans _ _ _ _ _ C H2) as T; rewrite app_nil_r in T; exact T |];
        assert (Hflat : forall r, In r (flat_map (fun kv : ident * handle => [snd kv]) stale) <-> In r (map snd stale));
        [ intros r; rewrite in_flat_map, in_map_iff; split;
          [ intros (kv & Hkv & [<- | []]); eauto
          | intros (kv & <- & Hkv); exists kv; split; [exact Hkv | left; reflexivity] ]
        | split;
          [ intros c Hc; destruct (P c Hc) as [Hr | Hp]; [left; apply Hflat; exact Hr | right; exact Hp]
          | intros r Hr; apply R; apply Hflat; exact Hr ] ] ] ].
  mstep H. exists []. split; [apply casc_refl|]. split; [intros c [] | intros r []].
Qed.


Lemma drain_active l : map snd (fst (drain l)) = map te_id (filter te_active l).
Proof. unfold drain. cbn [fst]. rewrite map_map. reflexivity. Qed.

Lemma drain_stale l r : In r (map snd (snd (drain l))) <-> In r (map te_id (filter (fun e => negb (te_active e)) l)).
Proof.
  unfold drain. cbn [snd]. rewrite !in_map_iff. split.
  - intros (kv & <- & Hkv). apply (proj1 (in_sorted _ _)) in Hkv. apply in_map_iff in Hkv. destruct Hkv as (e & <- & He).
    exists e. auto.
  - intros (e & <- & He). exists (te_ident e, te_id e). split; [reflexivity|]. apply (proj2 (in_sorted _ _)).
    apply in_map_iff. exists e. auto.
Qed.

Lemma finish_oinv n q old v fr s F s' m :
  OInv s F -> In (q, fr) F ->
  finish_exec skind sfams n q old v fr s = (s', SOk m) ->
  OInv s' (del_frame F q) /\ mids m = map te_id (filter te_active (fr_ids fr)).
Proof.
  intros I Hq H. unfold finish_exec in H.
  destruct (drain (fr_ids fr)) as [active stale] eqn:Ed.
  destruct (backdate old (fr_dur fr) (fr_changed fr) v) as [ch | p |]; [|mstep H|mstep H].
  msplit H as u0 t0 H0. msplit H as x t1 H1. mstep H1. msplit H as u2 t2 H2. mstep H.
  set (mm := {| m_val := Some v; m_verified := cur t0; m_changed := ch; m_dur := fr_dur fr;
                m_origin := if fr_untracked fr then OUntracked else ODerived;
                m_edges := if (fr_dur fr =? D_NEVER) && negb (fr_untracked fr) then [] else fr_edges fr;
                m_structs := active |}) in *.
  assert (Hact : mids mm = map te_id (filter te_active (fr_ids fr))).
  { unfold mids, mm. cbn [m_structs]. pose proof (drain_active (fr_ids fr)) as D. rewrite Ed in D. exact D. }
  split; [|exact Hact].
  assert (HF : NoDup (flocs F)) by exact (oi_frames _ _ _ I).
  assert (Hfnd : NoDup (map fst (frame_ids fr))).
  { apply (oi_nodup _ _ _ I (OwF q)). exists fr. auto. }
  assert (Hfnd' : NoDup (map (fun x => fst (te_id x)) (fr_ids fr))).
  { unfold frame_ids in Hfnd. rewrite map_map in Hfnd. exact Hfnd. }
  set (frA := set_fr_ids fr (filter te_active (fr_ids fr))).
  set (F1 := set_frame F q frA).
  assert (HF1 : forall q' fr', In (q', fr') F1 <-> (q' = q /\ fr' = frA) \/ (q' <> q /\ In (q', fr') F)).
  { intros q' fr'. exact (in_set_frame F q fr frA q' fr' HF Hq). }
  assert (I1 : OInv s F1).
  { apply (oinv_frames skind s F F1 I); [apply flocs_set_frame|].
    intros q' fr' Hin. apply HF1 in Hin. destruct Hin as [[-> ->] | [_ Hin]].
    - exists fr. split; [exact Hq|]. unfold frame_ids, frA. cbn [fr_ids set_fr_ids]. split.
      + intros h Hh. apply in_map_iff in Hh. destruct Hh as (e & <- & He). apply filter_In in He.
        apply in_map. exact (proj1 He).
      + rewrite map_map. apply nodup_map_filter. exact Hfnd'.
    - exists fr'. split; [exact Hin|]. split; [auto|]. apply (oi_nodup _ _ _ I (OwF q')). exists fr'. auto. }
  (* the stale entries are live, and nobody (else) holds their slots *)
  assert (Hstale : forall r, In r (map snd stale) ->
            live s r /\ forall o h, owns s F1 o h -> fst h <> fst r).
  { intros r Hr. pose proof (drain_stale (fr_ids fr) r) as D. rewrite Ed in D. cbn [snd] in D.
    apply D in Hr. apply in_map_iff in Hr. destruct Hr as (e & <- & He). apply filter_In in He. destruct He as [He Hina].
    assert (Hown : owns s F (OwF q) (te_id e)).
    { apply (owns_frame s F q fr); [exact Hq | apply in_map; exact He]. }
    split; [exact (oi_live _ _ _ I _ _ Hown)|].
    intros o h (ids & Ho & Hin) E.
    destruct o as [q' | l]; cbn [Machine.owner_ids] in Ho.
    - destruct Ho as (fr' & Hin' & ->). apply HF1 in Hin'. destruct Hin' as [[-> ->] | [Hne Hin']].
      + unfold frame_ids, frA in Hin. cbn [fr_ids set_fr_ids] in Hin. apply in_map_iff in Hin.
        destruct Hin as (e2 & <- & He2). apply filter_In in He2. destruct He2 as [He2 Hact2].
        assert (e2 = e).
        { apply (map_inj_nodup (fun x => fst (te_id x)) (fr_ids fr)); auto. }
        subst e2. rewrite Hact2 in Hina. discriminate.
      + assert (Ho2 : owns s F (OwF q') h) by (exact (owns_frame s F q' fr' h Hin' Hin)).
        pose proof (oi_uniq _ _ _ I _ _ _ _ Ho2 Hown E) as Eo. injection Eo as ->. contradiction.
    - destruct Ho as (Hna & m0 & Hm0 & ->).
      assert (Ho2 : owns s F (OwM l) h).
      { exists (mids m0). split; [|exact Hin]. split; [|exists m0; auto].
        intros Ha. apply Hna. apply active_loc_flocs. unfold F1. rewrite flocs_set_frame. apply active_loc_flocs. exact Ha. }
      pose proof (oi_uniq _ _ _ I _ _ _ _ Ho2 Hown E) as Eo. discriminate. }
  assert (IB : OInv t0 F1).
  { destruct old as [o|].
    - destruct u0. destruct (diff_outputs_casc n o q stale (fr_edges fr) s t0 H0) as (e & C & P & R).
      apply (oinv_casc skind sfams sfams_skind s F1 t0 e (diff_roots o stale) I1 C P).
      + intros r Hr. apply Hstale. unfold diff_roots in Hr. destruct (m_origin o); auto. destruct Hr.
      + intros r o0 h Hr. apply (proj2 (Hstale r (ltac:(unfold diff_roots in Hr; destruct (m_origin o); auto; destruct Hr)))).
    - mstep H0. exact I1. }
  apply (put_memo_oinv t0 F1 (del_frame F q) q mm (OwF q) _ u2 IB H2).
  - intros q' fr' Hin. apply (in_del_frame F q fr q' fr' HF Hq) in Hin. apply HF1. right. exact Hin.
  - apply flocs_del_frame. exact HF.
  - intros l' Hne (q' & fr' & Hin & El). apply HF1 in Hin. destruct Hin as [[-> ->] | [Hnq Hin]]; [contradiction Hne; auto|].
    exists q', fr'. split; [|exact El]. apply (in_del_frame F q fr q' fr' HF Hq). auto.
  - rewrite Hact. rewrite map_map. apply nodup_map_filter. exact Hfnd'.
  - intros h Hh. exists (frame_ids frA). split; [exists frA; split; [apply HF1; left; auto | reflexivity]|].
    rewrite Hact in Hh. exact Hh.
  - right. intros s2 ids (fr' & Hin & _). apply (in_del_frame F q fr q fr' HF Hq) in Hin. destruct Hin as [Hne _]. contradiction.
Qed.


(* ---- specify ---- *)
Lemma is_active_in l h : is_active l h = true -> In h (map te_id l).
Proof.
  unfold is_active. destruct (find (fun e => handle_eqb (te_id e) h) l) as [e|] eqn:E; [|discriminate].
  intros _. apply find_some in E. destruct E as [He Eh]. apply handle_eqb_eq in Eh. subst h. apply in_map. exact He.
Qed.

Lemma put_memo_spec q m s s' u :
  skind (fst q) = true ->
  put_memo skind q m s = (s', SOk u) ->
  exists sl sl', d_slots s (fst (snd q)) = Some sl /\ sl_updated sl <> None /\
    d_slots s' (fst (snd q)) = Some sl' /\
    (forall j, j <> fst (snd q) -> d_slots s' j = d_slots s j) /\
    sl_updated sl' = Some (cur s) /\ sl_gen sl' = sl_gen sl /\ slot_fields sl' = slot_fields sl /\
    sl_memos sl' (fst q) = Some m /\ (forall fam, fam <> fst q -> sl_memos sl' fam = sl_memos sl fam) /\
    d_revs s' = d_revs s /\ d_nslots s' = d_nslots s /\ d_free s' = d_free s /\ d_ideal s' = d_ideal s /\
    d_memo s' = d_memo s.
Proof.
  intros Hk H. unfold put_memo in H. rewrite Hk in H.
  msplit H as u0 t0 H0. msplit H0 as sl0 t1 H1. mstep H0.
  destruct (lock_spec _ _ _ _ H1) as (sl & Hs & Hu & Hu' & Hg & Hm & Hf & _ & _ & _ & B & _ & Es).
  unfold store_memo in H. rewrite Hk in H.
  msplit H as sl2 t2 H2. apply get_slot_ok in H2. destruct H2 as [-> Hs2].
  apply put_slot_ok in H. subst s'.
  rewrite Es, updN_same in Hs2. injection Hs2 as <-.
  exists sl, (set_sl_memos sl0 (updN (sl_memos sl0) (fst q) (Some m))).
  cbn [set_slots d_slots d_revs d_nslots d_free d_ideal d_memo set_sl_memos sl_updated sl_gen sl_memos].
  repeat split; auto; try (destruct B; assumption).
  - apply updN_same.
  - intros j Hj. rewrite updN_other by congruence. rewrite Es. apply updN_other. congruence.
  - apply updN_same.
  - intros fam Hf'. rewrite updN_other by congruence. apply Hm.
Qed.

Lemma specify_oinv n q fam h v fr s F s' fr' :
  OInv s F -> In (q, fr) F -> skind fam = true -> ~ active_loc F (loc_of (fam, h)) ->
  specify skind sfams n q fam h v fr s = (s', SOk fr') ->
  OInv s' (set_frame F q fr') /\ frame_ids fr' = frame_ids fr.
Proof.
  intros I Hq Hk Hna H. unfold specify in H.
  assert (HF : NoDup (flocs F)) by exact (oi_frames _ _ _ I).
  assert (Hsame : forall t fr2, OInv t F -> frame_ids fr2 = frame_ids fr -> OInv t (set_frame F q fr2)).
  { intros t fr2 It E. apply (oinv_frames skind t F _ It); [apply flocs_set_frame|].
    intros q' fr0 Hin. apply (in_set_frame F q fr fr2 q' fr0 HF Hq) in Hin. destruct Hin as [[-> ->] | [_ Hin]].
    - exists fr. split; [exact Hq|]. rewrite E. split; [auto|]. apply (oi_nodup _ _ _ It (OwF q)). exists fr. auto.
    - exists fr0. split; [exact Hin|]. split; [auto|]. apply (oi_nodup _ _ _ It (OwF q')). exists fr0. auto. }
  destruct (is_active (fr_ids fr) h) eqn:Eact; cbn [negb] in H; [|mstep H].
  msplit H as x0 t0 H0. mstep H0.
  destruct (existsb (qk_eqb (fam, h)) (d_stack s)); [mstep H; split; [apply Hsame; auto | reflexivity]|].
  msplit H as om t1 H1. unfold get_memo in H1. cbn [fst snd] in H1. rewrite Hk in H1.
  msplit H1 as slL t2 H2. mstep H1.
  assert (IL : OInv t2 F) by exact (lock_oinv _ _ _ _ _ I H2).
  destruct (lock_spec _ _ _ _ H2) as (sl0 & Hs0 & Hu0 & HuL & HgL & HmL & HfL & _ & _ & _ & BL & _ & EsL).
  assert (HsL : d_slots t2 (fst h) = Some slL) by (rewrite EsL; apply updN_same).
  assert (HcurL : cur t2 = cur s) by exact (sbs_cur _ _ BL).
  msplit H as x1 t3 H3. mstep H3.
  msplit H as early t4 H4.
  assert (Hearly : t4 = t2 /\ frame_ids (snd early) = frame_ids fr).
  { destruct (sl_memos slL fam) as [old|].
    - destruct ((m_verified old =? cur t2) && match m_val old with Some _ => true | None => false end).
      + destruct (m_origin old) as [| | by_].
        * mstep H4. auto.
        * mstep H4. auto.
        * destruct (negb (qk_eqb by_ q)); [mstep H4|].
          destruct (existsb (edge_eqb (EOut (fam, h))) (fr_edges fr)); [mstep H4|]. mstep H4. auto.
      + mstep H4. auto.
    - mstep H4. auto. }
  destruct Hearly as [-> Hids].
  destruct (fst early); [mstep H; split; [apply Hsame; auto | reflexivity]|].
  destruct (backdate (sl_memos slL fam) (fr_dur (snd early)) (fr_changed (snd early)) v) as [ch | p |]; [|mstep H|mstep H].
  msplit H as u5 t5 H5. msplit H as u6 t6 H6. mstep H.
  set (newm := {| m_val := Some v; m_verified := cur t2; m_changed := ch; m_dur := fr_dur (snd early);
                  m_origin := OAssigned q; m_edges := []; m_structs := [] |}) in *.
  split; [|exact Hids].
  apply Hsame; [|exact Hids].
  set (i := fst h) in *.
  assert (Hh_own : owns t2 F (OwF q) h).
  { apply (owns_frame t2 F q fr h Hq). apply is_active_in. exact Eact. }
  (* the state with the old memo of (fam, h) conceptually removed *)
  set (slM := set_sl_memos slL (updN (sl_memos slL) fam None)).
  assert (Hput : forall sB sBM, OInv sBM F ->
            d_slots sB i = Some slL -> d_slots sBM i = Some slM ->
            (forall j, j <> i -> d_slots sBM j = d_slots sB j) ->
            d_revs sBM = d_revs sB -> d_nslots sBM = d_nslots sB -> d_free sBM = d_free sB ->
            d_ideal sBM = d_ideal sB -> d_memo sBM = d_memo sB -> d_revs sB = d_revs t2 ->
            put_memo skind (fam, h) newm sB = (t6, SOk u6) -> OInv t6 F).
  { intros sB sBM IBM HsB HsBM Hoth Er En Ef Ei Em Ert Hp.
    destruct (put_memo_spec (fam, h) newm sB t6 u6 Hk Hp)
      as (sl & sl' & Hs & Hu & Hs' & Hoth' & Hu' & Hg' & Hf' & Hmq & Hmo & Er' & En' & Ef' & Ei' & Em').
    cbn [fst snd] in *. fold i in Hs, Hs', Hoth'. rewrite HsB in Hs. injection Hs as <-.
    apply (oinv_store skind sBM F t6 F (fam, h) newm (OwM (loc_of (fam, h))) IBM).
    - congruence.
    - congruence.
    - congruence.
    - congruence.
    - right. split; [exact Hk|]. split; [intros l; congruence|].
      exists slM, sl'. cbn [fst snd]. fold i.
      split; [exact HsBM|]. split; [exact Hu|]. split; [exact Hs'|].
      split; [intros j Hj; rewrite Hoth' by exact Hj; symmetry; apply Hoth; exact Hj|].
      split; [rewrite Hu'; cbn [slM set_sl_memos sl_updated]; rewrite HuL; f_equal; rewrite <- HcurL; unfold cur; congruence|].
      split; [exact Hg'|]. split; [exact Hf'|]. split; [exact Hmq|].
      intros fam' Hf2. rewrite (Hmo fam' Hf2). cbn [slM set_sl_memos sl_memos]. symmetry. apply updN_other. congruence.
    - auto.
    - exact (oi_frames _ _ _ IBM).
    - auto.
    - intros _. cbn. constructor.
    - intros _ x [].
    - left. reflexivity. }
  assert (IM : OInv (set_slots t2 (updN (d_slots t2) i (Some slM))) F).
  { apply (oinv_rewrite skind t2 F _ i slL slM IL HsL); cbn [slM set_slots set_sl_memos d_revs d_memo d_nslots d_free d_slots d_ideal sl_updated sl_gen sl_memos].
    - rewrite HuL. discriminate.
    - rewrite HuL. discriminate.
    - reflexivity.
    - intros fam'. unfold updN. destruct (fam =? fam'); [right | left]; reflexivity.
    - reflexivity.
    - reflexivity.
    - reflexivity.
    - reflexivity.
    - intros j. reflexivity.
    - auto.
    - left. auto. }
  destruct (sl_memos slL fam) as [old|] eqn:Eold.
  2:{ mstep H5. apply (Hput t2 (set_slots t2 (updN (d_slots t2) i (Some slM))) IM HsL); cbn [set_slots d_slots d_revs d_nslots d_free d_ideal d_memo]; auto.
      - apply updN_same.
      - intros j Hj. apply updN_other. congruence. }
  destruct u5. destruct (diff_outputs_casc n old (fam, h) (m_structs old) [] t2 t5 H5) as (e & C & P & R).
  assert (Hroot : ~ In i (map fst e)).
  { intros Hin. apply in_map_iff in Hin. destruct Hin as (c & Ec & Hc).
    destruct (cs_died _ _ _ C c Hc) as (slc & Hsc & _ & Hlc & _). rewrite Ec, HsL in Hsc. injection Hsc as <-.
    apply Hlc. rewrite HuL, HcurL. reflexivity. }
  set (sM := set_slots t2 (updN (d_slots t2) i (Some slM))) in *.
  set (s1M := set_slots t5 (updN (d_slots t5) i (Some slM))).
  assert (CM : casc sM s1M e).
  { constructor; cbn [sM s1M set_slots d_revs d_ccount d_in d_cell d_memo d_nslots d_stack d_cname d_ideal d_free d_slots].
    - exact (cs_revs _ _ _ C).
    - exact (cs_cc _ _ _ C).
    - exact (cs_in _ _ _ C).
    - exact (cs_cell _ _ _ C).
    - exact (cs_memo _ _ _ C).
    - exact (cs_nslots _ _ _ C).
    - exact (cs_stack _ _ _ C).
    - exact (cs_cname _ _ _ C).
    - exact (cs_ideal _ _ _ C).
    - exact (cs_free _ _ _ C).
    - exact (cs_nodup _ _ _ C).
    - intros c Hc. destruct (cs_died _ _ _ C c Hc) as (slc & Hsc & Huc & Hlc & Hdc).
      assert (Hci : fst c <> i). { intros E. apply Hroot. rewrite <- E. apply in_map. exact Hc. }
      exists slc. rewrite !updN_other by congruence. auto.
    - intros j Hj. unfold updN. destruct (N.eqb_spec i j) as [<- | E]; [reflexivity|].
      exact (cs_other _ _ _ C j Hj). }
  assert (Hpk : forall l m0, peek_memo sM l = Some m0 -> peek_memo t2 l = Some m0).
  { intros l m0. unfold Machine.peek_memo. cbn [sM set_slots d_memo d_slots].
    destruct (skind (fst l)); [|auto]. unfold updN at 1. destruct (N.eqb_spec i (snd l)) as [<- | En]; [|auto].
    rewrite HsL. cbn [slM set_sl_memos sl_updated sl_memos]. destruct (sl_updated slL); [|discriminate].
    unfold updN. destruct (fam =? fst l); [discriminate | auto]. }
  assert (Hroots : forall r, In r (diff_roots old (m_structs old)) -> owns t2 F (OwM (fam, i)) r).
  { intros r Hr. exists (mids old). split.
    - split; [exact Hna|]. exists old. split; [|reflexivity]. unfold Machine.peek_memo. cbn [fst snd].
      rewrite Hk. fold i. rewrite HsL, HuL. exact Eold.
    - unfold diff_roots in Hr. destruct (m_origin old); auto. destruct Hr. }
  assert (I1M : OInv s1M F).
  { apply (oinv_casc skind sfams sfams_skind sM F s1M e (diff_roots old (m_structs old)) IM CM).
    - intros c Hc. destruct (P c Hc) as [Hr | (p & Hp & slp & fam' & m' & Hsp & Hf' & Hm' & Hcm)]; [left; exact Hr|].
      right. exists p. split; [exact Hp|].
      assert (Hpi : fst p <> i). { intros E. apply Hroot. rewrite <- E. apply in_map. exact Hp. }
      exists slp, fam', m'. cbn [sM set_slots d_slots]. rewrite updN_other by congruence. auto.
    - intros r Hr. pose proof (Hroots r Hr) as Hor.
      destruct (oi_live _ _ _ IL _ _ Hor) as (slr & Hsr & Hur & Hgr). exists slr.
      cbn [sM set_slots d_slots]. rewrite updN_other; [auto|].
      intros E. pose proof (oi_uniq _ _ _ IL _ _ _ _ Hor Hh_own (eq_sym E)) as Eo. discriminate.
    - intros r o x Hr Hox E. pose proof (Hroots r Hr) as Hor.
      assert (Hoxs : owns t2 F o x).
      { destruct Hox as (ids & Ho & Hin). exists ids. split; [|exact Hin].
        exact (owner_ids_peek skind t2 sM F o ids Hpk Ho). }
      pose proof (oi_uniq _ _ _ IL _ _ _ _ Hoxs Hor E) as Eo. subst o.
      destruct Hox as (ids & (_ & m0 & Hm0 & _) & _).
      unfold Machine.peek_memo in Hm0. cbn [fst snd sM set_slots d_slots] in Hm0.
      rewrite Hk, updN_same in Hm0. cbn [slM set_sl_memos sl_updated sl_memos] in Hm0.
      destruct (sl_updated slL); [|discriminate]. rewrite updN_same in Hm0. discriminate. }
  apply (Hput t5 s1M I1M); cbn [s1M set_slots d_slots d_revs d_nslots d_free d_ideal d_memo]; auto.
  - rewrite (cs_other _ _ _ C i Hroot). exact HsL.
  - apply updN_same.
  - intros j Hj. apply updN_other. congruence.
  - exact (cs_revs _ _ _ C).
Qed.


(* ---- seeding a frame from a stored memo ---- *)
Lemma insert_entry_ids l key id a :
  (forall x, In x (map te_id (insert_entry l key id a)) -> In x (map te_id l) \/ x = id) /\
  (NoDup (map fst (map te_id l)) -> ~ In (fst id) (map fst (map te_id l)) ->
   NoDup (map fst (map te_id (insert_entry l key id a)))).
Proof.
  destruct (insert_spec key id a l) as [(_ & ->) | (l1 & e & l2 & -> & _ & _ & ->)].
  - split.
    + intros x Hx. rewrite map_app in Hx. apply in_app_or in Hx. destruct Hx as [Hx | [<- | []]]; auto.
    + intros Hnd Hni. rewrite map_app. apply nodup_fst_append; assumption.
  - split.
    + intros x. rewrite !frame_ids_app. intros Hx. apply in_app_or in Hx.
      destruct Hx as [Hx | [<- | Hx]]; [left; apply in_or_app; auto | right; reflexivity | left; apply in_or_app; right; right; exact Hx].
    + intros Hnd Hni. rewrite frame_ids_app in *. cbn [mk_entry te_id].
      apply (nodup_fst_replace _ _ (te_id e)); [exact Hnd | right; exact Hni].
Qed.

Lemma seed_ids_spec : forall src l,
  NoDup (map fst (map te_id l)) -> NoDup (map fst (map snd src)) ->
  (forall x y, In x (map te_id l) -> In y (map snd src) -> fst x <> fst y) ->
  NoDup (map fst (map te_id (seed_ids l src))) /\
  forall h, In h (map te_id (seed_ids l src)) -> In h (map te_id l) \/ In h (map snd src).
Proof.
  unfold seed_ids. induction src as [|kv src IH]; intros l Hl Hs Hd; cbn [fold_left].
  - split; [exact Hl | auto].
  - cbn [map] in Hs. apply NoDup_cons_iff in Hs. destruct Hs as [Hk Hs].
    destruct (insert_entry_ids l (fst kv) (snd kv) false) as [Hsub Hnd].
    destruct (IH (insert_entry l (fst kv) (snd kv) false)) as [Hn Hi].
    + apply Hnd; [exact Hl|]. intros Hin. apply in_map_iff in Hin. destruct Hin as (x & Ex & Hx).
      exact (Hd x (snd kv) Hx (or_introl eq_refl) Ex).
    + exact Hs.
    + intros x y Hx Hy E. destruct (Hsub x Hx) as [Hx0 | ->].
      * exact (Hd x y Hx0 (or_intror Hy) E).
      * apply Hk. rewrite E. apply in_map. exact Hy.
    + split; [exact Hn|]. intros h Hh. destruct (Hi h Hh) as [Hh1 | Hh2].
      * destruct (Hsub h Hh1) as [? | ->]; [left; assumption | right; left; reflexivity].
      * right. right. exact Hh2.
Qed.

Lemma seed_frame_ids old :
  NoDup (map fst (match old with Some o => mids o | None => [] end)) ->
  NoDup (map fst (frame_ids (seed_frame old))) /\
  forall h, In h (frame_ids (seed_frame old)) -> exists o, old = Some o /\ In h (mids o).
Proof.
  intros Hom. unfold seed_frame. destruct old as [o|].
  - unfold frame_ids. cbn [fr_ids set_fr_ids].
    destruct (seed_ids_spec (m_structs o) []) as [Hn Hi]; [constructor | exact Hom | intros x y [] |].
    split; [exact Hn|]. intros h Hh. exists o. split; [reflexivity|]. destruct (Hi h Hh) as [[] | Hh2]. exact Hh2.
  - split; [constructor | intros h []].
Qed.

(* a frame is added for q whose ids are held by q's stored memo *)
Lemma oinv_begin_gen s F q fr :
  OInv s F -> ~ active_loc F (loc_of q) ->
  (skind (fst q) = true -> exists sl, d_slots s (fst (snd q)) = Some sl /\ sl_updated sl = Some (cur s)) ->
  NoDup (map fst (frame_ids fr)) ->
  (forall h, In h (frame_ids fr) -> exists m, peek_memo s (loc_of q) = Some m /\ In h (mids m)) ->
  OInv s ((q, fr) :: F).
Proof.
  intros I Hna Hlk Hnd Hsub.
  set (phi := fun o : owner => match o with OwF q' => if qk_eqb q' q then OwM (loc_of q) else o | _ => o end).
  destruct (own_transfer0 skind s F s ((q, fr) :: F) phi (oinv_own _ _ _ I)) as (L & U & ND).
  { intros [q' | l] ids; cbn [Machine.owner_ids phi].
    - intros (fr' & Hin & ->). destruct Hin as [Hin | Hin].
      + injection Hin as -> ->. rewrite qk_eqb_refl. split; [exact Hnd|].
        intros h Hh. destruct (Hsub h Hh) as (m & Hm & Hhm). exists (mids m). split; [|exact Hhm].
        split; [exact Hna | exists m; auto].
      + destruct (qk_eqb q' q) eqn:E.
        * apply qk_eqb_eq in E. subst q'. exfalso. apply Hna. exists q, fr'. auto.
        * assert (Ho : owner_ids s F (OwF q') (frame_ids fr')) by (exists fr'; auto).
          split; [exact (oi_nodup _ _ _ I _ _ Ho)|]. intros h Hh. exists (frame_ids fr'). auto.
    - intros (Hna' & m & Hm & ->).
      assert (Ho : owner_ids s F (OwM l) (mids m)).
      { split; [|exists m; auto]. intros (q' & fr' & Hin & El). apply Hna'. exists q', fr'. split; [right; exact Hin | exact El]. }
      split; [exact (oi_nodup _ _ _ I _ _ Ho)|]. intros h Hh. exists (mids m). auto. }
  { intros o1 o2 ids1 ids2 h1 h2 Ho1 Ho2 _ _ E.
    destruct o1 as [q1 | l1], o2 as [q2 | l2]; cbn [phi] in E.
    - destruct (qk_eqb q1 q) eqn:E1, (qk_eqb q2 q) eqn:E2.
      + apply qk_eqb_eq in E1, E2. congruence.
      + discriminate.
      + discriminate.
      + exact E.
    - destruct (qk_eqb q1 q) eqn:E1; [|discriminate]. injection E as <-.
      exfalso. destruct Ho2 as (Hna2 & _). apply Hna2. exists q, fr. split; [left; reflexivity | reflexivity].
    - destruct (qk_eqb q2 q) eqn:E2; [|discriminate]. injection E as ->.
      exfalso. destruct Ho1 as (Hna1 & _). apply Hna1. exists q, fr. split; [left; reflexivity | reflexivity].
    - exact E. }
  { auto. }
  constructor.
  - exact (oi_alloc _ _ _ I).
  - exact (oi_free_nodup _ _ _ I).
  - exact (oi_free _ _ _ I).
  - exact (oi_dead _ _ _ I).
  - exact L.
  - exact U.
  - exact ND.
  - exact (oi_issued _ _ _ I).
  - intros q' fr' [Hin | Hin] Hk; [injection Hin as <- _; exact (Hlk Hk) | exact (oi_locked _ _ _ I q' fr' Hin Hk)].
  - cbn [map fst]. constructor; [|exact (oi_frames _ _ _ I)].
    intros Hin. apply Hna. apply active_loc_flocs. exact Hin.
  - exact (oi_ideal _ _ _ I).
Qed.

Lemma oinv_begin s F q :
  OInv s F -> ~ active_loc F (loc_of q) ->
  (skind (fst q) = true -> exists sl, d_slots s (fst (snd q)) = Some sl /\ sl_updated sl = Some (cur s)) ->
  OInv s ((q, seed_frame (peek_memo s (loc_of q))) :: F).
Proof.
  intros I Hna Hlk.
  assert (Hom : NoDup (map fst (match peek_memo s (loc_of q) with Some o => mids o | None => [] end))).
  { destruct (peek_memo s (loc_of q)) as [o|] eqn:Eo; [|constructor].
    apply (oi_nodup _ _ _ I (OwM (loc_of q))). split; [exact Hna | exists o; auto]. }
  destruct (seed_frame_ids _ Hom) as [Hnd Hsub].
  apply oinv_begin_gen; [exact I | exact Hna | exact Hlk | exact Hnd |].
  intros h Hh. destruct (Hsub h Hh) as (o & Eo & Hin). exists o. auto.
Qed.


(* a change of the revision counters only *)
Lemma oinv_newrev s s' :
  OInv s [] -> d_slots s' = d_slots s -> d_memo s' = d_memo s -> d_nslots s' = d_nslots s ->
  d_free s' = d_free s -> d_ideal s' = d_ideal s -> OInv s' [].
Proof.
  intros I Es Em En Ef Ei.
  assert (Hp : forall l, peek_memo s' l = peek_memo s l).
  { intros l. unfold Machine.peek_memo. rewrite Es, Em. reflexivity. }
  assert (Hl : forall h, live s h -> live s' h).
  { intros h (sl & Hs & Hu & Hg). exists sl. rewrite Es. auto. }
  destruct (own_transfer0 skind s [] s' [] (fun o => o) (oinv_own _ _ _ I)) as (L & U & ND).
  { intros o ids Ho. apply (owner_ids_peek skind s s' [] o ids) in Ho; [|intros l m; rewrite Hp; auto].
    split; [exact (oi_nodup _ _ _ I _ _ Ho)|]. intros h Hh. exists ids. auto. }
  { auto. }
  { intros o h _ H0. exact (Hl h H0). }
  constructor; rewrite ?Es, ?En, ?Ef, ?Ei.
  - exact (oi_alloc _ _ _ I).
  - exact (oi_free_nodup _ _ _ I).
  - exact (oi_free _ _ _ I).
  - exact (oi_dead _ _ _ I).
  - exact L.
  - exact U.
  - exact ND.
  - exact (oi_issued _ _ _ I).
  - intros q fr [].
  - constructor.
  - exact (oi_ideal _ _ _ I).
Qed.

Lemma oinv_init iv idur : OInv (init iv idur) [].
Proof.
  constructor; cbn [init d_slots d_nslots d_free d_ideal].
  - intros i. split; [intros _; lia | reflexivity].
  - constructor.
  - intros i g [].
  - intros i sl H. discriminate.
  - intros o h (ids & Ho & Hin). destruct o as [q | l]; cbn [Machine.owner_ids] in Ho.
    + destruct Ho as (fr & [] & _).
    + destruct Ho as (_ & m & Hm & ->). unfold Machine.peek_memo in Hm. cbn [init d_slots d_memo] in Hm.
      destruct (skind (fst l)); discriminate.
  - intros o1 o2 h1 h2 (ids & Ho & Hin). destruct o1 as [q | l]; cbn [Machine.owner_ids] in Ho.
    + destruct Ho as (fr & [] & _).
    + destruct Ho as (_ & m & Hm & ->). unfold Machine.peek_memo in Hm. cbn [init d_slots d_memo] in Hm.
      destruct (skind (fst l)); discriminate.
  - intros o ids Ho. destruct o as [q | l]; cbn [Machine.owner_ids] in Ho.
    + destruct Ho as (fr & [] & _).
    + destruct Ho as (_ & m & Hm & ->). unfold Machine.peek_memo in Hm. cbn [init d_slots d_memo] in Hm.
      destruct (skind (fst l)); discriminate.
  - intros i g x [].
  - intros q fr [].
  - constructor.
  - intros i sl H. discriminate.
Qed.

(* ---- every event of the machine preserves the invariant ---- *)
Theorem mstep_oinv n s F e s' F' :
  OInv s F -> mstep skind sfams idhash n (s, F) e = Some (s', F') -> OInv s' F'.
Proof.
  intros I H. assert (HF : NoDup (flocs F)) by exact (oi_frames _ _ _ I).
  destruct e as [q | q d c | q idv f0 f1 | q v | q fam h v | i | q m | ]; cbn [mstep] in H.
  - (* MBegin *)
    destruct (active_locb F (loc_of q)) eqn:Ea; [discriminate|].
    assert (Hna : ~ active_loc F (loc_of q)).
    { intros Ha. apply active_locb_spec in Ha. congruence. }
    destruct (skind (fst q)) eqn:Hk.
    + destruct ((acquire_read_lock (fst (snd q));;; ret tt) s) as [s1 [u | p |]] eqn:El; try discriminate.
      injection H as <- <-.
      msplit El as sl0 t0 H0. mstep El.
      pose proof (lock_oinv _ _ _ _ _ I H0) as I1.
      apply oinv_begin; auto. intros _.
      destruct (lock_spec _ _ _ _ H0) as (sl & Hs & Hu & Hu' & _ & _ & _ & _ & _ & _ & B & _ & Es).
      exists sl0. rewrite Es, updN_same. split; [reflexivity|]. rewrite Hu'. f_equal. symmetry. exact (sbs_cur _ _ B).
    + cbn [ret] in H. injection H as <- <-. apply oinv_begin; auto. intros Hc. congruence.
  - (* MStamp *)
    destruct (find_frame F q) as [fr|] eqn:Ef; [|discriminate]. injection H as <- <-.
    pose proof (find_frame_in _ _ _ Ef) as Hq.
    apply (oinv_frames skind s F _ I); [apply flocs_set_frame|].
    intros q' fr' Hin. apply (in_set_frame F q fr _ q' fr' HF Hq) in Hin. destruct Hin as [[-> ->] | [_ Hin]].
    + exists fr. split; [exact Hq|]. split; [auto|]. apply (oi_nodup _ _ _ I (OwF q)). exists fr. auto.
    + exists fr'. split; [exact Hin|]. split; [auto|]. apply (oi_nodup _ _ _ I (OwF q')). exists fr'. auto.
  - (* MNew *)
    destruct (find_frame F q) as [fr|] eqn:Ef; [|discriminate].
    pose proof (find_frame_in _ _ _ Ef) as Hq.
    destruct (new_struct skind sfams idhash n q idv f0 f1 fr s) as [s1 [[h fr1] | p |]] eqn:En; try discriminate.
    injection H as <- <-. exact (proj1 (new_struct_oinv _ _ _ _ _ _ _ _ _ _ _ I Hq En)).
  - (* MEnd *)
    destruct (find_frame F q) as [fr|] eqn:Ef; [|discriminate].
    pose proof (find_frame_in _ _ _ Ef) as Hq.
    destruct (finish_exec skind sfams n q (peek_memo s (loc_of q)) v fr s) as [s1 [m | p |]] eqn:En; try discriminate.
    injection H as <- <-. exact (proj1 (finish_oinv _ _ _ _ _ _ _ _ _ I Hq En)).
  - (* MSpecify *)
    destruct (find_frame F q) as [fr|] eqn:Ef; [|discriminate].
    pose proof (find_frame_in _ _ _ Ef) as Hq.
    destruct (active_locb F (loc_of (fam, h))) eqn:Ea; [discriminate|].
    destruct (skind fam) eqn:Hk; [|discriminate]. cbn [orb negb] in H.
    destruct (specify skind sfams n q fam h v fr s) as [s1 [fr1 | p |]] eqn:En; try discriminate.
    injection H as <- <-.
    assert (Hna : ~ active_loc F (loc_of (fam, h))).
    { intros Ha. apply active_locb_spec in Ha. congruence. }
    exact (proj1 (specify_oinv _ _ _ _ _ _ _ _ _ _ I Hq Hk Hna En)).
  - (* MLock *)
    destruct (acquire_read_lock i s) as [s1 [sl | p |]] eqn:El; try discriminate.
    injection H as <- <-. exact (lock_oinv _ _ _ _ _ I El).
  - (* MTouch *)
    destruct (peek_memo s (loc_of q)) as [old|] eqn:Eo; [|discriminate].
    destruct (active_locb F (loc_of q)) eqn:Ea; [discriminate|].
    assert (Hna : ~ active_loc F (loc_of q)).
    { intros Ha. apply active_locb_spec in Ha. congruence. }
    destruct (hlist_eqb (mids m) (mids old)) eqn:Eh; [|discriminate].
    destruct (store_memo skind q m s) as [s1 [u | p |]] eqn:Es; try discriminate.
    injection H as <- <-.
    assert (Eids : mids m = mids old).
    { clear -Eh. revert Eh. generalize (mids old). induction (mids m) as [|x l IH]; intros [|y l']; cbn [hlist_eqb]; try discriminate; auto.
      intros H. apply andb_true_iff in H. destruct H as [H1 H2]. apply handle_eqb_eq in H1. subst. f_equal. auto. }
    destruct (store_memo_spec _ _ _ _ _ Es) as (Er & En & Ef & Ei & Hcase).
    assert (Hold : owner_ids s F (OwM (loc_of q)) (mids old)) by (split; [exact Hna | exists old; auto]).
    apply (oinv_store skind s F _ F q m (OwM (loc_of q)) I Er En Ef Ei).
    + destruct Hcase as [Hc | (Hk & Em & sl & Hs & Esl)]; [left; exact Hc|]. right.
      split; [exact Hk|]. split; [exact Em|].
      assert (Hlv : sl_updated sl <> None).
      { unfold Machine.peek_memo in Eo. cbn [loc_of fst snd] in Eo. rewrite Hk, Hs in Eo.
        destruct (sl_updated sl); discriminate. }
      exists sl, (set_sl_memos sl (updN (sl_memos sl) (fst q) (Some m))).
      split; [exact Hs|]. split; [exact Hlv|]. split; [rewrite Esl; apply updN_same|].
      split; [intros j Hj; rewrite Esl; apply updN_other; congruence|].
      split; [reflexivity|]. split; [reflexivity|]. split; [reflexivity|].
      split; [cbn [set_sl_memos sl_memos]; apply updN_same|].
      intros fam Hf. cbn [set_sl_memos sl_memos]. apply updN_other. congruence.
    + auto.
    + exact HF.
    + auto.
    + intros _. rewrite Eids. exact (oi_nodup _ _ _ I _ _ Hold).
    + intros _ h Hh. exists (mids old). split; [exact Hold | rewrite <- Eids; exact Hh].
    + left. reflexivity.
  - (* MRev *)
    destruct F as [|? ?]; [|discriminate]. injection H as <- <-.
    apply (oinv_newrev s _ I); reflexivity.
Qed.

End Step.

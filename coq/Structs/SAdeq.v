(* Structs/SAdeq.v — adequacy of the world-based from-scratch value: among the worlds that are
   CONSISTENT for q (every struct created in the closure of q holds, in the world's store, the
   fields its creator gives it), the value of q is a function of the inputs, the cells and the
   allocator alone.  So `Ew (wcur s) q` of STop.get_ok is THE from-scratch value of q for the
   current inputs under the handle naming chosen by the engine's allocator. *)
From Salsa Require Import Base.
From Salsa.Structs Require Import Model Machine SSem SInv STop.

Section Adeq.
Variable prog : qk -> body.
Variable idhash : val -> N.
Variable rank : qk -> nat.
Hypothesis Hrank : calls_below prog rank.
Variable NF : nat.
Hypothesis Hbound : forall q, (rank q < NF)%nat.
Hypothesis Hprov : no_forge idhash prog.

Notation Ew := (Ew idhash prog NF).
Notation trw := (trw idhash prog NF).
Notation envw := (envw idhash prog NF).
Notation clos := (clos idhash prog NF).
Notation wcons := (wcons prog idhash NF).

(* same inputs, same cells, same naming of the created structs *)
Definition same_inputs (w w' : world) : Prop :=
  (forall i, w_in w i = w_in w' i) /\ (forall c, w_cell w c = w_cell w' c) /\
  (forall d id, w_alloc w d id = w_alloc w' d id).

Section Two.
Variables w w' : world.
Variable q : qk.
Hypothesis Hsame : same_inputs w w'.
Hypothesis Hc : wcons w q.
Hypothesis Hc' : wcons w' q.

Definition P (d : qk) : Prop :=
  clos w q d -> clos w' q d -> trw w' d = trw w d /\ Ew w' d = Ew w d.

(* below the induction bound, the whole cone of a common member is common, with equal traces *)
Lemma cone_same n : (forall d, (rank d < n)%nat -> P d) ->
  forall c A, clos w c A -> (rank c < n)%nat -> clos w q c -> clos w' q c ->
  clos w q A /\ clos w' q A /\ trw w' A = trw w A.
Proof.
  intros IH c A HcA. induction HcA as [f | f d0 e Hin Hd0 IHc]; intros Hn Hq Hq'.
  - split; [exact Hq|]. split; [exact Hq'|]. exact (proj1 (IH f Hn Hq Hq')).
  - pose proof (trw_calls idhash prog rank Hrank NF w f d0 Hin) as Hr.
    destruct (IH f Hn Hq Hq') as [Ht _].
    apply IHc.
    + lia.
    + eapply clos_right; [exact Hq | exact Hin].
    + eapply clos_right; [exact Hq' | rewrite Ht; exact Hin].
Qed.

Lemma unique_step n : (forall d, (rank d < n)%nat -> P d) -> forall d, (rank d < S n)%nat -> P d.
Proof.
  intros IH d Hn Hq Hq'.
  assert (A : agree_on (envw w d) (envw w' d) (trw w d)).
  { destruct (first_changed_is_read_again idhash (prog d) (envw w d) (envw w' d) []) as [A | B]; [exact A|].
    exfalso. destruct B as (pre & r & post & Et & Hpre & Hne & post' & Et').
    fold (trw w d) in Et. fold (trw w' d) in Et'.
    assert (Hin : In r (trw w d)) by (rewrite Et; apply in_or_app; right; left; reflexivity).
    assert (Hin' : In r (trw w' d)) by (rewrite Et'; apply in_or_app; right; left; reflexivity).
    destruct Hsame as (Si & Sc & Sa).
    apply Hne. clear Hne.
    (* a handle read through here has the same fields in both stores *)
    assert (Hslot : forall h, rd_uses r h -> w_slot w h = w_slot w' h).
    { intros h Hu.
      destruct (prov_prefix idhash (prog d) (envw w d) [] [] pre r post h (Hprov _ d) Et Hu)
        as [[] | [(id & idv & f0 & f1 & Hp & ->) | (c & Hp & Hh)]].
      - cbn [envw mkenv e_new].
        assert (I1 : In (RNew id idv f0 f1) (trw w d)) by (rewrite Et; apply in_or_app; left; exact Hp).
        assert (I2 : In (RNew id idv f0 f1) (trw w' d)) by (rewrite Et'; apply in_or_app; left; exact Hp).
        rewrite (Hc d Hq id idv f0 f1 I1). rewrite Sa. rewrite (Hc' d Hq' id idv f0 f1 I2). reflexivity.
      - cbn [envw mkenv e_q] in Hh.
        assert (I1 : In (RQ c) (trw w d)) by (rewrite Et; apply in_or_app; left; exact Hp).
        assert (I2 : In (RQ c) (trw w' d)) by (rewrite Et'; apply in_or_app; left; exact Hp).
        pose proof (trw_calls idhash prog rank Hrank NF w d c I1) as Hr.
        destruct (creator_exists idhash prog rank Hrank NF Hbound Hprov w (S (rank c)) c h (le_n _)) as (B & HcB & id & idv & f0 & f1 & HB & ->).
        { right. right. rewrite <- (Ew_unfold idhash prog rank Hrank NF Hbound). exact Hh. }
        destruct (cone_same n IH c B HcB) as (Q1 & Q2 & Q3).
        + lia.
        + eapply clos_right; [exact Hq | exact I1].
        + eapply clos_right; [exact Hq' | exact I2].
        + rewrite (Hc B Q1 id idv f0 f1 HB). rewrite Sa.
          rewrite <- Q3 in HB. rewrite (Hc' B Q2 id idv f0 f1 HB). reflexivity. }
    destruct r as [i | c | c | | id idv f0 f1 | h f | h]; cbn [answer envw mkenv e_in e_cell e_q e_new e_slot].
    - rewrite Si. reflexivity.
    - pose proof (trw_calls idhash prog rank Hrank NF w d c Hin) as Hr.
      symmetry. apply (IH c).
      + lia.
      + eapply clos_right; [exact Hq | exact Hin].
      + eapply clos_right; [exact Hq' | exact Hin'].
    - rewrite Sc. reflexivity.
    - reflexivity.
    - rewrite Sa. reflexivity.
    - rewrite (Hslot h); [reflexivity | left; exists f; reflexivity].
    - rewrite (Hslot h); [reflexivity | right; reflexivity]. }
  destruct (trace_determined idhash (prog d) _ _ [] A) as [Ht Hr].
  split; [exact Ht|]. rewrite !(Ew_unfold idhash prog rank Hrank NF Hbound). exact Hr.
Qed.

Lemma unique_all : forall n d, (rank d < n)%nat -> P d.
Proof.
  induction n as [|n IH]; intros d Hn; [inversion Hn|]. exact (unique_step n IH d Hn).
Qed.

Theorem scratch_unique : Ew w' q = Ew w q.
Proof. exact (proj2 (unique_all (S (rank q)) q (le_n _) (clos_refl _ _ _ _ _) (clos_refl _ _ _ _ _))). Qed.
End Two.
End Adeq.

(* ---------------------------------------------------------------- the history theorem, world-free *)
(* every Get of the history answers with the value of q in EVERY consistent world that has the
   current inputs and cells and names created structs like the engine's allocator *)
Section History.
Variable prog : qk -> body.
Variable skind : N -> bool.
Variable idhash : val -> N.
Variable NF : nat.

Fixpoint gets_scratch (fuel : nat) (s : db) (os : list op) : Prop :=
  match os with
  | [] => True
  | o :: os' =>
      let s' := fst (step prog skind [] idhash fuel s o) in
      (match o with
       | OGet q => exists v, snd (step prog skind [] idhash fuel s o) = SOk v /\
                             (forall w, same_inputs (wcur s') w -> wcons prog idhash NF w q -> v = Ew idhash prog NF w q) /\
                             wcons prog idhash NF (wcur s') q /\
                             (forall h, In h (snd v) -> live s' h)
       | _ => True
       end) /\ gets_scratch fuel s' os'
  end.

Variable rank : qk -> nat.
Hypothesis Hrank : calls_below prog rank.
Hypothesis Hbound : forall q, (rank q < NF)%nat.
Hypothesis Hprov : no_forge idhash prog.

Lemma gets_ok_scratch fuel : forall os s, gets_ok prog skind idhash NF fuel s os -> gets_scratch fuel s os.
Proof.
  induction os as [|o os IH]; intros s H; [exact Logic.I|].
  cbn [gets_ok gets_scratch] in *. destruct H as [Ho Hr]. split; [|exact (IH _ Hr)].
  destruct o as [i v d | d | c v | q | fam q i | ]; try exact Logic.I.
  destruct Ho as (v & Ev & Hv & Hw & Hl). exists v. split; [exact Ev|]. split; [|split; [exact Hw | exact Hl]].
  intros w Hsame Hcw. rewrite Hv.
  symmetry. exact (scratch_unique prog idhash rank Hrank NF Hbound Hprov (wcur _) w q Hsame Hw Hcw).
Qed.
End History.

(* ---------------------------------------------------------------- stage S1, final form *)
Theorem from_scratch_S1_scratch :
  forall (prog : qk -> body) (skind : N -> bool) (idhash : val -> N) (rank : qk -> nat),
  calls_below prog rank -> forall NF, (forall q, (rank q < NF)%nat) ->
  no_forge idhash prog -> (forall q d, calls (prog q) d -> gk d) -> (forall f, skind f = false) ->
  (forall q d, calls (prog q) d -> SRun.first_read (prog d)) -> (forall q, SRun.nospec (prog q)) ->
  forall fuel os s n, TopOK prog skind idhash NF s -> cur s <= 1 + 2 * n ->
  1 + 2 * (n + N.of_nat (length os)) < SRun.GMAX -> Forall (s1_op prog) os ->
  Forall2 Sim.okout os (snd (run_ops prog skind [] idhash fuel s os)) ->
  gets_scratch prog skind idhash NF fuel s os.
Proof.
  intros prog skind idhash rank Hrank NF Hbound Hprov Hgk Hnk Hfirst Hns fuel os s n T Hc Hb Hops Hok.
  apply (gets_ok_scratch prog skind idhash NF rank Hrank Hbound Hprov).
  exact (from_scratch_S1 prog skind idhash rank Hrank NF Hbound Hprov Hgk Hnk Hfirst Hns fuel os s n T Hc Hb Hops Hok).
Qed.

Theorem from_scratch_S1_init :
  forall (prog : qk -> body) (skind : N -> bool) (idhash : val -> N) (rank : qk -> nat) (NF : nat),
  calls_below prog rank -> (forall q, (rank q < NF)%nat) ->
  no_forge idhash prog -> (forall q, SRun.nospec (prog q)) -> (forall f, skind f = false) ->
  (forall q d, calls (prog q) d -> gk d) -> (forall q d, calls (prog q) d -> SRun.first_read (prog d)) ->
  forall fuel iv os,
  Forall (s1_op prog) os -> 1 + 2 * N.of_nat (length os) < SRun.GMAX ->
  Forall2 Sim.okout os (snd (run_ops prog skind [] idhash fuel (init iv (fun _ => 0)) os)) ->
  gets_scratch prog skind idhash NF fuel (init iv (fun _ => 0)) os.
Proof.
  intros prog skind idhash rank NF Hrank Hbound Hprov Hns Hnk Hgk Hfirst fuel iv os Hops Hb Hok.
  apply (from_scratch_S1_scratch prog skind idhash rank Hrank NF Hbound Hprov Hgk Hnk Hfirst Hns fuel os _ 0).
  - apply init_ok.
  - cbn. unfold REV_START. lia.
  - exact Hb.
  - exact Hops.
  - exact Hok.
Qed.

(* ---------------------------------------------------------------- every Get, after every prefix *)
Section Prefix.
Variable prog : qk -> body.
Variable skind : N -> bool.
Variable idhash : val -> N.
Variable NF : nat.

Lemma run_ops_fst_cons fuel s o os :
  fst (run_ops prog skind [] idhash fuel s (o :: os)) =
  fst (run_ops prog skind [] idhash fuel (fst (step prog skind [] idhash fuel s o)) os).
Proof.
  cbn [run_ops]. destruct (step prog skind [] idhash fuel s o) as [s1 r]. cbn [fst].
  destruct (run_ops prog skind [] idhash fuel s1 os) as [s2 rs]. reflexivity.
Qed.

Lemma gets_scratch_prefix fuel : forall os1 s q os2,
  gets_scratch prog skind idhash NF fuel s (os1 ++ OGet q :: os2) ->
  let s1 := fst (run_ops prog skind [] idhash fuel s os1) in
  let s' := fst (step prog skind [] idhash fuel s1 (OGet q)) in
  exists v, snd (step prog skind [] idhash fuel s1 (OGet q)) = SOk v /\
            (forall w, same_inputs (wcur s') w -> wcons prog idhash NF w q -> v = Ew idhash prog NF w q) /\
            wcons prog idhash NF (wcur s') q /\
            (forall h, In h (snd v) -> live s' h).
Proof.
  induction os1 as [|o os1 IH]; intros s q os2 H.
  - cbn [app gets_scratch] in H. exact (proj1 H).
  - cbn [app gets_scratch] in H. destruct H as [_ H].
    cbv zeta. rewrite run_ops_fst_cons. exact (IH _ q os2 H).
Qed.
End Prefix.

Theorem dependents_S1 :
  forall (prog : qk -> body) (skind : N -> bool) (idhash : val -> N) (rank : qk -> nat) (NF : nat),
  calls_below prog rank -> (forall q, (rank q < NF)%nat) ->
  no_forge idhash prog -> (forall q, SRun.nospec (prog q)) -> (forall f, skind f = false) ->
  (forall q d, calls (prog q) d -> gk d) -> (forall q d, calls (prog q) d -> SRun.first_read (prog d)) ->
  forall fuel iv os,
  Forall (s1_op prog) os -> 1 + 2 * N.of_nat (length os) < SRun.GMAX ->
  Forall2 Sim.okout os (snd (run_ops prog skind [] idhash fuel (init iv (fun _ => 0)) os)) ->
  forall os1 q os2, os = os1 ++ OGet q :: os2 ->
  let s1 := fst (run_ops prog skind [] idhash fuel (init iv (fun _ => 0)) os1) in
  let s' := fst (step prog skind [] idhash fuel s1 (OGet q)) in
  exists v, snd (step prog skind [] idhash fuel s1 (OGet q)) = SOk v /\
            (forall w, same_inputs (wcur s') w -> wcons prog idhash NF w q -> v = Ew idhash prog NF w q) /\
            wcons prog idhash NF (wcur s') q /\
            (forall h, In h (snd v) -> live s' h).
Proof.
  intros prog skind idhash rank NF Hrank Hbound Hprov Hns Hnk Hgk Hfirst fuel iv os Hops Hb Hok os1 q os2 E.
  apply (gets_scratch_prefix prog skind idhash NF fuel os1 _ q os2). rewrite <- E.
  exact (from_scratch_S1_init prog skind idhash rank NF Hrank Hbound Hprov Hns Hnk Hgk Hfirst fuel iv os Hops Hb Hok).
Qed.

(* Structs/Dsl.v — the expression language of the structs correspondence harness
   (harness/src/structs_harness.rs interprets the same text against the real salsa API).
   Programs are data: one expression per node (family, node key).  Nothing in a theorem
   depends on this compiler. *)
From Salsa Require Import Base.
From Salsa.Structs Require Import Model.

Inductive binop := BAdd | BSub | BMin | BMax | BAnd | BOr | BEq | BLt | BShr.

(* u8 arithmetic, as in the Rust interpreter (wrapping) *)
Definition binop_eval (o : binop) (a b : val) : val :=
  match o with
  | BAdd => (a + b) mod 256
  | BSub => (a + 256 - b) mod 256
  | BMin => N.min a b
  | BMax => N.max a b
  | BAnd => N.land a b
  | BOr => N.lor a b
  | BEq => if a =? b then 1 else 0
  | BLt => if a <? b then 1 else 0
  | BShr => N.shiftr a (b mod 8)
  end.

(* value expressions and handle expressions; handles are bound to variables by [ELet] *)
Inductive expr :=
| ELit (v : val)
| EInp (i f : N)
| ECall (fam : N) (key : expr)               (* input-keyed tracked fn; value part of the result *)
| ECell (c : N)
| ETouch
| EOp (o : binop) (a b : expr)
| EIf (c a b : expr)
| ELet (x : N) (h : hexpr) (bd els : expr)   (* bind x to h if h yields a struct, else [els] *)
| EField (x : N) (f : N)                     (* tracked field f of the struct bound to x *)
| EIdField (x : N)
| ECallS (fam : N) (x : N)                   (* tracked fn keyed by the struct bound to x *)
| ESpecify (fam : N) (x : N) (v : expr)      (* fam::specify(db, x, (v, [])) ; value 0 *)
| ERetH (x : N)                              (* append x to the structs this query returns; value 0 *)
with hexpr :=
| HNew (idv e0 e1 : expr)                    (* TS::new *)
| HNth (fam : N) (key : expr) (i : N)        (* i-th struct returned by an input-keyed fn *)
| HNthS (fam : N) (x : N) (i : N)            (* i-th struct returned by a struct-keyed fn on x *)
| HSelf                                      (* the key of a struct-keyed fn *)
| HVar (x : N).

Fixpoint env_get (env : list (N * handle)) (x : N) : option handle :=
  match env with
  | [] => None
  | (y, h) :: env' => if y =? x then Some h else env_get env' x
  end.

Section Comp.
Variable nk : N.
Variable self : option handle.

Fixpoint comp (e : expr) (env : list (N * handle)) (acc : list handle)
         (k : val -> list handle -> body) {struct e} : body :=
  match e with
  | ELit v => k v acc
  | EInp i f => RdIn (i, f) (fun v => k v acc)
  | ECall fam ke => comp ke env acc (fun kv acc' => CallQ (fam, (kv mod nk, 0)) (fun r => k (fst r) acc'))
  | ECell c => RdCell c (fun v => k v acc)
  | ETouch => Touch (k 0 acc)
  | EOp o a b => comp a env acc (fun va acc1 => comp b env acc1 (fun vb acc2 => k (binop_eval o va vb) acc2))
  | EIf c a b => comp c env acc (fun vc acc1 => if vc =? 0 then comp b env acc1 k else comp a env acc1 k)
  | ELet x h bd els =>
      comph h env acc (fun oh acc1 =>
        match oh with
        | Some hd => comp bd ((x, hd) :: env) acc1 k
        | None => comp els env acc1 k
        end)
  | EField x f =>
      match env_get env x with
      | Some h => RdField h f (fun v => k v acc)
      | None => k 0 acc
      end
  | EIdField x =>
      match env_get env x with
      | Some h => RdIdField h (fun v => k v acc)
      | None => k 0 acc
      end
  | ECallS fam x =>
      match env_get env x with
      | Some h => CallQ (fam, h) (fun r => k (fst r) acc)
      | None => k 0 acc
      end
  | ESpecify fam x ve =>
      comp ve env acc (fun vv acc1 =>
        match env_get env x with
        | Some h => Specify fam h (vv, []) (k 0 acc1)
        | None => k 0 acc1
        end)
  | ERetH x =>
      match env_get env x with
      | Some h => k 0 (acc ++ [h])
      | None => k 0 acc
      end
  end
with comph (h : hexpr) (env : list (N * handle)) (acc : list handle)
           (k : option handle -> list handle -> body) {struct h} : body :=
  match h with
  | HNew idv e0 e1 =>
      comp idv env acc (fun a acc1 => comp e0 env acc1 (fun b acc2 => comp e1 env acc2 (fun c acc3 =>
        NewStruct a b c (fun hd => k (Some hd) acc3))))
  | HNth fam ke i =>
      comp ke env acc (fun kv acc1 =>
        CallQ (fam, (kv mod nk, 0)) (fun r => k (nth_error (snd r) (N.to_nat i)) acc1))
  | HNthS fam x i =>
      match env_get env x with
      | Some hd => CallQ (fam, hd) (fun r => k (nth_error (snd r) (N.to_nat i)) acc)
      | None => k None acc
      end
  | HSelf => k self acc
  | HVar x => k (env_get env x) acc
  end.

Definition compile (e : expr) : body := comp e [] [] (fun v acc => Ret v acc).
End Comp.

(* program table: association list on (family, node key); missing nodes are the constant 0 *)
Fixpoint lookup_node (tbl : list ((N * N) * expr)) (q : N * N) : expr :=
  match tbl with
  | [] => ELit 0
  | (q', e) :: tbl' => if key_eqb q' q then e else lookup_node tbl' q
  end.

(* input-keyed family: node key = input index; struct-keyed family: node key = identity value
   of the key struct mod nk (the body first reads the identity field, as the harness does) *)
Definition prog_of (nk : N) (skind : N -> bool) (tbl : list ((N * N) * expr)) : qk -> body :=
  fun q =>
    if skind (fst q) then
      RdIdField (snd q) (fun idv => compile nk (Some (snd q)) (lookup_node tbl (fst q, idv mod nk)))
    else compile nk None (lookup_node tbl (fst q, fst (snd q))).

(* Structs/ProofsInv.v — the ownership invariant OInv of the Structs machine and the
   preservation lemmas for the elementary state changes. *)
From Salsa Require Import Base.
From Salsa.Kern Require Import CoreK.
From Salsa.Structs Require Import Model ProofsBase ProofsCascade Machine.

(* ---- frames as an association list ---- *)
Lemma find_frame_in F q fr : find_frame F q = Some fr -> In (q, fr) F.
Proof.
  induction F as [|[q' fr'] F IH]; cbn [find_frame]; [discriminate|].
  destruct (qk_eqb q' q) eqn:E.
  - apply qk_eqb_eq in E. subst. intros H; injection H as <-. left; reflexivity.
  - intros H. right. exact (IH H).
Qed.

Definition flocs (F : frames) : list loc := map (fun qf => loc_of (fst qf)) F.

Lemma flocs_set_frame F q fr : flocs (set_frame F q fr) = flocs F.
Proof.
  unfold flocs. induction F as [|[q' fr'] F IH]; cbn [set_frame map]; [reflexivity|].
  destruct (qk_eqb q' q); cbn [map fst]; [reflexivity | now rewrite IH].
Qed.

Lemma in_frames_loc F q fr : In (q, fr) F -> In (loc_of q) (flocs F).
Proof. intros H. unfold flocs. apply in_map_iff. exists (q, fr). auto. Qed.

Lemma frames_fun F q fr1 fr2 : NoDup (flocs F) -> In (q, fr1) F -> In (q, fr2) F -> fr1 = fr2.
Proof.
  unfold flocs. induction F as [|[q' fr'] F IH]; cbn [map fst]; intros Hnd H1 H2; [destruct H1|].
  inversion Hnd as [|? ? Hx Hr]; subst.
  destruct H1 as [E1 | H1], H2 as [E2 | H2].
  - congruence.
  - injection E1 as -> ->. exfalso. apply Hx. exact (in_frames_loc _ _ _ H2).
  - injection E2 as -> ->. exfalso. apply Hx. exact (in_frames_loc _ _ _ H1).
  - exact (IH Hr H1 H2).
Qed.

Lemma frames_fun_loc F q1 q2 fr1 fr2 :
  NoDup (flocs F) -> In (q1, fr1) F -> In (q2, fr2) F -> loc_of q1 = loc_of q2 -> q1 = q2 /\ fr1 = fr2.
Proof.
  unfold flocs. induction F as [|[q' fr'] F IH]; cbn [map fst]; intros Hnd H1 H2 E; [destruct H1|].
  inversion Hnd as [|? ? Hx Hr]; subst.
  destruct H1 as [E1 | H1], H2 as [E2 | H2].
  - split; congruence.
  - injection E1 as -> ->. exfalso. apply Hx. rewrite E. exact (in_frames_loc _ _ _ H2).
  - injection E2 as -> ->. exfalso. apply Hx. rewrite <- E. exact (in_frames_loc _ _ _ H1).
  - exact (IH Hr H1 H2 E).
Qed.

(* with distinct locations the association list behaves like a map *)
Lemma in_set_frame F q fr0 fr q' fr' :
  NoDup (flocs F) -> In (q, fr0) F ->
  (In (q', fr') (set_frame F q fr) <-> (q' = q /\ fr' = fr) \/ (q' <> q /\ In (q', fr') F)).
Proof.
  unfold flocs. induction F as [|[q1 fr1] F IH]; cbn [set_frame map fst]; intros Hnd Hin; [destruct Hin|].
  inversion Hnd as [|? ? Hx Hr]; subst.
  destruct (qk_eqb q1 q) eqn:E.
  - apply qk_eqb_eq in E. subst q1. split.
    + intros [H | H].
      * injection H as <- <-. left; auto.
      * right. split; [|right; exact H]. intros ->. apply Hx. exact (in_frames_loc _ _ _ H).
    + intros [[-> ->] | [Hne [H | H]]].
      * left; reflexivity.
      * injection H as -> ->. contradiction.
      * right; exact H.
  - assert (Hq : q1 <> q) by (intros ->; rewrite qk_eqb_refl in E; discriminate).
    destruct Hin as [Hin | Hin]; [injection Hin as -> ->; contradiction|].
    split.
    + intros [H | H].
      * injection H as <- <-. right. split; [exact Hq | left; reflexivity].
      * apply (IH Hr Hin) in H. destruct H as [? | [? ?]]; [left; auto | right; split; auto; right; auto].
    + intros [[-> ->] | [Hne [H | H]]].
      * right. apply (IH Hr Hin). left; auto.
      * left; exact H.
      * right. apply (IH Hr Hin). right; auto.
Qed.

Lemma in_del_frame F q fr0 q' fr' :
  NoDup (flocs F) -> In (q, fr0) F ->
  (In (q', fr') (del_frame F q) <-> (q' <> q /\ In (q', fr') F)).
Proof.
  unfold flocs. induction F as [|[q1 fr1] F IH]; cbn [del_frame map fst]; intros Hnd Hin; [destruct Hin|].
  inversion Hnd as [|? ? Hx Hr]; subst.
  destruct (qk_eqb q1 q) eqn:E.
  - apply qk_eqb_eq in E. subst q1. split.
    + intros H. split; [|right; exact H]. intros ->. apply Hx. exact (in_frames_loc _ _ _ H).
    + intros [Hne [H | H]]; [injection H as -> ->; contradiction | exact H].
  - assert (Hq : q1 <> q) by (intros ->; rewrite qk_eqb_refl in E; discriminate).
    destruct Hin as [Hin | Hin]; [injection Hin as -> ->; contradiction|].
    split.
    + intros [H | H].
      * injection H as <- <-. split; [exact Hq | left; reflexivity].
      * apply (IH Hr Hin) in H. destruct H. split; auto. right; auto.
    + intros [Hne [H | H]]; [left; exact H | right; apply (IH Hr Hin); auto].
Qed.

Lemma flocs_del_frame F q : NoDup (flocs F) -> NoDup (flocs (del_frame F q)).
Proof.
  unfold flocs. induction F as [|[q1 fr1] F IH]; cbn [del_frame map fst]; intros Hnd; [constructor|].
  inversion Hnd as [|? ? Hx Hr]; subst.
  destruct (qk_eqb q1 q); [exact Hr|]. cbn [map fst]. constructor; [|exact (IH Hr)].
  intros Hin. apply Hx. clear -Hin. induction F as [|[q2 fr2] F IH]; cbn [del_frame map fst] in *; [destruct Hin|].
  destruct (qk_eqb q2 q); [right; exact Hin|]. destruct Hin as [H | H]; [left; exact H | right; exact (IH H)].
Qed.

Lemma in_flocs_del F q l : In l (flocs (del_frame F q)) -> In l (flocs F).
Proof.
  unfold flocs. induction F as [|[q2 fr2] F IH]; cbn [del_frame map fst]; [intros []|].
  destruct (qk_eqb q2 q); [intros H; right; exact H|].
  cbn [map fst]. intros [H | H]; [left; exact H | right; exact (IH H)].
Qed.

Lemma active_locb_spec F l : active_locb F l = true <-> active_loc F l.
Proof.
  unfold active_locb, active_loc. rewrite existsb_exists. split.
  - intros ([q fr] & Hin & E). apply key_eqb_eq in E. exists q, fr. auto.
  - intros (q & fr & Hin & E). exists (q, fr). split; [exact Hin|]. apply key_eqb_eq. exact E.
Qed.

Lemma active_loc_flocs F l : active_loc F l <-> In l (flocs F).
Proof.
  unfold active_loc, flocs. rewrite in_map_iff. split.
  - intros (q & fr & Hin & E). exists (q, fr). auto.
  - intros ([q fr] & E & Hin). exists q, fr. auto.
Qed.

(* ---- ownership transfer between two machine states ---- *)
Section Own.
Variable skind : N -> bool.

Notation owner_ids := (owner_ids skind).
Notation owns := (owns skind).
Notation OInv := (OInv skind).
Notation peek_memo := (peek_memo skind).

Definition own_facts (s : db) (F : frames) : Prop :=
  (forall o h, owns s F o h -> live s h) /\
  (forall o1 o2 h1 h2, owns s F o1 h1 -> owns s F o2 h2 -> fst h1 = fst h2 -> o1 = o2) /\
  (forall o ids, owner_ids s F o ids -> NoDup (map fst ids)).

Lemma oinv_own s F : OInv s F -> own_facts s F.
Proof. intros I. split; [exact (oi_live _ _ _ I) | split; [exact (oi_uniq _ _ _ I) | exact (oi_nodup _ _ _ I)]]. Qed.

(* every owner of the new state is (the image of) an owner of the old one with at most the
   same ids, plus possibly one new id [hnew] held by [onew] whose slot index nobody else held *)
Lemma own_transfer s F s' F' (phi : owner -> owner) (onew : owner) (hnew : handle) :
  own_facts s F ->
  (forall o ids, owner_ids s' F' o ids ->
     NoDup (map fst ids) /\
     exists ids0, owner_ids s F (phi o) ids0 /\
                  forall h, In h ids -> In h ids0 \/ (o = onew /\ h = hnew)) ->
  (forall o1 o2 ids1 ids2, owner_ids s' F' o1 ids1 -> owner_ids s' F' o2 ids2 -> phi o1 = phi o2 -> o1 = o2) ->
  (forall o h, owns s F o h -> fst h = fst hnew -> o = phi onew) ->
  (forall o h, owns s' F' o h -> fst h = fst hnew -> h = hnew) ->
  (forall h, live s h -> fst h <> fst hnew -> live s' h) ->
  ((exists o, owns s' F' o hnew) -> live s' hnew) ->
  own_facts s' F'.
Proof.
  intros (L & U & ND) H1 H2 H3 H5 H4 H4a. split; [|split].
  - intros o h (ids & Ho & Hin).
    destruct (N.eq_dec (fst h) (fst hnew)) as [E | E].
    + assert (h = hnew) by (apply (H5 o); [exists ids; auto | exact E]). subst h.
      apply H4a. exists o, ids. auto.
    + destruct (H1 o ids Ho) as (_ & ids0 & Ho0 & Hsub).
      destruct (Hsub h Hin) as [Hin0 | [_ ->]]; [|contradiction E; reflexivity].
      apply H4; [|exact E]. apply (L (phi o)). exists ids0. auto.
  - intros o1 o2 h1 h2 (ids1 & Ho1 & Hin1) (ids2 & Ho2 & Hin2) E.
    destruct (H1 o1 ids1 Ho1) as (_ & ids01 & Ho01 & Hsub1).
    destruct (H1 o2 ids2 Ho2) as (_ & ids02 & Ho02 & Hsub2).
    apply (H2 o1 o2 ids1 ids2 Ho1 Ho2).
    destruct (Hsub1 h1 Hin1) as [Hi1 | [-> ->]], (Hsub2 h2 Hin2) as [Hi2 | [-> ->]].
    + apply (U (phi o1) (phi o2) h1 h2); [exists ids01; auto | exists ids02; auto | exact E].
    + apply (H3 (phi o1) h1); [exists ids01; auto | exact E].
    + symmetry. apply (H3 (phi o2) h2); [exists ids02; auto | symmetry; exact E].
    + reflexivity.
  - intros o ids Ho. exact (proj1 (H1 o ids Ho)).
Qed.

(* the common case: no new id *)
Lemma own_transfer0 s F s' F' (phi : owner -> owner) :
  own_facts s F ->
  (forall o ids, owner_ids s' F' o ids ->
     NoDup (map fst ids) /\
     forall h, In h ids -> exists ids0, owner_ids s F (phi o) ids0 /\ In h ids0) ->
  (forall o1 o2 ids1 ids2 h1 h2, owner_ids s' F' o1 ids1 -> owner_ids s' F' o2 ids2 ->
     In h1 ids1 -> In h2 ids2 -> phi o1 = phi o2 -> o1 = o2) ->
  (forall o h, owns s' F' o h -> live s h -> live s' h) ->
  own_facts s' F'.
Proof.
  intros (L & U & ND) H1 H2 H4. split; [|split].
  - intros o h (ids & Ho & Hin). apply (H4 o); [exists ids; auto|].
    destruct (H1 o ids Ho) as (_ & Hsub). destruct (Hsub h Hin) as (ids0 & Ho0 & Hin0).
    apply (L (phi o)). exists ids0. auto.
  - intros o1 o2 h1 h2 (ids1 & Ho1 & Hin1) (ids2 & Ho2 & Hin2) E.
    destruct (H1 o1 ids1 Ho1) as (_ & Hsub1). destruct (Hsub1 h1 Hin1) as (ids01 & Ho01 & Hi1).
    destruct (H1 o2 ids2 Ho2) as (_ & Hsub2). destruct (Hsub2 h2 Hin2) as (ids02 & Ho02 & Hi2).
    apply (H2 o1 o2 ids1 ids2 h1 h2 Ho1 Ho2 Hin1 Hin2).
    apply (U (phi o1) (phi o2) h1 h2); [exists ids01; auto | exists ids02; auto | exact E].
  - intros o ids Ho. exact (proj1 (H1 o ids Ho)).
Qed.

(* peek_memo only looks at d_memo and at (liveness, memo table) of slots *)
Lemma peek_memo_ext s s' l :
  d_memo s' = d_memo s ->
  (forall sl, d_slots s (snd l) = Some sl -> sl_updated sl <> None ->
     exists sl', d_slots s' (snd l) = Some sl' /\ sl_updated sl' <> None /\ sl_memos sl' (fst l) = sl_memos sl (fst l)) ->
  (forall sl', d_slots s' (snd l) = Some sl' -> sl_updated sl' <> None ->
     exists sl, d_slots s (snd l) = Some sl /\ sl_updated sl <> None) ->
  peek_memo s' l = peek_memo s l.
Proof.
  intros Hm Hf Hb. unfold Machine.peek_memo. rewrite Hm. destruct (skind (fst l)); [|reflexivity].
  destruct (d_slots s (snd l)) as [sl|] eqn:E.
  - destruct (sl_updated sl) as [r|] eqn:Eu.
    + destruct (Hf sl eq_refl) as (sl' & E' & Hu' & Hmm); [rewrite Eu; discriminate|].
      rewrite E'. destruct (sl_updated sl'); [exact Hmm | contradiction Hu'; reflexivity].
    + destruct (d_slots s' (snd l)) as [sl'|] eqn:E'; [|reflexivity].
      destruct (sl_updated sl') as [r'|] eqn:Eu'; [|reflexivity].
      destruct (Hb sl' eq_refl) as (sl0 & E0 & Hu0); [rewrite Eu'; discriminate|].
      try rewrite E in E0. injection E0 as <-. contradiction Hu0.
  - destruct (d_slots s' (snd l)) as [sl'|] eqn:E'; [|reflexivity].
    destruct (sl_updated sl') as [r'|] eqn:Eu'; [|reflexivity].
    destruct (Hb sl' eq_refl) as (sl0 & E0 & Hu0); [rewrite Eu'; discriminate|]. try rewrite E in E0. discriminate.
Qed.

End Own.

Section Cases.
Variable skind : N -> bool.
Variable sfams : list N.
Hypothesis sfams_skind : forall fam, In fam sfams -> skind fam = true.

Notation owner_ids := (owner_ids skind).
Notation owns := (owns skind).
Notation OInv := (OInv skind).
Notation peek_memo := (peek_memo skind).
Notation own_facts := (own_facts skind).

Lemma owner_ids_peek s s' F o ids :
  (forall l m, peek_memo s' l = Some m -> peek_memo s l = Some m) -> owner_ids s' F o ids -> owner_ids s F o ids.
Proof.
  intros Hp. destruct o as [q | l]; cbn [Machine.owner_ids]; [auto|].
  intros (Hna & m & Hm & E). split; [exact Hna|]. exists m. split; [exact (Hp _ _ Hm) | exact E].
Qed.

Lemma ideal_get_cons h x l h' :
  ideal_get ((h, x) :: l) h' = if handle_eqb h h' then Some x else ideal_get l h'.
Proof. reflexivity. Qed.

(* one live slot is rewritten: it stays live, keeps its generation; its memo table is kept
   (entry by entry) or emptied *)
Lemma oinv_rewrite s F s' i sl sl' :
  OInv s F -> d_slots s i = Some sl -> sl_updated sl <> None -> sl_updated sl' <> None ->
  sl_gen sl' = sl_gen sl ->
  (forall fam, sl_memos sl' fam = sl_memos sl fam \/ sl_memos sl' fam = None) ->
  d_revs s' = d_revs s -> d_memo s' = d_memo s -> d_nslots s' = d_nslots s -> d_free s' = d_free s ->
  (forall j, d_slots s' j = updN (d_slots s) i (Some sl') j) ->
  (sl_updated sl = Some (cur s) -> sl_updated sl' = Some (cur s)) ->
  (d_ideal s' = d_ideal s /\ slot_fields sl' = slot_fields sl \/
   d_ideal s' = ((i, sl_gen sl), slot_fields sl') :: d_ideal s) ->
  OInv s' F.
Proof.
  intros I Hs Hu Hu' Hg Hm Er Em En Ef Es Hlock Hid.
  assert (Hcur : cur s' = cur s) by (unfold cur; now rewrite Er).
  assert (Hslot : forall j, d_slots s' j = if i =? j then Some sl' else d_slots s j).
  { intros j. rewrite Es. reflexivity. }
  clear Es.
  assert (Hp : forall l m, peek_memo s' l = Some m -> peek_memo s l = Some m).
  { intros l m. unfold Machine.peek_memo. rewrite Em. destruct (skind (fst l)); [|auto].
    rewrite Hslot. destruct (N.eqb_spec i (snd l)) as [E | E]; [|auto].
    subst i. rewrite Hs. destruct (sl_updated sl'); [|discriminate].
    destruct (sl_updated sl); [|contradiction Hu; reflexivity].
    destruct (Hm (fst l)) as [-> | ->]; [auto | discriminate]. }
  assert (Hlive : forall h, live s h -> live s' h).
  { intros h (sl0 & H0 & Hu0 & Hg0). unfold live. rewrite Hslot.
    destruct (N.eqb_spec i (fst h)) as [E | E].
    - subst i. rewrite Hs in H0. injection H0 as <-. exists sl'. repeat split; auto. congruence.
    - exists sl0. auto. }
  destruct (own_transfer0 skind s F s' F (fun o => o) (oinv_own _ _ _ I)) as (L & U & ND).
  { intros o ids Ho. apply (owner_ids_peek _ _ _ _ _ Hp) in Ho. split; [exact (oi_nodup _ _ _ I _ _ Ho)|].
    intros h Hh. exists ids. auto. }
  { auto. }
  { intros o h _ Hl. exact (Hlive h Hl). }
  constructor.
  - intros j. rewrite Hslot, En. destruct (N.eqb_spec i j) as [<- | E].
    + split; [discriminate|]. intros Hle. apply (oi_alloc _ _ _ I) in Hle. congruence.
    + exact (oi_alloc _ _ _ I j).
  - rewrite Ef. exact (oi_free_nodup _ _ _ I).
  - intros j g Hin. rewrite Ef in Hin. destruct (oi_free _ _ _ I j g Hin) as (sl0 & H0 & Hu0 & Hg0).
    rewrite Hslot. destruct (N.eqb_spec i j) as [<- | E].
    + rewrite Hs in H0. injection H0 as <-. contradiction.
    + exists sl0. auto.
  - intros j sl0. rewrite Hslot. destruct (N.eqb_spec i j) as [<- | E].
    + intros H0 Hu0. injection H0 as <-. contradiction.
    + exact (oi_dead _ _ _ I j sl0).
  - exact L.
  - exact U.
  - exact ND.
  - intros j g x Hin.
    assert (Hold : In ((j, g), x) (d_ideal s) -> exists sl0, d_slots s' j = Some sl0 /\ g <= sl_gen sl0).
    { intros Hin0. destruct (oi_issued _ _ _ I j g x Hin0) as (sl0 & H0 & Hg0).
      rewrite Hslot. destruct (N.eqb_spec i j) as [<- | E].
      - rewrite Hs in H0. injection H0 as <-. exists sl'. split; [reflexivity | lia].
      - exists sl0. auto. }
    destruct Hid as [[Ei _] | Ei]; rewrite Ei in Hin; [exact (Hold Hin)|].
    destruct Hin as [Hin | Hin]; [|exact (Hold Hin)].
    injection Hin as <- <- _. rewrite Hslot, N.eqb_refl. exists sl'. split; [reflexivity | lia].
  - intros q fr Hin Hk. destruct (oi_locked _ _ _ I q fr Hin Hk) as (sl0 & H0 & Hu0).
    rewrite Hslot, Hcur. destruct (N.eqb_spec i (fst (snd q))) as [E | E].
    + subst i. rewrite Hs in H0. injection H0 as <-. exists sl'. split; [reflexivity | exact (Hlock Hu0)].
    + exists sl0. auto.
  - exact (oi_frames _ _ _ I).
  - intros j sl0. rewrite Hslot. destruct (N.eqb_spec i j) as [<- | E].
    + intros H0 _. injection H0 as <-. rewrite Hg.
      destruct Hid as [[Ei Ef'] | Ei]; rewrite Ei.
      * rewrite Ef'. exact (oi_ideal _ _ _ I i sl Hs Hu).
      * rewrite ideal_get_cons, handle_eqb_refl. reflexivity.
    + intros H0 Hu0.
      destruct Hid as [[Ei _] | Ei]; rewrite Ei; [exact (oi_ideal _ _ _ I j sl0 H0 Hu0)|].
      rewrite ideal_get_cons.
      destruct (handle_eqb (i, sl_gen sl) (j, sl_gen sl0)) eqn:Eh.
      * apply handle_eqb_eq in Eh. injection Eh as Eh _. contradiction.
      * exact (oi_ideal _ _ _ I j sl0 H0 Hu0).
Qed.


(* the frames change: same locations, every frame keeps a subset of its ids *)
Lemma oinv_frames s F F' :
  OInv s F -> flocs F' = flocs F ->
  (forall q fr', In (q, fr') F' ->
     exists fr, In (q, fr) F /\ (forall h, In h (frame_ids fr') -> In h (frame_ids fr)) /\
                NoDup (map fst (frame_ids fr'))) ->
  OInv s F'.
Proof.
  intros I Hl Hf.
  assert (Hact : forall l, active_loc F' l <-> active_loc F l).
  { intros l. rewrite !active_loc_flocs, Hl. reflexivity. }
  destruct (own_transfer0 skind s F s F' (fun o => o) (oinv_own _ _ _ I)) as (L & U & ND).
  { intros [q | l] ids; cbn [Machine.owner_ids].
    - intros (fr' & Hin & ->). destruct (Hf q fr' Hin) as (fr & Hin0 & Hsub & Hnd).
      split; [exact Hnd|]. intros h Hh. exists (frame_ids fr). split; [exists fr; auto | exact (Hsub h Hh)].
    - intros (Hna & m & Hm & ->).
      assert (Ho : owner_ids s F (OwM l) (mids m)).
      { cbn [Machine.owner_ids]. split; [rewrite <- Hact; exact Hna | exists m; auto]. }
      split; [exact (oi_nodup _ _ _ I _ _ Ho)|]. intros h Hh. exists (mids m). auto. }
  { auto. }
  { auto. }
  constructor.
  - exact (oi_alloc _ _ _ I).
  - exact (oi_free_nodup _ _ _ I).
  - exact (oi_free _ _ _ I).
  - exact (oi_dead _ _ _ I).
  - exact L.
  - exact U.
  - exact ND.
  - exact (oi_issued _ _ _ I).
  - intros q fr' Hin Hk. destruct (Hf q fr' Hin) as (fr & Hin0 & _). exact (oi_locked _ _ _ I q fr Hin0 Hk).
  - change (NoDup (flocs F')). rewrite Hl. exact (oi_frames _ _ _ I).
  - exact (oi_ideal _ _ _ I).
Qed.

(* a successful deletion cascade from orphan roots *)
Lemma oinv_casc s F s' e roots :
  OInv s F -> casc s s' e -> parents sfams s roots e ->
  (forall r, In r roots -> live s r) ->
  (forall r o h, In r roots -> owns s F o h -> fst h <> fst r) ->
  OInv s' F.
Proof.
  intros I C P Hrl Horph.
  assert (Hcur : cur s' = cur s) by exact (casc_cur _ _ _ C).
  (* a slot that is live afterwards was untouched *)
  assert (Hkeep : forall j sl', d_slots s' j = Some sl' -> sl_updated sl' <> None ->
                  ~ In j (map fst e) /\ d_slots s j = Some sl').
  { intros j sl' H' Hu'.
    destruct (in_dec N.eq_dec j (map fst e)) as [Hin | Hnin].
    - apply in_map_iff in Hin. destruct Hin as (c & <- & Hc).
      destruct (cs_died _ _ _ C c Hc) as (sl0 & _ & _ & _ & Hd).
      rewrite Hd in H'. injection H' as <-. contradiction Hu'. reflexivity.
    - split; [exact Hnin|]. rewrite <- (cs_other _ _ _ C j Hnin). exact H'. }
  assert (Hpeek : forall l m, peek_memo s' l = Some m -> peek_memo s l = Some m).
  { intros l m. unfold Machine.peek_memo. rewrite (cs_memo _ _ _ C).
    destruct (skind (fst l)); [|auto].
    destruct (d_slots s' (snd l)) as [sl'|] eqn:E'; [|discriminate].
    destruct (sl_updated sl') as [r|] eqn:Eu; [|discriminate].
    destruct (Hkeep _ _ E') as (_ & E0); [rewrite Eu; discriminate|].
    rewrite E0, Eu. auto. }
  assert (Hown : forall o ids, owner_ids s' F o ids -> owner_ids s F o ids).
  { intros [q | l] ids; cbn [Machine.owner_ids]; [auto|].
    intros (Hna & m & Hm & ->). split; [exact Hna|]. exists m. split; [exact (Hpeek _ _ Hm) | reflexivity]. }
  (* no surviving owner holds the index of a slot that died *)
  assert (Hsurv : forall o h, owns s' F o h -> ~ In (fst h) (map fst e)).
  { intros o h (ids & Ho & Hin) Hdie.
    apply in_map_iff in Hdie. destruct Hdie as (c & Ec & Hc).
    assert (Hos : owns s F o h) by (exists ids; split; [exact (Hown _ _ Ho) | exact Hin]).
    destruct (P c Hc) as [Hroot | (p & Hp & slp & fam & m & Hsp & Hfam & Hm & Hcm)].
    - exact (Horph c o h Hroot Hos (eq_sym Ec)).
    - destruct (cs_died _ _ _ C p Hp) as (slp' & Hsp' & Hup & Hlk & Hdp).
      rewrite Hsp in Hsp'. injection Hsp' as <-.
      assert (Hom : owns s F (OwM (fam, fst p)) c).
      { exists (mids m). split; [|exact Hcm]. cbn [Machine.owner_ids]. split.
        - intros (q' & fr' & Hin' & El).
          assert (Hk : skind (fst q') = true).
          { unfold loc_of in El. injection El as El _. rewrite El. exact (sfams_skind _ Hfam). }
          destruct (oi_locked _ _ _ I q' fr' Hin' Hk) as (sl1 & H1 & Hu1).
          unfold loc_of in El. injection El as _ El. rewrite El, Hsp in H1. injection H1 as <-. contradiction.
        - exists m. split; [|reflexivity]. unfold Machine.peek_memo. cbn [fst snd].
          rewrite (sfams_skind _ Hfam), Hsp. destruct (sl_updated slp); [exact Hm | contradiction Hup; reflexivity]. }
      assert (Eo : o = OwM (fam, fst p)) by (apply (oi_uniq _ _ _ I o _ h c Hos Hom); congruence).
      subst o. destruct Ho as (_ & m' & Hm' & _).
      unfold Machine.peek_memo in Hm'. cbn [fst snd] in Hm'. rewrite (sfams_skind _ Hfam), Hdp in Hm'.
      cbn in Hm'. discriminate. }
  destruct (own_transfer0 skind s F s' F (fun o => o) (oinv_own _ _ _ I)) as (L & U & ND).
  { intros o ids Ho. apply Hown in Ho. split; [exact (oi_nodup _ _ _ I _ _ Ho)|]. intros h Hh. exists ids. auto. }
  { auto. }
  { intros o h Hos (sl0 & H0 & Hu0 & Hg0). exists sl0.
    rewrite (cs_other _ _ _ C _ (Hsurv o h Hos)). auto. }
  (* generations of the handles on the extended free list *)
  assert (Hegen : forall c, In c e -> live s c).
  { intros c Hc. destruct (P c Hc) as [Hroot | (p & Hp & slp & fam & m & Hsp & Hfam & Hm & Hcm)]; [exact (Hrl c Hroot)|].
    destruct (cs_died _ _ _ C p Hp) as (slp' & Hsp' & Hup & Hlk & Hdp).
    rewrite Hsp in Hsp'. injection Hsp' as <-.
    apply (oi_live _ _ _ I (OwM (fam, fst p))). exists (mids m). split; [|exact Hcm].
    cbn [Machine.owner_ids]. split.
    - intros (q' & fr' & Hin' & El).
      assert (Hk : skind (fst q') = true).
      { unfold loc_of in El. injection El as El _. rewrite El. exact (sfams_skind _ Hfam). }
      destruct (oi_locked _ _ _ I q' fr' Hin' Hk) as (sl1 & H1 & Hu1).
      unfold loc_of in El. injection El as _ El. rewrite El, Hsp in H1. injection H1 as <-. contradiction.
    - exists m. split; [|reflexivity]. unfold Machine.peek_memo. cbn [fst snd].
      rewrite (sfams_skind _ Hfam), Hsp. destruct (sl_updated slp); [exact Hm | contradiction Hup; reflexivity]. }
  constructor.
  - intros j. rewrite (cs_nslots _ _ _ C).
    destruct (in_dec N.eq_dec j (map fst e)) as [Hin | Hnin].
    + apply in_map_iff in Hin. destruct Hin as (c & <- & Hc).
      destruct (cs_died _ _ _ C c Hc) as (sl0 & H0 & _ & _ & Hd). rewrite Hd. split; [discriminate|].
      intros Hle. apply (oi_alloc _ _ _ I) in Hle. congruence.
    + rewrite (cs_other _ _ _ C j Hnin). exact (oi_alloc _ _ _ I j).
  - rewrite (cs_free _ _ _ C), map_app. apply nodup_app; [exact (oi_free_nodup _ _ _ I) | exact (cs_nodup _ _ _ C) |].
    intros j H1 H2. apply in_map_iff in H1. destruct H1 as ([j' g] & <- & H1).
    destruct (oi_free _ _ _ I j' g H1) as (sl0 & H0 & Hu0 & _).
    apply in_map_iff in H2. destruct H2 as (c & Ec & Hc).
    destruct (cs_died _ _ _ C c Hc) as (slc & Hsc & Huc & _). cbn [fst] in Ec. rewrite Ec, H0 in Hsc.
    injection Hsc as <-. contradiction.
  - intros j g Hin. rewrite (cs_free _ _ _ C) in Hin. apply in_app_or in Hin. destruct Hin as [Hin | Hin].
    + destruct (oi_free _ _ _ I j g Hin) as (sl0 & H0 & Hu0 & Hg0).
      assert (Hnin : ~ In j (map fst e)).
      { intros H2. apply in_map_iff in H2. destruct H2 as (c & Ec & Hc).
        destruct (cs_died _ _ _ C c Hc) as (slc & Hsc & Huc & _). rewrite Ec, H0 in Hsc.
        injection Hsc as <-. contradiction. }
      exists sl0. rewrite (cs_other _ _ _ C j Hnin). auto.
    + destruct (cs_died _ _ _ C _ Hin) as (sl0 & H0 & _ & _ & Hd). cbn [fst] in *.
      exists (dead sl0). split; [exact Hd|]. split; [reflexivity|].
      destruct (Hegen _ Hin) as (sl1 & H1 & _ & Hg1). cbn [fst snd] in *. rewrite H0 in H1. injection H1 as <-. exact Hg1.
  - intros j sl0 H0 Hu0 fam.
    destruct (in_dec N.eq_dec j (map fst e)) as [Hin | Hnin].
    + apply in_map_iff in Hin. destruct Hin as (c & <- & Hc).
      destruct (cs_died _ _ _ C c Hc) as (sl1 & _ & _ & _ & Hd). rewrite Hd in H0. injection H0 as <-. reflexivity.
    + rewrite (cs_other _ _ _ C j Hnin) in H0. exact (oi_dead _ _ _ I j sl0 H0 Hu0 fam).
  - exact L.
  - exact U.
  - exact ND.
  - intros j g x Hin. rewrite (cs_ideal _ _ _ C) in Hin.
    destruct (oi_issued _ _ _ I j g x Hin) as (sl0 & H0 & Hg0).
    destruct (in_dec N.eq_dec j (map fst e)) as [Hin2 | Hnin].
    + apply in_map_iff in Hin2. destruct Hin2 as (c & <- & Hc).
      destruct (cs_died _ _ _ C c Hc) as (sl1 & H1 & _ & _ & Hd). rewrite H0 in H1. injection H1 as <-.
      exists (dead sl0). auto.
    + exists sl0. rewrite (cs_other _ _ _ C j Hnin). auto.
  - intros q fr Hin Hk. destruct (oi_locked _ _ _ I q fr Hin Hk) as (sl0 & H0 & Hu0).
    rewrite Hcur. exists sl0. split; [|exact Hu0].
    rewrite (cs_other _ _ _ C); [exact H0|].
    intros H2. apply in_map_iff in H2. destruct H2 as (c & Ec & Hc).
    destruct (cs_died _ _ _ C c Hc) as (slc & Hsc & _ & Hlk & _). rewrite Ec, H0 in Hsc.
    injection Hsc as <-. contradiction.
  - exact (oi_frames _ _ _ I).
  - intros j sl0 H0 Hu0. rewrite (cs_ideal _ _ _ C).
    destruct (Hkeep _ _ H0 Hu0) as (_ & E0). exact (oi_ideal _ _ _ I j sl0 E0 Hu0).
Qed.


(* a memo is stored at q's location; its struct ids come from the owner [src] (the frame that
   just completed, or the memo it replaces); frames may lose entries *)
Lemma oinv_store s F s' F' q m (src : owner) :
  OInv s F ->
  d_revs s' = d_revs s -> d_nslots s' = d_nslots s -> d_free s' = d_free s -> d_ideal s' = d_ideal s ->
  ((skind (fst q) = false /\ (forall l, d_memo s' l = upd (d_memo s) (loc_of q) (Some m) l) /\
    (forall j, d_slots s' j = d_slots s j)) \/
   (skind (fst q) = true /\ (forall l, d_memo s' l = d_memo s l) /\
    exists sl sl', d_slots s (fst (snd q)) = Some sl /\ sl_updated sl <> None /\
               d_slots s' (fst (snd q)) = Some sl' /\
               (forall j, j <> fst (snd q) -> d_slots s' j = d_slots s j) /\
               sl_updated sl' = sl_updated sl /\ sl_gen sl' = sl_gen sl /\ slot_fields sl' = slot_fields sl /\
               sl_memos sl' (fst q) = Some m /\
               (forall fam, fam <> fst q -> sl_memos sl' fam = sl_memos sl fam))) ->
  (forall q' fr', In (q', fr') F' -> In (q', fr') F) -> NoDup (flocs F') ->
  (forall l', l' <> loc_of q -> active_loc F l' -> active_loc F' l') ->
  (~ active_loc F' (loc_of q) -> NoDup (map fst (mids m))) ->
  (~ active_loc F' (loc_of q) -> forall h, In h (mids m) -> exists ids0, owner_ids s F src ids0 /\ In h ids0) ->
  (src = OwM (loc_of q) \/ forall ids, ~ owner_ids s' F' src ids) ->
  OInv s' F'.
Proof.
  intros I Er En Ef Ei Hst Hsub Hnd Hact Hmnd Hsrc Hinj.
  assert (Hcur : cur s' = cur s) by (unfold cur; now rewrite Er).
  (* slots: same liveness, generation, fields everywhere *)
  assert (Hslot : forall j sl', d_slots s' j = Some sl' ->
            exists sl, d_slots s j = Some sl /\ sl_updated sl' = sl_updated sl /\ sl_gen sl' = sl_gen sl /\
                       slot_fields sl' = slot_fields sl /\
                       (forall fam, (fam, j) <> loc_of q -> sl_memos sl' fam = sl_memos sl fam)).
  { intros j sl' H'. destruct Hst as [(_ & _ & Es) | (Hk & _ & sl & sl0' & Hs & Hu & Hs' & Es & Eu & Eg & Efl & Emq & Emo)].
    - rewrite Es in H'. exists sl'. repeat split; auto.
    - destruct (N.eq_dec j (fst (snd q))) as [-> | E].
      + rewrite Hs' in H'. injection H' as <-. exists sl. repeat split; auto.
        intros fam Hne. apply Emo. intros ->. apply Hne. reflexivity.
      + rewrite (Es j E) in H'. exists sl'. repeat split; auto. }
  assert (Hslot2 : forall j sl, d_slots s j = Some sl -> exists sl', d_slots s' j = Some sl').
  { intros j sl H0. destruct Hst as [(_ & _ & Es) | (Hk & _ & sl0 & sl0' & Hs & Hu & Hs' & Es & _)].
    - rewrite Es. eauto.
    - destruct (N.eq_dec j (fst (snd q))) as [-> | E]; [eauto | rewrite (Es j E); eauto]. }
  assert (Hnone : forall j, d_slots s' j = None <-> d_slots s j = None).
  { intros j. split; intros H0.
    - destruct (d_slots s j) as [sl|] eqn:E; [|reflexivity].
      destruct (Hslot2 j sl E) as (sl' & H'). congruence.
    - destruct (d_slots s' j) as [sl'|] eqn:E; [|reflexivity].
      destruct (Hslot j sl' E) as (sl & Hs & _). congruence. }
  (* memos elsewhere are unchanged *)
  assert (Hpeek : forall l, l <> loc_of q -> peek_memo s' l = peek_memo s l).
  { intros l Hne. unfold Machine.peek_memo. destruct (skind (fst l)) eqn:Hk.
    - destruct (d_slots s' (snd l)) as [sl'|] eqn:E'.
      + destruct (Hslot _ _ E') as (sl & Hs & Hu & _ & _ & Hm). rewrite Hs, Hu.
        destruct (sl_updated sl); [|reflexivity]. apply Hm. intros E. apply Hne. rewrite <- E. destruct l; reflexivity.
      + apply Hnone in E'. rewrite E'. reflexivity.
    - destruct Hst as [(Hkq & Em & _) | (Hkq & Em & _)]; rewrite Em; [|reflexivity].
      apply upd_other. congruence. }
  assert (Hpeekq : ~ active_loc F' (loc_of q) -> forall m', peek_memo s' (loc_of q) = Some m' -> m' = m).
  { intros _ m'. unfold Machine.peek_memo. cbn [loc_of fst snd].
    destruct Hst as [(Hkq & Em & _) | (Hkq & Em & sl & sl0' & Hs & Hu & Hs' & Es & Eu & Eg & Efl & Emq & Emo)]; rewrite Hkq.
    - rewrite Em. unfold loc_of. rewrite upd_same. intros H0; injection H0; auto.
    - rewrite Hs'. destruct (sl_updated sl0'); [|discriminate]. rewrite Emq. intros H0; injection H0; auto. }
  assert (Hlive : forall h, live s h -> live s' h).
  { intros h (sl & Hs & Hu & Hg). destruct (Hslot2 _ _ Hs) as (sl' & H').
    destruct (Hslot _ _ H') as (sl0 & Hs0 & Hu0 & Hg0 & _). rewrite Hs in Hs0. injection Hs0 as <-.
    exists sl'. repeat split; [exact H' | rewrite Hu0; exact Hu | congruence]. }
  set (phi := fun o : owner => match o with
                              | OwM l => if loc_eqb l (loc_of q) then src else o
                              | _ => o end).
  destruct (own_transfer0 skind s F s' F' phi (oinv_own _ _ _ I)) as (L & U & ND).
  { intros [q' | l] ids; cbn [Machine.owner_ids phi].
    - intros (fr' & Hin & ->). apply Hsub in Hin.
      assert (Ho : owner_ids s F (OwF q') (frame_ids fr')) by (exists fr'; auto).
      split; [exact (oi_nodup _ _ _ I _ _ Ho)|]. intros h Hh. exists (frame_ids fr'). auto.
    - intros (Hna & m' & Hm' & ->). unfold loc_eqb. destruct (key_eqb_spec l (loc_of q)) as [-> | Hne].
      + rewrite (Hpeekq Hna m' Hm'). split; [exact (Hmnd Hna) | exact (Hsrc Hna)].
      + rewrite (Hpeek l Hne) in Hm'.
        assert (Ho : owner_ids s F (OwM l) (mids m')).
        { split; [|exists m'; auto]. intros Ha. exact (Hna (Hact l Hne Ha)). }
        split; [exact (oi_nodup _ _ _ I _ _ Ho)|]. intros h Hh. exists (mids m'). auto. }
  { intros o1 o2 ids1 ids2 h1 h2 Ho1 Ho2 _ _.
    assert (Hphi : forall o ids, owner_ids s' F' o ids -> phi o = o \/ (o = OwM (loc_of q) /\ phi o = src)).
    { intros [q' | l] ids _; cbn [phi]; [left; reflexivity|].
      unfold loc_eqb. destruct (key_eqb_spec l (loc_of q)) as [-> | Hne]; [right; auto | left; reflexivity]. }
    intros Ephi.
    destruct (Hphi _ _ Ho1) as [E1 | [Eo1 E1]], (Hphi _ _ Ho2) as [E2 | [Eo2 E2]];
      rewrite E1, E2 in Ephi.
    - exact Ephi.
    - subst o2. subst o1. destruct Hinj as [-> | Hno]; [reflexivity | exfalso; exact (Hno _ Ho1)].
    - subst o1. subst o2. destruct Hinj as [-> | Hno]; [reflexivity | exfalso; exact (Hno _ Ho2)].
    - congruence. }
  { intros o h _ Hl. exact (Hlive h Hl). }
  constructor.
  - intros j. rewrite En, Hnone. exact (oi_alloc _ _ _ I j).
  - rewrite Ef. exact (oi_free_nodup _ _ _ I).
  - intros j g Hin. rewrite Ef in Hin. destruct (oi_free _ _ _ I j g Hin) as (sl & Hs & Hu & Hg).
    destruct (Hslot2 _ _ Hs) as (sl' & H'). destruct (Hslot _ _ H') as (sl0 & Hs0 & Hu0 & Hg0 & _).
    rewrite Hs in Hs0. injection Hs0 as <-. exists sl'. repeat split; congruence.
  - intros j sl' H' Hu' fam. destruct (Hslot _ _ H') as (sl & Hs & Hu & _ & _ & Hm).
    rewrite Hu in Hu'.
    destruct Hst as [(_ & _ & Es) | (Hk & _ & sl0 & sl0' & Hs0 & Hu0 & Hs0' & Es & _)].
    + rewrite Es in H'. rewrite Hs in H'. injection H' as <-. exact (oi_dead _ _ _ I j sl Hs Hu' fam).
    + destruct (N.eq_dec j (fst (snd q))) as [-> | Hne].
      * rewrite Hs0 in Hs. injection Hs as <-. contradiction.
      * rewrite (Es j Hne) in H'. rewrite Hs in H'. injection H' as <-.
        exact (oi_dead _ _ _ I j sl Hs Hu' fam).
  - exact L.
  - exact U.
  - exact ND.
  - intros j g x Hin. rewrite Ei in Hin. destruct (oi_issued _ _ _ I j g x Hin) as (sl & Hs & Hg).
    destruct (Hslot2 _ _ Hs) as (sl' & H'). destruct (Hslot _ _ H') as (sl0 & Hs0 & _ & Hg0 & _).
    rewrite Hs in Hs0. injection Hs0 as <-. exists sl'. split; [exact H' | lia].
  - intros q' fr' Hin Hk. apply Hsub in Hin. destruct (oi_locked _ _ _ I q' fr' Hin Hk) as (sl & Hs & Hu).
    destruct (Hslot2 _ _ Hs) as (sl' & H'). destruct (Hslot _ _ H') as (sl0 & Hs0 & Hu0 & _).
    rewrite Hs in Hs0. injection Hs0 as <-. exists sl'. rewrite Hcur. split; [exact H' | congruence].
  - exact Hnd.
  - intros j sl' H' Hu'. destruct (Hslot _ _ H') as (sl & Hs & Hu & Hg & Hf & _).
    rewrite Ei, Hg, Hf. apply (oi_ideal _ _ _ I j sl Hs). rewrite <- Hu. exact Hu'.
Qed.


(* slot i receives a NEW generation g' (allocation of a never-used or deleted slot, or the
   identity-changed path of update on a slot whose memo table is already empty) for frame q *)
Lemma oinv_newgen s F s' q fr fr' i g' slnew :
  OInv s F -> In (q, fr) F ->
  In (i, g') (frame_ids fr') ->
  (forall h, In h (frame_ids fr') -> In h (frame_ids fr) \/ h = (i, g')) ->
  NoDup (map fst (frame_ids fr')) ->
  (forall sl, d_slots s i = Some sl -> sl_updated sl <> None -> forall fam, sl_memos sl fam = None) ->
  (forall sl, d_slots s i = Some sl -> sl_gen sl < g') ->
  (forall o h, owns s F o h -> fst h = i -> o = OwF q) ->
  (forall j, d_slots s' j = updN (d_slots s) i (Some slnew) j) ->
  sl_updated slnew = Some (cur s) -> sl_gen slnew = g' -> (forall fam, sl_memos slnew fam = None) ->
  (d_slots s i = None -> i = d_nslots s /\ d_nslots s' = i + 1) ->
  (d_slots s i <> None -> d_nslots s' = d_nslots s) ->
  (forall x, In x (d_free s') -> In x (d_free s) /\ fst x <> i) -> NoDup (map fst (d_free s')) ->
  d_ideal s' = ((i, g'), slot_fields slnew) :: d_ideal s ->
  d_revs s' = d_revs s -> d_memo s' = d_memo s ->
  OInv s' (set_frame F q fr').
Proof.
  intros I Hq Hnew Hsub Hnd Hmem Hgen Hown Es Hu' Hg' Hm' Hn0 Hn1 Hfree Hfnd Ei Er Em.
  assert (Hcur : cur s' = cur s) by (unfold cur; now rewrite Er).
  assert (Hslot : forall j, d_slots s' j = if i =? j then Some slnew else d_slots s j).
  { intros j. rewrite Es. reflexivity. }
  assert (HF : NoDup (flocs F)) by exact (oi_frames _ _ _ I).
  assert (Hp : forall l m, peek_memo s' l = Some m -> peek_memo s l = Some m).
  { intros l m. unfold Machine.peek_memo. rewrite Em. destruct (skind (fst l)); [|auto].
    rewrite Hslot. destruct (N.eqb_spec i (snd l)) as [E | E]; [|auto].
    rewrite Hu', Hm'. discriminate. }
  assert (Hact : forall l, active_loc (set_frame F q fr') l <-> active_loc F l).
  { intros l. rewrite !active_loc_flocs, flocs_set_frame. reflexivity. }
  destruct (own_transfer skind s F s' (set_frame F q fr') (fun o => o) (OwF q) (i, g') (oinv_own _ _ _ I))
    as (L & U & ND).
  { intros [q' | l] ids; cbn [Machine.owner_ids].
    - intros (fr0 & Hin & ->). apply (in_set_frame F q fr fr' q' fr0 HF Hq) in Hin.
      destruct Hin as [[-> ->] | [Hne Hin]].
      + split; [exact Hnd|]. exists (frame_ids fr). split; [exists fr; auto|].
        intros h Hh. destruct (Hsub h Hh) as [? | ->]; auto.
      + assert (Ho : owner_ids s F (OwF q') (frame_ids fr0)) by (exists fr0; auto).
        split; [exact (oi_nodup _ _ _ I _ _ Ho)|]. exists (frame_ids fr0). split; [exact Ho | auto].
    - intros (Hna & m & Hm & ->).
      assert (Ho : owner_ids s F (OwM l) (mids m)).
      { split; [rewrite <- Hact; exact Hna | exists m; split; [exact (Hp _ _ Hm) | reflexivity]]. }
      split; [exact (oi_nodup _ _ _ I _ _ Ho)|]. exists (mids m). split; [exact Ho | auto]. }
  { auto. }
  { intros o h Ho E. exact (Hown o h Ho E). }
  { intros o h (ids & Ho & Hin) E. cbn [fst] in E.
    destruct o as [q' | l]; cbn [Machine.owner_ids] in Ho.
    - destruct Ho as (fr0 & Hin0 & ->). apply (in_set_frame F q fr fr' q' fr0 HF Hq) in Hin0.
      destruct Hin0 as [[-> ->] | [Hne Hin0]].
      + (* the frame of q: indices are unique and (i, g') is there *)
        clear -Hnd Hnew Hin E. induction (frame_ids fr') as [|x l IH]; [destruct Hin|].
        cbn [map] in Hnd. apply NoDup_cons_iff in Hnd. destruct Hnd as [Hx Hr].
        destruct Hin as [Ex | Hin], Hnew as [Ey | Hnew].
        * congruence.
        * exfalso. apply Hx. apply in_map_iff. exists (i, g'). split; [subst x; symmetry; exact E | exact Hnew].
        * exfalso. apply Hx. apply in_map_iff. exists h. split; [subst x; exact E | exact Hin].
        * exact (IH Hnew Hr Hin).
      + exfalso. assert (Hos : owns s F (OwF q') h) by (exists (frame_ids fr0); split; [exists fr0; auto | exact Hin]).
        pose proof (Hown _ _ Hos E) as Eo. injection Eo as ->. contradiction.
    - destruct Ho as (Hna & m & Hm & ->). exfalso.
      assert (Hos : owns s F (OwM l) h).
      { exists (mids m). split; [|exact Hin]. split; [rewrite <- Hact; exact Hna | exists m; split; [exact (Hp _ _ Hm) | reflexivity]]. }
      pose proof (Hown _ _ Hos E). discriminate. }
  { intros h (sl & Hs & Hu & Hg) Hne. cbn [fst] in Hne. exists sl. rewrite Hslot.
    destruct (N.eqb_spec i (fst h)); [congruence | auto]. }
  { intros _. exists slnew. cbn [fst snd]. rewrite Hslot, N.eqb_refl. repeat split; [rewrite Hu'; discriminate | exact Hg']. }
  constructor.
  - intros j. rewrite Hslot. destruct (N.eqb_spec i j) as [<- | E].
    + split; [discriminate|]. intros Hle. exfalso.
      destruct (d_slots s i) as [sl|] eqn:E0.
      * rewrite Hn1 in Hle by discriminate. apply (oi_alloc _ _ _ I) in Hle. congruence.
      * destruct (Hn0 eq_refl) as (-> & Hn). lia.
    + destruct (d_slots s i) as [sl|] eqn:E0.
      * rewrite Hn1 by discriminate. exact (oi_alloc _ _ _ I j).
      * destruct (Hn0 eq_refl) as (Hi & Hn). rewrite Hn, (oi_alloc _ _ _ I j). subst i. lia.
  - exact Hfnd.
  - intros j g Hin. destruct (Hfree _ Hin) as (Hin0 & Hne). cbn [fst] in Hne.
    destruct (oi_free _ _ _ I j g Hin0) as (sl & Hs & Hu & Hg). exists sl. rewrite Hslot.
    destruct (N.eqb_spec i j); [congruence | auto].
  - intros j sl. rewrite Hslot. destruct (N.eqb_spec i j) as [<- | E].
    + intros H0 Hu0. injection H0 as <-. congruence.
    + exact (oi_dead _ _ _ I j sl).
  - exact L.
  - exact U.
  - exact ND.
  - intros j g x Hin. rewrite Ei in Hin. destruct Hin as [Hin | Hin].
    + injection Hin as <- <- _. exists slnew. rewrite Hslot, N.eqb_refl. split; [reflexivity | lia].
    + destruct (oi_issued _ _ _ I j g x Hin) as (sl & Hs & Hg). rewrite Hslot.
      destruct (N.eqb_spec i j) as [<- | E].
      * exists slnew. split; [reflexivity|]. pose proof (Hgen sl Hs). lia.
      * exists sl. auto.
  - intros q' fr0 Hin Hk. apply (in_set_frame F q fr fr' q' fr0 HF Hq) in Hin.
    assert (Hin0 : exists fr1, In (q', fr1) F).
    { destruct Hin as [[-> ->] | [_ Hin]]; eauto. }
    destruct Hin0 as (fr1 & Hin1). destruct (oi_locked _ _ _ I q' fr1 Hin1 Hk) as (sl & Hs & Hu).
    rewrite Hslot, Hcur. destruct (N.eqb_spec i (fst (snd q'))) as [E | E].
    + exists slnew. auto.
    + exists sl. auto.
  - change (NoDup (flocs (set_frame F q fr'))). rewrite flocs_set_frame. exact HF.
  - intros j sl. rewrite Hslot, Ei, ideal_get_cons. destruct (N.eqb_spec i j) as [<- | E].
    + intros H0 _. injection H0 as <-. rewrite Hg', handle_eqb_refl. reflexivity.
    + intros H0 Hu0. destruct (handle_eqb (i, g') (j, sl_gen sl)) eqn:Eh.
      * apply handle_eqb_eq in Eh. injection Eh as Eh _. contradiction.
      * exact (oi_ideal _ _ _ I j sl H0 Hu0).
Qed.

End Cases.

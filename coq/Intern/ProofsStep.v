(* Intern/ProofsStep.v — what one operation does to the state, as a relation
   (one constructor per path of `intern_id`), and preservation of the invariant by
   every operation and every run. *)
From Salsa Require Import Base.
From Salsa.Intern Require Import RetK Model ProofsBase ProofsInv.

Local Open Scope N_scope.

Section Step.
Variable shard_of : val -> N.
Variable c : cfg.

Notation Inv := (Inv shard_of c).
Notation SInv := (SInv shard_of c).

Definition fast_lia (s : st) (sl : slot) : rev :=
  if s_lia sl <? st_cur s then st_cur s else s_lia sl.

Definition fast_dur (sl : slot) (sp : stamp) : dur :=
  match sp with InQuery d => N.max (s_dur sl) d | Outside => s_dur sl end.

Inductive intern_res (s : st) (v : val) (sp : stamp) (fr : N) (s' : st) : outcome -> Prop :=
| IR_fast idx sl :
    key_find v (st_keys s (shard_of v)) = Some idx ->
    st_slots s idx = Some sl ->
    st_cur s' = st_cur s ->
    st_queue s' = record_active c s ->
    st_keys s' = st_keys s ->
    st_slots s' = updN (st_slots s) idx
      (Some (mkSlot (s_val sl) (s_gen sl) (fast_lia s sl) (fast_dur sl sp) (s_shard sl))) ->
    (forall sh, sh <> shard_of v -> st_lru s' sh = st_lru s sh) ->
    intern_res s v sp fr s' (RIntern idx (s_gen sl) PFast)
| IR_cold :
    key_find v (st_keys s (shard_of v)) = None ->
    st_slots s fr = None ->
    st_cur s' = st_cur s ->
    st_queue s' = record_active c s ->
    st_keys s' = updN (st_keys s) (shard_of v) ((v, fr) :: st_keys s (shard_of v)) ->
    st_slots s' = updN (st_slots s) fr
      (Some (mkSlot v 0 (snd (stamp_vals (st_cur s) sp)) (fst (stamp_vals (st_cur s) sp))
                    (shard_of v))) ->
    (forall sh, sh <> shard_of v -> st_lru s' sh = st_lru s sh) ->
    intern_res s v sp fr s' (RIntern fr 0 PCold)
| IR_reuse idx sl :
    key_find v (st_keys s (shard_of v)) = None ->
    In idx (st_lru s (shard_of v)) ->
    st_slots s idx = Some sl ->
    s_gen sl < c_gen_max c ->
    rq_is_primed (record_active c s) = true ->
    rq_is_stale (record_active c s) (s_lia sl) = true ->
    st_cur s' = st_cur s ->
    st_queue s' = record_active c s ->
    st_keys s' = updN (st_keys s) (shard_of v)
                   ((v, idx) :: key_remove_idx idx (st_keys s (shard_of v))) ->
    st_slots s' = updN (st_slots s) idx
      (Some (mkSlot v (s_gen sl + 1) (snd (stamp_vals (st_cur s) sp))
                    (fst (stamp_vals (st_cur s) sp)) (shard_of v))) ->
    (forall sh, sh <> shard_of v -> st_lru s' sh = st_lru s sh) ->
    intern_res s v sp fr s' (RIntern idx (s_gen sl + 1) PReuse)
| IR_bad :
    st_cur s' = st_cur s ->
    st_queue s' = record_active c s ->
    st_keys s' = st_keys s ->
    st_slots s' = st_slots s ->
    intern_res s v sp fr s' RBad.

Lemma stamp_vals_eta cur sp :
  stamp_vals cur sp = (fst (stamp_vals cur sp), snd (stamp_vals cur sp)).
Proof. destruct (stamp_vals cur sp); reflexivity. Qed.

Lemma intern_cold_spec s q sh lru0 ub pre v sp fr s' out evs :
  Inv s -> sh = shard_of v -> q = record_active c s ->
  key_find v (st_keys s sh) = None ->
  lru_shrunk c s (st_lru s sh) lru0 ->
  intern_cold c s q sh lru0 ub pre v sp fr = (s', out, evs) ->
  intern_res s v sp fr s' out /\ Inv s'.
Proof.
  intros [Hcur [HS HQ]] -> -> Hf Hshr. unfold intern_cold.
  destruct (st_slots s fr) as [sl0|] eqn:Efr.
  - intros H; inversion H; subst; clear H. split.
    + apply IR_bad; reflexivity.
    + split; [exact Hcur|]. split.
      * eapply SInv_lru_only with (s := s) (sh := shard_of v) (lru0 := lru0);
          try reflexivity; assumption.
      * cbn [st_cur st_queue]. now apply queue_ok_record.
  - rewrite (stamp_vals_eta (st_cur s) sp).
    intros H; inversion H; subst; clear H. split.
    + apply IR_cold; try reflexivity; try assumption.
      intros sh Hne. cbn [st_lru]. now rewrite updN_other by congruence.
    + split; [exact Hcur|]. split.
      * eapply SInv_cold with (s := s) (sp := sp) (lru0 := lru0) (v := v) (fr := fr);
          try reflexivity; try assumption. lia.
      * cbn [st_cur st_queue]. now apply queue_ok_record.
Qed.

Lemma intern_spec s v sp fr s' out evs :
  Inv s ->
  intern shard_of c s v sp fr = (s', out, evs) ->
  intern_res s v sp fr s' out /\ Inv s'.
Proof.
  intros HI. pose proof HI as [Hcur [HS HQ]]. unfold intern.
  pose proof (queue_ok_record c s (proj1 Hcur) HQ) as HQ'.
  destruct (key_find v (st_keys s (shard_of v))) as [idx|] eqn:Ef.
  - (* fast path *)
    pose proof (key_find_In _ _ _ Ef) as Hk.
    destruct (si_key_slot _ _ s HS _ _ _ Hk) as [sl [Hsl [Hv [Hsh _]]]].
    rewrite Hsl. intros H; inversion H; subst s' out evs; clear H. split.
    + eapply IR_fast; try reflexivity; try eassumption.
      intros sh Hne. cbn [st_lru]. now rewrite updN_other by congruence.
    + split; [exact Hcur|]. split; [|exact HQ'].
      pose proof (fast_lru_props shard_of (immortal c) (s_lia sl <? st_cur s) (s_dur sl) sp idx
                    (st_lru s (shard_of v)) (si_lru_nd _ _ s HS _)) as P.
      cbv zeta in P.
      destruct P as [Pnd [Poth [Pin Pkeep]]].
      { intros Hin. destruct (si_lru_slot _ _ s HS _ _ Hin) as [sl1 [Hs1 [_ Hr1]]].
        rewrite Hsl in Hs1; inversion Hs1; now subst. }
      match goal with |- SInv ?S' =>
        apply (SInv_fast shard_of c s S' v idx sl _ _ _ HS Ef Hsl
                 eq_refl eq_refl eq_refl eq_refl)
      end.
      * destruct (si_lia _ _ s HS _ _ Hsl) as [L1 L2].
        destruct (N.ltb_spec (s_lia sl) (st_cur s)); [lia|auto].
      * exact Pnd.
      * exact Poth.
      * exact Pin.
      * destruct sp; [auto|apply reusable_max].
      * exact Pkeep.
  - (* not interned yet *)
    destruct (rq_is_primed (record_active c s)) eqn:Epr; cbn [negb].
    + destruct (find_reusable_slot c (record_active c s) (st_slots s) (st_lru s (shard_of v)))
        as [[lru0 leaked] found] eqn:Efind.
      pose proof (find_reusable_shrunk shard_of c s _ _ _ _ _ HS Efind) as Hshr.
      destruct (find_reusable_spec c _ _ _ _ _ _ Efind) as [_ [_ Hfound]].
      destruct found as [[[idx og] ng]|].
      * destruct Hfound as [sl [Hin0 [Hsl [Hog [Hng [Hlt Hst]]]]]].
        rewrite (stamp_vals_eta (st_cur s) sp).
        assert (Hin : In idx (st_lru s (shard_of v))) by (now apply Hshr).
        destruct (si_lru_slot _ _ s HS _ _ Hin) as [sl1 [Hs1 [Hsh1 Hr1]]].
        rewrite Hsl in Hs1; inversion Hs1; subst sl1; clear Hs1.
        pose proof (si_slot_key _ _ s HS _ _ Hsl) as Hk. rewrite Hsh1 in Hk.
        assert (Hhas : key_has_idx idx (st_keys s (shard_of v)) = true).
        { apply key_has_idx_true. eauto. }
        rewrite Hhas; cbn [negb].
        intros H; inversion H; subst s' out evs og ng; clear H. split.
        -- eapply IR_reuse; try reflexivity; try eassumption.
           intros sh Hne. cbn [st_lru]. now rewrite updN_other by congruence.
        -- split; [exact Hcur|]. split; [|exact HQ'].
           eapply SInv_reuse with (sp := sp) (lru0 := lru0) (sl := sl); eauto;
             try reflexivity. lia.
      * intros H. eapply intern_cold_spec; eauto.
    + intros H. eapply intern_cold_spec; eauto.
      apply lru_shrunk_refl. apply (si_lru_nd _ _ s HS).
Qed.

Lemma mca_Inv s idx gen since s' out evs :
  Inv s -> mca c s idx gen since = (s', out, evs) -> Inv s'.
Proof.
  intros [Hcur [HS HQ]]. unfold mca.
  pose proof (queue_ok_record c s (proj1 Hcur) HQ) as HQ'.
  destruct (st_slots s idx) as [sl|] eqn:Hsl.
  - destruct (gen <? s_gen sl).
    + intros H; inversion H; subst. split; [exact Hcur|]. split; [|exact HQ'].
      eapply SInv_same; eauto; try reflexivity; try (cbn [set_queue st_cur]; lia).
    + intros H; inversion H; subst. split; [exact Hcur|]. split; [|exact HQ'].
      eapply SInv_mca; eauto; try reflexivity; try lia.
  - intros H; inversion H; subst. split; [exact Hcur|]. split; [|exact HQ'].
    eapply SInv_same; eauto; try reflexivity; try (cbn [set_queue st_cur]; lia).
Qed.

Lemma read_Inv s idx s' out evs :
  Inv s -> read_fields c s idx = (s', out, evs) -> s' = s.
Proof.
  intros _. unfold read_fields. destruct (st_slots s idx); intros H; now inversion H.
Qed.

Lemma new_revision_Inv s s' out evs :
  Inv s -> new_revision s = (s', out, evs) -> Inv s'.
Proof.
  intros [Hcur [HS HQ]]. unfold new_revision.
  destruct (N.ltb_spec (st_cur s) REV_MAX) as [Hlt|Hge].
  - intros H; inversion H; subst; clear H. unfold Inv. cbn [st_cur st_queue].
    split; [lia|]. split.
    + eapply SInv_same; eauto; try reflexivity; try (cbn [st_cur]; lia).
    + eapply queue_ok_mono; [|exact HQ]. lia.
  - intros H; inversion H; subst. split; [exact Hcur|]. split; assumption.
Qed.

Lemma step_Inv s o s' out evs :
  Inv s -> step shard_of c s o = (s', out, evs) -> Inv s'.
Proof.
  intros HI. destruct o as [t v sp fr|t idx gen since|t idx|]; cbn [step]; intros H.
  - now destruct (intern_spec _ _ _ _ _ _ _ HI H).
  - eapply mca_Inv; eauto.
  - now rewrite (read_Inv _ _ _ _ _ HI H).
  - eapply new_revision_Inv; eauto.
Qed.

Lemma exec_rev_Inv : cfg_ok c -> forall rops s tr,
  exec_rev shard_of c rops = (s, tr) -> Inv s.
Proof.
  intros Hc. induction rops as [|o rest IH]; intros s tr; cbn [exec_rev].
  - intros H; inversion H; subst. now apply Inv_init.
  - destruct (exec_rev shard_of c rest) as [s0 tr0].
    destruct (step shard_of c s0 o) as [[s1 out] evs] eqn:Es.
    intros H; inversion H; subst. eapply step_Inv; eauto.
Qed.

Theorem run_Inv : cfg_ok c -> forall ops s tr, run shard_of c ops = (s, tr) -> Inv s.
Proof. intros Hc ops s tr. unfold run. apply exec_rev_Inv; assumption. Qed.

End Step.

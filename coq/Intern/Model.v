(* Intern/Model.v — executable transcription of the interned ingredient
   (/repo/src/interned.rs).  DEFINITIONS ONLY (see CONVENTIONS.md); the proofs are
   in Intern/Proofs*.v, the property theorems in Props/C08.v, Props/C09.v.

   What is transcribed (Rust item -> Gallina):
     IngredientImpl::intern_id, fast path          -> intern (branch PFast)
     IngredientImpl::intern_id_cold + insert_value -> intern (branch PCold)
     IngredientImpl::intern_id, reuse path         -> intern (branch PReuse)
     IngredientImpl::find_reusable_slot (inner)    -> scan_back / find_reusable_slot
     Ingredient::maybe_changed_after               -> mca
     IngredientImpl::data / fields                 -> read_fields
     Runtime::new_revision (Revision::next)        -> new_revision
     RevisionQueue::record call sites              -> first line of intern and of mca
     report_tracked_read_if_reusable               -> ghost event EvEdge
     clear_memos(old_id) on reuse                  -> ghost event EvClearMemos

   Atomicity.  Every operation of the ingredient runs under the lock of one shard
   (`shards[shard_index].lock()`), so an execution with any number of threads is a
   sequence of atomic operations, each tagged with the thread that performed it
   (the tag `t` is carried by `op` and is never consulted: the ingredient has no
   per-thread state).  `RevisionQueue::record(current_revision)` is executed just
   before the lock is taken; it is idempotent within a revision and the revision
   cannot change while any handle can call `intern_id`/`maybe_changed_after`
   (`new_revision` needs `&mut`), so executing it atomically with the locked part
   is exact.  This is the atomicity assumption named in DESIGN §8.

   Oracles.  `shard_of : val -> N` is the composition of FxHash and
   `IngredientImpl::shard`; it is a Section variable, so everything holds for every
   hash function.  The index of a freshly allocated slot comes from the page
   allocator (`zalsa_local.allocate`, layer Alloc); it is the `fresh` argument of
   `intern`.  An unusable oracle answer (`fresh` already a slot of this
   ingredient) yields `RBad` and leaves slots/maps untouched.

   Not modelled: user code inside `assemble`/hash/eq (values are plain data and
   cannot panic), the persistence (de)serialisation entry points, `reset`. *)
From Salsa Require Import Base.
From Salsa.Intern Require Import RetK.

(* zalsa_local.active_query().map(|(_, stamp)| stamp.durability) *)
Inductive stamp :=
| Outside                 (* no active query *)
| InQuery (d : dur).      (* active query, accumulated durability so far *)

(* struct Value<C> + EntryMetadata: fields, id.generation, last_interned_at,
   durability, shard.  The slot index is the key of the slot table. *)
Record slot := mkSlot {
  s_val : val;
  s_gen : N;
  s_lia : rev;
  s_dur : dur;
  s_shard : N
}.

(* Configuration::REVISIONS (None = IMMORTAL = usize::MAX) and the generation at
   which `Id::next_generation` fails (u32::MAX in the crate; a parameter so that
   the leak path can be exercised by computation). *)
Record cfg := mkCfg {
  c_revisions : option N;
  c_gen_max : N
}.

Definition immortal (c : cfg) : bool :=
  match c_revisions c with None => true | Some _ => false end.

Definition rust_cfg (revisions : option N) : cfg := mkCfg revisions GEN_MAX_U32.

Record st := mkSt {
  st_cur : rev;                         (* zalsa.current_revision() *)
  st_slots : N -> option slot;          (* table slots of this ingredient, by Id::index *)
  st_keys : N -> list (val * N);        (* per shard: key_map, value -> slot index *)
  st_lru : N -> list N;                 (* per shard: LRU list, head = front (most recent) *)
  st_queue : list rev;                  (* revision_queue.revisions, head = most recent *)
  st_ub : bool                          (* ghost: an entry that is not linked was unlinked *)
}.

Inductive path := PFast | PCold | PReuse.

Inductive event :=
| EvIntern (idx gen : N) (r : rev)      (* DidInternValue *)
| EvReuse (idx gen : N) (r : rev)       (* DidReuseInternedValue, key = the new id *)
| EvValidate (idx gen : N) (r : rev)    (* DidValidateInternedValue *)
| EvClearMemos (idx old_gen : N)        (* ghost: clear_memos(zalsa, memo_table, old_id) *)
| EvLeak (idx : N)                      (* ghost: max-generation slot unlinked from the LRU *)
| EvEdge (idx gen : N) (d : dur).       (* ghost: report_tracked_read_simple(index, d, cur) *)

Inductive outcome :=
| RIntern (idx gen : N) (p : path)      (* the returned Id and the path taken *)
| RMca (changed : bool)                 (* VerifyResult::changed() / unchanged() *)
| RRead (v : val) (assert_ok : bool)    (* fields; value of the debug_assert in `data` *)
| RNewRev
| RBad.                                 (* panic / unusable oracle / out-of-contract call *)

(* ---- per-shard containers ---- *)

Fixpoint key_find (v : val) (l : list (val * N)) : option N :=
  match l with
  | [] => None
  | (v', i) :: l' => if v =? v' then Some i else key_find v l'
  end.

Definition key_has_idx (idx : N) (l : list (val * N)) : bool :=
  existsb (fun p => snd p =? idx) l.

Definition key_remove_idx (idx : N) (l : list (val * N)) : list (val * N) :=
  filter (fun p => negb (snd p =? idx)) l.

Definition lru_mem (idx : N) (l : list N) : bool := existsb (N.eqb idx) l.

Definition lru_remove (idx : N) (l : list N) : list N :=
  filter (fun i => negb (i =? idx)) l.

Definition init (c : cfg) : st :=
  {| st_cur := REV_START;
     st_slots := fun _ => None;
     st_keys := fun _ => [];
     st_lru := fun _ => [];
     st_queue := match c_revisions c with None => [] | Some n => rq_new n end;
     st_ub := false |}.

Definition set_queue (s : st) (q : list rev) : st :=
  {| st_cur := st_cur s; st_slots := st_slots s; st_keys := st_keys s;
     st_lru := st_lru s; st_queue := q; st_ub := st_ub s |}.

(* `if C::REVISIONS != IMMORTAL { self.revision_queue.record(current_revision) }` *)
Definition record_active (c : cfg) (s : st) : list rev :=
  if immortal c then st_queue s else rq_record (st_queue s) (st_cur s).

(* find_reusable_slot::inner.  `rl` is the LRU list reversed (head = back = cold
   end).  Walk from the back:
     - an entry whose last_interned_at is not stale stops the scan (None);
     - a stale entry whose generation can be incremented is the answer;
     - a stale entry at the maximum generation is unlinked (leaked) and the scan
       restarts from the new back.
   Returns the remaining reversed list, the leaked indices (in order), and
   (index, old generation, new generation). *)
Fixpoint scan_back (c : cfg) (q : list rev) (slots : N -> option slot) (rl : list N)
  : list N * list N * option (N * N * N) :=
  match rl with
  | [] => ([], [], None)
  | idx :: rest =>
    match slots idx with
    | None => (rl, [], None)            (* unreachable: LRU entries are live slots *)
    | Some sl =>
      if negb (rq_is_stale q (s_lia sl)) then (rl, [], None)
      else if s_gen sl <? c_gen_max c then (rl, [], Some (idx, s_gen sl, s_gen sl + 1))
      else let '(rl', leaked, r) := scan_back c q slots rest in (rl', idx :: leaked, r)
    end
  end.

Definition find_reusable_slot (c : cfg) (q : list rev) (slots : N -> option slot)
  (lru : list N) : list N * list N * option (N * N * N) :=
  let '(rl, leaked, r) := scan_back c q slots (List.rev lru) in (List.rev rl, leaked, r).

(* .map(|(_, stamp)| (stamp.durability, current_revision))
   .unwrap_or((Durability::MAX, Revision::max())) *)
Definition stamp_vals (cur : rev) (sp : stamp) : dur * rev :=
  match sp with
  | InQuery d => (d, cur)
  | Outside => (DUR_MAX, REV_MAX)
  end.

(* report_tracked_read_if_reusable: the dependency edge exists only when the value is
   reusable (and there is an active query to record it on). *)
Definition edge_events (c : cfg) (sp : stamp) (idx gen : N) (d : dur) : list event :=
  match sp with
  | InQuery _ => if reusable (immortal c) d then [EvEdge idx gen d] else []
  | Outside => []
  end.

Section WithShard.
Variable shard_of : val -> N.

(* intern_id_cold (+ insert_value).  `lru` is the shard's LRU as left by a possibly
   failed find_reusable_slot. *)
Definition intern_cold (c : cfg) (s : st) (q : list rev) (sh : N) (lru : list N)
  (ub : bool) (pre : list event) (v : val) (sp : stamp) (fresh : N)
  : st * outcome * list event :=
  let cur := st_cur s in
  match st_slots s fresh with
  | Some _ =>
    ({| st_cur := cur; st_slots := st_slots s; st_keys := st_keys s;
        st_lru := updN (st_lru s) sh lru; st_queue := q; st_ub := ub |}, RBad, pre)
  | None =>
    let '(d, lia) := stamp_vals cur sp in
    let sl := mkSlot v 0 lia d sh in
    let lru' := if reusable (immortal c) d then fresh :: lru else lru in
    ({| st_cur := cur;
        st_slots := updN (st_slots s) fresh (Some sl);
        st_keys := updN (st_keys s) sh ((v, fresh) :: st_keys s sh);
        st_lru := updN (st_lru s) sh lru';
        st_queue := q;
        st_ub := ub |},
     RIntern fresh 0 PCold,
     pre ++ edge_events c sp fresh 0 d ++ [EvIntern fresh 0 cur])
  end.

Definition intern (c : cfg) (s : st) (v : val) (sp : stamp) (fresh : N)
  : st * outcome * list event :=
  let cur := st_cur s in
  (* Record the current revision as active. *)
  let q := record_active c s in
  let sh := shard_of v in
  let keys := st_keys s sh in
  let lru := st_lru s sh in
  match key_find v keys with
  | Some idx =>
    (* fast path: already interned *)
    match st_slots s idx with
    | None => (set_queue s q, RBad, [])           (* unreachable *)
    | Some sl =>
      let imm := immortal c in
      (* `if metadata.last_interned_at < current_revision` *)
      let refresh := s_lia sl <? cur in
      let lia1 := if refresh then cur else s_lia sl in
      let r0 := reusable imm (s_dur sl) in
      let move := refresh && r0 in
      let ub1 := move && negb (lru_mem idx lru) in
      let lru1 := if move then idx :: lru_remove idx lru else lru in
      let ev1 := if refresh then [EvValidate idx (s_gen sl) cur] else [] in
      (* `if let Some((_, stamp)) = active_query()`: durability = max(..), demote *)
      let dur1 := match sp with InQuery d => N.max (s_dur sl) d | Outside => s_dur sl end in
      let demote := match sp with
                    | InQuery _ => r0 && negb (reusable imm dur1)
                    | Outside => false
                    end in
      let ub2 := demote && negb (lru_mem idx lru1) in
      let lru2 := if demote then lru_remove idx lru1 else lru1 in
      let sl' := mkSlot (s_val sl) (s_gen sl) lia1 dur1 (s_shard sl) in
      ({| st_cur := cur;
          st_slots := updN (st_slots s) idx (Some sl');
          st_keys := st_keys s;
          st_lru := updN (st_lru s) sh lru2;
          st_queue := q;
          st_ub := st_ub s || ub1 || ub2 |},
       RIntern idx (s_gen sl) PFast,
       ev1 ++ edge_events c sp idx (s_gen sl) dur1)
    end
  | None =>
    (* `if !self.revision_queue.is_primed() { return self.intern_id_cold(..) }` *)
    if negb (rq_is_primed q) then
      intern_cold c s q sh lru (st_ub s) [] v sp fresh
    else
      let '(lru0, leaked, found) := find_reusable_slot c q (st_slots s) lru in
      let leak_evs := map EvLeak leaked in
      match found with
      | None => intern_cold c s q sh lru0 (st_ub s) leak_evs v sp fresh
      | Some (idx, old_gen, new_gen) =>
        let '(d, lia) := stamp_vals cur sp in
        (* `shard.lru.cursor_mut_from_ptr(&value.lru).remove()` *)
        let lru1 := lru_remove idx lru0 in
        (* `key_map.find_entry(old_hash, ptr-eq).unwrap_or_else(panic).remove()` *)
        if negb (key_has_idx idx keys) then
          ({| st_cur := cur; st_slots := st_slots s; st_keys := st_keys s;
              st_lru := updN (st_lru s) sh lru1; st_queue := q; st_ub := st_ub s |},
           RBad, leak_evs)
        else
          let keys1 := key_remove_idx idx keys in
          let sl' := mkSlot v new_gen lia d sh in
          let keys2 := (v, idx) :: keys1 in
          let lru2 := if reusable (immortal c) d then idx :: lru1 else lru1 in
          ({| st_cur := cur;
              st_slots := updN (st_slots s) idx (Some sl');
              st_keys := updN (st_keys s) sh keys2;
              st_lru := updN (st_lru s) sh lru2;
              st_queue := q;
              st_ub := st_ub s |},
           RIntern idx new_gen PReuse,
           leak_evs ++ edge_events c sp idx new_gen d
             ++ [EvClearMemos idx old_gen; EvReuse idx new_gen cur])
      end
  end.

End WithShard.

(* Ingredient::maybe_changed_after(input, _revision).  `since` is the unused
   `_revision` argument. *)
Definition mca (c : cfg) (s : st) (idx gen : N) (since : rev)
  : st * outcome * list event :=
  let cur := st_cur s in
  let q := record_active c s in
  match st_slots s idx with
  | None => (set_queue s q, RBad, [])             (* table().get panics *)
  | Some sl =>
    (* `if metadata.id.generation() > input.generation() { return changed }` *)
    if gen <? s_gen sl then (set_queue s q, RMca true, [])
    else
      (* `metadata.last_interned_at = current_revision` — unconditionally, and without
         touching the LRU position *)
      let sl' := mkSlot (s_val sl) (s_gen sl) cur (s_dur sl) (s_shard sl) in
      ({| st_cur := cur;
          st_slots := updN (st_slots s) idx (Some sl');
          st_keys := st_keys s;
          st_lru := st_lru s;
          st_queue := q;
          st_ub := st_ub s |},
       RMca false,
       [EvValidate idx gen cur])
  end.

(* IngredientImpl::data: `zalsa.table().get::<Value<C>>(id)` ignores the generation.
   The debug assertion is `!is_reusable(durability) || last_interned_at >=
   last_changed_revision(durability)`; for a reusable value the durability is LOW and
   `last_changed_revision(LOW)` is the current revision. *)
Definition read_fields (c : cfg) (s : st) (idx : N) : st * outcome * list event :=
  match st_slots s idx with
  | None => (s, RBad, [])
  | Some sl =>
    (s, RRead (s_val sl)
          (negb (reusable (immortal c) (s_dur sl)) || (st_cur s <=? s_lia sl)), [])
  end.

(* Runtime::new_revision: `Revision::next` = generation + 1, panics on overflow.  The
   interned ingredient has no `reset_for_new_revision`. *)
Definition new_revision (s : st) : st * outcome * list event :=
  if st_cur s <? REV_MAX then
    ({| st_cur := st_cur s + 1; st_slots := st_slots s; st_keys := st_keys s;
        st_lru := st_lru s; st_queue := st_queue s; st_ub := st_ub s |}, RNewRev, [])
  else (s, RBad, []).

(* ---- an interning cut short by a panic in user code (C22) ----
   User code runs inside `intern_id` at these points:
     before any write but `revision_queue.record`   `Hash` of the key (before the lock), `Eq`
       in `key_map.find`, `assemble` / `Hash` of the old fields / the rehash inside
       `key_map.reserve` on the reuse path (all placed before the slot is mutated), `assemble`
       inside `allocate` on the cold path                                    -> CutEarly
     after the writes                               the event callback: DidValidateInternedValue
       on the fast path (after `metadata.last_interned_at = current_revision`, before the LRU
       move and the durability update), DidInternValue at the end of the cold path,
       DidDiscard (inside `clear_memos`) and DidReuseInternedValue at the end of the reuse
       path -- there every write to slot, key map and LRU precedes the first callback
                                                                              -> CutCallback
   `intern_cut` gives the state such a call leaves behind, the id the call would have
   returned, and the events whose callbacks were (at most) entered.  Not covered (the hook
   would show them as a lost correspondence): a `Hash` panic during the rehash inside
   `insert_value` on the cold path (after the LRU push, before the key-map insertion), and
   a CutEarly after `find_reusable_slot` already unlinked maximum-generation slots. *)
Inductive cut := CutEarly | CutCallback.

Definition intern_cut (shard_of : val -> N) (c : cfg) (s : st) (v : val) (sp : stamp)
  (fresh : N) (w : cut) : st * outcome * list event :=
  match w with
  | CutEarly => (set_queue s (record_active c s), RBad, [])
  | CutCallback =>
    let '(s', out, evs) := intern shard_of c s v sp fresh in
    match out with
    | RIntern idx gen PFast =>
      match st_slots s idx with
      | Some sl =>
        if s_lia sl <? st_cur s then
          (* unwound inside the DidValidateInternedValue callback: only the stamp is written *)
          ({| st_cur := st_cur s;
              st_slots := updN (st_slots s) idx
                (Some (mkSlot (s_val sl) (s_gen sl) (st_cur s) (s_dur sl) (s_shard sl)));
              st_keys := st_keys s;
              st_lru := st_lru s;
              st_queue := record_active c s;
              st_ub := st_ub s |},
           out, [EvValidate idx (s_gen sl) (st_cur s)])
        else (s', out, evs)          (* no callback on this path: nothing to unwind from *)
      | None => (s', out, evs)       (* unreachable *)
      end
    | _ => (s', out, evs)            (* cold / reuse: the state is already the final one *)
    end
  end.

(* ---- operations, traces, runs ---- *)

Inductive op :=
| OIntern (t : N) (v : val) (sp : stamp) (fresh : N)
| OMca (t : N) (idx gen : N) (since : rev)
| ORead (t : N) (idx : N)
| ONewRev.

Record entry := mkEntry {
  e_rev : rev;               (* current revision when the operation ran *)
  e_op : op;
  e_out : outcome;
  e_evs : list event
}.

Definition step (shard_of : val -> N) (c : cfg) (s : st) (o : op)
  : st * outcome * list event :=
  match o with
  | OIntern _ v sp fresh => intern shard_of c s v sp fresh
  | OMca _ idx gen since => mca c s idx gen since
  | ORead _ idx => read_fields c s idx
  | ONewRev => new_revision s
  end.

(* `rops` = operations newest first; the trace is newest first too. *)
Fixpoint exec_rev (shard_of : val -> N) (c : cfg) (rops : list op) : st * list entry :=
  match rops with
  | [] => (init c, [])
  | o :: rest =>
    let '(s, tr) := exec_rev shard_of c rest in
    let '(s', out, evs) := step shard_of c s o in
    (s', mkEntry (st_cur s) o out evs :: tr)
  end.

(* Run a sequence of operations (in program order) from the initial state. *)
Definition run (shard_of : val -> N) (c : cfg) (ops : list op) : st * list entry :=
  exec_rev shard_of c (List.rev ops).

(* ---- trace vocabulary used by the specifications (computable) ---- *)

(* the operation calls `revision_queue.record` (when the type is not immortal) *)
Definition is_activity (e : entry) : bool :=
  match e_op e with
  | OIntern _ _ _ _ => true
  | OMca _ _ _ _ => true
  | _ => false
  end.

(* distinct revisions in which the type was used, newest first *)
Fixpoint acts (tr : list entry) : list rev :=
  match tr with
  | [] => []
  | e :: tr' =>
    if is_activity e then
      match acts tr' with
      | r :: l => if r =? e_rev e then r :: l else e_rev e :: r :: l
      | [] => [e_rev e]
      end
    else acts tr'
  end.

(* the entry interned value v and obtained handle (idx, gen) *)
Definition interns (e : entry) (v : val) (idx gen : N) : Prop :=
  exists t sp fresh p, e_op e = OIntern t v sp fresh /\ e_out e = RIntern idx gen p.

(* the entry revalidated handle (idx, gen) through maybe_changed_after *)
Definition revalidates (e : entry) (idx gen : N) : Prop :=
  exists t since, e_op e = OMca t idx gen since /\ e_out e = RMca false.

Definition internsb (e : entry) (idx gen : N) : bool :=
  match e_op e, e_out e with
  | OIntern _ _ _ _, RIntern i g _ => (i =? idx) && (g =? gen)
  | _, _ => false
  end.

Definition revalidatesb (e : entry) (idx gen : N) : bool :=
  match e_op e, e_out e with
  | OMca _ i g _, RMca false => (i =? idx) && (g =? gen)
  | _, _ => false
  end.

(* revisions in which handle (idx, gen) was interned or revalidated, newest first *)
Definition touches (tr : list entry) (idx gen : N) : list rev :=
  map e_rev (filter (fun e => internsb e idx gen || revalidatesb e idx gen) tr).

(* durabilities recorded on handle (idx, gen): the creating interning contributes its
   stamp (Durability::MAX when outside a query), every later interning inside a query
   contributes its stamp, a later interning outside a query contributes nothing *)
Definition dur_contrib (e : entry) (idx gen : N) : list dur :=
  match e_op e, e_out e with
  | OIntern _ _ sp _, RIntern i g p =>
    if (i =? idx) && (g =? gen) then
      match sp, p with
      | InQuery d, _ => [d]
      | Outside, PFast => []
      | Outside, _ => [DUR_MAX]
      end
    else []
  | _, _ => []
  end.

Definition dur_hist (tr : list entry) (idx gen : N) : list dur :=
  flat_map (fun e => dur_contrib e idx gen) tr.

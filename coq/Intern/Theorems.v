(* Intern/Theorems.v — the statements about whole runs (arbitrary operation
   sequences, arbitrary shard function, arbitrary REVISIONS) that Props/C08.v and
   Props/C09.v re-export. *)
From Salsa Require Import Base.
From Salsa.Intern Require Import RetK Model ProofsBase ProofsInv ProofsStep ProofsTrace ProofsRet.

Local Open Scope N_scope.

Section Theorems.
Variable shard_of : val -> N.
Variable c : cfg.

Lemma run_all ops s tr :
  cfg_ok c -> run shard_of c ops = (s, tr) ->
  Inv shard_of c s /\ TB s tr /\ TD shard_of s tr /\ LQ c s tr /\ LD s tr.
Proof.
  intros Hc H. unfold run in H.
  destruct (exec_rev_all shard_of c Hc _ _ _ H) as [HI [HB HD]].
  destruct (exec_rev_L shard_of c Hc _ _ _ H) as [HQ HL]. auto.
Qed.

(* ---------- invariant ---------- *)

Theorem invariant ops s tr :
  cfg_ok c -> run shard_of c ops = (s, tr) -> Inv shard_of c s.
Proof. intros Hc H. now destruct (run_all _ _ _ Hc H). Qed.

(* ---------- C08 ---------- *)

Theorem canonical ops s tr :
  cfg_ok c -> run shard_of c ops = (s, tr) ->
  forall e1 e2 v1 i1 g1 v2 i2 g2,
    In e1 tr -> In e2 tr -> interns e1 v1 i1 g1 -> interns e2 v2 i2 g2 ->
    e_rev e1 = e_rev e2 ->
    ((i1, g1) = (i2, g2) <-> v1 = v2).
Proof.
  intros Hc H e1 e2 v1 i1 g1 v2 i2 g2 H1 H2 I1 I2 Er.
  destruct (exec_rev_canonical shard_of c Hc _ _ _ H e1 e2 v1 i1 g1 v2 i2 g2 H1 H2 I1 I2)
    as [A B].
  split; auto.
Qed.

(* a handle denotes one value for ever, across revisions *)
Theorem handle_value ops s tr :
  cfg_ok c -> run shard_of c ops = (s, tr) ->
  forall e1 e2 v1 v2 i g,
    In e1 tr -> In e2 tr -> interns e1 v1 i g -> interns e2 v2 i g -> v1 = v2.
Proof.
  intros Hc H e1 e2 v1 v2 i g H1 H2 I1 I2.
  destruct (exec_rev_canonical shard_of c Hc _ _ _ H e1 e2 v1 i g v2 i g H1 H2 I1 I2)
    as [A _]. auto.
Qed.

Theorem readback ops s tr :
  cfg_ok c -> run shard_of c ops = (s, tr) ->
  forall v idx gen t,
    current_handle tr (st_cur s) v idx gen ->
    step shard_of c s (ORead t idx) = (s, RRead v true, []).
Proof.
  intros Hc H v idx gen t Hcur.
  destruct (run_all _ _ _ Hc H) as [_ [_ [HD _]]].
  destruct (readback_state shard_of s tr v idx gen HD Hcur) as [sl [Hsl [Hv [_ Hl]]]].
  cbn [step]. unfold read_fields. rewrite Hsl, Hv.
  destruct (N.leb_spec (st_cur s) (s_lia sl)); [|lia].
  now rewrite orb_true_r.
Qed.

Theorem kept ops s tr :
  cfg_ok c -> c_revisions c <> Some 1 -> run shard_of c ops = (s, tr) ->
  forall post e2 seg e1 old v i1 g1 i2 g2,
    tr = post ++ e2 :: seg ++ e1 :: old ->
    interns e1 v i1 g1 -> interns e2 v i2 g2 ->
    (forall e, In e (e2 :: seg) -> is_activity e = true ->
       exists e' i g, In e' (e2 :: seg ++ [e1]) /\ interns e' v i g /\ e_rev e' = e_rev e) ->
    (i2, g2) = (i1, g1).
Proof.
  intros Hc Hne H post e2 seg e1 old v i1 g1 i2 g2 Etr I1 I2 Hcov.
  unfold run in H.
  destruct (exec_rev_suffix shard_of c _ _ _ post (e2 :: seg ++ e1 :: old) H Etr)
    as [rops' [s' H']].
  destruct (kept_segment shard_of c Hc Hne rops' s' _ H' (e2 :: seg) e1 old v i1 g1
              eq_refl I1) as [_ Hall].
  { intros e Hin Ha _. now apply Hcov. }
  destruct (Hall e2 i2 g2 (or_introl eq_refl) I2) as [-> ->]. reflexivity.
Qed.

(* ---------- C09 ---------- *)

Theorem only_if ops s tr t v sp fr s' idx g evs :
  cfg_ok c -> run shard_of c ops = (s, tr) ->
  step shard_of c s (OIntern t v sp fr) = (s', RIntern idx g PReuse, evs) ->
  exists sl n o,
    st_slots s idx = Some sl /\ g = s_gen sl + 1 /\ s_val sl <> v /\
    s_dur sl = D_LOW /\ c_revisions c = Some n /\
    rq_is_primed (st_queue s') = true /\
    rq_last (st_queue s') = Some o /\ s_lia sl < o /\
    Forall (fun d => d = D_LOW) (dur_hist tr idx (s_gen sl)) /\
    nth_error (acts (mkEntry (st_cur s) (OIntern t v sp fr) (RIntern idx g PReuse) evs :: tr))
              (N.to_nat n - 1) = Some o /\
    Forall (fun r => r < o) (touches tr idx (s_gen sl)).
Proof.
  intros Hc H Hstep. destruct (run_all _ _ _ Hc H) as [HI [HB [HD [HQ HL]]]].
  eapply only_if_step; eauto.
Qed.

Theorem primed ops s tr t v sp fr s' idx g evs :
  cfg_ok c -> run shard_of c ops = (s, tr) ->
  step shard_of c s (OIntern t v sp fr) = (s', RIntern idx g PReuse, evs) ->
  exists n, c_revisions c = Some n /\
    (N.to_nat n <=
     length (acts (mkEntry (st_cur s) (OIntern t v sp fr) (RIntern idx g PReuse) evs :: tr)))%nat.
Proof.
  intros Hc H Hstep.
  destruct (only_if _ _ _ _ _ _ _ _ _ _ _ Hc H Hstep)
    as [sl [n [o [_ [_ [_ [_ [Hn [_ [_ [_ [_ [Hnth _]]]]]]]]]]]]].
  exists n. split; [assumption|].
  assert (Hlt : (N.to_nat n - 1 < length
     (acts (mkEntry (st_cur s) (OIntern t v sp fr) (RIntern idx g PReuse) evs :: tr)))%nat).
  { apply nth_error_Some. congruence. }
  specialize (Hc n Hn). lia.
Qed.

Theorem forever ops s tr :
  cfg_ok c -> run shard_of c ops = (s, tr) ->
  forall v idx sl,
    key_find v (st_keys s (shard_of v)) = Some idx -> st_slots s idx = Some sl ->
    (c_revisions c = None \/ s_dur sl <> D_LOW) ->
    forall ops' s' tr', run shard_of c (ops ++ ops') = (s', tr') ->
      (exists sl', st_slots s' idx = Some sl' /\ s_gen sl' = s_gen sl /\ s_val sl' = v /\
                   key_find v (st_keys s' (shard_of v)) = Some idx) /\
      exists seg, tr' = seg ++ tr /\
        forall e t sp fr, In e seg -> e_op e = OIntern t v sp fr ->
                          e_out e = RIntern idx (s_gen sl) PFast.
Proof.
  intros Hc H v idx sl Hk Hsl Hpin ops' s' tr' H'.
  destruct (run_all _ _ _ Hc H) as [[_ [HS _]] _].
  assert (Hp : pinned_at shard_of c s v idx (s_gen sl)).
  { exists sl. repeat split; auto.
    - destruct (si_key_slot _ _ s HS _ _ _ (key_find_In _ _ _ Hk)) as [sl0 [Hs0 [Hv _]]].
      congruence.
    - unfold reusable, immortal, D_LOW in *. destruct Hpin as [->|Hd]; [reflexivity|].
      destruct (c_revisions c); [now apply N.eqb_neq|reflexivity]. }
  unfold run in *. rewrite rev_app_distr in H'.
  destruct (pinned_forever shard_of c Hc _ _ _ _ _ _ _ _ _ H H' Hp)
    as [[sl' [Hs' [Hg' [Hv' [Hk' _]]]]] Hseg].
  split; [eauto 8|assumption].
Qed.

(* the declarative retention rule is the queue mechanics *)
Theorem retention_rule ops s tr :
  cfg_ok c -> run shard_of c ops = (s, tr) -> wf_ids tr ->
  forall idx sl, st_slots s idx = Some sl ->
    (reusable (immortal c) (s_dur sl) && rq_is_stale (st_queue s) (s_lia sl) = true
     <-> collectable c tr idx (s_gen sl)).
Proof.
  intros Hc H Hwf. destruct (run_all _ _ _ Hc H) as [HI [_ [_ [HQ HL]]]].
  now apply (retention_equiv_state shard_of c).
Qed.

(* the recorded durability is the maximum over the handle's interning history *)
Theorem durability_decl ops s tr :
  cfg_ok c -> run shard_of c ops = (s, tr) ->
  forall idx sl, st_slots s idx = Some sl ->
    s_dur sl = list_max (dur_hist tr idx (s_gen sl)).
Proof.
  intros Hc H. destruct (run_all _ _ _ Hc H) as [_ [_ [_ [_ HL]]]]. apply (l_dur _ _ HL).
Qed.

Theorem queue_decl ops s tr :
  cfg_ok c -> run shard_of c ops = (s, tr) ->
  (forall n, c_revisions c = Some n ->
     st_queue s = firstn (N.to_nat n) (acts tr ++ repeat REV_START (N.to_nat n))) /\
  (forall r, In r (acts tr) <->
     exists e, In e tr /\ is_activity e = true /\ e_rev e = r) /\
  (forall r l, acts tr = r :: l -> forall x, In x l -> x < r).
Proof.
  intros Hc H. destruct (run_all _ _ _ Hc H) as [_ [HB [_ [HQ _]]]].
  split; [exact HQ|]. split; [intros r; apply acts_In|].
  apply acts_sorted. apply (t_mono _ _ HB).
Qed.

(* ---------- C22: an interning cut short by a panic in user code ---------- *)

(* A call that unwinds out of the event callback leaves the state of an ordinary atomic
   operation of the model: the full interning on the cold and reuse paths (all writes come
   before the first callback), a `maybe_changed_after`-style revalidation of the slot on
   the fast path.  So a history with such calls is a history of `run`, and every theorem
   above applies to it. *)
Theorem cut_callback_is_step s v sp fr :
  exists o out evs,
    step shard_of c s o = (fst (fst (intern_cut shard_of c s v sp fr CutCallback)), out, evs) /\
    ((exists t, o = OIntern t v sp fr) \/ (exists t idx gen since, o = OMca t idx gen since)).
Proof.
  unfold intern_cut.
  destruct (intern shard_of c s v sp fr) as [[s' out] evs] eqn:E.
  assert (Hfull : exists o out0 evs0,
            step shard_of c s o = (s', out0, evs0) /\
            ((exists t, o = OIntern t v sp fr) \/
             (exists t idx gen since, o = OMca t idx gen since))).
  { exists (OIntern 0 v sp fr), out, evs. cbn [step]. split; [exact E|]. left. now exists 0. }
  destruct out as [idx gen p| | | |]; try exact Hfull.
  destruct p; try exact Hfull.
  destruct (st_slots s idx) as [sl|] eqn:Hsl; [|exact Hfull].
  destruct (s_lia sl <? st_cur s); [|exact Hfull].
  exists (OMca 0 idx (s_gen sl) 0). cbn [step fst]. unfold mca. rewrite Hsl, N.ltb_irrefl.
  do 2 eexists. split; [reflexivity|]. right. now exists 0, idx, (s_gen sl), 0.
Qed.

(* On the cold and reuse paths the state at the commit point (before `clear_memos` and the
   DidReuse / DidIntern callbacks) is the state of the completed call, whatever part of the
   trailing callbacks runs. *)
Theorem cut_commit_state s t v sp fr s' idx g p evs :
  step shard_of c s (OIntern t v sp fr) = (s', RIntern idx g p, evs) -> p <> PFast ->
  intern_cut shard_of c s v sp fr CutCallback = (s', RIntern idx g p, evs).
Proof.
  cbn [step]. intros E Hp. unfold intern_cut. rewrite E. destruct p; congruence.
Qed.

(* The invariant of C08/C09 holds after a cut interning, at whichever point it was cut. *)
Theorem cut_invariant ops s tr :
  cfg_ok c -> run shard_of c ops = (s, tr) ->
  forall v sp fr w, Inv shard_of c (fst (fst (intern_cut shard_of c s v sp fr w))).
Proof.
  intros Hc H v sp fr w. pose proof (invariant _ _ _ Hc H) as HI.
  destruct w.
  - cbn [intern_cut fst]. destruct HI as [Hcur [HS HQ]].
    split; [exact Hcur|]. split.
    + eapply SInv_same; eauto; try reflexivity; cbn [set_queue st_cur]; lia.
    + cbn [set_queue st_cur st_queue]. now apply queue_ok_record.
  - destruct (cut_callback_is_step s v sp fr) as [o [out [evs [Hstep _]]]].
    eapply step_Inv; eauto.
Qed.

(* ... and what a cut interning changes is confined to what the completed call, or a
   revalidation of the same slot, would have changed: no key-map entry and no slot of
   another value is touched by a call that unwinds before its commit point. *)
Theorem cut_early_frame s v sp fr :
  let s' := fst (fst (intern_cut shard_of c s v sp fr CutEarly)) in
  st_cur s' = st_cur s /\ st_slots s' = st_slots s /\ st_keys s' = st_keys s /\
  st_lru s' = st_lru s /\ st_queue s' = record_active c s.
Proof. cbn [intern_cut fst set_queue st_cur st_slots st_keys st_lru st_queue]. auto. Qed.

End Theorems.

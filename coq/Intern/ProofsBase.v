(* Intern/ProofsBase.v — container and revision-queue lemmas used by the Intern proofs. *)
From Salsa Require Import Base.
From Salsa.Intern Require Import RetK Model.

Local Open Scope N_scope.

(* ---------- updN ---------- *)

Lemma updN_eq {A} (m : N -> A) k k' v :
  updN m k v k' = if k =? k' then v else m k'.
Proof. reflexivity. Qed.

Ltac updN_cases :=
  repeat match goal with
  | |- context [updN _ ?k _ ?k'] =>
    rewrite (updN_eq _ k k'); destruct (N.eqb_spec k k')
  | H : context [updN _ ?k _ ?k'] |- _ =>
    rewrite (updN_eq _ k k') in H; destruct (N.eqb_spec k k')
  end.

(* ---------- key maps ---------- *)

Lemma key_find_In v l i : key_find v l = Some i -> In (v, i) l.
Proof.
  induction l as [|[v' i'] l IH]; cbn [key_find]; [discriminate|].
  destruct (N.eqb_spec v v') as [->|Hne]; intros H.
  - inversion H; subst; now left.
  - right; auto.
Qed.

Lemma key_find_None v l : key_find v l = None -> forall i, ~ In (v, i) l.
Proof.
  induction l as [|[v' i'] l IH]; cbn [key_find]; intros H i Hin; [easy|].
  destruct (N.eqb_spec v v') as [->|Hne]; [discriminate|].
  destruct Hin as [Heq|Hin]; [inversion Heq; congruence|]. eapply IH; eauto.
Qed.

Lemma In_key_find v i l :
  NoDup (map fst l) -> In (v, i) l -> key_find v l = Some i.
Proof.
  induction l as [|[v' i'] l IH]; cbn [key_find map fst]; intros Hnd Hin; [easy|].
  inversion Hnd as [|? ? Hnotin Hnd']; subst.
  destruct Hin as [Heq|Hin].
  - inversion Heq; subst. now rewrite N.eqb_refl.
  - destruct (N.eqb_spec v v') as [->|Hne]; [|auto].
    exfalso; apply Hnotin. change v' with (fst (v', i)). now apply in_map.
Qed.

Lemma key_has_idx_true idx l :
  key_has_idx idx l = true <-> exists v, In (v, idx) l.
Proof.
  unfold key_has_idx. rewrite existsb_exists. split.
  - intros [[v i] [Hin Heq]]. cbn [snd] in Heq. apply N.eqb_eq in Heq; subst. eauto.
  - intros [v Hin]. exists (v, idx). split; [easy|]. cbn [snd]. apply N.eqb_refl.
Qed.

Lemma key_remove_idx_In idx l v i :
  In (v, i) (key_remove_idx idx l) <-> In (v, i) l /\ i <> idx.
Proof.
  unfold key_remove_idx. rewrite filter_In. cbn [snd].
  rewrite negb_true_iff, N.eqb_neq. tauto.
Qed.

Lemma key_find_remove_other v idx idx' l :
  key_find v l = Some idx -> idx <> idx' ->
  key_find v (key_remove_idx idx' l) = Some idx.
Proof.
  induction l as [|[v' i'] l IH]; cbn [key_find key_remove_idx filter snd]; [discriminate|].
  intros Hf Hne.
  destruct (N.eqb_spec v v') as [->|Hv].
  - inversion Hf; subst.
    destruct (N.eqb_spec idx idx'); [contradiction|]. cbn [negb key_find].
    now rewrite N.eqb_refl.
  - destruct (N.eqb_spec i' idx'); cbn [negb].
    + now apply IH.
    + cbn [key_find]. destruct (N.eqb_spec v v'); [contradiction|]. now apply IH.
Qed.

Lemma NoDup_map_filter {A B} (f : A -> B) (p : A -> bool) l :
  NoDup (map f l) -> NoDup (map f (filter p l)).
Proof.
  induction l as [|a l IH]; cbn [map filter]; intros Hnd; [constructor|].
  inversion Hnd as [|? ? Hnotin Hnd']; subst.
  destruct (p a); cbn [map]; [|auto].
  constructor; [|auto].
  intros Hin. apply Hnotin. apply in_map_iff in Hin as [x [Hx Hin]].
  apply filter_In in Hin as [Hin _]. apply in_map_iff. eauto.
Qed.

Lemma NoDup_filter {A} (p : A -> bool) l : NoDup l -> NoDup (filter p l).
Proof.
  intros H. rewrite <- (map_id (filter p l)). apply NoDup_map_filter. now rewrite map_id.
Qed.

Lemma NoDup_app_l {A} (l l' : list A) : NoDup (l ++ l') -> NoDup l.
Proof.
  induction l as [|a l IH]; cbn [app]; intros H; [constructor|].
  inversion H as [|? ? Hn Hnd]; subst. constructor; [|auto].
  intros Hin. apply Hn. apply in_or_app. now left.
Qed.

(* ---------- LRU lists ---------- *)

Lemma lru_mem_true idx l : lru_mem idx l = true <-> In idx l.
Proof.
  unfold lru_mem. rewrite existsb_exists. split.
  - intros [x [Hin Heq]]. apply N.eqb_eq in Heq; now subst.
  - intros Hin. exists idx. split; [easy|apply N.eqb_refl].
Qed.

Lemma lru_remove_In idx l i : In i (lru_remove idx l) <-> In i l /\ i <> idx.
Proof.
  unfold lru_remove. rewrite filter_In, negb_true_iff, N.eqb_neq. tauto.
Qed.

Lemma lru_remove_NoDup idx l : NoDup l -> NoDup (lru_remove idx l).
Proof. apply NoDup_filter. Qed.

Lemma lru_push_NoDup idx l : NoDup l -> NoDup (idx :: lru_remove idx l).
Proof.
  intros H. constructor; [|now apply lru_remove_NoDup].
  rewrite lru_remove_In. tauto.
Qed.

(* ---------- revision queue ---------- *)

(* sorted, newest first; duplicates only among the initial Revision::start() filling *)
Inductive qdesc : list rev -> Prop :=
| qd_nil : qdesc []
| qd_one x : 1 <= x -> qdesc [x]
| qd_cons x y l : 1 <= y -> y <= x -> (y = x -> y = 1) -> qdesc (y :: l) -> qdesc (x :: y :: l).

Lemma qdesc_hd_ge1 x l : qdesc (x :: l) -> 1 <= x.
Proof. inversion 1; subst; lia. Qed.

Lemma qdesc_tail x l : qdesc (x :: l) -> qdesc l.
Proof. inversion 1; subst; [constructor|assumption]. Qed.

Lemma qdesc_removelast q : qdesc q -> qdesc (removelast q).
Proof.
  induction 1 as [|x Hx|x y l Hy Hyx Heq Hq IH]; cbn [removelast]; try constructor.
  destruct l as [|z l].
  - cbn [removelast] in *. constructor. lia.
  - change (removelast (x :: y :: z :: l)) with (x :: removelast (y :: z :: l)).
    change (removelast (y :: z :: l)) with (y :: removelast (z :: l)) in *.
    constructor; assumption.
Qed.

Lemma rq_last_cons x y l : rq_last (x :: y :: l) = rq_last (y :: l).
Proof. reflexivity. Qed.

Lemma qdesc_last_le q : qdesc q -> forall h t o, q = h :: t -> rq_last q = Some o -> 1 <= o /\ o <= h.
Proof.
  induction 1 as [|x Hx|x y l Hy Hyx Heq Hq IH]; intros h t o E L; [discriminate| |].
  - inversion E; subst. cbn in L. inversion L; subst. lia.
  - inversion E; subst. rewrite rq_last_cons in L.
    destruct (IH y l o eq_refl L). lia.
Qed.

Lemma rq_last_Some_nonempty q : q <> [] -> exists o, rq_last q = Some o.
Proof.
  induction q as [|x q IH]; [congruence|]. intros _.
  destruct q as [|y q]; [now exists x|]. rewrite rq_last_cons. apply IH. congruence.
Qed.

Lemma rq_last_nth q : forall d, q <> [] -> rq_last q = Some (nth (length q - 1) q d).
Proof.
  induction q as [|x q IH]; intros d Hne; [congruence|].
  destruct q as [|y q]; [reflexivity|].
  rewrite rq_last_cons, (IH d) by congruence.
  cbn [length]. f_equal.
  replace (S (S (length q)) - 1)%nat with (S (length q)) by lia.
  replace (S (length q) - 1)%nat with (length q) by lia.
  reflexivity.
Qed.

Lemma removelast_length {A} (l : list A) : length (removelast l) = (length l - 1)%nat.
Proof.
  induction l as [|a l IH]; [reflexivity|].
  destruct l as [|b l]; [reflexivity|].
  change (removelast (a :: b :: l)) with (a :: removelast (b :: l)).
  cbn [length] in *. lia.
Qed.

Lemma rq_record_unfold q r :
  rq_record q r = match q with [] => [] | h :: _ => if r <=? h then q else r :: removelast q end.
Proof.
  destruct q as [|h t]; [reflexivity|]. unfold rq_record, rq_record_cold.
  destruct (r <=? h); reflexivity.
Qed.

Lemma rq_record_length q r : length (rq_record q r) = length q.
Proof.
  rewrite rq_record_unfold. destruct q as [|h t]; [reflexivity|].
  destruct (r <=? h); [reflexivity|].
  cbn [length]. rewrite removelast_length. cbn [length]. lia.
Qed.

Lemma rq_record_qdesc q r : qdesc q -> 1 <= r -> qdesc (rq_record q r).
Proof.
  intros Hq Hr. rewrite rq_record_unfold. destruct q as [|h t]; [constructor|].
  destruct (N.leb_spec r h); [assumption|].
  pose proof (qdesc_removelast _ Hq) as Hrl.
  pose proof (qdesc_hd_ge1 _ _ Hq) as Hh.
  destruct t as [|y t].
  - cbn [removelast]. constructor; lia.
  - change (removelast (h :: y :: t)) with (h :: removelast (y :: t)) in *.
    constructor; try lia. exact Hrl.
Qed.

Lemma rq_record_hd q r h t :
  q = h :: t -> exists t', rq_record q r = N.max h r :: t'.
Proof.
  intros ->. rewrite rq_record_unfold.
  destruct (N.leb_spec r h).
  - exists t. f_equal. lia.
  - eexists. f_equal. lia.
Qed.

(* after `record cur` the newest entry is >= cur *)
Lemma rq_record_hd_ge q r : q <> [] -> exists h t, rq_record q r = h :: t /\ r <= h.
Proof.
  destruct q as [|h t]; [congruence|]. intros _.
  destruct (rq_record_hd (h :: t) r h t eq_refl) as [t' E].
  exists (N.max h r), t'. split; [assumption|lia].
Qed.

Lemma rq_is_stale_true q r :
  rq_is_stale q r = true <-> exists o, rq_last q = Some o /\ o <> REV_START /\ r < o.
Proof.
  unfold rq_is_stale. destruct (rq_last q) as [o|].
  - destruct (N.eqb_spec o REV_START) as [E|E].
    + split; [discriminate|]. intros [o' [Ho [Hne _]]]. inversion Ho; congruence.
    + rewrite N.ltb_lt. split.
      * intros H. exists o. auto.
      * intros [o' [Ho [_ Hlt]]]. inversion Ho; subst. assumption.
  - split; [discriminate|]. intros [o [Ho _]]. discriminate.
Qed.

Lemma rq_is_primed_true q :
  rq_is_primed q = true <-> exists o, rq_last q = Some o /\ REV_START < o.
Proof.
  unfold rq_is_primed. destruct (rq_last q) as [o|].
  - rewrite N.ltb_lt. split; [eauto|]. intros [o' [Ho H]]. inversion Ho; now subst.
  - split; [discriminate|]. intros [o [Ho _]]. discriminate.
Qed.

Lemma rq_stale_primed q r : rq_is_stale q r = true -> rq_is_primed q = true.
Proof.
  rewrite rq_is_stale_true, rq_is_primed_true. intros [o [Ho [Hne Hlt]]].
  exists o. split; [assumption|]. unfold REV_START in *. lia.
Qed.

(* a stale revision is below the newest recorded revision *)
Lemma rq_stale_lt_hd q h t r :
  qdesc q -> q = h :: t -> rq_is_stale q r = true -> r < h.
Proof.
  intros Hq E Hs. apply rq_is_stale_true in Hs as [o [Ho [_ Hlt]]].
  destruct (qdesc_last_le q Hq h t o E Ho). lia.
Qed.

(* with at least two entries, a stale revision is below the second newest *)
Lemma rq_stale_lt_second q h y t r :
  qdesc q -> q = h :: y :: t -> rq_is_stale q r = true -> r < y.
Proof.
  intros Hq E Hs. subst. apply rq_is_stale_true in Hs as [o [Ho [_ Hlt]]].
  rewrite rq_last_cons in Ho.
  destruct (qdesc_last_le (y :: t) (qdesc_tail _ _ Hq) y t o eq_refl Ho). lia.
Qed.

Lemma rq_new_length n : length (rq_new n) = N.to_nat n.
Proof. unfold rq_new. apply repeat_length. Qed.

Lemma qdesc_repeat k : qdesc (repeat REV_START k).
Proof.
  induction k as [|k IH]; [constructor|].
  cbn [repeat]. destruct k as [|k]; cbn [repeat] in *.
  - constructor. unfold REV_START. lia.
  - constructor; unfold REV_START; try lia. assumption.
Qed.

(* ---------- firstn / removelast ---------- *)

Lemma removelast_firstn_S {A} (l : list A) n :
  (S n <= length l)%nat -> removelast (firstn (S n) l) = firstn n l.
Proof.
  revert l. induction n as [|n IH]; intros l Hlen.
  - destruct l as [|a l]; [cbn in Hlen; lia|]. reflexivity.
  - destruct l as [|a l]; [cbn in Hlen; lia|].
    cbn [length] in Hlen.
    destruct l as [|b l]; [cbn in Hlen; lia|].
    change (firstn (S (S n)) (a :: b :: l)) with (a :: firstn (S n) (b :: l)).
    change (firstn (S n) (a :: b :: l)) with (a :: firstn n (b :: l)).
    rewrite <- (IH (b :: l)) by (cbn [length] in *; lia).
    change (firstn (S n) (b :: l)) with (b :: firstn n l).
    reflexivity.
Qed.

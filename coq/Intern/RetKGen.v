(* Intern/RetKGen.v — ties the hand-mirrored retention predicates of Intern/RetK.v (which the
   Intern model and all C08/C09 proofs are stated over) to the kernels translated from
   /repo/src/interned.rs on every run (coq/gen/Kernels.v: k_reusable, k_rq_record,
   k_rq_is_stale, k_rq_is_primed, k_IMMORTAL).  A change of a comparison, of the shift loop,
   of the "oldest entry" choice or of the durability test in the Rust source changes the
   generated definitions and breaks one of these equalities. *)
From Salsa Require Import Base.
From Salsa.gen Require Import Kernels.
From Salsa.Kern Require Import KBits K1_Durability K2_WriteReport K9_Retention.
From Salsa.Intern Require Import RetK.

Lemma rq_last_spec q : rq_last q = match q with [] => None | _ => Some (last q 0) end.
Proof.
  induction q as [|x t IH]; [reflexivity|].
  destruct t as [|y t']; [reflexivity|].
  change (rq_last (x :: y :: t')) with (rq_last (y :: t')). rewrite IH. reflexivity.
Qed.

Lemma rq_last_k_last q : rq_last q = k_last q.
Proof. rewrite k_last_spec, rq_last_spec. reflexivity. Qed.

Theorem reusable_is_translated revisions d :
  reusable (revisions =? k_IMMORTAL) d = k_reusable revisions d.
Proof.
  unfold reusable, k_reusable. rewrite k_DUR_LOW_val. unfold D_LOW. reflexivity.
Qed.

Theorem rq_is_primed_is_translated q : rq_is_primed q = k_rq_is_primed q.
Proof.
  unfold rq_is_primed, k_rq_is_primed. rewrite rq_last_k_last.
  destruct (k_last q); [|reflexivity]. rewrite k_rev_start_val. reflexivity.
Qed.

Theorem rq_is_stale_is_translated q r : rq_is_stale q r = k_rq_is_stale q r.
Proof.
  unfold rq_is_stale, k_rq_is_stale. rewrite rq_last_k_last.
  destruct (k_last q); [|reflexivity]. cbn zeta. rewrite k_rev_start_val. reflexivity.
Qed.

Lemma k_nth_0 x t : k_nth (x :: t) 0 = x.
Proof. reflexivity. Qed.

Theorem rq_record_is_translated q r :
  q <> [] -> k_len q < 18446744073709551616 -> rq_record q r = k_rq_record q r.
Proof.
  intros Hne Hlen. rewrite (k_rq_record_spec q r Hne Hlen).
  destruct q as [|h t]; [congruence|].
  unfold rq_record, rq_record_cold. rewrite k_nth_0.
  destruct (r <=? h); reflexivity.
Qed.

Theorem immortal_is_translated : k_IMMORTAL = REV_MAX.
Proof. reflexivity. Qed.

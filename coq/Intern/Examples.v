(* Intern/Examples.v — non-vacuity witnesses for the hypotheses of the C08/C09
   theorems (concrete runs in which reuse fires, a HIGH-durability interning pins, an
   immortal type never reclaims, a revalidation refreshes, a slot at the maximum
   generation is leaked), and the two refutations found while proving:
     - kept_revisions1_refuted: with REVISIONS = 1 a value interned in every revision
       does NOT keep its identity;
     - outside_fast_path_does_not_pin: interning an already interned value outside any
       query does not pin it.
   vm_compute is used only here (CONVENTIONS.md). *)
From Salsa Require Import Base.
From Salsa.Intern Require Import RetK Model ProofsBase ProofsInv ProofsStep ProofsTrace
  ProofsRet Theorems.

Local Open Scope N_scope.

Definition sh0 (v : val) : N := 0.            (* every value collides *)
Definition sh4 (v : val) : N := v mod 4.

Definition c1 := rust_cfg (Some 1).
Definition c2 := rust_cfg (Some 2).
Definition c3 := rust_cfg (Some 3).
Definition cimm := rust_cfg None.
Definition low := InQuery D_LOW.
Definition high := InQuery D_HIGH.

Definition outs (sh : val -> N) (c : cfg) (ops : list op) : list outcome :=
  map e_out (List.rev (snd (run sh c ops))).

Lemma cfg_ok_rust n : 1 <= n -> cfg_ok (rust_cfg (Some n)).
Proof. intros H m E. cbn in E. inversion E; now subst. Qed.

Lemma cfg_ok_imm : cfg_ok cimm.
Proof. intros m E. discriminate. Qed.

(* ---------- reuse fires ---------- *)

Definition ops_reuse : list op :=
  [OIntern 0 10 low 100; ONewRev; OIntern 1 11 low 101; ONewRev; OIntern 0 12 low 102].

Example ex_reuse_fires :
  outs sh0 c2 ops_reuse =
  [RIntern 100 0 PCold; RNewRev; RIntern 101 0 PCold; RNewRev; RIntern 100 1 PReuse].
Proof. vm_compute. reflexivity. Qed.

Example ex_reuse_events :
  e_evs (hd (mkEntry 0 ONewRev RBad []) (snd (run sh0 c2 ops_reuse))) =
  [EvEdge 100 1 0; EvClearMemos 100 0; EvReuse 100 1 3].
Proof. vm_compute. reflexivity. Qed.

(* the hypotheses of only_if / primed are satisfiable *)
Example ex_only_if_hyp :
  let s := fst (run sh0 c2 (firstn 4 ops_reuse)) in
  snd (fst (step sh0 c2 s (OIntern 0 12 low 102))) = RIntern 100 1 PReuse.
Proof. vm_compute. reflexivity. Qed.

(* reuse only looks in the shard of the NEW value *)
Example ex_reuse_is_per_shard :
  outs sh4 c1 [OIntern 0 4 low 100; ONewRev; OIntern 0 5 low 101; ONewRev;
               OIntern 0 9 low 102; OIntern 0 8 low 103] =
  [RIntern 100 0 PCold; RNewRev; RIntern 101 0 PCold; RNewRev;
   RIntern 101 1 PReuse; RIntern 100 1 PReuse].
Proof. vm_compute. reflexivity. Qed.

(* ---------- a HIGH-durability interning pins ---------- *)

Definition ops_high : list op :=
  [OIntern 0 10 high 100; ONewRev; OIntern 0 11 low 101; ONewRev; OIntern 0 12 low 102;
   ONewRev; OIntern 0 13 low 103; ONewRev; OIntern 0 14 low 104; OIntern 0 10 low 105].

Example ex_high_pins :
  outs sh0 c1 ops_high =
  [RIntern 100 0 PCold; RNewRev; RIntern 101 0 PCold; RNewRev; RIntern 101 1 PReuse;
   RNewRev; RIntern 101 2 PReuse; RNewRev; RIntern 101 3 PReuse; RIntern 100 0 PFast].
Proof. vm_compute. reflexivity. Qed.

(* a LOW interning that is later joined by a HIGH one is pinned from then on *)
Example ex_raise_pins :
  outs sh0 c1 [OIntern 0 10 low 100; OIntern 1 10 high 999; ONewRev; OIntern 0 11 low 101;
               ONewRev; OIntern 0 12 low 102] =
  [RIntern 100 0 PCold; RIntern 100 0 PFast; RNewRev; RIntern 101 0 PCold; RNewRev;
   RIntern 101 1 PReuse].
Proof. vm_compute. reflexivity. Qed.

(* a query that interns before reading anything has durability NEVER; interning a new
   value outside any query has Durability::MAX and last_interned_at = Revision::max() *)
Example ex_outside_cold_pins :
  outs sh0 c1 [OIntern 0 10 Outside 100; ONewRev; OIntern 0 11 low 101; ONewRev;
               OIntern 0 12 low 102] =
  [RIntern 100 0 PCold; RNewRev; RIntern 101 0 PCold; RNewRev; RIntern 101 1 PReuse].
Proof. vm_compute. reflexivity. Qed.

Example ex_forever_hyp :
  exists s tr idx sl,
    run sh0 c1 (firstn 1 ops_high) = (s, tr) /\
    key_find 10 (st_keys s (sh0 10)) = Some idx /\ st_slots s idx = Some sl /\
    s_dur sl <> D_LOW.
Proof.
  exists (fst (run sh0 c1 (firstn 1 ops_high))), (snd (run sh0 c1 (firstn 1 ops_high))),
         100, (mkSlot 10 0 1 2 0).
  split; [apply surjective_pairing|]. repeat split; try (vm_compute; reflexivity).
  vm_compute. discriminate.
Qed.

(* ---------- immortal types never reclaim ---------- *)

Example ex_immortal :
  outs sh0 cimm [OIntern 0 10 low 100; ONewRev; OIntern 0 11 low 101; ONewRev;
                 OIntern 0 12 low 102; ONewRev; OIntern 0 13 low 103; OIntern 0 10 low 104] =
  [RIntern 100 0 PCold; RNewRev; RIntern 101 0 PCold; RNewRev; RIntern 102 0 PCold; RNewRev;
   RIntern 103 0 PCold; RIntern 100 0 PFast].
Proof. vm_compute. reflexivity. Qed.

(* ---------- revalidation through maybe_changed_after refreshes ---------- *)

Example ex_mca_refresh :
  outs sh0 c1 [OIntern 0 10 low 100; ONewRev; OMca 0 100 0 1; OIntern 0 11 low 101;
               ORead 0 100; ONewRev; OIntern 0 12 low 102; OMca 0 100 0 2] =
  [RIntern 100 0 PCold; RNewRev; RMca false; RIntern 101 0 PCold; RRead 10 true; RNewRev;
   RIntern 100 1 PReuse; RMca true].
Proof. vm_compute. reflexivity. Qed.

(* bursts of revisions in which the type is not used do not age anything *)
Example ex_empty_revisions :
  outs sh0 c2 [OIntern 0 10 low 100; ONewRev; ONewRev; ONewRev; ONewRev;
               OIntern 0 11 low 101; ONewRev; ONewRev; OIntern 0 12 low 102] =
  [RIntern 100 0 PCold; RNewRev; RNewRev; RNewRev; RNewRev; RIntern 101 0 PCold;
   RNewRev; RNewRev; RIntern 100 1 PReuse].
Proof. vm_compute. reflexivity. Qed.

Example ex_queue :
  st_queue (fst (run sh0 c3 [OIntern 0 10 low 100; ONewRev; ONewRev; OIntern 0 11 low 101;
                             ONewRev; ONewRev; ONewRev; OMca 0 100 0 1])) = [6; 3; 1]
  /\ acts (snd (run sh0 c3 [OIntern 0 10 low 100; ONewRev; ONewRev; OIntern 0 11 low 101;
                            ONewRev; ONewRev; ONewRev; OMca 0 100 0 1])) = [6; 3; 1].
Proof. split; vm_compute; reflexivity. Qed.

(* ---------- canonical / readback hypotheses ---------- *)

Example ex_canonical :
  outs sh4 c3 [OIntern 0 1 low 100; OIntern 1 2 high 101; OIntern 2 1 Outside 102;
               OIntern 3 5 low 103; OIntern 1 2 low 104] =
  [RIntern 100 0 PCold; RIntern 101 0 PCold; RIntern 100 0 PFast; RIntern 103 0 PCold;
   RIntern 101 0 PFast].
Proof. vm_compute. reflexivity. Qed.

Example ex_readback_hyp :
  let tr := snd (run sh0 c1 [OIntern 0 10 low 100; ONewRev; OMca 0 100 0 1]) in
  current_handle tr 2 10 100 0.
Proof.
  cbv zeta. exists (mkEntry 2 (OMca 0 100 0 1) (RMca false) [EvValidate 100 0 2]).
  split; [vm_compute; now left|]. split; [reflexivity|]. right. split.
  - exists 0, 1. split; reflexivity.
  - exists (mkEntry 1 (OIntern 0 10 low 100) (RIntern 100 0 PCold)
              [EvEdge 100 0 0; EvIntern 100 0 1]).
    split; [vm_compute; auto|]. exists 0, low, 100, PCold. split; reflexivity.
Qed.

(* ---------- the slot leak at the maximum generation ---------- *)

Definition cleak := mkCfg (Some 1) 1.    (* generations overflow at 1 instead of u32::MAX *)

Definition ops_leak : list op :=
  [OIntern 0 10 low 100; ONewRev; OIntern 0 11 low 101; ONewRev; OIntern 0 12 low 102;
   ONewRev; OIntern 0 13 low 103].

Example ex_leak :
  outs sh0 cleak ops_leak =
  [RIntern 100 0 PCold; RNewRev; RIntern 100 1 PReuse; RNewRev; RIntern 102 0 PCold; RNewRev;
   RIntern 102 1 PReuse]
  /\ e_evs (nth 2 (snd (run sh0 cleak ops_leak)) (mkEntry 0 ONewRev RBad [])) =
     [EvLeak 100; EvEdge 102 0 0; EvIntern 102 0 3].
Proof. split; vm_compute; reflexivity. Qed.

(* Re-interning the value held by a leaked slot in a later revision goes through the
   fast path, which unlinks the slot from the LRU although it is not linked: the ghost
   flag st_ub records that (intrusive_collections' `CursorMut::remove` on an unlinked
   link).  Reachable only after u32::MAX reuses of one slot. *)
Example ex_leak_unlinked_remove :
  st_ub (fst (run sh0 cleak [OIntern 0 10 low 100; ONewRev; OIntern 0 11 low 101; ONewRev;
                            OIntern 0 12 low 102; ONewRev; OIntern 0 11 low 103])) = true.
Proof. vm_compute. reflexivity. Qed.

(* ---------- C08_kept: hypotheses satisfiable, and the REVISIONS = 1 refutation ---------- *)

Definition kept_statement (c : cfg) (ops : list op) (differ : bool) : Prop :=
  exists s tr post e2 seg e1 old v i1 g1 i2 g2,
    cfg_ok c /\ run sh0 c ops = (s, tr) /\
    tr = post ++ e2 :: seg ++ e1 :: old /\
    interns e1 v i1 g1 /\ interns e2 v i2 g2 /\
    (forall e, In e (e2 :: seg) -> is_activity e = true ->
       exists e' i g, In e' (e2 :: seg ++ [e1]) /\ interns e' v i g /\ e_rev e' = e_rev e) /\
    if differ then (i2, g2) <> (i1, g1) else (i2, g2) = (i1, g1).

Ltac solve_interns := do 4 eexists; split; reflexivity.

(* value 10 is interned in every revision in which the type is used; 11, 12, 13 are not *)
Definition ops_kept : list op :=
  [OIntern 0 10 low 100; OIntern 0 11 low 101; ONewRev;
   OIntern 0 12 low 102; OIntern 0 10 low 900; ONewRev;
   OIntern 0 13 low 103; OIntern 0 10 low 901].

Example ex_kept_outs :
  outs sh0 c2 ops_kept =
  [RIntern 100 0 PCold; RIntern 101 0 PCold; RNewRev; RIntern 102 0 PCold;
   RIntern 100 0 PFast; RNewRev; RIntern 101 1 PReuse; RIntern 100 0 PFast].
Proof. vm_compute. reflexivity. Qed.

(* REVISIONS = 2: the hypotheses of `kept` hold in a run in which another value is
   reclaimed, and the conclusion holds *)
Example ex_kept_hyp : kept_statement c2 ops_kept false.
Proof.
  pose (tr := snd (run sh0 c2 ops_kept)).
  assert (Etr : exists a0 a1 a2 a3 a4 a5 a6 a7, tr = [a0; a1; a2; a3; a4; a5; a6; a7] /\
    a0 = mkEntry 3 (OIntern 0 10 low 901) (RIntern 100 0 PFast) (e_evs a0) /\
    a1 = mkEntry 3 (OIntern 0 13 low 103) (RIntern 101 1 PReuse) (e_evs a1) /\
    a2 = mkEntry 2 ONewRev RNewRev [] /\
    a3 = mkEntry 2 (OIntern 0 10 low 900) (RIntern 100 0 PFast) (e_evs a3) /\
    a4 = mkEntry 2 (OIntern 0 12 low 102) (RIntern 102 0 PCold) (e_evs a4) /\
    a5 = mkEntry 1 ONewRev RNewRev [] /\
    a6 = mkEntry 1 (OIntern 0 11 low 101) (RIntern 101 0 PCold) (e_evs a6) /\
    a7 = mkEntry 1 (OIntern 0 10 low 100) (RIntern 100 0 PCold) (e_evs a7)).
  { vm_compute. do 8 eexists. split; [reflexivity|]. repeat split. }
  destruct Etr as [a0 [a1 [a2 [a3 [a4 [a5 [a6 [a7 [Etr [E0 [E1 [E2 [E3 [E4 [E5 [E6 E7]]]]]]]]]]]]]]]].
  exists (fst (run sh0 c2 ops_kept)), tr, [], a0, [a1; a2; a3; a4; a5; a6], a7, [],
         10, 100, 0, 100, 0.
  split; [apply cfg_ok_rust; lia|]. split; [apply surjective_pairing|].
  split; [exact Etr|].
  split; [rewrite E7; solve_interns|]. split; [rewrite E0; solve_interns|].
  split; [|reflexivity].
  assert (W3 : exists e' i g, In e' (a0 :: [a1; a2; a3; a4; a5; a6] ++ [a7]) /\
                 interns e' 10 i g /\ e_rev e' = 3).
  { exists a0, 100, 0. split; [now left|]. rewrite E0. split; [solve_interns|reflexivity]. }
  assert (W2 : exists e' i g, In e' (a0 :: [a1; a2; a3; a4; a5; a6] ++ [a7]) /\
                 interns e' 10 i g /\ e_rev e' = 2).
  { exists a3, 100, 0. split; [cbn; auto|]. rewrite E3. split; [solve_interns|reflexivity]. }
  assert (W1 : exists e' i g, In e' (a0 :: [a1; a2; a3; a4; a5; a6] ++ [a7]) /\
                 interns e' 10 i g /\ e_rev e' = 1).
  { exists a7, 100, 0. split; [cbn; auto 10|]. rewrite E7. split; [solve_interns|reflexivity]. }
  intros e Hin Ha. cbn [In] in Hin.
  destruct Hin as [<-|[<-|[<-|[<-|[<-|[<-|[<-|[]]]]]]]].
  - replace (e_rev a0) with 3 by (rewrite E0; reflexivity); exact W3.
  - replace (e_rev a1) with 3 by (rewrite E1; reflexivity); exact W3.
  - rewrite E2 in Ha; discriminate.
  - replace (e_rev a3) with 2 by (rewrite E3; reflexivity); exact W2.
  - replace (e_rev a4) with 2 by (rewrite E4; reflexivity); exact W2.
  - rewrite E5 in Ha; discriminate.
  - replace (e_rev a6) with 1 by (rewrite E6; reflexivity); exact W1.
Qed.

(* REVISIONS = 1: value 10 is interned in every revision in which the type is used and
   still loses its identity — its slot is taken by value 11 in revision 2 before 10 is
   interned again in revision 2 (with one recorded revision, "stale" means "not yet
   interned in the current revision"). *)
Definition ops_kept1 : list op :=
  [OIntern 0 10 low 100; ONewRev; OIntern 0 11 low 101; OIntern 0 10 low 102].

Example ex_kept1_outs :
  outs sh0 c1 ops_kept1 =
  [RIntern 100 0 PCold; RNewRev; RIntern 100 1 PReuse; RIntern 102 0 PCold].
Proof. vm_compute. reflexivity. Qed.

Theorem kept_revisions1_refuted : kept_statement c1 ops_kept1 true.
Proof.
  pose (tr := snd (run sh0 c1 ops_kept1)).
  assert (Etr : exists a0 a1 a2 a3, tr = [a0; a1; a2; a3] /\
    a0 = mkEntry 2 (OIntern 0 10 low 102) (RIntern 102 0 PCold) (e_evs a0) /\
    a1 = mkEntry 2 (OIntern 0 11 low 101) (RIntern 100 1 PReuse) (e_evs a1) /\
    a2 = mkEntry 1 ONewRev RNewRev [] /\
    a3 = mkEntry 1 (OIntern 0 10 low 100) (RIntern 100 0 PCold) (e_evs a3)).
  { vm_compute. do 4 eexists. split; [reflexivity|]. repeat split. }
  destruct Etr as [a0 [a1 [a2 [a3 [Etr [E0 [E1 [E2 E3]]]]]]]].
  exists (fst (run sh0 c1 ops_kept1)), tr, [], a0, [a1; a2], a3, [], 10, 100, 0, 102, 0.
  split; [apply cfg_ok_rust; lia|]. split; [apply surjective_pairing|].
  split; [exact Etr|].
  split; [rewrite E3; solve_interns|]. split; [rewrite E0; solve_interns|].
  split; [|intros E; inversion E].
  assert (W2 : exists e' i g, In e' (a0 :: [a1; a2] ++ [a3]) /\
                 interns e' 10 i g /\ e_rev e' = 2).
  { exists a0, 102, 0. split; [now left|]. rewrite E0. split; [solve_interns|reflexivity]. }
  intros e Hin Ha. cbn [In] in Hin.
  destruct Hin as [<-|[<-|[<-|[]]]].
  - replace (e_rev a0) with 2 by (rewrite E0; reflexivity); exact W2.
  - replace (e_rev a1) with 2 by (rewrite E1; reflexivity); exact W2.
  - rewrite E2 in Ha; discriminate.
Qed.

(* ---------- the reading note of C09 that does NOT hold ---------- *)

(* "interning outside any query pins the value" is true only when that interning
   creates the slot (cold / reuse path).  On the fast path an interning outside any
   query leaves the recorded durability alone: a value first interned by a LOW query,
   then interned again outside any query, is reclaimed as usual. *)
Definition ops_outside_fast : list op :=
  [OIntern 0 10 low 100; OIntern 0 10 Outside 999; ONewRev; OIntern 0 11 low 101].

Theorem outside_fast_path_does_not_pin :
  outs sh0 c1 ops_outside_fast =
  [RIntern 100 0 PCold; RIntern 100 0 PFast; RNewRev; RIntern 100 1 PReuse].
Proof. vm_compute. reflexivity. Qed.

(* ---------- C22: an interning cut short by a panic in user code ---------- *)

(* the reuse of ops_reuse, cut inside `clear_memos` (DidDiscard) or in the DidReuse
   callback: the slot already carries the new value, the new generation and the new stamp,
   exactly as after the completed call (hypothesis of cut_commit_state) *)
Example ex_cut_reuse_commit :
  let s := fst (run sh0 c2 (firstn 4 ops_reuse)) in
  let '(s', out, _) := intern_cut sh0 c2 s 12 low 102 CutCallback in
  out = RIntern 100 1 PReuse /\
  option_map (fun sl => (s_val sl, s_gen sl, s_lia sl)) (st_slots s' 100) = Some (12, 1, 3) /\
  st_keys s' 0 = [(12, 100); (11, 101)] /\ st_lru s' 0 = [100; 101] /\
  s' = fst (fst (step sh0 c2 s (OIntern 0 12 low 102))).
Proof. vm_compute. repeat split; reflexivity. Qed.

(* the fast path cut in the DidValidateInternedValue callback: the stamp is refreshed, the
   LRU position is not (101 stays in front), the durability is not raised -- the state of a
   revalidation (cut_callback_is_step, second alternative) *)
Example ex_cut_fast_is_revalidation :
  let s := fst (run sh0 c2 (firstn 4 ops_reuse)) in
  let '(s', out, evs) := intern_cut sh0 c2 s 10 high 999 CutCallback in
  out = RIntern 100 0 PFast /\ evs = [EvValidate 100 0 3] /\
  option_map (fun sl => (s_lia sl, s_dur sl)) (st_slots s' 100) = Some (3, D_LOW) /\
  st_lru s' 0 = [101; 100] /\
  st_lru (fst (fst (step sh0 c2 s (OIntern 0 10 high 999)))) 0 = [101] /\
  s' = fst (fst (step sh0 c2 s (OMca 0 100 0 0))).
Proof. vm_compute. repeat split; reflexivity. Qed.

(* cut before the commit point (user Hash / Eq / assemble): only the revision queue moved *)
Example ex_cut_early :
  let s := fst (run sh0 c2 (firstn 4 ops_reuse)) in
  let s' := fst (fst (intern_cut sh0 c2 s 12 low 102 CutEarly)) in
  st_queue s = [2; 1] /\ st_queue s' = [3; 2] /\ st_keys s' 0 = st_keys s 0 /\
  st_lru s' 0 = st_lru s 0.
Proof. vm_compute. repeat split; reflexivity. Qed.

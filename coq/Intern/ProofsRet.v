(* Intern/ProofsRet.v — the retention mechanics (revision queue, last_interned_at,
   recorded durability) related to the declarative history of the run, and the C09
   theorems. *)
From Salsa Require Import Base.
From Salsa.Intern Require Import RetK Model ProofsBase ProofsInv ProofsStep ProofsTrace.

Local Open Scope N_scope.

(* ---------- list helpers ---------- *)

Definition list_max (l : list N) : N := fold_right N.max 0 l.

Lemma list_max_cons a l : list_max (a :: l) = N.max a (list_max l).
Proof. reflexivity. Qed.

Lemma list_max_app l1 l2 : list_max (l1 ++ l2) = N.max (list_max l1) (list_max l2).
Proof.
  induction l1 as [|a l1 IH]; cbn [app].
  - change (list_max []) with 0. now rewrite N.max_0_l.
  - rewrite !list_max_cons, IH. now rewrite N.max_assoc.
Qed.

Lemma list_max_zero l : list_max l = 0 <-> Forall (fun d => d = 0) l.
Proof.
  induction l as [|a l IH]; [split; [constructor|reflexivity]|].
  rewrite list_max_cons. split.
  - intros H. constructor; [lia|]. apply IH. lia.
  - intros H. inversion H as [|? ? Ha Hl]; subst. apply IH in Hl. lia.
Qed.

Lemma firstn_repeat {A} (x : A) n m : firstn n (repeat x m) = repeat x (Nat.min n m).
Proof.
  revert m. induction n as [|n IH]; intros [|m]; cbn [firstn repeat Nat.min]; try reflexivity.
  now rewrite IH.
Qed.

Lemma rq_last_firstn (L : list rev) m :
  (S m <= length L)%nat -> rq_last (firstn (S m) L) = nth_error L m.
Proof.
  revert L. induction m as [|m IH]; intros [|a L] Hlen; cbn [length] in Hlen; try lia.
  - reflexivity.
  - destruct L as [|b L]; [cbn [length] in Hlen; lia|].
    change (firstn (S (S m)) (a :: b :: L)) with (a :: firstn (S m) (b :: L)).
    change (firstn (S m) (b :: L)) with (b :: firstn m L).
    rewrite rq_last_cons. change (b :: firstn m L) with (firstn (S m) (b :: L)).
    rewrite IH by (cbn [length] in *; lia). reflexivity.
Qed.

Lemma nth_error_app_pad (A : list rev) k n o :
  nth_error (A ++ repeat REV_START n) k = Some o -> o <> REV_START ->
  nth_error A k = Some o.
Proof.
  intros H Hne. destruct (Compare_dec.le_lt_dec (length A) k) as [Hge|Hlt].
  - rewrite nth_error_app2 in H by assumption.
    apply nth_error_In in H. apply repeat_spec in H. congruence.
  - now rewrite nth_error_app1 in H.
Qed.

(* recording into a queue that is a prefix of a longer list *)
Lemma record_firstn (L : list rev) h L0 m cur :
  L = h :: L0 -> (S m <= length L)%nat ->
  rq_record (firstn (S m) L) cur =
    if cur <=? h then firstn (S m) L else firstn (S m) (cur :: L).
Proof.
  intros -> Hlen. rewrite rq_record_unfold.
  change (firstn (S m) (h :: L0)) with (h :: firstn m L0). cbv beta iota.
  destruct (cur <=? h); [reflexivity|].
  change (h :: firstn m L0) with (firstn (S m) (h :: L0)).
  rewrite removelast_firstn_S by assumption. reflexivity.
Qed.

(* ---------- trace vocabulary ---------- *)

Lemma touches_cons e tr idx gen :
  touches (e :: tr) idx gen =
    (if internsb e idx gen || revalidatesb e idx gen then [e_rev e] else [])
      ++ touches tr idx gen.
Proof.
  unfold touches. cbn [filter].
  destruct (internsb e idx gen || revalidatesb e idx gen); reflexivity.
Qed.

Lemma touches_In tr idx gen r :
  In r (touches tr idx gen) -> exists e, In e tr /\ e_rev e = r.
Proof.
  unfold touches. intros H. apply in_map_iff in H as [e [Hr Hin]].
  apply filter_In in Hin as [Hin _]. eauto.
Qed.

Lemma dur_hist_cons e tr idx gen :
  dur_hist (e :: tr) idx gen = dur_contrib e idx gen ++ dur_hist tr idx gen.
Proof. reflexivity. Qed.

Lemma internsb_true e idx gen :
  internsb e idx gen = true <-> exists v, interns e v idx gen.
Proof.
  unfold internsb, interns. split.
  - destruct (e_op e) as [t v sp fr| | |]; try discriminate.
    destruct (e_out e) as [i g p| | | |]; try discriminate.
    intros H. apply andb_true_iff in H as [H1 H2].
    apply N.eqb_eq in H1, H2. subst. eauto 8.
  - intros [v [t [sp [fr [p [-> ->]]]]]]. now rewrite !N.eqb_refl.
Qed.

Lemma revalidatesb_true e idx gen :
  revalidatesb e idx gen = true <-> revalidates e idx gen.
Proof.
  unfold revalidatesb, revalidates. split.
  - destruct (e_op e) as [|t i g since| |]; try discriminate.
    destruct (e_out e) as [| [|] | | |]; try discriminate.
    intros H. apply andb_true_iff in H as [H1 H2].
    apply N.eqb_eq in H1, H2. subst. eauto.
  - intros [t [since [-> ->]]]. now rewrite !N.eqb_refl.
Qed.

Lemma dur_contrib_interns e idx gen :
  dur_contrib e idx gen <> [] -> exists v, interns e v idx gen.
Proof.
  unfold dur_contrib, interns.
  destruct (e_op e) as [t v sp fr| | |]; try congruence.
  destruct (e_out e) as [i g p| | | |]; try congruence.
  destruct (N.eqb_spec i idx), (N.eqb_spec g gen); cbn [andb]; try congruence.
  subst. eauto 8.
Qed.

Lemma dur_hist_nil tr idx gen :
  (forall e v, In e tr -> ~ interns e v idx gen) -> dur_hist tr idx gen = [].
Proof.
  induction tr as [|e tr IH]; intros H; [reflexivity|].
  rewrite dur_hist_cons, IH by (intros; apply H; now right).
  rewrite app_nil_r.
  destruct (dur_contrib e idx gen) eqn:E; [reflexivity|].
  destruct (dur_contrib_interns e idx gen) as [v Hv]; [congruence|].
  exfalso. eapply H; [now left|eauto].
Qed.

Lemma acts_In tr r :
  In r (acts tr) <-> exists e, In e tr /\ is_activity e = true /\ e_rev e = r.
Proof.
  induction tr as [|e tr IH]; cbn [acts].
  - split; [intros []|intros [e [[] _]]].
  - destruct (is_activity e) eqn:Ea.
    + destruct (acts tr) as [|r0 l] eqn:El.
      * split.
        -- intros [<-|[]]. exists e. auto using in_eq.
        -- intros [e' [[<-|Hin] [Ha Hr]]]; [now left|].
           exfalso. apply (proj2 IH). eauto.
      * cbv beta iota. destruct (N.eqb_spec r0 (e_rev e)) as [E0|N0].
        -- rewrite IH. split.
           ++ intros [e' [Hin H]]. exists e'. split; [now right|auto].
           ++ intros [e' [[<-|Hin] [Ha Hr]]]; [|eauto].
              apply IH. rewrite <- Hr, <- E0. now left.
        -- split.
           ++ intros [<-|Hin]; [exists e; auto using in_eq|].
              apply IH in Hin as [e' [Hin H]]. exists e'. split; [now right|auto].
           ++ intros [e' [[<-|Hin] [Ha Hr]]]; [now left|]. right. apply IH. eauto.
    + rewrite IH. split.
      * intros [e' [Hin H]]. exists e'. split; [now right|auto].
      * intros [e' [[<-|Hin] [Ha Hr]]]; [congruence|eauto].
Qed.

(* `acts` is strictly decreasing on a trace sorted by revision *)
Lemma acts_sorted tr : mono tr -> forall r l, acts tr = r :: l -> forall x, In x l -> x < r.
Proof.
  induction tr as [|e tr IH]; cbn [acts mono]; [intros _ r l E; discriminate|].
  intros [Hle Hm] r l E x Hx.
  destruct (is_activity e) eqn:Ea; [|eauto].
  destruct (acts tr) as [|r0 l0] eqn:El.
  - inversion E; subst. destruct Hx.
  - assert (Hr0 : r0 <= e_rev e).
    { assert (Hin : In r0 (acts tr)) by (rewrite El; now left).
      apply acts_In in Hin as [e' [Hin [_ <-]]]. auto. }
    cbv beta iota in E. destruct (N.eqb_spec r0 (e_rev e)).
    + inversion E; subst. eapply IH; eauto.
    + inversion E; subst. destruct Hx as [<-|Hx]; [lia|].
      pose proof (IH Hm _ _ eq_refl x Hx). lia.
Qed.

(* every handle in an mca entry was returned by an earlier interning *)
Fixpoint wf_ids (tr : list entry) : Prop :=
  match tr with
  | [] => True
  | e :: tr' =>
    match e_op e with
    | OMca _ idx gen _ => exists e0 v, In e0 tr' /\ interns e0 v idx gen
    | _ => True
    end /\ wf_ids tr'
  end.

Section Ret.
Variable shard_of : val -> N.
Variable c : cfg.

Notation Inv := (Inv shard_of c).

Notation TD := (TD shard_of).

Definition pad (n : N) : list rev := repeat REV_START (N.to_nat n).

(* the queue is the REVISIONS newest active revisions, padded with Revision::start() *)
Definition LQ (s : st) (tr : list entry) : Prop :=
  forall n, c_revisions c = Some n ->
    st_queue s = firstn (N.to_nat n) (acts tr ++ pad n).

Record LD (s : st) (tr : list entry) : Prop := mkLD {
  l_touch : forall idx sl, st_slots s idx = Some sl ->
     forall r, In r (touches tr idx (s_gen sl)) -> r <= s_lia sl;
  l_dur : forall idx sl, st_slots s idx = Some sl ->
     s_dur sl = list_max (dur_hist tr idx (s_gen sl));
  l_lia : wf_ids tr -> forall idx sl, st_slots s idx = Some sl ->
     In (s_lia sl) (touches tr idx (s_gen sl)) \/
     (s_lia sl = REV_MAX /\ s_dur sl <> D_LOW)
}.

Lemma LQ_init : LQ (init c) [].
Proof.
  intros n Hn. unfold init; cbn [st_queue acts app]. rewrite Hn.
  unfold pad, rq_new. rewrite firstn_repeat. f_equal. lia.
Qed.

Lemma LD_init : LD (init c) [].
Proof. constructor; cbn; intros; discriminate. Qed.

(* ---------- queue ---------- *)

Lemma acts_hd_le s tr r l : TB s tr -> acts tr = r :: l -> 1 <= r /\ r <= st_cur s.
Proof.
  intros HB E. assert (Hin : In r (acts tr)) by (rewrite E; now left).
  apply acts_In in Hin as [e [Hin [_ <-]]]. now apply (t_rev _ _ HB).
Qed.

Lemma LQ_activity s s' tr e :
  cfg_ok c -> TB s tr -> 1 <= st_cur s -> LQ s tr ->
  is_activity e = true -> e_rev e = st_cur s ->
  st_queue s' = record_active c s ->
  LQ s' (e :: tr).
Proof.
  intros Hc HB Hcur HL Ha Hr Eq n Hn. rewrite Eq.
  unfold record_active, immortal. rewrite Hn. rewrite (HL n Hn).
  specialize (Hc n Hn).
  destruct (N.to_nat n) as [|m] eqn:En; [lia|].
  cbn [acts]. rewrite Ha, Hr.
  assert (Hpad : pad n = REV_START :: repeat REV_START m).
  { unfold pad. rewrite En. reflexivity. }
  assert (Hlen : forall A : list rev, (S m <= length (A ++ pad n))%nat).
  { intros A. rewrite app_length. unfold pad. rewrite repeat_length. lia. }
  destruct (acts tr) as [|a A0] eqn:EA.
  - cbn [app]. rewrite Hpad.
    rewrite (record_firstn _ REV_START (repeat REV_START m) m (st_cur s) eq_refl)
      by (cbn [length]; rewrite repeat_length; lia).
    destruct (N.leb_spec (st_cur s) REV_START); [|reflexivity].
    assert (E1 : st_cur s = REV_START) by (unfold REV_START in *; lia). rewrite E1.
    change (REV_START :: REV_START :: repeat REV_START m) with (repeat REV_START (S (S m))).
    change (REV_START :: repeat REV_START m) with (repeat REV_START (S m)).
    rewrite !firstn_repeat. f_equal. lia.
  - destruct (acts_hd_le s tr a A0 HB EA) as [Ha1 Ha2].
    change ((a :: A0) ++ pad n) with (a :: (A0 ++ pad n)).
    rewrite (record_firstn _ a (A0 ++ pad n) m (st_cur s) eq_refl) by apply (Hlen (a :: A0)).
    destruct (N.eqb_spec a (st_cur s)) as [E|N0].
    + destruct (N.leb_spec (st_cur s) a); [reflexivity|lia].
    + destruct (N.leb_spec (st_cur s) a); [lia|reflexivity].
Qed.

Lemma LQ_same s s' tr e :
  LQ s tr -> is_activity e = false -> st_queue s' = st_queue s -> LQ s' (e :: tr).
Proof. intros HL Ha Eq n Hn. cbn [acts]. rewrite Ha, Eq. now apply HL. Qed.

(* ---------- LD, case by case ---------- *)

Lemma wf_ids_tail e tr : wf_ids (e :: tr) -> wf_ids tr.
Proof. cbn [wf_ids]. tauto. Qed.

(* slots unchanged, the new entry touches no handle *)
Lemma LD_frame s s' tr e :
  LD s tr -> st_slots s' = st_slots s ->
  (forall i g, internsb e i g = false) -> (forall i g, revalidatesb e i g = false) ->
  (forall i g, dur_contrib e i g = []) ->
  LD s' (e :: tr).
Proof.
  intros [Ht Hd Hl] Eslots Hi Hm Hc.
  constructor; rewrite ?Eslots.
  - intros idx sl Hsl r. rewrite touches_cons, Hi, Hm. cbn [orb app]. now apply Ht.
  - intros idx sl Hsl. rewrite dur_hist_cons, Hc. cbn [app]. now apply Hd.
  - intros Hwf idx sl Hsl. rewrite touches_cons, Hi, Hm. cbn [orb app].
    apply Hl; [eapply wf_ids_tail; eauto|assumption].
Qed.

Lemma internsb_new r t v sp fr i g p evs i0 g0 :
  internsb (mkEntry r (OIntern t v sp fr) (RIntern i g p) evs) i0 g0 = (i =? i0) && (g =? g0).
Proof. reflexivity. Qed.

Lemma revalidatesb_intern r t v sp fr out evs i0 g0 :
  revalidatesb (mkEntry r (OIntern t v sp fr) out evs) i0 g0 = false.
Proof. reflexivity. Qed.

Lemma LD_fast s s' tr t v sp fr idx sl evs :
  LD s tr ->
  st_slots s idx = Some sl ->
  st_slots s' = updN (st_slots s) idx
    (Some (mkSlot (s_val sl) (s_gen sl) (fast_lia s sl) (fast_dur sl sp) (s_shard sl))) ->
  LD s' (mkEntry (st_cur s) (OIntern t v sp fr) (RIntern idx (s_gen sl) PFast) evs :: tr).
Proof.
  intros [Ht Hd Hl] Hsl Eslots.
  destruct (fast_lia_ge s sl) as [Hl1 Hl2].
  constructor; rewrite Eslots.
  - intros i sl0 Hs0 r. rewrite touches_cons, internsb_new, revalidatesb_intern, orb_false_r.
    cupd idx i.
    + inversion Hs0; subst sl0. cbn [s_gen s_lia e_rev]. rewrite !N.eqb_refl. cbn [andb app].
      intros [<-|Hin]; [lia|]. specialize (Ht _ _ Hsl r Hin). lia.
    + destruct (N.eqb_spec idx i); [congruence|]. cbn [andb app]. now apply Ht.
  - intros i sl0 Hs0. rewrite dur_hist_cons. unfold dur_contrib; cbn [e_op e_out].
    cupd idx i.
    + inversion Hs0; subst sl0. cbn [s_gen s_dur]. rewrite !N.eqb_refl. cbn [andb].
      rewrite list_max_app, <- (Hd _ _ Hsl). unfold fast_dur.
      destruct sp; cbn [list_max fold_right]; lia.
    + destruct (N.eqb_spec idx i); [congruence|]. cbn [andb app]. now apply Hd.
  - intros Hwf i sl0 Hs0. apply wf_ids_tail in Hwf.
    rewrite touches_cons, internsb_new, revalidatesb_intern, orb_false_r.
    cupd idx i.
    + inversion Hs0; subst sl0. cbn [s_gen s_lia s_dur e_rev]. rewrite !N.eqb_refl.
      cbn [andb app]. unfold fast_lia.
      destruct (N.ltb_spec (s_lia sl) (st_cur s)); [left; now left|].
      destruct (Hl Hwf _ _ Hsl) as [Hin|[Hm Hdur]]; [left; now right|right].
      split; [assumption|]. unfold fast_dur, D_LOW in *. destruct sp; lia.
    + destruct (N.eqb_spec idx i); [congruence|]. cbn [andb app]. now apply Hl.
Qed.

Lemma stamp_dur_hist sp p :
  p <> PFast ->
  list_max (match sp, p with
            | InQuery d, _ => [d]
            | Outside, PFast => []
            | Outside, _ => [DUR_MAX]
            end) = fst (stamp_vals 0 sp).
Proof. intros Hp. destruct sp, p; cbn; try congruence; lia. Qed.

(* cold path and reuse path: a handle (idx, gen) that never occurred before *)
Lemma LD_new s s' tr t v sp fr idx gen p evs :
  Inv s -> TB s tr -> LD s tr ->
  p <> PFast ->
  (forall e v0, In e tr -> ~ interns e v0 idx gen) ->
  st_slots s' = updN (st_slots s) idx
    (Some (mkSlot v gen (snd (stamp_vals (st_cur s) sp)) (fst (stamp_vals (st_cur s) sp))
                  (shard_of v))) ->
  LD s' (mkEntry (st_cur s) (OIntern t v sp fr) (RIntern idx gen p) evs :: tr).
Proof.
  intros [[_ Hmax] _] HB [Ht Hd Hl] Hp Hnew Eslots.
  pose proof (stamp_lia_ge s sp Hmax) as Hlia.
  constructor; rewrite Eslots.
  - intros i sl0 Hs0 r. rewrite touches_cons, internsb_new, revalidatesb_intern, orb_false_r.
    cupd idx i.
    + inversion Hs0; subst sl0. cbn [s_gen s_lia e_rev]. rewrite !N.eqb_refl. cbn [andb app].
      intros [<-|Hin]; [assumption|].
      apply touches_In in Hin as [e [Hin <-]]. destruct (t_rev _ _ HB _ Hin). lia.
    + destruct (N.eqb_spec idx i); [congruence|]. cbn [andb app]. now apply Ht.
  - intros i sl0 Hs0. rewrite dur_hist_cons. unfold dur_contrib; cbn [e_op e_out].
    cupd idx i.
    + inversion Hs0; subst sl0. cbn [s_gen s_dur]. rewrite !N.eqb_refl. cbn [andb].
      rewrite (dur_hist_nil tr idx gen) by (intros e v0 Hin; now apply Hnew).
      rewrite app_nil_r.
      destruct sp, p; cbn [stamp_vals fst list_max fold_right]; try congruence; lia.
    + destruct (N.eqb_spec idx i); [congruence|]. cbn [andb app]. now apply Hd.
  - intros Hwf i sl0 Hs0. apply wf_ids_tail in Hwf.
    rewrite touches_cons, internsb_new, revalidatesb_intern, orb_false_r.
    cupd idx i.
    + inversion Hs0; subst sl0. cbn [s_gen s_lia s_dur e_rev]. rewrite !N.eqb_refl.
      cbn [andb app].
      destruct sp; cbn [stamp_vals fst snd].
      * right. split; [reflexivity|]. unfold DUR_MAX, D_NEVER, D_LOW. lia.
      * left. now left.
    + destruct (N.eqb_spec idx i); [congruence|]. cbn [andb app]. now apply Hl.
Qed.

Lemma LD_mca_unchanged s s' tr t idx gen since sl evs :
  TB s tr -> TD s tr -> LD s tr ->
  st_slots s idx = Some sl -> s_gen sl <= gen ->
  st_slots s' = updN (st_slots s) idx
    (Some (mkSlot (s_val sl) (s_gen sl) (st_cur s) (s_dur sl) (s_shard sl))) ->
  LD s' (mkEntry (st_cur s) (OMca t idx gen since) (RMca false) evs :: tr).
Proof.
  intros HB HD [Ht Hd Hl] Hsl Hg Eslots.
  assert (Hi : forall i g,
     internsb (mkEntry (st_cur s) (OMca t idx gen since) (RMca false) evs) i g = false)
    by reflexivity.
  assert (Hm : forall i g,
     revalidatesb (mkEntry (st_cur s) (OMca t idx gen since) (RMca false) evs) i g
       = (idx =? i) && (gen =? g)) by reflexivity.
  constructor; rewrite Eslots.
  - intros i sl0 Hs0 r. rewrite touches_cons, Hi, Hm. cbn [orb].
    cupd idx i.
    + inversion Hs0; subst sl0. cbn [s_gen s_lia].
      intros Hin. apply in_app_or in Hin as [Hin|Hin].
      * destruct ((idx =? idx) && (gen =? s_gen sl)); [|destruct Hin].
        destruct Hin as [<-|[]]. cbn [e_rev]. lia.
      * apply touches_In in Hin as [e [Hin <-]]. destruct (t_rev _ _ HB _ Hin). lia.
    + destruct (N.eqb_spec idx i); [congruence|]. cbn [andb app]. now apply Ht.
  - intros i sl0 Hs0. rewrite dur_hist_cons. unfold dur_contrib; cbn [e_op e_out app].
    cupd idx i; [|now apply Hd].
    inversion Hs0; subst sl0. cbn [s_gen s_dur]. now apply Hd.
  - intros Hwf i sl0 Hs0. rewrite touches_cons, Hi, Hm. cbn [orb].
    cupd idx i.
    + inversion Hs0; subst sl0. cbn [s_gen s_lia s_dur]. left.
      destruct Hwf as [[e0 [v0 [Hin0 Hi0]]] _].
      destruct (t_den _ _ _ HD _ _ _ _ Hin0 Hi0) as [sl1 [Hs1 Hc]].
      rewrite Hsl in Hs1; inversion Hs1; subst sl1.
      assert (Eg : gen = s_gen sl) by (destruct Hc as [?|[? _]]; lia).
      rewrite Eg, !N.eqb_refl. cbn [andb app e_rev]. now left.
    + destruct (N.eqb_spec idx i); [congruence|]. cbn [andb app].
      apply Hl; [eapply wf_ids_tail; eauto|assumption].
Qed.

(* ---------- one step ---------- *)

Lemma L_step s tr o s' out evs :
  cfg_ok c -> Inv s -> TB s tr -> TD s tr -> LQ s tr -> LD s tr ->
  step shard_of c s o = (s', out, evs) ->
  LQ s' (mkEntry (st_cur s) o out evs :: tr) /\ LD s' (mkEntry (st_cur s) o out evs :: tr).
Proof.
  intros Hc HI HB HD HQ HL Hstep. pose proof HI as [[Hmin Hmax] [HS HQok]].
  destruct o as [t v sp fr|t idx gen since|t idx|]; cbn [step] in Hstep.
  - (* intern *)
    destruct (intern_spec _ _ _ _ _ _ _ _ _ HI Hstep) as [Hres _].
    assert (HQq : forall s1, st_queue s1 = record_active c s ->
              LQ s1 (mkEntry (st_cur s) (OIntern t v sp fr) out evs :: tr)).
    { intros s1 E. eapply LQ_activity; eauto. }
    inversion Hres as [idx sl0 Hf Hs0 Ecur Eq Ekeys Eslots _
                      |Hf Hfr Ecur Eq Ekeys Eslots _
                      |idx sl0 Hf Hin Hs0 Hlt Hpr Hst Ecur Eq Ekeys Eslots _
                      |Ecur Eq Ekeys Eslots]; subst out; (split; [now apply HQq|]).
    + eapply LD_fast; eauto.
    + eapply LD_new; eauto; [discriminate|].
      intros e v0 Hine Hi. destruct (t_den _ _ _ HD _ _ _ _ Hine Hi) as [sl1 [Hs1 _]]. congruence.
    + eapply LD_new; eauto; [discriminate|].
      intros e v0 Hine Hi. destruct (t_den _ _ _ HD _ _ _ _ Hine Hi) as [sl1 [Hs1 Hc1]].
      rewrite Hs0 in Hs1; inversion Hs1; subst sl1. lia.
    + eapply LD_frame; eauto.
  - (* maybe_changed_after *)
    unfold mca in Hstep.
    assert (HQq : forall s1, st_queue s1 = record_active c s ->
              LQ s1 (mkEntry (st_cur s) (OMca t idx gen since) out evs :: tr)).
    { intros s1 E. eapply LQ_activity; eauto. }
    destruct (st_slots s idx) as [sl|] eqn:Hsl.
    + destruct (N.ltb_spec gen (s_gen sl)).
      * inversion Hstep; subst; clear Hstep. split; [now apply HQq|].
        eapply LD_frame; eauto.
      * inversion Hstep; subst; clear Hstep. split; [now apply HQq|].
        eapply LD_mca_unchanged; eauto.
    + inversion Hstep; subst; clear Hstep. split; [now apply HQq|].
      eapply LD_frame; eauto.
  - (* read *)
    assert (Es : s' = s) by (eapply read_Inv; eauto). subst s'. split.
    + eapply LQ_same; eauto.
    + eapply LD_frame; eauto.
  - (* new revision *)
    unfold new_revision in Hstep. destruct (N.ltb_spec (st_cur s) REV_MAX).
    + inversion Hstep; subst; clear Hstep. split.
      * eapply LQ_same; eauto.
      * eapply LD_frame; eauto.
    + inversion Hstep; subst; clear Hstep. split.
      * eapply LQ_same; eauto.
      * eapply LD_frame; eauto.
Qed.

Lemma exec_rev_L : cfg_ok c -> forall rops s tr,
  exec_rev shard_of c rops = (s, tr) -> LQ s tr /\ LD s tr.
Proof.
  intros Hc. induction rops as [|o rest IH]; intros s tr; cbn [exec_rev].
  - intros H; inversion H; subst. split; [apply LQ_init|apply LD_init].
  - destruct (exec_rev shard_of c rest) as [s0 tr0] eqn:E0.
    destruct (step shard_of c s0 o) as [[s1 out] evs] eqn:Es.
    intros H; inversion H; subst.
    destruct (IH _ _ eq_refl) as [HQ HL].
    destruct (exec_rev_all shard_of c Hc _ _ _ E0) as [HI [HB HD]].
    eapply L_step; eauto.
Qed.

(* ---------- the declarative retention rule ---------- *)

(* Handle (idx, gen) may be reclaimed, as a function of the history only:
   the type is collectable, every interning recorded LOW durability, at least REVISIONS
   distinct revisions used the type, and the handle was neither interned nor
   revalidated in any of the REVISIONS most recent of them. *)
Definition collectable (tr : list entry) (idx gen : N) : Prop :=
  exists n o,
    c_revisions c = Some n /\
    Forall (fun d => d = D_LOW) (dur_hist tr idx gen) /\
    nth_error (acts tr) (N.to_nat n - 1) = Some o /\
    Forall (fun r => r < o) (touches tr idx gen).

Lemma stale_decl s tr n r :
  cfg_ok c -> c_revisions c = Some n -> LQ s tr -> 1 <= r ->
  (rq_is_stale (st_queue s) r = true <->
   exists o, nth_error (acts tr) (N.to_nat n - 1) = Some o /\ r < o).
Proof.
  intros Hc Hn HQ Hr. rewrite (HQ n Hn). specialize (Hc n Hn).
  destruct (N.to_nat n) as [|m] eqn:En; [lia|].
  replace (S m - 1)%nat with m by lia.
  rewrite rq_is_stale_true.
  rewrite rq_last_firstn
    by (rewrite app_length; unfold pad; rewrite repeat_length; lia).
  split.
  - intros [o [Ho [Hne Hlt]]]. exists o. split; [|assumption].
    eapply nth_error_app_pad; eauto.
  - intros [o [Ho Hlt]]. exists o. split; [|split; [unfold REV_START; lia|assumption]].
    rewrite nth_error_app1; [assumption|]. apply nth_error_Some. congruence.
Qed.

Lemma primed_decl s tr n :
  cfg_ok c -> c_revisions c = Some n -> LQ s tr ->
  rq_is_primed (st_queue s) = true ->
  exists o, nth_error (acts tr) (N.to_nat n - 1) = Some o /\ REV_START < o.
Proof.
  intros Hc Hn HQ. rewrite (HQ n Hn). specialize (Hc n Hn).
  destruct (N.to_nat n) as [|m] eqn:En; [lia|].
  replace (S m - 1)%nat with m by lia.
  rewrite rq_is_primed_true.
  rewrite rq_last_firstn
    by (rewrite app_length; unfold pad; rewrite repeat_length; lia).
  intros [o [Ho Hlt]]. exists o. split; [|assumption].
  eapply nth_error_app_pad; eauto. lia.
Qed.

Lemma retention_equiv_state s tr :
  cfg_ok c -> Inv s -> LQ s tr -> LD s tr -> wf_ids tr ->
  forall idx sl, st_slots s idx = Some sl ->
    (reusable (immortal c) (s_dur sl) && rq_is_stale (st_queue s) (s_lia sl) = true
     <-> collectable tr idx (s_gen sl)).
Proof.
  intros Hc [_ [HS _]] HQ HL Hwf idx sl Hsl.
  destruct (si_lia _ _ s HS _ _ Hsl) as [Hl1 _].
  rewrite andb_true_iff. unfold reusable, immortal, collectable. split.
  - intros [Hr Hst]. destruct (c_revisions c) as [n|] eqn:En; [|discriminate].
    apply N.eqb_eq in Hr.
    apply (stale_decl s tr n _ Hc En HQ Hl1) in Hst as [o [Ho Hlt]].
    exists n, o. repeat split; auto.
    + apply list_max_zero. rewrite <- (l_dur _ _ HL _ _ Hsl). exact Hr.
    + apply Forall_forall. intros r Hin. pose proof (l_touch _ _ HL _ _ Hsl r Hin). lia.
  - intros [n [o [En [Hd [Ho Ht]]]]]. rewrite En. split.
    + apply N.eqb_eq. rewrite (l_dur _ _ HL _ _ Hsl). now apply list_max_zero.
    + apply (stale_decl s tr n _ Hc En HQ Hl1). exists o. split; [assumption|].
      destruct (l_lia _ _ HL Hwf _ _ Hsl) as [Hin|[_ Hdur]].
      * rewrite Forall_forall in Ht. now apply Ht.
      * exfalso. apply Hdur. rewrite (l_dur _ _ HL _ _ Hsl). now apply list_max_zero.
Qed.

(* ---------- C09_only_if ---------- *)

Lemma only_if_step s tr t v sp fr s' idx g evs :
  cfg_ok c -> Inv s -> TB s tr -> TD s tr -> LQ s tr -> LD s tr ->
  step shard_of c s (OIntern t v sp fr) = (s', RIntern idx g PReuse, evs) ->
  exists sl n o,
    st_slots s idx = Some sl /\ g = s_gen sl + 1 /\ s_val sl <> v /\
    s_dur sl = D_LOW /\ c_revisions c = Some n /\
    rq_is_primed (st_queue s') = true /\
    rq_last (st_queue s') = Some o /\ s_lia sl < o /\
    Forall (fun d => d = D_LOW) (dur_hist tr idx (s_gen sl)) /\
    nth_error (acts (mkEntry (st_cur s) (OIntern t v sp fr) (RIntern idx g PReuse) evs :: tr))
              (N.to_nat n - 1) = Some o /\
    Forall (fun r => r < o) (touches tr idx (s_gen sl)).
Proof.
  intros Hc HI HB HD HQ HL Hstep.
  destruct (L_step _ _ _ _ _ _ Hc HI HB HD HQ HL Hstep) as [HQ' _].
  pose proof HI as [_ [HS _]].
  cbn [step] in Hstep.
  destruct (intern_spec _ _ _ _ _ _ _ _ _ HI Hstep) as [Hres HI'].
  inversion Hres as [| |idx0 sl Hf Hin Hsl Hlt Hpr Hst Ecur Eq Ekeys Eslots _|]; subst.
  destruct (si_lru_slot _ _ s HS _ _ Hin) as [sl1 [Hs1 [Hsh Hr]]].
  rewrite Hsl in Hs1; inversion Hs1; subst sl1; clear Hs1.
  unfold reusable, immortal in Hr.
  destruct (c_revisions c) as [n|] eqn:En; [|discriminate]. apply N.eqb_eq in Hr.
  destruct (si_lia _ _ s HS _ _ Hsl) as [Hl1 _].
  rewrite <- Eq in Hst, Hpr.
  pose proof Hst as Hst'.
  apply (stale_decl s' _ n _ Hc En HQ' Hl1) in Hst' as [o [Ho Hlo]].
  exists sl, n, o. repeat split; auto.
  - intros Ev. pose proof (si_slot_key _ _ s HS _ _ Hsl) as Hk.
    rewrite Hsh, Ev in Hk. eapply key_find_None; eauto.
  - apply rq_is_stale_true in Hst as [o' [Ho' [Hne' Hlt']]].
    (* the oldest entry of the queue is the n-th newest active revision *)
    rewrite (HQ' n En) in Ho' |- *. specialize (Hc n En).
    destruct (N.to_nat n) as [|m] eqn:Em; [lia|].
    replace (S m - 1)%nat with m in Ho by lia.
    rewrite rq_last_firstn in Ho' |- *
      by (rewrite app_length; unfold pad; rewrite repeat_length; lia).
    rewrite nth_error_app1; [assumption|]. apply nth_error_Some. congruence.
  - apply list_max_zero. rewrite <- (l_dur _ _ HL _ _ Hsl). exact Hr.
  - apply Forall_forall. intros r Hr'. pose proof (l_touch _ _ HL _ _ Hsl r Hr'). lia.
Qed.

(* ---------- C09_forever ---------- *)

(* v is held by slot idx at generation g, and the slot can never be reclaimed *)
Definition pinned_at (s : st) (v : val) (idx g : N) : Prop :=
  exists sl, st_slots s idx = Some sl /\ s_gen sl = g /\ s_val sl = v /\
    key_find v (st_keys s (shard_of v)) = Some idx /\
    reusable (immortal c) (s_dur sl) = false.

Lemma reusable_false_max d d' :
  reusable (immortal c) d = false -> reusable (immortal c) (N.max d d') = false.
Proof.
  unfold reusable, D_LOW. destruct (immortal c); [auto|].
  rewrite !N.eqb_neq. lia.
Qed.

Lemma pinned_step s o s' out evs v idx g :
  Inv s -> step shard_of c s o = (s', out, evs) ->
  pinned_at s v idx g ->
  pinned_at s' v idx g /\
  (forall t sp fr, o = OIntern t v sp fr -> out = RIntern idx g PFast).
Proof.
  intros HI Hstep [sl [Hsl [Hg [Hv [Hk Hnr]]]]]. pose proof HI as [_ [HS _]].
  destruct o as [t v0 sp fr|t i gen since|t i|]; cbn [step] in Hstep.
  - destruct (intern_spec _ _ _ _ _ _ _ _ _ HI Hstep) as [Hres _].
    inversion Hres as [idx0 sl0 Hf Hs0 Ecur Eq Ekeys Eslots _
                      |Hf Hfr Ecur Eq Ekeys Eslots _
                      |idx0 sl0 Hf Hin Hs0 Hlt Hpr Hst Ecur Eq Ekeys Eslots _
                      |Ecur Eq Ekeys Eslots]; subst out.
    + split.
      * unfold pinned_at. rewrite Ekeys, Eslots.
        cupd idx0 idx; [|exists sl; auto 6].
        rewrite Hsl in Hs0; inversion Hs0; subst sl0.
        eexists; split; [reflexivity|]. cbn [s_gen s_val s_dur]. repeat split; auto.
        unfold fast_dur. destruct sp; [assumption|now apply reusable_false_max].
      * intros t1 sp1 fr1 Eo; inversion Eo; subst v0.
        rewrite Hk in Hf; inversion Hf; subst idx0.
        rewrite Hsl in Hs0; inversion Hs0; subst sl0. now rewrite Hg.
    + assert (Hvv : v0 <> v) by congruence.
      split; [|intros t1 sp1 fr1 Eo; inversion Eo; congruence].
      unfold pinned_at. rewrite Ekeys, Eslots.
      cupd fr idx; [congruence|]. exists sl. repeat split; auto.
      cupd (shard_of v0) (shard_of v); [|assumption].
      cbn [key_find]. destruct (N.eqb_spec v v0); [congruence|assumption].
    + assert (Hvv : v0 <> v) by congruence.
      split; [|intros t1 sp1 fr1 Eo; inversion Eo; congruence].
      unfold pinned_at. rewrite Ekeys, Eslots.
      cupd idx0 idx.
      * (* the reused slot is in the LRU, hence reusable *)
        destruct (si_lru_slot _ _ s HS _ _ Hin) as [sl1 [Hs1 [_ Hr1]]]. congruence.
      * exists sl. repeat split; auto.
        cupd (shard_of v0) (shard_of v); [|assumption].
        cbn [key_find]. destruct (N.eqb_spec v v0); [congruence|].
        apply key_find_remove_other; [assumption|congruence].
    + split.
      * unfold pinned_at. rewrite Ekeys, Eslots. exists sl. auto 6.
      * intros t1 sp1 fr1 Eo; inversion Eo; subst v0. exfalso.
        clear - Hstep Hk Hsl. unfold intern in Hstep. rewrite Hk, Hsl in Hstep.
        inversion Hstep.
  - split; [|intros ? ? ? Eo; discriminate]. unfold mca in Hstep.
    destruct (st_slots s i) as [sl0|] eqn:Hs0.
    + destruct (gen <? s_gen sl0).
      * inversion Hstep; subst; clear Hstep. exists sl. auto 6.
      * inversion Hstep; subst; clear Hstep. unfold pinned_at.
        cbn [st_slots st_keys]. cupd i idx; [|exists sl; auto 6].
        rewrite Hsl in Hs0; inversion Hs0; subst sl0.
        eexists; split; [reflexivity|]. cbn [s_gen s_val s_dur]. auto.
    + inversion Hstep; subst; clear Hstep. exists sl. auto 6.
  - assert (Es : s' = s) by (eapply read_Inv; eauto). subst s'.
    split; [exists sl; auto 6|intros ? ? ? Eo; discriminate].
  - split; [|intros ? ? ? Eo; discriminate].
    unfold new_revision in Hstep. destruct (st_cur s <? REV_MAX).
    + inversion Hstep; subst; clear Hstep. exists sl. auto 6.
    + inversion Hstep; subst; clear Hstep. exists sl. auto 6.
Qed.

(* continuation of a run *)
Lemma exec_rev_app rops' : forall rops s tr s' tr',
  exec_rev shard_of c rops = (s, tr) ->
  exec_rev shard_of c (rops' ++ rops) = (s', tr') ->
  exists seg, tr' = seg ++ tr.
Proof.
  induction rops' as [|o rest IH]; intros rops s tr s' tr' E E'; cbn [app] in E'.
  - rewrite E in E'. inversion E'; subst. now exists [].
  - cbn [exec_rev] in E'.
    destruct (exec_rev shard_of c (rest ++ rops)) as [s0 tr0] eqn:E0.
    destruct (step shard_of c s0 o) as [[s1 out] evs].
    inversion E'; subst. destruct (IH _ _ _ _ _ E E0) as [seg ->].
    eexists (_ :: seg). reflexivity.
Qed.

Lemma pinned_forever : cfg_ok c -> forall rops' rops s tr s' tr' v idx g,
  exec_rev shard_of c rops = (s, tr) ->
  exec_rev shard_of c (rops' ++ rops) = (s', tr') ->
  pinned_at s v idx g ->
  pinned_at s' v idx g /\
  exists seg, tr' = seg ++ tr /\
    forall e t sp fr, In e seg -> e_op e = OIntern t v sp fr -> e_out e = RIntern idx g PFast.
Proof.
  intros Hc. induction rops' as [|o rest IH]; intros rops s tr s' tr' v idx g E E' Hp;
    cbn [app] in E'.
  - rewrite E in E'. inversion E'; subst. split; [assumption|].
    exists []. split; [reflexivity|]. intros e ? ? ? [].
  - cbn [exec_rev] in E'.
    destruct (exec_rev shard_of c (rest ++ rops)) as [s0 tr0] eqn:E0.
    destruct (step shard_of c s0 o) as [[s1 out] evs] eqn:Es.
    inversion E'; subst; clear E'.
    destruct (IH _ _ _ _ _ _ _ _ E E0 Hp) as [Hp0 [seg [-> Hall]]].
    pose proof (exec_rev_Inv shard_of c Hc _ _ _ E0) as HI0.
    destruct (pinned_step _ _ _ _ _ _ _ _ HI0 Es Hp0) as [Hp1 Hret].
    split; [assumption|].
    eexists (_ :: seg). split; [reflexivity|].
    intros e t sp fr [<-|Hin] Eo; [cbn [e_op e_out] in *; eauto|eauto].
Qed.

End Ret.

(* Intern/ProofsTrace.v — invariants relating the state to the trace of the run
   that produced it, and the C08 theorems (canonical / readback / kept). *)
From Salsa Require Import Base.
From Salsa.Intern Require Import RetK Model ProofsBase ProofsInv ProofsStep.

Local Open Scope N_scope.

(* ---------- vocabulary lemmas (no state) ---------- *)

Lemma interns_inv r o out evs v idx gen :
  interns (mkEntry r o out evs) v idx gen ->
  exists t sp fr p, o = OIntern t v sp fr /\ out = RIntern idx gen p.
Proof. intros [t [sp [fr [p [H1 H2]]]]]. cbn in *. eauto 8. Qed.

Lemma revalidates_inv r o out evs idx gen :
  revalidates (mkEntry r o out evs) idx gen ->
  exists t since, o = OMca t idx gen since /\ out = RMca false.
Proof. intros [t [since [H1 H2]]]. cbn in *. eauto. Qed.

Lemma interns_fun e v v' i g i' g' :
  interns e v i g -> interns e v' i' g' -> v = v' /\ i = i' /\ g = g'.
Proof.
  intros [t [sp [fr [p [H1 H2]]]]] [t' [sp' [fr' [p' [H1' H2']]]]].
  rewrite H1 in H1'. rewrite H2 in H2'. inversion H1'; inversion H2'; auto.
Qed.

Lemma In_removelast {A} (x : A) l : In x (removelast l) -> In x l.
Proof.
  induction l as [|a l IH]; [auto|]. destruct l as [|b l]; [intros []|].
  change (removelast (a :: b :: l)) with (a :: removelast (b :: l)).
  intros [->|H]; [now left|right; auto].
Qed.

Lemma rq_record_In q r x : In x (rq_record q r) -> x = r \/ In x q.
Proof.
  rewrite rq_record_unfold. destruct q as [|h t]; [intros []|].
  destruct (r <=? h); [auto|]. intros [<-|H]; [now left|right]. now apply In_removelast.
Qed.

Lemma record_active_In c s x :
  In x (record_active c s) -> In x (st_queue s) \/ (x = st_cur s /\ immortal c = false).
Proof.
  unfold record_active. destruct (immortal c); [auto|].
  intros H. apply rq_record_In in H as [->|H]; auto.
Qed.

(* the trace is sorted by revision, newest first *)
Fixpoint mono (tr : list entry) : Prop :=
  match tr with
  | [] => True
  | e :: tr' => (forall e', In e' tr' -> e_rev e' <= e_rev e) /\ mono tr'
  end.

Lemma mono_app pre e post :
  mono (pre ++ e :: post) -> forall e', In e' post -> e_rev e' <= e_rev e.
Proof.
  induction pre as [|a pre IH]; cbn [app mono]; intros [H1 H2]; auto.
Qed.

Lemma mono_app_r pre post : mono (pre ++ post) -> mono post.
Proof. induction pre as [|a pre IH]; cbn [app mono]; [auto|]. intros [_ H]; auto. Qed.

Section Trace.
Variable shard_of : val -> N.
Variable c : cfg.

Notation Inv := (Inv shard_of c).
Notation SInv := (SInv shard_of c).

(* basic trace facts *)
Record TB (s : st) (tr : list entry) : Prop := mkTB {
  t_rev : forall e, In e tr -> 1 <= e_rev e /\ e_rev e <= st_cur s;
  t_mono : mono tr;
  t_qact : forall r, In r (st_queue s) ->
     r = REV_START \/ exists e, In e tr /\ is_activity e = true /\ e_rev e = r
}.

(* what handles in the trace denote *)
Record TD (s : st) (tr : list entry) : Prop := mkTD {
  (* a handle ever returned for v: its slot still holds v, or has a later generation *)
  t_den : forall e v idx gen, In e tr -> interns e v idx gen ->
     exists sl, st_slots s idx = Some sl /\
       (gen < s_gen sl \/ (gen = s_gen sl /\ s_val sl = v));
  (* a handle obtained in the current revision is protected from reuse *)
  t_cur_i : forall e v idx gen, In e tr -> e_rev e = st_cur s -> interns e v idx gen ->
     exists sl, st_slots s idx = Some sl /\ s_gen sl = gen /\ s_val sl = v /\
       st_cur s <= s_lia sl /\ key_find v (st_keys s (shard_of v)) = Some idx;
  (* so is a handle revalidated in the current revision *)
  t_cur_m : forall e idx gen, In e tr -> e_rev e = st_cur s -> revalidates e idx gen ->
     exists sl, st_slots s idx = Some sl /\ s_gen sl <= gen /\ st_cur s <= s_lia sl
}.

Lemma TB_init : TB (init c) [].
Proof.
  constructor; cbn; try tauto. intros r Hr. left.
  destruct (c_revisions c); [|destruct Hr]. unfold rq_new in Hr. now apply repeat_spec in Hr.
Qed.

Lemma TD_init : TD (init c) [].
Proof. constructor; cbn; intros; tauto. Qed.

Lemma TB_step s s' tr e :
  TB s tr -> 1 <= st_cur s -> st_cur s <= st_cur s' -> e_rev e = st_cur s ->
  (forall r, In r (st_queue s') ->
     In r (st_queue s) \/ (r = st_cur s /\ is_activity e = true)) ->
  TB s' (e :: tr).
Proof.
  intros [Hrev Hmono Hq] Hcur Hle He Hqueue. constructor.
  - intros e' [<-|Hin]; [lia|]. destruct (Hrev _ Hin). lia.
  - cbn [mono]. split; [|assumption]. intros e' Hin. destruct (Hrev _ Hin). lia.
  - intros r Hr. destruct (Hqueue r Hr) as [Hold|[-> Hact]].
    + destruct (Hq r Hold) as [->|[e' [Hin [Ha Hr']]]]; [now left|].
      right. exists e'. split; [now right|auto].
    + right. exists e. split; [now left|auto].
Qed.

(* ---------- TD, case by case ---------- *)

(* slots, keys and current revision unchanged; the new entry returns no handle *)
Lemma TD_frame s s' tr e :
  TD s tr ->
  st_cur s' = st_cur s -> st_slots s' = st_slots s -> st_keys s' = st_keys s ->
  (forall v i g, ~ interns e v i g) -> (forall i g, ~ revalidates e i g) ->
  TD s' (e :: tr).
Proof.
  intros [Hden Hci Hcm] Ecur Eslots Ekeys Hni Hnr.
  constructor; rewrite ?Ecur, ?Eslots, ?Ekeys.
  - intros e' v i g [<-|Hin] Hi; [exfalso; eapply Hni; eauto|eauto].
  - intros e' v i g [<-|Hin] Hr Hi; [exfalso; eapply Hni; eauto|eauto].
  - intros e' i g [<-|Hin] Hr Hi; [exfalso; eapply Hnr; eauto|eauto].
Qed.

Lemma TD_newrev s s' tr e :
  TB s tr -> TD s tr -> e_rev e = st_cur s ->
  st_cur s' = st_cur s + 1 -> st_slots s' = st_slots s -> st_keys s' = st_keys s ->
  (forall v i g, ~ interns e v i g) -> (forall i g, ~ revalidates e i g) ->
  TD s' (e :: tr).
Proof.
  intros HB [Hden Hci Hcm] He Ecur Eslots Ekeys Hni Hnr.
  constructor; rewrite ?Ecur, ?Eslots, ?Ekeys.
  - intros e' v i g [<-|Hin] Hi; [exfalso; eapply Hni; eauto|eauto].
  - intros e' v i g [<-|Hin] Hr Hi; [lia|]. destruct (t_rev _ _ HB _ Hin). lia.
  - intros e' i g [<-|Hin] Hr Hi; [lia|]. destruct (t_rev _ _ HB _ Hin). lia.
Qed.

Lemma fast_lia_ge s sl : s_lia sl <= fast_lia s sl /\ st_cur s <= fast_lia s sl.
Proof. unfold fast_lia. destruct (N.ltb_spec (s_lia sl) (st_cur s)); lia. Qed.

Lemma TD_fast s s' tr t v sp fr idx sl evs :
  Inv s -> TD s tr ->
  key_find v (st_keys s (shard_of v)) = Some idx ->
  st_slots s idx = Some sl ->
  st_cur s' = st_cur s -> st_keys s' = st_keys s ->
  st_slots s' = updN (st_slots s) idx
    (Some (mkSlot (s_val sl) (s_gen sl) (fast_lia s sl) (fast_dur sl sp) (s_shard sl))) ->
  TD s' (mkEntry (st_cur s) (OIntern t v sp fr) (RIntern idx (s_gen sl) PFast) evs :: tr).
Proof.
  intros [_ [HS _]] [Hden Hci Hcm] Hf Hsl Ecur Ekeys Eslots.
  pose proof (key_find_In _ _ _ Hf) as Hk.
  destruct (si_key_slot _ _ s HS _ _ _ Hk) as [sl0 [Hs0 [Hv _]]].
  rewrite Hsl in Hs0; inversion Hs0; subst sl0; clear Hs0.
  destruct (fast_lia_ge s sl) as [Hl1 Hl2].
  constructor; rewrite ?Ecur, ?Ekeys, ?Eslots.
  - intros e v0 i g [<-|Hin] Hi.
    + apply interns_inv in Hi as [t0 [sp0 [fr0 [p [Eo Eout]]]]].
      inversion Eo; inversion Eout; subst. rewrite updN_same.
      eexists; split; [reflexivity|]. cbn [s_gen s_val]. right; auto.
    + destruct (Hden _ _ _ _ Hin Hi) as [sl0 [Hs0 Hg]]. cupd idx i; [|eauto].
      rewrite Hsl in Hs0; inversion Hs0; subst sl0.
      eexists; split; [reflexivity|]. cbn [s_gen s_val]. exact Hg.
  - intros e v0 i g [<-|Hin] Hr Hi.
    + apply interns_inv in Hi as [t0 [sp0 [fr0 [p [Eo Eout]]]]].
      inversion Eo; inversion Eout; subst. rewrite updN_same.
      eexists; split; [reflexivity|]. cbn [s_gen s_val s_lia]. auto.
    + destruct (Hci _ _ _ _ Hin Hr Hi) as [sl0 [Hs0 [Hg [Hv0 [Hl Hkf]]]]].
      cupd idx i; [|eauto 8].
      rewrite Hsl in Hs0; inversion Hs0; subst sl0.
      eexists; split; [reflexivity|]. cbn [s_gen s_val s_lia]. repeat split; auto.
  - intros e i g [<-|Hin] Hr Hi.
    + apply revalidates_inv in Hi as [t0 [since [Eo _]]]. discriminate.
    + destruct (Hcm _ _ _ Hin Hr Hi) as [sl0 [Hs0 [Hg Hl]]].
      cupd idx i; [|eauto].
      rewrite Hsl in Hs0; inversion Hs0; subst sl0.
      eexists; split; [reflexivity|]. cbn [s_gen s_lia]. split; [assumption|lia].
Qed.

Lemma stamp_lia_ge s sp :
  st_cur s <= REV_MAX -> st_cur s <= snd (stamp_vals (st_cur s) sp).
Proof. destruct sp; cbn [stamp_vals snd]; lia. Qed.

Lemma TD_cold s s' tr t v sp fr evs :
  Inv s -> TD s tr ->
  key_find v (st_keys s (shard_of v)) = None ->
  st_slots s fr = None ->
  st_cur s' = st_cur s ->
  st_keys s' = updN (st_keys s) (shard_of v) ((v, fr) :: st_keys s (shard_of v)) ->
  st_slots s' = updN (st_slots s) fr
    (Some (mkSlot v 0 (snd (stamp_vals (st_cur s) sp)) (fst (stamp_vals (st_cur s) sp))
                  (shard_of v))) ->
  TD s' (mkEntry (st_cur s) (OIntern t v sp fr) (RIntern fr 0 PCold) evs :: tr).
Proof.
  intros [[_ Hmax] _] [Hden Hci Hcm] Hf Hfr Ecur Ekeys Eslots.
  pose proof (stamp_lia_ge s sp Hmax) as Hl.
  constructor; rewrite ?Ecur, ?Ekeys, ?Eslots.
  - intros e v0 i g [<-|Hin] Hi.
    + apply interns_inv in Hi as [t0 [sp0 [fr0 [p [Eo Eout]]]]].
      inversion Eo; inversion Eout; subst. rewrite updN_same.
      eexists; split; [reflexivity|]. cbn [s_gen s_val]. right; auto.
    + destruct (Hden _ _ _ _ Hin Hi) as [sl0 [Hs0 Hg]].
      cupd fr i; [congruence|eauto].
  - intros e v0 i g [<-|Hin] Hr Hi.
    + apply interns_inv in Hi as [t0 [sp0 [fr0 [p [Eo Eout]]]]].
      inversion Eo; inversion Eout; subst. rewrite !updN_same.
      eexists; split; [reflexivity|]. cbn [s_gen s_val s_lia key_find].
      rewrite N.eqb_refl. auto.
    + destruct (Hci _ _ _ _ Hin Hr Hi) as [sl0 [Hs0 [Hg [Hv0 [Hl0 Hkf]]]]].
      cupd fr i; [congruence|].
      exists sl0. repeat split; auto.
      cupd (shard_of v) (shard_of v0); [|assumption].
      cbn [key_find]. destruct (N.eqb_spec v0 v) as [->|Hne]; [congruence|assumption].
  - intros e i g [<-|Hin] Hr Hi.
    + apply revalidates_inv in Hi as [t0 [since [Eo _]]]. discriminate.
    + destruct (Hcm _ _ _ Hin Hr Hi) as [sl0 [Hs0 [Hg Hl0]]].
      cupd fr i; [congruence|eauto].
Qed.

Lemma TD_reuse s s' tr t v sp fr idx sl evs :
  Inv s -> TD s tr ->
  key_find v (st_keys s (shard_of v)) = None ->
  st_slots s idx = Some sl ->
  rq_is_stale (record_active c s) (s_lia sl) = true ->
  st_cur s' = st_cur s ->
  st_keys s' = updN (st_keys s) (shard_of v)
                 ((v, idx) :: key_remove_idx idx (st_keys s (shard_of v))) ->
  st_slots s' = updN (st_slots s) idx
    (Some (mkSlot v (s_gen sl + 1) (snd (stamp_vals (st_cur s) sp))
                  (fst (stamp_vals (st_cur s) sp)) (shard_of v))) ->
  TD s' (mkEntry (st_cur s) (OIntern t v sp fr) (RIntern idx (s_gen sl + 1) PReuse) evs :: tr).
Proof.
  intros [[Hmin Hmax] [HS HQ]] [Hden Hci Hcm] Hf Hsl Hst Ecur Ekeys Eslots.
  pose proof (stamp_lia_ge s sp Hmax) as Hl.
  pose proof (stale_lt_cur c _ _ _ (queue_ok_record c s Hmin HQ) Hst) as Hlt.
  constructor; rewrite ?Ecur, ?Ekeys, ?Eslots.
  - intros e v0 i g [<-|Hin] Hi.
    + apply interns_inv in Hi as [t0 [sp0 [fr0 [p [Eo Eout]]]]].
      inversion Eo; inversion Eout; subst. rewrite updN_same.
      eexists; split; [reflexivity|]. cbn [s_gen s_val]. right; auto.
    + destruct (Hden _ _ _ _ Hin Hi) as [sl0 [Hs0 Hg]].
      cupd idx i; [|eauto].
      rewrite Hsl in Hs0; inversion Hs0; subst sl0.
      eexists; split; [reflexivity|]. cbn [s_gen s_val]. left. lia.
  - intros e v0 i g [<-|Hin] Hr Hi.
    + apply interns_inv in Hi as [t0 [sp0 [fr0 [p [Eo Eout]]]]].
      inversion Eo; inversion Eout; subst. rewrite !updN_same.
      eexists; split; [reflexivity|]. cbn [s_gen s_val s_lia key_find].
      rewrite N.eqb_refl. auto.
    + destruct (Hci _ _ _ _ Hin Hr Hi) as [sl0 [Hs0 [Hg [Hv0 [Hl0 Hkf]]]]].
      cupd idx i; [rewrite Hsl in Hs0; inversion Hs0; subst sl0; lia|].
      exists sl0. repeat split; auto.
      cupd (shard_of v) (shard_of v0); [|assumption].
      cbn [key_find]. destruct (N.eqb_spec v0 v) as [->|Hne]; [congruence|].
      apply key_find_remove_other; [assumption|congruence].
  - intros e i g [<-|Hin] Hr Hi.
    + apply revalidates_inv in Hi as [t0 [since [Eo _]]]. discriminate.
    + destruct (Hcm _ _ _ Hin Hr Hi) as [sl0 [Hs0 [Hg Hl0]]].
      cupd idx i; [rewrite Hsl in Hs0; inversion Hs0; subst sl0; lia|eauto].
Qed.

Lemma TD_mca_unchanged s s' tr t idx gen since sl evs :
  TD s tr ->
  st_slots s idx = Some sl -> s_gen sl <= gen ->
  st_cur s' = st_cur s -> st_keys s' = st_keys s ->
  st_slots s' = updN (st_slots s) idx
    (Some (mkSlot (s_val sl) (s_gen sl) (st_cur s) (s_dur sl) (s_shard sl))) ->
  TD s' (mkEntry (st_cur s) (OMca t idx gen since) (RMca false) evs :: tr).
Proof.
  intros [Hden Hci Hcm] Hsl Hg Ecur Ekeys Eslots.
  constructor; rewrite ?Ecur, ?Ekeys, ?Eslots.
  - intros e v0 i g [<-|Hin] Hi.
    + apply interns_inv in Hi as [t0 [sp0 [fr0 [p [Eo _]]]]]. discriminate.
    + destruct (Hden _ _ _ _ Hin Hi) as [sl0 [Hs0 Hg0]]. cupd idx i; [|eauto].
      rewrite Hsl in Hs0; inversion Hs0; subst sl0.
      eexists; split; [reflexivity|]. cbn [s_gen s_val]. exact Hg0.
  - intros e v0 i g [<-|Hin] Hr Hi.
    + apply interns_inv in Hi as [t0 [sp0 [fr0 [p [Eo _]]]]]. discriminate.
    + destruct (Hci _ _ _ _ Hin Hr Hi) as [sl0 [Hs0 [Hg0 [Hv0 [Hl Hkf]]]]].
      cupd idx i; [|eauto 8].
      rewrite Hsl in Hs0; inversion Hs0; subst sl0.
      eexists; split; [reflexivity|]. cbn [s_gen s_val s_lia]. repeat split; auto. lia.
  - intros e i g [<-|Hin] Hr Hi.
    + apply revalidates_inv in Hi as [t0 [since0 [Eo _]]]. inversion Eo; subst.
      rewrite updN_same. eexists; split; [reflexivity|]. cbn [s_gen s_lia]. split; [assumption|lia].
    + destruct (Hcm _ _ _ Hin Hr Hi) as [sl0 [Hs0 [Hg0 Hl0]]].
      cupd idx i; [|eauto].
      rewrite Hsl in Hs0; inversion Hs0; subst sl0.
      eexists; split; [reflexivity|]. cbn [s_gen s_lia]. split; [assumption|lia].
Qed.

(* ---------- one step ---------- *)

Lemma not_interns_bad r o evs v i g : ~ interns (mkEntry r o RBad evs) v i g.
Proof. intros H. apply interns_inv in H as [? [? [? [? [_ H]]]]]. discriminate. Qed.

Lemma not_reval_bad r o evs i g : ~ revalidates (mkEntry r o RBad evs) i g.
Proof. intros H. apply revalidates_inv in H as [? [? [_ H]]]. discriminate. Qed.

Lemma TBD_step s tr o s' out evs :
  Inv s -> TB s tr -> TD s tr ->
  step shard_of c s o = (s', out, evs) ->
  TB s' (mkEntry (st_cur s) o out evs :: tr) /\ TD s' (mkEntry (st_cur s) o out evs :: tr).
Proof.
  intros HI HB HD Hstep. pose proof HI as [[Hmin Hmax] [HS HQ]].
  destruct o as [t v sp fr|t idx gen since|t idx|]; cbn [step] in Hstep.
  - (* intern *)
    destruct (intern_spec _ _ _ _ _ _ _ _ _ HI Hstep) as [Hres _].
    assert (HBq : forall s1, st_cur s1 = st_cur s -> st_queue s1 = record_active c s ->
              TB s1 (mkEntry (st_cur s) (OIntern t v sp fr) out evs :: tr)).
    { intros s1 E1 E2. eapply TB_step; eauto; [lia|]. rewrite E2. intros r Hr.
      apply record_active_In in Hr as [Hr|[-> _]]; auto. }
    inversion Hres; subst; (split; [now apply HBq|]).
    + eapply TD_fast; eauto.
    + eapply TD_cold; eauto.
    + eapply TD_reuse; eauto.
    + eapply TD_frame; eauto using not_interns_bad, not_reval_bad.
  - (* maybe_changed_after *)
    unfold mca in Hstep.
    assert (HBq : forall s1, st_cur s1 = st_cur s -> st_queue s1 = record_active c s ->
              TB s1 (mkEntry (st_cur s) (OMca t idx gen since) out evs :: tr)).
    { intros s1 E1 E2. eapply TB_step; eauto; [lia|]. rewrite E2. intros r Hr.
      apply record_active_In in Hr as [Hr|[-> _]]; auto. }
    destruct (st_slots s idx) as [sl|] eqn:Hsl.
    + destruct (N.ltb_spec gen (s_gen sl)).
      * inversion Hstep; subst; clear Hstep. split; [now apply HBq|].
        eapply TD_frame; eauto.
        -- intros v i g Hi. apply interns_inv in Hi as [? [? [? [? [Eo _]]]]]. discriminate.
        -- intros i g Hi. apply revalidates_inv in Hi as [? [? [_ Eo]]]. discriminate.
      * inversion Hstep; subst; clear Hstep. split; [now apply HBq|].
        eapply TD_mca_unchanged; eauto.
    + inversion Hstep; subst; clear Hstep. split; [now apply HBq|].
      eapply TD_frame; eauto using not_interns_bad, not_reval_bad.
  - (* read *)
    assert (Es : s' = s) by (eapply read_Inv; eauto). subst s'. split.
    + eapply TB_step; eauto; lia.
    + eapply TD_frame; eauto.
      * intros v i g Hi. apply interns_inv in Hi as [? [? [? [? [Eo _]]]]]. discriminate.
      * intros i g Hi. apply revalidates_inv in Hi as [? [? [Eo _]]]. discriminate.
  - (* new revision *)
    unfold new_revision in Hstep. destruct (N.ltb_spec (st_cur s) REV_MAX).
    + inversion Hstep; subst; clear Hstep. split.
      * eapply TB_step; eauto; cbn [st_cur st_queue]; try lia; auto.
      * eapply TD_newrev; eauto.
        -- intros v i g Hi. apply interns_inv in Hi as [? [? [? [? [Eo _]]]]]. discriminate.
        -- intros i g Hi. apply revalidates_inv in Hi as [? [? [Eo _]]]. discriminate.
    + inversion Hstep; subst; clear Hstep. split.
      * eapply TB_step; eauto; lia.
      * eapply TD_frame; eauto using not_interns_bad, not_reval_bad.
Qed.

Lemma exec_rev_all : cfg_ok c -> forall rops s tr,
  exec_rev shard_of c rops = (s, tr) -> Inv s /\ TB s tr /\ TD s tr.
Proof.
  intros Hc. induction rops as [|o rest IH]; intros s tr; cbn [exec_rev].
  - intros H; inversion H; subst. split; [now apply Inv_init|]. split; [apply TB_init|apply TD_init].
  - destruct (exec_rev shard_of c rest) as [s0 tr0].
    destruct (step shard_of c s0 o) as [[s1 out] evs] eqn:Es.
    intros H; inversion H; subst.
    destruct (IH _ _ eq_refl) as [HI [HB HD]].
    split; [eapply step_Inv; eauto|]. eapply TBD_step; eauto.
Qed.

(* a suffix of a trace is the trace of a run *)
Lemma exec_rev_suffix rops : forall s tr pre post,
  exec_rev shard_of c rops = (s, tr) -> tr = pre ++ post ->
  exists rops' s', exec_rev shard_of c rops' = (s', post).
Proof.
  induction rops as [|o rest IH]; intros s tr pre post; cbn [exec_rev].
  - intros H E. injection H as <- <-. destruct pre; [|discriminate]. cbn [app] in E.
    exists [], (init c). cbn [exec_rev]. now rewrite E.
  - destruct (exec_rev shard_of c rest) as [s0 tr0] eqn:E0.
    destruct (step shard_of c s0 o) as [[s1 out] evs] eqn:Es.
    intros H E. injection H as <- <-.
    destruct pre as [|a pre]; cbn [app] in E.
    + exists (o :: rest), s1. cbn [exec_rev]. now rewrite E0, Es, E.
    + injection E as _ E. eapply (IH s0 tr0 pre post); eauto.
Qed.

(* ---------- C08_canonical ---------- *)

Definition canonical_on (tr : list entry) : Prop :=
  forall e1 e2 v1 i1 g1 v2 i2 g2,
    In e1 tr -> In e2 tr -> interns e1 v1 i1 g1 -> interns e2 v2 i2 g2 ->
    ((i1, g1) = (i2, g2) -> v1 = v2) /\
    (e_rev e1 = e_rev e2 -> v1 = v2 -> (i1, g1) = (i2, g2)).

Lemma canonical_new_old s e tr e2 v1 i1 g1 v2 i2 g2 :
  TD s (e :: tr) -> e_rev e = st_cur s ->
  In e2 tr -> interns e v1 i1 g1 -> interns e2 v2 i2 g2 ->
  ((i1, g1) = (i2, g2) -> v1 = v2) /\
  (e_rev e = e_rev e2 -> v1 = v2 -> (i1, g1) = (i2, g2)).
Proof.
  intros HD He Hin H1 H2.
  destruct (t_cur_i _ _ HD e v1 i1 g1 (or_introl eq_refl) He H1)
    as [sl [Hsl [Hg [Hv [_ Hk]]]]].
  split.
  - intros E; inversion E; subst i2 g2.
    destruct (t_den _ _ HD e2 v2 i1 g1 (or_intror Hin) H2) as [sl2 [Hsl2 Hc]].
    rewrite Hsl in Hsl2; inversion Hsl2; subst sl2.
    destruct Hc as [Hlt|[_ Hv2]]; [lia|congruence].
  - intros Er Ev; subst v2.
    destruct (t_cur_i _ _ HD e2 v1 i2 g2 (or_intror Hin)) as [sl2 [Hsl2 [Hg2 [_ [_ Hk2]]]]];
      [congruence|assumption|].
    rewrite Hk in Hk2; inversion Hk2; subst i2.
    rewrite Hsl in Hsl2; inversion Hsl2; subst sl2. congruence.
Qed.

Lemma step_cur_of_interns s o s' out evs v i g :
  step shard_of c s o = (s', out, evs) ->
  interns (mkEntry (st_cur s) o out evs) v i g -> st_cur s' = st_cur s.
Proof.
  intros Hstep Hi. apply interns_inv in Hi as [t [sp [fr [p [-> ->]]]]].
  cbn [step] in Hstep. unfold intern in Hstep.
  destruct (key_find v (st_keys s (shard_of v))).
  - destruct (st_slots s n); inversion Hstep; reflexivity.
  - unfold intern_cold in Hstep.
    destruct (negb (rq_is_primed (record_active c s))).
    + destruct (st_slots s fr); [inversion Hstep; reflexivity|].
      destruct (stamp_vals (st_cur s) sp). inversion Hstep; reflexivity.
    + destruct (find_reusable_slot c (record_active c s) (st_slots s) (st_lru s (shard_of v)))
        as [[l0 lk] [[[i0 og] ng]|]].
      * destruct (stamp_vals (st_cur s) sp).
        destruct (negb (key_has_idx i0 (st_keys s (shard_of v)))); inversion Hstep; reflexivity.
      * destruct (st_slots s fr); [inversion Hstep; reflexivity|].
        destruct (stamp_vals (st_cur s) sp). inversion Hstep; reflexivity.
Qed.

Lemma exec_rev_canonical : cfg_ok c -> forall rops s tr,
  exec_rev shard_of c rops = (s, tr) -> canonical_on tr.
Proof.
  intros Hc. induction rops as [|o rest IH]; intros s tr Hex.
  - cbn in Hex; inversion Hex; subst. intros e1 e2 ? ? ? ? ? ? [].
  - pose proof (exec_rev_all Hc _ _ _ Hex) as [_ [_ HD]].
    cbn [exec_rev] in Hex.
    destruct (exec_rev shard_of c rest) as [s0 tr0] eqn:E0.
    destruct (step shard_of c s0 o) as [[s1 out] evs] eqn:Es.
    inversion Hex; subst; clear Hex.
    specialize (IH _ _ eq_refl).
    intros e1 e2 v1 i1 g1 v2 i2 g2 [<-|Hin1] [<-|Hin2] H1 H2.
    + destruct (interns_fun _ _ _ _ _ _ _ H1 H2) as [-> [-> ->]]. auto.
    + eapply canonical_new_old; eauto. cbn [e_rev]. symmetry.
      eapply step_cur_of_interns; eauto.
    + destruct (canonical_new_old s (mkEntry (st_cur s0) o out evs) tr0 e1 v2 i2 g2 v1 i1 g1)
        as [A B]; auto.
      { cbn [e_rev]. symmetry. eapply step_cur_of_interns; eauto. }
      split; [intros E; symmetry; apply A; congruence|].
      intros Er Ev. symmetry. apply B; congruence.
    + eapply IH; eauto.
Qed.

(* ---------- C08_readback ---------- *)

Definition current_handle (tr : list entry) (cur : rev) (v : val) (idx gen : N) : Prop :=
  exists e, In e tr /\ e_rev e = cur /\
    (interns e v idx gen \/
     (revalidates e idx gen /\ exists e0, In e0 tr /\ interns e0 v idx gen)).

Lemma readback_state s tr v idx gen :
  TD s tr -> current_handle tr (st_cur s) v idx gen ->
  exists sl, st_slots s idx = Some sl /\ s_val sl = v /\ s_gen sl = gen /\
             st_cur s <= s_lia sl.
Proof.
  intros HD [e [Hin [Hr [Hi|[Hm [e0 [Hin0 Hi0]]]]]]].
  - destruct (t_cur_i _ _ HD _ _ _ _ Hin Hr Hi) as [sl [Hsl [Hg [Hv [Hl _]]]]]. eauto 6.
  - destruct (t_cur_m _ _ HD _ _ _ Hin Hr Hm) as [sl [Hsl [Hg Hl]]].
    destruct (t_den _ _ HD _ _ _ _ Hin0 Hi0) as [sl0 [Hsl0 Hc]].
    rewrite Hsl in Hsl0; inversion Hsl0; subst sl0.
    destruct Hc as [Hlt|[Hg0 Hv]]; [lia|]. exists sl. repeat split; auto.
Qed.

(* ---------- C08_kept ---------- *)

Definition prev_act (q : list rev) (cur : rev) : rev :=
  match q with
  | h :: y :: _ => if h =? cur then y else h
  | _ => 0
  end.

(* v is held at handle (i1, g1) and was interned in the previous active revision *)
Definition kept_at (s : st) (v : val) (i1 g1 : N) : Prop :=
  exists sl, st_slots s i1 = Some sl /\ s_gen sl = g1 /\ s_val sl = v /\
    key_find v (st_keys s (shard_of v)) = Some i1 /\
    prev_act (st_queue s) (st_cur s) <= s_lia sl.

Definition covered (seg : list entry) (e1 : entry) (v : val) (bound : rev) : Prop :=
  forall e, In e seg -> is_activity e = true -> e_rev e < bound ->
    exists e' i g, In e' (seg ++ [e1]) /\ interns e' v i g /\ e_rev e' = e_rev e.

Lemma queue_two n (q : list rev) :
  c_revisions c = Some n -> n <> 1 -> cfg_ok c -> length q = N.to_nat n ->
  exists h y t, q = h :: y :: t.
Proof.
  intros Hn Hne Hc Hlen. specialize (Hc n Hn).
  destruct q as [|h [|y t]]; cbn [length] in Hlen; [lia|lia|eauto].
Qed.

Lemma prev_act_le s :
  Inv s -> prev_act (st_queue s) (st_cur s) <= st_cur s.
Proof.
  intros [_ [_ HQ]]. unfold queue_ok in HQ. unfold prev_act.
  destruct (st_queue s) as [|h [|y t]] eqn:Eq; try lia.
  destruct (c_revisions c); [|discriminate].
  destruct HQ as [_ [Hd Hhd]]. specialize (Hhd h (y :: t) eq_refl).
  inversion Hd; subst. destruct (h =? st_cur s); lia.
Qed.

(* recording the current revision does not change the previous active revision *)
Lemma prev_act_record s :
  cfg_ok c -> c_revisions c <> Some 1 -> Inv s ->
  prev_act (record_active c s) (st_cur s) = prev_act (st_queue s) (st_cur s).
Proof.
  intros Hc Hne [_ [_ HQ]]. unfold record_active, immortal, queue_ok in *.
  destruct (c_revisions c) as [n|] eqn:En; [|reflexivity].
  destruct HQ as [Hlen [Hd Hhd]].
  destruct (queue_two n (st_queue s) En) as [h [y [t Eq]]]; auto; [congruence|].
  rewrite Eq in *. rewrite rq_record_unfold. specialize (Hhd h (y :: t) eq_refl).
  destruct (N.leb_spec (st_cur s) h).
  - reflexivity.
  - change (removelast (h :: y :: t)) with (h :: removelast (y :: t)).
    unfold prev_act. rewrite N.eqb_refl.
    destruct (N.eqb_spec h (st_cur s)); [lia|reflexivity].
Qed.

(* a slot stale w.r.t. the recorded queue is older than the previous active revision *)
Lemma stale_lt_prev_act s r :
  cfg_ok c -> c_revisions c <> Some 1 -> Inv s ->
  rq_is_stale (record_active c s) r = true -> r < prev_act (st_queue s) (st_cur s).
Proof.
  intros Hc Hne HI Hst. rewrite <- prev_act_record by assumption.
  destruct HI as [[Hmin _] [_ HQ]].
  pose proof (queue_ok_record c s Hmin HQ) as HQ'. unfold queue_ok in HQ'.
  destruct (c_revisions c) as [n|] eqn:En.
  - destruct HQ' as [Hlen [Hd Hhd]].
    destruct (queue_two n (record_active c s) En) as [h [y [t Eq]]]; auto; [congruence|].
    pose proof (rq_stale_lt_second _ h y t r Hd Eq Hst) as Hlt.
    assert (Hh : h = st_cur s).
    { specialize (Hhd h _ Eq).
      unfold record_active, immortal in Eq. rewrite En in Eq.
      destruct (st_queue s) as [|h0 t0] eqn:Eq0; [rewrite rq_record_unfold in Eq; discriminate|].
      destruct (rq_record_hd_ge (h0 :: t0) (st_cur s)) as [h' [t' [E' Hge]]]; [congruence|].
      rewrite E' in Eq. inversion Eq; subst. lia. }
    rewrite Eq. unfold prev_act. subst h. now rewrite N.eqb_refl.
  - rewrite HQ' in Hst. discriminate.
Qed.

Lemma kept_step s tr o s' out evs v i1 g1 :
  cfg_ok c -> c_revisions c <> Some 1 ->
  Inv s -> TB s tr -> TD s tr ->
  step shard_of c s o = (s', out, evs) ->
  kept_at s v i1 g1 ->
  (* when the revision advances, v was interned in the revision that ends, if active *)
  (st_cur s' <> st_cur s ->
     forall h t, st_queue s = h :: t -> h = st_cur s ->
       exists e i g, In e tr /\ e_rev e = st_cur s /\ interns e v i g) ->
  kept_at s' v i1 g1 /\
  (forall t sp fr, o = OIntern t v sp fr -> exists p, out = RIntern i1 g1 p).
Proof.
  intros Hc Hne HI HB HD Hstep [sl [Hsl [Hg [Hv [Hk Hpa]]]]] Hadv.
  pose proof HI as [[Hmin Hmax] [HS HQ]].
  destruct o as [t v0 sp fr|t idx gen since|t idx|]; cbn [step] in Hstep.
  - destruct (intern_spec _ _ _ _ _ _ _ _ _ HI Hstep) as [Hres _].
    assert (Hq : st_cur s' = st_cur s -> st_queue s' = record_active c s ->
                 prev_act (st_queue s') (st_cur s') = prev_act (st_queue s) (st_cur s)).
    { intros E1 E2. rewrite E1, E2. now apply prev_act_record. }
    inversion Hres as [idx sl0 Hf Hs0 Ecur Eq Ekeys Eslots _
                      |Hf Hfr Ecur Eq Ekeys Eslots _
                      |idx sl0 Hf Hin Hs0 Hlt Hpr Hst Ecur Eq Ekeys Eslots _
                      |Ecur Eq Ekeys Eslots]; subst out.
    + (* fast *)
      split.
      * unfold kept_at. rewrite Hq, Ekeys, Eslots by assumption.
        cupd idx i1; [|exists sl; auto 6].
        rewrite Hsl in Hs0; inversion Hs0; subst sl0.
        eexists; split; [reflexivity|]. cbn [s_gen s_val s_lia].
        destruct (fast_lia_ge s sl). repeat split; auto. lia.
      * intros t1 sp1 fr1 Eo; inversion Eo; subst v0.
        rewrite Hk in Hf; inversion Hf; subst idx.
        rewrite Hsl in Hs0; inversion Hs0; subst sl0. rewrite Hg. eauto.
    + (* cold: another value *)
      assert (Hvv : v0 <> v) by congruence.
      split; [|intros t1 sp1 fr1 Eo; inversion Eo; congruence].
      unfold kept_at. rewrite Hq, Ekeys, Eslots by assumption.
      cupd fr i1; [congruence|]. exists sl. repeat split; auto.
      cupd (shard_of v0) (shard_of v); [|assumption].
      cbn [key_find]. destruct (N.eqb_spec v v0); [congruence|assumption].
    + (* reuse: cannot take v's slot *)
      assert (Hvv : v0 <> v) by congruence.
      split; [|intros t1 sp1 fr1 Eo; inversion Eo; congruence].
      pose proof (stale_lt_prev_act s _ Hc Hne HI Hst) as Hlt2.
      unfold kept_at. rewrite Hq, Ekeys, Eslots by assumption.
      cupd idx i1; [rewrite Hsl in Hs0; inversion Hs0; subst sl0; lia|].
      exists sl. repeat split; auto.
      cupd (shard_of v0) (shard_of v); [|assumption].
      cbn [key_find]. destruct (N.eqb_spec v v0); [congruence|].
      apply key_find_remove_other; [assumption|congruence].
    + (* bad oracle *)
      split.
      * unfold kept_at. rewrite Hq, Ekeys, Eslots by assumption. exists sl. auto 6.
      * intros t1 sp1 fr1 Eo; inversion Eo; subst v0. exfalso.
        (* v is interned, so the fast path is taken: never RBad *)
        clear - Hstep Hk Hsl. unfold intern in Hstep. rewrite Hk, Hsl in Hstep.
        inversion Hstep.
  - (* mca *)
    split; [|intros ? ? ? Eo; discriminate].
    unfold mca in Hstep.
    assert (Hq : prev_act (record_active c s) (st_cur s) = prev_act (st_queue s) (st_cur s))
      by now apply prev_act_record.
    destruct (st_slots s idx) as [sl0|] eqn:Hs0.
    + destruct (gen <? s_gen sl0).
      * inversion Hstep; subst; clear Hstep. unfold kept_at.
        cbn [set_queue st_slots st_keys st_queue st_cur]. rewrite Hq. exists sl. auto 6.
      * inversion Hstep; subst; clear Hstep. unfold kept_at.
        cbn [st_slots st_keys st_queue st_cur]. rewrite Hq.
        cupd idx i1; [|exists sl; auto 6].
        rewrite Hsl in Hs0; inversion Hs0; subst sl0.
        eexists; split; [reflexivity|]. cbn [s_gen s_val s_lia]. repeat split; auto.
        rewrite <- Hq. rewrite Hq. now apply prev_act_le.
    + inversion Hstep; subst; clear Hstep. unfold kept_at.
      cbn [set_queue st_slots st_keys st_queue st_cur]. rewrite Hq. exists sl. auto 6.
  - (* read *)
    assert (Es : s' = s) by (eapply read_Inv; eauto). subst s'.
    split; [exists sl; auto 6|intros ? ? ? Eo; discriminate].
  - (* new revision *)
    split; [|intros ? ? ? Eo; discriminate].
    unfold new_revision in Hstep. destruct (N.ltb_spec (st_cur s) REV_MAX).
    + inversion Hstep; subst; clear Hstep. unfold kept_at.
      cbn [st_slots st_keys st_queue st_cur] in *.
      exists sl. repeat split; auto.
      unfold prev_act in *. destruct (st_queue s) as [|h [|y t]] eqn:Eq; try lia.
      assert (Hh : h <= st_cur s).
      { unfold queue_ok in HQ. destruct (c_revisions c); [|discriminate].
        destruct HQ as [_ [_ Hhd]]. now apply (Hhd h (y :: t)). }
      destruct (N.eqb_spec h (st_cur s + 1)); [lia|].
      destruct (N.eqb_spec h (st_cur s)) as [Eh|Nh]; [|assumption].
      (* the revision that ends was active: v was interned in it *)
      destruct (Hadv ltac:(lia) h (y :: t) eq_refl Eh) as [e [i [g [Hin [Hr Hi]]]]].
      destruct (t_cur_i _ _ HD _ _ _ _ Hin Hr Hi) as [sl1 [Hsl1 [_ [_ [Hl Hk1]]]]].
      rewrite Hk in Hk1; inversion Hk1; subst i.
      rewrite Hsl in Hsl1; inversion Hsl1; subst sl1. lia.
    + inversion Hstep; subst; clear Hstep. exists sl. auto 6.
Qed.

Lemma kept_segment : cfg_ok c -> c_revisions c <> Some 1 ->
  forall rops s tr, exec_rev shard_of c rops = (s, tr) ->
  forall seg e1 old v i1 g1,
    tr = seg ++ e1 :: old -> interns e1 v i1 g1 ->
    covered seg e1 v (st_cur s) ->
    kept_at s v i1 g1 /\
    (forall e i g, In e seg -> interns e v i g -> i = i1 /\ g = g1).
Proof.
  intros Hc Hne. induction rops as [|o rest IH]; intros s tr Hex seg e1 old v i1 g1 Etr Hi1 Hcov.
  - cbn in Hex; inversion Hex; subst. destruct seg; discriminate.
  - pose proof (exec_rev_all Hc _ _ _ Hex) as [HI' [HB' HD']].
    cbn [exec_rev] in Hex.
    destruct (exec_rev shard_of c rest) as [s0 tr0] eqn:E0.
    destruct (step shard_of c s0 o) as [[s1 out] evs] eqn:Es.
    injection Hex as Es1 Htr. subst s1. rewrite <- Htr in *. clear Htr.
    pose proof (exec_rev_all Hc _ _ _ E0) as [HI0 [HB0 HD0]].
    destruct seg as [|e seg0]; cbn [app] in Etr; inversion Etr; subst.
    + (* the segment is empty: e1 is the newest entry *)
      split; [|intros e i g []].
      assert (Ecur : st_cur s = st_cur s0) by (eapply step_cur_of_interns; eauto).
      destruct (t_cur_i _ _ HD' _ v i1 g1 (or_introl eq_refl)) as [sl [Hsl [Hg [Hv [Hl Hk]]]]];
        [cbn [e_rev]; congruence|assumption|].
      exists sl. repeat split; auto.
      pose proof (prev_act_le s HI'). lia.
    + (* e is the newest entry of the segment *)
      assert (Hle : st_cur s0 <= st_cur s).
      { destruct (t_rev _ _ HB' (mkEntry (st_cur s0) o out evs) (or_introl eq_refl)).
        cbn [e_rev] in *. lia. }
      assert (Hcov0 : covered seg0 e1 v (st_cur s0)).
      { intros e' Hin Ha Hlt.
        destruct (Hcov e' (or_intror Hin) Ha ltac:(lia)) as [e'' [i [g [Hin' [Hi' Hr']]]]].
        cbn [app] in Hin'. destruct Hin' as [<-|Hin']; [cbn [e_rev] in Hr'; lia|].
        exists e'', i, g. auto. }
      destruct (IH _ _ eq_refl seg0 e1 old v i1 g1 eq_refl Hi1 Hcov0) as [Hk0 Hall0].
      destruct (kept_step s0 (seg0 ++ e1 :: old) o s out evs v i1 g1 Hc Hne HI0 HB0 HD0 Es Hk0)
        as [Hk1 Hret].
      { intros Hadv h t Eq Eh.
        (* h = st_cur s0 is in the queue: some activity happened in that revision *)
        destruct (t_qact _ _ HB0 h) as [E1|[ea [Hina [Haa Hra]]]]; [rewrite Eq; now left| |].
        - (* st_cur s0 = 1: e1 itself ran in revision 1 *)
          exists e1, i1, g1. split; [apply in_or_app; right; now left|]. split; [|assumption].
          destruct (t_rev _ _ HB0 e1) as [A B]; [apply in_or_app; right; now left|].
          unfold REV_START in *. lia.
        - apply in_app_or in Hina as [Hina|Hina].
          + (* activity inside the segment: covered *)
            destruct (Hcov ea (or_intror Hina) Haa) as [e'' [i [g [Hin' [Hi' Hr']]]]].
            { assert (st_cur s0 < st_cur s) by lia. lia. }
            cbn [app] in Hin'. destruct Hin' as [<-|Hin'].
            * exfalso. apply Hadv. eapply step_cur_of_interns; eauto.
            * exists e'', i, g. split; [|split; [congruence|assumption]].
              apply in_app_or in Hin' as [Hin'|[<-|[]]]; apply in_or_app;
                [now left|right; now left].
          + (* activity at or before e1: then e1 ran in that revision too *)
            exists e1, i1, g1. split; [apply in_or_app; right; now left|]. split; [|assumption].
            destruct (t_rev _ _ HB0 e1) as [A B]; [apply in_or_app; right; now left|].
            destruct Hina as [<-|Hina]; [lia|].
            pose proof (mono_app _ _ _ (t_mono _ _ HB0) ea Hina). lia. }
      split; [assumption|].
      intros e' i g [<-|Hin] Hi'; [|eauto].
      apply interns_inv in Hi' as [t [sp [fr [p [Eo Eout]]]]]. subst o out.
      destruct (Hret _ _ _ eq_refl) as [p' Ep]. inversion Ep; auto.
Qed.

End Trace.

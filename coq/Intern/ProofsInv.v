(* Intern/ProofsInv.v — the state invariant of the interned ingredient and its
   preservation by every operation:
     - per shard the key map is a bijection between the live values and the slots
       of that shard;
     - LRU membership <-> reusable (up to slots leaked at the maximum generation);
     - last_interned_at <= current revision (or Revision::max() for values interned
       outside any query);
     - the revision queue is sorted, free of duplicates above Revision::start(), of
       length REVISIONS, and its newest entry is <= the current revision. *)
From Salsa Require Import Base.
From Salsa.Intern Require Import RetK Model ProofsBase.

Local Open Scope N_scope.

(* case analysis on one `updN _ k _ k'` *)
Ltac cupd k k' :=
  let E := fresh "E" in
  destruct (N.eq_dec k k') as [E|E];
  [ rewrite <- ?E in *; rewrite ?updN_same in *
  | rewrite ?(updN_other _ k k' _ E) in * ].

Section Inv.
Variable shard_of : val -> N.
Variable c : cfg.

(* Configuration::REVISIONS is a NonZeroUsize *)
Definition cfg_ok : Prop := forall n, c_revisions c = Some n -> 1 <= n.

Definition queue_ok (cur : rev) (q : list rev) : Prop :=
  match c_revisions c with
  | None => q = []
  | Some n => length q = N.to_nat n /\ qdesc q /\ (forall h t, q = h :: t -> h <= cur)
  end.

Record SInv (s : st) : Prop := mkSInv {
  si_key_slot : forall sh v idx, In (v, idx) (st_keys s sh) ->
    exists sl, st_slots s idx = Some sl /\ s_val sl = v /\ s_shard sl = sh /\ shard_of v = sh;
  si_slot_key : forall idx sl, st_slots s idx = Some sl ->
    In (s_val sl, idx) (st_keys s (s_shard sl));
  si_nd_v : forall sh, NoDup (map fst (st_keys s sh));
  si_nd_i : forall sh, NoDup (map snd (st_keys s sh));
  si_lru_nd : forall sh, NoDup (st_lru s sh);
  si_lru_slot : forall sh idx, In idx (st_lru s sh) ->
    exists sl, st_slots s idx = Some sl /\ s_shard sl = sh /\
               reusable (immortal c) (s_dur sl) = true;
  si_slot_lru : forall idx sl, st_slots s idx = Some sl ->
    reusable (immortal c) (s_dur sl) = true ->
    In idx (st_lru s (s_shard sl)) \/ s_gen sl = c_gen_max c;
  si_lia : forall idx sl, st_slots s idx = Some sl ->
    1 <= s_lia sl /\ (s_lia sl <= st_cur s \/ s_lia sl = REV_MAX);
  si_gen : forall idx sl, st_slots s idx = Some sl -> s_gen sl <= c_gen_max c
}.

Definition Inv (s : st) : Prop :=
  (1 <= st_cur s /\ st_cur s <= REV_MAX) /\ SInv s /\ queue_ok (st_cur s) (st_queue s).

(* ---------- initial state ---------- *)

Lemma Inv_init : cfg_ok -> Inv (init c).
Proof.
  intros Hc. unfold Inv, init; cbn [st_cur st_queue]. split; [|split].
  - unfold REV_START, REV_MAX. lia.
  - constructor; cbn [st_keys st_slots st_lru]; intros;
      try discriminate; try contradiction; constructor.
  - unfold queue_ok. destruct (c_revisions c) as [n|] eqn:E; [|reflexivity].
    split; [apply rq_new_length|]. split; [apply qdesc_repeat|].
    intros h t Hq. unfold rq_new in Hq.
    destruct (N.to_nat n); cbn [repeat] in Hq; inversion Hq. unfold REV_START. lia.
Qed.

(* ---------- queue ---------- *)

Lemma queue_ok_record s :
  1 <= st_cur s -> queue_ok (st_cur s) (st_queue s) ->
  queue_ok (st_cur s) (record_active c s).
Proof.
  unfold queue_ok, record_active, immortal.
  destruct (c_revisions c) as [n|]; [|auto].
  intros Hcur [Hlen [Hq Hhd]]. split; [|split].
  - now rewrite rq_record_length.
  - now apply rq_record_qdesc.
  - intros h t E. destruct (st_queue s) as [|h0 t0] eqn:Eq.
    + rewrite rq_record_unfold in E. discriminate.
    + destruct (rq_record_hd (h0 :: t0) (st_cur s) h0 t0 eq_refl) as [t' E'].
      rewrite E' in E. inversion E; subst. specialize (Hhd h0 t0 eq_refl). lia.
Qed.

Lemma queue_ok_mono cur cur' q : cur <= cur' -> queue_ok cur q -> queue_ok cur' q.
Proof.
  unfold queue_ok. destruct (c_revisions c); [|auto].
  intros Hle [Hlen [Hq Hhd]]. repeat split; auto.
  intros h t E. specialize (Hhd h t E). lia.
Qed.

(* a stale last_interned_at is strictly below the current revision *)
Lemma stale_lt_cur cur q r :
  queue_ok cur q -> rq_is_stale q r = true -> r < cur.
Proof.
  unfold queue_ok. intros Hq Hs.
  destruct (c_revisions c) as [n|].
  - destruct Hq as [_ [Hd Hhd]].
    destruct q as [|h t]; [discriminate|].
    pose proof (rq_stale_lt_hd _ h t r Hd eq_refl Hs). specialize (Hhd h t eq_refl). lia.
  - subst. discriminate.
Qed.

Lemma stale_not_immortal cur q r :
  queue_ok cur q -> rq_is_stale q r = true -> immortal c = false.
Proof.
  unfold queue_ok, immortal. destruct (c_revisions c); [reflexivity|].
  intros -> H. discriminate.
Qed.

(* ---------- scan of the LRU ---------- *)

Lemma scan_back_spec q slots rl : forall rl' leaked r,
  scan_back c q slots rl = (rl', leaked, r) ->
  rl = leaked ++ rl' /\
  (forall i, In i leaked -> exists sl, slots i = Some sl /\ ~ (s_gen sl < c_gen_max c)) /\
  match r with
  | Some (idx, og, ng) =>
    exists sl rest, rl' = idx :: rest /\ slots idx = Some sl /\ og = s_gen sl /\
      ng = og + 1 /\ og < c_gen_max c /\ rq_is_stale q (s_lia sl) = true
  | None => True
  end.
Proof.
  induction rl as [|idx rest IH]; intros rl' leaked r; cbn [scan_back].
  - intros H; inversion H; subst. cbn. repeat split; intros; try contradiction.
  - destruct (slots idx) as [sl|] eqn:Esl.
    + destruct (rq_is_stale q (s_lia sl)) eqn:Est; cbn [negb].
      * destruct (N.ltb_spec (s_gen sl) (c_gen_max c)) as [Hlt|Hge].
        -- intros H; inversion H; subst. cbn [app]. repeat split; [intros; contradiction|].
           exists sl, rest. repeat split; auto.
        -- destruct (scan_back c q slots rest) as [[rl0 lk0] r0] eqn:Erec.
           intros H; inversion H; subst.
           destruct (IH _ _ _ eq_refl) as [Happ [Hlk Hr]].
           split; [cbn [app]; now f_equal|]. split; [|assumption].
           intros i [<-|Hin]; [exists sl; split; [assumption|lia]|auto].
      * intros H; inversion H; subst. cbn [app]. repeat split; intros; contradiction.
    + intros H; inversion H; subst. cbn [app]. repeat split; intros; contradiction.
Qed.

Lemma find_reusable_spec q slots lru lru0 leaked r :
  find_reusable_slot c q slots lru = (lru0, leaked, r) ->
  lru = lru0 ++ List.rev leaked /\
  (forall i, In i leaked -> exists sl, slots i = Some sl /\ ~ (s_gen sl < c_gen_max c)) /\
  match r with
  | Some (idx, og, ng) =>
    exists sl, In idx lru0 /\ slots idx = Some sl /\ og = s_gen sl /\
      ng = og + 1 /\ og < c_gen_max c /\ rq_is_stale q (s_lia sl) = true
  | None => True
  end.
Proof.
  unfold find_reusable_slot.
  destruct (scan_back c q slots (List.rev lru)) as [[rl lk] r0] eqn:E.
  intros H; inversion H; subst.
  destruct (scan_back_spec _ _ _ _ _ _ E) as [Happ [Hlk Hr]].
  split; [|split; [assumption|]].
  - rewrite <- (rev_involutive lru), Happ, rev_app_distr. reflexivity.
  - destruct r as [[[idx og] ng]|]; [|exact I].
    destruct Hr as [sl [rest [Erl [Hs [Hog [Hng [Hlt Hst]]]]]]].
    exists sl. repeat split; auto. rewrite Erl. rewrite <- in_rev. now left.
Qed.

(* what the invariant needs to know about an LRU list that lost leaked entries *)
Definition lru_shrunk (s : st) (lru lru0 : list N) : Prop :=
  NoDup lru0 /\ (forall i, In i lru0 -> In i lru) /\
  (forall i, In i lru -> ~ In i lru0 ->
     exists sl, st_slots s i = Some sl /\ s_gen sl = c_gen_max c).

Lemma lru_shrunk_refl s lru : NoDup lru -> lru_shrunk s lru lru.
Proof. intros H. split; [assumption|]. split; [auto|]. intros i Hi Hn. contradiction. Qed.

Lemma find_reusable_shrunk s q sh lru0 leaked r :
  SInv s ->
  find_reusable_slot c q (st_slots s) (st_lru s sh) = (lru0, leaked, r) ->
  lru_shrunk s (st_lru s sh) lru0.
Proof.
  intros HS E. destruct (find_reusable_spec _ _ _ _ _ _ E) as [Happ [Hlk _]].
  pose proof (si_lru_nd s HS sh) as Hnd. rewrite Happ in Hnd.
  split; [now apply NoDup_app_l in Hnd|]. split.
  - intros i Hi. rewrite Happ. apply in_or_app. now left.
  - intros i Hi Hn. rewrite Happ in Hi. apply in_app_or in Hi as [Hi|Hi]; [contradiction|].
    apply in_rev in Hi. destruct (Hlk i Hi) as [sl [Hs Hge]].
    exists sl. split; [assumption|]. pose proof (si_gen s HS i sl Hs). lia.
Qed.

(* ---------- the fast path's LRU manipulation ---------- *)

Lemma reusable_max imm d d' :
  reusable imm (N.max d d') = true -> reusable imm d = true.
Proof.
  unfold reusable, D_LOW. destruct imm; [auto|].
  rewrite !N.eqb_eq. lia.
Qed.

Lemma fast_lru_props imm (refresh : bool) (dur : dur) (sp : stamp) (idx : N) (lru : list N) :
  let r0 := reusable imm dur in
  let move := refresh && r0 in
  let lru1 := if move then idx :: lru_remove idx lru else lru in
  let dur1 := match sp with InQuery d => N.max dur d | Outside => dur end in
  let demote := match sp with
                | InQuery _ => r0 && negb (reusable imm dur1)
                | Outside => false
                end in
  let lru2 := if demote then lru_remove idx lru1 else lru1 in
  NoDup lru -> (In idx lru -> r0 = true) ->
  NoDup lru2 /\
  (forall i, i <> idx -> (In i lru2 <-> In i lru)) /\
  (In idx lru2 -> reusable imm dur1 = true) /\
  (reusable imm dur1 = true -> In idx lru -> In idx lru2).
Proof.
  intros r0 move lru1 dur1 demote lru2 Hnd Hin.
  assert (Hr1 : reusable imm dur1 = true -> r0 = true).
  { subst dur1 r0. destruct sp; [auto|apply reusable_max]. }
  assert (Hnd1 : NoDup lru1).
  { subst lru1. destruct move; [now apply lru_push_NoDup|assumption]. }
  assert (H1 : forall i, i <> idx -> (In i lru1 <-> In i lru)).
  { intros i Hi. subst lru1. destruct move; [|tauto].
    cbn [In]. rewrite lru_remove_In. split; [intros [E|[H _]]; [congruence|assumption]|tauto]. }
  assert (H1i : In idx lru1 -> r0 = true).
  { subst lru1 move. destruct refresh, r0; cbn [andb]; auto. }
  assert (H1k : In idx lru -> In idx lru1).
  { subst lru1. destruct move; [now left|auto]. }
  subst lru2. destruct demote eqn:Ed.
  - split; [now apply lru_remove_NoDup|]. split; [|split].
    + intros i Hi. rewrite lru_remove_In. rewrite (H1 i Hi). tauto.
    + rewrite lru_remove_In. tauto.
    + intros Hr. subst demote. destruct sp; [discriminate|].
      rewrite Hr in Ed. rewrite andb_false_r in Ed. discriminate.
  - split; [assumption|]. split; [assumption|]. split; [|auto].
    intros Hi. specialize (H1i Hi). subst demote. destruct sp.
    + subst dur1. exact H1i.
    + rewrite H1i in Ed. cbn [andb] in Ed. now apply negb_false_iff in Ed.
Qed.

(* ---------- preservation, path by path ---------- *)

Lemma SInv_fast s s' v idx sl lia1 dur1 lru2 :
  SInv s ->
  key_find v (st_keys s (shard_of v)) = Some idx ->
  st_slots s idx = Some sl ->
  st_cur s' = st_cur s ->
  st_keys s' = st_keys s ->
  st_slots s' = updN (st_slots s) idx (Some (mkSlot (s_val sl) (s_gen sl) lia1 dur1 (s_shard sl))) ->
  st_lru s' = updN (st_lru s) (shard_of v) lru2 ->
  (1 <= lia1 /\ (lia1 <= st_cur s \/ lia1 = REV_MAX)) ->
  NoDup lru2 ->
  (forall i, i <> idx -> (In i lru2 <-> In i (st_lru s (shard_of v)))) ->
  (In idx lru2 -> reusable (immortal c) dur1 = true) ->
  (reusable (immortal c) dur1 = true -> reusable (immortal c) (s_dur sl) = true) ->
  (reusable (immortal c) dur1 = true -> In idx (st_lru s (shard_of v)) -> In idx lru2) ->
  SInv s'.
Proof.
  intros HS Hf Hsl Ecur Ekeys Eslots Elru Hlia Hnd Hoth Hin Hr10 Hkeep.
  pose proof (key_find_In _ _ _ Hf) as Hk.
  destruct (si_key_slot s HS _ _ _ Hk) as [sl0 [Hsl0 [Hv [Hsh _]]]].
  rewrite Hsl in Hsl0; inversion Hsl0; subst sl0; clear Hsl0.
  constructor; rewrite ?Ecur, ?Ekeys, ?Eslots, ?Elru.
  - intros sh v0 i0 Hi0. destruct (si_key_slot s HS _ _ _ Hi0) as [sl0 [Hs0 [Hv0 [Hsh0 Hso]]]].
    updN_cases.
    + subst i0. rewrite Hsl in Hs0; inversion Hs0; subst sl0.
      eexists; split; [reflexivity|]. cbn [s_val s_shard]. auto.
    + eauto.
  - intros i0 sl0 Hs0. updN_cases.
    + inversion Hs0; subst. cbn [s_val s_shard]. now apply (si_slot_key s HS).
    + now apply (si_slot_key s HS).
  - apply (si_nd_v s HS).
  - apply (si_nd_i s HS).
  - intros sh. updN_cases; [assumption|apply (si_lru_nd s HS)].
  - intros sh i0 Hi0.
    destruct (N.eq_dec (shard_of v) sh) as [Esh|Nsh].
    + subst sh. rewrite updN_same in Hi0.
      destruct (N.eq_dec idx i0) as [Ei|Ni].
      * subst i0. rewrite updN_same. eexists; split; [reflexivity|]. cbn [s_shard s_dur]. auto.
      * rewrite updN_other by assumption. apply Hoth in Hi0; [|congruence].
        now apply (si_lru_slot s HS).
    + rewrite updN_other in Hi0 by assumption.
      destruct (si_lru_slot s HS _ _ Hi0) as [sl0 [Hs0 [Hsh0 Hr0]]].
      destruct (N.eq_dec idx i0) as [Ei|Ni].
      * subst i0. rewrite Hsl in Hs0; inversion Hs0; subst sl0. congruence.
      * rewrite updN_other by assumption. eauto.
  - intros i0 sl0 Hs0 Hr.
    destruct (N.eq_dec idx i0) as [Ei|Ni].
    + subst i0. rewrite updN_same in Hs0. inversion Hs0; subst sl0.
      cbn [s_shard s_dur s_gen] in *. rewrite Hsh, updN_same.
      destruct (si_slot_lru s HS _ _ Hsl (Hr10 Hr)) as [Hi|Hg]; [|now right].
      left. apply Hkeep; [assumption|]. now rewrite <- Hsh.
    + rewrite updN_other in Hs0 by assumption.
      destruct (si_slot_lru s HS _ _ Hs0 Hr) as [Hi|Hg]; [|now right]. left.
      destruct (N.eq_dec (shard_of v) (s_shard sl0)) as [Esh|Nsh].
      * rewrite <- Esh, updN_same. apply Hoth; [congruence|]. now rewrite Esh.
      * now rewrite updN_other by assumption.
  - intros i0 sl0 Hs0. updN_cases.
    + inversion Hs0; subst. cbn [s_lia]. assumption.
    + now apply (si_lia s HS i0).
  - intros i0 sl0 Hs0. updN_cases.
    + inversion Hs0; subst. cbn [s_gen]. now apply (si_gen s HS _ _ Hsl).
    + now apply (si_gen s HS i0).
Qed.

Lemma SInv_lru_only s s' sh lru0 :
  SInv s ->
  st_cur s' = st_cur s -> st_keys s' = st_keys s -> st_slots s' = st_slots s ->
  st_lru s' = updN (st_lru s) sh lru0 ->
  lru_shrunk s (st_lru s sh) lru0 ->
  SInv s'.
Proof.
  intros HS Ecur Ekeys Eslots Elru [Hnd [Hsub Hleak]].
  constructor; rewrite ?Ecur, ?Ekeys, ?Eslots, ?Elru; try apply HS.
  - intros sh0. updN_cases; [assumption|apply HS].
  - intros sh0 i0 Hi0. updN_cases; [subst; apply HS; auto|now apply HS].
  - intros i0 sl0 Hs0 Hr. destruct (si_slot_lru s HS _ _ Hs0 Hr) as [Hi|Hg]; [|now right].
    updN_cases; [|now left]. subst sh.
    destruct (in_dec N.eq_dec i0 lru0) as [Hin|Hnin]; [now left|].
    destruct (Hleak i0 Hi Hnin) as [sl1 [Hs1 Hg1]]. right. congruence.
Qed.

Lemma SInv_cold s s' v sp fr lru0 :
  SInv s -> 1 <= st_cur s ->
  key_find v (st_keys s (shard_of v)) = None ->
  st_slots s fr = None ->
  lru_shrunk s (st_lru s (shard_of v)) lru0 ->
  st_cur s' = st_cur s ->
  let d := fst (stamp_vals (st_cur s) sp) in
  let lia := snd (stamp_vals (st_cur s) sp) in
  st_slots s' = updN (st_slots s) fr (Some (mkSlot v 0 lia d (shard_of v))) ->
  st_keys s' = updN (st_keys s) (shard_of v) ((v, fr) :: st_keys s (shard_of v)) ->
  st_lru s' = updN (st_lru s) (shard_of v)
                (if reusable (immortal c) d then fr :: lru0 else lru0) ->
  SInv s'.
Proof.
  intros HS Hcur Hf Hfreshesh [Hnd [Hsub Hleak]] Ecur d lia Eslots Ekeys Elru.
  assert (Hlia : 1 <= lia /\ (lia <= st_cur s \/ lia = REV_MAX)).
  { subst lia. destruct sp; cbn [stamp_vals snd]; [unfold REV_MAX; lia|lia]. }
  assert (Hfk : forall sh v0, ~ In (v0, fr) (st_keys s sh)).
  { intros sh v0 Hin. destruct (si_key_slot s HS _ _ _ Hin) as [sl0 [Hs0 _]]. congruence. }
  assert (Hfl : forall sh, ~ In fr (st_lru s sh)).
  { intros sh Hin. destruct (si_lru_slot s HS _ _ Hin) as [sl0 [Hs0 _]]. congruence. }
  constructor; rewrite ?Ecur, ?Ekeys, ?Eslots, ?Elru.
  - intros sh v0 i0 Hi0. cupd (shard_of v) sh.
    + destruct Hi0 as [E0|Hi0].
      * inversion E0; subst v0 i0. rewrite updN_same.
        eexists; split; [reflexivity|]. cbn [s_val s_shard]. auto.
      * cupd fr i0; [exfalso; eapply Hfk; eauto|]. now apply (si_key_slot s HS).
    + cupd fr i0; [exfalso; eapply Hfk; eauto|]. now apply (si_key_slot s HS).
  - intros i0 sl0 Hs0. cupd fr i0.
    + inversion Hs0; subst sl0. cbn [s_val s_shard]. rewrite updN_same. now left.
    + pose proof (si_slot_key s HS _ _ Hs0) as Hk.
      cupd (shard_of v) (s_shard sl0); [now right|assumption].
  - intros sh. cupd (shard_of v) sh; [|apply HS]. cbn [map fst]. constructor; [|apply HS].
    intros Hin. apply in_map_iff in Hin as [[v0 i0] [Ev Hin]]. cbn [fst] in Ev; subst v0.
    eapply key_find_None; eauto.
  - intros sh. cupd (shard_of v) sh; [|apply HS]. cbn [map snd]. constructor; [|apply HS].
    intros Hin. apply in_map_iff in Hin as [[v0 i0] [Ev Hin]]. cbn [snd] in Ev; subst i0.
    eapply Hfk; eauto.
  - intros sh. cupd (shard_of v) sh; [|apply HS].
    destruct (reusable (immortal c) d); [|assumption].
    constructor; [|assumption]. intros Hin. eapply Hfl; eauto.
  - intros sh i0 Hi0. cupd (shard_of v) sh.
    + destruct (reusable (immortal c) d) eqn:Er.
      * destruct Hi0 as [E0|Hi0].
        -- subst i0. rewrite updN_same. eexists; split; [reflexivity|].
           cbn [s_shard s_dur]. auto.
        -- cupd fr i0; [exfalso; eapply Hfl; eauto|]. now apply (si_lru_slot s HS), Hsub.
      * cupd fr i0; [exfalso; eapply Hfl; eauto|]. now apply (si_lru_slot s HS), Hsub.
    + cupd fr i0; [exfalso; eapply Hfl; eauto|]. now apply (si_lru_slot s HS).
  - intros i0 sl0 Hs0 Hr. cupd fr i0.
    + inversion Hs0; subst sl0. cbn [s_shard s_dur s_gen] in *. rewrite updN_same.
      rewrite Hr. left. now left.
    + destruct (si_slot_lru s HS _ _ Hs0 Hr) as [Hi|Hg]; [|now right].
      cupd (shard_of v) (s_shard sl0); [|now left].
      destruct (in_dec N.eq_dec i0 lru0) as [Hin|Hnin].
      * left. destruct (reusable (immortal c) d); [now right|assumption].
      * right. destruct (Hleak i0 Hi Hnin) as [sl1 [Hs1 Hg1]]. congruence.
  - intros i0 sl0 Hs0. cupd fr i0.
    + inversion Hs0; subst sl0. cbn [s_lia]. assumption.
    + now apply (si_lia s HS i0).
  - intros i0 sl0 Hs0. cupd fr i0.
    + inversion Hs0; subst sl0. cbn [s_gen]. lia.
    + now apply (si_gen s HS i0).
Qed.

Lemma SInv_reuse s s' v sp idx sl lru0 :
  SInv s -> 1 <= st_cur s ->
  key_find v (st_keys s (shard_of v)) = None ->
  lru_shrunk s (st_lru s (shard_of v)) lru0 ->
  In idx lru0 ->
  st_slots s idx = Some sl ->
  s_gen sl < c_gen_max c ->
  st_cur s' = st_cur s ->
  let d := fst (stamp_vals (st_cur s) sp) in
  let lia := snd (stamp_vals (st_cur s) sp) in
  let lru1 := lru_remove idx lru0 in
  st_slots s' = updN (st_slots s) idx (Some (mkSlot v (s_gen sl + 1) lia d (shard_of v))) ->
  st_keys s' = updN (st_keys s) (shard_of v)
                 ((v, idx) :: key_remove_idx idx (st_keys s (shard_of v))) ->
  st_lru s' = updN (st_lru s) (shard_of v)
                (if reusable (immortal c) d then idx :: lru1 else lru1) ->
  SInv s'.
Proof.
  intros HS Hcur Hf [Hnd [Hsub Hleak]] Hidx Hsl Hgen Ecur d lia lru1 Eslots Ekeys Elru.
  assert (Hlia : 1 <= lia /\ (lia <= st_cur s \/ lia = REV_MAX)).
  { subst lia. destruct sp; cbn [stamp_vals snd]; [unfold REV_MAX; lia|lia]. }
  destruct (si_lru_slot s HS _ _ (Hsub _ Hidx)) as [sl0 [Hs0 [Hsh0 Hr0]]].
  rewrite Hsl in Hs0; inversion Hs0; subst sl0; clear Hs0.
  constructor; rewrite ?Ecur, ?Ekeys, ?Eslots, ?Elru.
  - intros sh v0 i0 Hi0. cupd (shard_of v) sh.
    + destruct Hi0 as [E0|Hi0].
      * inversion E0; subst v0 i0. rewrite updN_same.
        eexists; split; [reflexivity|]. cbn [s_val s_shard]. auto.
      * apply key_remove_idx_In in Hi0 as [Hi0 Hne].
        rewrite updN_other by congruence. now apply (si_key_slot s HS).
    + cupd idx i0; [|now apply (si_key_slot s HS)].
      destruct (si_key_slot s HS _ _ _ Hi0) as [sl1 [Hs1 [_ [Hsh1 _]]]].
      rewrite Hsl in Hs1; inversion Hs1; subst sl1. congruence.
  - intros i0 sl0 Hs0. cupd idx i0.
    + inversion Hs0; subst sl0. cbn [s_val s_shard]. rewrite updN_same. now left.
    + pose proof (si_slot_key s HS _ _ Hs0) as Hk.
      cupd (shard_of v) (s_shard sl0); [|assumption].
      right. apply key_remove_idx_In. split; [assumption|congruence].
  - intros sh. cupd (shard_of v) sh; [|apply HS]. cbn [map fst]. constructor.
    + intros Hin. apply in_map_iff in Hin as [[v0 i0] [Ev Hin]]. cbn [fst] in Ev; subst v0.
      apply key_remove_idx_In in Hin as [Hin _]. eapply key_find_None; eauto.
    + apply NoDup_map_filter. apply HS.
  - intros sh. cupd (shard_of v) sh; [|apply HS]. cbn [map snd]. constructor.
    + intros Hin. apply in_map_iff in Hin as [[v0 i0] [Ev Hin]]. cbn [snd] in Ev; subst i0.
      apply key_remove_idx_In in Hin. tauto.
    + apply NoDup_map_filter. apply HS.
  - intros sh. cupd (shard_of v) sh; [|apply HS].
    destruct (reusable (immortal c) d);
      [apply lru_push_NoDup|apply lru_remove_NoDup]; assumption.
  - intros sh i0 Hi0. cupd (shard_of v) sh.
    + assert (Hcase : i0 = idx /\ reusable (immortal c) d = true \/ (In i0 lru0 /\ i0 <> idx)).
      { destruct (reusable (immortal c) d).
        - destruct Hi0 as [E0|Hi0]; [left; auto|right; now apply lru_remove_In in Hi0].
        - right. now apply lru_remove_In in Hi0. }
      destruct Hcase as [[-> Hr]|[Hi1 Hne]].
      * rewrite updN_same. eexists; split; [reflexivity|]. cbn [s_shard s_dur]. auto.
      * rewrite updN_other by congruence. now apply (si_lru_slot s HS), Hsub.
    + cupd idx i0; [|now apply (si_lru_slot s HS)].
      destruct (si_lru_slot s HS _ _ Hi0) as [sl1 [Hs1 [Hsh1 _]]].
      rewrite Hsl in Hs1; inversion Hs1; subst sl1. congruence.
  - intros i0 sl0 Hs0 Hr. cupd idx i0.
    + inversion Hs0; subst sl0. cbn [s_shard s_dur s_gen] in *. rewrite updN_same.
      rewrite Hr. left. now left.
    + destruct (si_slot_lru s HS _ _ Hs0 Hr) as [Hi|Hg]; [|now right].
      cupd (shard_of v) (s_shard sl0); [|now left].
      destruct (in_dec N.eq_dec i0 lru0) as [Hin|Hnin].
      * left. assert (In i0 lru1) by (apply lru_remove_In; split; [assumption|congruence]).
        destruct (reusable (immortal c) d); [now right|assumption].
      * right. destruct (Hleak i0 Hi Hnin) as [sl1 [Hs1 Hg1]]. congruence.
  - intros i0 sl0 Hs0. cupd idx i0.
    + inversion Hs0; subst sl0. cbn [s_lia]. assumption.
    + now apply (si_lia s HS i0).
  - intros i0 sl0 Hs0. cupd idx i0.
    + inversion Hs0; subst sl0. cbn [s_gen]. lia.
    + now apply (si_gen s HS i0).
Qed.

Lemma SInv_mca s s' idx sl :
  SInv s -> 1 <= st_cur s ->
  st_slots s idx = Some sl ->
  st_cur s' = st_cur s -> st_keys s' = st_keys s -> st_lru s' = st_lru s ->
  st_slots s' = updN (st_slots s) idx
                  (Some (mkSlot (s_val sl) (s_gen sl) (st_cur s) (s_dur sl) (s_shard sl))) ->
  SInv s'.
Proof.
  intros HS Hcur Hsl Ecur Ekeys Elru Eslots.
  constructor; rewrite ?Ecur, ?Ekeys, ?Eslots, ?Elru.
  - intros sh v0 i0 Hi0. destruct (si_key_slot s HS _ _ _ Hi0) as [sl0 [Hs0 [Hv0 [Hsh0 Hso]]]].
    updN_cases.
    + subst i0. rewrite Hsl in Hs0; inversion Hs0; subst sl0.
      eexists; split; [reflexivity|]. cbn [s_val s_shard]. auto.
    + eauto.
  - intros i0 sl0 Hs0. updN_cases.
    + inversion Hs0; subst. cbn [s_val s_shard]. now apply (si_slot_key s HS).
    + now apply (si_slot_key s HS).
  - apply HS.
  - apply HS.
  - apply HS.
  - intros sh i0 Hi0. destruct (si_lru_slot s HS _ _ Hi0) as [sl0 [Hs0 [Hsh0 Hr0]]].
    updN_cases.
    + subst i0. rewrite Hsl in Hs0; inversion Hs0; subst sl0.
      eexists; split; [reflexivity|]. cbn [s_shard s_dur]. auto.
    + eauto.
  - intros i0 sl0 Hs0 Hr. updN_cases.
    + inversion Hs0; subst. cbn [s_shard s_dur s_gen] in *. now apply (si_slot_lru s HS).
    + now apply (si_slot_lru s HS).
  - intros i0 sl0 Hs0. updN_cases.
    + inversion Hs0; subst. cbn [s_lia]. lia.
    + now apply (si_lia s HS i0).
  - intros i0 sl0 Hs0. updN_cases.
    + inversion Hs0; subst. cbn [s_gen]. now apply (si_gen s HS _ _ Hsl).
    + now apply (si_gen s HS i0).
Qed.

Lemma SInv_same s s' :
  SInv s -> st_cur s <= st_cur s' -> st_keys s' = st_keys s -> st_lru s' = st_lru s ->
  st_slots s' = st_slots s -> SInv s'.
Proof.
  intros HS Hcur Ekeys Elru Eslots.
  constructor; rewrite ?Ekeys, ?Eslots, ?Elru; try apply HS.
  intros i0 sl0 Hs0. destruct (si_lia s HS _ _ Hs0) as [H1 H2]. split; [assumption|].
  destruct H2; [left; lia|now right].
Qed.

End Inv.

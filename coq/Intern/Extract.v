(* Intern/Extract.v — extraction of the executable Intern model to OCaml
   (ExtrOcamlBasic only; N, positive, nat, lists stay the extracted datatypes).
   The output path is relative to the directory coqc runs in: /verif/coq for the main
   build (file lands in /verif/ocaml/intern/), the scratch copy for ocaml/intern/build.sh. *)
From Coq Require Import ExtrOcamlBasic.
From Salsa Require Import Base.
From Salsa.Intern Require Import RetK Model.

Extraction Language OCaml.
Extraction "../ocaml/intern/intern_model.ml"
  REV_MAX GEN_MAX_U32 rust_cfg mkCfg init step exec_rev run intern_cut
  st_cur st_slots st_keys st_lru st_queue st_ub
  key_find acts touches dur_hist.

(* Intern/RetK.v — the small integer predicates of the interned-value retention
   logic, hand-mirrored from /repo/src/interned.rs so that Intern/Model.v can be
   re-pointed at the translator-generated kernels (k_rq_* / k_reusable in
   coq/gen/Kernels.v) by changing only this file.  Definitions only.

     is_reusable::<C>(durability)             -> reusable
     RevisionQueue::new / record / record_cold -> rq_new / rq_record / rq_record_cold
     RevisionQueue::is_stale / is_primed       -> rq_is_stale / rq_is_primed
     Revision::max(), u32::MAX (generation)    -> REV_MAX, GEN_MAX_U32
     Durability::MAX                           -> DUR_MAX

   The queue is the array `revisions` (index 0 = most recent), a list of length
   REVISIONS; it is the empty list when REVISIONS == IMMORTAL (usize::MAX). *)
From Salsa Require Import Base.

(* Revision::max() = usize::MAX on the 64-bit target *)
Definition REV_MAX : rev := 18446744073709551615.
(* Id::next_generation fails exactly at u32::MAX *)
Definition GEN_MAX_U32 : N := 4294967295.
(* Durability::MAX = NEVER_CHANGE *)
Definition DUR_MAX : dur := D_NEVER.

(* fn is_reusable<C>(durability) -> bool {
     if C::REVISIONS == IMMORTAL { return false; }
     durability == Durability::LOW } *)
Definition reusable (immortal : bool) (d : dur) : bool :=
  if immortal then false else d =? D_LOW.

(* self.revisions.last() *)
Fixpoint rq_last (q : list rev) : option rev :=
  match q with
  | [] => None
  | [x] => Some x
  | _ :: q' => rq_last q'
  end.

(* RevisionQueue::new(capacity): `capacity` copies of Revision::start() *)
Definition rq_new (n : N) : list rev := repeat REV_START (N.to_nat n).

(* fn record_cold(&self, revision) {
     if self.revisions[0].load() >= revision { return; }
     for i in (1..len).rev() { revisions[i] = revisions[i-1] }
     revisions[0] = revision } *)
Definition rq_record_cold (q : list rev) (r : rev) : list rev :=
  match q with
  | [] => q
  | h :: _ => if r <=? h then q else r :: removelast q
  end.

(* fn record(&self, revision) {
     if self.revisions[0].load() >= revision { return; }
     self.record_cold(revision) } *)
Definition rq_record (q : list rev) (r : rev) : list rev :=
  match q with
  | [] => q
  | h :: _ => if r <=? h then q else rq_record_cold q r
  end.

(* fn is_stale(&self, revision) -> bool {
     let Some(oldest) = self.revisions.last() else { return false };
     if oldest == Revision::start() { return false; }
     revision < oldest } *)
Definition rq_is_stale (q : list rev) (r : rev) : bool :=
  match rq_last q with
  | None => false
  | Some oldest => if oldest =? REV_START then false else r <? oldest
  end.

(* fn is_primed(&self) -> bool {
     self.revisions.last().is_some_and(|oldest| oldest > Revision::start()) } *)
Definition rq_is_primed (q : list rev) : bool :=
  match rq_last q with
  | None => false
  | Some oldest => REV_START <? oldest
  end.

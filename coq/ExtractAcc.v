(* ExtractAcc.v — extraction of the Acc model for the correspondence driver (ExtrOcamlBasic only). *)
From Coq Require Import Extraction ExtrOcamlBasic.
From Salsa Require Import Base.
From Salsa.Kern Require Import CoreK.
From Salsa.Acc Require Import Model Spec Dsl.
Extraction Language OCaml.
Separate Extraction
  Model.step Model.run_ops Model.init Model.level Model.fetch Model.has_acc
  Spec.eval Spec.evalo Spec.spec_acco Spec.snap_of Dsl.prog_of Dsl.binop_eval Base.panic_code
  Model.lru_set_capacity N.of_nat N.to_nat Nat.add.

(* Proto/ProofsList.v — SmallVec / SmallSet helpers of Proto/Model.v *)
From Coq Require Import Permutation.
From Salsa Require Import Base.
From Salsa.Proto Require Import Model.

Lemma mem_In x l : mem x l = true <-> In x l.
Proof.
  induction l as [|y l IH]; cbn [mem In]; [split; [discriminate | tauto]|].
  rewrite orb_true_iff, IH, N.eqb_eq. split; intros [H|H]; auto.
Qed.

Lemma mem_false x l : mem x l = false <-> ~ In x l.
Proof. rewrite <- mem_In. destruct (mem x l); split; congruence. Qed.

Lemma position_nth x l i : position x l = Some i -> nth_error l i = Some x.
Proof.
  revert i; induction l as [|y l IH]; intros i; cbn [position]; [discriminate|].
  destruct (N.eqb_spec x y) as [->|Hne].
  - intros [= <-]. reflexivity.
  - destruct (position x l) as [j|]; cbn [option_map]; [|discriminate].
    intros [= <-]. cbn [nth_error]. now apply IH.
Qed.

Lemma position_none x l : position x l = None -> ~ In x l.
Proof.
  induction l as [|y l IH]; cbn [position In]; [tauto|].
  destruct (N.eqb_spec x y) as [->|Hne]; [discriminate|].
  destruct (position x l); cbn [option_map]; [discriminate|].
  intros _ [H|H]; [congruence | now apply IH].
Qed.

Lemma last_removelast_perm (l : list N) d :
  l <> [] -> Permutation l (last l d :: removelast l).
Proof.
  intros Hne. rewrite (app_removelast_last d Hne) at 1.
  symmetry. apply Permutation_cons_append.
Qed.

Lemma swap_remove_at_perm l i d :
  nth_error l i = Some d -> Permutation l (d :: swap_remove_at i l).
Proof.
  revert i; induction l as [|x tl IH]; intros i; [destruct i; discriminate|].
  destruct i as [|i]; cbn [nth_error swap_remove_at].
  - intros [= ->]. destruct tl as [|y tl']; [reflexivity|].
    constructor. apply last_removelast_perm. discriminate.
  - intros H. specialize (IH _ H).
    rewrite perm_swap. now constructor.
Qed.

Lemma swap_remove_at_oob l i : nth_error l i = None -> swap_remove_at i l = l.
Proof.
  revert i; induction l as [|x tl IH]; intros i; [destruct i; reflexivity|].
  destruct i as [|i]; cbn [nth_error swap_remove_at]; [discriminate|].
  intros H; now rewrite IH.
Qed.

Lemma set_remove_perm x l : In x l -> Permutation l (x :: set_remove x l).
Proof.
  intros Hin. unfold set_remove. destruct (position x l) as [i|] eqn:P.
  - apply swap_remove_at_perm. now apply position_nth.
  - exfalso. eapply position_none; eauto.
Qed.

Lemma set_remove_notin x l : ~ In x l -> set_remove x l = l.
Proof.
  intros Hn. unfold set_remove. destruct (position x l) as [i|] eqn:P; auto.
  exfalso. apply Hn. apply position_nth in P. eapply nth_error_In; eauto.
Qed.

Lemma set_remove_In x l y : NoDup l -> In y (set_remove x l) <-> In y l /\ y <> x.
Proof.
  intros ND. destruct (in_dec N.eq_dec x l) as [Hin|Hn].
  - pose proof (set_remove_perm x l Hin) as P.
    assert (ND' : NoDup (x :: set_remove x l)) by (eapply Permutation_NoDup; eauto).
    inversion ND' as [|? ? Hx ND'']; subst. split.
    + intros Hy. split.
      * eapply Permutation_in; [symmetry; exact P|]. now right.
      * intros ->. contradiction.
    + intros [Hy Hne]. eapply Permutation_in in Hy; [|exact P].
      destruct Hy; congruence.
  - rewrite set_remove_notin by auto. split; [|tauto].
    intros Hy; split; auto. intros ->; contradiction.
Qed.

Lemma set_remove_NoDup x l : NoDup l -> NoDup (set_remove x l).
Proof.
  intros ND. destruct (in_dec N.eq_dec x l) as [Hin|Hn].
  - pose proof (set_remove_perm x l Hin) as P.
    assert (ND' : NoDup (x :: set_remove x l)) by (eapply Permutation_NoDup; eauto).
    now inversion ND'.
  - now rewrite set_remove_notin.
Qed.

Lemma swap_remove_at_In l i d y :
  NoDup l -> nth_error l i = Some d -> In y (swap_remove_at i l) <-> In y l /\ y <> d.
Proof.
  intros ND Hn. pose proof (swap_remove_at_perm l i d Hn) as P.
  assert (ND' : NoDup (d :: swap_remove_at i l)) by (eapply Permutation_NoDup; eauto).
  inversion ND' as [|? ? Hx ND'']; subst. split.
  - intros Hy. split.
    + eapply Permutation_in; [symmetry; exact P|]. now right.
    + intros ->. contradiction.
  - intros [Hy Hne]. eapply Permutation_in in Hy; [|exact P]. destruct Hy; congruence.
Qed.

Lemma swap_remove_at_NoDup l i : NoDup l -> NoDup (swap_remove_at i l).
Proof.
  intros ND. destruct (nth_error l i) as [d|] eqn:Hn.
  - pose proof (swap_remove_at_perm l i d Hn) as P.
    assert (ND' : NoDup (d :: swap_remove_at i l)) by (eapply Permutation_NoDup; eauto).
    now inversion ND'.
  - now rewrite swap_remove_at_oob.
Qed.

Lemma NoDup_snoc (l : list N) x : NoDup l -> ~ In x l -> NoDup (l ++ [x]).
Proof.
  intros ND Hn. eapply Permutation_NoDup; [apply Permutation_cons_append|].
  now constructor.
Qed.

Lemma In_snoc (l : list N) x y : In y (l ++ [x]) <-> In y l \/ y = x.
Proof. rewrite in_app_iff. cbn. intuition. Qed.

(* the result monad *)
Lemma bind_ok {A B} (m : R A) (f : A -> R B) b :
  bind m f = ROk b -> exists a, m = ROk a /\ f a = ROk b.
Proof. destruct m; cbn; [eauto | discriminate]. Qed.

Lemma foldM_inv {A S} (P : S -> Prop) (f : S -> A -> R S) l :
  (forall s a s', In a l -> P s -> f s a = ROk s' -> P s') ->
  forall s s', P s -> foldM f l s = ROk s' -> P s'.
Proof.
  induction l as [|a l IH]; intros Hf s s' Hs; cbn [foldM].
  - now intros [= <-].
  - intros H. apply bind_ok in H as (s1 & H1 & H2).
    eapply IH; [| |exact H2].
    + intros; eapply Hf; eauto. now right.
    + eapply Hf; eauto. now left.
Qed.

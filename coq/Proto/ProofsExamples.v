(* Proto/ProofsExamples.v — concrete traces showing that the hypotheses of the C19 theorems are
   satisfiable on non-trivial runs: a cross-thread cycle that is reported, an ownership
   transfer with hand-over wake-up and self-block, a reclaim (claimed_twice), a panicking
   release, and a transfer through the re-rooting branch. *)
From Salsa Require Import Base.
From Salsa.Proto Require Import Model ProofsGraph ProofsList ProofsInv ProofsTransfer ProofsWake
  ProofsStep.

(* threads 1, 2; queries a = 10 (claimed by thread 1), b = 20 (claimed by thread 2).
   a calls b, b calls a: cycle_a_t1_b_t2-style. *)
Definition ex_cycle : list op :=
  [ OClaim 1 10 true;               (* t1 claims a *)
    OClaim 2 20 true;               (* t2 claims b *)
    OClaim 1 20 true;               (* t1 wants b: Running(t2) *)
    OBlockOn 1 20 2;                (* t1 blocks on b@t2 *)
    OClaim 2 10 true;               (* t2 wants a: would close t2 -> t1 -> t2: Cycle *)
    OMarkTarget 2 10;               (* b is a participant of outer cycle a: transfer b -> a *)
    OTransfer 2 20 10 (OThread 1);  (* wakes t1 (Completed, hand-over), t2 blocks on a@t1 *)
    OReceive 1;                     (* t1 resumes: Completed *)
    OClaim 1 20 true;               (* t1 re-claims b, which it now owns: claimed_twice *)
    OReleaseSelf 1 20;              (* SelfOnly release: b stays Transferred *)
    ORemove 1 10;                   (* t1 panics inside a: release_panicking *)
    OUnblock 1 10 Panicked;         (* wakes t2 with Panicked *)
    OUnblockTransferred 1 10 Panicked;  (* a was a transfer target: releases b *)
    OReceive 2 ].                   (* t2 resumes: Panicked *)

Example ex_cycle_outcomes :
  option_map snd
    (match run_out 20 ex_cycle init with ROk r => Some r | RErr _ => None end) =
  Some [ XClaim (CClaimed MDefault);
         XClaim (CClaimed MDefault);
         XClaim (CRunning 2);
         XBlock BBlocked;
         XClaim (CCycle false);
         XMarked (Some (OThread 1));
         XTransfer true;
         XReceive (Some Completed);
         XClaim (CClaimed MSelfOnly);
         XSelfKept;
         XRemoved (mkSync (OThread 1) true true false);
         XUnit;
         XUnit;
         XReceive (Some Panicked) ].
Proof. vm_compute. reflexivity. Qed.

Example ex_cycle_valid : valid_client 20 ex_cycle.
Proof. apply validb_valid. vm_compute. reflexivity. Qed.

(* the release script computed by the model for the removed state is what the trace contains *)
Example ex_cycle_script :
  release_script 1 10 (mkSync (OThread 1) true true false) Panicked =
  [OUnblock 1 10 Panicked; OUnblockTransferred 1 10 Panicked].
Proof. reflexivity. Qed.

(* everybody is running again at the end and nothing is left in the graph *)
Example ex_cycle_final :
  match run 20 ex_cycle init with
  | ROk s => (edges (dg s) 1, edges (dg s) 2, wres (dg s) 1, wres (dg s) 2,
              transferred (dg s) 20, sync s 10,
              map fst (notified (dg s)))
  | RErr _ => (None, None, None, None, None, None, [])
  end = (None, None, None, None, None, None, [2; 1]).
Proof. vm_compute. reflexivity. Qed.

(* the re-rooting branch of transfer_lock (dependency_graph.rs:279-325):
   a = 10, d = 20, c = 30, b = 40, all on thread 1;
   d -> b, a -> d, c -> a, then d -> c must be rewritten to  c -> a -> b, d -> c *)
Definition ex_reroot : list op :=
  [ OClaim 1 10 true; OClaim 1 20 true; OClaim 1 30 true; OClaim 1 40 true;
    OMarkTarget 1 40; OTransfer 1 20 40 (OThread 1);        (* d -> b *)
    OClaim 1 20 true;                                       (* reclaim d (claimed_twice) *)
    OMarkTarget 1 20; OTransfer 1 10 20 (OThread 1);        (* a -> d *)
    OMarkTarget 1 10; OTransfer 1 30 10 OTransferred;       (* c -> a *)
    OMarkTarget 1 30; OTransfer 1 20 30 OTransferred ].     (* d -> c: Occupied + re-root *)

Example ex_reroot_valid : valid_client 20 ex_reroot.
Proof. apply validb_valid. vm_compute. reflexivity. Qed.

Example ex_reroot_final :
  match run 20 ex_reroot init with
  | ROk s => (option_map snd (transferred (dg s) 30), option_map snd (transferred (dg s) 10),
              option_map snd (transferred (dg s) 20), option_map snd (transferred (dg s) 40),
              tdeps (dg s) 40, tdeps (dg s) 30, tdeps (dg s) 20, tdeps (dg s) 10)
  | RErr _ => (None, None, None, None, None, None, None, None)
  end = (Some 10, Some 40, Some 30, None, Some [10], Some [20], Some [], Some [30]).
Proof. vm_compute. reflexivity. Qed.

(* the Vacant branch has no re-rooting: a client that violates [transfer_pre] there really does
   create a cycle in [transferred] — the precondition is necessary, not an artefact.
   c -> a -> d exist, d has no entry, and d is transferred to c. *)
Definition ex_vacant_cycle : list op :=
  [ OClaim 1 10 true; OClaim 1 20 true; OClaim 1 30 true;
    OMarkTarget 1 20; OTransfer 1 10 20 (OThread 1);        (* a -> d *)
    OMarkTarget 1 10; OTransfer 1 30 10 OTransferred;       (* c -> a *)
    OMarkTarget 1 30; OTransfer 1 20 30 OTransferred ].     (* d -> c, Vacant: closes a cycle *)

Example ex_vacant_cycle_not_valid : validb 20 init ex_vacant_cycle = false.
Proof. vm_compute. reflexivity. Qed.

Example ex_vacant_cycle_runs_into_cycle :
  match run 20 ex_vacant_cycle init with
  | ROk s => (option_map snd (transferred (dg s) 20), option_map snd (transferred (dg s) 30),
              option_map snd (transferred (dg s) 10))
  | RErr _ => (None, None, None)
  end = (Some 30, Some 10, Some 20).
Proof. vm_compute. reflexivity. Qed.

(* a plain wait: t2 waits for a@t1, t1 completes, t2 is woken with Completed *)
Definition ex_wait : list op :=
  [ OClaim 1 10 true; OClaim 2 10 true; OBlockOn 2 10 1;
    ORemove 1 10; OUnblock 1 10 Completed; OReceive 2 ].

Example ex_wait_valid : valid_client 20 ex_wait.
Proof. apply validb_valid. vm_compute. reflexivity. Qed.

(* reachable states used as witnesses next to the theorems in Props/C19.v *)
Lemma reachable_prefix fuel l s :
  validb fuel init l = true -> run fuel l init = ROk s -> reachable fuel s.
Proof.
  intros V R. eapply valid_from_reachable; [constructor | apply validb_valid; exact V | exact R].
Qed.

(* state after t1 blocked on b@t2 (prefix of ex_cycle): the next claim reports the cycle *)
Definition ex_blocked_state : state :=
  match run 20 (firstn 4 ex_cycle) init with ROk s => s | RErr _ => init end.

Example ex_blocked_reachable : reachable 20 ex_blocked_state.
Proof. eapply reachable_prefix with (l := firstn 4 ex_cycle); vm_compute; reflexivity. Qed.

Example ex_blocked_cycle_outcome :
  option_map snd (match step 20 ex_blocked_state (OBlockOn 2 10 1) with
                  | ROk r => Some r | RErr _ => None end) = Some (XBlock BCycle).
Proof. vm_compute. reflexivity. Qed.

(* state before the transfer (prefix of length 6): the transfer wakes t1 and blocks t2 *)
Definition ex_before_transfer : state :=
  match run 20 (firstn 6 ex_cycle) init with ROk s => s | RErr _ => init end.

Example ex_before_transfer_reachable : reachable 20 ex_before_transfer.
Proof. eapply reachable_prefix with (l := firstn 6 ex_cycle); vm_compute; reflexivity. Qed.

Example ex_before_transfer_pre : pre ex_before_transfer (OTransfer 2 20 10 (OThread 1)).
Proof. eapply (preb_pre 20). vm_compute. reflexivity. Qed.

Example ex_transfer_step :
  match step 20 ex_before_transfer (OTransfer 2 20 10 (OThread 1)) with
  | ROk (s', out) => (out, edges (dg s') 1, wres (dg s') 1, edges (dg s') 2, notified (dg s'))
  | RErr _ => (XUnit, None, None, None, [])
  end = (XTransfer true, None, Some Completed, Some (1, 10), [(1, Completed)]).
Proof. vm_compute. reflexivity. Qed.

(* state before the panicking release (prefix of length 11) *)
Definition ex_before_unblock : state :=
  match run 20 (firstn 11 ex_cycle) init with ROk s => s | RErr _ => init end.

Example ex_before_unblock_reachable : reachable 20 ex_before_unblock.
Proof. eapply reachable_prefix with (l := firstn 11 ex_cycle); vm_compute; reflexivity. Qed.

Example ex_unblock_step :
  match step 20 ex_before_unblock (OUnblock 1 10 Panicked) with
  | ROk (s', _) => (edges (dg s') 2, wres (dg s') 2, qdeps (dg s') 10)
  | RErr _ => (None, None, [])
  end = (None, Some Panicked, []).
Proof. vm_compute. reflexivity. Qed.

(* the same as a statement about the invariant: without the Vacant-branch part of
   [transfer_pre], a client that otherwise follows the documented discipline (every caller is
   running and owns what it releases; debug_asserts of transfer_lock hold) breaks I3 *)
Lemma ex_vacant_cycle_breaks_I3 :
  exists s, run 20 ex_vacant_cycle init = ROk s /\ ~ tinv (dg s).
Proof.
  destruct (run 20 ex_vacant_cycle init) as [s|e] eqn:E; [|vm_compute in E; discriminate].
  exists s. split; auto. intros [G _ _].
  assert (T20 : tproj_f (transferred (dg s)) 20 = Some 30)
    by (vm_compute in E; injection E as <-; reflexivity).
  assert (T30 : tproj_f (transferred (dg s)) 30 = Some 10)
    by (vm_compute in E; injection E as <-; reflexivity).
  assert (T10 : tproj_f (transferred (dg s)) 10 = Some 20)
    by (vm_compute in E; injection E as <-; reflexivity).
  eapply (grounded_no_cycle _ 20 30 G T20).
  econstructor; [exact T30|]. econstructor; [exact T10|]. constructor.
Qed.

(* every step of that trace passes the documented-discipline check except the last one, whose
   only failing conjunct is the Vacant-branch condition *)
Example ex_vacant_cycle_prefix_valid : validb 20 init (firstn 8 ex_vacant_cycle) = true.
Proof. vm_compute. reflexivity. Qed.

(* the debug_assert of update_transferred_edges (dependency_graph.rs:422-425) is a genuine
   obligation in a client model that is free to choose whom a thread blocks on: thread 2 waits
   behind two dependents (3 and 4) of the transferred query 10; only the first one is woken,
   re-pointing the second one at thread 2 would close  2 -> 4 -> 2. *)
Definition ex_edge_assert : list op :=
  [ OClaim 1 10 true; OClaim 2 20 true;
    OBlockOn 3 10 1;                 (* 3 waits for 10@1 *)
    OBlockOn 4 10 3;                 (* 4 waits for 10, registered as blocked on 3 *)
    OBlockOn 2 30 4;                 (* 2 -> 4 -> 3 -> 1 *)
    OMarkTarget 1 20;
    OTransfer 1 10 20 (OThread 2) ].

Example ex_edge_assert_fires :
  match run 20 ex_edge_assert init with ROk _ => None | RErr e => Some e end = Some EEdgeCycle.
Proof. vm_compute. reflexivity. Qed.

(* state before the recursive release of the transfer target 10 (prefix of length 12) *)
Definition ex_before_unblock_transferred : state :=
  match run 20 (firstn 12 ex_cycle) init with ROk s => s | RErr _ => init end.

Example ex_before_unblock_transferred_reachable : reachable 20 ex_before_unblock_transferred.
Proof. eapply reachable_prefix with (l := firstn 12 ex_cycle); vm_compute; reflexivity. Qed.

Example ex_unblock_transferred_step :
  match step 20 ex_before_unblock_transferred (OUnblockTransferred 1 10 Panicked) with
  | ROk (s', _) => (transferred (dg ex_before_unblock_transferred) 20,
                    transferred (dg s') 20, tdeps (dg s') 10)
  | RErr _ => (None, None, None)
  end = (Some (1, 10), None, None).
Proof. vm_compute. reflexivity. Qed.

(* Proto/ProofsTransfer.v — I1-I3 through every branch of DependencyGraph::transfer_lock,
   including the re-rooting loop. *)
From Coq Require Import Permutation.
From Salsa Require Import Base.
From Salsa.Proto Require Import Model ProofsGraph ProofsList ProofsInv.

(* ------------------------------------------------------------------------------------------ *)
(* update_transferred_edges: edge targets change, nothing else                                 *)
(* ------------------------------------------------------------------------------------------ *)

Definition rw_rel (g g' : dgraph) : Prop :=
  same_T g g' /\ qdeps g' = qdeps g /\ wres g' = wres g /\ notified g' = notified g /\
  (forall t, option_map snd (edges g' t) = option_map snd (edges g t)).

Lemma rw_rel_refl g : rw_rel g g.
Proof. repeat split; auto. Qed.

Lemma rw_rel_trans g1 g2 g3 : rw_rel g1 g2 -> rw_rel g2 g3 -> rw_rel g1 g3.
Proof.
  intros (T1 & Q1 & W1 & N1 & E1) (T2 & Q2 & W2 & N2 & E2).
  split; [eapply same_T_trans; eauto|]. split; [congruence|]. split; [congruence|].
  split; [congruence|]. intros t. now rewrite E2, E1.
Qed.

Lemma rewrite_edge_inv fuel n g d g' :
  einv g -> rewrite_edge fuel n g d = ROk g' -> einv g' /\ rw_rel g g'.
Proof.
  intros [G D ND W]. unfold rewrite_edge.
  destruct (edges g d) as [[u k]|] eqn:Ed; [|discriminate].
  intros H. apply bind_ok in H as (b & Hb & H). destruct b; [discriminate|].
  injection H as <-.
  assert (Hnd : n <> d).
  { intros ->. unfold depends_on in Hb; cbn in Hb. destruct fuel; [discriminate|].
    cbn in Hb. rewrite updN_same, N.eqb_refl in Hb. discriminate. }
  apply depends_on_false in Hb; auto. cbn in Hb.
  split.
  - unfold einv; cbn. constructor.
    + eapply grounded_ext; [intros x; symmetry; apply eproj_upd|]. cbn.
      apply upd_grounded; auto. intros Hr. apply Hb.
      eapply reaches_ext; [intros z; symmetry; apply eproj_upd|]. cbn.
      now apply reaches_upd_target.
    + intros d' k'. rewrite D. unfold updN. destruct (N.eqb_spec d d') as [<-|Hd]; [|tauto].
      rewrite Ed. split; intros [u' H']; injection H' as _ <-; eauto.
    + exact ND.
    + intros t r Ht. unfold updN. destruct (N.eqb_spec d t) as [<-|Hd]; [|eauto].
      apply W in Ht. congruence.
  - split; [split; reflexivity|]. repeat split; auto. intros t. cbn. unfold updN.
    destruct (N.eqb_spec d t) as [<-|Hd]; auto. now rewrite Ed.
Qed.

Lemma update_transferred_edges_inv n : forall fuel g q g',
  einv g -> update_transferred_edges fuel g q n = ROk g' -> einv g' /\ rw_rel g g'.
Proof.
  induction fuel as [|f IH]; intros g q g' HE; cbn [update_transferred_edges]; [discriminate|].
  intros H. apply bind_ok in H as (g1 & H1 & H).
  assert (P1 : einv g1 /\ rw_rel g g1).
  { eapply (foldM_inv (fun g'' => einv g'' /\ rw_rel g g'')) in H1; eauto.
    - intros s a s' _ [Hs Rs] Hr. apply rewrite_edge_inv in Hr as [? ?]; auto.
      split; auto. eapply rw_rel_trans; eauto.
    - split; auto. apply rw_rel_refl. }
  eapply (foldM_inv (fun g'' => einv g'' /\ rw_rel g g'')) in H; eauto.
  intros s a s' _ [Hs Rs] Hr. apply IH in Hr as [? ?]; auto.
  split; auto. eapply rw_rel_trans; eauto.
Qed.

(* ------------------------------------------------------------------------------------------ *)
(* unblock_transfer_target                                                                     *)
(* ------------------------------------------------------------------------------------------ *)

Lemma unblock_transfer_target_ok fuel g q n g' :
  unblock_transfer_target fuel g q n = ROk g' ->
  g' = g \/
  exists k i d, nth_error (qdeps g k) i = Some d /\
    unblock_runtime (set_qdeps g (updN (qdeps g) k (swap_remove_at i (qdeps g k)))) d Completed
      = ROk g'.
Proof.
  unfold unblock_transfer_target. intros H. apply bind_ok in H as (r & _ & H).
  destruct r as [[k i]|]; [|injection H as <-; now left].
  destruct (nth_error (qdeps g k) i) as [d|] eqn:E; [|discriminate].
  right. eauto.
Qed.

Lemma unblock_transfer_target_inv fuel g q n g' :
  einv g -> unblock_transfer_target fuel g q n = ROk g' ->
  einv g' /\ same_T g g' /\
  (forall t, edges g t = None -> wres g t = None -> edges g' t = None /\ wres g' t = None).
Proof.
  intros HE H. apply unblock_transfer_target_ok in H as [-> | (k & i & d & Hn & H)].
  - split; auto. split; [apply same_T_refl | auto].
  - destruct HE as [G D ND W].
    pose proof (nth_error_In _ _ Hn) as Hin.
    set (g1 := set_qdeps g (updN (qdeps g) k (swap_remove_at i (qdeps g k)))) in *.
    assert (HP : einv_p (edges g1) (qdeps g1) (wres g1) k [d]).
    { subst g1; cbn. constructor; auto.
      - intros d' k'. rewrite <- D. unfold updN. destruct (N.eqb_spec k k') as [<-|Hk].
        + rewrite swap_remove_at_In by eauto. cbn.
          destruct (N.eq_dec d' d) as [->|Hne]; intuition congruence.
        + cbn. intuition congruence.
      - intros k'. unfold updN. destruct (N.eqb_spec k k') as [<-|Hk]; auto.
        now apply swap_remove_at_NoDup.
      - repeat constructor. intros [].
      - intros d' [<-|[]]. rewrite updN_same. rewrite swap_remove_at_In by eauto. tauto. }
    pose proof (unblock_runtime_same_T _ _ _ _ H) as ST.
    pose proof H as H0. apply unblock_runtime_ok in H0 as ((u & kd & Ed) & Eg).
    apply unblock_runtime_einv_p with (k := k) (pend := []) in H as [HP' _]; auto.
    apply einv_p_nil in HP'. split; auto. split; [exact ST|].
    intros t Et Wt. subst g'. cbn. subst g1; cbn in *. unfold updN.
    destruct (N.eqb_spec d t) as [<-|Hd]; [congruence | auto].
Qed.

(* ------------------------------------------------------------------------------------------ *)
(* the re-rooting loop                                                                         *)
(* ------------------------------------------------------------------------------------------ *)

Lemma reroot_spec q n ot oo : forall fuel g src g',
  reroot fuel g q n ot oo src = ROk g' -> src <> q ->
  (g' = g /\ ~ reaches (tproj g) src q) \/
  (exists a th g1,
     path_av (tproj g) q src a /\ transferred g a = Some (th, q) /\
     tdeps_remove g q a = ROk g1 /\
     ((oo = n /\ g' = set_transferred g1 (updN (transferred g1) a None)) \/
      (oo <> n /\
       tdeps_push (set_transferred g1 (updN (transferred g1) a (Some (ot, oo)))) oo a = ROk g'))).
Proof.
  induction fuel as [|f IH]; intros g src g'; cbn [reroot]; [discriminate|].
  destruct (transferred g src) as [[th nt]|] eqn:Es.
  - destruct (N.eqb_spec nt q) as [->|Hnt].
    + intros H Hsrc. right. apply bind_ok in H as (g1 & H1 & H).
      exists src, th, g1. split; [constructor|]. split; [exact Es|]. split; [exact H1|].
      destruct (N.eqb_spec oo n) as [->|Hoo].
      * left. injection H as <-. auto.
      * right. auto.
    + intros H Hsrc. apply IH in H as [[-> Hr] | (a & th' & g1 & Hp & Ha & H1 & Hc)]; auto.
      * left. split; auto. intros Hr'. inversion Hr' as [|t u v Ht Hr'']; subst; [congruence|].
        unfold tproj, tproj_f in Ht; rewrite Es in Ht; injection Ht as <-. auto.
      * right. exists a, th', g1. split; auto.
        eapply pa_step with (u := nt); [unfold tproj, tproj_f; now rewrite Es | exact Hnt | exact Hp].
  - intros [= <-] Hsrc. left. split; auto. intros Hr.
    apply reaches_from_root in Hr; [congruence|]. unfold tproj, tproj_f; now rewrite Es.
Qed.

(* ------------------------------------------------------------------------------------------ *)
(* the tail of transfer_lock                                                                   *)
(* ------------------------------------------------------------------------------------------ *)

(* dependency_graph.rs:335-337 *)
Definition attach_tail (g : dgraph) (new_owner query : key) : R dgraph :=
  let g0 := match tdeps g new_owner with
            | Some _ => g
            | None => set_tdeps g (updN (tdeps g) new_owner (Some []))
            end in
  if mem new_owner (match tdeps g0 new_owner with Some l => l | None => [] end)
  then RErr EDuplicateDependent else tdeps_push g0 new_owner query.

(* dependency_graph.rs:339-358 *)
Definition transfer_rest (fuel : nat) (g1 : dgraph) (query : key) (current_thread : thread)
  (new_owner : key) (new_owner_thread : thread) (thread_changed : bool) : R (dgraph * bool) :=
  if thread_changed then
    g2 <- unblock_transfer_target fuel g1 query new_owner_thread ;;
    g3 <- update_transferred_edges fuel g2 query new_owner_thread ;;
    dep2 <- depends_on fuel g3 new_owner_thread current_thread ;;
    if negb (current_thread =? new_owner_thread) && negb dep2 then
      g4 <- add_edge fuel g3 current_thread new_owner new_owner_thread ;;
      ROk (g4, true)
    else ROk (g3, false)
  else ROk (g1, false).

Lemma transfer_finish_split fuel g q cur n nt tc :
  transfer_finish fuel g q cur n nt tc =
  (g1 <- attach_tail g n q ;; transfer_rest fuel g1 q cur n nt tc).
Proof.
  unfold transfer_finish, attach_tail, transfer_rest.
  destruct (mem n _); reflexivity.
Qed.

Lemma attach_tail_ok g n q g1 :
  attach_tail g n q = ROk g1 ->
  same_E g g1 /\ transferred g1 = transferred g /\
  (forall k, tdeps g1 k = updN (tdeps g) n (Some (lst (tdeps g n) ++ [q])) k).
Proof.
  unfold attach_tail. destruct (tdeps g n) as [l|] eqn:E.
  - rewrite E. destruct (mem n l); [discriminate|]. intros H.
    apply tdeps_push_ok in H as (l' & Hl & _ & ->). rewrite E in Hl; injection Hl as <-.
    repeat split; auto.
  - cbn. rewrite updN_same. cbn. intros H.
    apply tdeps_push_ok in H as (l' & Hl & _ & ->). cbn in Hl. rewrite updN_same in Hl.
    injection Hl as <-. repeat split; auto. intros k. cbn. unfold updN.
    destruct (n =? k); reflexivity.
Qed.

Lemma transfer_rest_inv fuel g1 q cur n nt tc g' b :
  einv g1 -> edges g1 cur = None -> wres g1 cur = None ->
  transfer_rest fuel g1 q cur n nt tc = ROk (g', b) ->
  einv g' /\ same_T g1 g'.
Proof.
  intros HE Ec Wc. unfold transfer_rest. destruct tc.
  - intros H. apply bind_ok in H as (g2 & H2 & H). apply bind_ok in H as (g3 & H3 & H).
    apply bind_ok in H as (dep2 & _ & H).
    apply unblock_transfer_target_inv in H2 as (HE2 & ST2 & Run2); auto.
    destruct (Run2 _ Ec Wc) as [Ec2 Wc2].
    apply update_transferred_edges_inv in H3 as (HE3 & ST3 & Q3 & W3 & N3 & Ed3); auto.
    destruct (negb (cur =? nt) && negb dep2).
    + apply bind_ok in H as (g4 & H4 & H). injection H as <- <-.
      pose proof H4 as H4'. apply add_edge_ok in H4' as (_ & _ & _ & Eg).
      split.
      * eapply add_edge_einv; eauto. congruence.
      * eapply same_T_trans; [exact ST2|]. eapply same_T_trans; [exact ST3|].
        subst g4. split; reflexivity.
    + injection H as <- <-. split; auto. eapply same_T_trans; eauto.
  - intros [= <- <-]. split; auto. apply same_T_refl.
Qed.

(* ------------------------------------------------------------------------------------------ *)
(* transfer_lock                                                                               *)
(* ------------------------------------------------------------------------------------------ *)

(* Client precondition of transfer_lock on the dependency graph:
   * the caller is running;
   * a query is not transferred to itself (execute.rs: outer_cycle excludes current_key);
   * Vacant branch only: the caller does not close a cycle in [transferred] — that branch has
     no re-rooting, so "transferred always forms a tree" is the caller's obligation there. *)
Definition transfer_pre (g : dgraph) (q : key) (cur : thread) (n : key) : Prop :=
  edges g cur = None /\ wres g cur = None /\ q <> n /\
  (transferred g q = None -> ~ reaches (tproj g) n q).

Lemma sub_upd_none (tr : key -> option (thread * key)) q v :
  forall t, tproj_f (updN tr q None) t = tproj_f (updN tr q v) t \/ tproj_f (updN tr q None) t = None.
Proof.
  intros t. unfold tproj_f, updN. destruct (q =? t); [now right | now left].
Qed.

Lemma transfer_lock_inv fuel g q cur n nid g' b :
  einv g -> tinv g -> transfer_pre g q cur n ->
  transfer_lock fuel g q cur n nid = ROk (g', b) ->
  einv g' /\ tinv g'.
Proof.
  intros HE HT (Ec & Wc & Hqn & Hvac). unfold transfer_lock. intros H.
  apply bind_ok in H as (nt & _ & H). apply bind_ok in H as (dep & _ & H).
  destruct (negb ((nt =? cur) || dep)); [discriminate|].
  destruct (transferred g q) as [[ot oo]|] eqn:Eq.
  - (* Occupied *)
    destruct ((ot =? nt) && (oo =? n)).
    { injection H as <- <-. auto. }
    apply bind_ok in H as (g1 & H1 & H). apply bind_ok in H as (g3 & H3 & H).
    rewrite transfer_finish_split in H. apply bind_ok in H as (g4 & H4 & H).
    apply tdeps_remove_ok in H1 as (loo & Eoo & ->).
    set (tr := transferred g) in *. set (td := tdeps g) in *.
    set (tdA := updN td oo (Some (set_remove q loo))) in *.
    set (trA := updN tr q None).
    assert (HA : tinv_f trA tdA) by (eapply detach_f; eauto).
    assert (Hooq : oo <> q).
    { intros ->. destruct HT as [G _ _]. eapply (grounded_no_self _ q G).
      unfold tproj_f. fold tr. now rewrite Eq. }
    apply attach_tail_ok in H4 as (SE4 & Tr4 & Td4).
    assert (Done : einv g3 -> edges g3 cur = None -> wres g3 cur = None -> tinv g4 ->
                   einv g' /\ tinv g').
    { intros HE3 Ec3 Wc3 HT4. destruct SE4 as (A & B & C & D).
      eapply transfer_rest_inv in H as [HE' ST']; eauto.
      - split; auto. eapply same_T_tinv; eauto.
      - unfold einv. now rewrite A, B, C.
      - congruence.
      - congruence. }
    apply reroot_spec in H3 as [[-> Hr] | (a & tha & g2a & Hp & Ha & H2a & Hc)]; auto.
    + (* no edge into [q] on the chain of the new owner *)
      apply Done; auto. unfold tinv. rewrite Tr4. cbn.
      eapply tinv_f_ext; [| intros k; symmetry; apply Td4 |].
      2:{ cbn. apply (attach_f trA tdA q nt n HA).
          - apply updN_same.
          - intros Hr'. apply Hr. unfold tproj; cbn.
            eapply reaches_sub; [|exact Hr']. apply sub_upd_none. }
      intros k. cbn. unfold trA, updN. fold tr. destruct (q =? k); reflexivity.
    + (* found [a -> q] on the chain of the new owner *)
      cbn in Hp, Ha. fold tr in Hp, Ha.
      assert (Haq : a <> q) by (eapply path_av_end_ne; eauto).
      assert (Ea : tr a = Some (tha, q)).
      { unfold updN in Ha. destruct (N.eqb_spec q a); [congruence | auto]. }
      apply tdeps_remove_ok in H2a as (lq & Elq & ->). cbn in Elq. fold td tdA in Elq.
      cbn in Hc.
      destruct Hc as [[-> Hg3] | [Hoon Hg3]].
      * (* old_owner == new_owner: impossible in a forest *)
        exfalso. destruct HT as [G _ _]. fold tr in G.
        eapply (grounded_no_cycle _ q n G).
        { unfold tproj_f. now rewrite Eq. }
        eapply reaches_step_r with (y := a); [|unfold tproj_f; now rewrite Ea].
        apply path_av_reaches in Hp.
        eapply reaches_ext; [|exact Hp]. intros z. unfold tproj, tproj_f; cbn. fold tr.
        unfold updN. destruct (N.eqb_spec q z) as [<-|]; [now rewrite Eq | auto].
      * apply tdeps_push_ok in Hg3 as (l' & El' & _ & ->). cbn in El'. fold td tdA in El'.
        set (tdB := updN tdA q (Some (set_remove a lq))) in *.
        set (trB := updN trA a None).
        assert (HB : tinv_f trB tdB).
        { eapply detach_f; eauto. unfold trA. rewrite updN_other; eauto. }
        assert (Hnoa : ~ reaches (tproj_f tr) oo a).
        { intros Hr. destruct HT as [G _ _]. fold tr in G.
          eapply (grounded_no_cycle _ q oo G).
          - unfold tproj_f. now rewrite Eq.
          - eapply reaches_step_r; [exact Hr|]. unfold tproj_f. now rewrite Ea. }
        assert (Hsub : forall t, tproj_f trB t = tproj_f tr t \/ tproj_f trB t = None).
        { intros t. unfold trB, trA, tproj_f, updN.
          destruct (a =? t); [now right|]. destruct (q =? t); [now right | now left]. }
        set (tdC := updN tdB oo (Some (lst (tdB oo) ++ [a]))).
        set (trC := updN trB a (Some (ot, oo))).
        assert (HC : tinv_f trC tdC).
        { apply attach_f; auto.
          - apply updN_same.
          - intros Hr. apply Hnoa. eapply reaches_sub; eauto. }
        set (tdD := updN tdC n (Some (lst (tdC n) ++ [q]))).
        set (trD := updN trC q (Some (nt, n))).
        assert (HD : tinv_f trD tdD).
        { apply attach_f; auto.
          - unfold trC, trB, trA. rewrite updN_other by auto. rewrite updN_other by auto.
            apply updN_same.
          - intros Hr.
            assert (Hp' : path_av (tproj_f trC) q n a).
            { eapply path_av_ext; [exact Hp | auto | |].
              - unfold tproj, tproj_f; cbn. fold tr. rewrite updN_other by auto. now rewrite Ea.
              - intros z Hzq Hza. unfold tproj, tproj_f, trC, trB, trA; cbn. fold tr.
                now rewrite !updN_other by auto. }
            assert (Hnq : n <> q) by congruence.
            pose proof (path_av_to_q _ _ _ _ Hp' Hnq Hr) as Hr2.
            inversion Hr2 as [|t u v Ht Hr3]; subst; [congruence|].
            unfold tproj_f, trC in Ht. rewrite updN_same in Ht. cbn in Ht. injection Ht as <-.
            assert (Hr4 : reaches (tproj_f trB) oo q).
            { eapply reaches_upd_inv with (a := a) (v := Some oo).
              - intros Hx. apply Hnoa. eapply reaches_sub; eauto.
              - eapply reaches_ext; [|exact Hr3]. intros z. unfold trC. apply tproj_upd. }
            destruct HT as [G _ _]. fold tr in G.
            eapply (grounded_no_cycle _ q oo G).
            + unfold tproj_f. now rewrite Eq.
            + eapply reaches_sub; eauto. }
        apply Done; auto. unfold tinv. rewrite Tr4.
        eapply (tinv_f_ext trD tdD); [| | exact HD].
        -- intros k. cbn [transferred set_tdeps set_transferred]. fold tr.
           unfold trD, trC, trB, trA, updN.
           destruct (N.eqb_spec q k) as [Hqk|Hqk], (N.eqb_spec a k) as [Hak|Hak]; congruence.
        -- intros k. rewrite Td4. cbn [tdeps set_tdeps set_transferred].
           unfold tdD, tdC. rewrite El'. reflexivity.
  - (* Vacant *)
    rewrite transfer_finish_split in H. apply bind_ok in H as (g4 & H4 & H).
    apply attach_tail_ok in H4 as (SE4 & Tr4 & Td4). destruct SE4 as (A & B & C & D).
    eapply transfer_rest_inv in H as [HE' ST']; eauto.
    + split; auto. eapply same_T_tinv; [exact ST'|]. unfold tinv. rewrite Tr4. cbn.
      eapply tinv_f_ext; [intros k; reflexivity | intros k; symmetry; apply Td4 |]. cbn.
      apply attach_f; auto.
    + unfold einv. rewrite A, B, C. exact HE.
    + rewrite A. exact Ec.
    + rewrite C. exact Wc.
Qed.

(* Proto/Model.v — executable transcription of salsa's claim / wait / transfer protocol.

   Rust sources transcribed (pinned /repo):
     src/runtime/dependency_graph.rs   (DependencyGraph, Edges, SmallSet)
     src/function/sync.rs              (SyncTable, ClaimGuard)
     src/runtime.rs                    (block, block_transferred, Running::block_on,
                                        BlockOnTransferredOwner::block, unblock_*, undo_transfer_lock,
                                        transfer_lock)

   DEFINITIONS ONLY (CONVENTIONS.md): total, computable, extractable with ExtrOcamlBasic.
   One model step = the body of one critical section of the Rust code.

   Modelling decisions (all named in DESIGN §8 as "critical sections are atomic"):
   * thread ids and keys are [N]; maps are total functions with pointwise update ([updN]).
   * [edges] carries, next to [blocked_on_id], the key the thread waits for.  The key is a ghost:
     no model function ever reads it; it only makes invariant I2 stateable.
   * [notified] is the log of [Edge::notify] calls (newest first) — the only observable effect
     of [unblock_runtime] besides the maps.
   * Rust [unwrap]/[expect]/[assert!]/[debug_assert!] failures are explicit error values; the
     model is the *debug* build (debug_asserts are checked).
   * Fuel ([nat]) is used exactly where the Rust loops/recurses over a chain or tree
     ([Edges::depends_on], [thread_id_of_transferred_query], the re-rooting loop,
     [unblock_recursive], [find_blocked_thread], [update_transferred_edges]); running out of
     fuel is the explicit error [EFuel]. *)
From Salsa Require Import Base.

Definition thread := N.
Definition key := N.

(* runtime.rs:48-53 *)
Inductive wait_result := Completed | Panicked | Cancelled.

(* sync.rs:332-347 *)
Inductive sync_owner := OThread (t : thread) | OTransferred.

(* sync.rs:48-71 (the [key] field is the map index) *)
Record sync_state := mkSync {
  ss_id : sync_owner;
  ss_waiting : bool;          (* anyone_waiting *)
  ss_target : bool;           (* is_transfer_target *)
  ss_twice : bool             (* claimed_twice *)
}.

(* dependency_graph.rs:17-43 *)
Record dgraph := mkDg {
  edges : thread -> option (thread * key);       (* Edges: from ⇀ (blocked_on_id, ghost key) *)
  qdeps : key -> list thread;                    (* query_dependents (absent = []) *)
  wres : thread -> option wait_result;           (* wait_results *)
  transferred : key -> option (thread * key);    (* transferred *)
  tdeps : key -> option (list key);              (* transferred_dependents (absent ≠ Some []) *)
  notified : list (thread * wait_result)         (* log of Edge::notify, newest first *)
}.

Record state := mkState {
  sync : key -> option sync_state;               (* all SyncTables, keyed by DatabaseKeyIndex *)
  dg : dgraph
}.

Definition dg_init : dgraph :=
  mkDg (fun _ => None) (fun _ => []) (fun _ => None) (fun _ => None) (fun _ => None) [].
Definition init : state := mkState (fun _ => None) dg_init.

(* ---- errors and the result monad ---- *)
Inductive err :=
| EFuel                  (* model fuel exhausted (never a Rust behaviour) *)
| ESameThread            (* dependency_graph.rs:108 assert_ne!(from_id, to_id) *)
| EAlreadyBlocked        (* dependency_graph.rs:109 debug_assert!(!edges.contains_key(from_id)) *)
| EWouldCycle            (* dependency_graph.rs:110 debug_assert!(!depends_on(to_id, from_id)) *)
| ENotBlocked            (* dependency_graph.rs:141 expect("not blocked") *)
| ENoDependents          (* dependency_graph.rs:177-180,188-191,272-275,303-306,315-318 get_mut().unwrap() *)
| ENoEdge                (* dependency_graph.rs:415 edges.get_mut(dependent).unwrap() *)
| EEdgeCycle             (* dependency_graph.rs:422-425 debug_assert!(!edges.depends_on(new_owner_thread, dependent)) *)
| ENewOwnerNotBlocked    (* dependency_graph.rs:245-246 expect("new owner should be blocked on `query`") *)
| ENewOwnerNotDependent  (* dependency_graph.rs:250-253 debug_assert!(new_owner_thread == current_thread || depends_on(..)) *)
| EDuplicateDependent    (* dependency_graph.rs:336 and SmallSet::push:497 debug_assert!(!contains) *)
| EStillBlocked          (* dependency_graph.rs:86 debug_assert!(!edges.contains_key(from_id)) *)
| EKeyNotClaimed         (* sync.rs:389,438,470,490,519 expect("key should only be claimed/released once") *)
| EClaimedTwice.         (* sync.rs:243 debug_assert!(!*claimed_twice) *)

Inductive R (A : Type) := ROk (a : A) | RErr (e : err).
Arguments ROk {A} a.
Arguments RErr {A} e.

Definition bind {A B} (m : R A) (f : A -> R B) : R B :=
  match m with ROk a => f a | RErr e => RErr e end.
Notation "x <- m ;; f" := (bind m (fun x => f)) (at level 61, m at next level, right associativity).

Fixpoint foldM {A S} (f : S -> A -> R S) (l : list A) (s : S) : R S :=
  match l with
  | [] => ROk s
  | a :: l' => s' <- f s a ;; foldM f l' s'
  end.

Fixpoint find_mapM {A B} (f : A -> R (option B)) (l : list A) : R (option B) :=
  match l with
  | [] => ROk None
  | a :: l' => r <- f a ;; match r with Some b => ROk (Some b) | None => find_mapM f l' end
  end.

(* ---- field updates ---- *)
Definition set_edges g v := mkDg v (qdeps g) (wres g) (transferred g) (tdeps g) (notified g).
Definition set_qdeps g v := mkDg (edges g) v (wres g) (transferred g) (tdeps g) (notified g).
Definition set_wres g v := mkDg (edges g) (qdeps g) v (transferred g) (tdeps g) (notified g).
Definition set_transferred g v := mkDg (edges g) (qdeps g) (wres g) v (tdeps g) (notified g).
Definition set_tdeps g v := mkDg (edges g) (qdeps g) (wres g) (transferred g) v (notified g).
Definition set_notified g v := mkDg (edges g) (qdeps g) (wres g) (transferred g) (tdeps g) v.

Definition set_sync s v := mkState v (dg s).
Definition set_dg s g := mkState (sync s) g.

(* ---- SmallVec / SmallSet helpers (dependency_graph.rs:485-518) ---- *)
Fixpoint mem (x : N) (l : list N) : bool :=
  match l with [] => false | y :: l' => (x =? y) || mem x l' end.

(* index of the first occurrence *)
Fixpoint position (x : N) (l : list N) : option nat :=
  match l with
  | [] => None
  | y :: l' => if x =? y then Some O else option_map S (position x l')
  end.

(* SmallVec::swap_remove: remove index [i], the last element takes its place *)
Fixpoint swap_remove_at (i : nat) (l : list N) : list N :=
  match l with
  | [] => []
  | x :: tl =>
    match i with
    | O => match tl with [] => [] | y :: tl' => last tl y :: removelast tl end
    | S i' => x :: swap_remove_at i' tl
    end
  end.

(* SmallSet::remove, dependency_graph.rs:506-513 *)
Definition set_remove (x : N) (l : list N) : list N :=
  match position x l with Some i => swap_remove_at i l | None => l end.

(* ------------------------------------------------------------------------------------------ *)
(* DependencyGraph                                                                             *)
(* ------------------------------------------------------------------------------------------ *)

(* Edges::depends_on, dependency_graph.rs:456-466 *)
Fixpoint depends_on_loop (fuel : nat) (e : thread -> option (thread * key)) (p to_id : thread)
  : R bool :=
  match fuel with
  | O => RErr EFuel
  | S f =>
    match e p with
    | Some (q, _) => if q =? to_id then ROk true else depends_on_loop f e q to_id
    | None => ROk (p =? to_id)
    end
  end.

(* DependencyGraph::depends_on, dependency_graph.rs:49-51 *)
Definition depends_on (fuel : nat) (g : dgraph) (from_id to_id : thread) : R bool :=
  depends_on_loop fuel (edges g) from_id to_id.

(* DependencyGraph::add_edge, dependency_graph.rs:101-118 *)
Definition add_edge (fuel : nat) (g : dgraph) (from_id : thread) (k : key) (to_id : thread)
  : R dgraph :=
  if from_id =? to_id then RErr ESameThread else
  match edges g from_id with
  | Some _ => RErr EAlreadyBlocked
  | None =>
    b <- depends_on fuel g to_id from_id ;;
    if b : bool then RErr EWouldCycle else
    let g1 := set_edges g (updN (edges g) from_id (Some (to_id, k))) in
    ROk (set_qdeps g1 (updN (qdeps g1) k (qdeps g1 k ++ [from_id])))
  end.

(* DependencyGraph::unblock_runtime, dependency_graph.rs:140-147 *)
Definition unblock_runtime (g : dgraph) (id : thread) (r : wait_result) : R dgraph :=
  match edges g id with
  | None => RErr ENotBlocked
  | Some _ =>
    let g1 := set_edges g (updN (edges g) id None) in
    let g2 := set_wres g1 (updN (wres g1) id (Some r)) in
    (* "Now that we have inserted the `wait_results`, notify the thread." *)
    ROk (set_notified g2 ((id, r) :: notified g2))
  end.

(* DependencyGraph::unblock_runtimes_blocked_on, dependency_graph.rs:122-135 *)
Definition unblock_runtimes_blocked_on (g : dgraph) (k : key) (r : wait_result) : R dgraph :=
  let dependents := qdeps g k in
  let g1 := set_qdeps g (updN (qdeps g) k []) in
  foldM (fun g' from_id => unblock_runtime g' from_id r) dependents g1.

(* get_mut(&owner).unwrap().remove(&k): dependency_graph.rs:177-180, 188-191, 272-275, 303-306 *)
Definition tdeps_remove (g : dgraph) (owner k : key) : R dgraph :=
  match tdeps g owner with
  | None => RErr ENoDependents
  | Some l => ROk (set_tdeps g (updN (tdeps g) owner (Some (set_remove k l))))
  end.

(* fn unblock_recursive, dependency_graph.rs:156-167 *)
Fixpoint unblock_recursive (fuel : nat) (g : dgraph) (query : key) (r : wait_result) : R dgraph :=
  match fuel with
  | O => RErr EFuel
  | S f =>
    let g1 := set_transferred g (updN (transferred g) query None) in
    let l := match tdeps g1 query with Some l => l | None => [] end in
    let g2 := set_tdeps g1 (updN (tdeps g1) query None) in
    foldM (fun g' q => g'' <- unblock_runtimes_blocked_on g' q r ;; unblock_recursive f g'' q r)
          l g2
  end.

(* DependencyGraph::undo_transfer_lock, dependency_graph.rs:186-193
   (also the prefix 174-181 of unblock_runtimes_blocked_on_transferred_queries_owned_by) *)
Definition undo_transfer_lock (g : dgraph) (k : key) : R dgraph :=
  match transferred g k with
  | Some (_, owner) =>
    let g1 := set_transferred g (updN (transferred g) k None) in
    tdeps_remove g1 owner k
  | None => ROk g
  end.

(* DependencyGraph::unblock_runtimes_blocked_on_transferred_queries_owned_by,
   dependency_graph.rs:151-184 *)
Definition unblock_transferred_queries_owned_by (fuel : nat) (g : dgraph) (k : key)
  (r : wait_result) : R dgraph :=
  g1 <- undo_transfer_lock g k ;;
  unblock_recursive fuel g1 k r.

(* DependencyGraph::thread_id_of_transferred_query, dependency_graph.rs:199-222 *)
Fixpoint resolve_loop (fuel : nat) (tr : key -> option (thread * key)) (skip_over : option key)
  (current_owner : key) (resolved : thread) : R thread :=
  match fuel with
  | O => RErr EFuel
  | S f =>
    match tr current_owner with
    | None => ROk resolved
    | Some (next_thread, next_key) =>
      let skip := match skip_over with Some s => next_key =? s | None => false end in
      if skip then resolve_loop f tr skip_over next_key resolved
      else resolve_loop f tr skip_over next_key next_thread
    end
  end.

Definition thread_id_of_transferred_query (fuel : nat) (g : dgraph) (k : key)
  (skip_over : option key) : R (option thread) :=
  match transferred g k with
  | None => ROk None
  | Some (resolved, owner) =>
    t <- resolve_loop fuel (transferred g) skip_over owner resolved ;; ROk (Some t)
  end.

(* SmallSet::push with its debug_assert, dependency_graph.rs:496-500 *)
Definition tdeps_push (g : dgraph) (owner k : key) : R dgraph :=
  match tdeps g owner with
  | None => RErr ENoDependents
  | Some l =>
    if mem k l then RErr EDuplicateDependent
    else ROk (set_tdeps g (updN (tdeps g) owner (Some (l ++ [k]))))
  end.

(* the re-rooting loop of transfer_lock, dependency_graph.rs:290-325.
   [source] is the key of [last_segment]. *)
Fixpoint reroot (fuel : nat) (g : dgraph) (query new_owner : key)
  (old_owner_thread : thread) (old_owner : key) (source : key) : R dgraph :=
  match fuel with
  | O => RErr EFuel
  | S f =>
    match transferred g source with
    | None => ROk g                                       (* Entry::Vacant: loop ends *)
    | Some (_, next_target) =>
      if next_target =? query then
        g1 <- tdeps_remove g query source ;;              (* 303-306 *)
        if old_owner =? new_owner then                    (* 309-310 entry.remove() *)
          ROk (set_transferred g1 (updN (transferred g1) source None))
        else                                              (* 314-318 *)
          let g2 := set_transferred g1
                      (updN (transferred g1) source (Some (old_owner_thread, old_owner))) in
          tdeps_push g2 old_owner source
      else reroot f g query new_owner old_owner_thread old_owner next_target   (* 324 *)
    end
  end.

(* index of the first blocked thread [id] with id == new_owner_id || depends_on(new_owner_id, id),
   dependency_graph.rs:374-380 *)
Fixpoint find_index (fuel : nat) (g : dgraph) (new_owner_id : thread) (l : list thread) (i : nat)
  : R (option nat) :=
  match l with
  | [] => ROk None
  | id :: l' =>
    if id =? new_owner_id then ROk (Some i) else
    b <- depends_on fuel g new_owner_id id ;;
    if b : bool then ROk (Some i) else find_index fuel g new_owner_id l' (S i)
  end.

(* fn find_blocked_thread, dependency_graph.rs:369-388 *)
Fixpoint find_blocked_thread (fuel : nat) (g : dgraph) (query : key) (new_owner_id : thread)
  : R (option (key * nat)) :=
  match fuel with
  | O => RErr EFuel
  | S f =>
    r <- find_index fuel g new_owner_id (qdeps g query) O ;;
    match r with
    | Some i => ROk (Some (query, i))
    | None =>
      find_mapM (fun dependent => find_blocked_thread f g dependent new_owner_id)
                (match tdeps g query with Some l => l | None => [] end)
    end
  end.

(* fn find_new_owner_thread (repair of the circular-blocked-edges defect): the new owner's thread
   itself, among the threads blocked on [query] or on a query transferred to it (recursively) *)
Fixpoint find_new_owner_thread (fuel : nat) (g : dgraph) (query : key) (new_owner_id : thread)
  : R (option (key * nat)) :=
  match fuel with
  | O => RErr EFuel
  | S f =>
    match position new_owner_id (qdeps g query) with
    | Some i => ROk (Some (query, i))
    | None =>
      find_mapM (fun dependent => find_new_owner_thread f g dependent new_owner_id)
                (match tdeps g query with Some l => l | None => [] end)
    end
  end.

(* DependencyGraph::unblock_transfer_target, dependency_graph.rs:363-402: the new owner's own
   thread first, only otherwise a thread it (transitively) waits for *)
Definition unblock_transfer_target (fuel : nat) (g : dgraph) (source_query : key)
  (new_owner_id : thread) : R dgraph :=
  r <- (r0 <- find_new_owner_thread fuel g source_query new_owner_id ;;
        match r0 with
        | Some x => ROk (Some x)
        | None => find_blocked_thread fuel g source_query new_owner_id
        end) ;;
  match r with
  | None => ROk g
  | Some (query, i) =>
    let blocked := qdeps g query in
    match nth_error blocked i with
    | None => RErr ENotBlocked        (* swap_remove out of bounds: unreachable *)
    | Some thread_id =>
      (* an emptied list is removed from the map: absent = [] in the model *)
      let g1 := set_qdeps g (updN (qdeps g) query (swap_remove_at i blocked)) in
      unblock_runtime g1 thread_id Completed
    end
  end.

(* the per-dependent body of update_transferred_edges, dependency_graph.rs:414-426 *)
Definition rewrite_edge (fuel : nat) (new_owner_thread : thread) (g : dgraph) (dependent : thread)
  : R dgraph :=
  match edges g dependent with
  | None => RErr ENoEdge
  | Some (_, k) =>
    let g1 := set_edges g (updN (edges g) dependent (Some (new_owner_thread, k))) in
    b <- depends_on fuel g1 new_owner_thread dependent ;;
    if b : bool then RErr EEdgeCycle else ROk g1
  end.

(* DependencyGraph::update_transferred_edges, dependency_graph.rs:404-449 *)
Fixpoint update_transferred_edges (fuel : nat) (g : dgraph) (query : key)
  (new_owner_thread : thread) : R dgraph :=
  match fuel with
  | O => RErr EFuel
  | S f =>
    g1 <- foldM (rewrite_edge fuel new_owner_thread) (qdeps g query) g ;;
    foldM (fun g' dependent => update_transferred_edges f g' dependent new_owner_thread)
          (match tdeps g1 query with Some l => l | None => [] end) g1
  end.

(* the tail of transfer_lock, dependency_graph.rs:334-358 *)
Definition transfer_finish (fuel : nat) (g : dgraph) (query : key) (current_thread : thread)
  (new_owner : key) (new_owner_thread : thread) (thread_changed : bool) : R (dgraph * bool) :=
  (* 335-337: entry(new_owner).or_default(); debug_assert; push(query) *)
  let g0 := match tdeps g new_owner with
            | Some _ => g
            | None => set_tdeps g (updN (tdeps g) new_owner (Some []))
            end in
  if mem new_owner (match tdeps g0 new_owner with Some l => l | None => [] end)
  then RErr EDuplicateDependent else
  g1 <- tdeps_push g0 new_owner query ;;
  if thread_changed then
    (* 341-342 *)
    g2 <- unblock_transfer_target fuel g1 query new_owner_thread ;;
    g3 <- update_transferred_edges fuel g2 query new_owner_thread ;;
    (* 347-355 *)
    dep2 <- depends_on fuel g3 new_owner_thread current_thread ;;
    if negb (current_thread =? new_owner_thread) && negb dep2 then
      g4 <- add_edge fuel g3 current_thread new_owner new_owner_thread ;;
      ROk (g4, true)
    else ROk (g3, false)
  else ROk (g1, false).

(* 240-248 *)
Definition new_owner_thread_of (fuel : nat) (g : dgraph) (query new_owner : key)
  (new_owner_id : sync_owner) : R thread :=
  match new_owner_id with
  | OThread t => ROk t
  | OTransferred =>
    o <- thread_id_of_transferred_query fuel g new_owner (Some query) ;;
    match o with Some t => ROk t | None => RErr ENewOwnerNotBlocked end
  end.

(* DependencyGraph::transfer_lock, dependency_graph.rs:231-359.
   Returns the new graph and the Rust return value ("blocked on the new owner"). *)
Definition transfer_lock (fuel : nat) (g : dgraph) (query : key) (current_thread : thread)
  (new_owner : key) (new_owner_id : sync_owner) : R (dgraph * bool) :=
  new_owner_thread <- new_owner_thread_of fuel g query new_owner new_owner_id ;;
  (* 250-253 *)
  dep <- depends_on fuel g new_owner_thread current_thread ;;
  if negb ((new_owner_thread =? current_thread) || dep) then RErr ENewOwnerNotDependent else
  (* 255-332 *)
  match transferred g query with
  | None =>
    (* 256-260 *)
    let g1 := set_transferred g (updN (transferred g) query (Some (new_owner_thread, new_owner))) in
    transfer_finish fuel g1 query current_thread new_owner new_owner_thread
                    (negb (current_thread =? new_owner_thread))
  | Some (old_owner_thread, old_owner) =>
    (* 263-265 *)
    if (old_owner_thread =? new_owner_thread) && (old_owner =? new_owner) then ROk (g, false) else
    (* 272-277 *)
    g1 <- tdeps_remove g old_owner query ;;
    let g2 := set_transferred g1
                (updN (transferred g1) query (Some (new_owner_thread, new_owner))) in
    (* 290-325 *)
    g3 <- reroot fuel g2 query new_owner old_owner_thread old_owner new_owner ;;
    (* 327-330 *)
    transfer_finish fuel g3 query current_thread new_owner new_owner_thread true
  end.

(* DependencyGraph::block_on up to and including add_edge (dependency_graph.rs:66-82) preceded by
   the re-check of Runtime::block (runtime.rs:322-335) /
   BlockOnTransferredOwner::block (runtime.rs:92-106); both run under the same dg lock. *)
Inductive block_result := BBlocked | BCycle.

Definition block_on (fuel : nat) (g : dgraph) (thread_id : thread) (k : key) (other_id : thread)
  : R (dgraph * block_result) :=
  if thread_id =? other_id then ROk (g, BCycle) else
  b <- depends_on fuel g other_id thread_id ;;
  if b : bool then ROk (g, BCycle) else
  g1 <- add_edge fuel g thread_id k other_id ;;
  ROk (g1, BBlocked).

(* the wait loop of DependencyGraph::block_on, dependency_graph.rs:84-90: one probe *)
Definition receive (g : dgraph) (from_id : thread) : R (dgraph * option wait_result) :=
  match wres g from_id with
  | Some r =>
    match edges g from_id with
    | Some _ => RErr EStillBlocked
    | None => ROk (set_wres g (updN (wres g) from_id None), Some r)
    end
  | None => ROk (g, None)       (* cvar.wait *)
  end.

(* ------------------------------------------------------------------------------------------ *)
(* SyncTable / ClaimGuard                                                                      *)
(* ------------------------------------------------------------------------------------------ *)

Inductive release_mode := MDefault | MSelfOnly.           (* mode of the returned ClaimGuard *)

Inductive claim_result :=
| CClaimed (m : release_mode)
| CRunning (other : thread)
| CCycle (inner : bool).

Definition fresh_sync (t : thread) : sync_state := mkSync (OThread t) false false false.
Definition set_waiting (st : sync_state) : sync_state :=
  mkSync (ss_id st) true (ss_target st) (ss_twice st).

(* Runtime::block, runtime.rs:316-344, without acquiring anything *)
Definition runtime_block (fuel : nat) (g : dgraph) (thread_id other_id : thread) : R claim_result :=
  if thread_id =? other_id then ROk (CCycle false) else
  b <- depends_on fuel g other_id thread_id ;;
  if b : bool then ROk (CCycle false) else ROk (CRunning other_id).

Inductive block_transferred_result := BTImTheOwner | BTOwnedBy (other : thread) | BTReleased.

(* Runtime::block_transferred, runtime.rs:351-376 *)
Definition block_transferred (fuel : nat) (g : dgraph) (query : key) (current_id : thread)
  : R block_transferred_result :=
  o <- thread_id_of_transferred_query fuel g query None ;;
  match o with
  | None => ROk BTReleased
  | Some owner_thread_id =>
    b <- depends_on fuel g owner_thread_id current_id ;;
    if (owner_thread_id =? current_id) || b then ROk BTImTheOwner
    else ROk (BTOwnedBy owner_thread_id)
  end.

(* SyncTable::try_claim (sync.rs:103-173) with try_claim_transferred (sync.rs:223-278) when
   [claim = true]; SyncTable::peek_claim (sync.rs:176-219) with peek_claim_transferred
   (sync.rs:282-306) when [claim = false].  [allow] is Reentrancy::Allow. *)
Definition try_claim (fuel : nat) (claim : bool) (s : state) (t : thread) (k : key) (allow : bool)
  : R (state * claim_result) :=
  match sync s k with
  | None =>
    if claim then ROk (set_sync s (updN (sync s) k (Some (fresh_sync t))), CClaimed MDefault)
    else ROk (s, CClaimed MDefault)
  | Some st =>
    match ss_id st with
    | OThread id =>
      let s1 := set_sync s (updN (sync s) k (Some (set_waiting st))) in
      r <- runtime_block fuel (dg s1) t id ;;
      ROk (s1, r)
    | OTransferred =>
      bt <- block_transferred fuel (dg s) k t ;;
      match bt with
      | BTImTheOwner =>
        if allow then
          if claim then
            if ss_twice st then RErr EClaimedTwice else
            ROk (set_sync s (updN (sync s) k
                   (Some (mkSync (OThread t) (ss_waiting st) (ss_target st) true))),
                 CClaimed MSelfOnly)
          else ROk (s, CClaimed MSelfOnly)
        else ROk (s, CCycle true)
      | BTOwnedBy other =>
        let s1 := set_sync s (updN (sync s) k (Some (set_waiting st))) in
        r <- runtime_block fuel (dg s1) t other ;;
        ROk (s1, r)
      | BTReleased =>
        if claim then ROk (set_sync s (updN (sync s) k (Some (fresh_sync t))), CClaimed MDefault)
        else ROk (s, CClaimed MDefault)
      end
    end
  end.

(* SyncTable::mark_as_transfer_target, sync.rs:314-329 *)
Definition mark_as_transfer_target (s : state) (k : key) : state * option sync_owner :=
  match sync s k with
  | None => (s, None)
  | Some st =>
    (set_sync s (updN (sync s) k (Some (mkSync (ss_id st) true true (ss_twice st)))),
     Some (ss_id st))
  end.

(* the removal that starts ClaimGuard::drop_impl/Default (sync.rs:515-521),
   ClaimGuard::release_panicking (sync.rs:385-391) and the failure branch of
   ClaimGuard::transfer (sync.rs:465-472) *)
Definition sync_remove (s : state) (k : key) : R (state * sync_state) :=
  match sync s k with
  | None => RErr EKeyNotClaimed
  | Some st => ROk (set_sync s (updN (sync s) k None), st)
  end.

(* DependencyGraph::repoint_transferred_dependents (repair of the stale-edge defect): the threads
   blocked on the transferred query [k], or on a query it owns, are pointed at the thread its
   transfer chain resolves to *)
Definition repoint_transferred_dependents (fuel : nat) (g : dgraph) (k : key) : R dgraph :=
  o <- thread_id_of_transferred_query fuel g k None ;;
  match o with
  | Some owner_thread => update_transferred_edges fuel g k owner_thread
  | None => ROk g
  end.

(* ClaimGuard::release_self, sync.rs:434-447: [None] = kept as Transferred; a re-claimed
   transferred query that somebody waits for gets its waiters re-pointed (they blocked on the
   re-claiming thread) *)
Definition release_self (fuel : nat) (s : state) (k : key) : R (state * option sync_state) :=
  match sync s k with
  | None => RErr EKeyNotClaimed
  | Some st =>
    if ss_twice st then
      let s1 := set_sync s (updN (sync s) k
                  (Some (mkSync OTransferred (ss_waiting st) (ss_target st) false))) in
      if ss_waiting st then
        g <- repoint_transferred_dependents fuel (dg s1) k ;; ROk (set_dg s1 g, None)
      else ROk (s1, None)
    else ROk (set_sync s (updN (sync s) k None), Some st)
  end.

(* ClaimGuard::transfer after mark_as_transfer_target succeeded, sync.rs:479-498,
   including Runtime::transfer_lock (runtime.rs:424-440) *)
Definition transfer (fuel : nat) (s : state) (t : thread) (k new_owner : key)
  (new_owner_id : sync_owner) : R (state * bool) :=
  match sync s k with
  | None => RErr EKeyNotClaimed
  | Some st =>
    let s1 := set_sync s (updN (sync s) k
                (Some (mkSync OTransferred (ss_waiting st) (ss_target st) false))) in
    r <- transfer_lock fuel (dg s1) k t new_owner new_owner_id ;;
    ROk (set_dg s1 (fst r), snd r)
  end.

(* ------------------------------------------------------------------------------------------ *)
(* The step alphabet                                                                           *)
(* ------------------------------------------------------------------------------------------ *)

Inductive op :=
| OClaim (t : thread) (k : key) (allow : bool)      (* SyncTable::try_claim *)
| OPeek (t : thread) (k : key) (allow : bool)       (* SyncTable::peek_claim *)
| OBlockOn (t : thread) (k : key) (other : thread)  (* Running::block_on -> DependencyGraph::block_on *)
| OReceive (t : thread)                             (* block_on wait loop: wait_results.remove *)
| ORemove (t : thread) (k : key)                    (* drop_impl/Default, release_panicking: remove entry *)
| OReleaseSelf (t : thread) (k : key)               (* ClaimGuard::release_self *)
| OMarkTarget (t : thread) (k : key)                (* SyncTable::mark_as_transfer_target *)
| OTransfer (t : thread) (k new_owner : key) (id : sync_owner)   (* ClaimGuard::transfer + transfer_lock *)
| OUndoTransfer (t : thread) (k : key)              (* Runtime::undo_transfer_lock *)
| OUnblock (t : thread) (k : key) (r : wait_result) (* Runtime::unblock_queries_blocked_on *)
| OUnblockTransferred (t : thread) (k : key) (r : wait_result).
                                                    (* Runtime::unblock_transferred_queries_owned_by *)

Inductive outcome :=
| XClaim (r : claim_result)
| XBlock (r : block_result)
| XReceive (r : option wait_result)
| XRemoved (st : sync_state)          (* the removed SyncState, input of ClaimGuard::release *)
| XSelfKept                           (* release_self kept the entry as Transferred *)
| XMarked (o : option sync_owner)
| XTransfer (blocked : bool)
| XUnit.

Definition step (fuel : nat) (s : state) (o : op) : R (state * outcome) :=
  match o with
  | OClaim t k allow => r <- try_claim fuel true s t k allow ;; ROk (fst r, XClaim (snd r))
  | OPeek t k allow => r <- try_claim fuel false s t k allow ;; ROk (fst r, XClaim (snd r))
  | OBlockOn t k other =>
    r <- block_on fuel (dg s) t k other ;; ROk (set_dg s (fst r), XBlock (snd r))
  | OReceive t => r <- receive (dg s) t ;; ROk (set_dg s (fst r), XReceive (snd r))
  | ORemove _ k => r <- sync_remove s k ;; ROk (fst r, XRemoved (snd r))
  | OReleaseSelf _ k =>
    r <- release_self fuel s k ;;
    ROk (fst r, match snd r with Some st => XRemoved st | None => XSelfKept end)
  | OMarkTarget _ k => let r := mark_as_transfer_target s k in ROk (fst r, XMarked (snd r))
  | OTransfer t k new_owner id =>
    r <- transfer fuel s t k new_owner id ;; ROk (fst r, XTransfer (snd r))
  | OUndoTransfer _ k => g <- undo_transfer_lock (dg s) k ;; ROk (set_dg s g, XUnit)
  | OUnblock _ k r => g <- unblock_runtimes_blocked_on (dg s) k r ;; ROk (set_dg s g, XUnit)
  | OUnblockTransferred _ k r =>
    g <- unblock_transferred_queries_owned_by fuel (dg s) k r ;; ROk (set_dg s g, XUnit)
  end.

(* ClaimGuard::release, sync.rs:406-430: the dependency-graph critical sections that follow the
   removal of [st] for key [k] by thread [t] with result [r], in program order. *)
Definition release_script (t : thread) (k : key) (st : sync_state) (r : wait_result) : list op :=
  if ss_waiting st then
    (if ss_twice st then [OUndoTransfer t k] else []) ++
    [OUnblock t k r] ++
    (if ss_target st then [OUnblockTransferred t k r] else [])
  else [].

(* run a list of operations; [None]-like failure is reported with the failing error *)
Fixpoint run (fuel : nat) (l : list op) (s : state) : R state :=
  match l with
  | [] => ROk s
  | o :: l' => r <- step fuel s o ;; run fuel l' (fst r)
  end.

(* the same, also collecting the outcomes *)
Fixpoint run_out (fuel : nat) (l : list op) (s : state) : R (state * list outcome) :=
  match l with
  | [] => ROk (s, [])
  | o :: l' =>
    r <- step fuel s o ;;
    r' <- run_out fuel l' (fst r) ;;
    ROk (fst r', snd r :: snd r')
  end.

(* ------------------------------------------------------------------------------------------ *)
(* Client preconditions, as executable checks (used by the replay driver; the Prop versions    *)
(* are in Proofs.v)                                                                            *)
(* ------------------------------------------------------------------------------------------ *)

(* a thread that calls into the protocol is neither blocked nor holding an unreceived result *)
Definition runningb (g : dgraph) (t : thread) : bool :=
  match edges g t, wres g t with None, None => true | _, _ => false end.

Definition owned_byb (s : state) (k : key) (t : thread) : bool :=
  match sync s k with
  | Some st => match ss_id st with OThread t' => t =? t' | OTransferred => false end
  | None => false
  end.

(* does the [transferred] chain starting at [k] reach [target]? (reflexive) *)
Fixpoint treaches (fuel : nat) (tr : key -> option (thread * key)) (k target : key) : R bool :=
  match fuel with
  | O => RErr EFuel
  | S f =>
    if k =? target then ROk true else
    match tr k with
    | None => ROk false
    | Some (_, k') => treaches f tr k' target
    end
  end.

Definition preb (fuel : nat) (s : state) (o : op) : bool :=
  match o with
  | OClaim t _ _ | OPeek t _ _ | OBlockOn t _ _ => runningb (dg s) t
  | OReceive _ => true
  | ORemove t k | OReleaseSelf t k => runningb (dg s) t && owned_byb s k t
  | OMarkTarget t _ => runningb (dg s) t
  | OTransfer t k new_owner _ =>
    runningb (dg s) t && owned_byb s k t && negb (k =? new_owner) &&
    match transferred (dg s) k with
    | Some _ => true
    | None =>
      (* Vacant branch (dependency_graph.rs:256-260): nothing re-roots, so the caller must not
         close a [transferred] cycle *)
      match treaches fuel (transferred (dg s)) new_owner k with
      | ROk b => negb b
      | RErr _ => false
      end
    end
  | OUndoTransfer t _ | OUnblock t _ _ | OUnblockTransferred t _ _ => runningb (dg s) t
  end.

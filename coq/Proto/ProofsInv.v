(* Proto/ProofsInv.v — the invariants I1-I3 of DESIGN §7 C19 and their preservation by every
   function of the dependency graph. *)
From Coq Require Import Permutation.
From Salsa Require Import Base.
From Salsa.Proto Require Import Model ProofsGraph ProofsList.

(* ---- projections of the two graphs to [gmap] ---- *)
Definition eproj_f (e : thread -> option (thread * key)) : gmap := fun t => option_map fst (e t).
Definition tproj_f (tr : key -> option (thread * key)) : gmap := fun k => option_map snd (tr k).
Definition eproj (g : dgraph) : gmap := eproj_f (edges g).
Definition tproj (g : dgraph) : gmap := tproj_f (transferred g).

Definition lst {A} (o : option (list A)) : list A := match o with Some l => l | None => [] end.

Lemma eproj_upd e d v x :
  eproj_f (updN e d v) x = updN (eproj_f e) d (option_map fst v) x.
Proof. unfold eproj_f, updN. now destruct (d =? x). Qed.

Lemma tproj_upd tr d v x :
  tproj_f (updN tr d v) x = updN (tproj_f tr) d (option_map snd v) x.
Proof. unfold tproj_f, updN. now destruct (d =? x). Qed.

(* ---- the wait graph part: I1, I2 ---- *)
Record einv_f (e : thread -> option (thread * key)) (qd : key -> list thread)
  (wr : thread -> option wait_result) : Prop := mkEinv {
  (* I1: the blocked-on graph is acyclic (grounded) *)
  E_grounded : grounded (eproj_f e);
  (* I2: blocked threads <-> query_dependents entries, a bijection *)
  E_deps : forall d k, In d (qd k) <-> exists u, e d = Some (u, k);
  E_nodup : forall k, NoDup (qd k);
  (* I2: wait_results is disjoint from edges *)
  E_wres : forall t r, wr t = Some r -> e t = None
}.

Definition einv (g : dgraph) : Prop := einv_f (edges g) (qdeps g) (wres g).

(* relaxed form used while [unblock_runtimes_blocked_on k] is half-way: the threads in [pend]
   still have their edge (for key [k]) but are no longer in [qdeps k] *)
Record einv_p (e : thread -> option (thread * key)) (qd : key -> list thread)
  (wr : thread -> option wait_result) (k : key) (pend : list thread) : Prop := mkEinvP {
  EP_grounded : grounded (eproj_f e);
  EP_deps : forall d k', (In d (qd k') \/ (k' = k /\ In d pend)) <-> exists u, e d = Some (u, k');
  EP_nodup : forall k', NoDup (qd k');
  EP_pend : NoDup pend;
  EP_disj : forall d, In d pend -> ~ In d (qd k);
  EP_wres : forall t r, wr t = Some r -> e t = None
}.

Lemma einv_p_nil e qd wr k : einv_p e qd wr k [] <-> einv_f e qd wr.
Proof.
  split.
  - intros [G D ND NP DJ W]. constructor; auto. intros d k'. rewrite <- D. cbn. tauto.
  - intros [G D ND W]. constructor; auto.
    + intros d k'. rewrite <- D. cbn. tauto.
    + constructor.
Qed.

(* ---- the transfer forest part: I3 ---- *)
Record tinv_f (tr : key -> option (thread * key)) (td : key -> option (list key)) : Prop := mkTinv {
  T_grounded : grounded (tproj_f tr);
  T_inverse : forall x y, (exists th, tr x = Some (th, y)) <-> (exists l, td y = Some l /\ In x l);
  T_nodup : forall y l, td y = Some l -> NoDup l
}.

Definition tinv (g : dgraph) : Prop := tinv_f (transferred g) (tdeps g).

(* relaxed form used inside [unblock_recursive]: the keys in [pend] have lost their parent's
   dependents list but may still have their own [transferred] entry *)
Record tinv_p (tr : key -> option (thread * key)) (td : key -> option (list key))
  (pend : list key) : Prop := mkTinvP {
  TP_grounded : grounded (tproj_f tr);
  TP_listed : forall x y l, td y = Some l -> In x l -> exists th, tr x = Some (th, y);
  TP_entry : forall x th y, tr x = Some (th, y) -> (exists l, td y = Some l /\ In x l) \/ In x pend;
  TP_pend : forall x, In x pend -> forall y l, td y = Some l -> ~ In x l;
  TP_nodup : forall y l, td y = Some l -> NoDup l
}.

Lemma tinv_p_nil tr td : tinv_p tr td [] <-> tinv_f tr td.
Proof.
  split.
  - intros [G L En P ND]. constructor; auto. intros x y; split.
    + intros [th H]. destruct (En _ _ _ H) as [?|[]]; auto.
    + intros (l & H1 & H2). eauto.
  - intros [G I ND]. constructor; auto.
    + intros x y l H1 H2. apply I; eauto.
    + intros x th y H. left. apply I; eauto.
Qed.

Lemma tinv_f_ext tr td tr' td' :
  (forall k, tr k = tr' k) -> (forall k, td k = td' k) -> tinv_f tr td -> tinv_f tr' td'.
Proof.
  intros E1 E2 [G I ND]. constructor.
  - eapply grounded_ext; [|exact G]. intros x; unfold tproj_f; now rewrite E1.
  - intros x y. rewrite <- E1, <- E2. apply I.
  - intros y l. rewrite <- E2. apply ND.
Qed.

Definition Inv (s : state) : Prop := einv (dg s) /\ tinv (dg s).

Lemma init_Inv : Inv init.
Proof.
  split.
  - constructor; cbn.
    + intros t; exists t; now constructor.
    + intros d k; split; [intros [] | intros [u H]; discriminate].
    + intros; constructor.
    + intros; discriminate.
  - constructor; cbn.
    + intros t; exists t; now constructor.
    + intros x y; split; [intros [th H]; discriminate | intros (l & H & _); discriminate].
    + intros; discriminate.
Qed.

(* ---- depends_on vs. reachability ---- *)
Lemma depends_on_true f e p to :
  depends_on_loop f e p to = ROk true -> reaches (eproj_f e) p to.
Proof.
  revert p; induction f as [|f IH]; intros p; cbn [depends_on_loop]; [discriminate|].
  destruct (e p) as [[q kq]|] eqn:Ep.
  - destruct (N.eqb_spec q to) as [->|Hne].
    + intros _. econstructor; [|constructor]. unfold eproj_f; now rewrite Ep.
    + intros H. econstructor; [|apply IH; exact H]. unfold eproj_f; now rewrite Ep.
  - intros [= H]. apply N.eqb_eq in H as ->. constructor.
Qed.

Lemma depends_on_false f e p to :
  depends_on_loop f e p to = ROk false -> p <> to -> ~ reaches (eproj_f e) p to.
Proof.
  revert p; induction f as [|f IH]; intros p; cbn [depends_on_loop]; [discriminate|].
  destruct (e p) as [[q kq]|] eqn:Ep.
  - destruct (N.eqb_spec q to) as [->|Hne]; [discriminate|].
    intros H Hp Hr. inversion Hr as [|t u v Ht Hr']; subst; [congruence|].
    unfold eproj_f in Ht; rewrite Ep in Ht; injection Ht as <-.
    eapply IH; eauto.
  - intros _ Hp Hr. inversion Hr as [|t u v Ht Hr']; subst; [congruence|].
    unfold eproj_f in Ht; rewrite Ep in Ht; discriminate.
Qed.

(* ---- treaches vs. reachability in [transferred] ---- *)
Lemma treaches_false f tr k target :
  treaches f tr k target = ROk false -> ~ reaches (tproj_f tr) k target.
Proof.
  revert k; induction f as [|f IH]; intros k; cbn [treaches]; [discriminate|].
  destruct (N.eqb_spec k target) as [->|Hne]; [discriminate|].
  destruct (tr k) as [[th k']|] eqn:Ek.
  - intros H Hr. inversion Hr as [|t u v Ht Hr']; subst; [congruence|].
    unfold tproj_f in Ht; rewrite Ek in Ht; injection Ht as <-. eapply IH; eauto.
  - intros _ Hr. inversion Hr as [|t u v Ht Hr']; subst; [congruence|].
    unfold tproj_f in Ht; rewrite Ek in Ht; discriminate.
Qed.

(* ------------------------------------------------------------------------------------------ *)
(* add_edge                                                                                    *)
(* ------------------------------------------------------------------------------------------ *)

Lemma add_edge_ok fuel g from k to g' :
  add_edge fuel g from k to = ROk g' ->
  from <> to /\ edges g from = None /\ ~ reaches (eproj g) to from /\
  g' = set_qdeps (set_edges g (updN (edges g) from (Some (to, k))))
         (updN (qdeps g) k (qdeps g k ++ [from])).
Proof.
  unfold add_edge. destruct (N.eqb_spec from to) as [|Hne]; [discriminate|].
  destruct (edges g from) eqn:Ef; [discriminate|].
  intros H. apply bind_ok in H as (b & Hb & H). destruct b; [discriminate|].
  injection H as <-. repeat split; auto.
  eapply depends_on_false; eauto.
Qed.

Lemma add_edge_einv fuel g from k to g' :
  einv g -> wres g from = None -> add_edge fuel g from k to = ROk g' -> einv g'.
Proof.
  intros [G D ND W] Hw H. apply add_edge_ok in H as (Hne & Hf & Hr & ->).
  unfold einv; cbn. constructor.
  - eapply grounded_ext; [intros x; symmetry; apply eproj_upd|]. cbn.
    now apply upd_grounded.
  - intros d k'. unfold updN at 1 2.
    destruct (N.eqb_spec k k') as [<-|Hk], (N.eqb_spec from d) as [<-|Hd].
    + split; [eauto|]. intros _. apply In_snoc; now right.
    + rewrite In_snoc, D. split; [intros [?|?]; [auto|congruence] | auto].
    + rewrite D. split; intros [u H]; [congruence|]. injection H as _ ->; congruence.
    + apply D.
  - intros k'. unfold updN. destruct (N.eqb_spec k k') as [<-|Hk]; auto.
    apply NoDup_snoc; auto. rewrite D. intros [u H]; congruence.
  - intros t r Ht. unfold updN. destruct (N.eqb_spec from t) as [<-|Hd]; [congruence|eauto].
Qed.

(* ------------------------------------------------------------------------------------------ *)
(* unblock_runtime / unblock_runtimes_blocked_on                                               *)
(* ------------------------------------------------------------------------------------------ *)

Lemma unblock_runtime_ok g id r g' :
  unblock_runtime g id r = ROk g' ->
  (exists u k, edges g id = Some (u, k)) /\
  g' = set_notified (set_wres (set_edges g (updN (edges g) id None))
                              (updN (wres g) id (Some r)))
                    ((id, r) :: notified g).
Proof.
  unfold unblock_runtime. destruct (edges g id) as [[u k]|] eqn:E; [|discriminate].
  intros [= <-]. split; eauto.
Qed.

Lemma unblock_runtime_einv_p g d r g' k pend :
  einv_p (edges g) (qdeps g) (wres g) k (d :: pend) ->
  unblock_runtime g d r = ROk g' ->
  einv_p (edges g') (qdeps g') (wres g') k pend /\ qdeps g' = qdeps g.
Proof.
  intros [G D ND NP DJ W] H. apply unblock_runtime_ok in H as ((u & kd & Ed) & ->).
  cbn. split; [|reflexivity]. inversion NP as [|? ? Hd NP']; subst.
  assert (Hkd : kd = k).
  { destruct (proj1 (D d k)) as [u' Hu']; [right; split; auto; now left|]. congruence. }
  subst kd. constructor; auto.
  - eapply grounded_ext; [intros x; symmetry; apply eproj_upd|]. cbn. now apply del_grounded.
  - intros d' k'. unfold updN. destruct (N.eqb_spec d d') as [<-|Hne].
    + split; [|intros [? ?]; discriminate]. intros [Hin | [-> Hin]]; [|contradiction].
      exfalso. destruct (proj1 (D d k')) as [u' Hu']; [now left|].
      assert (k' = k) by congruence. subst. eapply DJ; [now left | exact Hin].
    + rewrite <- D. cbn. intuition congruence.
  - intros d' Hd'. apply DJ. now right.
  - intros t r' Ht. unfold updN in *. destruct (N.eqb_spec d t) as [<-|Hne]; eauto.
Qed.

Lemma unblock_fold_einv_p r k pend : forall g g',
  einv_p (edges g) (qdeps g) (wres g) k pend ->
  foldM (fun g' from_id => unblock_runtime g' from_id r) pend g = ROk g' ->
  einv g' /\ qdeps g' = qdeps g.
Proof.
  induction pend as [|d pend IH]; intros g g' HI; cbn [foldM].
  - intros [= <-]. split; auto. now apply einv_p_nil in HI.
  - intros H. apply bind_ok in H as (g1 & H1 & H2).
    destruct (unblock_runtime_einv_p _ _ _ _ _ _ HI H1) as [HI1 Q1].
    destruct (IH _ _ HI1 H2) as [HI2 Q2]. split; auto. congruence.
Qed.

Lemma unblock_on_einv g k r g' :
  einv g -> unblock_runtimes_blocked_on g k r = ROk g' -> einv g' /\ qdeps g' k = [].
Proof.
  intros [G D ND W] H. unfold unblock_runtimes_blocked_on in H.
  apply unblock_fold_einv_p with (k := k) in H as [HI Q].
  - split; auto. rewrite Q. cbn. apply updN_same.
  - cbn. constructor; auto.
    + intros d k'. rewrite <- D. unfold updN. destruct (N.eqb_spec k k') as [<-|Hk].
      * cbn. intuition.
      * intuition congruence.
    + intros k'. unfold updN. destruct (k =? k'); [constructor | auto].
    + intros d _. rewrite updN_same. intros [].
Qed.

(* E-part operations leave the T-part fields alone and vice versa *)
Definition same_T (g g' : dgraph) : Prop :=
  transferred g' = transferred g /\ tdeps g' = tdeps g.
Definition same_E (g g' : dgraph) : Prop :=
  edges g' = edges g /\ qdeps g' = qdeps g /\ wres g' = wres g /\ notified g' = notified g.

Lemma same_T_refl g : same_T g g. Proof. split; reflexivity. Qed.
Lemma same_T_trans g1 g2 g3 : same_T g1 g2 -> same_T g2 g3 -> same_T g1 g3.
Proof. intros [A B] [C D]; split; congruence. Qed.
Lemma same_E_refl g : same_E g g. Proof. repeat split; reflexivity. Qed.
Lemma same_E_trans g1 g2 g3 : same_E g1 g2 -> same_E g2 g3 -> same_E g1 g3.
Proof. intros (A & B & C & D) (A' & B' & C' & D'); repeat split; congruence. Qed.

Lemma same_T_tinv g g' : same_T g g' -> tinv g -> tinv g'.
Proof. intros [A B]; unfold tinv; now rewrite A, B. Qed.
Lemma same_E_einv g g' : same_E g g' -> einv g -> einv g'.
Proof. intros (A & B & C & _); unfold einv; now rewrite A, B, C. Qed.

Lemma unblock_runtime_same_T g id r g' : unblock_runtime g id r = ROk g' -> same_T g g'.
Proof. intros H; apply unblock_runtime_ok in H as [_ ->]. split; reflexivity. Qed.

Lemma unblock_on_same_T g k r g' : unblock_runtimes_blocked_on g k r = ROk g' -> same_T g g'.
Proof.
  unfold unblock_runtimes_blocked_on. intros H.
  eapply (foldM_inv (fun g'' => same_T g g'')) in H; eauto.
  - intros s a s' _ Hs Hu. eapply same_T_trans; [exact Hs|]. eapply unblock_runtime_same_T; eauto.
  - split; reflexivity.
Qed.

(* ------------------------------------------------------------------------------------------ *)
(* undo_transfer_lock (detach) and attaching                                                   *)
(* ------------------------------------------------------------------------------------------ *)

Lemma tdeps_remove_ok g owner k g' :
  tdeps_remove g owner k = ROk g' ->
  exists l, tdeps g owner = Some l /\
            g' = set_tdeps g (updN (tdeps g) owner (Some (set_remove k l))).
Proof. unfold tdeps_remove. destruct (tdeps g owner); [|discriminate]. intros [= <-]; eauto. Qed.

Lemma tdeps_push_ok g owner k g' :
  tdeps_push g owner k = ROk g' ->
  exists l, tdeps g owner = Some l /\ ~ In k l /\
            g' = set_tdeps g (updN (tdeps g) owner (Some (l ++ [k]))).
Proof.
  unfold tdeps_push. destruct (tdeps g owner) as [l|]; [|discriminate].
  destruct (mem k l) eqn:M; [discriminate|]. intros [= <-].
  exists l; repeat split; auto. now apply mem_false.
Qed.

Lemma detach_f tr td x th o l :
  tinv_f tr td -> tr x = Some (th, o) -> td o = Some l ->
  tinv_f (updN tr x None) (updN td o (Some (set_remove x l))).
Proof.
  intros [G I ND] Hx Ho. constructor.
  - eapply grounded_ext; [intros z; symmetry; apply tproj_upd|]. cbn. now apply del_grounded.
  - intros x' y. unfold updN. destruct (N.eqb_spec x x') as [<-|Hx'], (N.eqb_spec o y) as [<-|Hy].
    + split; [intros [? ?]; discriminate|]. intros (l' & [= <-] & Hin).
      apply set_remove_In in Hin; [tauto | eauto].
    + split; [intros [? ?]; discriminate|]. intros Hl. apply I in Hl as [th' Hl]. congruence.
    + rewrite I. split.
      * intros (l' & Hl' & Hin). assert (l' = l) by congruence. subst.
        eexists; split; eauto. apply set_remove_In; eauto.
      * intros (l' & [= <-] & Hin). apply set_remove_In in Hin; [|eauto]. exists l; tauto.
    + apply I.
  - intros y l'. unfold updN. destruct (N.eqb_spec o y) as [<-|Hy]; [|apply ND].
    intros [= <-]. apply set_remove_NoDup; eauto.
Qed.

Lemma attach_f tr td x th y :
  tinv_f tr td -> tr x = None -> ~ reaches (tproj_f tr) y x ->
  tinv_f (updN tr x (Some (th, y))) (updN td y (Some (lst (td y) ++ [x]))).
Proof.
  intros [G I ND] Hx Hr.
  assert (Hnl : forall y' l', td y' = Some l' -> ~ In x l').
  { intros y' l' Hl Hin. destruct (proj2 (I x y')) as [th' H']; eauto. congruence. }
  constructor.
  - eapply grounded_ext; [intros z; symmetry; apply tproj_upd|]. cbn. now apply upd_grounded.
  - intros x' y'. unfold updN.
    destruct (N.eqb_spec x x') as [<-|Hx'], (N.eqb_spec y y') as [<-|Hy].
    + split; [|eauto]. intros _. eexists; split; eauto. apply In_snoc; now right.
    + split.
      * intros [th' [= _ ->]]. congruence.
      * intros (l' & Hl & Hin). exfalso. eapply Hnl; eauto.
    + rewrite I. split.
      * intros (l' & Hl & Hin). rewrite Hl. cbn. eexists; split; eauto. apply In_snoc; now left.
      * intros (l' & [= <-] & Hin). apply In_snoc in Hin as [Hin|Hin]; [|congruence].
        destruct (td y) as [l|]; cbn in Hin; [eauto | destruct Hin].
    + apply I.
  - intros y' l'. unfold updN. destruct (N.eqb_spec y y') as [<-|Hy]; [|apply ND].
    intros [= <-]. apply NoDup_snoc.
    + destruct (td y) as [l|] eqn:E; cbn; [eauto | constructor].
    + destruct (td y) as [l|] eqn:E; cbn; [eauto | intros []].
Qed.

Lemma undo_transfer_lock_ok g k g' :
  undo_transfer_lock g k = ROk g' ->
  (transferred g k = None /\ g' = g) \/
  (exists th o l, transferred g k = Some (th, o) /\ tdeps g o = Some l /\
     g' = set_tdeps (set_transferred g (updN (transferred g) k None))
            (updN (tdeps g) o (Some (set_remove k l)))).
Proof.
  unfold undo_transfer_lock. destruct (transferred g k) as [[th o]|] eqn:E.
  - intros H. apply tdeps_remove_ok in H as (l & Hl & ->). right.
    exists th, o, l. repeat split; auto.
  - intros [= <-]. now left.
Qed.

Lemma undo_transfer_lock_inv g k g' :
  undo_transfer_lock g k = ROk g' ->
  same_E g g' /\ (tinv g -> tinv g' /\ transferred g' k = None).
Proof.
  intros H. apply undo_transfer_lock_ok in H as [[E ->] | (th & o & l & E & El & ->)].
  - split; [apply same_E_refl | auto].
  - split; [repeat split; reflexivity|]. intros HT. split.
    + unfold tinv; cbn. eapply detach_f; eauto.
    + cbn. apply updN_same.
Qed.

(* ------------------------------------------------------------------------------------------ *)
(* unblock_recursive / unblock_transferred_queries_owned_by                                    *)
(* ------------------------------------------------------------------------------------------ *)

(* entering [unblock_recursive q]: [q]'s own entry and its dependents list are removed, the
   dependents become pending *)
Lemma tinv_p_open tr td q pend :
  tinv_p tr td (q :: pend) ->
  tinv_p (updN tr q None) (updN td q None) (lst (td q) ++ pend).
Proof.
  intros [G L En P ND]. constructor.
  - eapply grounded_ext; [intros z; symmetry; apply tproj_upd|]. cbn. now apply del_grounded.
  - intros x y l0. unfold updN. destruct (N.eqb_spec q y) as [<-|Hy]; [discriminate|].
    intros Hl Hin. destruct (N.eqb_spec q x) as [<-|Hx].
    + exfalso. eapply P; [now left | exact Hl | exact Hin].
    + eauto.
  - intros x th y. unfold updN at 1. destruct (N.eqb_spec q x) as [<-|Hx]; [discriminate|].
    intros Hxy. destruct (En _ _ _ Hxy) as [(l0 & Hl & Hin) | [Hq | Hin]].
    + unfold updN. destruct (N.eqb_spec q y) as [<-|Hy].
      * right. apply in_or_app; left. now rewrite Hl.
      * left; eauto.
    + congruence.
    + right. apply in_or_app; now right.
  - intros x Hx y l0. unfold updN. destruct (N.eqb_spec q y) as [<-|Hy]; [discriminate|].
    intros Hl Hin. apply in_app_or in Hx as [Hx|Hx].
    + destruct (td q) as [lq|] eqn:Eq; [|destruct Hx]. cbn in Hx.
      destruct (L _ _ _ Eq Hx) as [th1 H1]. destruct (L _ _ _ Hl Hin) as [th2 H2]. congruence.
    + eapply P; [right; exact Hx | exact Hl | exact Hin].
  - intros y l0. unfold updN. destruct (N.eqb_spec q y) as [<-|Hy]; [discriminate|]. apply ND.
Qed.

Lemma unblock_recursive_inv r : forall fuel g q g' pend,
  unblock_recursive fuel g q r = ROk g' ->
  einv g -> tinv_p (transferred g) (tdeps g) (q :: pend) ->
  einv g' /\ tinv_p (transferred g') (tdeps g') pend.
Proof.
  induction fuel as [|f IH]; intros g q g' pend; cbn [unblock_recursive]; [discriminate|].
  set (g1 := set_transferred g (updN (transferred g) q None)).
  set (l := match tdeps g1 q with Some l => l | None => [] end).
  set (g2 := set_tdeps g1 (updN (tdeps g1) q None)).
  intros H HE HT.
  assert (HE2 : einv g2) by exact HE.
  assert (HT2 : tinv_p (transferred g2) (tdeps g2) (l ++ pend)).
  { apply tinv_p_open in HT. exact HT. }
  clearbody g2 l. clear HE HT g1. revert g2 H HE2 HT2.
  induction l as [|c l IHl]; intros g2 H HE2 HT2; cbn [foldM] in H.
  - injection H as <-. auto.
  - apply bind_ok in H as (g3 & H3 & H). apply bind_ok in H3 as (g4 & H4 & H3).
    pose proof (unblock_on_same_T _ _ _ _ H4) as [S1 S2].
    apply unblock_on_einv in H4 as [HE4 _]; auto.
    eapply IH in H3 as [HE3 HT3]; eauto.
    rewrite S1, S2. exact HT2.
Qed.

Lemma unblock_transferred_inv fuel g k r g' :
  unblock_transferred_queries_owned_by fuel g k r = ROk g' ->
  einv g -> tinv g -> einv g' /\ tinv g'.
Proof.
  unfold unblock_transferred_queries_owned_by. intros H HE HT.
  apply bind_ok in H as (g1 & H1 & H).
  apply undo_transfer_lock_inv in H1 as [SE HT1]. destruct (HT1 HT) as [HT1' Hk].
  eapply unblock_recursive_inv with (pend := []) in H as [HE' HT'].
  - split; auto. now apply tinv_p_nil.
  - eapply same_E_einv; eauto.
  - destruct HT1' as [G I ND]. constructor; auto.
    + intros x y l Hl Hin. apply I; eauto.
    + intros x th y Hx. left. apply I; eauto.
    + intros x [Hx|[]] y l Hl Hin. subst x.
      destruct (proj2 (I k y)) as [th Hth]; eauto. congruence.
Qed.

(* Proto/ProofsStep.v — the step-level theorems: every operation of the alphabet preserves the
   invariants; who is woken when; when a cycle is reported; reachable states. *)
From Coq Require Import Permutation.
From Salsa Require Import Base.
From Salsa.Proto Require Import Model ProofsGraph ProofsList ProofsInv ProofsTransfer ProofsWake
  ProofsSubtree.

(* ------------------------------------------------------------------------------------------ *)
(* Client preconditions                                                                        *)
(* ------------------------------------------------------------------------------------------ *)

(* What the invariants need from the client — nothing but:
   * a thread that blocks is not sitting on an unreceived wait result
     (it is executing, dependency_graph.rs:84-90 has returned for its previous wait);
   * [transfer_pre] (ProofsTransfer.v) for a transfer.
   Everything else the Rust code asserts is checked by the model itself and shows up as [RErr]. *)
Definition pre (s : state) (o : op) : Prop :=
  match o with
  | OBlockOn t _ _ => wres (dg s) t = None
  | OTransfer t k n _ => transfer_pre (dg s) k t n
  | _ => True
  end.

(* the documented, stronger protocol discipline checked on real traces by the replay driver *)
Lemma runningb_spec g t : runningb g t = true <-> edges g t = None /\ wres g t = None.
Proof.
  unfold runningb. destruct (edges g t), (wres g t); split; try tauto; try discriminate;
    intros [? ?]; discriminate.
Qed.

Lemma preb_pre fuel s o : preb fuel s o = true -> pre s o.
Proof.
  destruct o; cbn [preb pre]; auto.
  - intros H. now apply runningb_spec in H.
  - rewrite !andb_true_iff. intros [[[Hr _] Hne] Hv]. apply runningb_spec in Hr as [Er Wr].
    repeat split; auto.
    + intros ->. rewrite N.eqb_refl in Hne. discriminate.
    + intros Hn. rewrite Hn in Hv.
      destruct (treaches fuel (transferred (dg s)) new_owner k) as [b|] eqn:T; [|discriminate].
      destruct b; [discriminate|]. eapply treaches_false; eauto.
Qed.

(* ------------------------------------------------------------------------------------------ *)
(* operations that do not touch the dependency graph                                           *)
(* ------------------------------------------------------------------------------------------ *)

Lemma runtime_block_spec fuel g t id r :
  runtime_block fuel g t id = ROk r ->
  (r = CCycle false /\ reaches (eproj g) id t) \/ (r = CRunning id /\ ~ reaches (eproj g) id t).
Proof.
  unfold runtime_block. destruct (N.eqb_spec t id) as [->|Hne].
  - intros [= <-]. left. split; auto. constructor.
  - intros H. apply bind_ok in H as (b & Hb & H). destruct b; injection H as <-.
    + left. split; auto. eapply depends_on_true; eauto.
    + right. split; auto. eapply depends_on_false; eauto.
Qed.

(* C19 "a wait that would close a cycle is reported as a query cycle": try_claim / peek_claim *)
Lemma try_claim_spec fuel c s t k allow s' r :
  try_claim fuel c s t k allow = ROk (s', r) ->
  dg s' = dg s /\
  (forall k', k' <> k -> sync s' k' = sync s k') /\
  match r with
  | CRunning other => other <> t /\ ~ reaches (eproj (dg s)) other t
  | CCycle _ => exists owner, reaches (eproj (dg s)) owner t
  | CClaimed _ => True
  end.
Proof.
  unfold try_claim. destruct (sync s k) as [st|] eqn:Es.
  - destruct (ss_id st) as [id|].
    + intros H. apply bind_ok in H as (r0 & Hr & H). injection H as <- <-. cbn in *.
      split; auto. split; [intros k' Hk; now rewrite updN_other by auto|].
      apply runtime_block_spec in Hr as [[-> Hr] | [-> Hr]]; eauto.
      split; auto. intros ->. apply Hr. constructor.
    + intros H. apply bind_ok in H as (bt & Hbt & H).
      unfold block_transferred in Hbt. apply bind_ok in Hbt as (o & _ & Hbt).
      destruct o as [owner|].
      * apply bind_ok in Hbt as (b & Hb & Hbt).
        destruct ((owner =? t) || b) eqn:Eo; injection Hbt as <-.
        -- assert (Hreach : reaches (eproj (dg s)) owner t).
           { apply orb_true_iff in Eo as [Eo | ->].
             - apply N.eqb_eq in Eo as ->. constructor.
             - eapply depends_on_true; eauto. }
           destruct allow.
           ++ destruct c.
              ** destruct (ss_twice st); [discriminate|]. injection H as <- <-. cbn.
                 split; auto. split; auto. intros k' Hk; now rewrite updN_other by auto.
              ** injection H as <- <-. auto.
           ++ injection H as <- <-. split; auto. split; eauto.
        -- apply bind_ok in H as (r0 & Hr & H). injection H as <- <-. cbn in *.
           split; auto. split; [intros k' Hk; now rewrite updN_other by auto|].
           apply runtime_block_spec in Hr as [[-> Hr] | [-> Hr]]; eauto.
           split; auto. intros ->. apply Hr. constructor.
      * injection Hbt as <-. destruct c; injection H as <- <-; cbn; split; auto; split; auto.
        intros k' Hk; now rewrite updN_other by auto.
  - destruct c; intros [= <- <-]; cbn; split; auto; split; auto.
    intros k' Hk; now rewrite updN_other by auto.
Qed.

(* I1: add_edge is performed only when depends_on(to, from) is false; otherwise the call
   returns Cycle and the state is unchanged *)
Lemma block_on_spec fuel g t k other g' br :
  block_on fuel g t k other = ROk (g', br) ->
  (br = BCycle <-> reaches (eproj g) other t) /\
  (br = BCycle -> g' = g) /\
  (br = BBlocked -> add_edge fuel g t k other = ROk g').
Proof.
  unfold block_on. destruct (N.eqb_spec t other) as [->|Hne].
  - intros [= <- <-]. repeat split; auto; try discriminate. intros _; constructor.
  - intros H. apply bind_ok in H as (b & Hb & H). destruct b.
    + injection H as <- <-. repeat split; auto; try discriminate.
      intros _. eapply depends_on_true; eauto.
    + apply bind_ok in H as (g1 & H1 & H). injection H as <- <-.
      split; [|split; [discriminate | auto]].
      split; [discriminate|]. intros Hr. exfalso.
      eapply depends_on_false; eauto.
Qed.

(* ------------------------------------------------------------------------------------------ *)
(* every step preserves the invariants                                                         *)
(* ------------------------------------------------------------------------------------------ *)

Lemma receive_ok g t g' o :
  receive g t = ROk (g', o) ->
  (o = None /\ g' = g /\ wres g t = None) \/
  (exists r, o = Some r /\ wres g t = Some r /\ edges g t = None /\
             g' = set_wres g (updN (wres g) t None)).
Proof.
  unfold receive. destruct (wres g t) as [r|] eqn:W.
  - destruct (edges g t) eqn:E; [discriminate|]. intros [= <- <-]. right. eauto.
  - intros [= <- <-]. now left.
Qed.

Lemma step_Inv fuel s o s' out :
  Inv s -> pre s o -> step fuel s o = ROk (s', out) -> Inv s'.
Proof.
  intros [HE HT] Hp. unfold Inv. destruct o; cbn [step pre] in *; intros H.
  - apply bind_ok in H as ([s1 r] & H1 & H). injection H as <- _.
    apply try_claim_spec in H1 as [-> _]. auto.
  - apply bind_ok in H as ([s1 r] & H1 & H). injection H as <- _.
    apply try_claim_spec in H1 as [-> _]. auto.
  - apply bind_ok in H as ([g1 br] & H1 & H). injection H as <- _. cbn.
    apply block_on_spec in H1 as (_ & Hc & Hb). destruct br.
    + specialize (Hb eq_refl). pose proof Hb as Hb'.
      apply add_edge_ok in Hb' as (_ & _ & _ & Eg). split.
      * eapply add_edge_einv; eauto.
      * subst g1. exact HT.
    + rewrite (Hc eq_refl). auto.
  - apply bind_ok in H as ([g1 r] & H1 & H). injection H as <- _. cbn.
    apply receive_ok in H1 as [(_ & -> & _) | (r0 & _ & Wt & Et & ->)]; auto.
    split; [|exact HT]. destruct HE as [G D ND W]. constructor; auto.
    intros t' r'. cbn. unfold updN. destruct (N.eqb_spec t t'); [discriminate | eauto].
  - apply bind_ok in H as ([s1 st] & H1 & H). injection H as <- _.
    unfold sync_remove in H1. destruct (sync s k); [|discriminate]. injection H1 as <- _. auto.
  - apply bind_ok in H as ([s1 st] & H1 & H). injection H as <- _.
    unfold release_self in H1. destruct (sync s k) as [st0|]; [|discriminate].
    destruct (ss_twice st0); [|injection H1 as <- _; auto].
    destruct (ss_waiting st0); [|injection H1 as <- _; auto].
    apply bind_ok in H1 as (g1 & Hg & H1). injection H1 as <- _. cbn [dg set_dg set_sync] in *.
    unfold repoint_transferred_dependents in Hg. apply bind_ok in Hg as (o & _ & Hg).
    destruct o as [t0|]; [|injection Hg as <-; auto].
    apply update_transferred_edges_inv in Hg as [HE1 [ST _]]; auto.
    split; auto. eapply same_T_tinv; eauto.
  - injection H as <- _. unfold mark_as_transfer_target. destruct (sync s k); auto.
  - apply bind_ok in H as ([s1 b] & H1 & H). injection H as <- _.
    unfold transfer in H1. destruct (sync s k) as [st|]; [|discriminate].
    apply bind_ok in H1 as ([g1 b1] & H1 & H2). injection H2 as <- _. cbn in *.
    eapply transfer_lock_inv; eauto.
  - apply bind_ok in H as (g1 & H1 & H). injection H as <- _. cbn.
    apply undo_transfer_lock_inv in H1 as [SE HT1]. split.
    + eapply same_E_einv; eauto.
    + now apply HT1.
  - apply bind_ok in H as (g1 & H1 & H). injection H as <- _. cbn.
    pose proof (unblock_on_same_T _ _ _ _ H1) as ST.
    apply unblock_on_einv in H1 as [HE1 _]; auto. split; auto. eapply same_T_tinv; eauto.
  - apply bind_ok in H as (g1 & H1 & H). injection H as <- _. cbn.
    eapply unblock_transferred_inv; eauto.
Qed.

(* ------------------------------------------------------------------------------------------ *)
(* reachable states                                                                            *)
(* ------------------------------------------------------------------------------------------ *)

(* a client: any list of operations, each satisfying [pre] in the state it is issued in and not
   tripping an assertion of the (debug-build) Rust code or the model's fuel *)
Fixpoint valid_from (fuel : nat) (s : state) (l : list op) : Prop :=
  match l with
  | [] => True
  | o :: l' =>
    pre s o /\ exists s' out, step fuel s o = ROk (s', out) /\ valid_from fuel s' l'
  end.

Definition valid_client (fuel : nat) (trace : list op) : Prop := valid_from fuel init trace.

Lemma valid_from_run fuel : forall l s,
  Inv s -> valid_from fuel s l -> exists s', run fuel l s = ROk s' /\ Inv s'.
Proof.
  induction l as [|o l IH]; intros s HI HV; cbn [run].
  - eauto.
  - destruct HV as (Hp & s1 & out & Hs & HV). rewrite Hs. cbn [bind fst].
    apply IH; auto. eapply step_Inv; eauto.
Qed.

Theorem protocol_Inv fuel trace :
  valid_client fuel trace -> exists s, run fuel trace init = ROk s /\ Inv s.
Proof. intros HV. apply valid_from_run; auto. apply init_Inv. Qed.

(* "reachable" as a predicate, for the corollaries *)
Inductive reachable (fuel : nat) : state -> Prop :=
| reach_init : reachable fuel init
| reach_step s o s' out :
    reachable fuel s -> pre s o -> step fuel s o = ROk (s', out) -> reachable fuel s'.

Lemma reachable_Inv fuel s : reachable fuel s -> Inv s.
Proof. induction 1; [apply init_Inv | eapply step_Inv; eauto]. Qed.

Lemma valid_from_reachable fuel : forall l s s',
  reachable fuel s -> valid_from fuel s l -> run fuel l s = ROk s' -> reachable fuel s'.
Proof.
  induction l as [|o l IH]; intros s s' HR HV; cbn [run].
  - now intros [= <-].
  - destruct HV as (Hp & s1 & out & Hs & HV). rewrite Hs. cbn [bind fst].
    apply IH; auto. econstructor; eauto.
Qed.

(* ------------------------------------------------------------------------------------------ *)
(* I4: who is woken, how, how often                                                            *)
(* ------------------------------------------------------------------------------------------ *)

Definition blk (t : thread) (k : key) (g g' : dgraph) : Prop :=
  edges g t = None /\ (exists u, edges g' t = Some (u, k)) /\
  (forall t', t' <> t -> edges g' t' = edges g t') /\
  wres g' = wres g /\ notified g' = notified g.

Lemma add_edge_blk fuel g from k to g' : add_edge fuel g from k to = ROk g' -> blk from k g g'.
Proof.
  intros H. apply add_edge_ok in H as (_ & E & _ & ->). repeat split; auto; cbn.
  - rewrite updN_same. eauto.
  - intros t' Ht. now rewrite updN_other by auto.
Qed.

Lemma same_E_wkW r g g' : same_E g g' -> wkW r [] g g'.
Proof.
  intros (A & B & C & D). apply wkW_nil; auto. intros t; unfold wait_key; now rewrite A.
Qed.

Lemma rw_rel_wkW r g g' : rw_rel g g' -> wkW r [] g g'.
Proof. intros (_ & _ & W & N & K). apply wkW_nil; auto. Qed.

Lemma reroot_same_E q n ot oo : forall fuel g src g',
  reroot fuel g q n ot oo src = ROk g' -> same_E g g'.
Proof.
  induction fuel as [|f IH]; intros g src g'; cbn [reroot]; [discriminate|].
  destruct (transferred g src) as [[th nt]|].
  - destruct (nt =? q).
    + intros H. apply bind_ok in H as (g1 & H1 & H).
      apply tdeps_remove_ok in H1 as (l & _ & ->).
      destruct (oo =? n).
      * injection H as <-. repeat split; reflexivity.
      * apply tdeps_push_ok in H as (l' & _ & _ & ->). repeat split; reflexivity.
    + apply IH.
  - intros [= <-]. apply same_E_refl.
Qed.

Lemma unblock_transfer_target_wk fuel g q n g' :
  unblock_transfer_target fuel g q n = ROk g' -> wk Completed g g'.
Proof.
  intros H. apply unblock_transfer_target_ok in H as [-> | (k & i & d & _ & H)].
  - exists []. apply wkW_refl.
  - apply unblock_runtime_wkW in H. exists [d].
    destruct H as (N & L & A & B). split; [exact N|]. split; [exact L|]. split; [exact A | exact B].
Qed.

Lemma rewrite_edge_rw fuel n g d g' : rewrite_edge fuel n g d = ROk g' -> rw_rel g g'.
Proof.
  unfold rewrite_edge. destruct (edges g d) as [[u k]|] eqn:Ed; [|discriminate].
  intros Hr. apply bind_ok in Hr as (bb & _ & Hr). destruct bb; [discriminate|]. injection Hr as <-.
  split; [split; reflexivity|]. repeat split; auto. intros t. cbn. unfold updN.
  destruct (N.eqb_spec d t) as [<-|]; auto. now rewrite Ed.
Qed.

Lemma update_transferred_edges_rw n : forall fuel g q g',
  update_transferred_edges fuel g q n = ROk g' -> rw_rel g g'.
Proof.
  induction fuel as [|f IH]; intros g q g'; cbn [update_transferred_edges]; [discriminate|].
  intros Hu. apply bind_ok in Hu as (ga & Ha & Hu).
  assert (Ra : rw_rel g ga).
  { eapply (foldM_inv (fun g'' => rw_rel g g'')) in Ha; eauto; [|apply rw_rel_refl].
    intros s a s' _ Rs Hr. eapply rw_rel_trans; [exact Rs|]. eapply rewrite_edge_rw; eauto. }
  eapply (foldM_inv (fun g'' => rw_rel g g'')) in Hu; eauto.
  intros s a s' _ Rs Hr. eapply rw_rel_trans; [exact Rs|]. eapply IH; eauto.
Qed.

Lemma transfer_rest_wake fuel g1 q cur n nt tc g' b :
  transfer_rest fuel g1 q cur n nt tc = ROk (g', b) ->
  exists W g2, wkW Completed W g1 g2 /\
               ((b = false /\ g' = g2) \/ (b = true /\ blk cur n g2 g')).
Proof.
  unfold transfer_rest. destruct tc.
  - intros H. apply bind_ok in H as (g2 & H2 & H). apply bind_ok in H as (g3 & H3 & H).
    apply bind_ok in H as (dep2 & _ & H).
    apply unblock_transfer_target_wk in H2 as [W H2].
    assert (HW3 : wkW Completed [] g2 g3).
    { apply rw_rel_wkW. eapply update_transferred_edges_rw; eauto. }
    pose proof (wkW_trans _ _ _ _ _ _ H2 HW3) as HW. rewrite app_nil_r in HW.
    exists W, g3. split; auto.
    destruct (negb (cur =? nt) && negb dep2).
    + apply bind_ok in H as (g4 & H4 & H). injection H as <- <-. right. split; auto.
      eapply add_edge_blk; eauto.
    + injection H as <- <-. now left.
  - intros [= <- <-]. exists [], g1. split; [apply wkW_refl | now left].
Qed.

Lemma transfer_lock_wake fuel g q cur n nid g' b :
  transfer_lock fuel g q cur n nid = ROk (g', b) ->
  exists W g2, wkW Completed W g g2 /\
               ((b = false /\ g' = g2) \/ (b = true /\ blk cur n g2 g')).
Proof.
  unfold transfer_lock. intros H.
  apply bind_ok in H as (nt & _ & H). apply bind_ok in H as (dep & _ & H).
  destruct (negb ((nt =? cur) || dep)); [discriminate|].
  assert (Fin : forall g1, same_E g g1 ->
            transfer_finish fuel g1 q cur n nt true = ROk (g', b) \/
            transfer_finish fuel g1 q cur n nt (negb (cur =? nt)) = ROk (g', b) ->
            exists W g2, wkW Completed W g g2 /\
               ((b = false /\ g' = g2) \/ (b = true /\ blk cur n g2 g'))).
  { intros g1 SE HF.
    assert (HF' : exists tc, transfer_finish fuel g1 q cur n nt tc = ROk (g', b))
      by (destruct HF; eauto).
    destruct HF' as [tc HF']. rewrite transfer_finish_split in HF'.
    apply bind_ok in HF' as (g4 & H4 & HF'). apply attach_tail_ok in H4 as (SE4 & _ & _).
    apply transfer_rest_wake in HF' as (W & g2 & HW & Hb).
    exists W, g2. split; auto.
    pose proof (same_E_wkW Completed _ _ (same_E_trans _ _ _ SE SE4)) as H0.
    exact (wkW_trans _ [] W _ _ _ H0 HW). }
  destruct (transferred g q) as [[ot oo]|].
  - destruct ((ot =? nt) && (oo =? n)).
    { injection H as <- <-. exists [], g. split; [apply wkW_refl | now left]. }
    apply bind_ok in H as (g1 & H1 & H). apply bind_ok in H as (g3 & H3 & H).
    apply tdeps_remove_ok in H1 as (l & _ & ->). apply reroot_same_E in H3.
    eapply Fin; [|left; exact H].
    eapply same_E_trans; [|exact H3]. repeat split; reflexivity.
  - eapply Fin; [|right; exact H]. repeat split; reflexivity.
Qed.

(* the result a thread woken by operation [o] receives *)
Definition woken_by (o : op) : wait_result :=
  match o with
  | OUnblock _ _ r | OUnblockTransferred _ _ r => r
  | _ => Completed     (* OTransfer: ownership handed to the waiting thread itself *)
  end.

(* what one step may do to one thread; [W] = the threads notified by the step *)
Inductive tstep (o : op) (out : outcome) (g g' : dgraph) (W : list thread) (t : thread) : Prop :=
| ts_same :
    ~ In t W -> wait_key g' t = wait_key g t -> wres g' t = wres g t -> tstep o out g g' W t
| ts_block k :
    ~ In t W -> edges g t = None -> wres g t = None ->
    wait_key g' t = Some k -> wres g' t = None ->
    ((exists other, o = OBlockOn t k other /\ out = XBlock BBlocked) \/
     (exists q id, o = OTransfer t q k id /\ out = XTransfer true)) ->
    tstep o out g g' W t
| ts_wake :
    In t W -> edges g t <> None -> edges g' t = None -> wres g' t = Some (woken_by o) ->
    (match o with OUnblock _ _ _ | OUnblockTransferred _ _ _ | OTransfer _ _ _ _ => True
             | _ => False end) ->
    tstep o out g g' W t
| ts_receive r :
    ~ In t W -> edges g t = None -> wres g t = Some r -> edges g' t = None -> wres g' t = None ->
    o = OReceive t -> out = XReceive (Some r) -> tstep o out g g' W t.

Lemma wkW_tstep o out g g' W :
  wkW (woken_by o) W g g' ->
  (match o with OUnblock _ _ _ | OUnblockTransferred _ _ _ | OTransfer _ _ _ _ => True
           | _ => False end) ->
  forall t, tstep o out g g' W t.
Proof.
  intros (N & L & A & B) Ho t. destruct (in_dec N.eq_dec t W) as [Hin|Hn].
  - destruct (A _ Hin) as (E0 & E1 & Wr). now apply ts_wake.
  - destruct (B _ Hn) as [K Wr]. now apply ts_same.
Qed.

Lemma same_dg_tstep o out g t : tstep o out g g [] t.
Proof. apply ts_same; auto. Qed.

Theorem step_threads fuel s o s' out :
  pre s o -> step fuel s o = ROk (s', out) ->
  exists W, NoDup W /\
    notified (dg s') = List.rev (map (fun t => (t, woken_by o)) W) ++ notified (dg s) /\
    forall t, tstep o out (dg s) (dg s') W t.
Proof.
  intros Hp H.
  assert (Same : dg s' = dg s -> exists W, NoDup W /\
    notified (dg s') = List.rev (map (fun t => (t, woken_by o)) W) ++ notified (dg s) /\
    forall t, tstep o out (dg s) (dg s') W t).
  { intros ->. exists []. split; [constructor|]. split; [reflexivity|].
    intros t. apply same_dg_tstep. }
  destruct o; cbn [step pre] in *.
  - apply bind_ok in H as ([s1 r] & H1 & H). injection H as <- _.
    apply try_claim_spec in H1 as [E _]. auto.
  - apply bind_ok in H as ([s1 r] & H1 & H). injection H as <- _.
    apply try_claim_spec in H1 as [E _]. auto.
  - apply bind_ok in H as ([g1 br] & H1 & H). injection H as <- <-. cbn [dg set_dg fst snd].
    apply block_on_spec in H1 as (_ & Hc & Hb). destruct br.
    + specialize (Hb eq_refl). apply add_edge_blk in Hb as (E0 & [u E1] & Eo & Wr & Nt).
      exists []. split; [constructor|]. split; [now rewrite Nt|]. intros t'.
      destruct (N.eq_dec t' t) as [->|Hne].
      * apply ts_block with (k := k); auto.
        -- unfold wait_key. now rewrite E1.
        -- now rewrite Wr.
        -- left. eauto.
      * apply ts_same; auto; [unfold wait_key; now rewrite Eo | now rewrite Wr].
    + rewrite (Hc eq_refl). exists []. split; [constructor|]. split; [reflexivity|].
      intros t'. apply same_dg_tstep.
  - apply bind_ok in H as ([g1 r] & H1 & H). injection H as <- <-. cbn [dg set_dg fst snd].
    apply receive_ok in H1 as [(-> & -> & _) | (r0 & -> & Wt & Et & ->)].
    + exists []. split; [constructor|]. split; [reflexivity|]. intros t'. apply same_dg_tstep.
    + exists []. split; [constructor|]. split; [reflexivity|]. intros t'.
      destruct (N.eq_dec t' t) as [->|Hne].
      * eapply ts_receive; eauto. cbn. apply updN_same.
      * apply ts_same; auto. cbn. now rewrite updN_other by auto.
  - apply bind_ok in H as ([s1 st] & H1 & H). injection H as <- _.
    unfold sync_remove in H1. destruct (sync s k); [|discriminate]. injection H1 as <- _. auto.
  - apply bind_ok in H as ([s1 st] & H1 & H). injection H as <- _.
    unfold release_self in H1. destruct (sync s k) as [st0|]; [|discriminate].
    destruct (ss_twice st0); [|injection H1 as <- _; auto].
    destruct (ss_waiting st0); [|injection H1 as <- _; auto].
    apply bind_ok in H1 as (g1 & Hg & H1). injection H1 as <- _. cbn [dg set_dg set_sync] in *.
    unfold repoint_transferred_dependents in Hg. apply bind_ok in Hg as (o & _ & Hg).
    destruct o as [t0|]; [|injection Hg as <-; auto].
    apply update_transferred_edges_rw in Hg. apply (rw_rel_wkW Completed) in Hg.
    exists []. destruct Hg as (N & L & A & B). split; auto. split; auto.
    intros t'. destruct (B t') as [K Wr]; auto. apply ts_same; auto.
  - injection H as <- _. apply Same. unfold mark_as_transfer_target.
    destruct (sync s k); reflexivity.
  - apply bind_ok in H as ([s1 b] & H1 & H). injection H as <- <-.
    unfold transfer in H1. destruct (sync s k) as [st|]; [|discriminate].
    apply bind_ok in H1 as ([g1 b1] & H1 & H2). injection H2 as <- <-. cbn [dg set_dg set_sync fst snd] in *.
    destruct Hp as (Ec & Wc & _).
    apply transfer_lock_wake in H1 as (W & g2 & HW & [[-> ->] | [-> HB]]).
    + exists W. destruct HW as (N & L & A & B). split; auto. split; auto.
      eapply wkW_tstep; [|exact I]. split; [exact N|]. split; [exact L|]. split; [exact A | exact B].
    + exists W. pose proof HW as (N & L & A & B).
      destruct HB as (E0 & [u E1] & Eo & Wr & Nt).
      split; auto. split; [now rewrite Nt|]. intros t'.
      assert (HnW : ~ In t W) by (intros Hin; destruct (A _ Hin) as (E & _); auto).
      destruct (N.eq_dec t' t) as [->|Hne].
      * destruct (B _ HnW) as [_ Wr2].
        apply ts_block with (k := new_owner); auto.
        -- unfold wait_key. now rewrite E1.
        -- rewrite Wr. congruence.
        -- right. eauto.
      * destruct (in_dec N.eq_dec t' W) as [Hin|Hn].
        -- destruct (A _ Hin) as (Ea & Eb & Wc'). apply ts_wake; auto.
           ++ now rewrite Eo.
           ++ now rewrite Wr.
        -- destruct (B _ Hn) as [K Wr2]. apply ts_same; auto.
           ++ unfold wait_key in *. now rewrite Eo.
           ++ now rewrite Wr.
  - apply bind_ok in H as (g1 & H1 & H). injection H as <- _. cbn [dg set_dg].
    apply undo_transfer_lock_wkW with (r := Completed) in H1.
    exists []. destruct H1 as (N & L & A & B). split; auto. split; auto.
    intros t'. destruct (B t') as [K Wr]; auto. apply ts_same; auto.
  - apply bind_ok in H as (g1 & H1 & H). injection H as <- _. cbn [dg set_dg].
    apply unblock_on_wkW in H1 as [HW _]. exists (qdeps (dg s) k).
    pose proof HW as (N & L & A & B). split; auto. split; auto.
    eapply wkW_tstep; [exact HW | exact I].
  - apply bind_ok in H as (g1 & H1 & H). injection H as <- _. cbn [dg set_dg].
    apply unblock_transferred_wk in H1 as [W HW]. exists W.
    pose proof HW as (N & L & A & B). split; auto. split; auto.
    eapply wkW_tstep; [exact HW | exact I].
Qed.

(* I5 (direct dependents): releasing [k] wakes every thread blocked on [k], with the release
   result, and nobody else; afterwards nobody is registered as waiting for [k] *)
Theorem unblock_wakes_all fuel s t k r s' out :
  Inv s -> step fuel s (OUnblock t k r) = ROk (s', out) ->
  qdeps (dg s') k = [] /\
  (forall d, (exists u, edges (dg s) d = Some (u, k)) ->
             edges (dg s') d = None /\ wres (dg s') d = Some r) /\
  (forall d, (forall u, edges (dg s) d <> Some (u, k)) ->
             wait_key (dg s') d = wait_key (dg s) d /\ wres (dg s') d = wres (dg s) d).
Proof.
  intros [[G D ND W] _] H. cbn [step] in H.
  apply bind_ok in H as (g1 & H1 & H). injection H as <- _. cbn [dg set_dg].
  apply unblock_on_wkW in H1 as [(N & L & A & B) Q]. split; auto. split.
  - intros d Hd. apply D in Hd. destruct (A _ Hd) as (_ & ? & ?). auto.
  - intros d Hd. apply B. rewrite D. intros [u Hu]. eapply Hd; eauto.
Qed.

(* ------------------------------------------------------------------------------------------ *)
(* an executable validity check (for the Examples and the replay driver)                       *)
(* ------------------------------------------------------------------------------------------ *)

Fixpoint validb (fuel : nat) (s : state) (l : list op) : bool :=
  match l with
  | [] => true
  | o :: l' =>
    preb fuel s o &&
    match step fuel s o with
    | ROk r => validb fuel (fst r) l'
    | RErr _ => false
    end
  end.

Lemma validb_valid fuel : forall l s, validb fuel s l = true -> valid_from fuel s l.
Proof.
  induction l as [|o l IH]; intros s; cbn [validb valid_from]; auto.
  rewrite andb_true_iff. intros [Hp H]. split; [eapply preb_pre; eauto|].
  destruct (step fuel s o) as [[s' out]|] eqn:E; [|discriminate].
  exists s', out. split; auto.
Qed.

(* ------------------------------------------------------------------------------------------ *)
(* the statements exported as Props/C19.v                                                      *)
(* ------------------------------------------------------------------------------------------ *)

Lemma no_wait_cycle fuel s :
  reachable fuel s ->
  (forall t u k, edges (dg s) t = Some (u, k) -> ~ reaches (eproj (dg s)) u t) /\
  (forall t, exists r, reaches (eproj (dg s)) t r /\ edges (dg s) r = None) /\
  (forall live : thread -> Prop,
     (forall t u k, live t -> edges (dg s) t = Some (u, k) -> live u) ->
     forall t, live t -> exists r, live r /\ edges (dg s) r = None).
Proof.
  intros HR. apply reachable_Inv in HR as [[G _ _ _] _]. split; [|split].
  - intros t u k E. apply (grounded_no_cycle (eproj (dg s)) t u G). unfold eproj, eproj_f. now rewrite E.
  - intros t. destruct (someone_runs _ G t) as (r & Hr & Hn). exists r. split; auto.
    unfold eproj_f in Hn. destruct (edges (dg s) r); [discriminate | auto].
  - intros live Cl t Lt.
    destruct (not_all_blocked _ live G) with (t := t) as (r & Lr & Hn); auto.
    + intros x u Lx Hx. unfold eproj_f in Hx. destruct (edges (dg s) x) as [[u' k]|] eqn:E;
        [|discriminate]. injection Hx as <-. eauto.
    + exists r. split; auto. unfold eproj_f in Hn. destruct (edges (dg s) r); [discriminate | auto].
Qed.

Lemma cycle_reported fuel s :
  reachable fuel s ->
  (forall t k other s' out,
     step fuel s (OBlockOn t k other) = ROk (s', out) ->
     (out = XBlock BCycle <-> reaches (eproj (dg s)) other t) /\
     (out = XBlock BCycle -> s' = s) /\
     (out = XBlock BBlocked ->
        edges (dg s) t = None /\ edges (dg s') t = Some (other, k) /\
        In t (qdeps (dg s') k))) /\
  (forall o t k allow s' r,
     o = OClaim t k allow \/ o = OPeek t k allow ->
     step fuel s o = ROk (s', XClaim r) ->
     dg s' = dg s /\
     match r with
     | CRunning other => other <> t /\ ~ reaches (eproj (dg s)) other t
     | CCycle _ => exists owner, reaches (eproj (dg s)) owner t
     | CClaimed _ => True
     end).
Proof.
  intros _. split.
  - intros t k other s' out H. cbn [step] in H.
    apply bind_ok in H as ([g1 br] & H1 & H). injection H as <- <-. cbn [fst snd].
    apply block_on_spec in H1 as (Hi & Hc & Hb). split; [|split].
    + rewrite <- Hi. split; [intros [= ->]; auto | intros ->; auto].
    + intros [= ->]. rewrite (Hc eq_refl). destruct s; reflexivity.
    + intros [= ->]. specialize (Hb eq_refl). apply add_edge_ok in Hb as (_ & E & _ & ->).
      cbn. rewrite !updN_same. split; auto. split; auto. apply In_snoc; now right.
  - intros o t k allow s' r [-> | ->] H; cbn [step] in H;
      apply bind_ok in H as ([s1 r1] & H1 & H); injection H as <- <-;
      apply try_claim_spec in H1 as (E & _ & M); auto.
Qed.

Lemma woken_exactly_once fuel s o s' out :
  reachable fuel s -> pre s o -> step fuel s o = ROk (s', out) ->
  exists W, NoDup W /\
    notified (dg s') = List.rev (map (fun t => (t, woken_by o)) W) ++ notified (dg s) /\
    forall t, tstep o out (dg s) (dg s') W t.
Proof. intros _. apply step_threads. Qed.

Lemma release_wakes_all fuel s t k r s' out :
  reachable fuel s -> step fuel s (OUnblock t k r) = ROk (s', out) ->
  qdeps (dg s') k = [] /\
  (forall d, (exists u, edges (dg s) d = Some (u, k)) ->
             edges (dg s') d = None /\ wres (dg s') d = Some r) /\
  (forall d, (forall u, edges (dg s) d <> Some (u, k)) ->
             wait_key (dg s') d = wait_key (dg s) d /\ wres (dg s') d = wres (dg s) d).
Proof. intros HR. apply unblock_wakes_all. eapply reachable_Inv; eauto. Qed.

Lemma release_target_wakes_all fuel s t k r s' out :
  reachable fuel s -> step fuel s (OUnblockTransferred t k r) = ROk (s', out) ->
  transferred (dg s') k = None /\ tdeps (dg s') k = None /\
  (forall x, x <> k -> reaches (tproj (dg s)) x k ->
     cleared (dg s') x /\
     forall d u, edges (dg s) d = Some (u, x) ->
                 edges (dg s') d = None /\ wres (dg s') d = Some r).
Proof.
  intros HR H. apply reachable_Inv in HR as [HE HT]. cbn [step] in H.
  apply bind_ok in H as (g1 & H1 & H). injection H as <- _. cbn [dg set_dg].
  eapply unblock_transferred_covers; eauto.
Qed.

(* Proto/ProofsWake.v — I4/I5: who is woken by which function, with which result, how often.
   Everything here follows from the mere success ([ROk]) of the model functions. *)
From Coq Require Import Permutation.
From Salsa Require Import Base.
From Salsa.Proto Require Import Model ProofsGraph ProofsList ProofsInv.

(* the key a thread is blocked on (ghost component of its edge) *)
Definition wait_key (g : dgraph) (t : thread) : option key := option_map snd (edges g t).

Lemma wait_key_none g t : wait_key g t = None <-> edges g t = None.
Proof. unfold wait_key. destruct (edges g t); cbn; split; congruence. Qed.

(* [wkW r W g g']: going from [g] to [g'], exactly the threads in [W] (all blocked in [g]) were
   removed from [edges], each got the wait result [r] and one [notify] — in this order —
   and no other thread's blocked-on key or wait result changed. *)
Definition wkW (r : wait_result) (W : list thread) (g g' : dgraph) : Prop :=
  NoDup W /\
  notified g' = List.rev (map (fun t => (t, r)) W) ++ notified g /\
  (forall t, In t W -> edges g t <> None /\ edges g' t = None /\ wres g' t = Some r) /\
  (forall t, ~ In t W -> wait_key g' t = wait_key g t /\ wres g' t = wres g t).

Definition wk (r : wait_result) (g g' : dgraph) : Prop := exists W, wkW r W g g'.

Lemma wkW_nil r g g' :
  (forall t, wait_key g' t = wait_key g t) -> wres g' = wres g -> notified g' = notified g ->
  wkW r [] g g'.
Proof.
  intros K Wr Nt. split; [constructor|]. split; [now rewrite Nt|]. split; [intros t []|].
  intros t _. split; auto. now rewrite Wr.
Qed.

Lemma wkW_refl r g : wkW r [] g g.
Proof. now apply wkW_nil. Qed.

Lemma NoDup_app_intro {A} (l1 l2 : list A) :
  NoDup l1 -> NoDup l2 -> (forall x, In x l1 -> ~ In x l2) -> NoDup (l1 ++ l2).
Proof.
  induction l1 as [|a l1 IH]; intros N1 N2 D; cbn; auto.
  inversion N1; subst. constructor.
  - rewrite in_app_iff. intros [H|H]; [contradiction|]. eapply D; [now left | exact H].
  - apply IH; auto. intros x Hx. apply D. now right.
Qed.

Lemma wkW_trans r W1 W2 g1 g2 g3 :
  wkW r W1 g1 g2 -> wkW r W2 g2 g3 -> wkW r (W1 ++ W2) g1 g3.
Proof.
  intros (N1 & L1 & A1 & B1) (N2 & L2 & A2 & B2).
  assert (D : forall x, In x W1 -> ~ In x W2).
  { intros x H1 H2. destruct (A1 _ H1) as (_ & E & _). destruct (A2 _ H2) as (E' & _). auto. }
  split; [now apply NoDup_app_intro|]. split.
  { rewrite L2, L1, map_app, rev_app_distr, app_assoc. reflexivity. }
  split.
  - intros t Ht. apply in_app_or in Ht as [Ht|Ht].
    + destruct (A1 _ Ht) as (E0 & E1 & Wr). split; auto.
      destruct (B2 t (D _ Ht)) as [K Wr']. split.
      * apply wait_key_none. rewrite K. now apply wait_key_none.
      * congruence.
    + destruct (A2 _ Ht) as (E0 & E1 & Wr). split; auto.
      assert (Hn : ~ In t W1) by (intros H1; eapply D; eauto).
      destruct (B1 t Hn) as [K _]. intros E. apply E0. apply wait_key_none.
      rewrite K. now apply wait_key_none.
  - intros t Ht. rewrite in_app_iff in Ht.
    destruct (B1 t) as [K1 R1]; [tauto|]. destruct (B2 t) as [K2 R2]; [tauto|].
    split; congruence.
Qed.

Lemma unblock_runtime_wkW g id r g' :
  unblock_runtime g id r = ROk g' -> wkW r [id] g g'.
Proof.
  intros H. apply unblock_runtime_ok in H as ((u & k & E) & ->).
  split; [repeat constructor; intros []|]. split; [reflexivity|]. split.
  - intros t [<-|[]]. cbn. rewrite !updN_same. split; [congruence | auto].
  - intros t Ht. assert (id <> t) by (intros ->; apply Ht; now left).
    unfold wait_key; cbn. rewrite !updN_other by auto. auto.
Qed.

Lemma unblock_fold_wkW r l : forall g g',
  foldM (fun g' from_id => unblock_runtime g' from_id r) l g = ROk g' -> wkW r l g g'.
Proof.
  induction l as [|d l IH]; intros g g'; cbn [foldM].
  - intros [= <-]. apply wkW_refl.
  - intros H. apply bind_ok in H as (g1 & H1 & H2).
    apply unblock_runtime_wkW in H1. apply IH in H2.
    exact (wkW_trans _ [d] l _ _ _ H1 H2).
Qed.

(* I5, first half: releasing [k] wakes exactly the dependents of [k], all of them *)
Lemma unblock_on_wkW g k r g' :
  unblock_runtimes_blocked_on g k r = ROk g' -> wkW r (qdeps g k) g g' /\ qdeps g' k = [].
Proof.
  unfold unblock_runtimes_blocked_on. intros H.
  pose proof H as H0. apply unblock_fold_wkW in H0.
  assert (Q : qdeps g' = updN (qdeps g) k []).
  { eapply (foldM_inv (fun g'' => qdeps g'' = updN (qdeps g) k [])) in H; eauto.
    intros s a s' _ Hs Hu. apply unblock_runtime_ok in Hu as [_ ->]. exact Hs. }
  split.
  - destruct H0 as (N & L & A & B). split; [exact N|]. split; [exact L|]. split; [exact A | exact B].
  - rewrite Q. apply updN_same.
Qed.

Lemma set_T_wkW r g tr td :
  wkW r [] g (set_tdeps (set_transferred g tr) td).
Proof. apply wkW_nil; reflexivity. Qed.

Lemma unblock_recursive_wk r : forall fuel g q g',
  unblock_recursive fuel g q r = ROk g' -> wk r g g'.
Proof.
  induction fuel as [|f IH]; intros g q g'; cbn [unblock_recursive]; [discriminate|].
  set (g2 := set_tdeps _ _).
  assert (H2 : wk r g g2) by (exists []; apply set_T_wkW).
  clearbody g2. generalize (match tdeps (set_transferred g (updN (transferred g) q None)) q with
                            | Some l => l | None => [] end).
  intros l. revert g2 H2. induction l as [|c l IHl]; intros g2 H2; cbn [foldM].
  - intros [= <-]. auto.
  - intros H. apply bind_ok in H as (g3 & H3 & H). apply bind_ok in H3 as (g4 & H4 & H3).
    apply unblock_on_wkW in H4 as [H4 _]. apply IH in H3 as [W3 H3].
    destruct H2 as [W2 H2]. eapply IHl; [|exact H].
    exists ((W2 ++ qdeps g2 c) ++ W3). eapply wkW_trans; [|exact H3]. eapply wkW_trans; eauto.
Qed.

Lemma undo_transfer_lock_wkW r g k g' : undo_transfer_lock g k = ROk g' -> wkW r [] g g'.
Proof.
  intros H. apply undo_transfer_lock_inv in H as [(A & B & C & D) _].
  apply wkW_nil; auto. intros t. unfold wait_key. now rewrite A.
Qed.

Lemma unblock_transferred_wk fuel g k r g' :
  unblock_transferred_queries_owned_by fuel g k r = ROk g' -> wk r g g'.
Proof.
  unfold unblock_transferred_queries_owned_by. intros H.
  apply bind_ok in H as (g1 & H1 & H). apply undo_transfer_lock_wkW with (r := r) in H1.
  apply unblock_recursive_wk in H as [W H]. exists ([] ++ W). eapply wkW_trans; eauto.
Qed.

(* Proto/ProofsSubtree.v — I5, second half: releasing a transfer target recursively releases
   every key whose ownership was (transitively) transferred to it, and wakes all their
   dependents with the release result. *)
From Coq Require Import Permutation.
From Salsa Require Import Base.
From Salsa.Proto Require Import Model ProofsGraph ProofsList ProofsInv ProofsWake.

(* ---- two more facts about functional graphs ---- *)
Lemma reaches_linear e x a b :
  reaches e x a -> reaches e x b -> reaches e a b \/ reaches e b a.
Proof.
  intros Ha; revert b; induction Ha as [x | x u a Hx Ha IH]; intros b Hb; [now left|].
  inversion Hb as [|t u' v Hx' Hb']; subst.
  - right. econstructor; eauto.
  - rewrite Hx in Hx'; injection Hx' as <-. now apply IH.
Qed.

Lemma reaches_frame e e' x c :
  reaches e x c ->
  (forall z, reaches e x z -> reaches e z c -> z <> c -> e' z = e z) ->
  reaches e' x c.
Proof.
  induction 1 as [x | x u c Hx Hr IH]; intros F; [constructor|].
  destruct (N.eq_dec x c) as [->|Hne]; [constructor|].
  econstructor.
  - rewrite F; [exact Hx | constructor | econstructor; eauto | exact Hne].
  - apply IH. intros z Hz1 Hz2 Hz3. apply F; auto. econstructor; eauto.
Qed.

Lemma reaches_last e x q :
  reaches e x q -> x <> q -> exists c, reaches e x c /\ e c = Some q.
Proof.
  induction 1 as [x | x u q Hx Hr IH]; intros Hne; [congruence|].
  destruct (N.eq_dec u q) as [->|Hu].
  - exists x. split; [constructor | exact Hx].
  - destruct (IH Hu) as (c & Hc & Ec). exists c. split; auto. econstructor; eauto.
Qed.

(* ---- monotone shrinking of the transfer forest and of the dependents ---- *)
Definition cleared (g : dgraph) (x : key) : Prop :=
  transferred g x = None /\ tdeps g x = None /\ qdeps g x = [].

Definition mono (g g' : dgraph) : Prop :=
  forall z,
    (transferred g' z = transferred g z \/ transferred g' z = None) /\
    (tdeps g' z = tdeps g z \/ tdeps g' z = None) /\
    (qdeps g' z = qdeps g z \/ qdeps g' z = []).

Lemma mono_refl g : mono g g.
Proof. intros z; auto. Qed.

Lemma mono_trans g1 g2 g3 : mono g1 g2 -> mono g2 g3 -> mono g1 g3.
Proof.
  intros A B z. destruct (A z) as (A1 & A2 & A3), (B z) as (B1 & B2 & B3).
  repeat split.
  - destruct B1 as [-> | ->]; auto.
  - destruct B2 as [-> | ->]; auto.
  - destruct B3 as [-> | ->]; auto.
Qed.

Lemma cleared_mono g g' x : cleared g x -> mono g g' -> cleared g' x.
Proof.
  intros (A & B & C) M. destruct (M x) as (M1 & M2 & M3). repeat split.
  - destruct M1 as [-> | ->]; auto.
  - destruct M2 as [-> | ->]; auto.
  - destruct M3 as [-> | ->]; auto.
Qed.

Lemma mono_sub g g' :
  mono g g' -> forall t, tproj g' t = tproj g t \/ tproj g' t = None.
Proof.
  intros M t. destruct (M t) as ([E|E] & _); unfold tproj, tproj_f; rewrite E; auto.
Qed.

Lemma unblock_on_qdeps g k r g' :
  unblock_runtimes_blocked_on g k r = ROk g' -> qdeps g' = updN (qdeps g) k [].
Proof.
  unfold unblock_runtimes_blocked_on. intros H.
  eapply (foldM_inv (fun g'' => qdeps g'' = updN (qdeps g) k [])) in H; eauto.
  intros s a s' _ Hs Hu. apply unblock_runtime_ok in Hu as [_ ->]. exact Hs.
Qed.

Lemma unblock_on_mono g k r g' :
  unblock_runtimes_blocked_on g k r = ROk g' -> mono g g' /\ qdeps g' k = [].
Proof.
  intros H. pose proof (unblock_on_same_T _ _ _ _ H) as [S1 S2].
  apply unblock_on_qdeps in H. split.
  - intros z. rewrite S1, S2, H. repeat split; auto. unfold updN. destruct (k =? z); auto.
  - rewrite H. apply updN_same.
Qed.

(* two different children of the same root-less parent have disjoint subtrees *)
Lemma siblings_disjoint e q c p x :
  e q = None -> e c = Some q -> e p = Some q -> c <> p ->
  reaches e x c -> reaches e x p -> False.
Proof.
  intros Hq Hc Hp Hne Hxc Hxp.
  assert (K : forall a b, e a = Some q -> e b = Some q -> a <> b -> reaches e a b -> False).
  { intros a b Ha Hb Hab Hr. inversion Hr as [|t u v Ht Hr']; subst; [congruence|].
    rewrite Ha in Ht; injection Ht as <-. apply reaches_from_root in Hr'; auto. congruence. }
  destruct (reaches_linear _ _ _ _ Hxc Hxp) as [H|H];
    [eapply (K c p) | eapply (K p c)]; eauto.
Qed.

(* ---- the recursion covers the whole subtree ---- *)
Definition ur_post (g : dgraph) (q : key) (pend : list key) (g' : dgraph) : Prop :=
  mono g g' /\
  (forall z, ~ reaches (tproj g) z q -> transferred g' z = transferred g z) /\
  (transferred g' q = None /\ tdeps g' q = None) /\
  (forall x, x <> q -> reaches (tproj g) x q ->
             (forall p, In p pend -> ~ reaches (tproj g) x p) -> cleared g' x).

Lemma unblock_recursive_cover r : forall fuel g q g' pend,
  unblock_recursive fuel g q r = ROk g' ->
  einv g -> tinv_p (transferred g) (tdeps g) (q :: pend) ->
  ur_post g q pend g'.
Proof.
  induction fuel as [|f IH]; intros g q g' pend; [cbn; discriminate|].
  (* the loop over the dependents *)
  assert (Loop : forall l g2 g',
    foldM (fun g' q0 => g'' <- unblock_runtimes_blocked_on g' q0 r ;; unblock_recursive f g'' q0 r)
          l g2 = ROk g' ->
    einv g2 -> tinv_p (transferred g2) (tdeps g2) (l ++ pend) -> NoDup l ->
    tproj g2 q = None -> (forall c, In c l -> tproj g2 c = Some q) ->
    mono g2 g' /\
    (forall z, (forall c, In c l -> ~ reaches (tproj g2) z c) ->
               transferred g' z = transferred g2 z) /\
    (forall c x, In c l -> reaches (tproj g2) x c ->
                 (forall p, In p pend -> ~ reaches (tproj g2) x p) -> cleared g' x)).
  { clear g g'. induction l as [|c l IHl]; intros g2 g' H HE2 HT2 ND Hq Hc; cbn [foldM] in H.
    - injection H as <-. split; [apply mono_refl|]. split; auto. intros c x [].
    - apply bind_ok in H as (g3 & H3 & H). apply bind_ok in H3 as (g4 & H4 & H3).
      pose proof (unblock_on_same_T _ _ _ _ H4) as [S1 S2].
      pose proof (unblock_on_mono _ _ _ _ H4) as [M4 Q4].
      apply unblock_on_einv in H4 as [HE4 _]; auto.
      assert (HT4 : tinv_p (transferred g4) (tdeps g4) (c :: l ++ pend))
        by (rewrite S1, S2; exact HT2).
      assert (P4 : tproj g4 = tproj g2) by (unfold tproj; now rewrite S1).
      pose proof (IH _ _ _ _ H3 HE4 HT4) as (M3 & F3 & (C3a & C3b) & Cov3).
      destruct (unblock_recursive_inv _ _ _ _ _ _ H3 HE4 HT4) as [HE3 HT3].
      inversion ND as [|? ? Hcl ND']; subst.
      assert (Hcq : tproj g2 c = Some q) by (apply Hc; now left).
      assert (Dis : forall c' x, In c' l -> reaches (tproj g2) x c' -> ~ reaches (tproj g2) x c).
      { intros c' x Hc' Hx' Hx. eapply (siblings_disjoint (tproj g2) q c c' x); eauto.
        - apply Hc; now right.
        - intros ->; contradiction. }
      assert (Keep : forall c' , In c' l -> transferred g3 c' = transferred g2 c').
      { intros c' Hc'. rewrite F3; [now rewrite S1|]. rewrite P4.
        eapply Dis; eauto. constructor. }
      assert (M23 : mono g2 g3) by (eapply mono_trans; eauto).
      assert (Hq3 : tproj g3 q = None).
      { destruct (mono_sub _ _ M23 q) as [E|E]; congruence. }
      assert (Hc3 : forall c', In c' l -> tproj g3 c' = Some q).
      { intros c' Hc'. unfold tproj, tproj_f. rewrite (Keep _ Hc').
        apply (Hc c'). now right. }
      destruct (IHl _ _ H HE3 HT3 ND' Hq3 Hc3) as (Ml & Fl & Covl).
      split; [eapply mono_trans; eauto|]. split.
      + intros z Hz. rewrite Fl.
        * rewrite F3; [now rewrite S1|]. rewrite P4. apply Hz. now left.
        * intros c' Hc' Hr. eapply (Hz c'); [now right|].
          eapply reaches_sub; [apply (mono_sub _ _ M23) | exact Hr].
      + intros c0 x [<-|Hc0] Hx Hp.
        * (* the subtree of the head *)
          eapply cleared_mono; [|exact Ml].
          destruct (N.eq_dec x c) as [->|Hxc].
          -- repeat split; auto. destruct (M3 c) as (_ & _ & [E|E]); congruence.
          -- apply Cov3; auto; [now rewrite P4|]. rewrite P4.
             intros p Hpin. apply in_app_or in Hpin as [Hpin|Hpin]; [|now apply Hp].
             intros Hr. eapply Dis; eauto.
        * (* the subtree of a later dependent: untouched so far *)
          eapply Covl; eauto.
          -- eapply reaches_frame; [exact Hx|]. intros z Hz1 Hz2 Hz3.
             unfold tproj, tproj_f. rewrite F3; [now rewrite S1|]. rewrite P4.
             intros Hzc. eapply (Dis c0 z); eauto.
          -- intros p Hpin Hr. eapply (Hp p Hpin).
             eapply reaches_sub; [apply (mono_sub _ _ M23) | exact Hr]. }
  cbn [unblock_recursive].
  set (g1 := set_transferred g (updN (transferred g) q None)).
  set (l := match tdeps g1 q with Some l => l | None => [] end).
  set (g2 := set_tdeps g1 (updN (tdeps g1) q None)).
  intros H HE HT.
  assert (HE2 : einv g2) by exact HE.
  assert (HT2 : tinv_p (transferred g2) (tdeps g2) (l ++ pend)).
  { apply tinv_p_open in HT. exact HT. }
  assert (M2 : mono g g2).
  { intros z. subst g2 g1; cbn. unfold updN. destruct (q =? z); auto. }
  assert (Hq2 : transferred g2 q = None /\ tdeps g2 q = None).
  { subst g2 g1; cbn. now rewrite !updN_same. }
  assert (Hl : forall c, In c l -> tproj g2 c = Some q /\ c <> q /\ tproj g c = Some q).
  { intros c Hc. subst l g1; cbn in Hc.
    destruct (tdeps g q) as [lq|] eqn:Eq; [|destruct Hc].
    destruct HT as [G L _ _ _]. destruct (L _ _ _ Eq Hc) as [th Hth].
    assert (c <> q).
    { intros ->. eapply (grounded_no_self _ q G). unfold tproj_f. now rewrite Hth. }
    repeat split; auto.
    - subst g2; unfold tproj, tproj_f; cbn. rewrite updN_other by auto. now rewrite Hth.
    - unfold tproj, tproj_f. now rewrite Hth. }
  assert (NDl : NoDup l).
  { subst l g1; cbn. destruct (tdeps g q) as [lq|] eqn:Eq; [|constructor].
    destruct HT as [_ _ _ _ ND]. eauto. }
  assert (Hq2' : tproj g2 q = None).
  { unfold tproj, tproj_f. destruct Hq2 as [-> _]. reflexivity. }
  destruct (Loop l g2 g' H HE2 HT2 NDl Hq2' (fun c Hc => proj1 (Hl c Hc))) as (Ml & Fl & Covl).
  assert (Sub2 : forall t, tproj g2 t = tproj g t \/ tproj g2 t = None)
    by (apply mono_sub; exact M2).
  split; [eapply mono_trans; eauto|]. split; [|split].
  - intros z Hz. rewrite Fl.
    + subst g2 g1; cbn. rewrite updN_other; auto. intros ->. apply Hz. constructor.
    + intros c Hc Hr. apply Hz. destruct (Hl c Hc) as (_ & _ & Ec).
      eapply reaches_step_r; [|exact Ec]. eapply reaches_sub; eauto.
  - destruct Hq2 as [A B]. destruct (Ml q) as ([E|E] & [E'|E'] & _); split; congruence.
  - intros x Hxq Hx Hp.
    destruct (reaches_last _ _ _ Hx Hxq) as (c & Hxc & Ec).
    destruct HT as [G L En P ND].
    assert (Hcl : In c l).
    { unfold tproj, tproj_f in Ec. destruct (transferred g c) as [[th y]|] eqn:Etc; [|discriminate].
      injection Ec as ->.
      destruct (En _ _ _ Etc) as [(l0 & El0 & Hin) | [Hcq | Hin]].
      - subst l g1; cbn. now rewrite El0.
      - exfalso. subst c. eapply (grounded_no_self _ q G). unfold tproj_f. now rewrite Etc.
      - exfalso. eapply Hp; eauto. }
    eapply (Covl c x Hcl).
    + eapply reaches_frame; [exact Hxc|]. intros z Hz1 Hz2 Hz3.
      subst g2 g1; unfold tproj, tproj_f; cbn. rewrite updN_other; auto.
      intros Hqz; subst z. eapply (grounded_no_cycle _ c q G); eauto.
    + intros p Hpin Hr. eapply (Hp p Hpin). eapply reaches_sub; eauto.
Qed.

(* I5 (transfer target): after unblock_transferred_queries_owned_by(k, r) every key that was
   (transitively) transferred to [k] is released — no transferred entry, no dependents list,
   nobody registered as waiting — and every thread that waited for such a key has been woken
   with [r]. *)
Theorem unblock_transferred_covers fuel g k r g' :
  einv g -> tinv g ->
  unblock_transferred_queries_owned_by fuel g k r = ROk g' ->
  transferred g' k = None /\ tdeps g' k = None /\
  (forall x, x <> k -> reaches (tproj g) x k ->
     cleared g' x /\
     forall d u, edges g d = Some (u, x) -> edges g' d = None /\ wres g' d = Some r).
Proof.
  intros HE HT H.
  pose proof (unblock_transferred_inv _ _ _ _ _ H HE HT) as [HE' HT'].
  pose proof (unblock_transferred_wk _ _ _ _ _ H) as [W (NW & LW & AW & BW)].
  unfold unblock_transferred_queries_owned_by in H.
  apply bind_ok in H as (g1 & H1 & H).
  pose proof H1 as H1'. apply undo_transfer_lock_inv in H1' as [SE HT1].
  destruct (HT1 HT) as [HT1' Hk].
  assert (HE1 : einv g1) by (eapply same_E_einv; eauto).
  assert (HTp : tinv_p (transferred g1) (tdeps g1) [k]).
  { destruct HT1' as [G I ND]. constructor; auto.
    - intros x y l Hl Hin. apply I; eauto.
    - intros x th y Hx. left. apply I; eauto.
    - intros x [Hx|[]] y l Hl Hin. subst x.
      destruct (proj2 (I k y)) as [th Hth]; eauto. congruence. }
  destruct (unblock_recursive_cover _ _ _ _ _ _ H HE1 HTp) as (M & F & (Ck1 & Ck2) & Cov).
  split; auto. split; auto.
  intros x Hxk Hx.
  assert (Hx1 : reaches (tproj g1) x k).
  { (* undo_transfer_lock only removed k's own entry *)
    apply undo_transfer_lock_ok in H1 as [[_ ->] | (th & o & l & Ek & El & ->)]; auto.
    eapply reaches_frame; [exact Hx|]. intros z _ _ Hz. unfold tproj, tproj_f; cbn.
    now rewrite updN_other by auto. }
  assert (Cx : cleared g' x) by (apply Cov; auto; intros p []).
  split; auto.
  intros d u Ed.
  destruct (in_dec N.eq_dec d W) as [Hin|Hn].
  - destruct (AW _ Hin) as (_ & ? & ?). auto.
  - exfalso. destruct (BW _ Hn) as [K _]. unfold wait_key in K. rewrite Ed in K. cbn in K.
    destruct (edges g' d) as [[u' x']|] eqn:Ed'; [|discriminate]. cbn in K. injection K as ->.
    destruct HE' as [_ D _ _]. destruct Cx as (_ & _ & Qx).
    assert (Hd : In d (qdeps g' x)) by (apply D; eauto).
    rewrite Qx in Hd. destruct Hd.
Qed.

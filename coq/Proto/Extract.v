(* Proto/Extract.v — extraction of the executable protocol model to OCaml.
   ExtrOcamlBasic only (bool, option, unit, list, prod, sumbool); [N], [positive], [nat] stay
   the Coq inductive types.  Output: /verif/ocaml/proto/proto_model.ml(i), consumed by
   /verif/ocaml/proto/replay.ml. *)
From Coq Require Import Extraction ExtrOcamlBasic.
From Salsa Require Import Base.
From Salsa.Proto Require Import Model.

Extraction Language OCaml.
Extraction "/verif/ocaml/proto/proto_model.ml"
  init step preb release_script run
  sync dg edges qdeps wres transferred tdeps notified
  ss_id ss_waiting ss_target ss_twice.

(* Proto/ProofsGraph.v — functional graphs [N -> option N]: chains, groundedness, reachability.
   The proof device of DESIGN §7 C19: acyclicity is stated as GROUNDEDNESS. *)
From Salsa Require Import Base.

Definition gmap := N -> option N.

(* following the edges from [t] ends at [r], which has no edge *)
Inductive chain (e : gmap) : N -> N -> Prop :=
| ch_root t : e t = None -> chain e t t
| ch_step t u r : e t = Some u -> chain e u r -> chain e t r.

Definition grounded (e : gmap) : Prop := forall t, exists r, chain e t r.

(* reflexive-transitive closure of the edge relation *)
Inductive reaches (e : gmap) : N -> N -> Prop :=
| re_refl t : reaches e t t
| re_step t u v : e t = Some u -> reaches e u v -> reaches e t v.

Lemma chain_fun e t r r' : chain e t r -> chain e t r' -> r = r'.
Proof.
  intros H; revert r'; induction H as [t Ht | t u r Ht Hc IH]; intros r' H'.
  - inversion H' as [t' Hn | t' u' r'' Hs Hc']; subst; congruence.
  - inversion H' as [t' Hn | t' u' r'' Hs Hc']; subst; try congruence.
    rewrite Ht in Hs; injection Hs as <-. now apply IH.
Qed.

Lemma chain_root_none e t r : chain e t r -> e r = None.
Proof. induction 1; auto. Qed.

Lemma chain_reaches e t r : chain e t r -> reaches e t r.
Proof. induction 1; [constructor | econstructor; eauto]. Qed.

Lemma reaches_trans e x y z : reaches e x y -> reaches e y z -> reaches e x z.
Proof. induction 1; auto. intros; econstructor; eauto. Qed.

Lemma reaches_step_r e x y z : reaches e x y -> e y = Some z -> reaches e x z.
Proof. intros H Hy; eapply reaches_trans; [exact H|]. econstructor; [exact Hy | constructor]. Qed.

Lemma reaches_chain e t u r : reaches e t u -> chain e u r -> chain e t r.
Proof. induction 1; auto. intros; econstructor; eauto. Qed.

Lemma chain_after_reaches e t u r : chain e t r -> reaches e t u -> chain e u r.
Proof.
  intros Hc Hr; revert r Hc; induction Hr as [t | t u v Ht Hr IH]; intros r Hc; auto.
  apply IH. inversion Hc as [t' Hn | t' u' r' Hs Hc']; subst; [congruence|].
  rewrite Ht in Hs; injection Hs as <-; auto.
Qed.

Lemma reaches_from_root e t u : e t = None -> reaches e t u -> u = t.
Proof. intros Hn H; inversion H; subst; auto; congruence. Qed.

(* a node with a chain to a root is not on a cycle *)
Lemma no_cycle e x r y : chain e x r -> e x = Some y -> reaches e y x -> False.
Proof.
  intros Hc; revert y; induction Hc as [x Hx | x u r Hx Hc IH]; intros y Hy Hr; [congruence|].
  rewrite Hx in Hy; injection Hy as <-.
  inversion Hr as [t | t w v Hu Hr']; subst.
  - eapply IH; [exact Hx | constructor].
  - eapply IH; [exact Hu|]. eapply reaches_step_r; eauto.
Qed.

Lemma grounded_no_cycle e x y : grounded e -> e x = Some y -> ~ reaches e y x.
Proof. intros G Hx Hr. destruct (G x) as [r Hc]. eapply no_cycle; eauto. Qed.

Lemma grounded_no_self e x : grounded e -> e x <> Some x.
Proof. intros G Hx. eapply grounded_no_cycle; eauto. constructor. Qed.

(* pointwise-equal maps *)
Lemma chain_ext e e' t r : (forall x, e x = e' x) -> chain e t r -> chain e' t r.
Proof.
  intros E; induction 1 as [t Ht | t u r Ht Hc IH].
  - constructor. now rewrite <- E.
  - econstructor; eauto. now rewrite <- E.
Qed.

Lemma grounded_ext e e' : (forall x, e x = e' x) -> grounded e -> grounded e'.
Proof. intros E G t. destruct (G t) as [r Hc]. exists r. eapply chain_ext; eauto. Qed.

Lemma reaches_ext e e' x y : (forall z, e z = e' z) -> reaches e x y -> reaches e' x y.
Proof.
  intros E; induction 1; [constructor|]. econstructor; eauto. now rewrite <- E.
Qed.

(* updates away from a chain / path *)
Lemma chain_upd_other e a v t r :
  chain e t r -> ~ reaches e t a -> chain (updN e a v) t r.
Proof.
  induction 1 as [t Ht | t u r Ht Hc IH]; intros Hn.
  - constructor. rewrite updN_other; auto. intros ->; apply Hn; constructor.
  - econstructor.
    + rewrite updN_other; eauto. intros ->; apply Hn; constructor.
    + apply IH. intros Hr; apply Hn. econstructor; eauto.
Qed.

(* a path to [a] survives any change of [a]'s own edge *)
Lemma reaches_upd_target e a v x : reaches e x a -> reaches (updN e a v) x a.
Proof.
  induction 1 as [t | t u w Ht Hr IH]; [constructor|].
  destruct (N.eq_dec t w) as [->|Hne]; [constructor|].
  econstructor; [|exact IH]. rewrite updN_other; auto.
Qed.

(* paths that do not pass [a] are not affected by a change at [a] *)
Lemma reaches_upd_inv e a v x y :
  ~ reaches e x a -> reaches (updN e a v) x y -> reaches e x y.
Proof.
  intros Hn H; induction H as [t | t u w Ht Hr IH]; [constructor|].
  assert (Hta : a <> t) by (intros ->; apply Hn; constructor).
  rewrite updN_other in Ht by auto.
  econstructor; [exact Ht|]. apply IH. intros Hr'; apply Hn; econstructor; eauto.
Qed.

(* removing edges only removes paths *)
Lemma reaches_sub e e' x y :
  (forall t, e' t = e t \/ e' t = None) -> reaches e' x y -> reaches e x y.
Proof.
  intros S; induction 1 as [t | t u w Ht Hr IH]; [constructor|].
  econstructor; [|exact IH]. destruct (S t) as [E|E]; congruence.
Qed.

(* I1 kernel: adding / redirecting the edge of [a] to [b] when [b] does not reach [a] *)
Lemma upd_grounded e a b :
  grounded e -> ~ reaches e b a -> grounded (updN e a (Some b)).
Proof.
  intros G Hn.
  assert (Hb : exists r, chain (updN e a (Some b)) b r).
  { destruct (G b) as [r Hc]. exists r. now apply chain_upd_other. }
  destruct Hb as [rb Hb].
  assert (Ha : chain (updN e a (Some b)) a rb).
  { econstructor; [apply updN_same | exact Hb]. }
  intros t. destruct (G t) as [r Hc].
  induction Hc as [t Ht | t u r Ht Hc IH].
  - destruct (N.eq_dec t a) as [->|Hne]; [eauto|].
    exists t. constructor. rewrite updN_other; auto.
  - destruct (N.eq_dec t a) as [->|Hne]; [eauto|].
    destruct IH as [r' Hr']. exists r'. econstructor; [|exact Hr'].
    rewrite updN_other; auto.
Qed.

(* removing edges keeps groundedness (unblocking, undoing a transfer) *)
Lemma sub_grounded e e' :
  (forall t, e' t = e t \/ e' t = None) -> grounded e -> grounded e'.
Proof.
  intros S G t. destruct (G t) as [r Hc].
  induction Hc as [t Ht | t u r Ht Hc IH].
  - exists t. constructor. destruct (S t); congruence.
  - destruct (S t) as [E|E].
    + destruct IH as [r' Hr']. exists r'. econstructor; [|exact Hr']. congruence.
    + exists t. now constructor.
Qed.

Lemma del_grounded e a : grounded e -> grounded (updN e a None).
Proof.
  apply sub_grounded. intros t. destruct (N.eq_dec a t) as [->|Hne].
  - right. apply updN_same.
  - left. now apply updN_other.
Qed.

(* I6 kernel: every thread transitively waits on a thread that is not blocked *)
Lemma someone_runs e : grounded e -> forall t, exists r, reaches e t r /\ e r = None.
Proof.
  intros G t. destruct (G t) as [r Hc]. exists r. split.
  - now apply chain_reaches.
  - eapply chain_root_none; eauto.
Qed.

(* finite formulation: a non-empty set of threads closed under "blocked on" contains a
   thread that is not blocked *)
Lemma not_all_blocked e (live : N -> Prop) :
  grounded e ->
  (forall t u, live t -> e t = Some u -> live u) ->
  forall t, live t -> exists r, live r /\ e r = None.
Proof.
  intros G Cl t Lt. destruct (G t) as [r Hc].
  induction Hc as [t Ht | t u r Ht Hc IH]; eauto.
Qed.

(* walking from [x] to [a] without ever stepping INTO [q] *)
Inductive path_av (e : gmap) (q : N) : N -> N -> Prop :=
| pa_refl x : path_av e q x x
| pa_step x u a : e x = Some u -> u <> q -> path_av e q u a -> path_av e q x a.

Lemma path_av_reaches e q x a : path_av e q x a -> reaches e x a.
Proof. induction 1; [constructor | econstructor; eauto]. Qed.

Lemma path_av_to_q e q x a :
  path_av e q x a -> x <> q -> reaches e x q -> reaches e a q.
Proof.
  induction 1 as [x | x u a Hx Hu Hp IH]; intros Hne Hr; auto.
  apply IH; auto. inversion Hr as [t | t u' v Hx' Hr']; subst; [congruence|].
  rewrite Hx in Hx'; injection Hx' as <-; auto.
Qed.

(* the walk only reads nodes different from [q] and from its end point [a] (whose edge goes to q) *)
Lemma path_av_ext e e' q x a :
  path_av e q x a -> x <> q -> e a = Some q ->
  (forall z, z <> q -> z <> a -> e' z = e z) -> path_av e' q x a.
Proof.
  induction 1 as [x | x u a Hx Hu Hp IH]; intros Hne Ha E; [constructor|].
  econstructor; [| exact Hu | apply IH; auto].
  rewrite E; auto. intros ->. congruence.
Qed.

Lemma path_av_end_ne e q x a : path_av e q x a -> x <> q -> a <> q.
Proof. induction 1; auto. Qed.

(* updN facts used everywhere *)
Lemma updN_comm {A} (m : N -> A) a b va vb x :
  a <> b -> updN (updN m a va) b vb x = updN (updN m b vb) a va x.
Proof.
  intros Hne. unfold updN.
  destruct (N.eqb_spec b x), (N.eqb_spec a x); subst; congruence.
Qed.

Lemma updN_eq {A} (m : N -> A) k v x : updN m k v x = if k =? x then v else m x.
Proof. reflexivity. Qed.

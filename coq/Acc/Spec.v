(* Acc/Spec.v — the specification side for accumulators: what a fresh database would
   compute, and which values it would report as accumulated.  Definitions only. *)
From Salsa Require Import Base.
From Salsa.Acc Require Import Model.

(* what a body sees: the answers to its reads *)
Record env := { e_in : ikey -> val; e_cell : cell -> val; e_q : qkey -> val }.

(* the denotation of a body under a read environment *)
Fixpoint run (e : env) (b : body) : val :=
  match b with
  | Ret v => v
  | RdIn i k => run e (k (e_in e i))
  | CallQ q k => run e (k (e_q e q))
  | RdCell c k => run e (k (e_cell e c))
  | Touch k => run e k
  | PanicIf _ k => run e k
  | Accum _ k => run e k
  end.

(* the values a body pushes, in push order *)
Fixpoint pushes (e : env) (b : body) : list val :=
  match b with
  | Ret _ => []
  | RdIn i k => pushes e (k (e_in e i))
  | CallQ q k => pushes e (k (e_q e q))
  | RdCell c k => pushes e (k (e_cell e c))
  | Touch k => pushes e k
  | PanicIf _ k => pushes e k
  | Accum v k => v :: pushes e k
  end.

(* the tracked functions a body calls, in call order (with repetitions) *)
Fixpoint callees (e : env) (b : body) : list qkey :=
  match b with
  | Ret _ => []
  | RdIn i k => callees e (k (e_in e i))
  | CallQ q k => q :: callees e (k (e_q e q))
  | RdCell c k => callees e (k (e_cell e c))
  | Touch k => callees e k
  | PanicIf _ k => callees e k
  | Accum _ k => callees e k
  end.

Record snapshot := { sn_in : ikey -> val; sn_cell : cell -> val }.

(* from-scratch evaluation by rank fuel *)
Fixpoint eval (prog : qkey -> body) (n : nat) (sn : snapshot) (q : qkey) : val :=
  match n with
  | O => 0
  | S n' => run {| e_in := sn_in sn; e_cell := sn_cell sn; e_q := eval prog n' sn |} (prog q)
  end.

Definition env_of (prog : qkey -> body) (n : nat) (sn : snapshot) : env :=
  {| e_in := sn_in sn; e_cell := sn_cell sn; e_q := eval prog n sn |}.

(* ---- the generic depth-first collection: a graph given by successor lists [succ] and
   per-node values [own]; every node contributes once, at its first visit, its own values
   first and then its successors in order.  [n] bounds the depth. *)
Section Dfs.
Variable succ : qkey -> list qkey.
Variable own : qkey -> list val.

Fixpoint visit (n : nat) (vis : list qkey) (q : qkey) : list qkey * list val :=
  match n with
  | O => (vis, [])
  | S n' =>
      if existsb (key_eqb q) vis then (vis, [])
      else
        fold_left (fun acc c => let '(vis', o) := visit n' (fst acc) c in (vis', snd acc ++ o))
                  (succ q) (q :: vis, own q)
  end.
End Dfs.

(* spec_acc: the from-scratch call tree of q in the snapshot: the successors of a node are
   the functions its body calls (in call order), its own values are the values its body pushes *)
Definition spec_succ (prog : qkey -> body) (e : env) (q : qkey) : list qkey := callees e (prog q).
Definition spec_own (prog : qkey -> body) (e : env) (q : qkey) : list val := pushes e (prog q).

Definition spec_acc (prog : qkey -> body) (n : nat) (sn : snapshot) (q : qkey) : list val :=
  let e := env_of prog n sn in
  snd (visit (spec_succ prog e) (spec_own prog e) n [] q).

(* the same with an explicit "call chain too deep" outcome for the executable column *)
Fixpoint runo (ein : ikey -> val) (ecell : cell -> val) (eq : qkey -> option val) (b : body)
  : option val :=
  match b with
  | Ret v => Some v
  | RdIn i k => runo ein ecell eq (k (ein i))
  | CallQ q k => match eq q with Some v => runo ein ecell eq (k v) | None => None end
  | RdCell c k => runo ein ecell eq (k (ecell c))
  | Touch k => runo ein ecell eq k
  | PanicIf _ k => runo ein ecell eq k
  | Accum _ k => runo ein ecell eq k
  end.

Fixpoint evalo (prog : qkey -> body) (n : nat) (sn : snapshot) (q : qkey) : option val :=
  match n with
  | O => None
  | S n' => runo (sn_in sn) (sn_cell sn) (evalo prog n' sn) (prog q)
  end.

Definition spec_acco (prog : qkey -> body) (n : nat) (sn : snapshot) (q : qkey) : option (list val) :=
  match evalo prog n sn q with
  | None => None
  | Some _ => Some (spec_acc prog n sn q)
  end.

Definition snap_of (s : db) : snapshot :=
  {| sn_in := fun i => f_val (d_in s i); sn_cell := d_cell s |}.

(* the calls reachable in a body, for any answers: used to state acyclicity *)
Inductive calls : body -> qkey -> Prop :=
| calls_here q k : calls (CallQ q k) q
| calls_in_call q k v q' : calls (k v) q' -> calls (CallQ q k) q'
| calls_in_rdin i k v q' : calls (k v) q' -> calls (RdIn i k) q'
| calls_in_cell c k v q' : calls (k v) q' -> calls (RdCell c k) q'
| calls_in_touch k q' : calls k q' -> calls (Touch k) q'
| calls_in_panicif c k q' : calls k q' -> calls (PanicIf c k) q'
| calls_in_accum v k q' : calls k q' -> calls (Accum v k) q'.

Definition calls_below (prog : qkey -> body) (rank : qkey -> nat) : Prop :=
  forall q q', calls (prog q) q' -> (rank q' < rank q)%nat.

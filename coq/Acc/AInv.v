(* Acc/AInv.v — the invariant of the Acc model (C11): the durability invariant of Core/AInv.v
   ported to Acc/Model.v, with the accumulator clauses: a memo's accumulated values are the
   from-scratch pushes of its query at verified_at ([mo_acc]); an Empty accumulated_inputs flag
   means that nothing is pushed below any function it calls ([mo_flag]); the recorded edges are
   the first occurrences of the from-scratch reads, in order, minus never-changing entries below
   which nothing is pushed ([mo_esub]: the record_input and discard_edges exceptions). *)
From Salsa Require Import Base.
From Salsa.Kern Require Import CoreK CoreKFacts.
From Salsa.Core Require DurSem.
From Salsa.Acc Require Import Model Spec ProofsDfs ProofsSpec AInvBase ADurSem.

(* storing a memo *)
Definition store (s : db) (q : qkey) (m : memo) : db := set_memo s (upd (d_memo s) q (Some m)).

Lemma cur_store s q m : cur (store s q m) = cur s.
Proof. reflexivity. Qed.

Lemma with_verified_same m : with_verified m (m_verified m) = m.
Proof. destruct m; reflexivity. Qed.

Section AInv.
Variable prog : qkey -> body.
Variable rank : qkey -> nat.
Hypothesis Hrank : calls_below prog rank.
Variable NF : nat.
Hypothesis Hbound : forall q, (rank q < NF)%nat.
Notation E := (E prog NF).
Notation tr := (tr prog NF).
Notation envat := (envat prog NF).
Notation durge := (ADurSem.durge prog NF).
Notation clos := (clos prog NF).
Notation deadq := (deadq prog NF).
Notation psh := (psh prog NF).

Definition lcs (s : db) (k : dur) : rev := last_changed (d_revs s) k.

(* the stamp c is at most the current stamp of the read x (an untracked read is stamped with
   the revision of the run, which bounds every stamp) *)
Definition sle (s : db) (c : rev) (x : rd) : Prop :=
  match x with
  | RIn i => c <= f_changed (d_in s i)
  | RQ d => exists md, d_memo s d = Some md /\ c <= m_changed md
  | _ => True
  end.

(* an entry of the from-scratch reads that may be missing from the recorded edges: a
   never-changing input, or a never-changing function below which nothing is pushed *)
Definition rmok (H : hist) (D : dhist) (v : rev) (e : edge) : Prop :=
  match e with
  | EIn i => D v i = 3
  | EQ d => durge H D v 3 d /\ deadq H v d
  end.

(* when the observer clause fires for an observer verified at v and d's memo md *)
Definition obs_pre (H : hist) (D : dhist) (s : db) (v : rev) (d : qkey) (md : memo) : Prop :=
  m_changed md <= v \/ exists k, durge H D v k d /\ lcs s k <= v.

Record amemo_ok (H : hist) (D : dhist) (s : db) (q : qkey) (m : memo) : Prop := {
  mo_order : 1 <= m_verified m /\ m_changed m <= m_verified m /\ m_verified m <= cur s;
  mo_val : forall x, m_val m = Some x -> x = E H (m_verified m) q;
  mo_reads_in : forall i, In (RIn i) (tr H (m_verified m) q) ->
                In (EIn i) (m_edges m) \/ D (m_verified m) i = 3;
  mo_reads_q : forall d, In (RQ d) (tr H (m_verified m) q) ->
               In (EQ d) (m_edges m) \/ durge H D (m_verified m) 3 d;
  mo_reads_cell : forall x, In x (tr H (m_verified m) q) -> untr x -> m_untracked m = true;
  mo_edges_q : forall d, In (EQ d) (m_edges m) -> In (RQ d) (tr H (m_verified m) q);
  mo_untr : m_untracked m = true -> m_dur m = 0;
  mo_durge : durge H D (m_verified m) (m_dur m) q;
  mo_dur3 : m_dur m <= 3;
  (* changed_at is bounded by the current stamp of something the verified run reads *)
  mo_stamp : m_changed m <= 1 \/
             exists x, In x (tr H (m_verified m) q) /\ sle s (m_changed m) x;
  (* the accumulator clauses *)
  mo_acc : m_acc m = psh H (m_verified m) q;
  mo_flag : m_accin m = false -> forall d, In (RQ d) (tr H (m_verified m) q) -> deadq H (m_verified m) d;
  mo_esub : sub_rm (rmok H D (m_verified m)) (m_edges m) (dd [] (redges (tr H (m_verified m) q)));
  mo_obs : forall d, clos H (m_verified m) q d ->
           exists md, d_memo s d = Some md /\
             (obs_pre H D s (m_verified m) d md ->
              E H (m_verified m) d = E H (m_verified md) d /\ m_dur m <= m_dur md)
}.

Record AInv (H : hist) (D : dhist) (s : db) : Prop := {
  inv_cur : 1 <= cur s;
  inv_revs : revs_ok (d_revs s);
  inv_in : forall i r, f_changed (d_in s i) <= r -> r <= cur s -> sn_in (H r) i = f_val (d_in s i);
  inv_dur : forall i r, f_changed (d_in s i) <= r -> r <= cur s -> D r i = f_dur (d_in s i);
  inv_in_le : forall i, f_changed (d_in s i) <= cur s;
  inv_cell : forall c, sn_cell (H (cur s)) c = d_cell s c;
  inv_dur3 : forall r i, D r i <= 3;
  (* the write rule: an input whose level had not been written after r is the same at r+1 *)
  inv_wr : forall r i, r < cur s -> lcs s (D r i) <= r ->
           sn_in (H (r + 1)) i = sn_in (H r) i /\ D (r + 1) i = D r i;
  inv_memo : forall q m, d_memo s q = Some m -> amemo_ok H D s q m
}.

(* ---------------------------------------------------------------- stability from the write rule *)
Lemma lcs_anti H D s k k' : AInv H D s -> k <= k' -> lcs s k' <= lcs s k.
Proof. intros HI. apply DurSem.lc_anti. apply (inv_revs _ _ _ HI). Qed.

Lemma lcs_le_cur H D s k : AInv H D s -> lcs s k <= cur s.
Proof. intros HI. apply DurSem.lc_le_cur. apply (inv_revs _ _ _ HI). Qed.

Lemma stable_now H D s k a : AInv H D s -> lcs s k <= a -> wstable H D k a (cur s).
Proof.
  intros HI Hlc i Hi.
  assert (Hn : forall n r, r = a + N.of_nat n -> r <= cur s ->
                 sn_in (H r) i = sn_in (H a) i /\ D r i = D a i).
  { induction n as [|n IH]; intros r Hr Hle.
    - replace r with a by lia. split; reflexivity.
    - assert (Hr' : a + N.of_nat n <= cur s) by lia.
      destruct (IH (a + N.of_nat n) eq_refl Hr') as [A B].
      destruct (inv_wr _ _ _ HI (a + N.of_nat n) i) as [A' B'].
      + lia.
      + rewrite B. pose proof (lcs_anti H D s k (D a i) HI Hi). lia.
      + replace r with (a + N.of_nat n + 1) by lia. split; congruence. }
  intros r Ha Hb. apply (Hn (N.to_nat (r - a))); [lia | exact Hb].
Qed.

(* level 3 (NEVER_CHANGE) is stable from any revision on *)
Lemma stable_never H D s a : AInv H D s -> 1 <= a -> wstable H D 3 a (cur s).
Proof.
  intros HI Ha. apply (stable_now H D s 3 a HI).
  unfold lcs. rewrite DurSem.lc_never by lia. exact Ha.
Qed.

(* ---------------------------------------------------------------- extension within a revision *)
Record dext (s s' : db) : Prop := {
  ext_revs : d_revs s' = d_revs s;
  ext_in : d_in s' = d_in s;
  ext_cell : d_cell s' = d_cell s;
  ext_pcell : d_pcell s' = d_pcell s;
  ext_valid : forall q m, d_memo s q = Some m -> m_verified m = cur s -> m_val m <> None ->
              d_memo s' q = Some m;
  ext_vcur : forall q m, d_memo s q = Some m -> m_verified m = cur s ->
             exists m', d_memo s' q = Some m' /\ m_verified m' = cur s /\ m_dur m <= m_dur m';
  ext_mono : forall q m, d_memo s q = Some m ->
             exists m', d_memo s' q = Some m' /\ m_changed m <= m_changed m'
}.

Lemma dext_refl s : dext s s.
Proof.
  constructor; auto.
  - intros q m Hm Hv. exists m. split; [exact Hm|]. split; [exact Hv | lia].
  - intros q m Hm. exists m. split; [exact Hm | lia].
Qed.

Lemma dext_cur s s' : dext s s' -> cur s' = cur s.
Proof. intros [Hr _ _ _ _ _ _]. unfold cur. rewrite Hr. reflexivity. Qed.

Lemma dext_trans s1 s2 s3 : dext s1 s2 -> dext s2 s3 -> dext s1 s3.
Proof.
  intros H12 H23. pose proof (dext_cur _ _ H12) as Hc.
  destruct H12 as [a1 b1 c1 d1 e1 f1 h1], H23 as [a2 b2 c2 d2 e2 f2 h2].
  constructor; try congruence; auto.
  - intros q m Hm Hv Hx. apply e2; [apply e1; assumption | rewrite Hc; exact Hv | exact Hx].
  - intros q m Hm Hv. destruct (f1 q m Hm Hv) as (m' & Hm' & Hv' & Hd').
    destruct (f2 q m' Hm') as (m'' & Hm'' & Hv'' & Hd''); [rewrite Hc; exact Hv'|].
    exists m''. split; [exact Hm''|]. split; [rewrite <- Hc; exact Hv'' | lia].
  - intros q m Hm. destruct (h1 q m Hm) as (m' & Hm' & Hc').
    destruct (h2 q m' Hm') as (m'' & Hm'' & Hc'').
    exists m''. split; [exact Hm''|]. lia.
Qed.

(* a computation for a query of rank < k leaves memos of rank >= k alone *)
Definition dtouch_below (s s' : db) (k : nat) : Prop :=
  forall p, (k <= rank p)%nat -> d_memo s' p = d_memo s p.

Lemma dtouch_refl s k : dtouch_below s s k.
Proof. intros p _; reflexivity. Qed.

Lemma dtouch_trans s1 s2 s3 k1 k2 k :
  (k1 <= k)%nat -> (k2 <= k)%nat ->
  dtouch_below s1 s2 k1 -> dtouch_below s2 s3 k2 -> dtouch_below s1 s3 k.
Proof.
  intros H1 H2 T1 T2 p Hp. rewrite (T2 p) by lia. apply T1. lia.
Qed.

(* ---------------------------------------------------------------- the part of the state that matters *)
Definition dcore_eq (s s' : db) : Prop :=
  d_revs s' = d_revs s /\ d_in s' = d_in s /\ d_cell s' = d_cell s /\ d_memo s' = d_memo s.

Lemma dcore_eq_cur s s' : dcore_eq s s' -> cur s' = cur s.
Proof. intros (Hr & _). unfold cur; rewrite Hr; reflexivity. Qed.

Lemma obs_pre_core_eq H D s s' v d md :
  d_revs s' = d_revs s -> obs_pre H D s v d md -> obs_pre H D s' v d md.
Proof. intros Hr. unfold obs_pre, lcs. rewrite Hr. auto. Qed.

Lemma amemo_ok_core_eq H D s s' q m : dcore_eq s s' -> amemo_ok H D s q m -> amemo_ok H D s' q m.
Proof.
  intros Hc Hm. pose proof (dcore_eq_cur _ _ Hc) as Hcur.
  destruct Hc as (Hr & Hi & _ & Hmm).
  destruct Hm as [a b c d e f g h i k k1 k2 k3 j].
  constructor; rewrite ?Hcur; auto.
  - destruct k as [A | (x & Hx & Hs)]; [left; exact A | right].
    exists x. split; [exact Hx|]. destruct x as [i0 | d0 | c0 |]; cbn in *; rewrite ?Hi, ?Hmm; exact Hs.
  - intros d0 Hd0. destruct (j d0 Hd0) as (md & Hmd & Hobs).
    exists md. split; [rewrite Hmm; exact Hmd|].
    intros Hp. apply Hobs. apply (obs_pre_core_eq H D s' s); [congruence | exact Hp].
Qed.

Lemma AInv_core_eq H D s s' : dcore_eq s s' -> AInv H D s -> AInv H D s'.
Proof.
  intros Hc HI. pose proof (dcore_eq_cur _ _ Hc) as Hcur.
  pose proof Hc as (Hr & Hi & Hce & Hm).
  destruct HI as [a a' b b' c d e f g].
  constructor; unfold lcs in *; rewrite ?Hcur, ?Hi, ?Hce, ?Hm, ?Hr; auto.
  intros q m Hq. apply (amemo_ok_core_eq H D s); [exact Hc | apply g; exact Hq].
Qed.

(* ---------------------------------------------------------------- storing a memo *)
Lemma lcs_store s q m k : lcs (store s q m) k = lcs s k.
Proof. reflexivity. Qed.

(* The frame rule: store a memo verified now.  Besides the new memo being ok, every other
   memo that observes q must be served by the new memo. *)
Lemma AInv_store H D s q m :
  AInv H D s ->
  m_verified m = cur s ->
  amemo_ok H D (store s q m) q m ->
  (forall g mg, d_memo s g = Some mg -> g <> q -> clos H (m_verified mg) g q ->
     obs_pre H D s (m_verified mg) q m ->
     E H (m_verified mg) q = E H (cur s) q /\ m_dur mg <= m_dur m) ->
  (forall m0, d_memo s q = Some m0 -> m_verified m0 = cur s ->
     (m_val m0 <> None -> m0 = m) /\ m_dur m0 <= m_dur m) ->
  (forall m0, d_memo s q = Some m0 -> m_changed m0 <= m_changed m) ->
  AInv H D (store s q m) /\ dext s (store s q m).
Proof.
  intros HI Hv Hok Hobs Hsame Hmono.
  destruct HI as [a a' b b' c d e f g].
  split.
  - constructor; rewrite ?cur_store; auto.
    intros p mp Hp. unfold store in Hp; cbn in Hp. unfold upd in Hp.
    destruct (key_eqb_spec q p) as [<- | Hne].
    + injection Hp as <-. exact Hok.
    + specialize (g p mp Hp). destruct g as [g1 g2 g3 g4 g5 g6 g7 g8 g9 g11 g12 g13 g14 g10].
      constructor; rewrite ?cur_store; auto.
      { destruct g11 as [A | (x & Hx & Hs)]; [left; exact A | right].
        exists x. split; [exact Hx|]. destruct x as [i0 | d0 | c0 |]; cbn in *; try exact Hs.
        destruct Hs as (md & Hmd & Hle). unfold upd.
        destruct (key_eqb_spec q d0) as [<- | Hne0].
        - exists m. split; [reflexivity|]. specialize (Hmono md Hmd). lia.
        - exists md. split; assumption. }
      intros d0 Hd0. destruct (g10 d0 Hd0) as (md & Hmd & Hmdo).
      unfold store; cbn. unfold upd. destruct (key_eqb_spec q d0) as [<- | Hne0].
      * exists m. split; [reflexivity|]. intros Hp0. rewrite Hv.
        apply (Hobs p mp Hp); [congruence | exact Hd0 | exact Hp0].
      * exists md. split; [exact Hmd | exact Hmdo].
  - constructor; try reflexivity; try (intros Hev0; exact Hev0).
    + intros p mp Hp Hvp Hxp. unfold store; cbn. unfold upd.
      destruct (key_eqb_spec q p) as [<- | Hne]; [|exact Hp].
      destruct (Hsame mp Hp Hvp) as [Heq _]. rewrite (Heq Hxp). reflexivity.
    + intros p mp Hp Hvp. unfold store; cbn. unfold upd.
      destruct (key_eqb_spec q p) as [<- | Hne].
      * exists m. split; [reflexivity|]. split; [exact Hv|].
        destruct (Hsame mp Hp Hvp) as [_ Hle]. exact Hle.
      * exists mp. split; [exact Hp|]. split; [exact Hvp | lia].
    + intros p mp Hp. unfold store; cbn. unfold upd.
      destruct (key_eqb_spec q p) as [<- | Hne].
      * exists m. split; [reflexivity|]. apply Hmono; exact Hp.
      * exists mp. split; [exact Hp | lia].
Qed.

Lemma dtouch_store s q m k : (rank q < k)%nat -> dtouch_below s (store s q m) k.
Proof.
  intros Hk p Hp. assert (Hne : q <> p) by (intros ->; lia).
  unfold store; cbn. apply upd_other; exact Hne.
Qed.

(* ---------------------------------------------------------------- panics that may escape a request *)
Definition dallowed (s : db) (p : panic) : Prop :=
  p = PInjected /\ exists c, d_pcell s c <> 0.

Lemma dallowed_ext s s' p : d_pcell s' = d_pcell s -> dallowed s' p -> dallowed s p.
Proof. intros He [-> (c & Hc)]. split; [reflexivity|]. exists c. rewrite <- He. exact Hc. Qed.

End AInv.

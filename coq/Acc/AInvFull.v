(* Acc/AInvFull.v — C11 over whole histories of the Acc model: in every state reachable from the
   initial database (inputs and writes of every durability, both builds), every `accumulated`
   call returns [spec_acc] of the current snapshot and every Get returns [eval] — or unwinds
   with an injected panic; never out of fuel once the loop bound exceeds a number computed from
   the from-scratch call tree. *)
From Salsa Require Import Base.
From Salsa.Kern Require Import CoreK CoreKFacts.
From Salsa.Core Require DurSem.
From Salsa.Acc Require Import Model Spec ProofsDfs ProofsSpec ProofsLoop Statement
     AInvBase ADurSem AInv AInvSem AInvOps AInvTop AInvLoop.

(* ---------------------------------------------------------------- the specification only sees the snapshot *)
Lemma fold_left_ext {A B} (f g : A -> B -> A) l : forall a,
  (forall a b, In b l -> f a b = g a b) -> fold_left f l a = fold_left g l a.
Proof.
  induction l as [|x l IH]; intros a Hfg; cbn; [reflexivity|].
  rewrite (Hfg a x (or_introl eq_refl)). apply IH. intros a' b Hb. apply Hfg. right; exact Hb.
Qed.

Lemma visit_ext succ succ' own own' :
  (forall q, succ q = succ' q) -> (forall q, own q = own' q) ->
  forall n vis q, visit succ own n vis q = visit succ' own' n vis q.
Proof.
  intros Hs Ho. induction n as [|n IH]; intros vis q; cbn [visit]; [reflexivity|].
  destruct (existsb (key_eqb q) vis); [reflexivity|].
  rewrite <- Hs, <- Ho. apply fold_left_ext. intros a b _. rewrite IH. reflexivity.
Qed.

Lemma spec_acc_snap_eq prog n a b q : snap_eq a b -> spec_acc prog n a q = spec_acc prog n b q.
Proof.
  intros Hs. unfold spec_acc. f_equal. apply visit_ext.
  - intros p. unfold spec_succ. symmetry. apply (env_snap_eq prog n a b Hs (prog p)).
  - intros p. unfold spec_own. symmetry. apply (env_snap_eq prog n a b Hs (prog p)).
Qed.

(* the loop bound as a function of the snapshot *)
Definition need (prog : qkey -> body) (NF : nat) (sn : snapshot) (q : qkey) : nat :=
  S (S (T prog NF (fun _ => sn) 0 q)).

Lemma tsize_snap prog NF (H : hist) c sn : snap_eq (H c) sn ->
  forall n q, tsize prog NF H c n q = tsize prog NF (fun _ => sn) 0 n q.
Proof.
  intros Hs.
  assert (He : forall q, edges_at prog NF H c q = edges_at prog NF (fun _ => sn) 0 q).
  { intros q. unfold edges_at, tr, envat. f_equal. symmetry. apply (env_snap_eq prog NF (H c) sn Hs (prog q)). }
  induction n as [|n IH]; intros q; cbn [tsize]; [reflexivity|].
  rewrite He. f_equal. apply map_ext. intros e. destruct e as [i | d]; [reflexivity|]. rewrite IH. reflexivity.
Qed.

(* more iterations do not change the outcome of a loop that did not run out of fuel *)
Lemma acc_loop_mono persist prog noeq L : forall n stack vis out s s' r,
  acc_loop persist prog noeq L n stack vis out s = (s', r) -> r <> Fuel ->
  acc_loop persist prog noeq L (S n) stack vis out s = (s', r).
Proof.
  induction n as [|n IH]; intros stack vis out s s' r Hrun Hr.
  - cbn in Hrun. unfold nofuel in Hrun. injection Hrun as <- <-. contradiction.
  - cbn [acc_loop] in Hrun. cbn [acc_loop]. destruct stack as [|k st]; [exact Hrun|].
    destruct (existsb (edge_eqb k) vis); [apply IH; assumption|].
    destruct k as [i | q]; [apply IH; assumption|].
    unfold bind at 1 in Hrun. unfold bind at 1.
    destruct (refresh persist prog noeq L q s) as [s1 [mv | p |]]; [| exact Hrun | exact Hrun].
    destruct (negb (m_accin (fst mv))); [apply IH; assumption|].
    unfold bind at 1, get in Hrun. unfold bind at 1, get.
    destruct (d_memo s1 q); apply IH; assumption.
Qed.

Lemma acc_loop_mono_le persist prog noeq L n m stack vis out s s' r :
  (n <= m)%nat -> acc_loop persist prog noeq L n stack vis out s = (s', r) -> r <> Fuel ->
  acc_loop persist prog noeq L m stack vis out s = (s', r).
Proof.
  intros Hle Hrun Hr. induction Hle as [|m Hle IH]; [exact Hrun|].
  apply acc_loop_mono; assumption.
Qed.

Section Full.
Variable persist : bool.
Variable prog : qkey -> body.
Variable noeq : qkey -> bool.
Variable fams : list N.
Variable rank : qkey -> nat.
Hypothesis Hrank : calls_below prog rank.
Variable NF : nat.
Hypothesis Hbound : forall q, (rank q < NF)%nat.
Notation AInv := (AInv prog NF).
Notation state_ok := (state_ok prog NF).
Notation step := (step persist prog noeq fams).

(* the outcome of a read: the from-scratch answer, or an injected panic while a switch is on *)
Definition read_ok (s : db) (o : op) (r : out) : Prop :=
  match o with
  | OGet q => r = Ok (OV (eval prog NF (snap_of s) q)) \/ exists p, r = Panic p /\ dallowed s p
  | OAccumulated q => r = Ok (OL (spec_acc prog NF (snap_of s) q)) \/ exists p, r = Panic p /\ dallowed s p
  | _ => True
  end.

Fixpoint all_ok (fuel afuel : nat) (s : db) (os : list op) : Prop :=
  match os with
  | [] => True
  | o :: os' => read_ok s o (snd (step fuel afuel s o)) /\ all_ok fuel afuel (fst (step fuel afuel s o)) os'
  end.

Lemma step_get_ok fuel afuel s q :
  (forall p, (rank p < fuel)%nat) -> state_ok false s ->
  read_ok s (OGet q) (snd (step fuel afuel s (OGet q))) /\ state_ok false (fst (step fuel afuel s (OGet q))).
Proof.
  intros Hfuel [(H & D & HI) Hst]. cbn [Model.step read_ok].
  destruct (alevel_ok persist prog noeq rank Hrank NF Hbound H D fuel) as [HF HM].
  assert (Hso : stack_ok rank s q) by (intros p Hp; rewrite Hst in Hp; destruct Hp).
  assert (Hq : (rank q <= fuel)%nat) by (specialize (Hfuel q); lia).
  pose proof (fetch_ok persist prog noeq rank Hrank NF Hbound H D (level persist prog noeq fuel) fuel HF HM q s Hq HI Hso) as Hwp.
  unfold wp in Hwp.
  destruct (fetch persist prog noeq (level persist prog noeq fuel) q s) as [s' [[[[v d] c] ai] | p |]] eqn:Hf.
  - cbn [fst snd].
    destruct Hwp as (HI' & He & _ & Hs' & Hv & _). cbn [fst snd] in Hv.
    split.
    + left. f_equal. f_equal. rewrite Hv. unfold AInvBase.E.
      apply (eval_snap_eq prog). apply (AInv_snap prog NF H D); exact HI.
    + split; [exists H, D; exact HI' | congruence].
  - cbn [fst snd]. destruct Hwp as (Ha & HI' & _).
    split; [right; exists p; split; [reflexivity | exact Ha]|].
    split; [|reflexivity].
    exists H, D. apply (AInv_core_eq prog NF H D s'); [repeat split | exact HI'].
  - destruct Hwp.
Qed.

Lemma step_acc_ok fuel afuel s q :
  (forall p, (rank p < fuel)%nat) -> state_ok false s ->
  (need prog NF (snap_of s) q <= afuel)%nat ->
  read_ok s (OAccumulated q) (snd (step fuel afuel s (OAccumulated q))) /\
  state_ok false (fst (step fuel afuel s (OAccumulated q))).
Proof.
  intros Hfuel [(H & D & HI) Hst] Hneed. cbn [Model.step read_ok].
  destruct (alevel_ok persist prog noeq rank Hrank NF Hbound H D fuel) as [HF HM].
  set (L := level persist prog noeq fuel) in *.
  assert (Hnl : forall p, (rank p <= fuel)%nat) by (intros p; specialize (Hfuel p); lia).
  assert (Hso : stack_ok rank s q) by (intros p Hp; rewrite Hst in Hp; destruct Hp).
  assert (Hsnap : snap_eq (H (cur s)) (snap_of s)) by (apply (AInv_snap prog NF H D); exact HI).
  assert (Hwp : wp (accumulated_by persist prog noeq L afuel q)
                   (fun l s' => AInv H D s' /\ d_stack s' = [] /\ l = spec_acc prog NF (snap_of s) q)
                   (XP prog NF H D s) s).
  { unfold accumulated_by. apply wp_bind.
    eapply wp_conseq; [apply (fetch_ok persist prog noeq rank Hrank NF Hbound H D L fuel HF HM q s (Hnl q) HI Hso) | | intros; assumption].
    intros r s1 (HI1 & He1 & _ & Hs1 & _).
    pose proof (dext_cur _ _ He1) as Hc1.
    eapply wp_conseq; [apply (acc_loop_correct persist prog noeq rank Hrank NF Hbound H D L fuel HF HM Hnl (cur s) q s1 afuel Hc1 HI1) | |].
    - congruence.
    - unfold need in Hneed. unfold T in *. rewrite (tsize_snap prog NF H (cur s) (snap_of s) Hsnap). lia.
    - intros l s' (A & _ & C & ->). split; [exact A|]. split; [exact C|].
      apply spec_acc_snap_eq. exact Hsnap.
    - intros p s' Hx. eapply XP_trans; eassumption. }
  unfold wp in Hwp.
  destruct (accumulated_by persist prog noeq L afuel q s) as [s' [l | p |]] eqn:Hf.
  - cbn [fst snd]. destruct Hwp as (HI' & Hs' & ->).
    split; [left; reflexivity|]. split; [exists H, D; exact HI' | exact Hs'].
  - cbn [fst snd]. destruct Hwp as (Ha & HI' & _).
    split; [right; exists p; split; [reflexivity | exact Ha]|].
    split; [|reflexivity].
    exists H, D. apply (AInv_core_eq prog NF H D s'); [repeat split | exact HI'].
  - destruct Hwp.
Qed.

(* the step of an `accumulated` call does not depend on the loop bound once it is large enough *)
Lemma step_acc_stable fuel afuel s q :
  (forall p, (rank p < fuel)%nat) -> state_ok false s ->
  (need prog NF (snap_of s) q <= afuel)%nat ->
  step fuel afuel s (OAccumulated q) = step fuel (need prog NF (snap_of s) q) s (OAccumulated q).
Proof.
  intros Hfuel Hok Hle.
  destruct (step_acc_ok fuel (need prog NF (snap_of s) q) s q Hfuel Hok (le_n _)) as [Hr _].
  cbn [Model.step read_ok] in *. unfold accumulated_by, bind in *.
  destruct (fetch persist prog noeq (level persist prog noeq fuel) q s) as [s1 [r1 | p |]]; [| reflexivity | reflexivity].
  destruct (acc_loop persist prog noeq (level persist prog noeq fuel) (need prog NF (snap_of s) q) [EQ q] [] [] s1)
    as [s2 r2] eqn:Hrun.
  assert (Hnf : r2 <> Fuel).
  { intros ->. cbn in Hr. destruct Hr as [Hr | (p & Hr & _)]; discriminate. }
  rewrite (acc_loop_mono_le persist prog noeq _ _ afuel _ _ _ _ _ _ Hle Hrun Hnf). reflexivity.
Qed.

(* ---------------------------------------------------------------- whole histories *)
Theorem all_ok_reachable fuel :
  (forall p, (rank p < fuel)%nat) ->
  forall ops dirty s, Forall dur_op ops -> wf_ops dirty ops -> state_ok dirty s ->
  exists afuel0, forall afuel, (afuel0 <= afuel)%nat -> all_ok fuel afuel s ops.
Proof.
  intros Hfuel. induction ops as [|o ops IH]; intros dirty s Hdur Hwf Hok.
  - exists 0%nat. intros afuel _. exact I.
  - inversion Hdur as [|? ? Hdo Hdurs]; subst.
    assert (Hother : forall dirty', (forall afuel, read_ok s o (snd (step fuel afuel s o))) ->
              (forall afuel, step fuel afuel s o = step fuel 0 s o) ->
              wf_ops dirty' ops -> state_ok dirty' (fst (step fuel 0 s o)) ->
              exists afuel0, forall afuel, (afuel0 <= afuel)%nat -> all_ok fuel afuel s (o :: ops)).
    { intros dirty' Hread Hindep Hwf' Hok'.
      destruct (IH dirty' _ Hdurs Hwf' Hok') as (a0 & Ha0).
      exists a0. intros afuel Hle. cbn [all_ok]. split; [apply Hread|].
      rewrite Hindep. apply Ha0; exact Hle. }
    destruct o as [i v d | d | c v | c v | q | q | fam n |].
    + apply (Hother false); [intros; exact I | intros; reflexivity | exact Hwf |].
      apply (step_other_ok persist prog noeq fams NF fuel 0 dirty s (OSet i v d) Hdo Hok).
    + apply (Hother false); [intros; exact I | intros; reflexivity | exact Hwf |].
      apply (step_other_ok persist prog noeq fams NF fuel 0 dirty s (OSynth d) Hdo Hok).
    + apply (Hother true); [intros; exact I | intros; reflexivity | exact Hwf |].
      apply (step_other_ok persist prog noeq fams NF fuel 0 dirty s (OSetCell c v) Hdo Hok).
    + apply (Hother dirty); [intros; exact I | intros; reflexivity | exact Hwf |].
      apply (step_other_ok persist prog noeq fams NF fuel 0 dirty s (OSetPanic c v) Hdo Hok).
    + destruct Hwf as [-> Hwf].
      apply (Hother false); [| intros; reflexivity | exact Hwf |].
      * intros afuel. apply (step_get_ok fuel afuel s q Hfuel Hok).
      * apply (step_get_ok fuel 0 s q Hfuel Hok).
    + destruct Hwf as [-> Hwf].
      set (N0 := need prog NF (snap_of s) q).
      destruct (step_acc_ok fuel N0 s q Hfuel Hok (le_n _)) as [Hr0 Hs0].
      destruct (IH false _ Hdurs Hwf Hs0) as (a0 & Ha0).
      exists (Nat.max N0 a0). intros afuel Hle. cbn [all_ok].
      rewrite (step_acc_stable fuel afuel s q Hfuel Hok); [|fold N0; lia]. fold N0.
      split; [exact Hr0|]. apply Ha0. lia.
    + apply (Hother dirty); [intros; exact I | intros; reflexivity | exact Hwf |].
      apply (step_other_ok persist prog noeq fams NF fuel 0 dirty s (OSetLru fam n) Hdo Hok).
    + apply (Hother dirty); [intros; exact I | intros; reflexivity | exact Hwf |].
      apply (step_other_ok persist prog noeq fams NF fuel 0 dirty s OEvict Hdo Hok).
Qed.

Theorem all_ok_init fuel :
  (forall p, (rank p < fuel)%nat) ->
  forall iv idur lru0 ops, (forall i, idur i <= 3) -> Forall dur_op ops -> wf_ops false ops ->
  exists afuel0, forall afuel, (afuel0 <= afuel)%nat -> all_ok fuel afuel (init iv idur lru0) ops.
Proof.
  intros Hfuel iv idur lru0 ops Hid Hdur Hwf.
  apply (all_ok_reachable fuel Hfuel ops false _ Hdur Hwf). apply init_ok_dur. exact Hid.
Qed.

(* the statement of Acc/Statement.v follows *)
Lemma all_ok_acc_outs_ok fuel afuel : forall ops s,
  all_ok fuel afuel s ops -> acc_outs_ok persist prog noeq fams NF fuel afuel s ops.
Proof.
  induction ops as [|o ops IH]; intros s Hx; [exact I|].
  cbn [all_ok acc_outs_ok] in *. destruct Hx as [A B]. split; [|apply IH; exact B].
  destruct o; try exact I. cbn [read_ok] in A. unfold acc_ok.
  destruct A as [A | (p & A & _)]; [left; exact A | right; exists p; exact A].
Qed.

Theorem accumulated_full fuel :
  (forall p, (rank p < fuel)%nat) ->
  forall iv idur lru0 ops, (forall i, idur i <= 3) -> Forall dur_op ops -> wf_ops false ops ->
  exists afuel0, forall afuel, (afuel0 <= afuel)%nat ->
    acc_outs_ok persist prog noeq fams NF fuel afuel (init iv idur lru0) ops.
Proof.
  intros Hfuel iv idur lru0 ops Hid Hdur Hwf.
  destruct (all_ok_init fuel Hfuel iv idur lru0 ops Hid Hdur Hwf) as (a0 & Ha0).
  exists a0. intros afuel Hle. apply all_ok_acc_outs_ok. apply Ha0; exact Hle.
Qed.

End Full.

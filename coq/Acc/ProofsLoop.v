(* Acc/ProofsLoop.v — from the executable accumulated_by loop to the specification.

   [acc_view] is the NAMED MISSING INVARIANT of C11: it says what `refresh_memo` shows of the
   memo tables during the loop (a fixed recorded graph whose nodes carry the from-scratch
   pushes, whose flags are sound, and whose edges are the from-scratch calls up to dead
   entries).  Given it, the loop returns [spec_acc] — proved here for every program, state,
   visiting order and fuel.  What is not proved is that `fetch` establishes such a view
   (the Core invariant of Core/Inv*.v extended with the accumulator fields).              *)
From Salsa Require Import Base.
From Salsa.Acc Require Import Model Spec ProofsDfs ProofsSpec.

Section Loop.
Variable persist : bool.
Variable prog : qkey -> body.
Variable noeq : qkey -> bool.
Variable L : lower.

(* a fixed recorded graph *)
Variable gsucc : qkey -> list edge.     (* origin edges of the memo *)
Variable gown : qkey -> list val.       (* its accumulated values *)
Variable gflag : qkey -> bool.          (* its accumulated_inputs flag *)
Variable U : list qkey.                 (* the functions the loop may touch *)
Variable P : db -> Prop.                (* the states the loop may be in *)

Definition fsucc (q : qkey) : list edge := if gflag q then gsucc q else [].

Definition refresh_shows : Prop :=
  forall s q s' m v, P s -> In q U -> refresh persist prog noeq L q s = (s', Ok (m, v)) ->
    P s' /\ m_acc m = gown q /\ m_accin m = gflag q /\
    (gflag q = true -> exists m2, d_memo s' q = Some m2 /\ m_edges m2 = gsucc q).

Definition closedU : Prop :=
  forall q c, In q U -> gflag q = true -> In (EQ c) (gsucc q) -> In c U.

Definition inU (l : list edge) : Prop := forall c, In (EQ c) l -> In c U.

Lemma acc_loop_ploop (HR : refresh_shows) (HU : closedU) n :
  forall stack vis out s s' l, P s -> inU stack ->
    acc_loop persist prog noeq L n stack vis out s = (s', Ok l) ->
    ploop fsucc gown n stack vis out = Some l /\ P s'.
Proof.
  induction n as [|n IH]; intros stack vis out s s' l HP HS H; cbn in H; [discriminate|].
  cbn [ploop]. destruct stack as [|k st].
  - unfold ret in H. injection H as <- <-. split; [reflexivity | exact HP].
  - assert (HSt : inU st) by (intros c Hc; apply HS; now right).
    change (existsb (edge_eqb k) vis) with (mem k vis) in H.
    destruct (mem k vis) eqn:M.
    + now apply (IH st vis out s).
    + destruct k as [i|q].
      * now apply (IH st (EIn i :: vis) out s).
      * assert (Hq : In q U) by (apply HS; now left).
        unfold bind at 1 in H.
        destruct (refresh persist prog noeq L q s) as [s1 [[m v]|p|]] eqn:R; try discriminate.
        destruct (HR _ _ _ _ _ HP Hq R) as (HP1 & Ha & Hf & He).
        cbn [fst] in H. rewrite Ha in H. unfold fsucc.
        destruct (m_accin m) eqn:Fm; rewrite <- Hf; cbn [negb] in H.
        -- unfold bind at 1, get in H.
           destruct (He (eq_sym Hf)) as (m2 & Hm2 & Hed). rewrite Hm2, Hed in H.
           apply (IH (gsucc q ++ st) (EQ q :: vis) (out ++ gown q) s1); [exact HP1| |exact H].
           intros c Hc. apply in_app_iff in Hc. destruct Hc as [Hc|Hc]; [|now apply HSt].
           apply (HU q c Hq); [now rewrite <- Hf | exact Hc].
        -- now apply (IH st (EQ q :: vis) (out ++ gown q) s1).
Qed.

End Loop.

(* ---------------------------------------------------------------- the named invariant *)
Section View.
Variable persist : bool.
Variable prog : qkey -> body.
Variable noeq : qkey -> bool.
Variable L : lower.
Variable n : nat.                       (* rank bound / evaluation fuel of the specification *)
Variable sn : snapshot.                 (* the current inputs and cells *)

Record acc_view (dead : edge -> bool) (gsucc : qkey -> list edge) (gflag : qkey -> bool)
                (U : list qkey) (P : db -> Prop) : Prop := {
  (* [dead]: a set of nodes below which nothing is pushed *)
  av_dead_own : forall q, dead (EQ q) = true -> sem_own prog n sn q = [];
  av_dead_closed : forall q, dead (EQ q) = true -> alldead dead (sem_succ prog n sn q);
  (* what refresh_memo shows: the from-scratch pushes, a fixed flag and fixed edges *)
  av_refresh : refresh_shows persist prog noeq L gsucc (sem_own prog n sn) gflag U P;
  av_closed : closedU gsucc gflag U;
  (* flag soundness: an Empty flag means every recorded edge is dead *)
  av_flag : forall q, In q U -> gflag q = false -> alldead dead (gsucc q);
  (* the recorded edges are the from-scratch calls (first occurrences), up to dead entries *)
  av_edges : forall q, In q U -> dead (EQ q) = false ->
      filter (live dead) (gsucc q) = filter (live dead) (dd [] (sem_succ prog n sn q));
  av_edges_dead : forall q, In q U -> dead (EQ q) = true -> alldead dead (gsucc q)
}.

Variable rank : qkey -> nat.
Hypothesis acyclic : calls_below prog rank.
Hypothesis rank_bound : forall q, (rank q < n)%nat.

(* the two graphs, made total: outside U the recorded graph is taken to be the from-scratch one *)
Definition g2 (gsucc : qkey -> list edge) (gflag : qkey -> bool) (U : list qkey) (q : qkey) : list edge :=
  if existsb (key_eqb q) U then fsucc gsucc gflag q else dd [] (sem_succ prog n sn q).

Lemma alldead_dd dead seen l : alldead dead l -> alldead dead (dd seen l).
Proof.
  revert seen. induction l as [|k l IH]; intros seen A; cbn; [constructor|].
  inversion A; subst. destruct (mem k seen); [now apply IH|]. constructor; [assumption | now apply IH].
Qed.

Lemma dfs_dd_graph succ v ks o : dfs succ v ks o -> dfs (fun p => dd [] (succ p)) v ks o.
Proof.
  induction 1 as [v|v k ks o Hin _ IH|v i ks o Hn _ IH|v p ks p1 p2 Hn _ IH1 _ IH2].
  - constructor.
  - now apply dfs_seen.
  - now apply dfs_in.
  - apply dfs_q; [exact Hn | | exact IH2].
    apply (dfs_dd (fun p => dd [] (succ p)) (succ p) []); [intros k []|exact IH1].
Qed.

Lemma ploop_ext (s1 s2 : qkey -> list edge) own U m :
  (forall q, In q U -> s1 q = s2 q) ->
  (forall q c, In q U -> In (EQ c) (s1 q) -> In c U) ->
  forall stack vis out, (forall c, In (EQ c) stack -> In c U) ->
    ploop s1 own m stack vis out = ploop s2 own m stack vis out.
Proof.
  intros E C. induction m as [|m IH]; intros stack vis out HS; [reflexivity|]. cbn.
  destruct stack as [|k st]; [reflexivity|].
  assert (HSt : forall c, In (EQ c) st -> In c U) by (intros c Hc; apply HS; now right).
  destruct (mem k vis); [now apply IH|]. destruct k as [i|q]; [now apply IH|].
  assert (Hq : In q U) by (apply HS; now left).
  rewrite <- (E q Hq). apply IH. intros c Hc. apply in_app_iff in Hc.
  destruct Hc as [Hc|Hc]; [now apply (C q c Hq) | now apply HSt].
Qed.

Theorem acc_loop_spec dead gsucc gflag U P :
  acc_view dead gsucc gflag U P ->
  forall afuel q s s' l, P s -> In q U ->
    acc_loop persist prog noeq L afuel [EQ q] [] [] s = (s', Ok l) ->
    l = spec_acc prog n sn q.
Proof.
  intros V afuel q s s' l HP Hq H.
  destruct (acc_loop_ploop persist prog noeq L gsucc (sem_own prog n sn) gflag U P
              (av_refresh _ _ _ _ _ V) (av_closed _ _ _ _ _ V) afuel [EQ q] [] [] s s' l HP) as (PL & _);
    [intros c [E|[]]; injection E as <-; exact Hq | exact H |].
  (* the loop over the recorded graph is the loop over its total extension g2 *)
  assert (CU : forall q c, In q U -> In (EQ c) (fsucc gsucc gflag q) -> In c U).
  { intros p c Hp Hc. unfold fsucc in Hc. destruct (gflag p) eqn:F; [|destruct Hc].
    exact (av_closed _ _ _ _ _ V p c Hp F Hc). }
  rewrite (ploop_ext (fsucc gsucc gflag) (g2 gsucc gflag U) (sem_own prog n sn) U afuel) in PL;
    [| intros p Hp; unfold g2; apply existsb_key_In in Hp; now rewrite Hp
     | exact CU
     | intros c [E|[]]; injection E as <-; exact Hq].
  (* the stack loop is the recursive DFS of g2 *)
  apply ploop_dfs in PL. destruct PL as (o2 & D2 & ->). cbn [app].
  (* the specification is the recursive DFS of the from-scratch graph, first occurrences *)
  destruct (spec_acc_dfs prog rank acyclic n rank_bound sn q) as (o1 & D1 & ->).
  pose proof (dfs_dd_graph _ _ _ _ D1) as D1'.
  (* dead entries do not matter *)
  destruct (dfs_dead (sem_own prog n sn) dead (av_dead_own _ _ _ _ _ V)
              (fun p => dd [] (sem_succ prog n sn p)) (g2 gsucc gflag U)) with
      (v := @nil edge) (ks := [EQ q]) (o := o1) (w := @nil edge) (ks2 := [EQ q]) (p := o2) as (O & _).
  - intros p Hp. apply alldead_dd. now apply (av_dead_closed _ _ _ _ _ V).
  - intros p Hp. unfold g2. destruct (existsb (key_eqb p) U) eqn:M.
    + apply existsb_key_In in M. unfold fsucc. destruct (gflag p); [|constructor].
      now apply (av_edges_dead _ _ _ _ _ V).
    + apply alldead_dd. now apply (av_dead_closed _ _ _ _ _ V).
  - intros p Hp. unfold g2. destruct (existsb (key_eqb p) U) eqn:M; [|reflexivity].
    apply existsb_key_In in M. unfold fsucc. destruct (gflag p) eqn:F.
    + symmetry. now apply (av_edges _ _ _ _ _ V).
    + rewrite <- (av_edges _ _ _ _ _ V p M Hp).
      now rewrite (filter_live_alldead dead _ (av_flag _ _ _ _ _ V p M F)).
  - exact D1'.
  - apply eqv_refl.
  - reflexivity.
  - exact D2.
  - symmetry. exact O.
Qed.

(* accumulated_by = fetch, then the loop *)
Theorem accumulated_by_spec dead gsucc gflag U P :
  acc_view dead gsucc gflag U P ->
  forall afuel q s s' l, In q U ->
    (forall s1 r, fetch persist prog noeq L q s = (s1, Ok r) -> P s1) ->
    accumulated_by persist prog noeq L afuel q s = (s', Ok l) ->
    l = spec_acc prog n sn q.
Proof.
  intros V afuel q s s' l Hq HF H. unfold accumulated_by, bind at 1 in H.
  destruct (fetch persist prog noeq L q s) as [s1 [r|p|]] eqn:F; try discriminate.
  eapply acc_loop_spec; [exact V | eapply HF; eauto | exact Hq | exact H].
Qed.

End View.

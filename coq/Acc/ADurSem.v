(* Acc/ADurSem.v — the semantic layer of the Acc invariant: durability levels of a query over
   a history, call closure, constancy over write-free windows (value, trace, pushes), queries
   below which nothing is pushed ([deadq]), and the list algebra relating recorded edges to
   the from-scratch reads ([sub_rm], [dd]).  Port of Core/DurSem.v plus the accumulator parts. *)
From Salsa Require Import Base.
From Salsa.Kern Require Import CoreK CoreKFacts.
From Salsa.Core Require DurSem.
From Salsa.Acc Require Import Model Spec ProofsDfs ProofsSpec AInvBase.

Notation revs_ok := DurSem.revs_ok.

Section ADurSem.
Variable prog : qkey -> body.
Variable rank : qkey -> nat.
Hypothesis Hrank : calls_below prog rank.
Variable NF : nat.
Hypothesis Hbound : forall q, (rank q < NF)%nat.
Notation E := (E prog NF).
Notation tr := (tr prog NF).
Notation psh := (psh prog NF).
Notation envat := (envat prog NF).

Section Hist.
Variable H : hist.
Variable D : dhist.

Inductive durge (r : rev) (k : dur) : qkey -> Prop :=
| durge_intro q :
    (forall i, In (RIn i) (tr H r q) -> k <= D r i) ->
    (forall d, In (RQ d) (tr H r q) -> durge r k d) ->
    (forall x, In x (tr H r q) -> untr x -> k = 0) ->
    durge r k q.

Lemma durge_in r k q i : durge r k q -> In (RIn i) (tr H r q) -> k <= D r i.
Proof. intros [q0 A _ _]. apply A. Qed.

Lemma durge_q r k q d : durge r k q -> In (RQ d) (tr H r q) -> durge r k d.
Proof. intros [q0 _ B _]. apply B. Qed.

Lemma durge_untr r k q x : durge r k q -> In x (tr H r q) -> untr x -> k = 0.
Proof. intros [q0 _ _ C]. apply C. Qed.

Lemma durge_mono r k k' q : k' <= k -> durge r k q -> durge r k' q.
Proof.
  intros Hk Hd. induction Hd as [q A B IH C]. constructor.
  - intros i Hi. specialize (A i Hi). lia.
  - exact IH.
  - intros x Hx Hu. specialize (C x Hx Hu). lia.
Qed.

Lemma durge_zero_n r : forall n q, (rank q < n)%nat -> durge r 0 q.
Proof.
  induction n as [|n IH]; intros q Hq; [inversion Hq|].
  constructor.
  - intros i _. lia.
  - intros d Hd. apply IH. pose proof (tr_calls prog rank Hrank NF H _ _ _ Hd). lia.
  - intros x _ _. reflexivity.
Qed.

Lemma durge_zero r q : durge r 0 q.
Proof. apply (durge_zero_n r (S (rank q))). lia. Qed.

Inductive clos (r : rev) : qkey -> qkey -> Prop :=
| clos_refl f : clos r f f
| clos_step f d e : In (RQ d) (tr H r f) -> clos r d e -> clos r f e.

Lemma clos_trans r f d e : clos r f d -> clos r d e -> clos r f e.
Proof.
  intros Hfd Hde. induction Hfd as [f | f d0 d Hin Hd0 IH]; [exact Hde|].
  eapply clos_step; [exact Hin | apply IH; exact Hde].
Qed.

Lemma clos_right r f d e : clos r f d -> In (RQ e) (tr H r d) -> clos r f e.
Proof.
  intros Hfd Hin. eapply clos_trans; [exact Hfd|].
  eapply clos_step; [exact Hin | apply clos_refl].
Qed.

Lemma clos_one r f d : In (RQ d) (tr H r f) -> clos r f d.
Proof. intros Hin. eapply clos_step; [exact Hin | apply clos_refl]. Qed.

Lemma clos_rank r f d : clos r f d -> (rank d <= rank f)%nat.
Proof.
  intros Hc. induction Hc as [f | f d0 d Hin Hd0 IH]; [lia|].
  pose proof (tr_calls prog rank Hrank NF H _ _ _ Hin). lia.
Qed.

Lemma durge_clos r k f d : durge r k f -> clos r f d -> durge r k d.
Proof.
  intros Hd Hc. induction Hc as [f | f d0 d Hin Hd0 IH]; [exact Hd|].
  apply IH. eapply durge_q; eassumption.
Qed.

(* nothing is pushed by q or by anything it (transitively) calls, at revision r *)
Inductive deadq (r : rev) : qkey -> Prop :=
| deadq_intro q :
    psh H r q = [] -> (forall d, In (RQ d) (tr H r q) -> deadq r d) -> deadq r q.

Lemma deadq_own r q : deadq r q -> psh H r q = [].
Proof. intros [q0 A _]. exact A. Qed.

Lemma deadq_q r q d : deadq r q -> In (RQ d) (tr H r q) -> deadq r d.
Proof. intros [q0 _ B]. apply B. Qed.

Definition wstable (k : dur) (a b : rev) : Prop :=
  forall i, k <= D a i -> forall r, a <= r -> r <= b ->
    sn_in (H r) i = sn_in (H a) i /\ D r i = D a i.

Lemma durge_stable_n k a b : 1 <= k -> wstable k a b ->
  forall n q, (rank q < n)%nat -> durge a k q -> forall r, a <= r -> r <= b ->
    tr H r q = tr H a q /\ E H r q = E H a q /\ psh H r q = psh H a q /\ durge r k q.
Proof.
  intros Hk Hw. induction n as [|n IH]; intros q Hq Hd r Ha Hb; [inversion Hq|].
  assert (Hag : agree_on (envat H a) (envat H r) (tr H a q)).
  { intros x Hx. destruct x as [i | d | c |]; cbn.
    - symmetry. apply (Hw i); [eapply durge_in; eassumption | exact Ha | exact Hb].
    - symmetry. apply (IH d); [|eapply durge_q; eassumption | exact Ha | exact Hb].
      pose proof (tr_calls prog rank Hrank NF H _ _ _ Hx). lia.
    - exfalso. assert (k = 0) by (eapply durge_untr; [exact Hd | exact Hx | right; eauto]). lia.
    - reflexivity. }
  destruct (trace_determined (prog q) _ _ Hag) as (Htr & Hrun & Hpsh & _).
  assert (Htr' : tr H r q = tr H a q) by exact Htr.
  split; [exact Htr'|]. split; [|split; [exact Hpsh|]].
  - rewrite !(E_unfold prog rank Hrank NF Hbound). exact Hrun.
  - constructor; rewrite Htr'.
    + intros i Hi. pose proof (durge_in _ _ _ _ Hd Hi) as Hki.
      destruct (Hw i Hki r Ha Hb) as [_ ->]. exact Hki.
    + intros d Hx. apply (IH d); [|eapply durge_q; eassumption | exact Ha | exact Hb].
      pose proof (tr_calls prog rank Hrank NF H _ _ _ Hx). lia.
    + intros x Hx Hu. eapply durge_untr; eassumption.
Qed.

Lemma durge_stable k a b q r : 1 <= k -> wstable k a b -> durge a k q -> a <= r -> r <= b ->
  tr H r q = tr H a q /\ E H r q = E H a q /\ psh H r q = psh H a q /\ durge r k q.
Proof. intros Hk Hw Hd. apply (durge_stable_n k a b Hk Hw (S (rank q))); [lia | exact Hd]. Qed.

Lemma clos_stable k a b f r : 1 <= k -> wstable k a b -> durge a k f -> a <= r -> r <= b ->
  forall d, clos r f d <-> clos a f d.
Proof.
  intros Hk Hw Hd Ha Hb d. split; intros Hc.
  - revert Hd. induction Hc as [f | f d0 d Hin Hd0 IH]; intros Hd; [apply clos_refl|].
    destruct (durge_stable k a b f r Hk Hw Hd Ha Hb) as (Htr & _ & _).
    rewrite Htr in Hin. eapply clos_step; [exact Hin|]. apply IH. eapply durge_q; eassumption.
  - revert Hd. induction Hc as [f | f d0 d Hin Hd0 IH]; intros Hd; [apply clos_refl|].
    destruct (durge_stable k a b f r Hk Hw Hd Ha Hb) as (Htr & _ & _).
    eapply clos_step; [rewrite Htr; exact Hin|]. apply IH. eapply durge_q; eassumption.
Qed.

Lemma deadq_stable k a b r : 1 <= k -> wstable k a b -> a <= r -> r <= b ->
  forall q, deadq a q -> durge a k q -> deadq r q.
Proof.
  intros Hk Hw Ha Hb q Hdq. induction Hdq as [q Hown Hq IH]. intros Hd.
  destruct (durge_stable k a b q r Hk Hw Hd Ha Hb) as (Htr & _ & Hp & _).
  constructor.
  - rewrite Hp. exact Hown.
  - intros d Hx. rewrite Htr in Hx. apply (IH d Hx). eapply durge_q; eassumption.
Qed.

End Hist.

Lemma durge_hist_eq H D H' D' r k q :
  H' r = H r -> (forall i, D' r i = D r i) -> durge H D r k q -> durge H' D' r k q.
Proof.
  intros HH HD Hd. induction Hd as [q A B IH C].
  pose proof (tr_hist_eq prog NF H H' r q HH) as Htr.
  constructor; rewrite Htr.
  - intros i Hi. rewrite HD. apply A; exact Hi.
  - exact IH.
  - exact C.
Qed.

Lemma clos_hist_eq H H' r f d : H' r = H r -> clos H r f d -> clos H' r f d.
Proof.
  intros HH Hc. induction Hc as [f | f d0 d Hin Hd0 IH]; [apply clos_refl|].
  eapply clos_step; [|exact IH]. rewrite (tr_hist_eq prog NF H H' r f HH). exact Hin.
Qed.

Lemma deadq_hist_eq H H' r q : H' r = H r -> deadq H r q -> deadq H' r q.
Proof.
  intros HH Hd. induction Hd as [q A B IH]. constructor.
  - rewrite (psh_hist_eq prog NF H H' r q HH). exact A.
  - intros d Hx. rewrite (tr_hist_eq prog NF H H' r q HH) in Hx. apply IH; exact Hx.
Qed.

End ADurSem.

(* ---------------------------------------------------------------- edge lists *)
(* the edges of a read trace, in order (untracked reads leave no edge) *)
Fixpoint redges (l : list rd) : list edge :=
  match l with
  | [] => []
  | RIn i :: l' => EIn i :: redges l'
  | RQ q :: l' => EQ q :: redges l'
  | _ :: l' => redges l'
  end.

Lemma redges_app a b : redges (a ++ b) = redges a ++ redges b.
Proof.
  induction a as [|x a IH]; cbn; [reflexivity|].
  destruct x; cbn; rewrite IH; reflexivity.
Qed.

Lemma redges_In_in l i : In (EIn i) (redges l) <-> In (RIn i) l.
Proof.
  induction l as [|x l IH]; cbn; [tauto|].
  destruct x as [j | d | c |]; cbn; rewrite IH.
  - split; (intros [A | A]; [left; congruence | right; exact A]).
  - split; (intros [A | A]; [discriminate A | right; exact A]).
  - split; [intros A; right; exact A | intros [A | A]; [discriminate A | exact A]].
  - split; [intros A; right; exact A | intros [A | A]; [discriminate A | exact A]].
Qed.

Lemma redges_In_q l d : In (EQ d) (redges l) <-> In (RQ d) l.
Proof.
  induction l as [|x l IH]; cbn; [tauto|].
  destruct x as [j | d0 | c |]; cbn; rewrite IH.
  - split; (intros [A | A]; [discriminate A | right; exact A]).
  - split; (intros [A | A]; [left; congruence | right; exact A]).
  - split; [intros A; right; exact A | intros [A | A]; [discriminate A | exact A]].
  - split; [intros A; right; exact A | intros [A | A]; [discriminate A | exact A]].
Qed.

Lemma dd_In seen l e : In e (dd seen l) <-> In e l /\ ~ In e seen.
Proof.
  revert seen. induction l as [|k l IH]; intros seen; cbn; [tauto|].
  destruct (mem k seen) eqn:Hm.
  - rewrite IH. apply mem_In in Hm. split; [tauto|]. intros [[-> | A] B]; [contradiction | tauto].
  - apply mem_nIn in Hm. cbn. rewrite IH. cbn. split.
    + intros [-> | [A B]]; [tauto|]. split; [tauto|]. intros C. apply B. right; exact C.
    + intros [[-> | A] B]; [left; reflexivity|].
      destruct (edge_eq_dec k e) as [-> | Hne]; [left; reflexivity | right].
      split; [exact A|]. intros [C | C]; [contradiction | contradiction].
Qed.

Lemma dd_snoc l : forall seen x,
  dd seen (l ++ [x]) = dd seen l ++ (if mem x seen || mem x l then [] else [x]).
Proof.
  induction l as [|k l IH]; intros seen x; cbn [app dd].
  - change (mem x []) with false. rewrite orb_false_r. destruct (mem x seen); reflexivity.
  - destruct (mem k seen) eqn:Hk.
    + rewrite IH. f_equal.
      assert (Hm : mem x (k :: l) = edge_eqb x k || mem x l) by reflexivity.
      rewrite Hm. destruct (edge_eqb x k) eqn:Hxk; cbn [orb]; [|reflexivity].
      apply edge_eqb_eq in Hxk. subst k. rewrite Hk. reflexivity.
    + rewrite IH. cbn [app]. f_equal. f_equal.
      assert (Hm : mem x (k :: l) = edge_eqb x k || mem x l) by reflexivity.
      assert (Hm' : mem x (k :: seen) = edge_eqb x k || mem x seen) by reflexivity.
      rewrite Hm, Hm'. destruct (edge_eqb x k), (mem x seen), (mem x l); reflexivity.
Qed.

(* [sub_rm R l1 l2]: l1 is l2 with some elements removed, each satisfying R; order kept *)
Inductive sub_rm (R : edge -> Prop) : list edge -> list edge -> Prop :=
| sr_nil : sub_rm R [] []
| sr_keep x l1 l2 : sub_rm R l1 l2 -> sub_rm R (x :: l1) (x :: l2)
| sr_drop x l1 l2 : R x -> sub_rm R l1 l2 -> sub_rm R l1 (x :: l2).

Lemma sub_rm_refl (R : edge -> Prop) l : sub_rm R l l.
Proof. induction l; constructor; assumption. Qed.

Lemma sub_rm_In (R : edge -> Prop) l1 l2 x : sub_rm R l1 l2 -> In x l1 -> In x l2.
Proof.
  induction 1 as [| y l1 l2 _ IH | y l1 l2 _ _ IH]; cbn; [tauto | |].
  - intros [-> | Hx]; [left; reflexivity | right; apply IH; exact Hx].
  - intros Hx. right. apply IH; exact Hx.
Qed.

Lemma sub_rm_missing (R : edge -> Prop) l1 l2 x : sub_rm R l1 l2 -> In x l2 -> ~ In x l1 -> R x.
Proof.
  induction 1 as [| y l1 l2 _ IH | y l1 l2 Hy _ IH]; cbn; [tauto | |].
  - intros [-> | Hx] Hn; [exfalso; apply Hn; left; reflexivity|].
    apply IH; [exact Hx | intros C; apply Hn; right; exact C].
  - intros [-> | Hx] Hn; [exact Hy | apply IH; assumption].
Qed.

Lemma sub_rm_mono (R R' : edge -> Prop) l1 l2 :
  (forall x, R x -> R' x) -> sub_rm R l1 l2 -> sub_rm R' l1 l2.
Proof. intros HR. induction 1; constructor; auto. Qed.

Lemma sub_rm_mono_in (R R' : edge -> Prop) l1 l2 :
  (forall x, In x l2 -> R x -> R' x) -> sub_rm R l1 l2 -> sub_rm R' l1 l2.
Proof.
  intros HR Hs. induction Hs as [| y l1 l2 _ IH | y l1 l2 Hy _ IH].
  - constructor.
  - constructor. apply IH. intros x Hx. apply HR. right; exact Hx.
  - apply sr_drop; [apply HR; [left; reflexivity | exact Hy]|].
    apply IH. intros x Hx. apply HR. right; exact Hx.
Qed.

Lemma sub_rm_snoc_keep (R : edge -> Prop) l1 l2 e : sub_rm R l1 l2 -> sub_rm R (l1 ++ [e]) (l2 ++ [e]).
Proof. induction 1; cbn; constructor; try assumption. constructor. Qed.

Lemma sub_rm_snoc_drop (R : edge -> Prop) l1 l2 e : R e -> sub_rm R l1 l2 -> sub_rm R l1 (l2 ++ [e]).
Proof.
  intros He. induction 1; cbn.
  - apply sr_drop; [exact He | constructor].
  - constructor; assumption.
  - apply sr_drop; assumption.
Qed.

Lemma sub_rm_all (R : edge -> Prop) l : (forall x, In x l -> R x) -> sub_rm R [] l.
Proof.
  induction l as [|x l IH]; intros Hall; [constructor|].
  apply sr_drop; [apply Hall; left; reflexivity | apply IH; intros y Hy; apply Hall; right; exact Hy].
Qed.

Lemma sub_rm_filter (R : edge -> Prop) (f : edge -> bool) l1 l2 :
  (forall x, R x -> f x = false) -> sub_rm R l1 l2 -> filter f l1 = filter f l2.
Proof.
  intros HR. induction 1 as [| y l1 l2 _ IH | y l1 l2 Hy _ IH]; cbn.
  - reflexivity.
  - rewrite IH. reflexivity.
  - rewrite (HR y Hy). exact IH.
Qed.

(* interleaved input edges do not disturb the first-occurrence order of the callee edges *)
Lemma dd_redges_filter (f : edge -> bool) :
  (forall i, f (EIn i) = false) ->
  forall l seen1 seen2, (forall q, mem (EQ q) seen1 = mem (EQ q) seen2) ->
    filter f (dd seen1 (redges l)) = filter f (dd seen2 (map EQ (rq_of l))).
Proof.
  intros Hf. induction l as [|x l IH]; intros seen1 seen2 Hs; [reflexivity|].
  destruct x as [i | d | c |]; cbn [redges rq_of map dd].
  - destruct (mem (EIn i) seen1).
    + apply IH; exact Hs.
    + cbn [filter]. rewrite Hf. apply IH. intros q.
      assert (A : mem (EQ q) (EIn i :: seen1) = edge_eqb (EQ q) (EIn i) || mem (EQ q) seen1) by reflexivity.
      rewrite A. cbn [edge_eqb orb]. apply Hs.
  - pose proof (Hs d) as Hsd. destruct (mem (EQ d) seen2) eqn:Hm2; rewrite Hsd.
    + apply IH; exact Hs.
    + cbn [filter]. rewrite (IH (EQ d :: seen1) (EQ d :: seen2)); [reflexivity|].
      intros q. assert (A : forall sn, mem (EQ q) (EQ d :: sn) = edge_eqb (EQ q) (EQ d) || mem (EQ q) sn) by reflexivity.
      rewrite !A, Hs. reflexivity.
  - apply IH; exact Hs.
  - apply IH; exact Hs.
Qed.

(* Acc/Model.v — the Core algorithm (single handle, Panic-strategy tracked functions)
   extended with accumulators.  Definitions only.

   Starting point: Core/Model.v (same style, same names).  What is new, and what it mirrors:

     accumulator.rs / active_query.rs   accumulate (push onto the active query's AccumulatedMap)
     active_query.rs:add_read           `accumulated_inputs` of the reader, the `record_input`
                                        exception (a NEVER_CHANGE dependency is still recorded when
                                        it, or something below it, has accumulated values);
                                        with feature "persistence" every read is recorded
     zalsa_local.rs:discard_edges_if_never_change
                                        the `accumulated_inputs.is_any()` exception; compiled out
                                        with feature "persistence"
     function/maybe_changed_after.rs    VerifyResult::Unchanged{accumulated}, unchanged_for_memo,
                                        deep_verify_edges or-ing the flags of the verified edges
                                        and storing the result in `accumulated_inputs`
     function/fetch.rs                  refresh_memo (fetch without record_use / read report),
                                        report_tracked_read(has_accumulated, accumulated_inputs)
     function/accumulated.rs            accumulated_by (the DFS loop), accumulated_map
     accumulator/accumulated_map.rs     InputAccumulatedValues (bool: true = Any), AccumulatedMap
                                        (one accumulator type: a list of values in push order)

   The section variable [persist] selects the build: false = default features, true = feature
   "persistence" (the two places named above).                                              *)
From Salsa Require Import Base.
From Salsa.Kern Require Import CoreK.

(* ---------------------------------------------------------------- user code *)
Inductive body :=
| Ret (v : val)
| RdIn (i : ikey) (k : val -> body)        (* input field getter *)
| CallQ (q : qkey) (k : val -> body)       (* tracked function call *)
| RdCell (c : cell) (k : val -> body)      (* report_untracked_read(); read external cell *)
| Touch (k : body)                         (* bare report_untracked_read() *)
| PanicIf (c : cell) (k : body)            (* fault injection *)
| Accum (v : val) (k : body).              (* Log(v).accumulate(db) *)

(* ---------------------------------------------------------------- state *)
Inductive edge := EIn (i : ikey) | EQ (q : qkey).

Definition edge_eqb (a b : edge) : bool :=
  match a, b with
  | EIn i, EIn j => key_eqb i j
  | EQ p, EQ q => key_eqb p q
  | _, _ => false
  end.

Record memo := {
  m_val : option val;        (* None = evicted *)
  m_verified : rev;          (* verified_at *)
  m_changed : rev;           (* revisions.changed_at *)
  m_dur : dur;               (* revisions.durability *)
  m_untracked : bool;        (* origin is DerivedUntracked *)
  m_edges : list edge;       (* origin edges, execution order, deduplicated *)
  m_acc : list val;          (* extra.accumulated: values pushed by this execution, push order *)
  m_accin : bool             (* revisions.accumulated_inputs: true = InputAccumulatedValues::Any *)
}.

Record infield := { f_val : val; f_changed : rev; f_dur : dur }.

Record lru_state := { lru_cap : option N; lru_set : list N }.

Inductive event :=
| EvExec (q : qkey)          (* WillExecute *)
| EvValidate (q : qkey).     (* DidValidateMemoizedValue *)

Record db := {
  d_revs : revs;
  d_ccount : N;
  d_in : ikey -> infield;
  d_cell : cell -> val;
  d_pcell : cell -> val;
  d_memo : qkey -> option memo;
  d_stack : list qkey;
  d_lru : N -> lru_state;
  d_log : list event
}.

Definition cur (s : db) : rev := r_cur (d_revs s).

Definition set_revs s x := {| d_revs := x; d_ccount := d_ccount s; d_in := d_in s; d_cell := d_cell s; d_pcell := d_pcell s; d_memo := d_memo s; d_stack := d_stack s; d_lru := d_lru s; d_log := d_log s |}.
Definition set_ccount s x := {| d_revs := d_revs s; d_ccount := x; d_in := d_in s; d_cell := d_cell s; d_pcell := d_pcell s; d_memo := d_memo s; d_stack := d_stack s; d_lru := d_lru s; d_log := d_log s |}.
Definition set_in s x := {| d_revs := d_revs s; d_ccount := d_ccount s; d_in := x; d_cell := d_cell s; d_pcell := d_pcell s; d_memo := d_memo s; d_stack := d_stack s; d_lru := d_lru s; d_log := d_log s |}.
Definition set_cell s x := {| d_revs := d_revs s; d_ccount := d_ccount s; d_in := d_in s; d_cell := x; d_pcell := d_pcell s; d_memo := d_memo s; d_stack := d_stack s; d_lru := d_lru s; d_log := d_log s |}.
Definition set_pcell s x := {| d_revs := d_revs s; d_ccount := d_ccount s; d_in := d_in s; d_cell := d_cell s; d_pcell := x; d_memo := d_memo s; d_stack := d_stack s; d_lru := d_lru s; d_log := d_log s |}.
Definition set_memo s x := {| d_revs := d_revs s; d_ccount := d_ccount s; d_in := d_in s; d_cell := d_cell s; d_pcell := d_pcell s; d_memo := x; d_stack := d_stack s; d_lru := d_lru s; d_log := d_log s |}.
Definition set_stack s x := {| d_revs := d_revs s; d_ccount := d_ccount s; d_in := d_in s; d_cell := d_cell s; d_pcell := d_pcell s; d_memo := d_memo s; d_stack := x; d_lru := d_lru s; d_log := d_log s |}.
Definition set_lru s x := {| d_revs := d_revs s; d_ccount := d_ccount s; d_in := d_in s; d_cell := d_cell s; d_pcell := d_pcell s; d_memo := d_memo s; d_stack := d_stack s; d_lru := x; d_log := d_log s |}.
Definition set_log s x := {| d_revs := d_revs s; d_ccount := d_ccount s; d_in := d_in s; d_cell := d_cell s; d_pcell := d_pcell s; d_memo := d_memo s; d_stack := d_stack s; d_lru := d_lru s; d_log := x |}.

(* ---------------------------------------------------------------- monad *)
Definition M (A : Type) := db -> db * res A.
Definition ret {A} (a : A) : M A := fun s => (s, Ok a).
Definition bind {A B} (m : M A) (f : A -> M B) : M B :=
  fun s => match m s with
           | (s', Ok a) => f a s'
           | (s', Panic p) => (s', Panic p)
           | (s', Fuel) => (s', Fuel)
           end.
Definition fail {A} (p : panic) : M A := fun s => (s, Panic p).
Definition nofuel {A} : M A := fun s => (s, Fuel).
Definition get : M db := fun s => (s, Ok s).
Definition modify (f : db -> db) : M unit := fun s => (f s, Ok tt).
Notation "x <- m ;; k" := (bind m (fun x => k)) (at level 61, m at next level, right associativity).
Notation "m ;;; k" := (bind m (fun _ => k)) (at level 61, right associativity).

Definition emit (e : event) : M unit := modify (fun s => set_log s (e :: d_log s)).

(* ---------------------------------------------------------------- active query frame *)
Record frame := {
  fr_dur : dur; fr_changed : rev; fr_edges : list edge; fr_untracked : bool;
  fr_acc : list val;        (* ActiveQuery.accumulated *)
  fr_accin : bool           (* ActiveQuery.accumulated_inputs *)
}.

Definition frame0 : frame :=
  {| fr_dur := D_NEVER; fr_changed := REV_START; fr_edges := []; fr_untracked := false;
     fr_acc := []; fr_accin := false |}.

(* FxIndexSet::insert: keep first occurrence *)
Definition add_edge (es : list edge) (e : edge) : list edge :=
  if existsb (edge_eqb e) es then es else es ++ [e].

(* ActiveQuery::add_read (tracked function dependency, no cycle heads).
   [ai] = `match has_accumulated { true => Any, false => accumulated_inputs.load() }` of the
   dependency's memo.  record_input = persistence || durability != NEVER_CHANGE || ai *)
Definition add_read (persist : bool) (fr : frame) (e : edge) (d : dur) (c : rev) (ai : bool) : frame :=
  {| fr_dur := dur_min (fr_dur fr) d;
     fr_changed := rev_max (fr_changed fr) c;
     fr_edges := if persist || negb (d =? D_NEVER) || ai then add_edge (fr_edges fr) e else fr_edges fr;
     fr_untracked := fr_untracked fr;
     fr_acc := fr_acc fr;
     fr_accin := fr_accin fr || ai |}.

(* ActiveQuery::add_read_simple (input field) *)
Definition add_read_simple (persist : bool) (fr : frame) (e : edge) (d : dur) (c : rev) : frame :=
  {| fr_dur := dur_min (fr_dur fr) d;
     fr_changed := rev_max (fr_changed fr) c;
     fr_edges := if persist || negb (d =? D_NEVER) then add_edge (fr_edges fr) e else fr_edges fr;
     fr_untracked := fr_untracked fr;
     fr_acc := fr_acc fr;
     fr_accin := fr_accin fr |}.

(* ActiveQuery::add_untracked_read *)
Definition add_untracked (fr : frame) (now : rev) : frame :=
  {| fr_dur := D_LOW; fr_changed := now; fr_edges := fr_edges fr; fr_untracked := true;
     fr_acc := fr_acc fr; fr_accin := fr_accin fr |}.

(* ActiveQuery::accumulate *)
Definition add_acc (fr : frame) (v : val) : frame :=
  {| fr_dur := fr_dur fr; fr_changed := fr_changed fr; fr_edges := fr_edges fr;
     fr_untracked := fr_untracked fr; fr_acc := fr_acc fr ++ [v]; fr_accin := fr_accin fr |}.

(* ---------------------------------------------------------------- lru *)
Definition remove_key (k : N) (l : list N) : list N := filter (fun x => negb (x =? k)) l.

Definition lru_record_use (l : lru_state) (k : N) : lru_state :=
  match lru_cap l with
  | None => l
  | Some _ => {| lru_cap := lru_cap l; lru_set := remove_key k (lru_set l) ++ [k] |}
  end.

Definition lru_set_capacity (l : lru_state) (n : N) : lru_state :=
  if n =? 0 then {| lru_cap := None; lru_set := [] |}
  else {| lru_cap := Some n; lru_set := lru_set l |}.

Fixpoint pop_excess (cap : N) (l : list N) (fuel : nat) {struct fuel} : list N * list N :=
  match fuel with
  | O => ([], l)
  | S fuel' =>
      if cap <? N.of_nat (length l) then
        match l with
        | [] => ([], [])
        | x :: l' => let '(ev, rest) := pop_excess cap l' fuel' in (x :: ev, rest)
        end
      else ([], l)
  end.

Definition lru_evict (l : lru_state) : list N * lru_state :=
  match lru_cap l with
  | None => ([], l)
  | Some cap =>
      let '(ev, rest) := pop_excess cap (lru_set l) (length (lru_set l)) in
      (ev, {| lru_cap := lru_cap l; lru_set := rest |})
  end.

(* evict_value_from_memo_for: only the value goes; accumulated values and the flag stay *)
Definition evict_memo (m : memo) : memo :=
  if m_untracked m then m
  else {| m_val := None; m_verified := m_verified m; m_changed := m_changed m;
          m_dur := m_dur m; m_untracked := false; m_edges := m_edges m;
          m_acc := m_acc m; m_accin := m_accin m |}.

Definition evict_keys (fam : N) (ks : list N) (mm : qkey -> option memo) : qkey -> option memo :=
  fold_left (fun mm k => match mm (fam, k) with
                         | Some m => upd mm (fam, k) (Some (evict_memo m))
                         | None => mm
                         end) ks mm.

(* QueryRevisions::accumulated().is_some() *)
Definition has_acc (m : memo) : bool := match m_acc m with [] => false | _ => true end.

(* VerifyResult::unchanged_for_memo, and the `accumulated_inputs` computed in add_read *)
Definition ufm (m : memo) : bool := if has_acc m then true else m_accin m.

(* ---------------------------------------------------------------- the algorithm *)
Section Algorithm.
Variable persist : bool.            (* feature "persistence" *)
Variable prog : qkey -> body.
Variable noeq : qkey -> bool.

(* result of reading a query: value, the stamp reported to the reader, and the
   accumulated-inputs flag reported to the reader *)
Definition qres := (val * dur * rev * bool)%type.

(* VerifyResult *)
Inductive vres := VChanged | VUnchanged (accumulated : bool).

Record lower := {
  l_fetch : qkey -> M qres;
  l_mca : qkey -> rev -> M vres
}.

Definition set_memo_at (q : qkey) (m : memo) : M unit :=
  modify (fun s => set_memo s (upd (d_memo s) q (Some m))).

Definition with_verified (m : memo) (r : rev) : memo :=
  {| m_val := m_val m; m_verified := r; m_changed := m_changed m; m_dur := m_dur m;
     m_untracked := m_untracked m; m_edges := m_edges m; m_acc := m_acc m; m_accin := m_accin m |}.

Definition with_accin (m : memo) (b : bool) : memo :=
  {| m_val := m_val m; m_verified := m_verified m; m_changed := m_changed m; m_dur := m_dur m;
     m_untracked := m_untracked m; m_edges := m_edges m; m_acc := m_acc m; m_accin := b |}.

(* MemoHeader::mark_as_verified *)
Definition mark_verified (q : qkey) (m : memo) : M memo :=
  s <- get ;;
  let m' := with_verified m (cur s) in
  emit (EvValidate q) ;;; set_memo_at q m' ;;; ret m'.

Inductive shallow := ShVerified | ShHigher | ShNo.

Definition shallow_verify (s : db) (m : memo) : shallow :=
  if m_verified m =? cur s then ShVerified
  else if shallow_ok (last_changed (d_revs s) (m_dur m)) (m_verified m) then ShHigher
  else ShNo.

Definition update_shallow (q : qkey) (m : memo) (u : shallow) : M memo :=
  match u with
  | ShHigher => mark_verified q m
  | _ => ret m
  end.

Definition claim (q : qkey) : M unit :=
  s <- get ;;
  if existsb (key_eqb q) (d_stack s) then fail PCycle
  else modify (fun s => set_stack s (q :: d_stack s)).

Definition release (q : qkey) : M unit :=
  modify (fun s => set_stack s (tl (d_stack s))).

Fixpoint run_body (L : lower) (b : body) (fr : frame) : M (val * frame) :=
  match b with
  | Ret v => ret (v, fr)
  | RdIn i k =>
      s <- get ;;
      let f := d_in s i in
      run_body L (k (f_val f)) (add_read_simple persist fr (EIn i) (f_dur f) (f_changed f))
  | CallQ q k =>
      r <- l_fetch L q ;;
      let '(v, d, c, ai) := r in
      run_body L (k v) (add_read persist fr (EQ q) d c ai)
  | RdCell c k =>
      s <- get ;;
      run_body L (k (d_cell s c)) (add_untracked fr (cur s))
  | Touch k =>
      s <- get ;;
      run_body L k (add_untracked fr (cur s))
  | PanicIf c k =>
      s <- get ;;
      if d_pcell s c =? 0 then run_body L k fr else fail PInjected
  | Accum v k => run_body L k (add_acc fr v)
  end.

(* deep_verify_edges: walk in execution order, stop at the first changed one, or-ing the
   `accumulated` of every unchanged edge.  None = Changed, Some inputs = Unchanged *)
Fixpoint walk_edges (L : lower) (es : list edge) (since : rev) (inputs : bool) : M (option bool) :=
  match es with
  | [] => ret (Some inputs)
  | EIn i :: es' =>
      s <- get ;;
      if changed_after (f_changed (d_in s i)) since then ret None
      else walk_edges L es' since inputs           (* input fields answer unchanged(): Empty *)
  | EQ q :: es' =>
      c <- l_mca L q since ;;
      match c with
      | VChanged => ret None
      | VUnchanged a => walk_edges L es' since (inputs || a)
      end
  end.

(* MemoHeader::deep_verify_memo: true = Unchanged; then `accumulated_inputs` has been
   overwritten by deep_verify_edges and the memo marked verified *)
Definition deep_verify (L : lower) (q : qkey) (m : memo) : M (bool * memo) :=
  if m_untracked m then ret (false, m)
  else
    c <- walk_edges L (m_edges m) (m_verified m) false ;;
    match c with
    | None => ret (false, m)
    | Some inputs => m' <- mark_verified q (with_accin m inputs) ;; ret (true, m')
    end.

Definition verify_memo (L : lower) (q : qkey) (m : memo) : M (bool * memo) :=
  s <- get ;;
  match shallow_verify s m with
  | ShNo => deep_verify L q m
  | u => m' <- update_shallow q m u ;; ret (true, m')
  end.

(* execute (Panic strategy) + backdate_if_appropriate + discard_edges_if_never_change + insert_memo.
   Accumulated values take no part in backdating. *)
Definition execute (L : lower) (q : qkey) (old : option memo) : M memo :=
  emit (EvExec q) ;;;
  r <- run_body L (prog q) frame0 ;;
  let '(v, fr) := r in
  s <- get ;;
  let backdated : res rev :=
    match old with
    | Some o =>
        match m_val o with
        | Some ov =>
            if can_backdate_dur (fr_dur fr) (m_dur o) && negb (noeq q) && (ov =? v) then
              if changed_after (m_changed o) (fr_changed fr) then Panic PBackdate
              else Ok (m_changed o)
            else Ok (fr_changed fr)
        | None => Ok (fr_changed fr)
        end
    | None => Ok (fr_changed fr)
    end in
  match backdated with
  | Ok ch =>
      let edges :=
        if negb persist && (fr_dur fr =? D_NEVER) && negb (fr_untracked fr) && negb (fr_accin fr)
        then [] else fr_edges fr in
      let m := {| m_val := Some v; m_verified := cur s; m_changed := ch; m_dur := fr_dur fr;
                  m_untracked := fr_untracked fr; m_edges := edges;
                  m_acc := fr_acc fr; m_accin := fr_accin fr |} in
      set_memo_at q m ;;; ret m
  | Panic p => fail p
  | Fuel => nofuel
  end.

(* IngredientImpl::fetch_hot *)
Definition fetch_hot (q : qkey) : M (option (memo * val)) :=
  s <- get ;;
  match d_memo s q with
  | Some m =>
      match m_val m with
      | Some v =>
          match shallow_verify s m with
          | ShNo => ret None
          | u => m' <- update_shallow q m u ;; ret (Some (m', v))
          end
      | None => ret None
      end
  | None => ret None
  end.

(* IngredientImpl::fetch_cold *)
Definition fetch_cold (L : lower) (q : qkey) : M (memo * val) :=
  claim q ;;;
  s1 <- get ;;
  let old := d_memo s1 q in
  ok <- match old with
        | Some m =>
            match m_val m with
            | Some v => r <- verify_memo L q m ;;
                        ret (if fst r then Some (snd r, v) else None)
            | None => ret None
            end
        | None => ret None
        end ;;
  match ok with
  | Some mv => release q ;;; ret mv
  | None =>
      m <- execute L q old ;;
      release q ;;;
      match m_val m with
      | Some v => ret (m, v)
      | None => nofuel (* unreachable: execute stores a value *)
      end
  end.

(* IngredientImpl::refresh_memo *)
Definition refresh (L : lower) (q : qkey) : M (memo * val) :=
  hot <- fetch_hot q ;;
  match hot with
  | Some mv => ret mv
  | None => fetch_cold L q
  end.

(* IngredientImpl::fetch: refresh_memo, record_use, report_tracked_read *)
Definition fetch (L : lower) (q : qkey) : M qres :=
  r <- refresh L q ;;
  modify (fun s => set_lru s (updN (d_lru s) (fst q) (lru_record_use (d_lru s (fst q)) (snd q)))) ;;;
  let m := fst r in
  ret (snd r, m_dur m, m_changed m, ufm m).

(* maybe_changed_after_cold *)
Definition mca_cold (L : lower) (q : qkey) (since : rev) : M vres :=
  claim q ;;;
  s1 <- get ;;
  match d_memo s1 q with
  | None => release q ;;; ret VChanged
  | Some old =>
      r <- verify_memo L q old ;;
      if fst r then
        release q ;;;
        ret (if changed_after (m_changed (snd r)) since then VChanged else VUnchanged (ufm (snd r)))
      else
        match m_val old with
        | None => release q ;;; ret VChanged
        | Some _ =>
            mnew <- execute L q (Some old) ;;
            release q ;;;
            ret (if changed_after (m_changed mnew) since then VChanged else VUnchanged (ufm mnew))
        end
  end.

(* IngredientImpl::maybe_changed_after (+ maybe_changed_after_hot) *)
Definition mca (L : lower) (q : qkey) (since : rev) : M vres :=
  s <- get ;;
  match d_memo s q with
  | None => ret VChanged
  | Some m =>
      match shallow_verify s m with
      | ShNo => mca_cold L q since
      | u =>
          m' <- update_shallow q m u ;;
          ret (if changed_after (m_changed m') since then VChanged else VUnchanged (ufm m'))
      end
  end.

Definition bottom : lower := {| l_fetch := fun _ => nofuel; l_mca := fun _ _ => nofuel |}.

Fixpoint level (n : nat) : lower :=
  match n with
  | O => bottom
  | S n' => let L := level n' in {| l_fetch := fetch L; l_mca := mca L |}
  end.

(* ---------------------------------------------------------------- accumulated_by *)
(* The `while let Some(k) = stack.pop()` loop.  The Rust `Vec` stack is a list whose head is
   the top; `stack.extend(origin.inputs().rev())` therefore prepends the inputs in execution
   order.  [visited] is the FxHashSet.  Input-field ingredients answer (None, Empty) through
   the default `Ingredient::accumulated`.  [n] bounds the number of loop iterations. *)
Fixpoint acc_loop (L : lower) (n : nat) (stack : list edge) (visited : list edge) (out : list val)
  : M (list val) :=
  match n with
  | O => nofuel
  | S n' =>
      match stack with
      | [] => ret out
      | k :: stack' =>
          if existsb (edge_eqb k) visited then acc_loop L n' stack' visited out
          else
            let visited' := k :: visited in
            match k with
            | EIn _ => acc_loop L n' stack' visited' out
            | EQ q =>
                r <- refresh L q ;;                       (* ingredient.accumulated -> accumulated_map *)
                let m := fst r in
                let out' := out ++ m_acc m in             (* extend_with_accumulated *)
                if negb (m_accin m) then acc_loop L n' stack' visited' out'
                else
                  s <- get ;;
                  match d_memo s q with                   (* function.memo(zalsa, k) *)
                  | None => acc_loop L n' stack' visited' out'
                  | Some m2 => acc_loop L n' (m_edges m2 ++ stack') visited' out'
                  end
            end
      end
  end.

(* IngredientImpl::accumulated_by called outside any query: report_untracked_read is a no-op
   (no active query), then fetch, then the loop *)
Definition accumulated_by (L : lower) (n : nat) (q : qkey) : M (list val) :=
  fetch L q ;;;
  acc_loop L n [EQ q] [] [].

(* ---------------------------------------------------------------- operations (the API) *)
Inductive op :=
| OSet (i : ikey) (v : val) (d : option dur)
| OSynth (d : dur)
| OSetCell (c : cell) (v : val)
| OSetPanic (c : cell) (v : val)
| OGet (q : qkey)
| OAccumulated (q : qkey)                       (* fam::accumulated::<Log>(db, key) *)
| OSetLru (fam : N) (n : N)
| OEvict.

Definition evict_all (fams : list N) (s : db) : db :=
  fold_left (fun s fam =>
               let '(ev, l') := lru_evict (d_lru s fam) in
               set_memo (set_lru s (updN (d_lru s) fam l')) (evict_keys fam ev (d_memo s)))
            fams s.

Definition new_revision (fams : list N) (s : db) : db :=
  let r := d_revs s in
  let s1 := set_ccount (set_revs s {| r_cur := r_cur r + 1; r_med := r_med r; r_high := r_high r |}) 0 in
  evict_all fams s1.

Definition zalsa_mut (fams : list N) (s : db) : db :=
  if d_ccount s =? 255 then new_revision fams s else set_ccount s (d_ccount s + 1).

Variable fams : list N.

Inductive outv := OV (v : val) | OL (l : list val).
Definition out := res outv.

(* [fuel] = recursion depth of fetch/mca; [afuel] = iteration bound of the accumulated_by loop *)
Definition step (fuel afuel : nat) (s : db) (o : op) : db * out :=
  match o with
  | OSet i v d =>
      let s1 := new_revision fams (zalsa_mut fams s) in
      let f := d_in s1 i in
      if f_dur f =? D_NEVER then (s1, Panic PNeverChange)
      else
        let r1 := if f_dur f =? D_LOW then d_revs s1 else report_write (d_revs s1) (f_dur f) in
        let f' := {| f_val := v; f_changed := cur s1;
                     f_dur := match d with Some d' => d' | None => f_dur f end |} in
        (set_in (set_revs s1 r1) (upd (d_in s1) i f'), Ok (OV 0))
  | OSynth d =>
      let s1 := new_revision fams (zalsa_mut fams s) in
      if d =? D_NEVER then (s1, Panic PNeverChange)
      else (set_revs s1 (report_write (d_revs s1) d), Ok (OV 0))
  | OSetCell c v => (set_cell s (updN (d_cell s) c v), Ok (OV 0))
  | OSetPanic c v => (set_pcell s (updN (d_pcell s) c v), Ok (OV 0))
  | OGet q =>
      match fetch (level fuel) q s with
      | (s', Ok (v, _, _, _)) => (s', Ok (OV v))
      | (s', Panic p) => (set_stack s' [], Panic p)
      | (s', Fuel) => (s', Fuel)
      end
  | OAccumulated q =>
      match accumulated_by (level fuel) afuel q s with
      | (s', Ok l) => (s', Ok (OL l))
      | (s', Panic p) => (set_stack s' [], Panic p)
      | (s', Fuel) => (s', Fuel)
      end
  | OSetLru fam n =>
      let s1 := zalsa_mut fams s in
      (set_lru s1 (updN (d_lru s1) fam (lru_set_capacity (d_lru s1 fam) n)), Ok (OV 0))
  | OEvict => (evict_all fams (zalsa_mut fams s), Ok (OV 0))
  end.

Fixpoint run_ops (fuel afuel : nat) (s : db) (os : list op) : db * list out :=
  match os with
  | [] => (s, [])
  | o :: os' =>
      let '(s1, r) := step fuel afuel s o in
      let '(s2, rs) := run_ops fuel afuel s1 os' in
      (s2, r :: rs)
  end.

End Algorithm.

Definition init (iv : ikey -> val) (idur : ikey -> dur) (lru0 : N -> lru_state) : db :=
  {| d_revs := {| r_cur := REV_START; r_med := REV_START; r_high := REV_START |};
     d_ccount := 0;
     d_in := fun i => {| f_val := iv i; f_changed := REV_START; f_dur := idur i |};
     d_cell := fun _ => 0;
     d_pcell := fun _ => 0;
     d_memo := fun _ => None;
     d_stack := [];
     d_lru := lru0;
     d_log := [] |}.

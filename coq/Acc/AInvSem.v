(* Acc/AInvSem.v — the semantic heart of the Acc invariant: when may a memo be marked verified
   now (edge walk, with the recomputed accumulated_inputs flag, or durability short-cut), and
   when is a freshly computed memo ok.  Port of Core/AInvSem.v plus the accumulator clauses. *)
From Salsa Require Import Base.
From Salsa.Kern Require Import CoreK CoreKFacts.
From Salsa.Core Require DurSem.
From Salsa.Acc Require Import Model Spec ProofsDfs ProofsSpec AInvBase ADurSem AInv.

Section Sem.
Variable persist : bool.
Variable prog : qkey -> body.
Variable rank : qkey -> nat.
Hypothesis Hrank : calls_below prog rank.
Variable NF : nat.
Hypothesis Hbound : forall q, (rank q < NF)%nat.
Notation E := (E prog NF).
Notation tr := (tr prog NF).
Notation psh := (psh prog NF).
Notation envat := (envat prog NF).
Notation durge := (ADurSem.durge prog NF).
Notation clos := (clos prog NF).
Notation deadq := (deadq prog NF).
Notation amemo_ok := (amemo_ok prog NF).
Notation AInv := (AInv prog NF).
Notation obs_pre := (obs_pre prog NF).
Notation rmok := (rmok prog NF).

Ltac conj := repeat match goal with |- _ /\ _ => split end.

(* a memo verified now serves the whole closure of its query *)
Lemma obs_of_callee H D s d1 md1 d :
  AInv H D s -> d_memo s d1 = Some md1 -> m_verified md1 = cur s -> clos H (cur s) d1 d ->
  exists md, d_memo s d = Some md /\ E H (cur s) d = E H (m_verified md) d /\ m_dur md1 <= m_dur md.
Proof.
  intros HI Hm1 Hv1 Hc.
  pose proof (inv_memo _ _ _ _ _ HI d1 md1 Hm1) as Hok1.
  rewrite <- Hv1 in Hc. destruct (mo_obs _ _ _ _ _ _ _ Hok1 d Hc) as (md & Hmd & Hobs).
  exists md. split; [exact Hmd|]. rewrite <- Hv1. apply Hobs.
  left. pose proof (mo_order _ _ _ _ _ _ _ (inv_memo _ _ _ _ _ HI d md Hmd)) as (_ & A & B).
  rewrite Hv1. lia.
Qed.

(* never-change callees stay what they are *)
Lemma never_now H D s a d :
  AInv H D s -> 1 <= a -> a <= cur s -> durge H D a 3 d ->
  tr H (cur s) d = tr H a d /\ E H (cur s) d = E H a d /\ psh H (cur s) d = psh H a d /\
  durge H D (cur s) 3 d.
Proof.
  intros HI Ha Hle Hd.
  apply (durge_stable prog rank Hrank NF Hbound H D 3 a (cur s) d (cur s));
    [lia | apply (stable_never prog NF H D s a HI Ha) | exact Hd | exact Hle | lia].
Qed.

Lemma never_dead H D s a d :
  AInv H D s -> 1 <= a -> a <= cur s -> durge H D a 3 d -> deadq H a d -> deadq H (cur s) d.
Proof.
  intros HI Ha Hle Hd Hdq.
  apply (deadq_stable prog rank Hrank NF Hbound H D 3 a (cur s) (cur s));
    [lia | apply (stable_never prog NF H D s a HI Ha) | exact Hle | lia | exact Hdq | exact Hd].
Qed.

Lemma rmok_now H D s a e :
  AInv H D s -> 1 <= a -> a <= cur s -> rmok H D a e -> rmok H D (cur s) e.
Proof.
  intros HI Ha Hle. destruct e as [i | d]; cbn.
  - intros H3. destruct (stable_never prog NF H D s a HI Ha i) with (r := cur s) as [_ B]; [lia | exact Hle | lia|].
    rewrite B. exact H3.
  - intros [Hd Hdq]. split.
    + apply (never_now H D s a d HI Ha Hle Hd).
    + apply (never_dead H D s a d HI Ha Hle Hd Hdq).
Qed.

(* a memo whose flags say "nothing accumulated here or below" *)
Lemma ufm_dead H D s d md :
  AInv H D s -> d_memo s d = Some md -> ufm md = false -> deadq H (m_verified md) d.
Proof.
  intros HI Hmd Hu. pose proof (inv_memo _ _ _ _ _ HI d md Hmd) as Hok.
  unfold ufm, has_acc in Hu. destruct (m_acc md) eqn:Ha; [|discriminate].
  constructor.
  - rewrite <- (mo_acc _ _ _ _ _ _ _ Hok). exact Ha.
  - apply (mo_flag _ _ _ _ _ _ _ Hok). exact Hu.
Qed.

(* ---------------------------------------------------------------- marking a memo verified now *)
Lemma with_accin_same m : with_accin m (m_accin m) = m.
Proof. destruct m; reflexivity. Qed.

(* [fl] is the accumulated_inputs flag stored with the verification: recomputed by an edge walk,
   or left as it is by the short-cut *)
Lemma revalidate_ok H D s q m fl :
  AInv H D s -> d_memo s q = Some m ->
  agree_on (envat H (m_verified m)) (envat H (cur s)) (tr H (m_verified m) q) ->
  (forall i, In (RIn i) (tr H (m_verified m) q) -> D (cur s) i = D (m_verified m) i) ->
  durge H D (cur s) (m_dur m) q ->
  (forall d, clos H (cur s) q d -> d <> q ->
     exists md, d_memo s d = Some md /\ E H (cur s) d = E H (m_verified md) d /\ m_dur m <= m_dur md) ->
  (fl = false -> forall d, In (RQ d) (tr H (m_verified m) q) -> deadq H (cur s) d) ->
  (m_verified m = cur s -> fl = m_accin m) ->
  let m' := with_verified (with_accin m fl) (cur s) in
  AInv H D (store s q m') /\ dext s (store s q m') /\ E H (cur s) q = E H (m_verified m) q.
Proof.
  intros HI Hm Hag HDin Hdg Hclos Hfl Hflsame m'.
  pose proof (inv_memo _ _ _ _ _ HI q m Hm) as Hok.
  destruct (trace_determined (prog q) _ _ Hag) as (Htr & Hrun & Hpsh & _).
  assert (HE : E H (cur s) q = E H (m_verified m) q).
  { rewrite !(E_unfold prog rank Hrank NF Hbound). exact Hrun. }
  assert (Htr' : tr H (cur s) q = tr H (m_verified m) q) by exact Htr.
  assert (Hpsh' : psh H (cur s) q = psh H (m_verified m) q) by exact Hpsh.
  pose proof (mo_order _ _ _ _ _ _ _ Hok) as (Ho1 & Ho2 & Ho3).
  assert (Hfin : AInv H D (store s q m') /\ dext s (store s q m')).
  { apply (AInv_store prog NF H D s q m' HI); [reflexivity | | | |].
    - destruct Hok as [a b c d e f g h i k k1 k2 k3 j].
      constructor; cbn [m' with_verified with_accin m_val m_verified m_changed m_dur m_untracked m_edges m_acc m_accin];
        rewrite ?cur_store, ?Htr', ?Hpsh'; auto.
      + pose proof (inv_cur _ _ _ _ _ HI). lia.
      + intros x Hx. rewrite HE. apply b; exact Hx.
      + intros i0 Hi0. destruct (c i0 Hi0) as [A | A]; [left; exact A | right].
        rewrite (HDin i0 Hi0). exact A.
      + intros d0 Hd0. destruct (d d0 Hd0) as [A | A]; [left; exact A | right].
        apply (never_now H D s (m_verified m) d0 HI Ho1 Ho3 A).
      + destruct k as [A | (x & Hx & Hs)]; [left; exact A | right].
        exists x. split; [exact Hx|]. destruct x as [i0 | d0 | c0 |]; cbn in *; try exact Hs.
        destruct Hs as (md & Hmd & Hle).
        assert (Hne : q <> d0).
        { intros <-. pose proof (tr_calls prog rank Hrank NF H _ _ _ Hx). lia. }
        exists md. split; [rewrite upd_other by exact Hne; exact Hmd | exact Hle].
      + apply (sub_rm_mono_in (rmok H D (m_verified m))); [|exact k3].
        intros x _ Hx. apply (rmok_now H D s (m_verified m) x HI Ho1 Ho3 Hx).
      + intros d0 Hd0. destruct (key_eqb_spec q d0) as [<- | Hne].
        * exists m'. split; [unfold store; cbn; apply upd_same|].
          intros _. split; [reflexivity | cbn; lia].
        * destruct (Hclos d0 Hd0) as (md & Hmd & HEd & Hdd); [congruence|].
          exists md. split; [unfold store; cbn; rewrite upd_other by exact Hne; exact Hmd|].
          intros _. split; assumption.
    - intros g mg Hg Hne Hcl Hpre.
      pose proof (inv_memo _ _ _ _ _ HI g mg Hg) as Hokg.
      destruct (mo_obs _ _ _ _ _ _ _ Hokg q Hcl) as (md & Hmd & Hobs).
      rewrite Hm in Hmd. injection Hmd as <-.
      destruct Hobs as [A B]; [exact Hpre|].
      split; [rewrite A; symmetry; exact HE | exact B].
    - intros m0 Hm0 Hv0. rewrite Hm in Hm0. injection Hm0 as <-.
      split; [|cbn; lia]. intros _. unfold m'. rewrite (Hflsame Hv0), with_accin_same, <- Hv0.
      symmetry. apply with_verified_same.
    - intros m0 Hm0. rewrite Hm in Hm0. injection Hm0 as <-. cbn. lia. }
  destruct Hfin as [A B]. split; [exact A|]. split; [exact B | exact HE].
Qed.

(* The durability short-cut: nothing at the memo's level was written since it was verified. *)
Lemma shortcut_ok H D s q m :
  AInv H D s -> d_memo s q = Some m ->
  lcs s (m_dur m) <= m_verified m ->
  let m' := with_verified m (cur s) in
  AInv H D (store s q m') /\ dext s (store s q m') /\ E H (cur s) q = E H (m_verified m) q.
Proof.
  intros HI Hm Hlc. cbv zeta. rewrite <- (with_accin_same m) at 1 2.
  pose proof (inv_memo _ _ _ _ _ HI q m Hm) as Hok.
  pose proof (mo_order _ _ _ _ _ _ _ Hok) as (Ho1 & Ho2 & Ho3).
  destruct (N.eq_dec (m_verified m) (cur s)) as [Heq | Hne].
  - (* already verified now: nothing moves *)
    apply (revalidate_ok H D s q m (m_accin m) HI Hm); rewrite <- ?Heq.
    + intros x _. reflexivity.
    + intros i _. reflexivity.
    + apply (mo_durge _ _ _ _ _ _ _ Hok).
    + intros d Hd Hdq.
      destruct (mo_obs _ _ _ _ _ _ _ Hok d Hd) as (md & Hmd & Hobs).
      exists md. split; [exact Hmd|]. apply Hobs. left.
      pose proof (mo_order _ _ _ _ _ _ _ (inv_memo _ _ _ _ _ HI d md Hmd)) as (_ & A & B). lia.
    + apply (mo_flag _ _ _ _ _ _ _ Hok).
    + reflexivity.
  - assert (Hk : 1 <= m_dur m).
    { destruct (N.eq_dec (m_dur m) 0) as [H0 | H0]; [|lia].
      rewrite H0 in Hlc. unfold lcs in Hlc. rewrite DurSem.lc_zero in Hlc. unfold cur in *. lia. }
    pose proof (stable_now prog NF H D s (m_dur m) (m_verified m) HI Hlc) as Hw.
    pose proof (mo_durge _ _ _ _ _ _ _ Hok) as Hdg.
    assert (Hst : forall d, durge H D (m_verified m) (m_dur m) d ->
              tr H (cur s) d = tr H (m_verified m) d /\ E H (cur s) d = E H (m_verified m) d /\
              psh H (cur s) d = psh H (m_verified m) d /\ durge H D (cur s) (m_dur m) d).
    { intros d Hd.
      apply (durge_stable prog rank Hrank NF Hbound H D (m_dur m) (m_verified m) (cur s) d (cur s));
        [exact Hk | exact Hw | exact Hd | exact Ho3 | lia]. }
    apply (revalidate_ok H D s q m (m_accin m) HI Hm).
    + intros x Hx. destruct x as [i | d | c |]; cbn.
      * symmetry. apply (Hw i); [apply (durge_in _ _ _ _ _ _ _ _ Hdg Hx) | lia | lia].
      * symmetry. apply (Hst d). apply (durge_q _ _ _ _ _ _ _ _ Hdg Hx).
      * exfalso. assert (m_dur m = 0); [|lia].
        apply (durge_untr _ _ _ _ _ _ _ _ Hdg Hx). right; eauto.
      * reflexivity.
    + intros i Hi. apply (Hw i); [apply (durge_in _ _ _ _ _ _ _ _ Hdg Hi) | lia | lia].
    + apply (Hst q Hdg).
    + intros d Hd Hdq.
      apply (clos_stable prog rank Hrank NF Hbound H D (m_dur m) (m_verified m) (cur s) q (cur s) Hk Hw Hdg Ho3 (N.le_refl _)) in Hd.
      destruct (mo_obs _ _ _ _ _ _ _ Hok d Hd) as (md & Hmd & Hobs).
      pose proof (durge_clos _ _ _ _ _ _ _ _ Hdg Hd) as Hdd.
      exists md. split; [exact Hmd|].
      destruct Hobs as [A B]; [right; exists (m_dur m); split; assumption|].
      split; [|exact B]. rewrite <- A. apply (Hst d Hdd).
    + intros Hfl d Hd.
      apply (deadq_stable prog rank Hrank NF Hbound H D (m_dur m) (m_verified m) (cur s) (cur s) Hk Hw Ho3 (N.le_refl _)).
      * apply (mo_flag _ _ _ _ _ _ _ Hok Hfl d Hd).
      * apply (durge_q _ _ _ _ _ _ _ _ Hdg Hd).
    + intros _. reflexivity.
Qed.

(* ---------------------------------------------------------------- frames *)
(* why an entry of the reads so far has no edge in the frame: it was not recorded, and would not
   be recorded if it were read again *)
Definition omit_ok (s : db) (e : edge) : Prop :=
  persist = false /\
  match e with
  | EIn i => f_dur (d_in s i) = 3
  | EQ d => exists md, d_memo s d = Some md /\ m_verified md = cur s /\ m_val md <> None /\
                       m_dur md = 3 /\ ufm md = false
  end.

Record covers (H : hist) (D : dhist) (s : db) (pre : list rd) (fr : frame) : Prop := {
  cv_in : forall i, In (RIn i) pre ->
          (In (EIn i) (fr_edges fr) \/ f_dur (d_in s i) = 3) /\
          f_changed (d_in s i) <= fr_changed fr /\ fr_dur fr <= f_dur (d_in s i);
  cv_q : forall d, In (RQ d) pre ->
         exists md, d_memo s d = Some md /\ m_verified md = cur s /\ m_val md <> None /\
                    m_changed md <= fr_changed fr /\ fr_dur fr <= m_dur md /\
                    (In (EQ d) (fr_edges fr) \/ m_dur md = 3);
  cv_cell : forall x, In x pre -> untr x ->
            fr_untracked fr = true /\ fr_changed fr = cur s /\ fr_dur fr = 0;
  cv_edges_q : forall d, In (EQ d) (fr_edges fr) -> In (RQ d) pre;
  cv_le : fr_changed fr <= cur s;
  cv_ge1 : 1 <= fr_changed fr;
  cv_stamp : fr_changed fr <= 1 \/ exists x, In x pre /\ sle s (fr_changed fr) x;
  cv_dur3 : fr_dur fr <= 3;
  cv_untr : fr_untracked fr = true -> fr_dur fr = 0;
  cv_lb : forall k, k <= 3 ->
          (forall i, In (RIn i) pre -> k <= f_dur (d_in s i)) ->
          (forall d, In (RQ d) pre -> forall md, d_memo s d = Some md -> k <= m_dur md) ->
          (forall x, In x pre -> untr x -> k = 0) ->
          k <= fr_dur fr;
  (* the accumulator clauses *)
  cv_flag : fr_accin fr = false -> forall d, In (RQ d) pre -> deadq H (cur s) d;
  cv_esub : sub_rm (rmok H D (cur s)) (fr_edges fr) (dd [] (redges pre));
  cv_omit : forall e, In e (redges pre) -> ~ In e (fr_edges fr) -> omit_ok s e
}.

Lemma covers_frame0 H D s : 1 <= cur s -> covers H D s [] frame0.
Proof.
  intros Hc. constructor.
  - intros i [].
  - intros d [].
  - intros x [].
  - intros d [].
  - exact Hc.
  - cbn. unfold REV_START. lia.
  - left. cbn. unfold REV_START. lia.
  - cbn. unfold D_NEVER. lia.
  - discriminate.
  - intros k Hk _ _ _. exact Hk.
  - intros _ d [].
  - constructor.
  - intros e [].
Qed.

(* the memo built by execute from a completed frame *)
Definition fresh_memo (v : val) (now : rev) (ch : rev) (fr : frame) : memo :=
  {| m_val := Some v; m_verified := now; m_changed := ch; m_dur := fr_dur fr;
     m_untracked := fr_untracked fr;
     m_edges := if negb persist && (fr_dur fr =? D_NEVER) && negb (fr_untracked fr) && negb (fr_accin fr)
                then [] else fr_edges fr;
     m_acc := fr_acc fr; m_accin := fr_accin fr |}.

Lemma frame_dur_lb H D s q fr g mg :
  AInv H D s -> covers H D s (tr H (cur s) q) fr ->
  d_memo s g = Some mg -> clos H (m_verified mg) g q ->
  tr H (cur s) q = tr H (m_verified mg) q ->
  (forall i, In (RIn i) (tr H (cur s) q) -> D (cur s) i = D (m_verified mg) i) ->
  (forall d md, In (RQ d) (tr H (cur s) q) -> d_memo s d = Some md ->
                obs_pre H D s (m_verified mg) d md) ->
  m_dur mg <= fr_dur fr.
Proof.
  intros HI Hcv Hg Hcl Htr HDi Hpre.
  pose proof (inv_memo _ _ _ _ _ HI g mg Hg) as Hokg.
  pose proof (durge_clos _ _ _ _ _ _ _ _ (mo_durge _ _ _ _ _ _ _ Hokg) Hcl) as Hdq.
  apply (cv_lb _ _ _ _ _ Hcv).
  - apply (mo_dur3 _ _ _ _ _ _ _ Hokg).
  - intros i Hi.
    rewrite <- (inv_dur _ _ _ _ _ HI i (cur s)); [|apply (inv_in_le _ _ _ _ _ HI) | lia].
    rewrite (HDi i Hi). rewrite Htr in Hi. apply (durge_in _ _ _ _ _ _ _ _ Hdq Hi).
  - intros d Hd md Hmd. pose proof Hd as Hd'. rewrite Htr in Hd'.
    pose proof (clos_right _ _ _ _ _ _ _ Hcl Hd') as Hcd.
    destruct (mo_obs _ _ _ _ _ _ _ Hokg d Hcd) as (md0 & Hmd0 & Hobs).
    rewrite Hmd in Hmd0. injection Hmd0 as <-.
    apply Hobs. apply Hpre; assumption.
  - intros x Hx Hu. rewrite Htr in Hx. apply (durge_untr _ _ _ _ _ _ _ _ Hdq Hx Hu).
Qed.

Lemma frame_changed_lb H D s q fr o :
  AInv H D s -> covers H D s (tr H (cur s) q) fr -> d_memo s q = Some o ->
  m_changed o <= fr_changed fr.
Proof.
  intros HI Hcv Ho.
  pose proof (inv_memo _ _ _ _ _ HI q o Ho) as Hok.
  pose proof (mo_order _ _ _ _ _ _ _ Hok) as (Ho1 & Ho2 & Ho3).
  assert (Hsle : forall x, In x (tr H (cur s) q) -> sle s (m_changed o) x ->
            m_changed o <= fr_changed fr).
  { intros x Hx Hs. destruct x as [i | d | c |]; cbn in Hs.
    - destruct (cv_in _ _ _ _ _ Hcv i Hx) as (_ & A & _). lia.
    - destruct Hs as (md & Hmd & Hle).
      destruct (cv_q _ _ _ _ _ Hcv d Hx) as (md0 & Hmd0 & _ & _ & A & _).
      rewrite Hmd in Hmd0. injection Hmd0 as <-. lia.
    - destruct (cv_cell _ _ _ _ _ Hcv (RCell c) Hx) as (_ & A & _); [right; eauto | lia].
    - destruct (cv_cell _ _ _ _ _ Hcv RTouch Hx) as (_ & A & _); [left; reflexivity | lia]. }
  destruct (first_changed_is_read_again (prog q) (envat H (m_verified o)) (envat H (cur s)))
    as [Hag | (pre & x & post & Ht & _ & Hnea & post' & Ht')].
  - destruct (trace_determined _ _ _ Hag) as (Htr & _).
    assert (Htr' : tr H (cur s) q = tr H (m_verified o) q) by exact Htr.
    destruct (mo_stamp _ _ _ _ _ _ _ Hok) as [A | (x & Hx & Hs)].
    + pose proof (cv_ge1 _ _ _ _ _ Hcv). lia.
    + apply (Hsle x); [rewrite Htr'; exact Hx | exact Hs].
  - assert (Hx : In x (tr H (m_verified o) q)).
    { unfold tr, AInvBase.tr. rewrite Ht. apply in_or_app; right; left; reflexivity. }
    assert (Hx' : In x (tr H (cur s) q)).
    { unfold tr, AInvBase.tr. rewrite Ht'. apply in_or_app; right; left; reflexivity. }
    destruct x as [i | d | c |]; cbn in Hnea.
    + destruct (cv_in _ _ _ _ _ Hcv i Hx') as (_ & A & _).
      destruct (N.le_gt_cases (f_changed (d_in s i)) (m_verified o)) as [Hle | Hgt]; [|lia].
      exfalso. apply Hnea.
      rewrite (inv_in _ _ _ _ _ HI i (m_verified o) Hle Ho3).
      symmetry. apply (inv_in _ _ _ _ _ HI i (cur s)); [apply (inv_in_le _ _ _ _ _ HI) | lia].
    + destruct (cv_q _ _ _ _ _ Hcv d Hx') as (md & Hmd & Hvd & _ & A & _).
      destruct (N.le_gt_cases (m_changed md) (m_verified o)) as [Hle | Hgt]; [|lia].
      exfalso. apply Hnea.
      destruct (mo_obs _ _ _ _ _ _ _ Hok d (clos_one _ _ _ _ _ _ Hx)) as (md0 & Hmd0 & Hobs).
      rewrite Hmd in Hmd0. injection Hmd0 as <-.
      destruct Hobs as [B _]; [left; exact Hle|]. unfold AInvBase.E in B. rewrite B, Hvd. reflexivity.
    + destruct (cv_cell _ _ _ _ _ Hcv (RCell c) Hx') as (_ & A & _); [right; eauto | lia].
    + exfalso. apply Hnea. reflexivity.
Qed.

(* A freshly computed memo may be stored: it is ok, and every observer is served. *)
Lemma fresh_store_ok H D s q fr v ch (old : option memo) :
  AInv H D s ->
  covers H D s (tr H (cur s) q) fr ->
  v = E H (cur s) q ->
  fr_acc fr = psh H (cur s) q ->
  d_memo s q = old ->
  (forall m0, old = Some m0 -> m_verified m0 = cur s -> m_val m0 = None) ->
  (ch = fr_changed fr \/
   exists o ov, old = Some o /\ m_val o = Some ov /\ ov = v /\ ch = m_changed o /\
                m_dur o <= fr_dur fr /\ m_changed o <= fr_changed fr) ->
  let m' := fresh_memo v (cur s) ch fr in
  AInv H D (store s q m') /\ dext s (store s q m').
Proof.
  intros HI Hcv Hv Hacc Hold Hnv Hch m'.
  assert (Hch_le : ch <= cur s).
  { destruct Hch as [-> | (o & ov & Ho & _ & _ & -> & _ & _)].
    - apply (cv_le _ _ _ _ _ Hcv).
    - subst old. pose proof (mo_order _ _ _ _ _ _ _ (inv_memo _ _ _ _ _ HI q o Ho)). lia. }
  assert (Hedges_sub : forall e, In e (m_edges m') -> In e (fr_edges fr)).
  { intros e. cbn. destruct (negb persist && (fr_dur fr =? D_NEVER) && negb (fr_untracked fr) && negb (fr_accin fr)); [intros [] | auto]. }
  assert (Hcur1 : 1 <= cur s) by apply (inv_cur _ _ _ _ _ HI).
  assert (HDcur : forall i, D (cur s) i = f_dur (d_in s i)).
  { intros i. apply (inv_dur _ _ _ _ _ HI); [apply (inv_in_le _ _ _ _ _ HI) | lia]. }
  assert (Hcallee : forall d, In (RQ d) (tr H (cur s) q) ->
            exists md, d_memo s d = Some md /\ m_verified md = cur s /\
                       m_changed md <= fr_changed fr /\ fr_dur fr <= m_dur md /\
                       durge H D (cur s) (m_dur md) d).
  { intros d Hd. destruct (cv_q _ _ _ _ _ Hcv d Hd) as (md & Hmd & Hvd & _ & Hcd & Hdd & _).
    exists md. conj; auto. rewrite <- Hvd.
    apply (mo_durge _ _ _ _ _ _ _ (inv_memo _ _ _ _ _ HI d md Hmd)). }
  assert (Hdg : durge H D (cur s) (fr_dur fr) q).
  { constructor.
    - intros i Hi. rewrite HDcur. apply (cv_in _ _ _ _ _ Hcv i Hi).
    - intros d Hd. destruct (Hcallee d Hd) as (md & _ & _ & _ & Hle & Hdd).
      eapply durge_mono; [exact Hle | exact Hdd].
    - intros x Hx Hu. apply (cv_cell _ _ _ _ _ Hcv x Hx Hu). }
  (* the discard_edges_if_never_change branch: everything read is never-changing and dead *)
  assert (Hdisc : negb persist && (fr_dur fr =? D_NEVER) && negb (fr_untracked fr) && negb (fr_accin fr) = true ->
            fr_dur fr = 3 /\ fr_accin fr = false).
  { intros Hb. apply andb_true_iff in Hb. destruct Hb as [Hb Hai].
    apply andb_true_iff in Hb. destruct Hb as [Hb _].
    apply andb_true_iff in Hb. destruct Hb as [_ Hb].
    apply N.eqb_eq in Hb. unfold D_NEVER in Hb. split; [exact Hb|].
    apply negb_true_iff. exact Hai. }
  apply (AInv_store prog NF H D s q m' HI); [reflexivity | | | |].
  - (* the new memo is ok *)
    constructor; cbn [m' fresh_memo m_val m_verified m_changed m_dur m_untracked m_acc m_accin]; rewrite ?cur_store.
    + lia.
    + intros x Hx. injection Hx as <-. exact Hv.
    + intros i Hi. destruct (cv_in _ _ _ _ _ Hcv i Hi) as (Hin & _ & Hle).
      rewrite HDcur. cbn.
      destruct (negb persist && (fr_dur fr =? D_NEVER) && negb (fr_untracked fr) && negb (fr_accin fr)) eqn:Hb.
      * right. destruct (Hdisc eq_refl) as [H3 _].
        pose proof (inv_dur3 _ _ _ _ _ HI (cur s) i) as H3'. rewrite HDcur in H3'. lia.
      * exact Hin.
    + intros d Hd. destruct (cv_q _ _ _ _ _ Hcv d Hd) as (md & Hmd & Hvd & _ & _ & Hle & Hor).
      pose proof (inv_memo _ _ _ _ _ HI d md Hmd) as Hokd.
      assert (H3d : m_dur md = 3 -> durge H D (cur s) 3 d).
      { intros H3. rewrite <- H3, <- Hvd. apply (mo_durge _ _ _ _ _ _ _ Hokd). }
      cbn. destruct (negb persist && (fr_dur fr =? D_NEVER) && negb (fr_untracked fr) && negb (fr_accin fr)) eqn:Hb.
      * right. apply H3d. destruct (Hdisc eq_refl) as [H3 _].
        pose proof (mo_dur3 _ _ _ _ _ _ _ Hokd). lia.
      * destruct Hor as [Hin | H3]; [left; exact Hin | right; apply H3d; exact H3].
    + intros x Hx Hu. apply (cv_cell _ _ _ _ _ Hcv x Hx Hu).
    + intros d Hd. apply Hedges_sub in Hd. apply (cv_edges_q _ _ _ _ _ Hcv d Hd).
    + apply (cv_untr _ _ _ _ _ Hcv).
    + exact Hdg.
    + apply (cv_dur3 _ _ _ _ _ Hcv).
    + assert (Hle : ch <= fr_changed fr).
      { destruct Hch as [-> | (o & ov & _ & _ & _ & -> & _ & A)]; [lia | exact A]. }
      destruct (cv_stamp _ _ _ _ _ Hcv) as [A | (x & Hx & Hs)]; [left; lia | right].
      exists x. split; [exact Hx|]. destruct x as [i0 | d0 | c0 |]; cbn in *; try exact Hs; [lia|].
      destruct Hs as (md & Hmd & Hle').
      assert (Hne : q <> d0).
      { intros <-. pose proof (tr_calls prog rank Hrank NF H _ _ _ Hx). lia. }
      exists md. split; [rewrite upd_other by exact Hne; exact Hmd | lia].
    + exact Hacc.
    + apply (cv_flag _ _ _ _ _ Hcv).
    + cbn. destruct (negb persist && (fr_dur fr =? D_NEVER) && negb (fr_untracked fr) && negb (fr_accin fr)) eqn:Hb.
      * destruct (Hdisc eq_refl) as [H3 Hai]. apply sub_rm_all.
        intros e He. apply dd_In in He. destruct He as [He _].
        destruct e as [i | d]; cbn.
        -- apply redges_In_in in He. destruct (cv_in _ _ _ _ _ Hcv i He) as (_ & _ & Hle).
           rewrite HDcur. pose proof (inv_dur3 _ _ _ _ _ HI (cur s) i) as H3'. rewrite HDcur in H3'. lia.
        -- apply redges_In_q in He. destruct (cv_q _ _ _ _ _ Hcv d He) as (md & Hmd & Hvd & _ & _ & Hle & _).
           pose proof (inv_memo _ _ _ _ _ HI d md Hmd) as Hokd.
           split; [|apply (cv_flag _ _ _ _ _ Hcv Hai d He)].
           assert (Hd3 : m_dur md = 3) by (pose proof (mo_dur3 _ _ _ _ _ _ _ Hokd); lia).
           rewrite <- Hd3, <- Hvd. apply (mo_durge _ _ _ _ _ _ _ Hokd).
      * apply (cv_esub _ _ _ _ _ Hcv).
    + intros d Hd. destruct (key_eqb_spec q d) as [<- | Hne].
      * exists m'. split; [unfold store; cbn; apply upd_same|].
        intros _. split; [reflexivity | cbn; lia].
      * assert (Hstep : exists d1, In (RQ d1) (tr H (cur s) q) /\ clos H (cur s) d1 d).
        { destruct Hd as [f | f d1 e Hin Hd1]; [contradiction | exists d1; split; assumption]. }
        destruct Hstep as (d1 & Hin1 & Hd1).
        destruct (Hcallee d1 Hin1) as (md1 & Hmd1 & Hvd1 & _ & Hle1 & _).
        destruct (obs_of_callee H D s d1 md1 d HI Hmd1 Hvd1 Hd1) as (md & Hmd & HEd & Hdd).
        exists md. split; [unfold store; cbn; rewrite upd_other by exact Hne; exact Hmd|].
        intros _. split; [exact HEd | lia].
  - (* observers *)
    intros g mg Hg Hne Hcl Hpre.
    pose proof (inv_memo _ _ _ _ _ HI g mg Hg) as Hokg.
    pose proof (mo_order _ _ _ _ _ _ _ Hokg) as (Hg1 & Hg2 & Hg3).
    pose proof (durge_clos _ _ _ _ _ _ _ _ (mo_durge _ _ _ _ _ _ _ Hokg) Hcl) as Hdgq.
    assert (Hmdle : forall d md, d_memo s d = Some md -> m_changed md <= cur s).
    { intros d md Hmd. pose proof (mo_order _ _ _ _ _ _ _ (inv_memo _ _ _ _ _ HI d md Hmd)). lia. }
    destruct (N.eq_dec (m_verified mg) (cur s)) as [Heq | Hnow].
    { split; [rewrite Heq; reflexivity|].
      apply (frame_dur_lb H D s q fr g mg HI Hcv Hg Hcl); rewrite ?Heq; auto.
      intros d md _ Hmd. left. apply (Hmdle d md Hmd). }
    assert (Hlt : m_verified mg < cur s) by lia.
    assert (Hstable : forall k, durge H D (m_verified mg) k q -> lcs s k <= m_verified mg ->
              E H (m_verified mg) q = E H (cur s) q /\ m_dur mg <= m_dur m').
    { intros k Hdk Hlck.
      assert (Hk : 1 <= k).
      { destruct (N.eq_dec k 0) as [-> | H0]; [|lia].
        unfold lcs in Hlck. rewrite DurSem.lc_zero in Hlck. unfold cur in *. lia. }
      pose proof (stable_now prog NF H D s k (m_verified mg) HI Hlck) as Hw.
      destruct (durge_stable prog rank Hrank NF Hbound H D k (m_verified mg) (cur s) q (cur s) Hk Hw Hdk Hg3 (N.le_refl _))
        as (Htr & HE & _).
      split; [symmetry; exact HE|].
      apply (frame_dur_lb H D s q fr g mg HI Hcv Hg Hcl Htr).
      - intros i Hi. rewrite Htr in Hi.
        apply (Hw i); [apply (durge_in _ _ _ _ _ _ _ _ Hdk Hi) | lia | lia].
      - intros d md Hd _. rewrite Htr in Hd. right. exists k.
        split; [apply (durge_q _ _ _ _ _ _ _ _ Hdk Hd) | exact Hlck]. }
    destruct Hpre as [Hle | (k & Hdk & Hlck)]; [|apply (Hstable k Hdk Hlck)].
    cbn [m' fresh_memo m_changed] in Hle.
    destruct Hch as [-> | (o & ov & Ho & Hov & Heq & -> & Hdo & _)].
    + assert (Hsame_ans : forall x, In x (tr H (cur s) q) -> In x (tr H (m_verified mg) q) ->
                answer (envat H (cur s)) x = answer (envat H (m_verified mg)) x).
      { intros x Hx Hx'. destruct x as [i | d | c |]; cbn.
        - destruct (cv_in _ _ _ _ _ Hcv i Hx) as (_ & Hst & _).
          rewrite (inv_in _ _ _ _ _ HI i (cur s)); [|apply (inv_in_le _ _ _ _ _ HI) | lia].
          rewrite (inv_in _ _ _ _ _ HI i (m_verified mg)); [reflexivity | lia | lia].
        - destruct (cv_q _ _ _ _ _ Hcv d Hx) as (md & Hmd & Hvd & _ & Hcd & _).
          pose proof (clos_right _ _ _ _ _ _ _ Hcl Hx') as Hcd'.
          destruct (mo_obs _ _ _ _ _ _ _ Hokg d Hcd') as (md0 & Hmd0 & Hobs).
          rewrite Hmd in Hmd0. injection Hmd0 as <-.
          destruct Hobs as [A _]; [left; lia|]. unfold AInvBase.E in A. rewrite A, Hvd. reflexivity.
        - destruct (cv_cell _ _ _ _ _ Hcv (RCell c) Hx) as (_ & Hcc & _); [right; eauto | lia].
        - reflexivity. }
      assert (Hag : agree_on (envat H (cur s)) (envat H (m_verified mg)) (tr H (cur s) q)).
      { destruct (first_changed_is_read_again (prog q) (envat H (cur s)) (envat H (m_verified mg)))
          as [Hag | (pre & x & post & Ht & _ & Hnea & post' & Ht')]; [exact Hag|].
        exfalso. apply Hnea. apply Hsame_ans.
        - unfold tr, AInvBase.tr. rewrite Ht. apply in_or_app; right; left; reflexivity.
        - unfold tr, AInvBase.tr. rewrite Ht'. apply in_or_app; right; left; reflexivity. }
      destruct (trace_determined _ _ _ Hag) as (Htr & Hrun & _).
      assert (Htr' : tr H (cur s) q = tr H (m_verified mg) q) by (symmetry; exact Htr).
      split; [rewrite !(E_unfold prog rank Hrank NF Hbound); exact Hrun|].
      apply (frame_dur_lb H D s q fr g mg HI Hcv Hg Hcl Htr').
      * intros i Hi. destruct (cv_in _ _ _ _ _ Hcv i Hi) as (_ & Hst & _).
        rewrite HDcur. symmetry. apply (inv_dur _ _ _ _ _ HI); lia.
      * intros d md Hd Hmd. destruct (cv_q _ _ _ _ _ Hcv d Hd) as (md0 & Hmd0 & _ & _ & Hcd & _).
        rewrite Hmd in Hmd0. injection Hmd0 as <-. left. lia.
    + subst old.
      destruct (mo_obs _ _ _ _ _ _ _ Hokg q Hcl) as (md0 & Hmd0 & Hobs).
      rewrite Ho in Hmd0. injection Hmd0 as <-.
      destruct Hobs as [A B]; [left; exact Hle|].
      split; [|cbn; lia].
      rewrite A. rewrite <- (mo_val _ _ _ _ _ _ _ (inv_memo _ _ _ _ _ HI q o Ho) ov Hov).
      rewrite Heq. exact Hv.
  - intros m0 Hm0 Hv0.
    split; [intros Hx; exfalso; apply Hx; apply Hnv; [congruence | exact Hv0]|].
    cbn [m' fresh_memo m_dur].
    apply (frame_dur_lb H D s q fr q m0 HI Hcv Hm0); rewrite ?Hv0; auto.
    + apply clos_refl.
    + intros d md _ Hmd. left.
      pose proof (mo_order _ _ _ _ _ _ _ (inv_memo _ _ _ _ _ HI d md Hmd)). lia.
  - intros m0 Hm0. cbn [m' fresh_memo m_changed].
    destruct Hch as [-> | (o & ov & Ho & _ & _ & -> & _ & _)].
    + apply (frame_changed_lb H D s q fr m0 HI Hcv Hm0).
    + subst old. rewrite Hm0 in Ho. injection Ho as <-. lia.
Qed.

(* ---------------------------------------------------------------- the edge walk succeeded *)
Lemma deep_ok H D s q m fl :
  AInv H D s -> d_memo s q = Some m -> m_untracked m = false -> m_verified m <> cur s ->
  (forall e, In e (m_edges m) ->
     match e with
     | EIn i => f_changed (d_in s i) <= m_verified m
     | EQ d => E H (m_verified m) d = E H (cur s) d /\ durge H D (cur s) (m_dur m) d /\
               (exists md, d_memo s d = Some md /\ m_verified md = cur s /\ m_dur m <= m_dur md) /\
               (fl = false -> deadq H (cur s) d)
     end) ->
  let m' := with_verified (with_accin m fl) (cur s) in
  AInv H D (store s q m') /\ dext s (store s q m') /\ E H (cur s) q = E H (m_verified m) q.
Proof.
  intros HI Hm Hu Hvne Hc.
  pose proof (inv_memo _ _ _ _ _ HI q m Hm) as Hok.
  pose proof (mo_order _ _ _ _ _ _ _ Hok) as (Ho1 & Ho2 & Ho3).
  pose proof (mo_durge _ _ _ _ _ _ _ Hok) as Hdg.
  pose proof (stable_never prog NF H D s (m_verified m) HI Ho1) as Hw3.
  assert (Hin_same : forall i, In (RIn i) (tr H (m_verified m) q) ->
            sn_in (H (cur s)) i = sn_in (H (m_verified m)) i /\ D (cur s) i = D (m_verified m) i).
  { intros i Hi. destruct (mo_reads_in _ _ _ _ _ _ _ Hok i Hi) as [He | H3].
    - pose proof (Hc _ He) as Hle. cbn in Hle. split.
      + rewrite (inv_in _ _ _ _ _ HI i (m_verified m) Hle Ho3).
        apply (inv_in _ _ _ _ _ HI i (cur s)); [apply (inv_in_le _ _ _ _ _ HI) | lia].
      + rewrite (inv_dur _ _ _ _ _ HI i (m_verified m) Hle Ho3).
        apply (inv_dur _ _ _ _ _ HI i (cur s)); [apply (inv_in_le _ _ _ _ _ HI) | lia].
    - apply (Hw3 i); [lia | exact Ho3 | lia]. }
  assert (Hag : agree_on (envat H (m_verified m)) (envat H (cur s)) (tr H (m_verified m) q)).
  { intros x Hx. destruct x as [i | d | c |]; cbn.
    - symmetry. apply (Hin_same i Hx).
    - destruct (mo_reads_q _ _ _ _ _ _ _ Hok d Hx) as [He | H3].
      + exact (proj1 (Hc _ He)).
      + symmetry. apply (never_now H D s (m_verified m) d HI Ho1 Ho3 H3).
    - rewrite (mo_reads_cell _ _ _ _ _ _ _ Hok (RCell c) Hx) in Hu; [discriminate | right; eauto].
    - reflexivity. }
  destruct (trace_determined (prog q) _ _ Hag) as (Htr & _).
  assert (Htr' : tr H (cur s) q = tr H (m_verified m) q) by exact Htr.
  apply (revalidate_ok H D s q m fl HI Hm Hag).
  - intros i Hi. apply (Hin_same i Hi).
  - constructor; rewrite Htr'.
    + intros i Hi. rewrite (proj2 (Hin_same i Hi)). apply (durge_in _ _ _ _ _ _ _ _ Hdg Hi).
    + intros d Hd. destruct (mo_reads_q _ _ _ _ _ _ _ Hok d Hd) as [He | H3].
      * exact (proj1 (proj2 (Hc _ He))).
      * eapply durge_mono; [apply (mo_dur3 _ _ _ _ _ _ _ Hok)|].
        apply (never_now H D s (m_verified m) d HI Ho1 Ho3 H3).
    + intros x Hx Hux. apply (durge_untr _ _ _ _ _ _ _ _ Hdg Hx Hux).
  - intros d Hd Hdq.
    assert (Hstep : exists d1, In (RQ d1) (tr H (cur s) q) /\ clos H (cur s) d1 d).
    { destruct Hd as [f | f d1 e Hin Hd1]; [contradiction | exists d1; split; assumption]. }
    destruct Hstep as (d1 & Hin1 & Hd1). rewrite Htr' in Hin1.
    destruct (mo_reads_q _ _ _ _ _ _ _ Hok d1 Hin1) as [He | H3].
    + destruct (Hc _ He) as (_ & _ & (md1 & Hmd1 & Hvd1 & Hle1) & _).
      destruct (obs_of_callee H D s d1 md1 d HI Hmd1 Hvd1 Hd1) as (md & Hmd & HEd & Hdd).
      exists md. split; [exact Hmd|]. split; [exact HEd | lia].
    + assert (H31 : (1 <= 3)) by lia.
      apply (clos_stable prog rank Hrank NF Hbound H D 3 (m_verified m) (cur s) d1 (cur s) H31 Hw3 H3 Ho3 (N.le_refl _)) in Hd1.
      pose proof (durge_clos _ _ _ _ _ _ _ _ H3 Hd1) as H3d.
      assert (Hcq : clos H (m_verified m) q d) by (eapply clos_step; eassumption).
      destruct (mo_obs _ _ _ _ _ _ _ Hok d Hcq) as (md & Hmd & Hobs).
      exists md. split; [exact Hmd|].
      destruct Hobs as [A B].
      { right. exists 3. split; [exact H3d|]. unfold lcs. rewrite DurSem.lc_never by lia. exact Ho1. }
      split; [|exact B]. rewrite <- A.
      apply (never_now H D s (m_verified m) d HI Ho1 Ho3 H3d).
  - (* the recomputed flag *)
    intros Hfl d Hd.
    destruct (in_dec edge_eq_dec (EQ d) (m_edges m)) as [He | Hne].
    + destruct (Hc _ He) as (_ & _ & _ & Hdead). apply Hdead. exact Hfl.
    + assert (Hin : In (EQ d) (dd [] (redges (tr H (m_verified m) q)))).
      { apply dd_In. split; [apply redges_In_q; exact Hd | intros []]. }
      destruct (sub_rm_missing _ _ _ _ (mo_esub _ _ _ _ _ _ _ Hok) Hin Hne) as [H3 Hdq].
      apply (never_dead H D s (m_verified m) d HI Ho1 Ho3 H3 Hdq).
  - intros Heq. contradiction.
Qed.

End Sem.

(* Acc/ProofsSpec.v — the specification [spec_acc] is the recursive pre-order DFS over the
   from-scratch call graph: well defined (the order exists and is unique) for acyclic programs. *)
From Salsa Require Import Base.
From Salsa.Acc Require Import Model Spec ProofsDfs.

Lemma existsb_key_In q vis : existsb (key_eqb q) vis = true <-> In q vis.
Proof.
  rewrite existsb_exists. split.
  - intros (x & Hx & E). apply key_eqb_eq in E. now subst.
  - intros H. exists q. split; [exact H | apply key_eqb_refl].
Qed.

Lemma In_EQ_map q vis : In (EQ q) (map EQ vis) <-> In q vis.
Proof.
  rewrite in_map_iff. split.
  - intros (x & E & Hx). injection E as ->. exact Hx.
  - intros H. exists q. split; [reflexivity | exact H].
Qed.

Lemma In_EIn_map i vis : ~ In (EIn i) (map EQ vis).
Proof. rewrite in_map_iff. intros (x & E & _). discriminate. Qed.

Section VisitDfs.
Variable succ : qkey -> list qkey.
Variable own : qkey -> list val.
Variable rank : qkey -> nat.
Hypothesis rank_succ : forall q c, In c (succ q) -> (rank c < rank q)%nat.

Definition esucc (q : qkey) : list edge := map EQ (succ q).

Definition vstep (n : nat) (acc : list qkey * list val) (c : qkey) : list qkey * list val :=
  let '(vis', o) := visit succ own n (fst acc) c in (vis', snd acc ++ o).

Lemma visit_S n vis q :
  visit succ own (S n) vis q =
  if existsb (key_eqb q) vis then (vis, [])
  else fold_left (vstep n) (succ q) (q :: vis, own q).
Proof. reflexivity. Qed.

Definition visit_ok (n : nat) : Prop :=
  forall vis q vis' o, (rank q < n)%nat -> visit succ own n vis q = (vis', o) ->
    exists ord, dfs esucc (map EQ vis) [EQ q] ord /\ o = outs own ord /\
                seteq (map EQ vis') (ord ++ map EQ vis).

Lemma fold_dfs n : visit_ok n ->
  forall cs vis0 out0 vis' o, (forall c, In c cs -> (rank c < n)%nat) ->
    fold_left (vstep n) cs (vis0, out0) = (vis', o) ->
    exists ord, dfs esucc (map EQ vis0) (map EQ cs) ord /\ o = out0 ++ outs own ord /\
                seteq (map EQ vis') (ord ++ map EQ vis0).
Proof.
  intros Hn. induction cs as [|c cs IH]; intros vis0 out0 vis' o Hr H; cbn in H.
  - injection H as <- <-. exists []. repeat split; [constructor | cbn; now rewrite app_nil_r | tauto | tauto].
  - unfold vstep at 2 in H. cbn [fst snd] in H.
    destruct (visit succ own n vis0 c) as [v1 o1] eqn:V.
    destruct (Hn _ _ _ _ (Hr c (or_introl eq_refl)) V) as (ord1 & D1 & -> & S1).
    destruct (IH v1 (out0 ++ outs own ord1) vis' o) as (ord2 & D2 & -> & S2);
      [intros x Hx; apply Hr; now right | exact H |].
    exists (ord1 ++ ord2). split; [|split].
    + change (map EQ (c :: cs)) with ([EQ c] ++ map EQ cs). eapply dfs_app; [exact D1|].
      eapply dfs_seteq; [exact D2 | exact S1].
    + rewrite outs_app. now rewrite app_assoc.
    + intros k. rewrite (S2 k). rewrite !in_app_iff. rewrite (S1 k). rewrite in_app_iff. tauto.
Qed.

Lemma visit_ok_all n : visit_ok n.
Proof.
  induction n as [|n IH]; intros vis q vis' o Hr H; [lia|].
  rewrite visit_S in H. destruct (existsb (key_eqb q) vis) eqn:M.
  - injection H as <- <-. exists []. repeat split; try tauto.
    apply dfs_seen; [|constructor]. apply In_EQ_map. now apply existsb_key_In.
  - assert (Hq : ~ In (EQ q) (map EQ vis)).
    { rewrite In_EQ_map, <- existsb_key_In. congruence. }
    destruct (fold_dfs n IH (succ q) (q :: vis) (own q) vis' o) as (ord & D & -> & S);
      [intros c Hc; pose proof (rank_succ _ _ Hc); lia | exact H |].
    exists (EQ q :: ord ++ []). split; [|split].
    + apply dfs_q; [exact Hq | exact D | constructor].
    + rewrite app_nil_r. reflexivity.
    + rewrite app_nil_r. intros k. rewrite (S k). cbn. rewrite !in_app_iff. cbn. tauto.
Qed.

End VisitDfs.

(* ---------------------------------------------------------------- the from-scratch call graph *)
Lemma callees_calls e b c : In c (callees e b) -> calls b c.
Proof.
  induction b as [v|i k IH|q k IH|c0 k IH|k IH|c0 k IH|v k IH]; cbn; intros H.
  - destruct H.
  - eapply calls_in_rdin, IH, H.
  - destruct H as [<-|H]; [constructor | eapply calls_in_call, IH, H].
  - eapply calls_in_cell, IH, H.
  - apply calls_in_touch, IH, H.
  - apply calls_in_panicif, IH, H.
  - apply calls_in_accum, IH, H.
Qed.

Section SpecAcc.
Variable prog : qkey -> body.
Variable rank : qkey -> nat.
Hypothesis acyclic : calls_below prog rank.
Variable n : nat.
Hypothesis rank_bound : forall q, (rank q < n)%nat.
Variable sn : snapshot.

Definition sem_succ (q : qkey) : list edge := map EQ (spec_succ prog (env_of prog n sn) q).
Definition sem_own (q : qkey) : list val := spec_own prog (env_of prog n sn) q.

(* spec_acc is the value list of the (unique) pre-order DFS of the from-scratch call graph *)
Theorem spec_acc_dfs q :
  exists ord, dfs sem_succ [] [EQ q] ord /\ spec_acc prog n sn q = outs sem_own ord.
Proof.
  unfold spec_acc.
  destruct (visit (spec_succ prog (env_of prog n sn)) (spec_own prog (env_of prog n sn)) n [] q)
    as [vis' o] eqn:V.
  destruct (visit_ok_all (spec_succ prog (env_of prog n sn)) (spec_own prog (env_of prog n sn)) rank
              (fun q c Hc => acyclic q c (callees_calls _ _ _ Hc)) n [] q vis' o (rank_bound q) V)
    as (ord & D & -> & _).
  exists ord. split; [exact D | reflexivity].
Qed.

Theorem spec_acc_unique q ord :
  dfs sem_succ [] [EQ q] ord -> spec_acc prog n sn q = outs sem_own ord.
Proof.
  intros D. destruct (spec_acc_dfs q) as (ord' & D' & ->).
  now rewrite (dfs_fun _ _ _ _ D' _ D).
Qed.

End SpecAcc.

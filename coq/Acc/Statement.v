(* Acc/Statement.v — the full statement of C11 over the executable model (definitions only). *)
From Salsa Require Import Base.
From Salsa.Acc Require Import Model Spec.

(* a cell change must be followed by a new revision before the next read (as in C01/C04) *)
Fixpoint wf_ops (dirty : bool) (os : list op) : Prop :=
  match os with
  | [] => True
  | o :: os' =>
      match o with
      | OGet _ | OAccumulated _ => dirty = false /\ wf_ops false os'
      | OSetCell _ _ => wf_ops true os'
      | OSet _ _ _ | OSynth _ => wf_ops false os'
      | _ => wf_ops dirty os'
      end
  end.

Section Statement.
Variable persist : bool.
Variable prog : qkey -> body.
Variable noeq : qkey -> bool.
Variable fams : list N.
Variable NF : nat.

(* every `accumulated` returns spec_acc of the current snapshot (or unwinds; never out of fuel) *)
Definition acc_ok (s : db) (q : qkey) (r : out) : Prop :=
  r = Ok (OL (spec_acc prog NF (snap_of s) q)) \/ exists p, r = Panic p.

Fixpoint acc_outs_ok (fuel afuel : nat) (s : db) (os : list op) : Prop :=
  match os with
  | [] => True
  | o :: os' =>
      (match o with
       | OAccumulated q => acc_ok s q (snd (step persist prog noeq fams fuel afuel s o))
       | _ => True
       end) /\
      acc_outs_ok fuel afuel (fst (step persist prog noeq fams fuel afuel s o)) os'
  end.
End Statement.

(* the number of loop iterations needed: every pop either revisits or first-visits a node *)
Definition C11_accumulated_full_statement : Prop :=
  forall (persist : bool) (prog : qkey -> body) (noeq : qkey -> bool) (fams : list N)
         (rank : qkey -> nat) (NF : nat),
    calls_below prog rank -> (forall q, (rank q < NF)%nat) ->
    forall fuel, (forall p, (rank p < fuel)%nat) ->
    forall iv idur lru0 ops,
      wf_ops false ops ->
      exists afuel0, forall afuel, (afuel0 <= afuel)%nat ->
        acc_outs_ok persist prog noeq fams NF fuel afuel (init iv idur lru0) ops.

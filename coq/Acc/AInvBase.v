(* Acc/AInvBase.v — groundwork for the invariant of the Acc model (C11): read traces of
   bodies, "a run is a function of the answers to its reads" (value, pushes, callees), the
   from-scratch semantics over a history of snapshots, and the weakest-precondition calculus
   for the Acc monad.  Port of Core/SpecProofs.v, Core/Wp.v and the first part of Core/Inv.v
   to Acc/Model.v (bodies have the extra constructor [Accum]). *)
From Salsa Require Import Base.
From Salsa.Kern Require Import CoreK CoreKFacts.
From Salsa.Acc Require Import Model Spec ProofsDfs ProofsSpec.

(* ---------------------------------------------------------------- traces *)
Inductive rd := RIn (i : ikey) | RQ (q : qkey) | RCell (c : cell) | RTouch.

Fixpoint trace (e : env) (b : body) : list rd :=
  match b with
  | Ret _ => []
  | RdIn i k => RIn i :: trace e (k (e_in e i))
  | CallQ q k => RQ q :: trace e (k (e_q e q))
  | RdCell c k => RCell c :: trace e (k (e_cell e c))
  | Touch k => RTouch :: trace e k
  | PanicIf _ k => trace e k
  | Accum _ k => trace e k
  end.

Definition answer (e : env) (r : rd) : val :=
  match r with
  | RIn i => e_in e i
  | RQ q => e_q e q
  | RCell c => e_cell e c
  | RTouch => 0
  end.

Definition agree_on (e e' : env) (l : list rd) : Prop :=
  forall r, In r l -> answer e r = answer e' r.

Definition untr (x : rd) : Prop := x = RTouch \/ exists c, x = RCell c.

(* A body's run is a function of the answers to the reads it performs. *)
Lemma trace_determined (b : body) : forall e e',
  agree_on e e' (trace e b) ->
  trace e' b = trace e b /\ run e' b = run e b /\ pushes e' b = pushes e b /\
  callees e' b = callees e b.
Proof.
  induction b as [v | i k IH | q k IH | c k IH | k IH | pc k IH | a k IH]; intros e e' H;
    cbn [trace run pushes callees] in *.
  - repeat split.
  - assert (Hi : e_in e i = e_in e' i) by (apply (H (RIn i)); left; reflexivity).
    rewrite <- Hi.
    destruct (IH (e_in e i) e e') as (A & B & C & D0).
    + intros r Hr; apply H; right; exact Hr.
    + rewrite A, B, C, D0; repeat split.
  - assert (Hq : e_q e q = e_q e' q) by (apply (H (RQ q)); left; reflexivity).
    rewrite <- Hq.
    destruct (IH (e_q e q) e e') as (A & B & C & D0).
    + intros r Hr; apply H; right; exact Hr.
    + rewrite A, B, C, D0; repeat split.
  - assert (Hc : e_cell e c = e_cell e' c) by (apply (H (RCell c)); left; reflexivity).
    rewrite <- Hc.
    destruct (IH (e_cell e c) e e') as (A & B & C & D0).
    + intros r Hr; apply H; right; exact Hr.
    + rewrite A, B, C, D0; repeat split.
  - destruct (IH e e') as (A & B & C & D0).
    + intros r Hr; apply H; right; exact Hr.
    + rewrite A, B, C, D0; repeat split.
  - apply IH; exact H.
  - destruct (IH e e' H) as (A & B & C & D0). rewrite A, B, C, D0; repeat split.
Qed.

Lemma first_changed_is_read_again (b : body) : forall e e',
  (agree_on e e' (trace e b)) \/
  (exists pre r post, trace e b = pre ++ r :: post /\ agree_on e e' pre /\
                      answer e r <> answer e' r /\
                      exists post', trace e' b = pre ++ r :: post').
Proof.
  induction b as [v | i k IH | q k IH | c k IH | k IH | pc k IH | a k IH]; intros e e'; cbn [trace].
  - left; intros r [].
  - destruct (N.eq_dec (e_in e i) (e_in e' i)) as [Heq | Hne].
    + destruct (IH (e_in e i) e e') as [Hag | (pre & r & post & Ht & Hpre & Hne & post' & Ht')].
      * left; intros r [<- | Hr]; [exact Heq | apply Hag; exact Hr].
      * right; exists (RIn i :: pre), r, post; repeat split.
        -- cbn; rewrite Ht; reflexivity.
        -- intros r0 [<- | Hr0]; [exact Heq | apply Hpre; exact Hr0].
        -- exact Hne.
        -- exists post'; cbn; rewrite <- Heq, Ht'; reflexivity.
    + right; exists [], (RIn i), (trace e (k (e_in e i))); repeat split.
      * intros r [].
      * exact Hne.
      * exists (trace e' (k (e_in e' i))); reflexivity.
  - destruct (N.eq_dec (e_q e q) (e_q e' q)) as [Heq | Hne].
    + destruct (IH (e_q e q) e e') as [Hag | (pre & r & post & Ht & Hpre & Hne & post' & Ht')].
      * left; intros r [<- | Hr]; [exact Heq | apply Hag; exact Hr].
      * right; exists (RQ q :: pre), r, post; repeat split.
        -- cbn; rewrite Ht; reflexivity.
        -- intros r0 [<- | Hr0]; [exact Heq | apply Hpre; exact Hr0].
        -- exact Hne.
        -- exists post'; cbn; rewrite <- Heq, Ht'; reflexivity.
    + right; exists [], (RQ q), (trace e (k (e_q e q))); repeat split.
      * intros r [].
      * exact Hne.
      * exists (trace e' (k (e_q e' q))); reflexivity.
  - destruct (N.eq_dec (e_cell e c) (e_cell e' c)) as [Heq | Hne].
    + destruct (IH (e_cell e c) e e') as [Hag | (pre & r & post & Ht & Hpre & Hne & post' & Ht')].
      * left; intros r [<- | Hr]; [exact Heq | apply Hag; exact Hr].
      * right; exists (RCell c :: pre), r, post; repeat split.
        -- cbn; rewrite Ht; reflexivity.
        -- intros r0 [<- | Hr0]; [exact Heq | apply Hpre; exact Hr0].
        -- exact Hne.
        -- exists post'; cbn; rewrite <- Heq, Ht'; reflexivity.
    + right; exists [], (RCell c), (trace e (k (e_cell e c))); repeat split.
      * intros r [].
      * exact Hne.
      * exists (trace e' (k (e_cell e' c))); reflexivity.
  - destruct (IH e e') as [Hag | (pre & r & post & Ht & Hpre & Hne & post' & Ht')].
    + left; intros r [<- | Hr]; [reflexivity | apply Hag; exact Hr].
    + right; exists (RTouch :: pre), r, post; repeat split.
      * cbn; rewrite Ht; reflexivity.
      * intros r0 [<- | Hr0]; [reflexivity | apply Hpre; exact Hr0].
      * exact Hne.
      * exists post'; cbn; rewrite Ht'; reflexivity.
  - apply IH.
  - apply IH.
Qed.

(* the calls of a run are the tracked-function reads of its trace, in order *)
Fixpoint rq_of (l : list rd) : list qkey :=
  match l with
  | [] => []
  | RQ q :: l' => q :: rq_of l'
  | _ :: l' => rq_of l'
  end.

Lemma callees_trace e b : callees e b = rq_of (trace e b).
Proof.
  induction b as [v | i k IH | q k IH | c k IH | k IH | pc k IH | a k IH]; cbn [callees trace rq_of];
    try rewrite IH; reflexivity.
Qed.

Lemma rq_of_In l q : In q (rq_of l) <-> In (RQ q) l.
Proof.
  induction l as [|x l IH]; cbn; [tauto|].
  destruct x as [i | d | c |]; cbn; rewrite IH; split; intros Hx; try tauto;
    try (destruct Hx as [Hx | Hx]; [discriminate | exact Hx]).
  - destruct Hx as [-> | Hx]; [left; reflexivity | right; exact Hx].
  - destruct Hx as [Hx | Hx]; [injection Hx as ->; left; reflexivity | right; exact Hx].
Qed.

Lemma calls_of_trace e b q : In (RQ q) (trace e b) -> calls b q.
Proof. intros Hx. apply (callees_calls e). rewrite callees_trace. apply rq_of_In. exact Hx. Qed.

Section Rank.
Variable prog : qkey -> body.
Variable rank : qkey -> nat.
Hypothesis Hrank : calls_below prog rank.

Lemma eval_fuel_irrelevant sn : forall n m q,
  (rank q < n)%nat -> (rank q < m)%nat -> eval prog n sn q = eval prog m sn q.
Proof.
  induction n as [|n IH]; intros m q Hn Hm; [inversion Hn|].
  destruct m as [|m]; [inversion Hm|].
  cbn [eval].
  set (e := {| e_in := sn_in sn; e_cell := sn_cell sn; e_q := eval prog n sn |}).
  set (e' := {| e_in := sn_in sn; e_cell := sn_cell sn; e_q := eval prog m sn |}).
  destruct (trace_determined (prog q) e e') as (_ & Hr & _); [|symmetry; exact Hr].
  intros r Hr; destruct r as [i | q' | c |]; cbn; try reflexivity.
  apply calls_of_trace in Hr. apply Hrank in Hr.
  apply IH; lia.
Qed.
End Rank.

(* ---------------------------------------------------------------- semantics over a history *)
Section Hist.
Variable prog : qkey -> body.
Variable rank : qkey -> nat.
Hypothesis Hrank : calls_below prog rank.
Variable NF : nat.
Hypothesis Hbound : forall q, (rank q < NF)%nat.

Definition hist := rev -> snapshot.
Definition dhist := rev -> ikey -> dur.

Definition E (H : hist) (r : rev) (q : qkey) : val := eval prog NF (H r) q.

Definition envat (H : hist) (r : rev) : env := env_of prog NF (H r).

Definition tr (H : hist) (r : rev) (q : qkey) : list rd := trace (envat H r) (prog q).
Definition psh (H : hist) (r : rev) (q : qkey) : list val := pushes (envat H r) (prog q).

Lemma E_unfold H r q : E H r q = run (envat H r) (prog q).
Proof.
  unfold E. pose proof (Hbound q) as Hq.
  destruct NF as [|n] eqn:HN; [inversion Hq|].
  cbn [eval].
  set (e := {| e_in := sn_in (H r); e_cell := sn_cell (H r); e_q := eval prog n (H r) |}).
  destruct (trace_determined (prog q) e (envat H r)) as (_ & Hr & _); [|symmetry; exact Hr].
  intros x Hx; destruct x as [i | d | c |]; cbn; try reflexivity.
  apply calls_of_trace in Hx. apply Hrank in Hx.
  rewrite HN. apply (eval_fuel_irrelevant prog rank Hrank); lia.
Qed.

Lemma tr_calls H r q d : In (RQ d) (tr H r q) -> (rank d < rank q)%nat.
Proof. intros Hx. apply calls_of_trace in Hx. apply Hrank in Hx. exact Hx. Qed.

Lemma E_hist_eq H H' r q : H' r = H r -> E H' r q = E H r q.
Proof. unfold E. intros ->. reflexivity. Qed.

Lemma tr_hist_eq H H' r q : H' r = H r -> tr H' r q = tr H r q.
Proof. unfold tr, envat. intros ->. reflexivity. Qed.

Lemma psh_hist_eq H H' r q : H' r = H r -> psh H' r q = psh H r q.
Proof. unfold psh, envat. intros ->. reflexivity. Qed.

End Hist.

(* snapshots up to pointwise equality *)
Definition snap_eq (a b : snapshot) : Prop :=
  (forall i, sn_in a i = sn_in b i) /\ (forall c, sn_cell a c = sn_cell b c).

Lemma eval_snap_eq prog a b : snap_eq a b -> forall n q, eval prog n a q = eval prog n b q.
Proof.
  intros [Hi Hc]. induction n as [|n IH]; intros q; [reflexivity|].
  cbn [eval].
  set (ea := {| e_in := sn_in a; e_cell := sn_cell a; e_q := eval prog n a |}).
  set (eb := {| e_in := sn_in b; e_cell := sn_cell b; e_q := eval prog n b |}).
  destruct (trace_determined (prog q) ea eb) as (_ & Hr & _); [|symmetry; exact Hr].
  intros x _. destruct x as [i | d | c |]; cbn; auto.
Qed.

Lemma env_snap_eq prog n a b : snap_eq a b -> forall b0,
  trace (env_of prog n b) b0 = trace (env_of prog n a) b0 /\
  pushes (env_of prog n b) b0 = pushes (env_of prog n a) b0 /\
  callees (env_of prog n b) b0 = callees (env_of prog n a) b0.
Proof.
  intros Hs b0. destruct (trace_determined b0 (env_of prog n a) (env_of prog n b)) as (A & _ & C & D0).
  - intros x _. destruct x as [i | d | c |]; cbn; try reflexivity; try apply Hs.
    apply eval_snap_eq. exact Hs.
  - repeat split; assumption.
Qed.

(* ---------------------------------------------------------------- weakest preconditions *)
Definition wp {A} (m : M A) (Q : A -> db -> Prop) (X : panic -> db -> Prop) (s : db) : Prop :=
  match m s with
  | (s', Ok a) => Q a s'
  | (s', Panic p) => X p s'
  | (_, Fuel) => False
  end.

Lemma wp_ret {A} (a : A) (Q : A -> db -> Prop) (X : panic -> db -> Prop) s : Q a s -> wp (ret a) Q X s.
Proof. intros H; exact H. Qed.

Lemma wp_bind {A B} (m : M A) (f : A -> M B) (Q : B -> db -> Prop) (X : panic -> db -> Prop) s :
  wp m (fun a s' => wp (f a) Q X s') X s -> wp (bind m f) Q X s.
Proof. unfold wp, bind. destruct (m s) as [s' [a | p |]]; intros H; exact H. Qed.

Lemma wp_get (Q : db -> db -> Prop) (X : panic -> db -> Prop) s : Q s s -> wp get Q X s.
Proof. intros H; exact H. Qed.

Lemma wp_modify f (Q : unit -> db -> Prop) (X : panic -> db -> Prop) s : Q tt (f s) -> wp (modify f) Q X s.
Proof. intros H; exact H. Qed.

Lemma wp_fail {A} p (Q : A -> db -> Prop) (X : panic -> db -> Prop) s : X p s -> wp (fail p) Q X s.
Proof. intros H; exact H. Qed.

Lemma wp_emit e (Q : unit -> db -> Prop) (X : panic -> db -> Prop) s :
  Q tt (set_log s (e :: d_log s)) -> wp (emit e) Q X s.
Proof. intros H; exact H. Qed.

Lemma wp_conseq {A} (m : M A) (Q Q' : A -> db -> Prop) (X X' : panic -> db -> Prop) s :
  wp m Q X s -> (forall a s', Q a s' -> Q' a s') -> (forall p s', X p s' -> X' p s') -> wp m Q' X' s.
Proof. unfold wp. destruct (m s) as [s' [a | p |]]; intros H HQ HX; auto. Qed.

Lemma wp_and {A} (m : M A) (Q Q' : A -> db -> Prop) (X X' : panic -> db -> Prop) s :
  wp m Q X s -> wp m Q' X' s ->
  wp m (fun a s' => Q a s' /\ Q' a s') (fun p s' => X p s' /\ X' p s') s.
Proof. unfold wp. destruct (m s) as [s' [a | p |]]; tauto. Qed.

(* Acc/ProofsDfs.v — pure facts about the depth-first collection of accumulated values.

   [dfs succ v ks o]: visiting the roots [ks] in order, starting with the visited set [v],
   first-visits exactly the nodes [o], in this order (recursive pre-order DFS).
   [ploop]: the stack loop of accumulated_by over a fixed graph.

   - ploop_dfs        the stack loop computes the recursive pre-order
   - dfs_fun          the visiting order is unique
   - dfs_nodup/new    every node is visited at most once, and only if it was not visited before
   - dfs_closed       every root and every successor of a visited node ends up visited
   - dfs_reach        every visited node is reachable from a root
   - dfs_dd           repeated entries of a successor list are irrelevant
   - dfs_dead         successor lists may lose or gain *dead* entries (nodes below which no
                      value is pushed) without changing the collected values: this is the
                      soundness of skipping a sub-tree whose flag is Empty and of not recording
                      a never-changing dependency that has no accumulated values            *)
From Salsa Require Import Base.
From Salsa.Acc Require Import Model.

Lemma edge_eqb_eq a b : edge_eqb a b = true <-> a = b.
Proof.
  destruct a as [i|p], b as [j|q]; cbn; try (split; congruence).
  - rewrite key_eqb_eq; split; congruence.
  - rewrite key_eqb_eq; split; congruence.
Qed.

Lemma edge_eqb_refl a : edge_eqb a a = true.
Proof. now apply edge_eqb_eq. Qed.

Lemma edge_eq_dec (a b : edge) : {a = b} + {a <> b}.
Proof.
  destruct (edge_eqb a b) eqn:E.
  - left; now apply edge_eqb_eq.
  - right; intros H; apply edge_eqb_eq in H; congruence.
Qed.

Definition mem (k : edge) (l : list edge) : bool := existsb (edge_eqb k) l.

Lemma mem_In k l : mem k l = true <-> In k l.
Proof.
  unfold mem; rewrite existsb_exists; split.
  - intros (x & Hx & E). apply edge_eqb_eq in E. now subst.
  - intros H. exists k. split; [exact H | apply edge_eqb_refl].
Qed.

Lemma mem_nIn k l : mem k l = false <-> ~ In k l.
Proof. rewrite <- mem_In. destruct (mem k l); split; congruence. Qed.

Definition seteq (v w : list edge) : Prop := forall k, In k v <-> In k w.

Lemma seteq_refl v : seteq v v. Proof. firstorder. Qed.
Lemma seteq_sym v w : seteq v w -> seteq w v. Proof. firstorder. Qed.
Lemma seteq_trans u v w : seteq u v -> seteq v w -> seteq u w. Proof. firstorder. Qed.
Lemma seteq_cons k v w : seteq v w -> seteq (k :: v) (k :: w). Proof. firstorder. Qed.
Lemma seteq_app o v w : seteq v w -> seteq (o ++ v) (o ++ w).
Proof. intros H k. rewrite !in_app_iff. firstorder. Qed.

Lemma nodup_app {A} (a b : list A) :
  NoDup a -> NoDup b -> (forall x, In x a -> In x b -> False) -> NoDup (a ++ b).
Proof.
  induction 1 as [|x a Hx _ IH]; intros Hb Hd; cbn; [exact Hb|].
  constructor.
  - rewrite in_app_iff. intros [H|H]; [now apply Hx | apply (Hd x); [now left | exact H]].
  - apply IH; [exact Hb|]. intros y Hy. apply Hd. now right.
Qed.

Ltac norm_in := do 4 (cbn [In app] in *; rewrite ?in_app_iff in * ).

Ltac insolve := cbn [In app]; rewrite ?in_app_iff; cbn [In app]; rewrite ?in_app_iff; cbn [In app];
                 rewrite ?in_app_iff; tauto.

(* values contributed by a node *)
Definition oown (own : qkey -> list val) (k : edge) : list val :=
  match k with EIn _ => [] | EQ q => own q end.
Definition outs (own : qkey -> list val) (o : list edge) : list val := flat_map (oown own) o.

Lemma outs_app own a b : outs own (a ++ b) = outs own a ++ outs own b.
Proof. unfold outs. apply flat_map_app. Qed.

Section Graph.
Variable succ : qkey -> list edge.

(* ---------------------------------------------------------------- the recursive DFS *)
Inductive dfs : list edge -> list edge -> list edge -> Prop :=
| dfs_nil v : dfs v [] []
| dfs_seen v k ks o : In k v -> dfs v ks o -> dfs v (k :: ks) o
| dfs_in v i ks o : ~ In (EIn i) v -> dfs (EIn i :: v) ks o -> dfs v (EIn i :: ks) (EIn i :: o)
| dfs_q v q ks o1 o2 : ~ In (EQ q) v ->
    dfs (EQ q :: v) (succ q) o1 -> dfs (o1 ++ EQ q :: v) ks o2 ->
    dfs v (EQ q :: ks) (EQ q :: o1 ++ o2).

Lemma dfs_seteq v ks o : dfs v ks o -> forall w, seteq v w -> dfs w ks o.
Proof.
  induction 1 as [v|v k ks o Hin _ IH|v i ks o Hn _ IH|v q ks o1 o2 Hn _ IH1 _ IH2]; intros w E.
  - constructor.
  - apply dfs_seen; [now apply E | now apply IH].
  - apply dfs_in; [rewrite <- (E (EIn i)); exact Hn | apply IH, seteq_cons, E].
  - apply dfs_q; [rewrite <- (E (EQ q)); exact Hn | apply IH1, seteq_cons, E |].
    apply IH2, seteq_app, seteq_cons, E.
Qed.

(* the visiting order is a function of the start *)
Lemma dfs_fun v ks o : dfs v ks o -> forall o', dfs v ks o' -> o = o'.
Proof.
  induction 1 as [v|v k ks o Hin _ IH|v i ks o Hn _ IH|v q ks o1 o2 Hn _ IH1 _ IH2]; intros o' D.
  - inversion D; reflexivity.
  - inversion D; subst; try contradiction. now apply IH.
  - inversion D; subst; try contradiction. f_equal. now apply IH.
  - inversion D as [| |  | v' q' ks' p1 p2 Hn' D1 D2]; subst; try contradiction.
    apply IH1 in D1. subst p1. apply IH2 in D2. now subst p2.
Qed.

Lemma dfs_app_inv a : forall v b o, dfs v (a ++ b) o ->
  exists o1 o2, dfs v a o1 /\ dfs (o1 ++ v) b o2 /\ o = o1 ++ o2.
Proof.
  induction a as [|k a IH]; intros v b o D; cbn in D.
  - exists [], o. repeat split; [constructor | exact D].
  - inversion D as [|v' k' ks' o' Hin D'|v' i ks' o' Hn D'|v' q ks' p1 p2 Hn D1 D2]; subst.
    + destruct (IH _ _ _ D') as (o1 & o2 & A & B & E).
      exists o1, o2. repeat split; [now apply dfs_seen | exact B | exact E].
    + destruct (IH _ _ _ D') as (o1 & o2 & A & B & E).
      exists (EIn i :: o1), o2. repeat split.
      * now apply dfs_in.
      * eapply dfs_seteq; [exact B|]. intros k. insolve.
      * cbn. now rewrite E.
    + destruct (IH _ _ _ D2) as (o1 & o2 & A & B & E).
      exists (EQ q :: p1 ++ o1), o2. repeat split.
      * now apply dfs_q.
      * eapply dfs_seteq; [exact B|]. intros k. insolve.
      * cbn. rewrite E. now rewrite app_assoc.
Qed.

Lemma dfs_app v a o1 : dfs v a o1 -> forall b o2, dfs (o1 ++ v) b o2 -> dfs v (a ++ b) (o1 ++ o2).
Proof.
  induction 1 as [v|v k ks o Hin _ IH|v i ks o Hn _ IH|v q ks p1 p2 Hn D1 _ _ IH2]; intros b o2 D; cbn.
  - exact D.
  - apply dfs_seen; [exact Hin | now apply IH].
  - apply dfs_in; [exact Hn|]. apply IH. eapply dfs_seteq; [exact D|].
    intros k. insolve.
  - rewrite <- app_assoc. apply dfs_q; [exact Hn | exact D1 |].
    apply IH2. eapply dfs_seteq; [exact D|].
    intros k. insolve.
Qed.

(* ---------------------------------------------------------------- each node once *)
Lemma dfs_new v ks o : dfs v ks o -> forall k, In k o -> ~ In k v.
Proof.
  induction 1 as [v|v k ks o Hin _ IH|v i ks o Hn _ IH|v q ks o1 o2 Hn _ IH1 _ IH2]; intros x Hx.
  - destruct Hx.
  - now apply IH.
  - destruct Hx as [<-|Hx]; [exact Hn|]. intros Hv. apply (IH _ Hx). now right.
  - destruct Hx as [<-|Hx]; [exact Hn|]. apply in_app_iff in Hx. destruct Hx as [Hx|Hx].
    + intros Hv. apply (IH1 _ Hx). now right.
    + intros Hv. apply (IH2 _ Hx). apply in_app_iff. right. now right.
Qed.

Lemma dfs_nodup v ks o : dfs v ks o -> NoDup o.
Proof.
  induction 1 as [v|v k ks o Hin _ IH|v i ks o Hn D IH|v q ks o1 o2 Hn D1 IH1 D2 IH2].
  - constructor.
  - exact IH.
  - constructor; [|exact IH]. intros Hx. apply (dfs_new _ _ _ D _ Hx). now left.
  - constructor.
    + intros Hx. apply in_app_iff in Hx. destruct Hx as [Hx|Hx].
      * apply (dfs_new _ _ _ D1 _ Hx). now left.
      * apply (dfs_new _ _ _ D2 _ Hx). apply in_app_iff. right. now left.
    + apply nodup_app; [exact IH1 | exact IH2 |].
      intros x H1 H2. apply (dfs_new _ _ _ D2 _ H2). apply in_app_iff. now left.
Qed.

(* ---------------------------------------------------------------- closure and reachability *)
Lemma dfs_roots v ks o : dfs v ks o -> forall k, In k ks -> In k (o ++ v).
Proof.
  induction 1 as [v|v k ks o Hin _ IH|v i ks o Hn _ IH|v q ks o1 o2 Hn _ IH1 _ IH2]; intros x Hx.
  - destruct Hx.
  - destruct Hx as [<-|Hx]; [apply in_app_iff; now right | now apply IH].
  - destruct Hx as [<-|Hx]; [now left|]. apply IH in Hx. norm_in. tauto.
  - destruct Hx as [<-|Hx]; [now left|]. apply IH2 in Hx. norm_in. tauto.
Qed.

Lemma dfs_closed v ks o : dfs v ks o ->
  forall q c, In (EQ q) o -> In c (succ q) -> In c (o ++ v).
Proof.
  induction 1 as [v|v k ks o Hin _ IH|v i ks o Hn _ IH|v q ks o1 o2 Hn D1 IH1 D2 IH2]; intros p c Hp Hc.
  - destruct Hp.
  - now apply (IH p c).
  - destruct Hp as [Hp|Hp]; [discriminate|]. specialize (IH p c Hp Hc). norm_in. tauto.
  - destruct Hp as [Hp|Hp].
    + injection Hp as <-. pose proof (dfs_roots _ _ _ D1 c Hc) as H. norm_in. tauto.
    + apply in_app_iff in Hp. destruct Hp as [Hp|Hp].
      * specialize (IH1 p c Hp Hc). norm_in. tauto.
      * specialize (IH2 p c Hp Hc). norm_in. tauto.
Qed.

Inductive reach : edge -> edge -> Prop :=
| reach_refl k : reach k k
| reach_step q c k : In c (succ q) -> reach c k -> reach (EQ q) k.

Lemma dfs_reach v ks o : dfs v ks o -> forall k, In k o -> exists r, In r ks /\ reach r k.
Proof.
  induction 1 as [v|v k ks o Hin _ IH|v i ks o Hn _ IH|v q ks o1 o2 Hn _ IH1 _ IH2]; intros x Hx.
  - destruct Hx.
  - destruct (IH _ Hx) as (r & Hr & R). exists r. split; [now right | exact R].
  - destruct Hx as [<-|Hx]; [exists (EIn i); split; [now left | constructor]|].
    destruct (IH _ Hx) as (r & Hr & R). exists r. split; [now right | exact R].
  - destruct Hx as [<-|Hx]; [exists (EQ q); split; [now left | constructor]|].
    apply in_app_iff in Hx. destruct Hx as [Hx|Hx].
    + destruct (IH1 _ Hx) as (r & Hr & R). exists (EQ q). split; [now left | eapply reach_step; eauto].
    + destruct (IH2 _ Hx) as (r & Hr & R). exists r. split; [now right | exact R].
Qed.

(* ---------------------------------------------------------------- repeated entries *)
(* first occurrences of [l] that are not in [seen] *)
Fixpoint dd (seen l : list edge) : list edge :=
  match l with
  | [] => []
  | k :: l' => if mem k seen then dd seen l' else k :: dd (k :: seen) l'
  end.

Lemma dfs_dd l : forall seen v o, (forall k, In k seen -> In k v) ->
  (dfs v l o <-> dfs v (dd seen l) o).
Proof.
  induction l as [|k l IH]; intros seen v o S; cbn; [tauto|].
  destruct (mem k seen) eqn:M.
  - apply mem_In in M. pose proof (S _ M) as Hv. rewrite <- (IH seen v o S). split.
    + intros D. inversion D; subst; try contradiction. assumption.
    + intros D. now apply dfs_seen.
  - split; intros D.
    + inversion D as [|v' k' ks' o' Hin D'|v' i ks' o' Hn D'|v' q ks' p1 p2 Hn D1 D2]; subst.
      * apply dfs_seen; [exact Hin|]. apply (IH (k :: seen)); [|exact D'].
        intros x [<-|Hx]; [exact Hin | now apply S].
      * apply dfs_in; [exact Hn|]. apply (IH (EIn i :: seen)); [|exact D'].
        intros x [<-|Hx]; [now left | right; now apply S].
      * apply dfs_q; [exact Hn | exact D1 |]. apply (IH (EQ q :: seen)); [|exact D2].
        intros x [<-|Hx]; apply in_app_iff; right; [now left | right; now apply S].
    + inversion D as [|v' k' ks' o' Hin D'|v' i ks' o' Hn D'|v' q ks' p1 p2 Hn D1 D2]; subst.
      * apply dfs_seen; [exact Hin|]. apply (IH (k :: seen)); [|exact D'].
        intros x [<-|Hx]; [exact Hin | now apply S].
      * apply dfs_in; [exact Hn|]. apply (IH (EIn i :: seen)); [|exact D'].
        intros x [<-|Hx]; [now left | right; now apply S].
      * apply dfs_q; [exact Hn | exact D1 |]. apply (IH (EQ q :: seen)); [|exact D2].
        intros x [<-|Hx]; apply in_app_iff; right; [now left | right; now apply S].
Qed.

(* ---------------------------------------------------------------- the stack loop *)
Variable own : qkey -> list val.
Local Notation outs := (outs own).

Fixpoint ploop (n : nat) (stack vis : list edge) (out : list val) : option (list val) :=
  match n with
  | O => None
  | S n' =>
      match stack with
      | [] => Some out
      | k :: st =>
          if mem k vis then ploop n' st vis out
          else match k with
               | EIn _ => ploop n' st (k :: vis) out
               | EQ q => ploop n' (succ q ++ st) (k :: vis) (out ++ own q)
               end
      end
  end.

Theorem ploop_dfs n : forall stack vis out r,
  ploop n stack vis out = Some r -> exists o, dfs vis stack o /\ r = out ++ outs o.
Proof.
  induction n as [|n IH]; intros stack vis out r H; cbn in H; [discriminate|].
  destruct stack as [|k st].
  - injection H as <-. exists []. split; [constructor | cbn; now rewrite app_nil_r].
  - destruct (mem k vis) eqn:M.
    + apply IH in H. destruct H as (o & D & E). exists o. split; [|exact E].
      apply dfs_seen; [now apply mem_In | exact D].
    + apply mem_nIn in M. destruct k as [i|q].
      * apply IH in H. destruct H as (o & D & E). exists (EIn i :: o). split; [now apply dfs_in|].
        cbn. exact E.
      * apply IH in H. destruct H as (o & D & E).
        apply dfs_app_inv in D. destruct D as (o1 & o2 & D1 & D2 & ->).
        exists (EQ q :: o1 ++ o2). split; [now apply dfs_q|].
        cbn. rewrite E. now rewrite <- app_assoc.
Qed.

(* the loop only tests membership in the visited list *)
Lemma ploop_seteq n : forall st v w out r,
  seteq v w -> ploop n st v out = Some r -> ploop n st w out = Some r.
Proof.
  induction n as [|n IHn]; intros st v w out r E H; cbn in *; [discriminate|].
  destruct st as [|k st]; [exact H|].
  assert (Hm : mem k w = mem k v).
  { destruct (mem k v) eqn:A; [apply mem_In, E, mem_In, A|].
    apply mem_nIn. rewrite <- (E k). now apply mem_nIn. }
  rewrite Hm. destruct (mem k v); [eapply IHn; eauto|].
  destruct k; (eapply IHn; [apply seteq_cons, E | exact H]).
Qed.

(* conversely the loop terminates with the recursive order, given enough iterations *)
Theorem dfs_ploop v ks o : dfs v ks o ->
  forall st out, exists n0, forall n r, ploop n st (o ++ v) (out ++ outs o) = Some r ->
    ploop (n0 + n) (ks ++ st) v out = Some r.
Proof.
  induction 1 as [v|v k ks o Hin _ IH|v i ks o Hn _ IH|v q ks o1 o2 Hn _ IH1 _ IH2]; intros st out.
  - exists O. intros n r H. cbn in *. now rewrite app_nil_r in H.
  - destruct (IH st out) as (n0 & Hn0). exists (S n0). intros n r H. cbn.
    apply mem_In in Hin. rewrite Hin. now apply Hn0.
  - destruct (IH st out) as (n0 & Hn0). exists (S n0). intros n r H. cbn.
    apply mem_nIn in Hn. rewrite Hn. apply Hn0.
    change (outs (EIn i :: o)) with (outs o) in H.
    eapply ploop_seteq; [|exact H]. intros k. insolve.
  - destruct (IH2 st (out ++ own q ++ outs o1)) as (n2 & Hn2).
    destruct (IH1 (ks ++ st) (out ++ own q)) as (n1 & Hn1).
    exists (S (n1 + n2)). intros n r H. cbn.
    apply mem_nIn in Hn. rewrite Hn.
    replace (n1 + n2 + n)%nat with (n1 + (n2 + n))%nat by lia.
    apply Hn1. rewrite <- app_assoc. apply Hn2.
    change (outs (EQ q :: o1 ++ o2)) with (own q ++ outs (o1 ++ o2)) in H. rewrite outs_app in H.
    rewrite <- ?app_assoc. rewrite <- ?app_assoc in H. cbn [app] in H.
    eapply ploop_seteq; [|exact H]. intros k. insolve.
Qed.

End Graph.

(* ---------------------------------------------------------------- dead entries *)
Section Dead.
Variable own : qkey -> list val.
Variable dead : edge -> bool.
Hypothesis dead_own : forall q, dead (EQ q) = true -> own q = [].

Definition live (k : edge) : bool := negb (dead k).
Definition alldead (l : list edge) : Prop := Forall (fun k => dead k = true) l.

(* visited sets that agree on live nodes *)
Definition eqv (v w : list edge) : Prop := forall k, dead k = false -> (In k v <-> In k w).

Lemma eqv_refl v : eqv v v. Proof. firstorder. Qed.
Lemma eqv_sym v w : eqv v w -> eqv w v. Proof. firstorder. Qed.
Lemma eqv_trans u v w : eqv u v -> eqv v w -> eqv u w.
Proof. intros A B k Hk. rewrite (A k Hk). now apply B. Qed.
Lemma eqv_cons k v w : eqv v w -> eqv (k :: v) (k :: w).
Proof. intros E x Hx. cbn. rewrite (E x Hx). tauto. Qed.
Lemma eqv_dead_app o v : alldead o -> eqv (o ++ v) v.
Proof.
  intros A k Hk. rewrite in_app_iff. split; [|tauto]. intros [H|H]; [|exact H].
  unfold alldead in A. rewrite Forall_forall in A. apply A in H. congruence.
Qed.
Lemma eqv_app o v w : eqv v w -> eqv (o ++ v) (o ++ w).
Proof. intros E x Hx. rewrite !in_app_iff. rewrite (E x Hx). tauto. Qed.

Lemma outs_alldead o : alldead o -> outs own o = [].
Proof.
  induction 1 as [|k o Hk _ IH]; [reflexivity|]. cbn. unfold outs in IH. rewrite IH.
  destruct k as [i|q]; cbn; [reflexivity|]. now rewrite (dead_own q Hk).
Qed.

Lemma filter_live_alldead l : alldead l -> filter live l = [].
Proof.
  induction 1 as [|k l Hk _ IH]; [reflexivity|]. cbn. unfold live at 1. rewrite Hk. exact IH.
Qed.

Lemma filter_live_nil_alldead l : filter live l = [] -> alldead l.
Proof.
  induction l as [|k l IH]; intros H; [constructor|]. cbn in H. unfold live at 1 in H.
  destruct (dead k) eqn:D; cbn in H; [|discriminate]. constructor; [exact D | now apply IH].
Qed.

Lemma filter_live_cons_inv l : forall k t, filter live l = k :: t ->
  exists ds l', l = ds ++ k :: l' /\ alldead ds /\ dead k = false /\ filter live l' = t.
Proof.
  induction l as [|x l IH]; intros k t H; [discriminate|]. cbn in H. unfold live at 1 in H.
  destruct (dead x) eqn:D; cbn in H.
  - destruct (IH _ _ H) as (ds & l' & -> & A & B & C).
    exists (x :: ds), l'. repeat split; [constructor; assumption | exact B | exact C].
  - injection H as <- H. exists [], l. repeat split; [constructor | exact D | exact H].
Qed.

Section OneGraph.
Variable succ : qkey -> list edge.
Hypothesis dead_closed : forall q, dead (EQ q) = true -> alldead (succ q).

(* visiting dead roots collects nothing and first-visits only dead nodes *)
Lemma dfs_alldead v ks o : dfs succ v ks o -> alldead ks -> alldead o.
Proof.
  induction 1 as [v|v k ks o Hin _ IH|v i ks o Hn _ IH|v q ks o1 o2 Hn _ IH1 _ IH2]; intros A.
  - constructor.
  - inversion A; subst. now apply IH.
  - inversion A; subst. constructor; [assumption | now apply IH].
  - inversion A as [|? ? Hq A']; subst. constructor; [exact Hq|].
    apply Forall_app. split; [apply IH1, dead_closed, Hq | now apply IH2].
Qed.

Lemma dfs_dead_prefix ds : alldead ds -> forall v rest o, dfs succ v (ds ++ rest) o ->
  exists pd p, dfs succ (pd ++ v) rest p /\ o = pd ++ p /\ alldead pd.
Proof.
  intros A v rest o D. apply dfs_app_inv in D. destruct D as (o1 & o2 & D1 & D2 & ->).
  exists o1, o2. split; [exact D2|]. split; [reflexivity|]. exact (dfs_alldead _ _ _ D1 A).
Qed.
End OneGraph.

Variable succ1 succ2 : qkey -> list edge.
Hypothesis dead_closed1 : forall q, dead (EQ q) = true -> alldead (succ1 q).
Hypothesis dead_closed2 : forall q, dead (EQ q) = true -> alldead (succ2 q).
Hypothesis same_live : forall q, dead (EQ q) = false -> filter live (succ1 q) = filter live (succ2 q).

Lemma alldead_notin l x : alldead l -> dead x = false -> ~ In x l.
Proof.
  intros A Hx H. unfold alldead in A. rewrite Forall_forall in A. apply A in H. congruence.
Qed.

(* the main lemma: same live roots, visited sets agreeing on live nodes: same values *)
Theorem dfs_dead v ks o : dfs succ1 v ks o ->
  forall w ks2 p, eqv v w -> filter live ks = filter live ks2 -> dfs succ2 w ks2 p ->
    outs own o = outs own p /\ eqv (o ++ v) (p ++ w).
Proof.
  induction 1 as [v|v k ks o Hin _ IH|v i ks o Hn _ IH|v q ks o1 o2 Hn D1 IH1 D2 IH2];
    intros w ks2 p E F D.
  - (* no roots left on side 1: side 2 has only dead roots *)
    cbn in F. symmetry in F. apply filter_live_nil_alldead in F.
    pose proof (dfs_alldead succ2 dead_closed2 _ _ _ D F) as A.
    cbn. rewrite (outs_alldead _ A). split; [reflexivity|].
    intros x Hx. pose proof (alldead_notin _ x A Hx) as NA. specialize (E x Hx). clear - NA E. norm_in. tauto.
  - (* root already visited on side 1 *)
    cbn in F. unfold live at 1 in F. destruct (dead k) eqn:Dk; cbn in F.
    + now apply (IH w ks2 p).
    + symmetry in F. destruct (filter_live_cons_inv _ _ _ F) as (ds & l' & -> & A & _ & F').
      destruct (dfs_dead_prefix succ2 dead_closed2 ds A _ _ _ D) as (pd & p' & D' & -> & Apd).
      assert (Hw : In k (pd ++ w)) by (apply in_app_iff; right; now apply (E k Dk)).
      inversion D' as [|? ? ? ? _ D''| |]; subst; try contradiction.
      destruct (IH (pd ++ w) l' p') as (O & V); [|now symmetry|exact D''|].
      { intros x Hx. pose proof (alldead_notin _ x Apd Hx) as NA. specialize (E x Hx). clear - NA E. norm_in. tauto. }
      rewrite outs_app, (outs_alldead _ Apd). cbn. split; [exact O|].
      intros x Hx. specialize (V x Hx). clear - V. norm_in. tauto.
  - (* an input field: contributes nothing on either side *)
    cbn in F. unfold live at 1 in F. destruct (dead (EIn i)) eqn:Dk; cbn in F.
    + destruct (IH w ks2 p) as (O & V); [|exact F|exact D|].
      { intros x Hx. specialize (E x Hx). clear - E Hx Dk. norm_in. split; [|tauto]. intros [<-|H]; [congruence|tauto]. }
      split; [exact O|]. intros x Hx. specialize (V x Hx). clear - V. norm_in. tauto.
    + symmetry in F. destruct (filter_live_cons_inv _ _ _ F) as (ds & l' & -> & A & _ & F').
      destruct (dfs_dead_prefix succ2 dead_closed2 ds A _ _ _ D) as (pd & p' & D' & -> & Apd).
      assert (Hw : ~ In (EIn i) (pd ++ w)).
      { pose proof (alldead_notin _ _ Apd Dk) as NA. specialize (E _ Dk). clear - NA E Hn. norm_in. tauto. }
      inversion D' as [| |? ? ? p'' _ D''|]; subst; try contradiction.
      destruct (IH (EIn i :: pd ++ w) l' p'') as (O & V); [|now symmetry|exact D''|].
      { intros x Hx. pose proof (alldead_notin _ x Apd Hx) as NA. specialize (E x Hx). clear - NA E. norm_in. tauto. }
      rewrite outs_app, (outs_alldead _ Apd). split; [exact O|].
      intros x Hx. specialize (V x Hx).
      assert (L : In x ((EIn i :: o) ++ v) <-> In x (o ++ EIn i :: v)) by (clear; norm_in; tauto).
      assert (R : In x ((pd ++ EIn i :: p'') ++ w) <-> In x (p'' ++ EIn i :: pd ++ w)) by (clear; norm_in; tauto).
      rewrite L, R. exact V.
  - (* a tracked function *)
    cbn in F. unfold live at 1 in F. destruct (dead (EQ q)) eqn:Dk; cbn in F.
    + (* dead: its whole sub-tree is dead *)
      pose proof (dfs_alldead succ1 dead_closed1 _ _ _ D1 (dead_closed1 q Dk)) as A1.
      destruct (IH2 w ks2 p) as (O & V); [|exact F|exact D|].
      { intros x Hx. pose proof (alldead_notin _ x A1 Hx) as NA. specialize (E x Hx). clear - NA E Hx Dk. norm_in.
        split; [|tauto]. intros [H0|[<-|H0]]; [tauto|congruence|tauto]. }
      change (outs own (EQ q :: o1 ++ o2)) with (own q ++ outs own (o1 ++ o2)).
      rewrite outs_app, (outs_alldead _ A1), (dead_own q Dk). cbn. split; [exact O|].
      intros x Hx. specialize (V x Hx). clear - V. norm_in. tauto.
    + symmetry in F. destruct (filter_live_cons_inv _ _ _ F) as (ds & l' & -> & A & _ & F').
      destruct (dfs_dead_prefix succ2 dead_closed2 ds A _ _ _ D) as (pd & p' & D' & -> & Apd).
      assert (Hw : ~ In (EQ q) (pd ++ w)).
      { pose proof (alldead_notin _ _ Apd Dk) as NA. specialize (E _ Dk). clear - NA E Hn. norm_in. tauto. }
      inversion D' as [| | |? ? ? p1 p2 _ D1' D2']; subst; try contradiction.
      destruct (IH1 (EQ q :: pd ++ w) (succ2 q) p1) as (O1 & V1); [|now apply same_live|exact D1'|].
      { intros x Hx. pose proof (alldead_notin _ x Apd Hx) as NA. specialize (E x Hx). clear - NA E. norm_in. tauto. }
      destruct (IH2 (p1 ++ EQ q :: pd ++ w) l' p2) as (O2 & V2); [exact V1|now symmetry|exact D2'|].
      change (outs own (EQ q :: o1 ++ o2)) with (own q ++ outs own (o1 ++ o2)).
      rewrite !outs_app, (outs_alldead _ Apd).
      change (outs own (EQ q :: p1 ++ p2)) with (own q ++ outs own (p1 ++ p2)).
      rewrite !outs_app. rewrite O1, O2. split; [reflexivity|].
      intros x Hx. specialize (V2 x Hx).
      assert (L : In x ((EQ q :: o1 ++ o2) ++ v) <-> In x (o2 ++ o1 ++ EQ q :: v)) by (clear; norm_in; tauto).
      assert (R : In x ((pd ++ EQ q :: p1 ++ p2) ++ w) <-> In x (p2 ++ p1 ++ EQ q :: pd ++ w))
        by (clear; norm_in; tauto).
      rewrite L, R. exact V2.
Qed.

End Dead.

(* every node is visited once, only if new, the roots and all successors of visited nodes end
   up visited, and nothing unreachable from the roots is visited *)
Theorem dfs_each_once succ v ks o : dfs succ v ks o ->
  NoDup o /\ (forall k, In k o -> ~ In k v) /\
  (forall k, In k ks -> In k (o ++ v)) /\
  (forall q c, In (EQ q) o -> In c (succ q) -> In c (o ++ v)) /\
  (forall k, In k o -> exists r, In r ks /\ reach succ r k).
Proof.
  intros D. split; [eapply dfs_nodup; eauto|]. split; [eapply dfs_new; eauto|].
  split; [eapply dfs_roots; eauto|]. split; [eapply dfs_closed; eauto | eapply dfs_reach; eauto].
Qed.

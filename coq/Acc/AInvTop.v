(* Acc/AInvTop.v — the Acc invariant across API operations (new revisions, writes that report
   the OLD durability, synthetic writes, eviction, reads).  Port of Core/InvTop.v (eviction
   facts) and Core/DInvTop.v to Acc/Model.v. *)
From Salsa Require Import Base.
From Salsa.Kern Require Import CoreK CoreKFacts.
From Salsa.Core Require DurSem.
From Salsa.Acc Require Import Model Spec ProofsDfs ProofsSpec AInvBase ADurSem AInv AInvSem AInvOps.

(* ---------------------------------------------------------------- histories *)
Definition extend (H : hist) (c : rev) (sn : snapshot) : hist :=
  fun r => if r =? c then sn else H r.

Lemma extend_same H c sn : extend H c sn c = sn.
Proof. unfold extend. rewrite N.eqb_refl. reflexivity. Qed.

Lemma extend_other H c sn r : r <> c -> extend H c sn r = H r.
Proof. unfold extend. intros Hne. apply N.eqb_neq in Hne. rewrite Hne. reflexivity. Qed.

(* ---------------------------------------------------------------- eviction only forgets values *)
Definition evicted_from (mm mm' : qkey -> option memo) : Prop :=
  forall q, mm' q = mm q \/ exists m, mm q = Some m /\ mm' q = Some (evict_memo m).

Lemma evict_memo_idem m : evict_memo (evict_memo m) = evict_memo m.
Proof. unfold evict_memo. destruct (m_untracked m) eqn:Hu; [rewrite Hu; reflexivity | reflexivity]. Qed.

Lemma evicted_refl mm : evicted_from mm mm.
Proof. intros q; left; reflexivity. Qed.

Lemma evicted_trans a b c : evicted_from a b -> evicted_from b c -> evicted_from a c.
Proof.
  intros Hab Hbc q. destruct (Hab q) as [Hq | (m & Hm & Hq)], (Hbc q) as [Hq' | (m' & Hm' & Hq')].
  - left; congruence.
  - right. exists m'. split; congruence.
  - right. exists m. split; congruence.
  - right. exists m. split; [exact Hm|]. rewrite Hq', Hq in *. injection Hm' as <-.
    rewrite evict_memo_idem. reflexivity.
Qed.

Lemma evict_keys_evicted fam ks : forall mm, evicted_from mm (evict_keys fam ks mm).
Proof.
  unfold evict_keys. induction ks as [|k ks IH]; intros mm; cbn [fold_left].
  - apply evicted_refl.
  - eapply evicted_trans; [|apply IH].
    intros q. destruct (mm (fam, k)) as [m|] eqn:Hm; [|left; reflexivity].
    unfold upd. destruct (key_eqb_spec (fam, k) q) as [<- | Hne]; [|left; reflexivity].
    right. exists m. split; [exact Hm | reflexivity].
Qed.

Record same_but_memos (s s' : db) : Prop := {
  sb_revs : d_revs s' = d_revs s;
  sb_in : d_in s' = d_in s;
  sb_cell : d_cell s' = d_cell s;
  sb_stack : d_stack s' = d_stack s;
  sb_memo : evicted_from (d_memo s) (d_memo s')
}.

Lemma sbm_refl s : same_but_memos s s.
Proof. constructor; auto using evicted_refl. Qed.

Lemma sbm_trans a b c : same_but_memos a b -> same_but_memos b c -> same_but_memos a c.
Proof.
  intros [a1 a2 a3 a4 a5] [b1 b2 b3 b4 b5]. constructor; try congruence.
  eapply evicted_trans; eassumption.
Qed.

Lemma evict_all_sbm : forall fs s, same_but_memos s (evict_all fs s).
Proof.
  unfold evict_all. induction fs as [|f fs IH]; intros s; cbn [fold_left].
  - apply sbm_refl.
  - eapply sbm_trans; [|apply IH].
    destruct (lru_evict (d_lru s f)) as [ev l'].
    constructor; try reflexivity. cbn. apply evict_keys_evicted.
Qed.

Section Top.
Variable persist : bool.
Variable prog : qkey -> body.
Variable noeq : qkey -> bool.
Variable fams : list N.
Variable rank : qkey -> nat.
Hypothesis Hrank : calls_below prog rank.
Variable NF : nat.
Hypothesis Hbound : forall q, (rank q < NF)%nat.
Notation E := (E prog NF).
Notation tr := (tr prog NF).
Notation psh := (psh prog NF).
Notation durge := (ADurSem.durge prog NF).
Notation clos := (clos prog NF).
Notation deadq := (deadq prog NF).
Notation amemo_ok := (amemo_ok prog NF).
Notation AInv := (AInv prog NF).
Notation obs_pre := (obs_pre prog NF).
Notation rmok := (rmok prog NF).

(* ---------------------------------------------------------------- durability histories *)
Definition extendD (D : dhist) (c : rev) (f : ikey -> dur) : dhist :=
  fun r => if r =? c then f else D r.

Lemma extendD_same D c f : extendD D c f c = f.
Proof. unfold extendD. rewrite N.eqb_refl. reflexivity. Qed.

Lemma extendD_other D c f r : r <> c -> extendD D c f r = D r.
Proof. unfold extendD. intros Hne. apply N.eqb_neq in Hne. rewrite Hne. reflexivity. Qed.

Definition durs_of (s : db) : ikey -> dur := fun i => f_dur (d_in s i).

(* ---------------------------------------------------------------- eviction keeps everything but values *)
Definition memo_sim (m m' : memo) : Prop :=
  m_verified m' = m_verified m /\ m_changed m' = m_changed m /\ m_dur m' = m_dur m /\
  m_untracked m' = m_untracked m /\ m_edges m' = m_edges m /\
  m_acc m' = m_acc m /\ m_accin m' = m_accin m /\
  (forall x, m_val m' = Some x -> m_val m = Some x).

Lemma memo_sim_refl m : memo_sim m m.
Proof. repeat split; auto. Qed.

Lemma memo_sim_evict m : memo_sim m (evict_memo m).
Proof.
  unfold evict_memo. destruct (m_untracked m) eqn:Hu; [apply memo_sim_refl|].
  repeat split; cbn; auto. discriminate.
Qed.

Lemma evicted_fwd mm mm' q m : evicted_from mm mm' -> mm q = Some m ->
  exists m', mm' q = Some m' /\ memo_sim m m'.
Proof.
  intros Hev Hm. destruct (Hev q) as [Heq | (m0 & Hm0 & Heq)].
  - exists m. split; [congruence | apply memo_sim_refl].
  - rewrite Hm in Hm0. injection Hm0 as <-. exists (evict_memo m). split; [exact Heq | apply memo_sim_evict].
Qed.

Lemma evicted_bwd mm mm' q m' : evicted_from mm mm' -> mm' q = Some m' ->
  exists m, mm q = Some m /\ memo_sim m m'.
Proof.
  intros Hev Hm'. destruct (Hev q) as [Heq | (m0 & Hm0 & Heq)].
  - exists m'. split; [congruence | apply memo_sim_refl].
  - rewrite Heq in Hm'. injection Hm' as <-. exists m0. split; [exact Hm0 | apply memo_sim_evict].
Qed.

(* ---------------------------------------------------------------- the invariant modulo cells *)
Definition AInv_d (H : hist) (D : dhist) (s : db) : Prop :=
  AInv H D (set_cell s (sn_cell (H (cur s)))).

(* The general transfer lemma: from (dirty) s under (H, D) to s' under (H', D'). *)
Lemma AInv_transfer H D H' D' s s' :
  AInv_d H D s ->
  cur s <= cur s' -> 1 <= cur s' -> revs_ok (d_revs s') ->
  (forall k, lcs s k <= lcs s' k) ->
  evicted_from (d_memo s) (d_memo s') ->
  (forall i, f_changed (d_in s i) <= f_changed (d_in s' i)) ->
  (* the past is kept wherever a memo was verified *)
  (forall q m, d_memo s q = Some m ->
     H' (m_verified m) = H (m_verified m) /\ forall i, D' (m_verified m) i = D (m_verified m) i) ->
  (forall i r, f_changed (d_in s' i) <= r -> r <= cur s' -> sn_in (H' r) i = f_val (d_in s' i)) ->
  (forall i r, f_changed (d_in s' i) <= r -> r <= cur s' -> D' r i = f_dur (d_in s' i)) ->
  (forall i, f_changed (d_in s' i) <= cur s') ->
  (forall c, sn_cell (H' (cur s')) c = d_cell s' c) ->
  (forall r i, D' r i <= 3) ->
  (forall r i, r < cur s' -> lcs s' (D' r i) <= r ->
     sn_in (H' (r + 1)) i = sn_in (H' r) i /\ D' (r + 1) i = D' r i) ->
  AInv H' D' s'.
Proof.
  intros HI Hc H1 Hrv Hlc Hev Hfc Hpast Hin Hdur Hinle Hcell Hd3 Hwr.
  unfold AInv_d in HI. destruct HI as [a a' b b' c d e f g].
  change (cur (set_cell s _)) with (cur s) in *.
  change (d_memo (set_cell s _)) with (d_memo s) in *.
  assert (Hok : forall q m m', d_memo s q = Some m -> memo_sim m m' -> amemo_ok H' D' s' q m').
  { intros q m m' Hm (S1 & S2 & S3 & S4 & S5 & S7 & S8 & S6). specialize (g q m Hm).
    destruct g as [a0 b0 c0 d0 e0 f0 g0 h0 i0 k0 k1 k2 k3 j0].
    destruct (Hpast q m Hm) as [HHv HDv].
    assert (Hdg : forall k x, durge H D (m_verified m) k x -> durge H' D' (m_verified m) k x).
    { intros k x. apply (durge_hist_eq prog NF H D H' D'); assumption. }
    assert (Hdg' : forall k x, durge H' D' (m_verified m) k x -> durge H D (m_verified m) k x).
    { intros k x. apply (durge_hist_eq prog NF H' D' H D); [symmetry; exact HHv | intros i; symmetry; apply HDv]. }
    constructor; rewrite ?S1, ?S2, ?S3, ?S4, ?S5, ?S7, ?S8, ?(tr_hist_eq prog NF H H' _ q HHv), ?(psh_hist_eq prog NF H H' _ q HHv); auto.
    - change (cur (set_cell s _)) with (cur s) in a0. lia.
    - intros x Hx. rewrite (E_hist_eq prog NF H H' _ q HHv). apply b0. apply S6; exact Hx.
    - intros i Hi. rewrite HDv. apply c0; exact Hi.
    - intros d1 Hd1. destruct (d0 d1 Hd1) as [A | A]; [left; exact A | right; apply Hdg; exact A].
    - destruct k0 as [A | (x & Hx & Hs)]; [left; exact A | right].
      exists x. split; [exact Hx|]. destruct x as [i1 | d1 | c1 |]; cbn in *; try exact Hs.
      + change (d_in (set_cell s _) i1) with (d_in s i1) in Hs. specialize (Hfc i1). lia.
      + destruct Hs as (md & Hmd & Hle).
        change (d_memo (set_cell s _) d1) with (d_memo s d1) in Hmd.
        destruct (evicted_fwd _ _ d1 md Hev Hmd) as (md' & Hmd' & (_ & T2 & _)).
        exists md'. split; [exact Hmd' | lia].
    - intros Hai d1 Hd1. apply (deadq_hist_eq prog NF H H'); [exact HHv | apply k2; assumption].
    - apply (sub_rm_mono (rmok H D (m_verified m))); [|exact k3].
      intros x Hx. destruct x as [i1 | d1]; cbn in *.
      + rewrite HDv. exact Hx.
      + destruct Hx as [A B]. split; [apply Hdg; exact A | apply (deadq_hist_eq prog NF H H'); assumption].
    - intros d1 Hd1. apply (clos_hist_eq prog NF H' H) in Hd1; [|symmetry; exact HHv].
      destruct (j0 d1 Hd1) as (md & Hmd & Hobs).
      change (d_memo (set_cell s _) d1) with (d_memo s d1) in Hmd.
      destruct (evicted_fwd _ _ d1 md Hev Hmd) as (md' & Hmd' & (T1 & T2 & T3 & _)).
      exists md'. split; [exact Hmd'|].
      intros Hp. rewrite T1, T3.
      destruct (Hpast d1 md Hmd) as [HHd _].
      rewrite (E_hist_eq prog NF H H' _ d1 HHv), (E_hist_eq prog NF H H' _ d1 HHd).
      apply Hobs. destruct Hp as [Hp | (k & Hk & Hlk)].
      + left. rewrite <- T2. exact Hp.
      + right. exists k. split; [apply Hdg'; exact Hk|].
        change (lcs (set_cell s _) k) with (lcs s k). specialize (Hlc k). lia. }
  constructor; auto.
  intros q m' Hm'. destruct (evicted_bwd _ _ q m' Hev Hm') as (m & Hm & Hsim).
  apply (Hok q m m' Hm Hsim).
Qed.

Lemma AInv_to_d H D s : AInv H D s -> AInv_d H D s.
Proof.
  intros [a a' b b' c d e f g]. unfold AInv_d. constructor; auto.
  intros q m Hm. specialize (g q m Hm). destruct g as [a0 b0 c0 d0 e0 f0 g0 h0 i0 k0 k1 k2 k3 j0].
  constructor; auto.
Qed.

Lemma AInv_d_facts H D s : AInv_d H D s ->
  1 <= cur s /\ revs_ok (d_revs s) /\
  (forall q m, d_memo s q = Some m -> m_verified m <= cur s) /\
  (forall i r, f_changed (d_in s i) <= r -> r <= cur s -> sn_in (H r) i = f_val (d_in s i)) /\
  (forall i r, f_changed (d_in s i) <= r -> r <= cur s -> D r i = f_dur (d_in s i)) /\
  (forall i, f_changed (d_in s i) <= cur s) /\ (forall r i, D r i <= 3) /\
  (forall r i, r < cur s -> lcs s (D r i) <= r ->
     sn_in (H (r + 1)) i = sn_in (H r) i /\ D (r + 1) i = D r i).
Proof.
  unfold AInv_d. intros [a a' b b' c d e f g].
  split; [exact a|]. split; [exact a'|]. split.
  - intros q m Hm. pose proof (mo_order _ _ _ _ _ _ _ (g q m Hm)) as (_ & _ & Hv). exact Hv.
  - split; [exact b|]. split; [exact b'|]. split; [exact c|]. split; [exact e | exact f].
Qed.

(* ---------------------------------------------------------------- "ok" states *)
Definition OK (s : db) : Prop := exists H D, AInv H D s.
Definition OK_d (s : db) : Prop := exists H D, AInv_d H D s.

Lemma OK_to_d s : OK s -> OK_d s.
Proof. intros (H & D & HI). exists H, D. apply AInv_to_d; exact HI. Qed.

Lemma AInv_snap H D s : AInv H D s -> snap_eq (H (cur s)) (snap_of s).
Proof.
  intros HI. split; cbn.
  - intros i. apply (inv_in _ _ _ _ _ HI); [apply (inv_in_le _ _ _ _ _ HI) | lia].
  - apply (inv_cell _ _ _ _ _ HI).
Qed.

(* changes that keep the revision vector, the inputs and (up to eviction) the memos *)
Lemma OK_d_same s s' :
  OK_d s -> d_revs s' = d_revs s -> d_in s' = d_in s ->
  evicted_from (d_memo s) (d_memo s') -> OK_d s'.
Proof.
  intros (H & D & HI) Hr Hi Hev. exists H, D.
  destruct (AInv_d_facts H D s HI) as (F1 & F2 & F3 & F4 & F5 & F6 & F7 & F8).
  assert (Hc : cur s' = cur s) by (unfold cur; rewrite Hr; reflexivity).
  unfold AInv_d.
  apply (AInv_transfer H D H D s (set_cell s' (sn_cell (H (cur s'))))); auto;
    change (cur (set_cell s' _)) with (cur s'); change (d_in (set_cell s' _)) with (d_in s');
    change (d_revs (set_cell s' _)) with (d_revs s'); rewrite ?Hc, ?Hi, ?Hr; auto; try lia.
  - intros k. unfold lcs. cbn. rewrite Hr. lia.
  - intros r i Hlt Hl. apply F8; [exact Hlt|]. unfold lcs in *. cbn in Hl. rewrite Hr in Hl. exact Hl.
Qed.

Lemma OK_same s s' :
  OK s -> d_revs s' = d_revs s -> d_in s' = d_in s -> d_cell s' = d_cell s ->
  evicted_from (d_memo s) (d_memo s') -> OK s'.
Proof.
  intros (H & D & HI) Hr Hi Hce Hev. exists H, D.
  destruct (AInv_d_facts H D s (AInv_to_d H D s HI)) as (F1 & F2 & F3 & F4 & F5 & F6 & F7 & F8).
  assert (Hc : cur s' = cur s) by (unfold cur; rewrite Hr; reflexivity).
  apply (AInv_transfer H D H D s s'); rewrite ?Hc, ?Hi, ?Hr; auto; try lia.
  - apply AInv_to_d; exact HI.
  - intros k. unfold lcs. rewrite Hr. lia.
  - rewrite Hce. apply (inv_cell _ _ _ _ _ HI).
  - intros r i Hlt Hl. apply F8; [exact Hlt|]. unfold lcs in *. rewrite Hr in Hl. exact Hl.
Qed.

(* a state in which nothing has been verified at the current revision yet *)
Definition fresh (s : db) : Prop :=
  forall q m, d_memo s q = Some m -> m_verified m < cur s.

(* starting a new revision: the current-revision slot moves, nothing else *)
Lemma OK_advance s s' :
  OK_d s ->
  d_revs s' = {| r_cur := r_cur (d_revs s) + 1; r_med := r_med (d_revs s); r_high := r_high (d_revs s) |} ->
  d_in s' = d_in s ->
  evicted_from (d_memo s) (d_memo s') ->
  OK s' /\ fresh s'.
Proof.
  intros (H & D & HI) Hr Hi Hev.
  destruct (AInv_d_facts H D s HI) as (F1 & F2 & F3 & F4 & F5 & F6 & F7 & F8).
  assert (Hc : cur s' = cur s + 1) by (unfold cur; rewrite Hr; reflexivity).
  assert (Hlc : forall k, lcs s k <= lcs s' k).
  { intros k. unfold lcs. rewrite Hr.
    destruct (DurSem.lc_cases (d_revs s) k) as [[-> ->] | [[-> ->] | [[-> ->] | [Hk ->]]]]; cbn; try lia.
    rewrite DurSem.lc_never by exact Hk. lia. }
  split.
  - exists (extend H (cur s') (snap_of s')), (extendD D (cur s') (durs_of s')).
    apply (AInv_transfer H D _ _ s s'); auto; try lia.
    + destruct F2 as (A & B & C). rewrite Hr. unfold revs_ok; cbn. lia.
    + intros i. rewrite Hi. lia.
    + intros q m Hm. specialize (F3 q m Hm).
      split; [apply extend_other; lia | intros i; rewrite extendD_other by lia; reflexivity].
    + intros i r Hle Hrc. destruct (N.eq_dec r (cur s')) as [-> | Hne].
      * rewrite extend_same. reflexivity.
      * rewrite extend_other by exact Hne. rewrite Hi in *. apply F4; lia.
    + intros i r Hle Hrc. destruct (N.eq_dec r (cur s')) as [-> | Hne].
      * rewrite extendD_same. reflexivity.
      * rewrite extendD_other by exact Hne. rewrite Hi in *. apply F5; lia.
    + intros i. rewrite Hi. specialize (F6 i). lia.
    + intros c. rewrite extend_same. reflexivity.
    + intros r i. unfold extendD. destruct (r =? cur s'); [|apply F7].
      unfold durs_of. rewrite Hi. rewrite <- (F5 i (cur s)); [apply F7 | apply F6 | lia].
    + intros r i Hlt Hl.
      destruct (N.eq_dec (r + 1) (cur s')) as [Heq | Hne].
      * assert (r = cur s) by lia. subst r.
        rewrite Heq, extend_same, extendD_same, extend_other, extendD_other by lia.
        unfold durs_of; cbn. rewrite Hi.
        split; symmetry; [apply F4 | apply F5]; try apply F6; lia.
      * rewrite !extend_other, !extendD_other by lia.
        rewrite extendD_other in Hl by lia.
        apply F8; [lia|]. specialize (Hlc (D r i)). lia.
  - intros q m' Hm'. destruct (evicted_bwd _ _ q m' Hev Hm') as (m & Hm & (S1 & _)).
      rewrite S1. specialize (F3 q m Hm). lia.
Qed.

(* a revision-vector change alone (a synthetic write): levels only move forward *)
Lemma OK_revs s s' :
  OK s -> cur s' = cur s -> revs_ok (d_revs s') -> (forall k, lcs s k <= lcs s' k) ->
  d_in s' = d_in s -> d_cell s' = d_cell s -> d_memo s' = d_memo s -> OK s'.
Proof.
  intros (H & D & HI) Hc Hrv Hlc Hi Hce Hm. exists H, D.
  destruct (AInv_d_facts H D s (AInv_to_d H D s HI)) as (F1 & F2 & F3 & F4 & F5 & F6 & F7 & F8).
  apply (AInv_transfer H D H D s s'); rewrite ?Hc, ?Hi; auto; try lia.
  - apply AInv_to_d; exact HI.
  - rewrite Hm. apply evicted_refl.
  - rewrite Hce. apply (inv_cell _ _ _ _ _ HI).
  - intros r i Hlt Hl. apply F8; [exact Hlt|]. specialize (Hlc (D r i)). lia.
Qed.

(* the write rule: rewriting ONE input inside a fresh revision, reporting its OLD durability *)
Lemma OK_write s i v nd :
  OK s -> fresh s -> f_dur (d_in s i) <> 3 -> nd <= 3 ->
  let od := f_dur (d_in s i) in
  let r1 := if od =? D_LOW then d_revs s else report_write (d_revs s) od in
  let f' := {| f_val := v; f_changed := cur s; f_dur := nd |} in
  OK (set_in (set_revs s r1) (upd (d_in s) i f')).
Proof.
  intros (H & D & HI) Hfresh Hod Hnd od r1 f'.
  set (s' := set_in (set_revs s r1) (upd (d_in s) i f')).
  destruct (AInv_d_facts H D s (AInv_to_d H D s HI)) as (F1 & F2 & F3 & F4 & F5 & F6 & F7 & F8).
  assert (Hod3 : od < 3).
  { unfold od. pose proof (F7 (cur s) i) as A. rewrite (F5 i (cur s)) in A; [lia | apply F6 | lia]. }
  assert (Hcur_r1 : r_cur r1 = r_cur (d_revs s)).
  { unfold r1. destruct (od =? D_LOW); reflexivity. }
  assert (Hc : cur s' = cur s) by (unfold cur, s'; cbn; exact Hcur_r1).
  assert (Hrv : revs_ok r1).
  { unfold r1. destruct (od =? D_LOW); [exact F2 | apply DurSem.revs_ok_report_write; exact F2]. }
  assert (Hlc : forall k, lcs s k <= lcs s' k).
  { intros k. unfold lcs, s'; cbn. unfold r1. destruct (od =? D_LOW); [lia|].
    apply DurSem.lc_report_write_ge; exact F2. }
  assert (Hlc_od : forall k, k <= od -> lcs s' k = cur s).
  { intros k Hk. unfold lcs, s'; cbn. unfold r1.
    destruct (N.eqb_spec od D_LOW) as [H0 | H0].
    - unfold D_LOW in H0. replace k with 0 by lia. apply DurSem.lc_zero.
    - rewrite DurSem.lc_report_write.
      destruct (N.eqb_spec k 0) as [-> | Hk0]; [reflexivity|].
      destruct (N.leb_spec k od) as [_ | Hx]; [|lia].
      destruct (N.ltb_spec k 3) as [_ | Hx]; [|lia]. reflexivity. }
  assert (Hin' : forall j, j <> i -> d_in s' j = d_in s j).
  { intros j Hj. unfold s'; cbn. apply upd_other. congruence. }
  assert (Hin_i : d_in s' i = f') by (unfold s'; cbn; apply upd_same).
  exists (extend H (cur s') (snap_of s')), (extendD D (cur s') (durs_of s')).
  apply (AInv_transfer H D _ _ s s'); auto; try lia.
  - apply AInv_to_d; exact HI.
  - apply evicted_refl.
  - intros j. destruct (key_eqb_spec j i) as [-> | Hji].
    + rewrite Hin_i. cbn. apply F6.
    + rewrite (Hin' j Hji). lia.
  - intros q m Hm. specialize (Hfresh q m Hm).
    split; [apply extend_other; lia | intros j; rewrite extendD_other by lia; reflexivity].
  - intros j r Hle Hrc. destruct (N.eq_dec r (cur s')) as [-> | Hne].
    + rewrite extend_same. reflexivity.
    + rewrite extend_other by exact Hne.
      destruct (key_eqb_spec j i) as [-> | Hji].
      * rewrite Hin_i in Hle. cbn in Hle. lia.
      * rewrite (Hin' j Hji) in *. apply F4; lia.
  - intros j r Hle Hrc. destruct (N.eq_dec r (cur s')) as [-> | Hne].
    + rewrite extendD_same. reflexivity.
    + rewrite extendD_other by exact Hne.
      destruct (key_eqb_spec j i) as [-> | Hji].
      * rewrite Hin_i in Hle. cbn in Hle. lia.
      * rewrite (Hin' j Hji) in *. apply F5; lia.
  - intros j. destruct (key_eqb_spec j i) as [-> | Hji].
    + rewrite Hin_i. cbn. lia.
    + rewrite (Hin' j Hji). specialize (F6 j). lia.
  - intros c. rewrite extend_same. reflexivity.
  - intros r j. unfold extendD. destruct (r =? cur s'); [|apply F7].
    unfold durs_of. destruct (key_eqb_spec j i) as [-> | Hji].
    + rewrite Hin_i. cbn. exact Hnd.
    + rewrite (Hin' j Hji). rewrite <- (F5 j (cur s)); [apply F7 | apply F6 | lia].
  - intros r j Hlt Hl.
    destruct (N.eq_dec (r + 1) (cur s')) as [Heq | Hne].
    + (* the step into the rewritten revision *)
      rewrite extendD_other in Hl by lia.
      rewrite Heq, extend_same, extendD_same, extend_other, extendD_other by lia.
      assert (Hr1 : r + 1 = cur s) by lia.
      destruct (key_eqb_spec j i) as [-> | Hji].
      * exfalso.
        destruct (N.le_gt_cases (lcs s (D r i)) r) as [Hold | Hold].
        -- destruct (F8 r i) as [_ B]; [lia | exact Hold|].
           rewrite Hr1 in B. rewrite (F5 i (cur s)) in B; [|apply F6 | lia].
           fold od in B. rewrite <- B in Hl. rewrite Hlc_od in Hl by lia. lia.
        -- specialize (Hlc (D r i)). lia.
      * unfold durs_of, snap_of. cbn [sn_in]. rewrite !(Hin' j Hji).
        destruct (F8 r j) as [A B]; [lia | specialize (Hlc (D r j)); lia|].
        rewrite Hr1 in A, B.
        rewrite <- A, <- B. split; symmetry; [apply F4 | apply F5]; try apply F6; lia.
    + rewrite !extend_other, !extendD_other by lia.
      rewrite extendD_other in Hl by lia.
      apply F8; [lia|]. specialize (Hlc (D r j)). lia.
Qed.

(* ---------------------------------------------------------------- operations *)
Lemma new_revision_facts s :
  d_revs (new_revision fams s) =
    {| r_cur := r_cur (d_revs s) + 1; r_med := r_med (d_revs s); r_high := r_high (d_revs s) |} /\
  d_in (new_revision fams s) = d_in s /\ d_cell (new_revision fams s) = d_cell s /\
  d_stack (new_revision fams s) = d_stack s /\
  evicted_from (d_memo s) (d_memo (new_revision fams s)).
Proof.
  unfold new_revision. set (s1 := set_ccount _ 0).
  destruct (evict_all_sbm fams s1) as [a b c d e].
  rewrite a, b, c, d. repeat split; auto.
Qed.

Lemma OK_d_new_revision s : OK_d s -> OK (new_revision fams s) /\ fresh (new_revision fams s).
Proof.
  intros Hok. destruct (new_revision_facts s) as (A & B & _ & _ & F).
  apply (OK_advance s); auto.
Qed.

Lemma zalsa_mut_stack s : d_stack (zalsa_mut fams s) = d_stack s.
Proof.
  unfold zalsa_mut. destruct (d_ccount s =? 255); [|reflexivity].
  apply (new_revision_facts s).
Qed.

Lemma OK_d_zalsa_mut s : OK_d s -> OK_d (zalsa_mut fams s).
Proof.
  intros Hok. unfold zalsa_mut. destruct (d_ccount s =? 255).
  - apply OK_to_d. apply OK_d_new_revision; exact Hok.
  - apply (OK_d_same s); auto. apply evicted_refl.
Qed.

Lemma OK_zalsa_mut s : OK s -> OK (zalsa_mut fams s).
Proof.
  intros Hok. unfold zalsa_mut. destruct (d_ccount s =? 255).
  - apply OK_d_new_revision. apply OK_to_d; exact Hok.
  - apply (OK_same s); auto. apply evicted_refl.
Qed.

(* the durabilities an operation may install: the four levels *)
Definition dur_op (o : op) : Prop :=
  match o with OSet _ _ (Some d) => d <= 3 | _ => True end.

Definition state_ok (dirty : bool) (s : db) : Prop :=
  (if dirty then OK_d s else OK s) /\ d_stack s = [].

Lemma state_ok_d dirty s : state_ok dirty s -> OK_d s.
Proof. destruct dirty; intros [A _]; [exact A | apply OK_to_d; exact A]. Qed.

(* every operation that is not a read keeps the state ok *)
Lemma step_other_ok fuel afuel dirty s o :
  dur_op o -> state_ok dirty s ->
  match o with
  | OGet _ | OAccumulated _ => True
  | OSetCell _ _ => state_ok true (fst (step persist prog noeq fams fuel afuel s o))
  | OSet _ _ _ | OSynth _ => state_ok false (fst (step persist prog noeq fams fuel afuel s o))
  | _ => state_ok dirty (fst (step persist prog noeq fams fuel afuel s o))
  end.
Proof.
  intros Hdop Hok. pose proof (state_ok_d dirty s Hok) as Hd.
  assert (Hst : d_stack s = []) by (destruct Hok; assumption).
  destruct o as [i v d | d | c v | c v | q | q | fam n |]; cbn [step fst].
  - (* OSet *)
    pose proof (OK_d_zalsa_mut s Hd) as Hz.
    destruct (OK_d_new_revision _ Hz) as [Hn Hfresh].
    set (s1 := new_revision fams (zalsa_mut fams s)) in *.
    assert (Hst1 : d_stack s1 = []).
    { unfold s1. destruct (new_revision_facts (zalsa_mut fams s)) as (_ & _ & _ & E0 & _).
      rewrite E0, zalsa_mut_stack. exact Hst. }
    destruct (f_dur (d_in s1 i) =? D_NEVER) eqn:Hnever; cbn [fst].
    + split; assumption.
    + split; [|exact Hst1].
      apply N.eqb_neq in Hnever. unfold D_NEVER in Hnever.
      assert (Hnd : match d with Some d' => d' | None => f_dur (d_in s1 i) end <= 3).
      { destruct d as [d'|]; [exact Hdop|].
        destruct Hn as (H1 & D1 & HI1).
        rewrite <- (inv_dur _ _ _ _ _ HI1 i (cur s1)); [apply (inv_dur3 _ _ _ _ _ HI1) | apply (inv_in_le _ _ _ _ _ HI1) | lia]. }
      exact (OK_write s1 i v _ Hn Hfresh Hnever Hnd).
  - (* OSynth *)
    pose proof (OK_d_zalsa_mut s Hd) as Hz.
    destruct (OK_d_new_revision _ Hz) as [Hn Hfresh].
    set (s1 := new_revision fams (zalsa_mut fams s)) in *.
    assert (Hst1 : d_stack s1 = []).
    { unfold s1. destruct (new_revision_facts (zalsa_mut fams s)) as (_ & _ & _ & E0 & _).
      rewrite E0, zalsa_mut_stack. exact Hst. }
    destruct (d =? D_NEVER); cbn [fst].
    + split; assumption.
    + split; [|exact Hst1].
      assert (Hrv1 : revs_ok (d_revs s1)) by (destruct Hn as (H1 & D1 & HI1); apply (inv_revs _ _ _ _ _ HI1)).
      apply (OK_revs s1); auto.
      * cbn. apply DurSem.revs_ok_report_write; exact Hrv1.
      * intros k. unfold lcs; cbn. apply DurSem.lc_report_write_ge; exact Hrv1.
  - (* OSetCell *)
    split; [|exact Hst]. apply (OK_d_same s); auto. apply evicted_refl.
  - (* OSetPanic *)
    split; [|exact Hst]. destruct dirty; destruct Hok as [A _].
    + apply (OK_d_same s); auto. apply evicted_refl.
    + apply (OK_same s); auto. apply evicted_refl.
  - exact I.
  - exact I.
  - (* OSetLru *)
    split; [|cbn; rewrite zalsa_mut_stack; exact Hst].
    destruct dirty; destruct Hok as [A _].
    + apply (OK_d_same (zalsa_mut fams s)); auto; [apply OK_d_zalsa_mut; exact A | apply evicted_refl].
    + apply (OK_same (zalsa_mut fams s)); auto; [apply OK_zalsa_mut; exact A | apply evicted_refl].
  - (* OEvict *)
    destruct (evict_all_sbm fams (zalsa_mut fams s)) as [A1 A2 A3 A4 A5].
    split; [|rewrite A4, zalsa_mut_stack; exact Hst].
    destruct dirty; destruct Hok as [A _].
    + apply (OK_d_same (zalsa_mut fams s)); auto. apply OK_d_zalsa_mut; exact A.
    + apply (OK_same (zalsa_mut fams s)); auto. apply OK_zalsa_mut; exact A.
Qed.

Lemma init_ok_dur iv idur lru0 : (forall i, idur i <= 3) -> state_ok false (init iv idur lru0).
Proof.
  intros Hid. split; [|reflexivity].
  exists (fun _ => snap_of (init iv idur lru0)), (fun _ => idur).
  constructor.
  - cbn. unfold REV_START. lia.
  - cbn. unfold DurSem.revs_ok, REV_START; cbn. lia.
  - intros i r _ _. reflexivity.
  - intros i r _ _. reflexivity.
  - intros i. cbn. unfold REV_START. lia.
  - intros c. reflexivity.
  - intros r i. apply Hid.
  - intros r i _ _. split; reflexivity.
  - intros q m Hm. discriminate.
Qed.

End Top.

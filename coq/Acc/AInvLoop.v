(* Acc/AInvLoop.v — the accumulated_by loop over states satisfying the Acc invariant: it
   terminates within a bound computed from the from-scratch call tree, keeps the invariant, and
   returns [spec_acc] of the current snapshot.  This discharges the [acc_view] hypothesis of
   Acc/ProofsLoop.v: the graph the loop walks is the one recorded in the memos it refreshes
   (which stay put once verified in the current revision), and that graph equals the
   from-scratch call graph up to entries below which nothing is pushed. *)
From Salsa Require Import Base.
From Salsa.Kern Require Import CoreK CoreKFacts.
From Salsa.Core Require DurSem.
From Salsa.Acc Require Import Model Spec ProofsDfs ProofsSpec ProofsLoop AInvBase ADurSem AInv AInvSem AInvOps.

Section Loop.
Variable persist : bool.
Variable prog : qkey -> body.
Variable noeq : qkey -> bool.
Variable rank : qkey -> nat.
Hypothesis Hrank : calls_below prog rank.
Variable NF : nat.
Hypothesis Hbound : forall q, (rank q < NF)%nat.
Variable H : hist.
Variable D : dhist.
Notation tr := (tr prog NF H).
Notation psh := (psh prog NF H).
Notation deadq := (deadq prog NF H).
Notation AInv := (AInv prog NF H D).
Notation XP := (XP prog NF H D).
Notation fetch_spec := (fetch_spec prog rank NF H D).
Notation mca_spec := (mca_spec prog rank NF H D).

Variable L : lower.
Variable nl : nat.
Hypothesis HF : fetch_spec L nl.
Hypothesis HM : mca_spec L nl.
Hypothesis Hnl : forall q, (rank q <= nl)%nat.

Variable c : rev.          (* the revision the loop runs in *)

(* ---------------------------------------------------------------- a bound on the iterations *)
Definition edges_at (q : qkey) : list edge := redges (tr c q).

Fixpoint tsize (n : nat) (q : qkey) : nat :=
  match n with
  | O => O
  | S n' => list_sum (map (fun e => S (match e with EIn _ => O | EQ d => tsize n' d end)) (edges_at q))
  end.

Definition wgt (n : nat) (e : edge) : nat := S (match e with EIn _ => O | EQ d => tsize n d end).
Definition phi (n : nat) (l : list edge) : nat := list_sum (map (wgt n) l).

Lemma tsize_S n q : tsize (S n) q = phi n (edges_at q).
Proof. reflexivity. Qed.

Lemma edges_at_rank q d : In (EQ d) (edges_at q) -> (rank d < rank q)%nat.
Proof. intros Hd. apply redges_In_q in Hd. apply (tr_calls prog rank Hrank NF H _ _ _ Hd). Qed.

Lemma tsize_fuel : forall n m q, (rank q < n)%nat -> (rank q < m)%nat -> tsize n q = tsize m q.
Proof.
  induction n as [|n IH]; intros m q Hn Hm; [lia|].
  destruct m as [|m]; [lia|].
  rewrite !tsize_S. unfold phi. f_equal. apply map_ext_in.
  intros e He. unfold wgt. destruct e as [i | d]; [reflexivity|].
  f_equal. pose proof (edges_at_rank q d He). apply IH; lia.
Qed.

Definition T (q : qkey) : nat := tsize NF q.
Definition W (e : edge) : nat := wgt NF e.
Definition Phi (l : list edge) : nat := phi NF l.

Lemma T_unfold q : T q = Phi (edges_at q).
Proof.
  unfold T, Phi. pose proof (Hbound q) as Hq. destruct NF as [|n] eqn:HN; [lia|].
  rewrite tsize_S. unfold phi. f_equal. apply map_ext_in.
  intros e He. unfold wgt. destruct e as [i | d]; [reflexivity|].
  f_equal. pose proof (edges_at_rank q d He). pose proof (Hbound d). apply tsize_fuel; lia.
Qed.

Lemma Phi_cons e l : Phi (e :: l) = (W e + Phi l)%nat.
Proof. reflexivity. Qed.

Lemma Phi_app a b : Phi (a ++ b) = (Phi a + Phi b)%nat.
Proof. unfold Phi, phi. rewrite map_app, list_sum_app. reflexivity. Qed.

Lemma W_pos e : (1 <= W e)%nat.
Proof. unfold W, wgt. lia. Qed.

Lemma Phi_sub (R : edge -> Prop) l1 l2 : sub_rm R l1 l2 -> (Phi l1 <= Phi l2)%nat.
Proof. induction 1; rewrite ?Phi_cons; [cbn; lia | lia | lia]. Qed.

Lemma Phi_dd l : forall seen, (Phi (dd seen l) <= Phi l)%nat.
Proof.
  induction l as [|k l IH]; intros seen; cbn [dd]; [lia|].
  destruct (mem k seen); rewrite ?Phi_cons; [specialize (IH seen); lia | specialize (IH (k :: seen)); lia].
Qed.

(* ---------------------------------------------------------------- the loop *)
Definition validm (s : db) (q : qkey) (m : memo) : Prop :=
  d_memo s q = Some m /\ m_verified m = cur s /\ m_val m <> None.

Definition fsucc_m (m : memo) : list edge := if m_accin m then m_edges m else [].

(* a graph that shows, for every function valid in s, what its memo records *)
Definition compat (s : db) (G : qkey -> list edge) : Prop :=
  forall q m, validm s q m -> G q = fsucc_m m.

Definition own (q : qkey) : list val := psh c q.

Lemma validm_ext s s' q m : dext s s' -> validm s q m -> validm s' q m.
Proof.
  intros He (A & B & C). split; [apply (ext_valid _ _ He); assumption|].
  split; [rewrite (dext_cur _ _ He); exact B | exact C].
Qed.

Lemma loop_ok : forall n stack vis out s,
  cur s = c -> AInv s -> d_stack s = [] -> (Phi stack < n)%nat ->
  wp (acc_loop persist prog noeq L n stack vis out)
     (fun l s' => AInv s' /\ dext s s' /\ d_stack s' = [] /\
                  forall G, compat s' G -> ploop G own n stack vis out = Some l) (XP s) s.
Proof.
  induction n as [|n IH]; intros stack vis out s Hc HI Hst Hphi; [lia|].
  cbn [acc_loop]. destruct stack as [|k st].
  - apply wp_ret. split; [exact HI|]. split; [apply dext_refl|]. split; [exact Hst|].
    intros G _. reflexivity.
  - rewrite Phi_cons in Hphi. pose proof (W_pos k) as HW.
    change (existsb (edge_eqb k) vis) with (mem k vis).
    destruct (mem k vis) eqn:Hmem.
    + eapply wp_conseq; [apply (IH st vis out s Hc HI Hst); lia | | intros; assumption].
      intros l s' (A & B & C & Hp). split; [exact A|]. split; [exact B|]. split; [exact C|].
      intros G HG. cbn [ploop]. rewrite Hmem. apply Hp; exact HG.
    + destruct k as [i | q].
      * eapply wp_conseq; [apply (IH st (EIn i :: vis) out s Hc HI Hst); lia | | intros; assumption].
        intros l s' (A & B & C & Hp). split; [exact A|]. split; [exact B|]. split; [exact C|].
        intros G HG. cbn [ploop]. rewrite Hmem. apply Hp; exact HG.
      * assert (Hso : stack_ok rank s q) by (intros p Hp; rewrite Hst in Hp; destruct Hp).
        apply wp_bind.
        eapply wp_conseq; [apply (refresh_ok persist prog noeq rank Hrank NF Hbound H D L nl HF HM q s (Hnl q) HI Hso) | | intros; assumption].
        intros [m v] s1 (HI1 & He1 & _ & Hs1 & Hm1 & Hv1 & Hval1 & _). cbn [fst snd] in *.
        pose proof (dext_cur _ _ He1) as Hc1.
        assert (Hvalid1 : validm s1 q m).
        { split; [exact Hm1|]. split; [congruence | rewrite Hval1; discriminate]. }
        pose proof (inv_memo _ _ _ _ _ HI1 q m Hm1) as Hok.
        assert (Hown : m_acc m = own q).
        { unfold own. rewrite (mo_acc _ _ _ _ _ _ _ Hok). congruence. }
        assert (Hst1 : d_stack s1 = []) by congruence.
        assert (Hcs1 : cur s1 = c) by congruence.
        unfold W, wgt in Hphi. fold (T q) in Hphi.
        destruct (m_accin m) eqn:Hai; cbn [negb].
        -- apply wp_bind, wp_get. rewrite Hm1.
           assert (Hle : (Phi (m_edges m) <= T q)%nat).
           { rewrite T_unfold. unfold edges_at.
             pose proof (mo_esub _ _ _ _ _ _ _ Hok) as Hsub.
             replace (m_verified m) with c in Hsub by congruence.
             pose proof (Phi_sub _ _ _ Hsub). pose proof (Phi_dd (redges (tr c q)) []). lia. }
           eapply wp_conseq; [apply (IH (m_edges m ++ st) (EQ q :: vis) (out ++ m_acc m) s1 Hcs1 HI1 Hst1);
                               rewrite Phi_app; lia | |].
           ++ intros l s' (A & B & C & Hp). split; [exact A|]. split; [eapply dext_trans; eassumption|].
              split; [exact C|].
              intros G HG. cbn [ploop]. rewrite Hmem.
              rewrite (HG q m (validm_ext s1 s' q m B Hvalid1)). unfold fsucc_m. rewrite Hai, <- Hown.
              apply Hp; exact HG.
           ++ intros p s' Hx. eapply XP_trans; eassumption.
        -- eapply wp_conseq; [apply (IH st (EQ q :: vis) (out ++ m_acc m) s1 Hcs1 HI1 Hst1); lia | |].
           ++ intros l s' (A & B & C & Hp). split; [exact A|]. split; [eapply dext_trans; eassumption|].
              split; [exact C|].
              intros G HG. cbn [ploop]. rewrite Hmem.
              rewrite (HG q m (validm_ext s1 s' q m B Hvalid1)). unfold fsucc_m. rewrite Hai, <- Hown.
              cbn [app]. apply Hp; exact HG.
           ++ intros p s' Hx. eapply XP_trans; eassumption.
Qed.

(* ---------------------------------------------------------------- nothing pushed below: as a boolean *)
Fixpoint deadb (n : nat) (q : qkey) : bool :=
  match n with
  | O => true
  | S n' => match psh c q with
            | [] => forallb (deadb n') (rq_of (tr c q))
            | _ => false
            end
  end.

Lemma deadb_deadq : forall n q, (rank q < n)%nat -> (deadb n q = true <-> deadq c q).
Proof.
  induction n as [|n IH]; intros q Hq; [lia|]. cbn [deadb]. split.
  - destruct (psh c q) eqn:Hp; [|discriminate]. intros Hall. constructor; [exact Hp|].
    intros d Hd. rewrite forallb_forall in Hall.
    apply IH; [pose proof (tr_calls prog rank Hrank NF H _ _ _ Hd); lia|].
    apply Hall. apply rq_of_In. exact Hd.
  - intros Hd. rewrite (deadq_own _ _ _ _ _ Hd). apply forallb_forall.
    intros d Hin. apply rq_of_In in Hin.
    apply IH; [pose proof (tr_calls prog rank Hrank NF H _ _ _ Hin); lia|].
    apply (deadq_q _ _ _ _ _ _ Hd Hin).
Qed.

Definition dead (e : edge) : bool := match e with EIn _ => true | EQ q => deadb NF q end.

Lemma dead_q q : dead (EQ q) = true <-> deadq c q.
Proof. apply deadb_deadq. apply Hbound. Qed.

(* ---------------------------------------------------------------- the two graphs *)
Definition ssucc (q : qkey) : list edge := sem_succ prog NF (H c) q.

Lemma ssucc_tr q : ssucc q = map EQ (rq_of (tr c q)).
Proof. unfold ssucc, sem_succ, spec_succ. rewrite callees_trace. reflexivity. Qed.

Definition g2 (s : db) (q : qkey) : list edge :=
  match d_memo s q with
  | Some m => if (m_verified m =? cur s) && (match m_val m with Some _ => true | None => false end)
              then fsucc_m m else dd [] (ssucc q)
  | None => dd [] (ssucc q)
  end.

Lemma compat_g2 s : compat s (g2 s).
Proof.
  intros q m (Hm & Hv & Hx). unfold g2. rewrite Hm, Hv, N.eqb_refl.
  destruct (m_val m); [reflexivity | contradiction].
Qed.

Lemma g2_cases s q :
  (exists m, validm s q m /\ g2 s q = fsucc_m m) \/ g2 s q = dd [] (ssucc q).
Proof.
  unfold g2. destruct (d_memo s q) as [m|] eqn:Hm; [|right; reflexivity].
  destruct (N.eqb_spec (m_verified m) (cur s)) as [Hv | Hv]; cbn [andb]; [|right; reflexivity].
  destruct (m_val m) as [v|] eqn:Hx; [|right; reflexivity].
  left. exists m. split; [|reflexivity]. split; [exact Hm|]. split; [exact Hv | rewrite Hx; discriminate].
Qed.

Lemma alldead_ssucc q : deadq c q -> alldead dead (dd [] (ssucc q)).
Proof.
  intros Hd. apply alldead_dd. rewrite ssucc_tr. apply Forall_forall.
  intros e He. apply in_map_iff in He. destruct He as (d & <- & Hin). apply rq_of_In in Hin.
  apply dead_q. apply (deadq_q _ _ _ _ _ _ Hd Hin).
Qed.

(* the loop over a state with the invariant returns the specification *)
Theorem acc_loop_correct q s n :
  cur s = c -> AInv s -> d_stack s = [] -> (S (T q) < n)%nat ->
  wp (acc_loop persist prog noeq L n [EQ q] [] [])
     (fun l s' => AInv s' /\ dext s s' /\ d_stack s' = [] /\ l = spec_acc prog NF (H c) q) (XP s) s.
Proof.
  intros Hc HI Hst Hn.
  eapply wp_conseq; [apply (loop_ok n [EQ q] [] [] s Hc HI Hst) | | intros; assumption].
  { rewrite Phi_cons. unfold W, wgt. fold (T q). unfold Phi, phi. cbn. lia. }
  intros l s' (HI' & He & Hst' & Hp). split; [exact HI'|]. split; [exact He|]. split; [exact Hst'|].
  pose proof (Hp (g2 s') (compat_g2 s')) as PL.
  pose proof (dext_cur _ _ He) as Hc'.
  apply ploop_dfs in PL. destruct PL as (o2 & D2 & ->). cbn [app].
  destruct (spec_acc_dfs prog rank Hrank NF Hbound (H c) q) as (o1 & D1 & ->).
  pose proof (dfs_dd_graph _ _ _ _ D1) as D1'.
  assert (Hdo : forall p, dead (EQ p) = true -> own p = []).
  { intros p Hp0. apply dead_q in Hp0. apply (deadq_own _ _ _ _ _ Hp0). }
  assert (Hnotdead : forall e, rmok prog NF H D c e -> live dead e = false).
  { intros e He0. unfold live. destruct e as [i | d]; [reflexivity|].
    destruct He0 as [_ Hdq]. apply dead_q in Hdq. rewrite Hdq. reflexivity. }
  destruct (dfs_dead own dead Hdo (fun p => dd [] (ssucc p)) (g2 s')) with
      (v := @nil edge) (ks := [EQ q]) (o := o1) (w := @nil edge) (ks2 := [EQ q]) (p := o2) as (O & _).
  - intros p Hp0. apply alldead_ssucc. apply dead_q. exact Hp0.
  - intros p Hp0. apply dead_q in Hp0.
    destruct (g2_cases s' p) as [(m & (Hm & Hv & Hx) & ->) | ->]; [|apply alldead_ssucc; exact Hp0].
    unfold fsucc_m. destruct (m_accin m); [|constructor].
    pose proof (inv_memo _ _ _ _ _ HI' p m Hm) as Hok.
    apply Forall_forall. intros e He0. destruct e as [i | d]; [reflexivity|].
    apply dead_q. pose proof (mo_edges_q _ _ _ _ _ _ _ Hok d He0) as Hin.
    replace (m_verified m) with c in Hin by congruence.
    apply (deadq_q _ _ _ _ _ _ Hp0 Hin).
  - intros p Hp0.
    destruct (g2_cases s' p) as [(m & (Hm & Hv & Hx) & ->) | ->]; [|reflexivity].
    pose proof (inv_memo _ _ _ _ _ HI' p m Hm) as Hok.
    assert (Hvc : m_verified m = c) by congruence.
    unfold fsucc_m. destruct (m_accin m) eqn:Hai.
    + pose proof (mo_esub _ _ _ _ _ _ _ Hok) as Hsub. rewrite Hvc in Hsub.
      rewrite (sub_rm_filter _ (live dead) _ _ Hnotdead Hsub).
      rewrite ssucc_tr. symmetry.
      apply (dd_redges_filter (live dead)); [intros i; reflexivity | intros x; reflexivity].
    + cbn [filter]. apply filter_live_alldead. apply alldead_dd. rewrite ssucc_tr.
      apply Forall_forall. intros e He0. apply in_map_iff in He0. destruct He0 as (d & <- & Hin).
      apply rq_of_In in Hin. apply dead_q.
      pose proof (mo_flag _ _ _ _ _ _ _ Hok Hai d) as Hfl. rewrite Hvc in Hfl. apply Hfl. exact Hin.
  - exact D1'.
  - apply eqv_refl.
  - reflexivity.
  - exact D2.
  - symmetry. exact O.
Qed.

End Loop.
